//go:build verif

package dnssec

// C14 correspondence driver, part 1 (overlay-injected, never committed to
// /repo): shared helpers and the primitives — base64 reading, key tags,
// oversized key material, RFC 3110 key parsing, RSA key bounds, the raw
// PKCS#1 v1.5 verification, name helpers, DS digests and VerifyDS.
//
// Every case is a three-way comparison: what sdns returned, what the
// independent reference says (miekg/dns: DNSKEY.KeyTag / ToDS, math/big, or
// the generator's own ground truth), and — in Coq — what the model computes
// from the same input.  A reference disagreement that the property forbids is
// reported through go_fail; the model comparison happens in C14.Run.

import (
	"bytes"
	"crypto"
	"crypto/sha1"
	"crypto/sha256"
	"crypto/sha512"
	"encoding/base64"
	"encoding/hex"
	"encoding/json"
	"fmt"
	"math/big"
	"math/rand"
	"os"
	"sort"
	"strconv"
	"strings"
	"testing"

	"github.com/miekg/dns"
	"github.com/semihalev/sdns/internal/dnsutil"
)

// ------------------------------------------------------------------ trace

type vC14Trace struct {
	f *os.File
	n int
}

func vC14Open(t *testing.T) *vC14Trace {
	p := os.Getenv("VERIF_OUT")
	if p == "" {
		t.Skip("VERIF_OUT not set")
	}
	f, err := os.Create(p)
	if err != nil {
		t.Fatal(err)
	}
	return &vC14Trace{f: f}
}

func (v *vC14Trace) emit(k, coq, goFail string, nontrivial bool, desc any) {
	m := map[string]any{"k": k, "go_fail": goFail, "nontrivial": nontrivial, "desc": desc}
	if coq != "" {
		m["coq"] = coq
	}
	b, _ := json.Marshal(m)
	v.f.Write(append(b, '\n'))
	v.n++
}

func vC14EnvInt(name string, def int) int {
	if s := os.Getenv(name); s != "" {
		if n, err := strconv.Atoi(s); err == nil {
			return n
		}
	}
	return def
}

// vC14Guard runs f and turns a panic into a description.
func vC14Guard(f func()) (panicked string) {
	defer func() {
		if r := recover(); r != nil {
			panicked = fmt.Sprint(r)
		}
	}()
	f()
	return ""
}

// ------------------------------------------------------------- Coq terms

// vC14Str renders an octet string as a Coq term of type list N: runs of
// plain printable characters as (bs "..."), everything else as numbers.
func vC14Str(s string) string {
	if len(s) == 0 {
		return "[]"
	}
	var parts []string
	i := 0
	for i < len(s) {
		j := i
		for j < len(s) && s[j] >= 0x20 && s[j] < 0x7f && s[j] != '"' {
			j++
		}
		if j > i {
			parts = append(parts, `bs "`+s[i:j]+`"`)
			i = j
			continue
		}
		var nums []string
		for j < len(s) && !(s[j] >= 0x20 && s[j] < 0x7f && s[j] != '"') {
			nums = append(nums, strconv.Itoa(int(s[j])))
			j++
		}
		parts = append(parts, "["+strings.Join(nums, ";")+"]%N")
		i = j
	}
	if len(parts) == 1 {
		return "(" + parts[0] + ")"
	}
	return "(" + strings.Join(parts, " ++ ") + ")"
}

func vC14Hex(b []byte) string {
	if len(b) == 0 {
		return "[]"
	}
	return `(hx "` + hex.EncodeToString(b) + `")`
}

func vC14Big(n *big.Int) string {
	if n.Sign() == 0 {
		return "0%N"
	}
	return `(hn "` + n.Text(16) + `")`
}

func vC14Bool(b bool) string {
	if b {
		return "true"
	}
	return "false"
}

func vC14Key(k *dns.DNSKEY) string {
	return fmt.Sprintf("(mk_key %s %d %d %d %d %s)", vC14Str(k.Hdr.Name), k.Hdr.Class, k.Flags, k.Protocol, k.Algorithm, vC14Str(k.PublicKey))
}

type vC14Oracle struct {
	msg           []byte
	hids          []int // hash ids (crypto.Hash values) whose digest of msg is supplied
	ecp, ecv, edv bool
	none          bool
}

func vC14Digests(msg []byte, hids []int) string {
	var p []string
	for _, h := range hids {
		var d []byte
		switch crypto.Hash(h) {
		case crypto.SHA1:
			x := sha1.Sum(msg)
			d = x[:]
		case crypto.SHA256:
			x := sha256.Sum256(msg)
			d = x[:]
		case crypto.SHA384:
			x := sha512.Sum384(msg)
			d = x[:]
		case crypto.SHA512:
			x := sha512.Sum512(msg)
			d = x[:]
		default:
			continue
		}
		p = append(p, fmt.Sprintf("(%d%%N, %s)", h, vC14Hex(d)))
	}
	return "[" + strings.Join(p, "; ") + "]"
}

// vC14DSHashID is the hash of a DS digest type (RFC 4034, 4509, 6605) as a crypto.Hash value.
func vC14DSHashID(dt uint8) []int {
	switch dt {
	case 1:
		return []int{int(crypto.SHA1)}
	case 2:
		return []int{int(crypto.SHA256)}
	case 4:
		return []int{int(crypto.SHA384)}
	}
	return nil
}

// vC14HashIDFor is the hash a DNSSEC algorithm number signs with (RFC 3110, 5702, 6605).
func vC14HashIDFor(alg uint8) []int {
	switch alg {
	case 5, 7:
		return []int{int(crypto.SHA1)}
	case 8, 13:
		return []int{int(crypto.SHA256)}
	case 14:
		return []int{int(crypto.SHA384)}
	case 10:
		return []int{int(crypto.SHA512)}
	}
	return nil
}

func (o vC14Oracle) coq() string {
	if o.none {
		return "no_oracle"
	}
	return fmt.Sprintf("(mk_orc %s %s %s %s %s)", vC14Hex(o.msg), vC14Digests(o.msg, o.hids), vC14Bool(o.ecp), vC14Bool(o.ecv), vC14Bool(o.edv))
}

// ------------------------------------------------------------ generators

const vC14B64 = "ABCDEFGHIJKLMNOPQRSTUVWXYZabcdefghijklmnopqrstuvwxyz0123456789+/"

func vC14RandBytes(r *rand.Rand, n int) []byte {
	b := make([]byte, n)
	r.Read(b)
	return b
}

// vC14Wrap inserts line breaks the way key files are wrapped, or at random.
func vC14Wrap(r *rand.Rand, s string) string {
	var b strings.Builder
	switch r.Intn(4) {
	case 0: // every 64 characters
		for i := 0; i < len(s); i += 64 {
			e := min(i+64, len(s))
			b.WriteString(s[i:e])
			if e < len(s) || r.Intn(2) == 0 {
				b.WriteString([]string{"\n", "\r\n"}[r.Intn(2)])
			}
		}
	case 1: // one break somewhere
		p := 0
		if len(s) > 0 {
			p = r.Intn(len(s) + 1)
		}
		b.WriteString(s[:p] + "\n" + s[p:])
	case 2: // break right at / around a chunk boundary
		p := []int{255, 256, 257, 252, 260, 511, 512}[r.Intn(7)]
		if p > len(s) {
			p = len(s)
		}
		b.WriteString(s[:p] + []string{"\n", "\r\n", "\n\n\n\n", "\r"}[r.Intn(4)] + s[p:])
	default: // sprinkled
		for i := 0; i < len(s); i++ {
			if r.Intn(40) == 0 {
				b.WriteByte("\n\r"[r.Intn(2)])
			}
			b.WriteByte(s[i])
		}
	}
	return b.String()
}

// vC14Mangle damages base64 text in one of the ways the recorded divergences did.
func vC14Mangle(r *rand.Rand, s string) string {
	pos := func() int {
		if len(s) == 0 {
			return 0
		}
		if r.Intn(3) == 0 { // near a chunk boundary
			p := []int{252, 253, 254, 255, 256, 257, 258, 259, 260, 508, 512, 516}[r.Intn(12)]
			if p <= len(s) {
				return p
			}
		}
		return r.Intn(len(s) + 1)
	}
	switch r.Intn(12) {
	case 9, 10: // damage that keeps the length (and so the grouping of everything behind it): one character
		// replaced by padding or by an octet outside the alphabet
		if len(s) == 0 {
			return s
		}
		p := pos()
		if p >= len(s) {
			p = r.Intn(len(s))
		}
		return s[:p] + []string{"=", "=", "!", "-", "_", " ", "\x00", "\xff"}[r.Intn(8)] + s[p+1:]
	case 11: // a whole group of four put in on a group boundary (now and then off it): a padded or damaged
		// group in front of well-formed material
		p := pos() &^ 3
		if r.Intn(5) == 0 {
			p = pos()
		}
		if p > len(s) {
			p = len(s) &^ 3
		}
		return s[:p] + []string{"AA==", "AAA=", "A===", "====", "!AAA", "AA=A", "A=AA", "AAA!"}[r.Intn(8)] + s[p:]
	case 0: // padding in the middle
		p := pos()
		return s[:p] + []string{"=", "==", "A=", "AA=", "AA==", "AAA="}[r.Intn(6)] + s[p:]
	case 1: // an octet outside the alphabet
		p := pos()
		return s[:p] + []string{"!", " ", "-", "_", "\x00", "\t", ".", "\xff"}[r.Intn(8)] + s[p:]
	case 2: // drop the tail (breaks the final group)
		if len(s) > 0 {
			return s[:len(s)-1-r.Intn(min(3, len(s)))]
		}
		return s
	case 3: // trailing garbage after padding
		return s + []string{"A", "AAAA", "=", "\n=", "\nAAAA", " "}[r.Intn(6)]
	case 4: // strip padding
		return strings.TrimRight(s, "=")
	case 5: // delete one character
		if len(s) > 0 {
			p := r.Intn(len(s))
			return s[:p] + s[p+1:]
		}
		return s
	case 6: // break the padding apart with a line break
		if strings.HasSuffix(s, "==") {
			return s[:len(s)-1] + "\n=" + []string{"", "\n"}[r.Intn(2)]
		}
		return s + "\n"
	case 7: // truncate at a chunk-relative position
		p := pos()
		return s[:p]
	default:
		return vC14Wrap(r, s)
	}
}

func vC14KeyLen(r *rand.Rand) int {
	switch r.Intn(10) {
	case 0:
		return r.Intn(5)
	case 1, 2: // around the 192-octet decode chunk
		return []int{189, 190, 191, 192, 193, 194, 195, 383, 384, 385, 576, 577}[r.Intn(12)]
	case 3:
		return []int{32, 64, 96}[r.Intn(3)]
	case 4:
		return []int{130, 131, 132, 260, 261, 515}[r.Intn(6)]
	default:
		return r.Intn(300)
	}
}

var vC14Labels = []string{"example", "Example", "EXAMPLE", "com", "COM", "net", "a", "B", "www", "WWW", "mail", "x-1", "_tcp", "sub", "Sub", "evil", "evilexample", "z9", "1", "host",
	`w\.w`, `b\\b`, `sp\032ace`, "example", "com"}

func vC14Label(r *rand.Rand) string {
	switch r.Intn(12) {
	case 0:
		n := 1 + r.Intn(8)
		b := make([]byte, n)
		for i := range b {
			b[i] = "abcdefghijklmnopqrstuvwxyzABCDEFGHIJKLMNOPQRSTUVWXYZ0123456789-_"[r.Intn(64)]
		}
		return string(b)
	case 1:
		return strings.Repeat("L", []int{62, 63}[r.Intn(2)])
	default:
		return vC14Labels[r.Intn(len(vC14Labels))]
	}
}

// vC14Name builds a fully-qualified name of n labels.
func vC14Name(r *rand.Rand, n int) string {
	if n == 0 {
		return "."
	}
	var p []string
	for i := 0; i < n; i++ {
		p = append(p, vC14Label(r))
	}
	return strings.Join(p, ".") + "."
}

// vC14OddName builds names that exercise the escape handling and the error
// paths of the name helpers.
func vC14OddName(r *rand.Rand) string {
	pieces := []string{"a", "B", "ex", `\.`, `\\`, `\046`, `\000`, `\255`, `\032`, `\1`, `\12x`, ".", ".", ".", "*", "-", `\`, "w"}
	n := 1 + r.Intn(7)
	var b strings.Builder
	for i := 0; i < n; i++ {
		b.WriteString(pieces[r.Intn(len(pieces))])
	}
	if r.Intn(3) != 0 {
		b.WriteString(".")
	}
	return b.String()
}

func vC14MixCase(r *rand.Rand, s string) string {
	b := []byte(s)
	for i, c := range b {
		if r.Intn(3) == 0 {
			if c >= 'a' && c <= 'z' {
				b[i] = c - 32
			} else if c >= 'A' && c <= 'Z' {
				b[i] = c + 32
			}
		}
	}
	return string(b)
}

// ------------------------------------------------------------ references

// vC14LibKeyTag is dns.DNSKEY.KeyTag with its panic caught.
func vC14LibKeyTag(k *dns.DNSKEY) (tag uint16, panicked bool) {
	if p := vC14Guard(func() { tag = k.KeyTag() }); p != "" {
		return 0, true
	}
	return tag, false
}

func vC14OptN(v uint16, none bool) string {
	if none {
		return "None"
	}
	return fmt.Sprintf("(Some %d%%N)", v)
}

// DigestInfo prefixes of RFC 8017 9.2, written out independently of the code under test.
var vC14DigestInfo = map[uint8][]byte{
	5:  {0x30, 0x21, 0x30, 0x09, 0x06, 0x05, 0x2b, 0x0e, 0x03, 0x02, 0x1a, 0x05, 0x00, 0x04, 0x14},
	7:  {0x30, 0x21, 0x30, 0x09, 0x06, 0x05, 0x2b, 0x0e, 0x03, 0x02, 0x1a, 0x05, 0x00, 0x04, 0x14},
	8:  {0x30, 0x31, 0x30, 0x0d, 0x06, 0x09, 0x60, 0x86, 0x48, 0x01, 0x65, 0x03, 0x04, 0x02, 0x01, 0x05, 0x00, 0x04, 0x20},
	10: {0x30, 0x51, 0x30, 0x0d, 0x06, 0x09, 0x60, 0x86, 0x48, 0x01, 0x65, 0x03, 0x04, 0x02, 0x03, 0x05, 0x00, 0x04, 0x40},
}

func vC14HashFor(alg uint8, msg []byte) []byte {
	switch alg {
	case 5, 7:
		h := sha1.Sum(msg)
		return h[:]
	case 8, 13:
		h := sha256.Sum256(msg)
		return h[:]
	case 14:
		h := sha512.Sum384(msg)
		return h[:]
	case 10:
		h := sha512.Sum512(msg)
		return h[:]
	}
	return nil
}

// vC14EM is EMSA-PKCS1-v1_5 as a number; nil when the modulus is too short.
func vC14EM(n *big.Int, alg uint8, hashed []byte) *big.Int {
	k := (n.BitLen() + 7) / 8
	t := append(append([]byte{}, vC14DigestInfo[alg]...), hashed...)
	if k < len(t)+11 {
		return nil
	}
	em := make([]byte, k)
	em[1] = 1
	for i := 2; i < k-len(t)-1; i++ {
		em[i] = 0xff
	}
	copy(em[k-len(t):], t)
	return new(big.Int).SetBytes(em)
}

// vC14BigVerify is RSASSA-PKCS1-v1_5 verification in plain big-integer arithmetic.
func vC14BigVerify(n, e *big.Int, alg uint8, hashed, sig []byte) bool {
	k := (n.BitLen() + 7) / 8
	if len(sig) != k {
		return false
	}
	c := new(big.Int).SetBytes(sig)
	if c.Cmp(n) >= 0 {
		return false
	}
	em := vC14EM(n, alg, hashed)
	if em == nil {
		return false
	}
	return new(big.Int).Exp(c, e, n).Cmp(em) == 0
}

type vC14RSAKey struct {
	p, q, n, lambda *big.Int
}

func vC14NewRSA(p, q *big.Int) *vC14RSAKey {
	one := big.NewInt(1)
	p1 := new(big.Int).Sub(p, one)
	q1 := new(big.Int).Sub(q, one)
	g := new(big.Int).GCD(nil, nil, p1, q1)
	l := new(big.Int).Mul(p1, q1)
	l.Div(l, g)
	return &vC14RSAKey{p: p, q: q, n: new(big.Int).Mul(p, q), lambda: l}
}

// sign returns the signature of em under exponent e as size octets, or nil
// when e has no inverse.
func (k *vC14RSAKey) sign(e, em *big.Int) []byte {
	d := new(big.Int).ModInverse(e, k.lambda)
	if d == nil {
		return nil
	}
	s := new(big.Int).Exp(em, d, k.n)
	out := make([]byte, (k.n.BitLen()+7)/8)
	s.FillBytes(out)
	return out
}

// vC14Prime finds the first probable prime p >= a random odd number of the
// given size with p = 2 (mod 3), deterministically from r.
func vC14Prime(r *rand.Rand, bits int) *big.Int {
	b := vC14RandBytes(r, (bits+7)/8)
	p := new(big.Int).SetBytes(b)
	p.SetBit(p, bits-1, 1)
	p.SetBit(p, bits-2, 1)
	for i := p.BitLen() - 1; i >= bits; i-- {
		p.SetBit(p, i, 0)
	}
	p.SetBit(p, 0, 1)
	two := big.NewInt(2)
	three := big.NewInt(3)
	for {
		if new(big.Int).Mod(p, three).Int64() == 2 && p.ProbablyPrime(16) {
			return p
		}
		p.Add(p, two)
	}
}

// Primes generated once (crypto/rand.Prime, p = 2 mod 3) and fixed here so
// that no run depends on a key generator.
var vC14PrimeHex = map[string]string{
	"p511": "7477880b88a093630ec76dd3e5f238bb58e9f6012fd9a8a9f8a40c7feb8c3ba102c086ec191f6f1aad7a09362f7c3dc4852a8f2317fb054ae878fc4208ca8cad",
	"p512a": "cd8f49c2d83148f089b567e8a0106e5a67798480249f1ae12444bfc685cb67c336a8f951b8ba6ec70d1086d62ee0eabe6494b51c0f2b37d05a977aebbe061d5f",
	"p512b": "ebaae1b5f96972ac579e47eb158dbd8750d6fe961a31c36484f16c8e6292f9d9915283d7044884d8918fe3524db39c667449aff8ba66bdcb4a22eae0a2260d9f",
	"p512c": "c06e3b4844d7bf397b5b5de7515e0efbdd50d152d6bf9d91ed123b53deec1e603d983f4ae4f93d146246cf2242a225dfb57b581dd370c3a94766c69ccbf5ebed",
	"p512d": "dc757d6c0a6fc171cafff5783a2338e27ac3adc659ae4ae82bcefbc9e076d8c1a9527bbecedd9e19e5cd5b0db8921647f19f31c223e6864f9e2595efbd8d9425",
	"p513": "1a843a63fc9f78832d21deaee6c4d63d04455c1cfc8ad9ec49d806c5568d7b106d09837df5102e27d9fb6eef2ca497245c5e27958e05a4f9a14d9ab0916973f2f",
	"p1024a": "fc33c44d26a33735a529b33be0fa0094dd397c5d8d028e97cd3916f4ee1caad751c73d5b2fc54c8d1b7ee2c348e210da1ae9df1acc423326657a2dea756aa87c8ec0cb78d9d99b21a92ab48df31467c9efe97f3f36674ffa444b2da7adaf95d78202a7a1183561062495bfc17db9ca538d772ebda84c59229dcf6b598f22a597",
	"p1024b": "d95370aee125b8cac1f8ef2fffae6f344cd6052cdfb156fd676965e07962ba5f6d97bfa8a4ac868ffc09013a7fdc7c4b0803cd4337e87803cbeb6c9a50c6549ad4d74d69f97f8709f48c82e0d0a9893bc164018c02cfe5d8ad28d12b687a3a4753f90ec8271b044cd7cf55b66aa35d14eb93759f6b76f26072b3757ed77363d1",
	"p2048a": "defed836e85b5ea5fdf49b3fa0a301372e7952071c3407e269687fab5ae3f51527634c8c23628d2d061c7ce224c71b4a460f05e929858e1359fee7f2ae95532ad456818d3eae4419d0391fc7edac4bdd42cbecbc586a8887817e61afa3af9ce9ae346801f14015dc87fa00f8a1586ced8fda2fc3b8c73a32f5b4650b37bb8f416f5748f4a638a7c1eb79c76e304349d715cb48aef8342351d5b12f6159d21b57db15fb0435b6f9842366f4739060749dc1055b9237d2882abe95921a669fabc77187a063cc66ffcd18aa052a96537d370f324f273399cc41ec52891471bab9d2048f0dde7959a5e99effc72a2fa5b582d9df0cf555f8dcc2a6fbc026553cbcd5",
	"p2048b": "fb8973205117e3cb2f356221b8c30929fd41c514a0379440b3c9c55dbadcc747f27670b469f0b4f90f60cde45ec60d75f9f86554c82c9498902144aed936046ea60b39f674430b08097249f43bf9cbb391f9efa39fec871ec48fe97a74261fb4792476c83a1f1c0a4c3d1b5a7b86ef6b4c98e96bd89ecac5c2a2f4a09dc30d03c4e243727ce41f1d457a80bc1c31a0bae82ae2c09ba6eab45c41087d825713f6cc29daf015bfacd5bf663aebdbea8154f50f3fc98a9ea3becde5ff9de217598595e4c70cd9c6c81a1d7fa0de0f1c6986a714ac389a7d18453b7c65dbcf87431d07177c5332cb8022f91ce51be2de6e884b775b266e0fe63715c1aba46645601b",
	"p2049": "1e9c2e34d487868201c2ec4e186c96ad4157093d5c1c4f819740aa2298b5c045b01d7b9eb41c0a136f34e85535b1a00f828414cf804c626213287359a7a24cc62bbd3a29a45604adafd59726119b00d6493a1304ee1ccb8f10cde63bcd0b369241b43c23916e5c6a1ca33c7bd43811fdd8d73fb266e8492e98f9e0100fc384d507781fa1ba2aebc2ac58d94d6bb588cbf1db8d7a6e89b918f7c6e5178cfc6cdee02304d34a02c0cf38f5d0421520ed17237f77b8b04ef4d1af919747d84fde4047a28ea83ca0c8d0482b3c0fc362b07a473d4eec7982350794981043855eb51cb92a870ba6fb3067b9b8bf36e055c4248834d550547bdfd2c1b4f82cc391c2d53",
}

func vC14P(name string) *big.Int {
	v, ok := new(big.Int).SetString(vC14PrimeHex[name], 16)
	if !ok {
		panic("bad prime " + name)
	}
	return v
}

// vC14EncodeRSA is the RFC 3110 public key field for (e, n); long forces the
// three-octet exponent length.
func vC14EncodeRSA(e, n *big.Int, long bool) []byte {
	eb := e.Bytes()
	var out []byte
	if len(eb) < 256 && !long {
		out = append(out, byte(len(eb)))
	} else {
		out = append(out, 0, byte(len(eb)>>8), byte(len(eb)))
	}
	out = append(out, eb...)
	return append(out, n.Bytes()...)
}

var vC14Exponents = []string{"3", "5", "17", "65537", "2147483647", "2147483659", "4294967297", "18446744073709551557"}

func vC14Exp(r *rand.Rand) *big.Int {
	e, _ := new(big.Int).SetString(vC14Exponents[r.Intn(len(vC14Exponents))], 10)
	return e
}

// ---------------------------------------------------------------- driver

var vC14ConstTable = map[string]uint8{
	"RSAMD5": dns.RSAMD5, "DH": dns.DH, "DSA": dns.DSA, "RSASHA1": dns.RSASHA1, "DSANSEC3SHA1": dns.DSANSEC3SHA1,
	"RSASHA1NSEC3SHA1": dns.RSASHA1NSEC3SHA1, "RSASHA256": dns.RSASHA256, "RSASHA512": dns.RSASHA512,
	"ECCGOST": dns.ECCGOST, "ECDSAP256SHA256": dns.ECDSAP256SHA256, "ECDSAP384SHA384": dns.ECDSAP384SHA384,
	"ED25519": dns.ED25519, "ED448": dns.ED448,
	"SHA1": dns.SHA1, "SHA256": dns.SHA256, "GOST94": dns.GOST94, "SHA384": dns.SHA384, "SHA512": dns.SHA512,
}

// vC14Corpus is corpus/C14/regressions.json.
type vC14Corpus struct {
	Keytags []struct {
		Note     string `json:"note"`
		Flags    uint16 `json:"flags"`
		Protocol uint8  `json:"protocol"`
		Alg      uint8  `json:"alg"`
		Pk       string `json:"pk"`
	} `json:"keytags"`
	Nsec []struct {
		Note   string   `json:"note"`
		Zone   string   `json:"zone"`
		Owner  string   `json:"owner"`
		Next   []string `json:"next"`
		Labels uint8    `json:"labels"`
	} `json:"nsec"`
	RSAUsable []struct {
		Note string `json:"note"`
		NHex string `json:"n_hex"`
		E    string `json:"e"`
	} `json:"rsa_usable"`
	VerifyDS []struct {
		Note       string `json:"note"`
		Zone       string `json:"zone"`
		Flags      uint16 `json:"flags"`
		Alg        uint8  `json:"alg"`
		Pk         string `json:"pk"`
		DigestType uint8  `json:"digest_type"`
		ExtraHex   string `json:"extra_hex"` // appended to the digest ToDS produces
		FrontHex   string `json:"front_hex"` // put in front of it
		Genuine    bool   `json:"genuine_follows"`
		// the first DS gets this owner instead of the zone's (a relative name: outside the property's
		// domain); the case is then a probe — model checked, nothing judged
		ProbeOwner string `json:"probe_owner"`
	} `json:"verifyds"`
	Suffix []struct {
		Note string `json:"note"`
		A    string `json:"a"`
		B    string `json:"b"`
	} `json:"suffix"`
	Synth []struct {
		Note   string      `json:"note"`
		Owner  string      `json:"owner"`
		Target string      `json:"target"`
		Dnames [][2]string `json:"dnames"`
	} `json:"synth"`
}

// vC14LoadCorpus reads $VERIF_CORPUS/regressions.json; a run without a corpus directory
// (a driver started by hand) replays nothing, a corpus that does not parse is a broken driver.
func vC14LoadCorpus(t *testing.T) vC14Corpus {
	var c vC14Corpus
	dir := os.Getenv("VERIF_CORPUS")
	if dir == "" {
		return c
	}
	b, err := os.ReadFile(dir + "/regressions.json")
	if err != nil {
		if os.IsNotExist(err) {
			return c
		}
		t.Fatal(err)
	}
	if err := json.Unmarshal(b, &c); err != nil {
		t.Fatal("corpus/C14/regressions.json: ", err)
	}
	return c
}

func TestVerifC14Prim(t *testing.T) {
	tr := vC14Open(t)
	defer tr.f.Close()
	seed := int64(vC14EnvInt("VERIF_SEED", 1))
	n := vC14EnvInt("VERIF_N", 1500)
	r := rand.New(rand.NewSource(seed))

	var names []string
	for k := range vC14ConstTable {
		names = append(names, k)
	}
	sort.Strings(names)
	for _, k := range names {
		tr.emit("const", fmt.Sprintf("CaseConst %s %d", vC14Str(k), vC14ConstTable[k]), "", false, map[string]any{"dns." + k: vC14ConstTable[k]})
	}
	// the crypto.Hash identities the model uses as hash ids
	if crypto.SHA1 != 3 || crypto.SHA256 != 5 || crypto.SHA384 != 6 || crypto.SHA512 != 7 {
		t.Fatal("crypto.Hash numbering changed")
	}

	// fixed regression inputs first (corpus/C14/regressions.json): the minimal inputs of every
	// seeded change and mutation this check has caught
	corpus := vC14LoadCorpus(t)
	for _, c := range corpus.Keytags {
		k := &dns.DNSKEY{Hdr: dns.RR_Header{Name: "example.", Rrtype: dns.TypeDNSKEY, Class: dns.ClassINET}, Flags: c.Flags, Protocol: c.Protocol, Algorithm: c.Alg, PublicKey: c.Pk}
		vC14EmitKeyTag(tr, k, "corpus", map[string]any{"note": c.Note})
	}
	for _, c := range corpus.RSAUsable {
		n, ok1 := new(big.Int).SetString(c.NHex, 16)
		e, ok2 := new(big.Int).SetString(c.E, 10)
		if !ok1 || !ok2 {
			t.Fatalf("corpus: bad rsa_usable entry %q", c.Note)
		}
		vC14EmitRSAUsable(tr, n, e, "rsa-usable-corpus")
	}

	for _, c := range corpus.VerifyDS {
		k := &dns.DNSKEY{Hdr: dns.RR_Header{Name: c.Zone, Rrtype: dns.TypeDNSKEY, Class: dns.ClassINET, Ttl: 3600}, Flags: c.Flags, Protocol: 3, Algorithm: c.Alg, PublicKey: c.Pk}
		d := k.ToDS(c.DigestType)
		if d == nil {
			t.Fatalf("corpus: bad verifyds entry %q", c.Note)
		}
		genuine := dns.Copy(d).(*dns.DS)
		d.Digest = c.FrontHex + d.Digest + c.ExtraHex
		set, dss := []dns.RR{d}, []*dns.DS{d}
		if c.Genuine {
			set, dss = append(set, genuine), append(dss, genuine)
		}
		if c.ProbeOwner != "" {
			d.Hdr.Name = c.ProbeOwner
			vC14EmitVerifyDS(tr, c.Zone, 1, map[uint16][]*dns.DNSKEY{k.KeyTag(): {k}}, set, dss, "probe: "+c.Note)
			continue
		}
		vC14EmitVerifyDS(tr, c.Zone, 1, map[uint16][]*dns.DNSKEY{k.KeyTag(): {k}}, set, dss, c.Note)
	}

	// small RSA keys for the raw verifier (it has no size floor of its own)
	small := []*vC14RSAKey{
		vC14NewRSA(vC14Prime(r, 256), vC14Prime(r, 256)),
		vC14NewRSA(vC14Prime(r, 300), vC14Prime(r, 301)),
		vC14NewRSA(vC14Prime(r, 376), vC14Prime(r, 376)),
		vC14NewRSA(vC14Prime(r, 376), vC14Prime(r, 375)),
		vC14NewRSA(vC14Prime(r, 188), vC14Prime(r, 181)),
	}
	big1024 := vC14NewRSA(vC14P("p512a"), vC14P("p512b"))
	rsaBudget := map[string]int{"small": n / 50, "big": 2}
	if os.Getenv("VERIF_TIER") == "thorough" {
		rsaBudget["big"] = 12
	}
	overBudget := 12

	for c := 0; c < n; c++ {
		switch x := r.Intn(100); {
		case x < 12:
			vC14CaseB64(tr, r)
		case x < 16:
			if overBudget > 0 {
				overBudget--
				vC14CaseOversized(tr, r)
			} else {
				vC14CaseB64(tr, r)
			}
		case x < 48:
			vC14CaseKeyTag(tr, r)
		case x < 58:
			vC14CaseRSAParse(tr, r)
		case x < 68:
			vC14CaseRSAUsable(tr, r)
		case x < 74:
			if rsaBudget["big"] > 0 && r.Intn(8) == 0 {
				rsaBudget["big"]--
				vC14CaseRSAVerify(tr, r, big1024, "rsa-raw-1024")
			} else if rsaBudget["small"] > 0 {
				rsaBudget["small"]--
				vC14CaseRSAVerify(tr, r, small[r.Intn(len(small))], "rsa-raw-small")
			} else {
				vC14CaseRSAUsable(tr, r)
			}
		case x < 84:
			vC14CaseName(tr, r)
		case x < 92:
			vC14CaseDSMatch(tr, r)
		default:
			vC14CaseVerifyDS(tr, r)
		}
	}
	vC14KeyTagColumns(tr, r, os.Getenv("VERIF_TIER") == "thorough")
}

// ---- base64

func vC14GenB64(r *rand.Rand, n int) string {
	s := base64.StdEncoding.EncodeToString(vC14RandBytes(r, n))
	switch r.Intn(10) {
	case 0, 1, 2:
		return vC14Mangle(r, s)
	case 3, 4:
		return vC14Wrap(r, s)
	case 5:
		return vC14Mangle(r, vC14Wrap(r, s))
	}
	return s
}

func vC14CaseB64(tr *vC14Trace, r *rand.Rand) {
	s := vC14GenB64(r, vC14KeyLen(r))
	var out []byte
	var err error
	if p := vC14Guard(func() { out, err = fromBase64([]byte(s)) }); p != "" {
		tr.emit("b64", "", "fromBase64 panicked: "+p, true, map[string]any{"s": s})
		return
	}
	k := "b64-ok"
	if err != nil {
		k = "b64-error"
	}
	tr.emit(k, fmt.Sprintf("CaseB64 %s %s %s", vC14Str(s), vC14Hex(out), vC14Bool(err == nil)), "", true,
		map[string]any{"s": s, "out": hex.EncodeToString(out), "err": fmt.Sprint(err)})
}

// ---- oversized key material

func vC14CaseOversized(tr *vC14Trace, r *rand.Rand) {
	limit := base64.StdEncoding.EncodedLen(maxDSKeyMaterial)
	material := limit + []int{-4, -1, 0, 1, 2, 4, 40}[r.Intn(7)]
	b := make([]byte, material)
	for i := range b {
		b[i] = vC14B64[r.Intn(64)]
	}
	s := string(b)
	switch r.Intn(5) {
	case 0: // one break inside the first limit+1 octets
		p := r.Intn(limit)
		s = s[:p] + "\n" + s[p:]
	case 1: // breaks only after the head
		s = s + strings.Repeat("\n", 1+r.Intn(5))
	case 2: // wrapped like a key file
		var w strings.Builder
		for i := 0; i < len(s); i += 64 {
			w.WriteString(s[i:min(i+64, len(s))])
			w.WriteString("\r\n")
		}
		s = w.String()
	case 3: // a CR exactly at the head boundary
		p := min(limit, len(s))
		s = s[:p] + "\r" + s[p:]
	}
	var got bool
	fail := ""
	if p := vC14Guard(func() { got = oversizedKeyMaterial(s) }); p != "" {
		fail = "oversizedKeyMaterial panicked: " + p
	}
	// ground truth: the count of octets that are not line breaks
	cnt := 0
	for i := 0; i < len(s); i++ {
		if s[i] != '\r' && s[i] != '\n' {
			cnt++
		}
	}
	if fail == "" && got != (cnt > limit) {
		fail = fmt.Sprintf("oversizedKeyMaterial=%v but the key has %d octets of material (limit %d)", got, cnt, limit)
	}
	tr.emit("oversized", fmt.Sprintf("CaseOversized %s %s", vC14Str(s), vC14Bool(got)), fail, true,
		map[string]any{"len": len(s), "material": cnt, "got": got})
}

// ---- key tags

func vC14GenKeyMaterial(r *rand.Rand) (string, string) {
	n := vC14KeyLen(r)
	if r.Intn(60) == 0 { // at the packing ceiling of the library
		n = []int{4090, 4091, 4092, 4093, 4094}[r.Intn(5)]
	}
	s := base64.StdEncoding.EncodeToString(vC14RandBytes(r, n))
	if r.Intn(12) == 0 {
		// the recorded divergence: a group closed by padding exactly at the end of a
		// 256-character chunk, with more material behind it
		k := 1 + r.Intn(2)
		head := base64.StdEncoding.EncodeToString(vC14RandBytes(r, 192*k-1-r.Intn(2)))
		tail := base64.StdEncoding.EncodeToString(vC14RandBytes(r, 1+r.Intn(250)))
		if r.Intn(3) == 0 {
			head = vC14Wrap(r, head)
		}
		return head + tail, "padding-at-chunk-end"
	}
	switch r.Intn(10) {
	case 0, 1:
		return vC14Mangle(r, s), "mangled"
	case 2, 3:
		return vC14Wrap(r, s), "wrapped"
	case 4:
		return vC14Mangle(r, vC14Wrap(r, s)), "wrapped+mangled"
	}
	return s, "plain"
}

func vC14Alg(r *rand.Rand) uint8 {
	switch r.Intn(4) {
	case 0:
		return uint8(r.Intn(256))
	case 1:
		return []uint8{1, 1, 1, 1, 3, 6, 12, 16, 0, 255}[r.Intn(10)]
	}
	return []uint8{5, 7, 8, 10, 13, 14, 15}[r.Intn(7)]
}

func vC14Flags(r *rand.Rand) uint16 {
	switch r.Intn(5) {
	case 0:
		return uint16(r.Intn(65536))
	case 1:
		return []uint16{0, 1, 128, 255, 0xff00, 0xffff, 384, 385}[r.Intn(8)]
	}
	return []uint16{256, 257}[r.Intn(2)]
}

// vC14WrapAt breaks s into lines of width characters, the way key files and
// zone files wrap a key (every line but possibly the last ends in br).
func vC14WrapAt(s string, width int, br string, trailing bool) string {
	var b strings.Builder
	for i := 0; i < len(s); i += width {
		e := min(i+width, len(s))
		b.WriteString(s[i:e])
		if e < len(s) || trailing {
			b.WriteString(br)
		}
	}
	return b.String()
}

// vC14KeyTagColumns is a sweep rather than a sample: keys longer than one
// 256-character chunk, wrapped at every column width from 8 to 130 with LF and
// with CRLF, the algorithm number walking through all 256 values.  Where the
// breaks fall relative to the chunk boundaries (and so how many octets a
// non-final chunk decodes to) depends on width and line ending only, so every
// residue is met on every run.
func vC14KeyTagColumns(tr *vC14Trace, r *rand.Rand, thorough bool) {
	lengths := 1
	if thorough {
		lengths = 4
	}
	alg := r.Intn(256)
	for width := 8; width <= 130; width++ {
		for bi, br := range []string{"\n", "\r\n"} {
			for l := 0; l < lengths; l++ {
				n := 193 + r.Intn(300)
				switch l {
				case 1:
					n = 600 + r.Intn(600)
				case 2:
					n = []int{192 * 2, 192 * 3, 192*2 + 1, 192*3 - 1, 4090, 4092}[r.Intn(6)]
				case 3:
					n = 1200 + r.Intn(2800)
				}
				pk := vC14WrapAt(base64.StdEncoding.EncodeToString(vC14RandBytes(r, n)), width, br, r.Intn(2) == 0)
				alg = (alg + 7) % 256
				k := &dns.DNSKEY{Hdr: dns.RR_Header{Name: "example.", Rrtype: dns.TypeDNSKEY, Class: dns.ClassINET}, Flags: vC14Flags(r), Protocol: 3, Algorithm: uint8(alg), PublicKey: pk}
				vC14EmitKeyTag(tr, k, "columns-"+[]string{"lf", "crlf"}[bi], map[string]any{"width": width, "octets": n})
			}
		}
	}
}

func vC14CaseKeyTag(tr *vC14Trace, r *rand.Rand) {
	pk, shape := vC14GenKeyMaterial(r)
	k := &dns.DNSKEY{Hdr: dns.RR_Header{Name: "example.", Rrtype: dns.TypeDNSKEY, Class: dns.ClassINET}, Flags: vC14Flags(r), Protocol: 3, Algorithm: vC14Alg(r), PublicKey: pk}
	if r.Intn(6) == 0 {
		k.Protocol = uint8(r.Intn(256))
	}
	if k.Algorithm == dns.RSAMD5 && r.Intn(3) == 0 {
		// RSAMD5 reads the END of the material: damage somewhere in front of a well-formed tail decides where a
		// single decode stops, and so which octets the tag is taken from
		k.PublicKey = vC14Mangle(r, k.PublicKey)
		shape += "+mangled"
	} else if k.Algorithm == dns.RSAMD5 && r.Intn(2) == 0 { // short moduli are where the library's own derivation breaks
		raw := vC14RandBytes(r, []int{0, 1, 2, 2, 3, 4}[r.Intn(6)])
		k.PublicKey = base64.StdEncoding.EncodeToString(raw)
		shape = "rsamd5-short"
		if r.Intn(4) == 0 { // two octets reached through a long, wrapped or damaged encoding
			k.PublicKey = vC14Wrap(r, k.PublicKey)
		}
		if r.Intn(3) == 0 {
			k.PublicKey = vC14Mangle(r, k.PublicKey)
		}
	}
	vC14EmitKeyTag(tr, k, shape, nil)
}

// vC14EmitKeyTag runs KeyTag and the library on k and records the case.
func vC14EmitKeyTag(tr *vC14Trace, k *dns.DNSKEY, shape string, extra map[string]any) {
	var got uint16
	fail := ""
	if p := vC14Guard(func() { got = KeyTag(k) }); p != "" {
		fail = "KeyTag panicked: " + p
	}
	lib, libPanic := vC14LibKeyTag(k)
	if fail == "" {
		if !libPanic && got != lib {
			fail = fmt.Sprintf("KeyTag=%d, dns.DNSKEY.KeyTag=%d", got, lib)
		}
		if libPanic && got != 0 {
			fail = fmt.Sprintf("KeyTag=%d on material the library cannot answer for (expected 0)", got)
		}
	}
	kind := "keytag-" + shape
	if k.Algorithm == dns.RSAMD5 {
		kind = "keytag-rsamd5"
	}
	desc := map[string]any{"flags": k.Flags, "protocol": k.Protocol, "alg": k.Algorithm, "key_len": len(k.PublicKey), "shape": shape, "sdns": got, "lib": lib, "lib_panicked": libPanic}
	for key, v := range extra {
		desc[key] = v
	}
	tr.emit(kind, fmt.Sprintf("CaseKeyTag %d %d %d %s %d %s", k.Flags, k.Protocol, k.Algorithm, vC14Str(k.PublicKey), got, vC14OptN(lib, libPanic)), fail, true, desc)
}

// ---- RFC 3110 parsing

func vC14OptPair(n, e *big.Int) string {
	if n == nil {
		return "None"
	}
	return fmt.Sprintf("(Some (%s, %s))", vC14Big(n), vC14Big(e))
}

func vC14CaseRSAParse(tr *vC14Trace, r *rand.Rand) {
	// ground truth: the (e, n) the generator encodes, or nothing when it
	// deliberately breaks the encoding
	nbits := []int{8, 16, 64, 200, 512, 513, 1024}[r.Intn(7)]
	n := new(big.Int).SetBytes(vC14RandBytes(r, nbits/8))
	n.SetBit(n, nbits-1, 1)
	e := vC14Exp(r)
	if r.Intn(6) == 0 {
		e = new(big.Int).SetBytes(vC14RandBytes(r, 1+r.Intn(12)))
		if e.Sign() == 0 {
			e.SetInt64(1)
		}
	}
	var wantN, wantE *big.Int = n, e
	var raw []byte
	shape := ""
	switch r.Intn(12) {
	case 0:
		raw, shape = vC14EncodeRSA(e, n, true), "three-octet-length"
	case 1: // leading zero in the exponent
		eb := append([]byte{0}, e.Bytes()...)
		raw = append(append([]byte{byte(len(eb))}, eb...), n.Bytes()...)
		wantN, wantE, shape = nil, nil, "leading-zero-exponent"
	case 2: // leading zero in the modulus
		raw = append(vC14EncodeRSA(e, big.NewInt(0), false), append([]byte{0}, n.Bytes()...)...)
		wantN, wantE, shape = nil, nil, "leading-zero-modulus"
	case 3: // exponent length zero, both forms
		if r.Intn(2) == 0 {
			raw = append([]byte{0, 0, 0}, n.Bytes()...)
		} else {
			raw = []byte{0}
			if r.Intn(2) == 0 {
				raw = []byte{0, 0}
			}
		}
		wantN, wantE, shape = nil, nil, "zero-length-exponent"
	case 4: // no modulus at all
		raw = vC14EncodeRSA(e, big.NewInt(0), false)
		wantN, wantE, shape = nil, nil, "no-modulus"
	case 5: // exponent length points past the end
		raw = append([]byte{byte(200 + r.Intn(55))}, vC14RandBytes(r, r.Intn(100))...)
		wantN, wantE, shape = nil, nil, "length-past-end"
	case 6: // empty
		raw = nil
		wantN, wantE, shape = nil, nil, "empty"
	case 7: // a long exponent in the three-octet form
		eb := vC14RandBytes(r, 256+r.Intn(10))
		eb[0] |= 1
		e = new(big.Int).SetBytes(eb)
		wantE = e
		raw, shape = vC14EncodeRSA(e, n, false), "long-exponent"
	default:
		raw, shape = vC14EncodeRSA(e, n, false), "plain"
	}
	pk := base64.StdEncoding.EncodeToString(raw)
	switch r.Intn(10) {
	case 0:
		pk = vC14Wrap(r, pk)
	case 1:
		m := vC14Mangle(r, pk)
		if _, err := base64.StdEncoding.DecodeString(m); err != nil {
			pk, wantN, wantE, shape = m, nil, nil, shape+"+bad-base64"
		}
	}
	var gn, ge *big.Int
	var ok bool
	fail := ""
	if p := vC14Guard(func() { gn, ge, ok = parseRSAPublicKey(pk) }); p != "" {
		fail = "parseRSAPublicKey panicked: " + p
	}
	if !ok {
		gn, ge = nil, nil
	}
	if fail == "" {
		switch {
		case wantN == nil && ok:
			fail = fmt.Sprintf("parseRSAPublicKey accepted a %s encoding", shape)
		case wantN != nil && !ok:
			fail = fmt.Sprintf("parseRSAPublicKey refused a well-formed %s encoding", shape)
		case wantN != nil && (gn.Cmp(wantN) != 0 || ge.Cmp(wantE) != 0):
			fail = "parseRSAPublicKey returned a different key than was encoded"
		}
	}
	// the wide-exponent probe must agree with the parsed exponent on parsable keys
	if fail == "" && ok {
		if rsaExponentExceedsStdlib(pk) != (ge.Cmp(big.NewInt(maxStdlibRSAExponent)) > 0) {
			fail = "rsaExponentExceedsStdlib disagrees with the parsed exponent"
		}
	}
	tr.emit("rsa-parse-"+shape, fmt.Sprintf("CaseRSAParse %s %s %s", vC14Str(pk), vC14OptPair(gn, ge), vC14OptPair(wantN, wantE)), fail, true,
		map[string]any{"shape": shape, "key": pk, "ok": ok})
}

// ---- usableRSAKey

func vC14CaseRSAUsable(tr *vC14Trace, r *rand.Rand) {
	bitsN := []int{1022, 1023, 1024, 1025, 2048, 4095, 4096, 4097, 4098, 512, 64}[r.Intn(11)]
	n := new(big.Int).SetBytes(vC14RandBytes(r, (bitsN+7)/8))
	for i := n.BitLen() - 1; i >= bitsN; i-- {
		n.SetBit(n, i, 0)
	}
	n.SetBit(n, bitsN-1, 1)
	if r.Intn(4) != 0 {
		n.SetBit(n, 0, 1)
	}
	var e *big.Int
	switch r.Intn(10) {
	case 0:
		e = big.NewInt(int64(r.Intn(8)))
	case 1:
		e = new(big.Int).Add(n, big.NewInt(int64(r.Intn(5)-2)))
	case 2: // around 64 bits
		e = new(big.Int).Lsh(big.NewInt(1), uint(62+r.Intn(4)))
		e.Add(e, big.NewInt(int64(2*r.Intn(50)+1)))
	case 3:
		e = new(big.Int).SetBytes(vC14RandBytes(r, 1+r.Intn(10)))
	default:
		e = vC14Exp(r)
		if r.Intn(8) == 0 {
			e.Add(e, big.NewInt(1)) // even
		}
	}
	vC14EmitRSAUsable(tr, n, e, "rsa-usable")
}

func vC14EmitRSAUsable(tr *vC14Trace, n, e *big.Int, kind string) {
	var got bool
	fail := ""
	if p := vC14Guard(func() { got = usableRSAKey(n, e) }); p != "" {
		fail = "usableRSAKey panicked: " + p
	}
	// the documented limits
	want := n.BitLen() >= 1024 && n.BitLen() <= 4096 && e.Bit(0) == 1 && e.Cmp(big.NewInt(3)) >= 0 && e.Cmp(n) < 0 && e.BitLen() <= 64
	if fail == "" && got != want {
		fail = fmt.Sprintf("usableRSAKey=%v for a %d-bit modulus and a %d-bit exponent; the documented limits say %v", got, n.BitLen(), e.BitLen(), want)
	}
	tr.emit(kind, fmt.Sprintf("CaseRSAUsable %s %s %s", vC14Big(n), vC14Big(e), vC14Bool(got)), fail, true,
		map[string]any{"n_bits": n.BitLen(), "e": e.String(), "got": got})
}

// ---- rsaVerifyPKCS1v15

func vC14CaseRSAVerify(tr *vC14Trace, r *rand.Rand, key *vC14RSAKey, kind string) {
	alg := []uint8{5, 7, 8, 10}[r.Intn(4)]
	if key.n.BitLen() < 600 && r.Intn(4) != 0 {
		alg = []uint8{5, 7}[r.Intn(2)] // anything longer than SHA-1 does not fit
	}
	e := vC14Exp(r)
	msg := vC14RandBytes(r, 20)
	hashed := vC14HashFor(alg, msg)
	_, prefix, _ := rsaHash(alg)
	em := vC14EM(key.n, alg, hashed)
	size := (key.n.BitLen() + 7) / 8
	var sig []byte
	shape := "valid"
	if em == nil {
		sig = vC14RandBytes(r, size)
		shape = "modulus-too-short-for-digest"
	} else {
		sig = key.sign(e, em)
		if sig == nil {
			sig = vC14RandBytes(r, size)
			shape = "random"
		}
	}
	if shape == "valid" {
		pick := r.Intn(12)
		if key.n.BitLen()%8 == 1 && r.Intn(2) == 0 {
			pick = 3 // s + n still fits the modulus length when the top octet of n is 1
		}
		switch pick {
		case 0:
			sig[r.Intn(len(sig))] ^= 1 << uint(r.Intn(8))
			shape = "bit-flipped"
		case 1:
			sig = sig[:len(sig)-1]
			shape = "truncated"
		case 2:
			sig = append([]byte{0}, sig...)
			shape = "leading-zero-added"
		case 3: // s + n: the same residue, not below the modulus
			s := new(big.Int).Add(new(big.Int).SetBytes(sig), key.n)
			if (s.BitLen()+7)/8 == size {
				sig = s.Bytes()
				shape = "plus-modulus"
			}
		case 4:
			hashed = vC14HashFor(alg, append(msg, 1))
			shape = "other-digest"
		case 5:
			sig = sig[1:]
			shape = "first-octet-dropped"
		case 6: // verified under a different algorithm's prefix
			other := []uint8{5, 8, 10}[r.Intn(3)]
			if len(vC14HashFor(other, msg)) != len(hashed) {
				alg2 := other
				_, prefix, _ = rsaHash(alg2)
				alg = alg2
				shape = "other-prefix"
			}
		case 7:
			sig = nil
			shape = "empty"
		}
	}
	var err error
	fail := ""
	if p := vC14Guard(func() { err = rsaVerifyPKCS1v15(key.n, e, prefix, hashed, sig) }); p != "" {
		fail = "rsaVerifyPKCS1v15 panicked: " + p
	}
	got := err == nil
	ref := vC14BigVerify(key.n, e, alg, hashed, sig)
	if fail == "" && got != ref {
		fail = fmt.Sprintf("rsaVerifyPKCS1v15 accept=%v, big-integer reference accept=%v (%s)", got, ref, shape)
	}
	tr.emit(kind+"-"+shape, fmt.Sprintf("CaseRSAVerify %s %s %d %s %s %s %s", vC14Big(key.n), vC14Big(e), alg, vC14Hex(hashed), vC14Hex(sig), vC14Bool(got), vC14Bool(ref)), fail,
		true, map[string]any{"n_bits": key.n.BitLen(), "e": e.String(), "alg": alg, "shape": shape, "accepted": got})
}

// ---- name helpers

func vC14CaseName(tr *vC14Trace, r *rand.Rand) {
	var s, zone string
	if r.Intn(3) == 0 {
		s = vC14OddName(r)
	} else {
		s = vC14Name(r, r.Intn(5))
	}
	switch r.Intn(5) {
	case 0:
		zone = "."
	case 1: // a true ancestor
		idx := dns.Split(s)
		if len(idx) > 0 {
			zone = s[idx[r.Intn(len(idx))]:]
		} else {
			zone = s
		}
	case 2: // a textual suffix that is not on a label boundary
		if len(s) > 2 {
			zone = s[1+r.Intn(len(s)-1):]
		} else {
			zone = "example."
		}
	case 3:
		zone = vC14OddName(r)
	default:
		zone = vC14Name(r, 1+r.Intn(2))
	}
	n := r.Intn(6)
	var canon string
	var fq, inzone bool
	var cnt, prev int
	var wire []byte
	var werr error
	fail := ""
	if p := vC14Guard(func() {
		canon = dns.CanonicalName(s)
		fq = dns.IsFqdn(s)
		cnt = dns.CountLabel(s)
		prev, _ = dns.PrevLabel(s, n)
		buf := make([]byte, 255)
		var off int
		off, werr = dns.PackDomainName(s, buf, 0, nil, false)
		if werr == nil {
			wire = buf[:off]
		}
	}); p != "" {
		// a library helper panicking on a malformed name is not the code under test
		tr.emit("name-lib-panic", "", "", false, map[string]any{"s": s, "panic": p})
		return
	}
	if p := vC14Guard(func() { inzone = vC14NameInZone(s, zone) }); p != "" {
		fail = "NameInZone panicked: " + p
	}
	w := "None"
	if werr == nil {
		w = "(Some " + vC14Hex(wire) + ")"
		if len(wire) == 0 {
			w = "(Some [])"
		}
	}
	kind := "name-plain"
	if strings.Contains(s, `\`) {
		kind = "name-escaped"
	}
	tr.emit(kind, fmt.Sprintf("CaseName %s %s %d %s %s %d %d %s %s", vC14Str(s), vC14Str(zone), n, vC14Str(canon), vC14Bool(fq), cnt, prev, vC14Bool(inzone), w), fail,
		true, map[string]any{"s": s, "zone": zone, "canonical": canon, "fqdn": fq, "labels": cnt, "prev": prev, "in_zone": inzone, "packs": werr == nil})
}

// ---- DS digests

func vC14DSPreimage(k *dns.DNSKEY) ([]byte, bool) {
	owner := make([]byte, 255)
	off, err := dns.PackDomainName(dns.CanonicalName(k.Hdr.Name), owner, 0, nil, false)
	if err != nil {
		return nil, false
	}
	pub, err := base64.StdEncoding.DecodeString(k.PublicKey)
	if err != nil {
		return nil, false
	}
	out := append([]byte{}, owner[:off]...)
	out = append(out, byte(k.Flags>>8), byte(k.Flags), k.Protocol, k.Algorithm)
	return append(out, pub...), true
}

func vC14GenDNSKEY(r *rand.Rand, name string) *dns.DNSKEY {
	pk, _ := vC14GenKeyMaterial(r)
	if r.Intn(3) != 0 { // mostly well-formed
		pk = base64.StdEncoding.EncodeToString(vC14RandBytes(r, []int{32, 64, 96, 132, 1}[r.Intn(5)]))
	}
	k := &dns.DNSKEY{Hdr: dns.RR_Header{Name: name, Rrtype: dns.TypeDNSKEY, Class: dns.ClassINET, Ttl: 3600}, Flags: 257, Protocol: 3, Algorithm: []uint8{8, 13, 15, 5, 14, 10, 7}[r.Intn(7)], PublicKey: pk}
	switch r.Intn(12) {
	case 0:
		k.Flags = vC14Flags(r)
	case 1:
		k.Protocol = uint8(r.Intn(5))
	case 2:
		k.Algorithm = vC14Alg(r)
	case 3:
		k.Hdr.Class = dns.ClassCHAOS
	}
	return k
}

func vC14DigestType(r *rand.Rand) uint8 {
	if r.Intn(3) == 0 {
		return uint8(r.Intn(256))
	}
	return []uint8{1, 2, 4, 2, 5, 3, 0}[r.Intn(7)]
}

func vC14CaseDSMatch(tr *vC14Trace, r *rand.Rand) {
	name := vC14MixCase(r, vC14Name(r, r.Intn(4)))
	if r.Intn(15) == 0 {
		name = vC14OddName(r)
	}
	k := vC14GenDNSKEY(r, name)
	if r.Intn(40) == 0 { // at the ceiling
		k.PublicKey = base64.StdEncoding.EncodeToString(vC14RandBytes(r, []int{4091, 4092, 4093}[r.Intn(3)]))
	}
	dt := vC14DigestType(r)
	var lib *dns.DS
	if p := vC14Guard(func() { lib = k.ToDS(dt) }); p != "" {
		lib = nil
	}
	var want []byte
	shape := "reference-digest"
	if lib != nil {
		want, _ = hex.DecodeString(lib.Digest)
	} else {
		want = vC14RandBytes(r, []int{20, 32, 48, 64}[r.Intn(4)])
		shape = "no-reference-ds"
		// the digest the library would have produced had it been willing to: tempting for a
		// direct implementation to accept
		if pre, ok := vC14DSPreimage(k); ok && r.Intn(2) == 0 {
			switch dt {
			case 1:
				h := sha1.Sum(pre)
				want = h[:]
			case 2:
				h := sha256.Sum256(pre)
				want = h[:]
			case 4:
				h := sha512.Sum384(pre)
				want = h[:]
			default:
				h := sha256.Sum256(pre)
				want = h[:]
			}
			shape = "digest-of-what-the-library-refuses"
		}
	}
	libMatch := lib != nil
	switch r.Intn(8) {
	case 0:
		want = append([]byte{}, want...)
		want[r.Intn(len(want))] ^= 1 << uint(r.Intn(8))
		libMatch, shape = false, "bit-flipped"
	case 1:
		want = want[:len(want)-1]
		libMatch, shape = false, "truncated"
	case 2:
		want = nil
		libMatch, shape = false, "empty"
	case 3:
		// one octet more, or many (a digest field wider than any hash: C14-11)
		n := []int{1, 1, 1, 2, 16, 32, 33, 64, 65, 200}[r.Intn(10)]
		want = append(append([]byte{}, want...), make([]byte, n)...)
		libMatch, shape = false, "extended"
	}
	var got bool
	fail := ""
	if p := vC14Guard(func() { got = dsDigestMatches(k, dt, want) }); p != "" {
		fail = "dsDigestMatches panicked: " + p
	}
	if fail == "" {
		if got && !libMatch {
			fail = fmt.Sprintf("dsDigestMatches accepted a digest (type %d, %s) that ToDS does not produce", dt, shape)
		}
		// deliberate differences, both stricter: digest type 5 (GOST by IANA, SHA-512 in the
		// library) and a DNSKEY with no key material at all
		if raw, _ := base64.StdEncoding.DecodeString(k.PublicKey); !got && libMatch && dt != dns.SHA512 && len(raw) > 0 {
			fail = fmt.Sprintf("dsDigestMatches refused the digest ToDS produces (type %d)", dt)
		}
	}
	o := vC14Oracle{none: true}
	if pre, ok := vC14DSPreimage(k); ok {
		o = vC14Oracle{msg: pre, hids: vC14DSHashID(dt)}
	}
	tr.emit("ds-match-"+shape, fmt.Sprintf("CaseDSMatch %s %d %s %s %s %s", vC14Key(k), dt, vC14Hex(want), o.coq(), vC14Bool(got), vC14Bool(libMatch)), fail,
		got || libMatch || dt == 1 || dt == 2 || dt == 4, map[string]any{"owner": name, "alg": k.Algorithm, "digest_type": dt, "shape": shape, "sdns": got, "lib": libMatch})
}

// ---- VerifyDS

func vC14DSCoq(d *dns.DS) string {
	return fmt.Sprintf("(mk_ds %s %d %d %d %d %s)", vC14Str(d.Hdr.Name), d.Hdr.Class, d.KeyTag, d.Algorithm, d.DigestType, vC14Str(d.Digest))
}

func vC14RefSupportedDS(d *dns.DS) bool {
	dtOK := d.DigestType == 1 || d.DigestType == 2 || d.DigestType == 4
	algOK := false
	for _, a := range []uint8{5, 7, 8, 10, 13, 14, 15} {
		if d.Algorithm == a {
			algOK = true
		}
	}
	return dtOK && algOK
}

func vC14CaseVerifyDS(tr *vC14Trace, r *rand.Rand) {
	zone := vC14MixCase(r, vC14Name(r, 1+r.Intn(2)))
	nk := 1 + r.Intn(3)
	var keys []*dns.DNSKEY
	for i := 0; i < nk; i++ {
		k := vC14GenDNSKEY(r, vC14MixCase(r, zone))
		switch r.Intn(10) {
		case 0:
			k.Hdr.Name = vC14Name(r, 2)
		case 1: // not a zone key: everything else about it will match its DS
			k.Flags = []uint16{0, 1, 128, 0xfeff}[r.Intn(4)]
		case 2:
			k.Protocol = []uint8{0, 2, 4, 255}[r.Intn(4)]
		}
		keys = append(keys, k)
	}
	keyMap := map[uint16][]*dns.DNSKEY{}
	for _, k := range keys {
		tag, _ := vC14LibKeyTag(k)
		if r.Intn(10) == 0 {
			tag++ // filed under a tag that is not its own
		}
		keyMap[tag] = append(keyMap[tag], k)
		if r.Intn(10) == 0 {
			keyMap[tag] = append(keyMap[tag], k) // twice
		}
	}
	var set []dns.RR
	var dss []*dns.DS
	nd := r.Intn(4)
	for i := 0; i < nd; i++ {
		k := keys[r.Intn(len(keys))]
		dt := []uint8{2, 2, 1, 4, 5, 3, 0, uint8(r.Intn(256))}[r.Intn(8)]
		var d *dns.DS
		vC14Guard(func() { d = k.ToDS(dt) })
		if d == nil {
			tag, _ := vC14LibKeyTag(k)
			d = &dns.DS{Hdr: dns.RR_Header{Name: k.Hdr.Name, Rrtype: dns.TypeDS, Class: k.Hdr.Class}, KeyTag: tag, Algorithm: k.Algorithm, DigestType: dt,
				Digest: hex.EncodeToString(vC14RandBytes(r, []int{20, 32, 48}[r.Intn(3)]))}
		}
		d.Hdr.Ttl = 300
		switch r.Intn(10) {
		case 0:
			b, _ := hex.DecodeString(d.Digest)
			if len(b) > 0 {
				b[r.Intn(len(b))] ^= 0x10
				d.Digest = hex.EncodeToString(b)
			}
		case 1:
			d.Digest = strings.ToUpper(d.Digest)
		case 2:
			d.KeyTag++
		case 3:
			d.Algorithm = []uint8{1, 3, 12, 16, 8, 13}[r.Intn(6)]
		case 4:
			d.Digest = []string{"", "zz", "abc", d.Digest + "0"}[r.Intn(4)]
		case 5:
			d.Hdr.Name = vC14MixCase(r, d.Hdr.Name)
		case 6, 7:
			// the digest field at a length no hash produces (round-5 seeded change C14-11: a fixed-size
			// decode buffer): the reference digest lengthened / repeated / cut, random octets of any
			// length up to what a DS RDATA can carry in practice; half of the time the genuine DS of the
			// same key follows, so that the set as a whole still matches
			genuine := dns.Copy(d).(*dns.DS)
			b, _ := hex.DecodeString(d.Digest)
			extra := []int{1, 2, 15, 16, 17, 31, 32, 33, 63, 64, 65, 100, 200, 500}[r.Intn(14)]
			switch r.Intn(6) {
			case 0:
				b = append(b, vC14RandBytes(r, extra)...)
			case 1:
				b = append(b, make([]byte, extra)...)
			case 2:
				b = append(append([]byte{}, b...), b...)
			case 5: // octets in front: sorts before or after the genuine record as they fall
				b = append(vC14RandBytes(r, extra), b...)
				if r.Intn(2) == 0 {
					b[0] = 0
				}
			case 3:
				b = vC14RandBytes(r, []int{1, 19, 21, 47, 49, 63, 64, 65, 66, 96, 128, 129, 255, 256, 1000}[r.Intn(15)])
			default:
				if len(b) > 1 {
					b = b[:1+r.Intn(len(b)-1)]
				}
			}
			if len(b) > 0 && r.Intn(2) == 0 {
				b[0] = 0 // the set is walked in the order of its digests: in front of the genuine record
			}
			d.Digest = hex.EncodeToString(b)
			if r.Intn(2) == 0 {
				d.Digest = strings.ToUpper(d.Digest)
			}
			if r.Intn(2) == 0 {
				set = append(set, d)
				dss = append(dss, d)
				d = genuine
			}
		}
		set = append(set, d)
		dss = append(dss, d)
		if r.Intn(6) == 0 {
			set = append(set, dns.Copy(d))
			dss = append(dss, d)
		}
	}
	if r.Intn(8) == 0 { // something that is not a DS
		set = append(set, &dns.A{Hdr: dns.RR_Header{Name: zone, Rrtype: dns.TypeA, Class: dns.ClassINET}, A: []byte{192, 0, 2, 1}})
	}
	vC14EmitVerifyDS(tr, zone, len(keys), keyMap, set, dss, "")
}

// vC14EmitVerifyDS calls VerifyDS on one key map and DS set, takes the same decision with the
// library's ToDS / KeyTag and emits the CaseVerifyDS term.
func vC14EmitVerifyDS(tr *vC14Trace, zone string, nkeys int, keyMap map[uint16][]*dns.DNSKEY, set []dns.RR, dss []*dns.DS, note string) {
	var gotU bool
	var gotErr error
	fail := ""
	if p := vC14Guard(func() { gotU, gotErr = VerifyDS(keyMap, set) }); p != "" {
		fail = "VerifyDS panicked: " + p
	}
	// which of the documented errors came back
	code := 9
	switch {
	case fail != "":
	case gotErr == nil:
		code = 0
	case gotErr == ErrMissingKSK:
		code = 1
	case gotErr == ErrMismatchingDS:
		code = 2
	case gotErr == ErrFailedToConvertKSK:
		code = 3
	}
	// DSMatchedKeys on the same input: the keys the set vouches for (what the resolver anchors the
	// child's DNSKEY RRset on)
	var gotMatched map[uint16][]*dns.DNSKEY
	if p := vC14Guard(func() { gotMatched = DSMatchedKeys(keyMap, set, nil) }); p != "" && fail == "" {
		fail = "DSMatchedKeys panicked: " + p
	}
	refMatched := map[uint16][]*dns.DNSKEY{}
	// the same decision taken with the library's ToDS and KeyTag
	refOK, anySupported := false, false
	for _, d := range dss {
		if !vC14RefSupportedDS(d) {
			continue
		}
		anySupported = true
		for _, k := range keyMap[d.KeyTag] {
			tag, pan := vC14LibKeyTag(k)
			if pan || tag != d.KeyTag || k.Algorithm != d.Algorithm || k.Hdr.Class != d.Hdr.Class || !strings.EqualFold(k.Hdr.Name, d.Hdr.Name) || k.Protocol != 3 || k.Flags&dns.ZONE == 0 {
				continue
			}
			var ref *dns.DS
			vC14Guard(func() { ref = k.ToDS(d.DigestType) })
			// a DNSKEY without key material is refused here and hashed by the library: deliberate, stricter
			if raw, _ := base64.StdEncoding.DecodeString(k.PublicKey); ref != nil && strings.EqualFold(ref.Digest, d.Digest) && len(raw) > 0 {
				refOK = true
				dup := false
				for _, x := range refMatched[d.KeyTag] {
					if vC14Key(x) == vC14Key(k) {
						dup = true
					}
				}
				if !dup {
					refMatched[d.KeyTag] = append(refMatched[d.KeyTag], k)
				}
			}
		}
	}
	refU := !refOK && len(dss) > 0 && !anySupported
	if fail == "" && (gotU != refU || (gotErr == nil) != refOK) {
		fail = fmt.Sprintf("VerifyDS = (unsupportedOnly=%v, err=%v); with ToDS/KeyTag of the library the decision is (unsupportedOnly=%v, ok=%v)", gotU, gotErr, refU, refOK)
	}
	if fail == "" && code == 9 {
		fail = fmt.Sprintf("VerifyDS returned an error that is none of ErrMissingKSK / ErrMismatchingDS / ErrFailedToConvertKSK: %v", gotErr)
	}
	kmCoq := func(m map[uint16][]*dns.DNSKEY) (string, string) {
		var ts []int
		for t, b := range m {
			if len(b) > 0 {
				ts = append(ts, int(t))
			}
		}
		sort.Ints(ts)
		var parts, flat []string
		for _, t := range ts {
			var ks []string
			for _, k := range m[uint16(t)] {
				ks = append(ks, vC14Key(k))
			}
			parts = append(parts, fmt.Sprintf("(%d%%N, [%s])", t, strings.Join(ks, "; ")))
			sorted := append([]string{}, ks...)
			sort.Strings(sorted)
			flat = append(flat, fmt.Sprintf("%d:%s", t, strings.Join(sorted, ",")))
		}
		return "[" + strings.Join(parts, "; ") + "]", strings.Join(flat, "|")
	}
	gotMCoq, gotMFlat := kmCoq(gotMatched)
	refMCoq, refMFlat := kmCoq(refMatched)
	if fail == "" && gotMFlat != refMFlat {
		fail = fmt.Sprintf("DSMatchedKeys vouches for %d bucket(s) [%s]; ToDS/KeyTag of the library vouch for [%s]", len(gotMatched), gotMFlat, refMFlat)
	}
	var tags []int
	for t := range keyMap {
		tags = append(tags, int(t))
	}
	sort.Ints(tags)
	var km, orcs []string
	seen := map[string]bool{}
	var dts []int
	for _, h := range []uint8{1, 2, 4} {
		for _, d := range dss {
			if d.DigestType == h {
				dts = append(dts, vC14DSHashID(h)...)
				break
			}
		}
	}
	for _, t := range tags {
		var ks []string
		for _, k := range keyMap[uint16(t)] {
			ks = append(ks, vC14Key(k))
			if pre, ok := vC14DSPreimage(k); ok && !seen[string(pre)] {
				seen[string(pre)] = true
				orcs = append(orcs, vC14Oracle{msg: pre, hids: dts}.coq())
			}
		}
		km = append(km, fmt.Sprintf("(%d%%N, [%s])", t, strings.Join(ks, "; ")))
	}
	var ds []string
	for _, d := range dss {
		ds = append(ds, vC14DSCoq(d))
	}
	kind := "verifyds-reject"
	if refOK {
		kind = "verifyds-match"
	} else if refU {
		kind = "verifyds-unsupported-only"
	}
	wide := false
	for _, d := range dss {
		if len(d.Digest) > 128 {
			wide = true
		}
	}
	if wide {
		kind += "-wide-digest"
	}
	if note != "" {
		kind = "verifyds-corpus"
	}
	if strings.HasPrefix(note, "probe: ") {
		tr.emit("verifyds-probe", fmt.Sprintf("CaseDSProbe [%s] [%s] [%s] %s %d", strings.Join(km, "; "), strings.Join(ds, "; "), strings.Join(orcs, "; "), vC14Bool(gotU), code),
			"", false, map[string]any{"zone": zone, "ds": len(dss), "unsupported_only": gotU, "err": fmt.Sprint(gotErr), "reference_ok": refOK, "note": note})
		return
	}
	tr.emit(kind, fmt.Sprintf("CaseVerifyDS [%s] [%s] [%s] (%s, %s) (%s, %s) %d %s %s", strings.Join(km, "; "), strings.Join(ds, "; "), strings.Join(orcs, "; "),
		vC14Bool(gotU), vC14Bool(gotErr == nil), vC14Bool(refU), vC14Bool(refOK), code, gotMCoq, refMCoq), fail, len(dss) > 0,
		map[string]any{"zone": zone, "keys": nkeys, "ds": len(dss), "unsupported_only": gotU, "err": fmt.Sprint(gotErr), "matched_buckets": len(gotMatched), "note": note})
}

// vC14NameInZone reaches internal/dnsutil.NameInZone the way the anchored code does.
func vC14NameInZone(name, zone string) bool {
	return dnsutil.NameInZone(name, zone)
}

var _ = bytes.Equal
