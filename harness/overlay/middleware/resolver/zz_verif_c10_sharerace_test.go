//go:build verif

package resolver

// C10 driver "sharerace" (thorough tier, built with -race) — TESTING. The share
// driver is run once more in a child process of this very binary under
// the race detector, with GORACE sending the detector's reports to files in the
// scratch directory instead of aborting. The child's own lines (client-side
// oracle) are passed through; every DATA RACE report becomes one failing line
// that quotes the two stacks, so a detector hit is a concrete finding of this
// run and not a bare "driver failed".

import (
	"bufio"
	"encoding/json"
	"fmt"
	"os"
	"os/exec"
	"path/filepath"
	"strconv"
	"strings"
	"testing"
)

func vC10ShareRaceChild(t *testing.T, f *os.File, scratch, test string, n int) {
	sub := filepath.Join(scratch, "child-"+test)
	_ = os.MkdirAll(sub, 0o755)
	childOut := filepath.Join(sub, "trace.jsonl")
	logPrefix := filepath.Join(sub, "race")
	self, err := os.Executable()
	if err != nil {
		self, _ = filepath.Abs(os.Args[0])
	}
	cmd := exec.Command(self, "-test.run", "^"+test+"$", "-test.count=1", "-test.timeout=1200s")
	cmd.Dir = sub
	env := []string{}
	for _, kv := range os.Environ() {
		if strings.HasPrefix(kv, "VERIF_OUT=") || strings.HasPrefix(kv, "VERIF_N=") || strings.HasPrefix(kv, "VERIF_SCRATCH=") || strings.HasPrefix(kv, "GORACE=") {
			continue
		}
		env = append(env, kv)
	}
	env = append(env, "VERIF_OUT="+childOut, fmt.Sprintf("VERIF_N=%d", n), "VERIF_SCRATCH="+sub,
		"GORACE=log_path="+logPrefix+" halt_on_error=0 history_size=3")
	cmd.Env = env
	outb, runErr := cmd.CombinedOutput()

	lines := 0
	if cf, err := os.Open(childOut); err == nil {
		sc := bufio.NewScanner(cf)
		sc.Buffer(make([]byte, 1<<20), 64<<20)
		for sc.Scan() {
			var m map[string]any
			if json.Unmarshal(sc.Bytes(), &m) != nil {
				continue
			}
			// Coq terms were evaluated in the plain run of the same generator; here only the
			// Go-side verdicts travel on
			delete(m, "coq")
			if k, ok := m["k"].(string); ok {
				m["k"] = "race:" + k
			}
			b, _ := json.Marshal(m)
			_, _ = f.Write(append(b, '\n'))
			lines++
		}
		cf.Close()
	}
	// the detector's reports
	var reports []string
	files, _ := filepath.Glob(logPrefix + ".*")
	for _, p := range files {
		b, err := os.ReadFile(p)
		if err != nil {
			continue
		}
		for _, rep := range strings.Split(string(b), "==================") {
			if strings.Contains(rep, "DATA RACE") {
				reports = append(reports, strings.TrimSpace(rep))
			}
		}
	}
	sum := map[string]any{"k": "race-detector:" + test, "nontrivial": lines > 0,
		"desc": map[string]any{"child_lines": lines, "data_race_reports": len(reports), "child_exit": fmt.Sprint(runErr)}}
	switch {
	case len(reports) > 0:
		rep := reports[0]
		if len(rep) > 2400 {
			rep = rep[:2400]
		}
		sum["go_fail"] = fmt.Sprintf("the race detector reported %d data race(s) while %s ran; first:\n%s", len(reports), test, rep)
	case lines == 0:
		tail := string(outb)
		if len(tail) > 1200 {
			tail = tail[len(tail)-1200:]
		}
		sum["go_fail"] = "the child run under the race detector produced no line: " + tail
	}
	b, _ := json.Marshal(sum)
	_, _ = f.Write(append(b, '\n'))
}

func TestVerifC10ShareRace(t *testing.T) {
	out := os.Getenv("VERIF_OUT")
	if out == "" {
		t.Skip("VERIF_OUT not set")
	}
	f, err := os.Create(out)
	if err != nil {
		t.Fatal(err)
	}
	defer f.Close()
	scratch := os.Getenv("VERIF_SCRATCH")
	if scratch == "" {
		t.Skip("VERIF_SCRATCH not set")
	}
	n, _ := strconv.Atoi(os.Getenv("VERIF_N"))
	if n == 0 {
		n = 40
	}
	vC10ShareRaceChild(t, f, scratch, "TestVerifC10Share", n)
}
