//go:build verif

package resolver

// C08 race driver (overlay-injected, never committed to /repo): two
// resolutions of names under the same zone overlap in a scripted way.
// Resolution A (cold) is held at the parent: while the parent's referral for
// a.tld. is "on the wire", resolution B runs to completion through the same
// pipeline (it learns and stores a.tld. from the referral the parent publishes
// at that moment), then the parent changes the TTLs it publishes (and occasionally
// real time passes); only then does A receive its referral. Depending on the
// schedule A finds B's delegation live (cached branch: the shorter of B's lease
// and A's own referral must win) or already expired (A stores a new lease over
// the dead entry), and both answers are admitted under their own lineage.
//
// The Coq side replays the interleaved step list on the model (every step with
// its own clock bracket) and compares the stored delegations, both answer
// entries and the servers each resolution asked.

import (
	"encoding/json"
	"fmt"
	"math/rand"
	"os"
	"path/filepath"
	"strings"
	"sync"
	"testing"
	"time"

	"github.com/miekg/dns"
)

type vC08RaceParams struct {
	T0, X1, X2 uint32 // NS TTLs: tld., a.tld. when B asks, a.tld. when A's referral leaves
	Ans        uint32
	NX         bool // B asks a name that does not exist
	Slow       bool // B's lease is 1 s and A's referral is held 1.3 s of real time
	Repoint    bool // the parent re-points a.tld. between the two referrals
}

func vC08RaceCorpus(t *testing.T) []vC08RaceParams {
	dir := os.Getenv("VERIF_CORPUS")
	if dir == "" {
		return nil
	}
	raw, err := os.ReadFile(filepath.Join(dir, "race.json"))
	if err != nil {
		return nil
	}
	var items []vC08RaceParams
	if err := json.Unmarshal(raw, &items); err != nil {
		t.Fatalf("corpus race.json: %v", err)
	}
	return items
}

type vC08RaceStep struct {
	id     int
	act    string
	t0, t1 int64
}

func TestVerifC08Race(t *testing.T) {
	o := vC08Open(t)
	defer o.f.Close()
	seed := int64(vC08EnvInt("VERIF_SEED", 1))
	n := vC08EnvInt("VERIF_N", 40)
	r := rand.New(rand.NewSource(seed*104729 + 7))
	w := &vC08World{}
	for _, z := range []string{".", "tld.", "a.tld.", "a.tld."} {
		w.start(t, z)
	}
	defer w.stopAll()
	ttlPool := []uint32{4, 10, 30, 300, 3600, 43200, 43201, 172800}
	params := vC08RaceCorpus(t)
	ncorpus := len(params)
	for c := 0; c < n; c++ {
		pr := vC08RaceParams{T0: ttlPool[r.Intn(len(ttlPool))], X1: ttlPool[r.Intn(len(ttlPool))], X2: ttlPool[r.Intn(len(ttlPool))],
			Ans: []uint32{1, 60, 3600, 86400}[r.Intn(4)], NX: r.Intn(4) == 0, Slow: r.Intn(12) == 0, Repoint: r.Intn(2) == 0}
		params = append(params, pr)
	}
	for c, pr := range params {
		t0ttl, x1, x2, ansTTL := pr.T0, pr.X1, pr.X2, pr.Ans
		w.mu.Lock()
		for _, s := range w.srvs {
			s.deleg, s.mode, s.ansTTL, s.negTTL = map[string]*vC08Deleg{}, 0, ansTTL, 30
		}
		w.srvs[0].deleg["tld."] = &vC08Deleg{nsTTL: []uint32{t0ttl}, target: 1, active: true}
		w.srvs[1].deleg["a.tld."] = &vC08Deleg{nsTTL: []uint32{x1}, target: 2, active: true}
		w.log = nil
		w.mu.Unlock()
		p := vC08NewPipeWith(t, w, 0, 0, nil)
		labs := vC08Labels{}
		nameA, nameB := "w1.a.tld.", "w2.a.tld."
		if pr.NX {
			nameB = "nx.a.tld."
		}
		// Occasionally B's lease is one second and A's referral stays on the wire for 1.3 s of REAL
		// time, so that A finds B's delegation already expired and stores a new lease over it. (The
		// virtual clock cannot be used here: shifting stored instants does not move the deadline A
		// carries in flight.)
		var sleep time.Duration
		if pr.Slow {
			x1 = 1
			if t0ttl < 10 {
				t0ttl = 30
			}
			w.mu.Lock()
			w.srvs[0].deleg["tld."].nsTTL = []uint32{t0ttl}
			w.srvs[1].deleg["a.tld."].nsTTL = []uint32{x1}
			w.mu.Unlock()
			sleep = 1300 * time.Millisecond
		}
		// half of the time the parent also RE-POINTS the zone between the two referrals: A's referral then names other
		// servers than the delegation B stored, which A (cached branch) resolves through
		repoint := pr.Repoint
		inconcl := false
		var once sync.Once
		var hT0, hT1, bT0, bT1 int64
		var repB vC08Reply
		var logPreB, logB []vC08LogEnt
		w.mu.Lock()
		w.hook = func(srv int, q dns.Question) {
			if srv != 1 || !strings.EqualFold(q.Name, nameA) {
				return
			}
			once.Do(func() {
				hT0 = p.now()
				logPreB = w.takeLog()
				bT0 = p.now()
				repB = p.ask(nameB, dns.TypeA, r.Intn(2) == 0)
				bT1 = p.now()
				logB = w.takeLog()
				if sleep > 0 {
					time.Sleep(sleep)
				}
				w.mu.Lock()
				w.srvs[1].deleg["a.tld."].nsTTL = []uint32{x2}
				if repoint {
					w.srvs[1].deleg["a.tld."].target = 3
				}
				w.mu.Unlock()
				hT1 = p.now()
			})
		}
		w.mu.Unlock()
		aT0 := p.now()
		repA := p.ask(nameA, dns.TypeA, r.Intn(2) == 0)
		aT1 := p.now()
		logA := w.takeLog()
		w.mu.Lock()
		w.hook = nil
		w.mu.Unlock()
		if !repA.ok || !repB.ok || hT1 == 0 || bT1-bT0 > int64(time.Second) || (hT0-aT0)+(aT1-hT1) > int64(time.Second) {
			inconcl = true
		}
		keyOf := map[string]int{nameA: 1, nameB: 2}
		var steps []string
		asked := map[int][]string{}
		render := func(id int, name string, log []vC08LogEnt, t0, t1 int64, seedFirst bool) {
			if seedFirst {
				steps = append(steps, fmt.Sprintf("mk_rstep %d (LSeed %s) %s %s", id, labs.zone(name), vC08Z(t0), vC08Z(t1)))
			}
			for _, e := range log {
				if e.name != strings.ToLower(name) || e.qtype != dns.TypeA {
					inconcl = true
					continue
				}
				asked[id] = append(asked[id], fmt.Sprintf("%d", e.srv))
				switch e.kind {
				case vC08RespReferral, vC08RespJunk:
					steps = append(steps, fmt.Sprintf("mk_rstep %d (LRefer %s %d true %d None) %s %s", id, labs.zone(e.refZ), e.refTo, vC08MinTTL(e.refTTL), vC08Z(t0), vC08Z(t1)))
				default:
					steps = append(steps, fmt.Sprintf("mk_rstep %d (LStore %d %s) %s %s", id, keyOf[name], vC08Z(int64(e.ansTTL)*int64(time.Second)), vC08Z(t0), vC08Z(t1)))
				}
			}
		}
		// A up to the moment the parent was asked, B entirely, A from the parent's reply on.
		// (The parent logs A's question only when it answers, i.e. after the hook: it belongs to the last part.)
		render(1, nameA, logPreB, aT0, hT0, true)
		render(2, nameB, logB, bT0, bT1, true)
		render(1, nameA, logA, hT1, aT1, false)
		var ds, es []string
		for _, z := range []string{"tld.", "a.tld."} {
			e, ok := p.deleg(z)
			ds = append(ds, fmt.Sprintf("(%s, %s)", labs.zone(z), vC08OZ2(ok, e)))
		}
		for _, nm := range []string{nameA, nameB} {
			e, ok := p.entry(nm, dns.TypeA)
			if !ok {
				es = append(es, fmt.Sprintf("(%d%%N, None)", keyOf[nm]))
				continue
			}
			es = append(es, fmt.Sprintf("(%d%%N, Some (%s%%Z, %s%%Z, %s))", keyOf[nm], vC08Z(p.virt(e.Stored)), vC08Z(int64(e.TTL)), vC08OZ2(!e.CutUntil.IsZero(), p.virt(e.CutUntil))))
		}
		kind := "race-cached-branch"
		if c < ncorpus {
			kind = "corpus-" + kind
		}
		if sleep > 0 {
			kind = strings.Replace(kind, "race-cached-branch", "race-store-over-expired", 1)
		}
		if repoint {
			kind += "-repointed"
		}
		// afterwards: the zone is re-pointed (if it was not already) or withdrawn, the clock moves past every lease the
		// parent granted for the OLD server set (server 2: B's referral, and A's when it still named server 2), and A's
		// question is asked again: nothing of server 2 may be served or asked
		const sec = int64(time.Second)
		h12 := int64(12 * time.Hour)
		capd := func(ttl uint32) int64 {
			v := int64(ttl) * sec
			if v > h12 {
				v = h12
			}
			return v
		}
		leaseOld := bT1 + capd(x1)
		if !repoint {
			if v := aT1 + capd(x2); v > leaseOld {
				leaseOld = v
			}
			w.mu.Lock()
			if r.Intn(2) == 0 {
				w.srvs[1].deleg["a.tld."].active = false
			} else {
				w.srvs[1].deleg["a.tld."].target = 3
			}
			w.mu.Unlock()
		}
		if dd := leaseOld + vC08Margin - p.now(); dd > 0 {
			p.advance(time.Duration(dd))
		}
		w.takeLog()
		t4 := p.now()
		rep4 := p.ask(nameA, dns.TypeA, r.Intn(2) == 0)
		oldAsked := false
		for _, e := range w.takeLog() {
			if e.srv == 2 {
				oldAsked = true
			}
		}
		if !rep4.ok {
			inconcl = true
		}
		ghost := rep4.src == 2 || oldAsked
		goFail := ""
		if ghost && !inconcl {
			goFail = fmt.Sprintf("ghost: %s asked again at t=%v, after every lease the parent granted for the old servers of a.tld. ended (%v) and tld. had re-pointed/withdrawn it: rcode=%d src=%d old servers asked=%v",
				nameA, time.Duration(t4), time.Duration(leaseOld), rep4.rcode, rep4.src, oldAsked)
		}
		m := map[string]any{
			"k": kind, "go_fail": goFail, "nontrivial": true,
			"coq": fmt.Sprintf("CaseRace [%s] [%s] [%s] [(1%%N, [%s]%%N); (2%%N, [%s]%%N)] %s %s", strings.Join(steps, "; "), strings.Join(ds, "; "), strings.Join(es, "; "),
				strings.Join(asked[1], ";"), strings.Join(asked[2], ";"), vC08Z(t4), vC08B(ghost)),
			"desc": fmt.Sprintf("tld TTL %d; a.tld. TTL %d when B asked, %d when A's referral left; answer TTL %d; A's referral held %v on the wire; A=%s -> rcode %d src %d; B=%s -> rcode %d src %d; delegations %v; entries %v; re-pointed between the referrals=%v; old servers' leases end %v, A asked again at t=%v: rcode=%d src=%d old servers asked=%v",
				t0ttl, x1, x2, ansTTL, sleep, nameA, repA.rcode, repA.src, nameB, repB.rcode, repB.src, ds, es, repoint, time.Duration(leaseOld), time.Duration(t4), rep4.rcode, rep4.src, oldAsked),
		}
		if inconcl {
			m["inconclusive"] = true
		}
		o.emit(m)
		p.close()
	}
}
