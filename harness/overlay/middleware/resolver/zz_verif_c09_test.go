//go:build verif

package resolver

// C09 driver: RFC 5011 trust anchors across crashes and faults.
//
// The production entry points are used as they are: NewResolver (seeds
// rootKeys / configuredRootKeys from cfg.RootKeys) and Resolver.AutoTA()
// (called directly, as Resolver.run does). The root zone is a scripted DNS
// server on loopback that serves DNSKEY RRsets signed with real Ed25519 keys.
// Time advances by rewriting FirstSeen in the two gob files between runs
// (the code only evaluates time.Since(FirstSeen)). Read faults are put in
// place before a run and lifted while the run waits for its DNSKEY response
// (the reads are over by then); write faults are put in place at that same
// moment (a directory in place of the file makes the rename fail) and lifted
// after the run. File replacements are observed with inotify (IN_MOVED_TO);
// a crash after k replacements is the directory composed of the pre-run and
// post-run files in the observed order, followed by a fresh NewResolver.
//
// Every history becomes one Coq term (see coq/theories/C09/Run.v).

import (
	"bytes"
	"context"
	"crypto/ed25519"
	"encoding/base64"
	"encoding/gob"
	"encoding/json"
	"errors"
	"fmt"
	"math/rand"
	"net"
	"os"
	"path/filepath"
	"sort"
	"strconv"
	"strings"
	"sync"
	"syscall"
	"testing"
	"time"
	"unsafe"

	"github.com/miekg/dns"
	"github.com/semihalev/sdns/config"
	"github.com/semihalev/sdns/internal/authority"
	"github.com/semihalev/sdns/internal/cache"
	"github.com/semihalev/sdns/internal/dnsutil"
	"github.com/semihalev/sdns/middleware"
	"github.com/semihalev/sdns/middleware/resolver/dnssec"
	"github.com/semihalev/zlog/v2"
)

func vC09EnvInt(name string, def int) int {
	if s := os.Getenv(name); s != "" {
		if n, err := strconv.Atoi(s); err == nil {
			return n
		}
	}
	return def
}

// ------------------------------------------------------------------ keys

type vC09Sym struct {
	mat   int
	flags uint16
}

type vC09Key struct {
	pub  string
	priv ed25519.PrivateKey
}

type vC09Pool struct {
	keys    []vC09Key
	byPub   map[string]int
	normal  []int    // no carry, tags of both forms unique among the normal keys
	carry   []int    // tag(revoked form) = tag + 129
	collide [][2]int // tag(a,257) == tag(b,257), neither carries
	revcol  [][2]int // tag(b,257) == tag(a,385), neither carries
}

type vC09Reader struct{ r *rand.Rand }

func (z vC09Reader) Read(p []byte) (int, error) {
	for i := range p {
		p[i] = byte(z.r.Intn(256))
	}
	return len(p), nil
}

func (p *vC09Pool) rr(k vC09Sym) *dns.DNSKEY {
	return &dns.DNSKEY{
		Hdr:       dns.RR_Header{Name: ".", Rrtype: dns.TypeDNSKEY, Class: dns.ClassINET, Ttl: 3600},
		Flags:     k.flags,
		Protocol:  3,
		Algorithm: dns.ED25519,
		PublicKey: p.keys[k.mat].pub,
	}
}

func (p *vC09Pool) tag(k vC09Sym) uint16 { return dnssec.KeyTag(p.rr(k)) }

// role names make recorded histories independent of the seed: n<i> = i-th ordinary key, c<j>a/b = the
// two keys of the j-th pair with equal tags, r<j>a/b = pair where tag(b) = tag(revoked form of a),
// y<j> = j-th key whose revoked form has tag+129
func (p *vC09Pool) role(k vC09Sym) string {
	for i, m := range p.normal {
		if m == k.mat {
			return fmt.Sprintf("n%d/%d", i, k.flags)
		}
	}
	for j, pr := range p.collide {
		if pr[0] == k.mat {
			return fmt.Sprintf("c%da/%d", j, k.flags)
		}
		if pr[1] == k.mat {
			return fmt.Sprintf("c%db/%d", j, k.flags)
		}
	}
	for j, pr := range p.revcol {
		if pr[0] == k.mat {
			return fmt.Sprintf("r%da/%d", j, k.flags)
		}
		if pr[1] == k.mat {
			return fmt.Sprintf("r%db/%d", j, k.flags)
		}
	}
	for j, m := range p.carry {
		if m == k.mat {
			return fmt.Sprintf("y%d/%d", j, k.flags)
		}
	}
	return fmt.Sprintf("m%d/%d", k.mat, k.flags)
}

func (p *vC09Pool) unrole(s string) (vC09Sym, bool) {
	parts := strings.SplitN(s, "/", 2)
	if len(parts) != 2 || len(parts[0]) < 2 {
		return vC09Sym{}, false
	}
	fl, err := strconv.Atoi(parts[1])
	if err != nil {
		return vC09Sym{}, false
	}
	r := parts[0]
	side := byte(0)
	num := r[1:]
	if r[0] == 'c' || r[0] == 'r' {
		side = r[len(r)-1]
		num = r[1 : len(r)-1]
	}
	i, err := strconv.Atoi(num)
	if err != nil || i < 0 {
		return vC09Sym{}, false
	}
	pick := func(pr [][2]int) (vC09Sym, bool) {
		if i >= len(pr) {
			return vC09Sym{}, false
		}
		if side == 'a' {
			return vC09Sym{pr[i][0], uint16(fl)}, true
		}
		return vC09Sym{pr[i][1], uint16(fl)}, true
	}
	switch r[0] {
	case 'n':
		if i < len(p.normal) {
			return vC09Sym{p.normal[i], uint16(fl)}, true
		}
	case 'c':
		return pick(p.collide)
	case 'r':
		return pick(p.revcol)
	case 'y':
		if i < len(p.carry) {
			return vC09Sym{p.carry[i], uint16(fl)}, true
		}
	case 'm':
		if i < len(p.keys) {
			return vC09Sym{i, uint16(fl)}, true
		}
	}
	return vC09Sym{}, false
}

func vC09NewPool(seed int64, n int) *vC09Pool {
	r := rand.New(rand.NewSource(seed*7919 + 9))
	p := &vC09Pool{byPub: map[string]int{}}
	rd := vC09Reader{r}
	byTag := map[uint16][]int{}
	for i := 0; i < n; i++ {
		// ed25519.GenerateKey may read extra randomness in some toolchains; derive from a seed instead
		var sd [ed25519.SeedSize]byte
		_, _ = rd.Read(sd[:])
		priv := ed25519.NewKeyFromSeed(sd[:])
		pub := base64.StdEncoding.EncodeToString(priv.Public().(ed25519.PublicKey))
		p.keys = append(p.keys, vC09Key{pub: pub, priv: priv})
		p.byPub[pub] = i
	}
	usedTags := map[uint16]bool{}
	isCarry := make([]bool, n)
	for i := 0; i < n; i++ {
		t := p.tag(vC09Sym{i, 257})
		tr := p.tag(vC09Sym{i, 385})
		if tr != t+128 {
			isCarry[i] = true
			if len(p.carry) < 8 {
				p.carry = append(p.carry, i)
			}
			continue
		}
		byTag[t] = append(byTag[t], i)
	}
	for i := 0; i < n && len(p.normal) < 40; i++ {
		if isCarry[i] {
			continue
		}
		t := p.tag(vC09Sym{i, 257})
		if len(byTag[t]) > 1 || len(byTag[t+128]) > 0 || len(byTag[t-128]) > 0 {
			continue
		}
		if usedTags[t] || usedTags[t+128] || usedTags[t-128] {
			continue
		}
		usedTags[t] = true
		usedTags[t+128] = true
		p.normal = append(p.normal, i)
	}
	var tags []int
	for t := range byTag {
		tags = append(tags, int(t))
	}
	sort.Ints(tags)
	for _, ti := range tags {
		t := uint16(ti)
		l := byTag[t]
		if len(l) >= 2 && len(p.collide) < 8 {
			p.collide = append(p.collide, [2]int{l[0], l[1]})
		}
		if o := byTag[t+128]; len(o) > 0 && len(l) == 1 && len(o) == 1 && len(p.revcol) < 8 {
			p.revcol = append(p.revcol, [2]int{l[0], o[0]})
		}
	}
	return p
}

// ---------------------------------------------------------------- server

type vC09Server struct {
	mu     sync.Mutex
	answer []dns.RR
	mode   int // 0 answer, 1 drop; for questions other than (., DNSKEY): 2 NXDOMAIN + SOA, 3 NODATA + SOA, 4 referral to vc09-child., 5 bare NXDOMAIN, 6 bare NOERROR (both sections empty)
	hook   func()
	asked  int
	addr   string
}

func (s *vC09Server) ServeDNS(w dns.ResponseWriter, r *dns.Msg) {
	s.mu.Lock()
	s.asked++
	if s.hook != nil {
		h := s.hook
		s.hook = nil
		h()
	}
	mode := s.mode
	ans := append([]dns.RR(nil), s.answer...)
	s.mu.Unlock()
	if mode == 1 {
		return
	}
	resp := new(dns.Msg)
	resp.SetReply(r)
	resp.Authoritative = true
	if len(r.Question) == 1 && r.Question[0].Qtype == dns.TypeDNSKEY && r.Question[0].Name == "." {
		resp.Answer = ans
	} else if mode >= 2 {
		soa := &dns.SOA{Hdr: dns.RR_Header{Name: ".", Rrtype: dns.TypeSOA, Class: dns.ClassINET, Ttl: 600},
			Ns: "a.root-servers.net.", Mbox: "nstld.verisign-grs.com.", Serial: 2026092600, Refresh: 1800, Retry: 900, Expire: 604800, Minttl: 600}
		switch mode {
		case 2:
			resp.Rcode = dns.RcodeNameError
			resp.Ns = []dns.RR{soa}
		case 3:
			resp.Ns = []dns.RR{soa}
		case 4:
			resp.Authoritative = false
			resp.Ns = []dns.RR{&dns.NS{Hdr: dns.RR_Header{Name: "vc09-child.", Rrtype: dns.TypeNS, Class: dns.ClassINET, Ttl: 600}, Ns: "ns.vc09-child."}}
			resp.Extra = []dns.RR{&dns.A{Hdr: dns.RR_Header{Name: "ns.vc09-child.", Rrtype: dns.TypeA, Class: dns.ClassINET, Ttl: 600}, A: net.IPv4(127, 0, 0, 1)}}
		case 5:
			resp.Rcode = dns.RcodeNameError
		}
	}
	_ = w.WriteMsg(resp)
}

func vC09StartServer(t *testing.T) *vC09Server {
	s := &vC09Server{}
	var pc net.PacketConn
	var l net.Listener
	var err error
	for try := 0; try < 20; try++ {
		pc, err = net.ListenPacket("udp", "127.0.0.1:0")
		if err != nil {
			continue
		}
		l, err = net.Listen("tcp", pc.LocalAddr().String())
		if err != nil {
			_ = pc.Close()
			continue
		}
		break
	}
	if err != nil {
		t.Fatalf("cannot bind loopback: %v", err)
	}
	s.addr = pc.LocalAddr().String()
	go func() { _ = (&dns.Server{PacketConn: pc, Handler: s}).ActivateAndServe() }()
	go func() { _ = (&dns.Server{Listener: l, Handler: s}).ActivateAndServe() }()
	return s
}

// --------------------------------------------------------------- inotify

// One inotify instance for the whole run (instances are a scarce per-user resource); a watch per
// history directory. When inotify cannot be had at all the order of the replacements is read from the
// inode change times instead (rename updates ctime; the two renames are separated by fsyncs).
type vC09Watch struct {
	fd  int // -1: fallback mode
	wd  int
	dir string
	ino map[string]uint64
	// what happened to temp files (names <file>.tmp.*) and to the two named files since the last drain, as the
	// codes of Run.v OFs: 10c+k, c = 0 tombstones / 1 state; k = 1 temp created, 2 written, 3 closed after
	// writing, 4 moved away, 5 named file replaced by a move, 6 temp deleted, 7 named file created / written /
	// deleted in place, 8 something moved onto a temp name, 9 anything about another name that starts with the
	// file's name (a side file such as <file>.bak); 99 anything about a name that has nothing to do with the two
	// files; consecutive repeats collapsed
	events []int
	// the same events as they came, for composing the directory after any prefix of them
	raw []vC09RawEv
}

type vC09RawEv struct {
	mask   uint32
	name   string
	cookie uint32
}

const vC09WatchMask = syscall.IN_CREATE | syscall.IN_MODIFY | syscall.IN_CLOSE_WRITE | syscall.IN_MOVED_FROM | syscall.IN_MOVED_TO | syscall.IN_DELETE

func vC09EventCode(mask uint32, name string) int {
	if mask&syscall.IN_ISDIR != 0 {
		return -1
	}
	c, temp := -1, false
	switch {
	case name == tombstoneFile:
		c = 0
	case name == stateFile:
		c = 10
	case strings.HasPrefix(name, tombstoneFile+".tmp."):
		c, temp = 0, true
	case strings.HasPrefix(name, stateFile+".tmp."):
		c, temp = 10, true
	case strings.HasPrefix(name, tombstoneFile+"."):
		return 9
	case strings.HasPrefix(name, stateFile+"."):
		return 19
	default:
		return 99
	}
	if !temp {
		if mask&syscall.IN_MOVED_TO != 0 {
			return c + 5
		}
		if mask&(syscall.IN_CREATE|syscall.IN_MODIFY|syscall.IN_CLOSE_WRITE|syscall.IN_DELETE|syscall.IN_MOVED_FROM) != 0 {
			return c + 7
		}
		return -1
	}
	switch {
	case mask&syscall.IN_CREATE != 0:
		return c + 1
	case mask&syscall.IN_MODIFY != 0:
		return c + 2
	case mask&syscall.IN_CLOSE_WRITE != 0:
		return c + 3
	case mask&syscall.IN_MOVED_FROM != 0:
		return c + 4
	case mask&syscall.IN_DELETE != 0:
		return c + 6
	case mask&syscall.IN_MOVED_TO != 0:
		return c + 8
	}
	return -1
}

var vC09InotifyFd = -2

func vC09Inotify() int {
	if vC09InotifyFd != -2 {
		return vC09InotifyFd
	}
	vC09InotifyFd = -1
	if os.Getenv("VERIF_C09_NOINOTIFY") != "" {
		return -1
	}
	for try := 0; try < 10; try++ {
		fd, err := syscall.InotifyInit1(syscall.IN_NONBLOCK | syscall.IN_CLOEXEC)
		if err == nil {
			vC09InotifyFd = fd
			break
		}
		time.Sleep(300 * time.Millisecond)
	}
	return vC09InotifyFd
}

func vC09NewWatch(dir string) (*vC09Watch, error) {
	w := &vC09Watch{fd: vC09Inotify(), dir: dir, ino: map[string]uint64{}}
	if w.fd >= 0 {
		wd, err := syscall.InotifyAddWatch(w.fd, dir, vC09WatchMask)
		if err != nil {
			w.fd = -1
		} else {
			w.wd = wd
		}
	}
	return w, nil
}

func (w *vC09Watch) snapshot() {
	for _, n := range []string{tombstoneFile, stateFile} {
		var st syscall.Stat_t
		if syscall.Lstat(filepath.Join(w.dir, n), &st) == nil {
			w.ino[n] = st.Ino
		} else {
			delete(w.ino, n)
		}
	}
}

// drain returns the names moved into the directory since the last call, in order
func (w *vC09Watch) drain() []string {
	if w.fd < 0 {
		type ev struct {
			name string
			at   int64
		}
		var evs []ev
		for _, n := range []string{tombstoneFile, stateFile} {
			var st syscall.Stat_t
			if syscall.Lstat(filepath.Join(w.dir, n), &st) != nil || st.Mode&syscall.S_IFMT != syscall.S_IFREG {
				continue
			}
			if old, ok := w.ino[n]; !ok || old != st.Ino {
				evs = append(evs, ev{n, st.Ctim.Sec*1e9 + st.Ctim.Nsec})
			}
		}
		sort.Slice(evs, func(i, j int) bool { return evs[i].at < evs[j].at })
		var names []string
		for _, e := range evs {
			names = append(names, e.name)
		}
		w.snapshot()
		return names
	}
	var names []string
	w.events = nil
	w.raw = nil
	buf := make([]byte, 64*1024)
	for {
		n, err := syscall.Read(w.fd, buf)
		if n <= 0 || err != nil {
			break
		}
		off := 0
		for off+syscall.SizeofInotifyEvent <= n {
			ev := (*syscall.InotifyEvent)(unsafe.Pointer(&buf[off]))
			nameLen := int(ev.Len)
			name := string(bytes.TrimRight(buf[off+syscall.SizeofInotifyEvent:off+syscall.SizeofInotifyEvent+nameLen], "\x00"))
			if ev.Mask&syscall.IN_MOVED_TO != 0 && int(ev.Wd) == w.wd {
				names = append(names, name)
			}
			if int(ev.Wd) == w.wd && ev.Mask&syscall.IN_ISDIR == 0 && name != "" {
				w.raw = append(w.raw, vC09RawEv{ev.Mask, name, ev.Cookie})
			}
			if int(ev.Wd) == w.wd {
				if c := vC09EventCode(ev.Mask, name); c >= 0 && (len(w.events) == 0 || w.events[len(w.events)-1] != c) {
					w.events = append(w.events, c)
				}
			}
			off += syscall.SizeofInotifyEvent + nameLen
		}
	}
	return names
}

func (w *vC09Watch) close() {
	if w.fd >= 0 {
		_, _ = syscall.InotifyRmWatch(w.fd, uint32(w.wd))
	}
}

// --------------------------------------------------------------- history

type vC09Sig struct {
	signer vC09Sym // the private key of signer.mat signs; key tag field = tag(signer) unless tagSet
	tagSet bool
	tagKey vC09Sym // when tagSet: the key tag field is the tag of THIS key
	bad    bool    // signature bytes corrupted
}

type vC09Fetch struct {
	drop bool
	keys []vC09Sym
	sigs []vC09Sig
}

type vC09Faults struct {
	sread  bool
	tread  int // 0 ok 1 corrupt 2 unreadable
	twrite bool
	swrite bool
}

type vC09Obs struct {
	live  []vC09Sym
	state map[uint16]vC09Ent // nil = absent
	tomb  map[int]vC09Tb     // nil = absent
	hasS  bool
	hasT  bool
}
type vC09Ent struct {
	k  vC09Sym
	st int
	fs int64
}
type vC09Tb struct {
	k  vC09Sym
	fs int64
}

type vC09H struct {
	t     *testing.T
	pool  *vC09Pool
	rng   *rand.Rand
	dir   string
	srv   *vC09Server
	watch *vC09Watch
	r     *Resolver
	cfg   []vC09Sym
	V     int64 // virtual clock, minutes
	pub   []vC09Sym
	used  map[vC09Sym]bool
	init  string
	steps []string
	desc  []string
	cur   vC09Obs
	t0    time.Time
	bad   string // non-empty: infrastructure trouble, history is inconclusive
	// last run, for rollback
	preS, preT, postS, postT []byte
	preSok, preTok           bool
	postSok, postTok         bool
	renames                  []int
	windows                  []string // CWindow cases (json lines) produced at restarts
	windowBad                bool
	removed                  []vC09Sym
	initCfg                  []vC09Sym
	idx                      int
	budget                   int       // > 0: request-tree work budget enforced, this many signature checks
	script                   []any     // the history as replayable operations (roles, not pool indices)
	twins                    int       // colliding-tag pairs still to hand out
	twinQ                    []vC09Sym // second halves of handed-out pairs
	sticky                   vC09Faults
	stickyLeft               int
	windowSeen               map[string]bool
	junk                     map[string]bool   // temp files lying in the directory (left by simulated crashes)
	preDir, postDir          map[string][]byte // every regular file of the directory before / after the last run
	rawEv                    []vC09RawEv       // what the watcher saw during the last run (after the fetch hook)
	tRun, tNew               time.Duration
	nRun, nNew, nDrop        int
}

func (h *vC09H) spath() string { return filepath.Join(h.dir, stateFile) }
func (h *vC09H) tpath() string { return filepath.Join(h.dir, tombstoneFile) }

func vC09ReadOpt(p string) ([]byte, bool) {
	st, err := os.Lstat(p)
	if err != nil || !st.Mode().IsRegular() {
		return nil, false
	}
	b, err := os.ReadFile(p)
	if err != nil {
		return nil, false
	}
	return b, true
}

func vC09Restore(p string, b []byte, ok bool) {
	_ = os.RemoveAll(p)
	if ok {
		_ = os.WriteFile(p, b, 0o600)
	}
}

func (h *vC09H) sym(k *dns.DNSKEY) vC09Sym {
	m, ok := h.pool.byPub[k.PublicKey]
	if !ok {
		h.bad = "unknown key material observed"
		return vC09Sym{0, k.Flags}
	}
	s := vC09Sym{m, k.Flags}
	h.used[s] = true
	return s
}

func (h *vC09H) vtime(now time.Time, fs time.Time) int64 {
	age := now.Sub(fs)
	min := int64((age + 30*time.Second) / time.Minute)
	if age < 0 {
		min = 0
	}
	return h.V - min
}

func (h *vC09H) observe() vC09Obs {
	now := time.Now()
	var o vC09Obs
	h.r.RLock()
	for _, rr := range h.r.rootKeys {
		if k, ok := rr.(*dns.DNSKEY); ok {
			o.live = append(o.live, h.sym(k))
		}
	}
	h.r.RUnlock()
	if b, ok := vC09ReadOpt(h.spath()); ok {
		m := make(TrustAnchors)
		if err := gob.NewDecoder(bytes.NewReader(b)).Decode(&m); err == nil {
			o.hasS = true
			o.state = map[uint16]vC09Ent{}
			for tag, ta := range m {
				o.state[tag] = vC09Ent{h.sym(ta.DNSKey), int(ta.State), h.vtime(now, ta.FirstSeen)}
			}
		} else {
			h.bad = "state file on disk does not decode"
		}
	}
	if b, ok := vC09ReadOpt(h.tpath()); ok {
		m := make(Tombstones)
		if err := gob.NewDecoder(bytes.NewReader(b)).Decode(&m); err == nil {
			o.hasT = true
			o.tomb = map[int]vC09Tb{}
			for fp, tb := range m {
				s := h.sym(tb.DNSKey)
				if fp != dnskeyMaterialFP(tb.DNSKey) {
					h.bad = "tombstone keyed by something else than its material"
				}
				o.tomb[s.mat] = vC09Tb{s, h.vtime(now, tb.FirstSeen)}
			}
		} else {
			h.bad = "tombstone file on disk does not decode"
		}
	}
	// canonical order of the live set: configured order when it is the configured
	// list, otherwise sorted (it then comes out of a map)
	same := len(o.live) == len(h.cfg)
	if same {
		for i := range o.live {
			if o.live[i] != h.cfg[i] {
				same = false
			}
		}
	}
	if !same {
		sort.Slice(o.live, func(i, j int) bool {
			a, b := o.live[i], o.live[j]
			if a.mat != b.mat {
				return a.mat < b.mat
			}
			return a.flags < b.flags
		})
	}
	return o
}

func vC09KeysCoq(l []vC09Sym) string {
	var s []string
	for _, k := range l {
		s = append(s, fmt.Sprintf("K %d %d", k.mat, k.flags))
	}
	return "[" + strings.Join(s, ";") + "]"
}

func (o vC09Obs) coq() string {
	st := "None"
	if o.hasS {
		var tags []int
		for t := range o.state {
			tags = append(tags, int(t))
		}
		sort.Ints(tags)
		var s []string
		for _, t := range tags {
			e := o.state[uint16(t)]
			s = append(s, fmt.Sprintf("E %d %d %d %d %s", t, e.k.mat, e.k.flags, e.st, vC09Z(e.fs)))
		}
		st = "(Some [" + strings.Join(s, ";") + "])"
	}
	tb := "None"
	if o.hasT {
		var ms []int
		for m := range o.tomb {
			ms = append(ms, m)
		}
		sort.Ints(ms)
		var s []string
		for _, m := range ms {
			e := o.tomb[m]
			s = append(s, fmt.Sprintf("TB %d %d %s", e.k.mat, e.k.flags, vC09Z(e.fs)))
		}
		tb = "(Some [" + strings.Join(s, ";") + "])"
	}
	return fmt.Sprintf("(O %s %s %s)", vC09KeysCoq(o.live), st, tb)
}

func vC09Z(v int64) string {
	if v < 0 {
		return fmt.Sprintf("(%d)", v)
	}
	return fmt.Sprintf("%d", v)
}

func vC09B(b bool) string {
	if b {
		return "true"
	}
	return "false"
}

func (o vC09Obs) short() string {
	var s []string
	for _, k := range o.live {
		s = append(s, fmt.Sprintf("%d/%d", k.mat, k.flags))
	}
	var e []string
	var tags []int
	for t := range o.state {
		tags = append(tags, int(t))
	}
	sort.Ints(tags)
	names := []string{"START", "PEND", "VALID", "MISSING", "REVOKED", "REMOVED"}
	for _, t := range tags {
		x := o.state[uint16(t)]
		nm := "?"
		if x.st >= 0 && x.st < len(names) {
			nm = names[x.st]
		}
		e = append(e, fmt.Sprintf("%d:%d/%d:%s@%d", t, x.k.mat, x.k.flags, nm, x.fs))
	}
	var tb []string
	var ms []int
	for m := range o.tomb {
		ms = append(ms, m)
	}
	sort.Ints(ms)
	for _, m := range ms {
		tb = append(tb, fmt.Sprintf("%d", m))
	}
	return fmt.Sprintf("live=[%s] state=[%s] tomb=[%s]", strings.Join(s, " "), strings.Join(e, " "), strings.Join(tb, " "))
}

// restart: a new process on the same directory
// NewResolver starts a goroutine (Resolver.run) that waits for middleware.Ready() for ever, so every Resolver this
// process ever made stays reachable — with its pre-allocated delegation and glue caches (about 1.3 MB each, three or
// four Resolvers per history: 3.5 GB after 800 histories, which made the thorough tier the OOM killer's first choice
// on a busy machine). A Resolver the driver is done with gets small caches in their place; they are valid objects, so
// nothing that might still hold the old Resolver can trip over them.
var vC09TinyCache = cache.New(1) // one for all released Resolvers: nobody uses them any more

func vC09Release(r *Resolver) {
	if r == nil {
		return
	}
	r.glueV4 = vC09TinyCache
	if r.glueV6 != nil {
		r.glueV6 = vC09TinyCache
	}
	type mirror struct {
		c   *cache.Cache
		now func() time.Time
	}
	if r.delegations != nil && unsafe.Sizeof(authority.Cache{}) == unsafe.Sizeof(mirror{}) {
		(*mirror)(unsafe.Pointer(r.delegations)).c = vC09TinyCache
	}
}

func (h *vC09H) newResolver(cfg []vC09Sym, tr int, sr bool) {
	tp := h.tpath()
	pt, ptok := vC09ReadOpt(tp)
	sp := h.spath()
	ps, psok := vC09ReadOpt(sp)
	if sr {
		_ = os.RemoveAll(sp)
		if h.rng.Intn(2) == 0 {
			_ = os.WriteFile(sp, []byte("not a gob stream"), 0o600)
		} else {
			_ = os.Symlink(stateFile, sp)
		}
	}
	switch tr {
	case 1:
		_ = os.RemoveAll(tp)
		if h.rng.Intn(2) == 0 {
			_ = os.WriteFile(tp, []byte{0x03, 0xff, 0x82, 0x00, 0x01}, 0o600)
		} else {
			_ = os.WriteFile(tp, nil, 0o600)
		}
	case 2:
		_ = os.RemoveAll(tp)
		_ = os.Symlink(tombstoneFile, tp)
	}
	c := new(config.Config)
	c.RootServers = []string{h.srv.addr}
	for _, k := range cfg {
		h.used[k] = true
		c.RootKeys = append(c.RootKeys, h.pool.rr(k).String())
	}
	c.DNSSEC = "on"
	c.Maxdepth = 30
	c.Expire = 600
	c.CacheSize = 256
	c.Timeout.Duration = 150 * time.Millisecond
	c.Directory = h.dir
	c.IPv6Access = false
	if h.budget > 0 {
		c.RecursionFirewall.Mode = config.RecursionFirewallModeEnforce
		c.RecursionFirewall.MaxSignatureChecks = uint32(h.budget)
		c.RecursionFirewall.MaxRRsetSignatureChecks = uint32(h.budget)
	}
	tA := time.Now()
	vC09Release(h.r)
	h.r = NewResolver(c)
	h.tNew += time.Since(tA)
	h.nNew++
	if tr != 0 {
		vC09Restore(tp, pt, ptok)
	}
	if sr {
		vC09Restore(sp, ps, psok)
	}
	h.cfg = append([]vC09Sym(nil), cfg...)
	h.cur = h.observe()
	// restart-window observation: what is live right after NewResolver against the revocations on record
	markers := map[int]bool{}
	for _, e := range h.cur.state {
		if e.st == int(StateRevoked) || e.st == int(StateRemoved) {
			markers[e.k.mat] = true
		}
	}
	if (h.cur.hasT && len(h.cur.tomb) > 0) || len(markers) > 0 || tr != 0 || sr {
		viol := false
		for _, k := range h.cur.live {
			if _, ok := h.cur.tomb[k.mat]; ok || markers[k.mat] {
				viol = true
			}
		}
		if (tr != 0 || sr) && len(h.cur.live) > 0 {
			viol = true
		}
		rec := map[string]any{
			"k":          "window-clean",
			"coq":        fmt.Sprintf("CWindow %s %s %s %d %s %s", h.tbl(), vC09KeysCoq(cfg), h.cur.coq(), tr, vC09B(sr), vC09KeysCoq(h.cur.live)),
			"nontrivial": true,
			"desc":       map[string]any{"index": h.idx, "what": "rootKeys right after NewResolver vs revocations on record", "config": vC09KeysCoq(cfg), "tombstone_read": tr, "state_read_fails": sr, "observed": h.cur.short()},
		}
		cls := "ok"
		if tr != 0 || sr {
			rec["k"] = "window-store-unreadable"
			cls = "fault"
		}
		if len(markers) > 0 {
			rec["k"] = "window-marker"
			cls = "marker"
		}
		if viol {
			rec["k"] = "window-revoked-configured"
			cls = "bad"
		}
		b, _ := json.Marshal(rec)
		if !h.windowSeen[cls] {
			h.windows = append(h.windows, string(b))
		}
		h.windowSeen[cls] = true
	}
}

func (h *vC09H) roles(l []vC09Sym) []string {
	out := []string{}
	for _, k := range l {
		out = append(out, h.pool.role(k))
	}
	return out
}

func (h *vC09H) start(cfg []vC09Sym) {
	h.script = append(h.script, map[string]any{"op": "start", "cfg": h.roles(cfg), "budget": h.budget})
	h.newResolver(cfg, 0, false)
	h.initCfg = append([]vC09Sym(nil), cfg...)
	h.init = h.cur.coq()
	h.desc = append(h.desc, fmt.Sprintf("start cfg=%s -> %s", vC09KeysCoq(cfg), h.cur.short()))
}

func (h *vC09H) restart(cfg []vC09Sym) {
	tr, sr := 0, false
	if x := h.rng.Intn(15); x < 2 {
		tr = x + 1 // the tombstone file is corrupt / cannot be opened while the process starts
	} else if x == 2 {
		sr = true // the state file cannot be read while the process starts
	}
	h.restartWith(cfg, tr, sr)
}

func (h *vC09H) restartWith(cfg []vC09Sym, tr int, sr bool) {
	h.script = append(h.script, map[string]any{"op": "restart", "cfg": h.roles(cfg), "tr": tr, "sr": sr})
	h.newResolver(cfg, tr, sr)
	h.steps = append(h.steps, fmt.Sprintf("ORestart %s %d %s %s", vC09KeysCoq(cfg), tr, vC09B(sr), h.cur.coq()))
	h.desc = append(h.desc, fmt.Sprintf("restart cfg=%s tombstone_read=%d state_read_fails=%v -> %s", vC09KeysCoq(cfg), tr, sr, h.cur.short()))
	h.probes(nil)
}

// advance the clock: every stored instant moves into the past
func (h *vC09H) advance(min int64) {
	if min <= 0 {
		return
	}
	h.script = append(h.script, map[string]any{"op": "advance", "min": min})
	// never land an entry exactly on a hold-down boundary: the code compares real
	// nanoseconds (boundary + a few ms counts as "after"), the cases carry minutes
	for again := true; again; {
		again = false
		for _, e := range h.cur.state {
			if age := h.V + min - e.fs; age == 30*vC09Day || age == 90*vC09Day {
				min++
				again = true
			}
		}
	}
	d := time.Duration(min) * time.Minute
	if b, ok := vC09ReadOpt(h.spath()); ok {
		m := make(TrustAnchors)
		if err := gob.NewDecoder(bytes.NewReader(b)).Decode(&m); err == nil {
			for _, ta := range m {
				ta.FirstSeen = ta.FirstSeen.Add(-d)
			}
			var buf bytes.Buffer
			_ = gob.NewEncoder(&buf).Encode(&m)
			_ = os.WriteFile(h.spath(), buf.Bytes(), 0o600)
		}
	}
	if b, ok := vC09ReadOpt(h.tpath()); ok {
		m := make(Tombstones)
		if err := gob.NewDecoder(bytes.NewReader(b)).Decode(&m); err == nil {
			for _, tb := range m {
				tb.FirstSeen = tb.FirstSeen.Add(-d)
			}
			var buf bytes.Buffer
			_ = gob.NewEncoder(&buf).Encode(&m)
			_ = os.WriteFile(h.tpath(), buf.Bytes(), 0o600)
		}
	}
	h.V += min
	h.desc = append(h.desc, fmt.Sprintf("advance %dmin -> t=%d", min, h.V))
}

func (h *vC09H) buildAnswer(fe vC09Fetch) ([]dns.RR, string) {
	var set []dns.RR
	for _, k := range fe.keys {
		h.used[k] = true
		set = append(set, h.pool.rr(k))
	}
	out := append([]dns.RR(nil), set...)
	var sg []string
	now := time.Now()
	for _, s := range fe.sigs {
		h.used[s.signer] = true
		tag := h.pool.tag(s.signer)
		if s.tagSet {
			h.used[s.tagKey] = true
			tag = h.pool.tag(s.tagKey)
		}
		sig := &dns.RRSIG{
			Hdr:         dns.RR_Header{Name: ".", Rrtype: dns.TypeRRSIG, Class: dns.ClassINET, Ttl: 3600},
			TypeCovered: dns.TypeDNSKEY, Algorithm: dns.ED25519, SignerName: ".", KeyTag: tag, OrigTtl: 3600,
			Inception: uint32(now.Add(-2 * time.Hour).Unix()), Expiration: uint32(now.Add(48 * time.Hour).Unix()),
		}
		if len(set) == 0 {
			continue
		}
		if err := sig.Sign(h.pool.keys[s.signer.mat].priv, set); err != nil {
			h.bad = "sign: " + err.Error()
			continue
		}
		if s.bad {
			raw, _ := base64.StdEncoding.DecodeString(sig.Signature)
			raw[len(raw)/2] ^= 0x40
			sig.Signature = base64.StdEncoding.EncodeToString(raw)
		}
		out = append(out, sig)
		sg = append(sg, fmt.Sprintf("G %d %d %s", tag, s.signer.mat, vC09B(!s.bad)))
	}
	coq := fmt.Sprintf("(FR %s [%s])", vC09KeysCoq(fe.keys), strings.Join(sg, ";"))
	return out, coq
}

var vC09Counters = []struct {
	c    interface{ Value() int64 }
	code int
}{
	{taRefreshSuccess, 0}, {taRefreshQueryError, 1}, {taRefreshTimeout, 1},
	{taRefreshValidationError, 2}, {taRefreshPersistenceError, 3}, {taRefreshWorkBudget, 4},
}

// one complete AutoTA run with a scripted response and injected faults
func (h *vC09H) run(fe vC09Fetch, fl vC09Faults) {
	{
		var sg []any
		for _, g := range fe.sigs {
			e := map[string]any{"by": h.pool.role(g.signer), "bad": g.bad}
			if g.tagSet {
				e["tag_of"] = h.pool.role(g.tagKey)
			}
			sg = append(sg, e)
		}
		h.script = append(h.script, map[string]any{"op": "run", "drop": fe.drop, "keys": h.roles(fe.keys), "sigs": sg,
			"sread": fl.sread, "tread": fl.tread, "twrite": fl.twrite, "swrite": fl.swrite})
	}
	sp, tp := h.spath(), h.tpath()
	h.preS, h.preSok = vC09ReadOpt(sp)
	h.preDir = h.readDir()
	h.preT, h.preTok = vC09ReadOpt(tp)
	fetchCoq := "FErr"
	var ans []dns.RR
	if !fe.drop {
		ans, fetchCoq = h.buildAnswer(fe)
	}
	// phase 1: read faults
	if fl.sread {
		_ = os.RemoveAll(sp)
		switch h.rng.Intn(3) {
		case 0:
			_ = os.WriteFile(sp, []byte("not a gob stream"), 0o600)
		case 1:
			_ = os.Mkdir(sp, 0o700)
		default:
			_ = os.Symlink(stateFile, sp)
		}
	}
	switch fl.tread {
	case 1:
		_ = os.RemoveAll(tp)
		switch h.rng.Intn(3) {
		case 0:
			_ = os.WriteFile(tp, []byte{0x03, 0xff, 0x82, 0x00, 0x01}, 0o600)
		case 1:
			_ = os.WriteFile(tp, nil, 0o600)
		default:
			_ = os.Mkdir(tp, 0o700)
		}
	case 2:
		_ = os.RemoveAll(tp)
		_ = os.Symlink(tombstoneFile, tp) // ELOOP: open fails, not ENOENT
	}
	hookRan := false
	h.srv.mu.Lock()
	h.srv.answer = ans
	h.srv.mode = 0
	if fe.drop {
		h.srv.mode = 1
	}
	h.srv.asked = 0
	h.srv.hook = func() {
		// phase 2: the reads are over; lift read faults, put write faults in place
		hookRan = true
		if fl.sread {
			vC09Restore(sp, h.preS, h.preSok)
		}
		if fl.tread != 0 {
			vC09Restore(tp, h.preT, h.preTok)
		}
		if fl.swrite {
			_ = os.RemoveAll(sp)
			_ = os.Mkdir(sp, 0o700)
			_ = os.WriteFile(filepath.Join(sp, "x"), []byte("x"), 0o600)
		}
		if fl.twrite {
			_ = os.RemoveAll(tp)
			_ = os.Mkdir(tp, 0o700)
			_ = os.WriteFile(filepath.Join(tp, "x"), []byte("x"), 0o600)
		}
		if h.watch.fd < 0 {
			h.watch.snapshot()
		} else {
			h.watch.drain() // the driver's own fault set-up is not part of what the run did to the directory
		}
	}
	h.srv.mu.Unlock()
	before := make([]int64, len(vC09Counters))
	for i, c := range vC09Counters {
		before[i] = c.c.Value()
	}
	revBefore := taRevoked.Value()
	h.watch.drain()
	if h.watch.fd < 0 {
		h.watch.snapshot()
	}

	tA := time.Now()
	h.r.AutoTA()
	h.tRun += time.Since(tA)
	h.nRun++
	if fe.drop {
		h.nDrop++
	}

	names := h.watch.drain()
	fsEvents := append([]int(nil), h.watch.events...)
	h.srv.mu.Lock()
	h.srv.hook = nil
	asked := h.srv.asked
	h.srv.mu.Unlock()
	// phase 3: lift the remaining faults; a failed write left the old file as it was
	if fl.swrite && hookRan {
		vC09Restore(sp, h.preS, h.preSok)
	}
	if fl.twrite && hookRan {
		vC09Restore(tp, h.preT, h.preTok)
	}
	if !hookRan {
		if fl.sread {
			vC09Restore(sp, h.preS, h.preSok)
		}
		if fl.tread != 0 {
			vC09Restore(tp, h.preT, h.preTok)
		}
	}
	out := -1
	for i, c := range vC09Counters {
		if d := c.c.Value() - before[i]; d == 1 && out == -1 {
			out = c.code
		} else if d != 0 {
			h.bad = "refresh counters moved unexpectedly"
		}
	}
	if out == -1 {
		h.bad = "no refresh counter moved"
	}
	if out == 1 && !fe.drop {
		h.bad = "loopback query failed although the server was answering"
	}
	if out == 4 && h.budget == 0 {
		h.bad = "work-budget error without an enforced budget"
	}
	if fe.drop && asked == 0 && fl.tread == 0 && !fl.sread {
		h.bad = "no query reached the scripted root"
	}
	nrev := taRevoked.Value() - revBefore
	h.renames = nil
	for _, n := range names {
		switch n {
		case tombstoneFile:
			h.renames = append(h.renames, 0)
		case stateFile:
			h.renames = append(h.renames, 1)
		default:
			if h.watch.fd < 0 {
				h.bad = "unexpected file moved into the directory: " + n
			} // else: part of the event list of this run (code 9 / 99), judged there
		}
	}
	ents, _ := os.ReadDir(h.dir)
	for _, e := range ents {
		if e.Name() != stateFile && e.Name() != tombstoneFile && !h.junk[e.Name()] {
			if h.watch.fd >= 0 {
				// a file the run left behind (a temp file that was not deleted, a side file such as <file>.bak):
				// what the run did to the directory is an observation, not an infrastructure hiccup — it is in the
				// watcher's event list and judged there; the file stays where it is, as it would in production
				if h.junk == nil {
					h.junk = map[string]bool{}
				}
				h.junk[e.Name()] = true
				continue
			}
			h.bad = "left-over file in the state directory: " + e.Name()
		}
	}
	h.postS, h.postSok = vC09ReadOpt(sp)
	h.postT, h.postTok = vC09ReadOpt(tp)
	h.postDir = h.readDir()
	h.rawEv = append([]vC09RawEv(nil), h.watch.raw...)
	h.cur = h.observe()
	var rn []string
	for _, x := range h.renames {
		rn = append(rn, strconv.Itoa(x))
	}
	h.steps = append(h.steps, fmt.Sprintf("ORun %s %s (F %s %d %s %s) %s %d %d [%s]",
		vC09Z(h.V), fetchCoq, vC09B(fl.sread), fl.tread, vC09B(fl.twrite), vC09B(fl.swrite), h.cur.coq(), out, nrev, strings.Join(rn, ";")))
	h.desc = append(h.desc, fmt.Sprintf("run t=%d fetch=%s faults=%+v -> counter=%d revoked=%d renames=%v %s", h.V, fetchCoq, fl, out, nrev, h.renames, h.cur.short()))
	if h.watch.fd >= 0 {
		var ev []string
		for _, c := range fsEvents {
			ev = append(ev, strconv.Itoa(c))
		}
		h.steps = append(h.steps, fmt.Sprintf("OFs [%s]", strings.Join(ev, ";")))
		h.desc = append(h.desc, fmt.Sprintf("  directory events of that run (10c+k: c 0 tombstones 1 state; k 1 temp created 2 written 3 closed 4 moved away 5 named file replaced 6 temp deleted 7 named file touched in place): %v", fsEvents))
	}
	h.probes(&fe)
}

// probe: what the live trust set means to VALIDATION (the consumers of Resolver.rootKeys). A root DNSKEY response is
// (a) handed to Resolver.verifyRootKeys — the function that decides whether a root DNSKEY RRset is authentic, from
// rootKeys alone — and (b) asked for through Resolver.Resolve with CD=0 against the scripted root: the call AutoTA
// itself makes, minus the CD bit, i.e. what any client query for the root keys goes through (answer() gates on
// hasTrustAnchors, verifyDNSSEC hands the response to verifyRootKeys). Observed classes: 0 accepted, 1 refused with
// ErrTrustAnchorsUnavailable (fail closed), 2 refused otherwise, 3 not observed (loopback trouble). Nothing on disk is
// touched; the anchor state is what the last AutoTA run / NewResolver left.
func (h *vC09H) probe(fe vC09Fetch, why string) {
	if h.budget > 0 || h.bad != "" || fe.drop || len(fe.keys) == 0 {
		return // (an empty answer takes the NODATA route through authority(): not modelled)
	}
	ans, fcoq := h.buildAnswer(fe)
	if h.bad != "" {
		return
	}
	class := func(ok bool, err error) int {
		switch {
		case err == nil && ok:
			return 0
		case errors.Is(err, dnssec.ErrTrustAnchorsUnavailable):
			return 1
		default:
			return 2
		}
	}
	msg := new(dns.Msg)
	msg.SetQuestion(".", dns.TypeDNSKEY)
	msg.Response = true
	msg.Answer = append([]dns.RR(nil), ans...)
	ctx, cancel := context.WithTimeout(context.Background(), 5*time.Second)
	wctx, _ := middleware.EnsureRecursionWork(ctx, h.r.workPolicy)
	ok, err := h.r.verifyRootKeys(wctx, msg)
	middleware.FinishRecursionWork(wctx)
	cancel()
	direct := class(ok, err)
	derr := ""
	if err != nil {
		derr = err.Error()
	}

	h.srv.mu.Lock()
	h.srv.answer = ans
	h.srv.mode = 0
	h.srv.hook = nil
	h.srv.asked = 0
	h.srv.mu.Unlock()
	req := new(dns.Msg)
	req.SetQuestion(".", dns.TypeDNSKEY)
	req.SetEdns0(dnsutil.DefaultMsgSize, true)
	ctx2, cancel2 := context.WithDeadline(context.Background(), time.Now().Add(h.r.netTimeout))
	resp, rerr := h.r.Resolve(ctx2, req, h.r.rootServers, true, 5, 0, false, nil, true)
	cancel2()
	h.srv.mu.Lock()
	asked := h.srv.asked
	h.srv.mu.Unlock()
	via := class(resp != nil, rerr)
	verr := ""
	ad := false
	if rerr != nil {
		verr = rerr.Error()
		var ne net.Error
		if errors.Is(rerr, context.DeadlineExceeded) || errors.Is(rerr, context.Canceled) || errors.As(rerr, &ne) {
			via = 3
		}
	} else if resp != nil {
		ad = resp.AuthenticatedData
		if !ad {
			via = 4 // answered, but not as authenticated data
		}
	}
	if asked == 0 && via != 1 {
		via = 3
	}
	rec := map[string]any{
		"k":          "rootv-" + why,
		"coq":        fmt.Sprintf("CRootV %s %s %s %d %d", h.tbl(), vC09KeysCoq(h.cur.live), fcoq, direct, via),
		"nontrivial": true,
		"desc": map[string]any{"index": h.idx, "what": "root DNSKEY response judged by verifyRootKeys and by Resolve(CD=0) under the current trust set",
			"live": vC09KeysCoq(h.cur.live), "response": fcoq, "verifyRootKeys": direct, "verifyRootKeys_err": derr, "resolve": via, "resolve_err": verr, "ad": ad, "asked": asked},
	}
	b, _ := json.Marshal(rec)
	h.windows = append(h.windows, string(b))
}

// The other consumers of the trust set: every validating (CD=0) query goes through one of three gates on
// Resolver.hasTrustAnchors — answer() (positive answers: probe above), authority() (NXDOMAIN / NODATA) and
// validateDelegation() (referrals). Under an EMPTY trust set (the fail-closed state) each must refuse with
// ErrTrustAnchorsUnavailable instead of passing unauthenticated data on. kind: 1 NXDOMAIN + SOA, 2 NODATA + SOA
// (both authority()), 3 referral (validateDelegation(), and behind it dsRRFromRootKeys), 4 a bare NXDOMAIN and
// 5 a bare NOERROR — both sections empty: since 199ba21 resolve() hands these to authority() too. Asked through Resolver.Resolve against the scripted root,
// query-name minimisation off so the one exchange is the probe. Only the empty trust set is probed: what a
// non-empty one makes of an unsigned negative answer is C01/C03's subject, not this property's.
func (h *vC09H) probeGate(kind int) {
	if h.budget > 0 || h.bad != "" || len(h.cur.live) != 0 {
		return
	}
	h.srv.mu.Lock()
	h.srv.answer = nil
	h.srv.mode = 1 + kind
	h.srv.hook = nil
	h.srv.asked = 0
	h.srv.mu.Unlock()
	req := new(dns.Msg)
	switch kind {
	case 1, 4:
		req.SetQuestion("vc09-absent.", dns.TypeA)
	case 2, 5:
		req.SetQuestion(".", dns.TypeMX)
	default:
		req.SetQuestion("host.vc09-child.", dns.TypeA)
	}
	req.SetEdns0(dnsutil.DefaultMsgSize, true)
	ctx, cancel := context.WithDeadline(context.Background(), time.Now().Add(h.r.netTimeout))
	resp, rerr := h.r.Resolve(ctx, req, h.r.rootServers, true, 5, 0, true, nil, true)
	cancel()
	h.srv.mu.Lock()
	asked := h.srv.asked
	h.srv.mode = 0
	h.srv.mu.Unlock()
	via, verr := 2, ""
	switch {
	case rerr == nil && resp != nil:
		via = 4
		if resp.AuthenticatedData {
			via = 0
		}
	case errors.Is(rerr, dnssec.ErrTrustAnchorsUnavailable):
		via = 1
	}
	if rerr != nil {
		verr = rerr.Error()
		var ne net.Error
		if via != 1 && (errors.Is(rerr, context.DeadlineExceeded) || errors.Is(rerr, context.Canceled) || errors.As(rerr, &ne)) {
			via = 3
		}
	}
	if asked == 0 && via != 1 {
		via = 3
	}
	rec := map[string]any{
		"k":          fmt.Sprintf("gate-%d", kind),
		"coq":        fmt.Sprintf("CGate %s %d %d", vC09KeysCoq(h.cur.live), kind, via),
		"nontrivial": true,
		"desc": map[string]any{"index": h.idx, "what": "validating query (1 NXDOMAIN+SOA, 2 NODATA+SOA, 3 referral, 4 bare NXDOMAIN, 5 bare NOERROR) through Resolve under an empty trust set",
			"live": vC09KeysCoq(h.cur.live), "kind": kind, "resolve": via, "resolve_err": verr, "asked": asked},
	}
	b, _ := json.Marshal(rec)
	h.windows = append(h.windows, string(b))
}

// probes after a run / restart: the response just served, and the published set signed by one or two keys picked among
// everything this history knows (live, published, pending, withdrawn, tombstoned keys in plain and in revoked form)
func (h *vC09H) probes(served *vC09Fetch) {
	r := h.rng
	if len(h.cur.live) == 0 && r.Intn(3) == 0 {
		h.probeGate(1 + r.Intn(5))
	}
	p := 8
	if h.idx < len(vC09Kinds) || len(h.cur.live) == 0 {
		p = 3
	}
	// a live key filed under an unusual flags value (not 257): is it a validation key? let it sign alone
	var odd []vC09Sym
	for _, k := range h.cur.live {
		if k.flags != 257 {
			odd = append(odd, k)
		}
	}
	if len(odd) > 0 {
		p = 2
	}
	if r.Intn(p) != 0 {
		return
	}
	if len(odd) > 0 && r.Intn(2) == 0 {
		k := odd[r.Intn(len(odd))]
		fe := vC09Fetch{keys: append([]vC09Sym(nil), h.pub...), sigs: []vC09Sig{{signer: k}}}
		if h.pubIndex(k) < 0 {
			fe.keys = append(fe.keys, k)
		}
		h.probe(fe, "oddflags")
		return
	}
	if served != nil && !served.drop && r.Intn(3) == 0 {
		h.probe(*served, "served")
		return
	}
	var u []vC09Sym
	seen := map[vC09Sym]bool{}
	add := func(k vC09Sym) {
		if !seen[k] {
			seen[k] = true
			u = append(u, k)
		}
	}
	for _, k := range h.pub {
		add(k)
	}
	for _, k := range h.cur.live {
		add(k)
	}
	var tags []int
	for t := range h.cur.state {
		tags = append(tags, int(t))
	}
	sort.Ints(tags)
	for _, t := range tags {
		add(h.cur.state[uint16(t)].k)
	}
	var ms []int
	for m := range h.cur.tomb {
		ms = append(ms, m)
	}
	sort.Ints(ms)
	for _, m := range ms {
		add(vC09Sym{m, 257})
		add(vC09Sym{m, 385})
	}
	for _, k := range h.removed {
		add(k)
	}
	if len(u) == 0 {
		return
	}
	fe := vC09Fetch{keys: append([]vC09Sym(nil), h.pub...)}
	n := 1 + r.Intn(2)
	for i := 0; i < n; i++ {
		k := u[r.Intn(len(u))]
		if k.flags&256 == 0 && r.Intn(2) == 0 {
			k = u[r.Intn(len(u))]
		}
		in := false
		for _, x := range fe.keys {
			if x == k {
				in = true
			}
		}
		if !in && r.Intn(3) != 0 {
			fe.keys = append(fe.keys, k)
		}
		fe.sigs = append(fe.sigs, vC09Sig{signer: k, bad: r.Intn(8) == 0})
	}
	if r.Intn(12) == 0 {
		fe.sigs = nil
	}
	if len(fe.keys) == 0 {
		return
	}
	h.probe(fe, "picked")
}

// the process died after k of the last run's replacements; restart with cfg
// The process died between two file-system operations of atomicGobWrite: besides what the first k replacements
// leave under the two names, the temp file of a write in progress lies in the directory. junk: 0 none, else
// 1 + 3*target + fill (target 0 tombstones 1 state; fill 0 empty 1 half-written 2 complete); < 0: pick.
func (h *vC09H) rollback(k int, cfg []vC09Sym) {
	if h.watch.fd >= 0 && len(h.rawEv) > 0 && h.rng.Intn(2) == 0 {
		h.rollbackEv(h.rng.Intn(len(h.rawEv)+1), cfg)
		return
	}
	h.rollbackJunk(k, cfg, -1)
}

func (h *vC09H) readDir() map[string][]byte {
	out := map[string][]byte{}
	ents, _ := os.ReadDir(h.dir)
	for _, e := range ents {
		if b, ok := vC09ReadOpt(filepath.Join(h.dir, e.Name())); ok {
			out[e.Name()] = b
		}
	}
	return out
}

// The process died after the first j directory operations the watcher saw during the last run — ANY prefix of them,
// not only the replacements of the two named files. The directory is composed by replaying those operations on the
// files that were there before the run: a file created during the run holds nothing, half, or all of what it holds
// in the end, according to whether it had been written / closed by then; renames move whatever was under the old
// name; deletions delete. Whatever the code does to the directory (temp files, side files, moving a named file away)
// is thereby part of the crash states the history goes through. For the model the crash is ORollback k, k = the
// replacements of the two named files among the first j operations.
func (h *vC09H) rollbackEv(j int, cfg []vC09Sym) {
	if j > len(h.rawEv) {
		j = len(h.rawEv)
	}
	type ident struct {
		pre   bool
		bytes []byte // pre: content; else the content it has in the end (nil: did not survive the run)
		stage int    // 0 created, 1 written to, 2 closed after writing
		known bool
	}
	state := map[string]*ident{}
	for n, b := range h.preDir {
		state[n] = &ident{pre: true, bytes: b, stage: 2, known: true}
	}
	pending := map[uint32]*ident{}
	var snap map[string]*ident
	snapStage := map[*ident]int{}
	k := 0
	take := func() {
		snap = map[string]*ident{}
		for n, id := range state {
			snap[n] = id
			snapStage[id] = id.stage
		}
	}
	for i, ev := range h.rawEv {
		if i == j {
			take()
		}
		switch {
		case ev.mask&syscall.IN_CREATE != 0:
			state[ev.name] = &ident{}
		case ev.mask&syscall.IN_MODIFY != 0:
			if id := state[ev.name]; id != nil && !id.pre && id.stage < 1 {
				id.stage = 1
			} else if id != nil && id.pre {
				// a file that was there before the run is written in place: from here on it is neither old nor new
				nid := &ident{stage: 1}
				state[ev.name] = nid
			}
		case ev.mask&syscall.IN_CLOSE_WRITE != 0:
			if id := state[ev.name]; id != nil && !id.pre {
				id.stage = 2
			}
		case ev.mask&syscall.IN_MOVED_FROM != 0:
			if id := state[ev.name]; id != nil {
				pending[ev.cookie] = id
			}
			delete(state, ev.name)
		case ev.mask&syscall.IN_MOVED_TO != 0:
			if id := pending[ev.cookie]; id != nil {
				state[ev.name] = id
				delete(pending, ev.cookie)
			} else {
				state[ev.name] = &ident{stage: 2}
			}
			if i < j && (ev.name == stateFile || ev.name == tombstoneFile) {
				k++
			}
		case ev.mask&syscall.IN_DELETE != 0:
			delete(state, ev.name)
		}
	}
	if snap == nil {
		take()
	}
	// what the files created during the run hold in the end
	for n, id := range state {
		if !id.pre {
			if b, ok := h.postDir[n]; ok {
				id.bytes, id.known = b, true
			}
		}
	}
	h.script = append(h.script, map[string]any{"op": "rollback", "k": k, "ev": j, "cfg": h.roles(cfg)})
	ents, _ := os.ReadDir(h.dir)
	for _, e := range ents {
		_ = os.RemoveAll(filepath.Join(h.dir, e.Name()))
	}
	h.junk = map[string]bool{}
	var names []string
	for n := range snap {
		names = append(names, n)
	}
	sort.Strings(names)
	var lying []string
	for _, n := range names {
		id := snap[n]
		b := id.bytes
		if !id.pre {
			if !id.known || len(b) == 0 {
				b = []byte("\x0c\xff\x81\x04\x01\x02 not a complete gob stream")
			}
			switch snapStage[id] {
			case 0:
				b = nil
			case 1:
				b = b[:len(b)/2]
			}
		}
		_ = os.WriteFile(filepath.Join(h.dir, n), b, 0o600)
		if n != stateFile && n != tombstoneFile {
			h.junk[n] = true
			lying = append(lying, fmt.Sprintf("%s(%d octets)", n, len(b)))
		}
	}
	h.newResolver(cfg, 0, false)
	h.steps = append(h.steps, fmt.Sprintf("ORollback %d %s %s", k, vC09KeysCoq(cfg), h.cur.coq()))
	h.desc = append(h.desc, fmt.Sprintf("crash after %d of the %d directory operations of that run (%d of %v replacements), other files lying in the directory: %v, restart cfg=%s -> %s",
		j, len(h.rawEv), k, h.renames, lying, vC09KeysCoq(cfg), h.cur.short()))
}

func (h *vC09H) rollbackJunk(k int, cfg []vC09Sym, junk int) {
	if k > len(h.renames) {
		k = len(h.renames)
	}
	if junk < 0 {
		junk = 0
		if h.rng.Intn(2) == 0 {
			junk = 1 + h.rng.Intn(6)
		}
	}
	h.script = append(h.script, map[string]any{"op": "rollback", "k": k, "cfg": h.roles(cfg), "junk": junk})
	if junk > 0 {
		target, content, ok := tombstoneFile, h.postT, h.postTok
		if (junk-1)/3 == 1 {
			target, content, ok = stateFile, h.postS, h.postSok
		}
		if !ok || len(content) == 0 {
			content = []byte("\x0c\xff\x81\x04\x01\x02 not a complete gob stream")
		}
		var b []byte
		switch (junk - 1) % 3 {
		case 1:
			b = content[:len(content)/2]
		case 2:
			b = content
		}
		if h.junk == nil {
			h.junk = map[string]bool{}
		}
		name := fmt.Sprintf("%s.tmp.%d", target, 100000000+len(h.junk)*7919+junk)
		_ = os.WriteFile(filepath.Join(h.dir, name), b, 0o600)
		h.junk[name] = true
		defer func() {
			h.desc = append(h.desc, fmt.Sprintf("  (that crash left the temp file %s in the directory, %d octets)", name, len(b)))
		}()
	}
	s, sok, t, tok := h.preS, h.preSok, h.preT, h.preTok
	for _, f := range h.renames[:k] {
		if f == 0 {
			t, tok = h.postT, h.postTok
		} else {
			s, sok = h.postS, h.postSok
		}
	}
	vC09Restore(h.spath(), s, sok)
	vC09Restore(h.tpath(), t, tok)
	h.newResolver(cfg, 0, false)
	h.steps = append(h.steps, fmt.Sprintf("ORollback %d %s %s", k, vC09KeysCoq(cfg), h.cur.coq()))
	h.desc = append(h.desc, fmt.Sprintf("crash after %d of %v replacements, restart cfg=%s -> %s", k, h.renames, vC09KeysCoq(cfg), h.cur.short()))
}

func (h *vC09H) tbl() string {
	var ks []vC09Sym
	for k := range h.used {
		ks = append(ks, k)
	}
	sort.Slice(ks, func(i, j int) bool {
		if ks[i].mat != ks[j].mat {
			return ks[i].mat < ks[j].mat
		}
		return ks[i].flags < ks[j].flags
	})
	var s []string
	for _, k := range ks {
		s = append(s, fmt.Sprintf("(%d,%d,%d)", k.mat, k.flags, h.pool.tag(k)))
	}
	return "[" + strings.Join(s, ";") + "]"
}

// ------------------------------------------------------- response builders

func vC09Rev(k vC09Sym) vC09Sym   { return vC09Sym{k.mat, k.flags | DNSKEYFlagRevoke} }
func vC09Unrev(k vC09Sym) vC09Sym { return vC09Sym{k.mat, k.flags &^ DNSKEYFlagRevoke} }

// honest: the published set, signed by every published KSK (revoked ones self-sign)
func (h *vC09H) honest() vC09Fetch {
	fe := vC09Fetch{keys: append([]vC09Sym(nil), h.pub...)}
	for _, k := range h.pub {
		if k.flags&1 != 0 {
			fe.sigs = append(fe.sigs, vC09Sig{signer: k})
		}
	}
	return fe
}

func (h *vC09H) signedBy(signers ...vC09Sym) vC09Fetch {
	fe := vC09Fetch{keys: append([]vC09Sym(nil), h.pub...)}
	for _, k := range signers {
		fe.sigs = append(fe.sigs, vC09Sig{signer: k})
	}
	return fe
}

func (h *vC09H) pubIndex(k vC09Sym) int {
	for i, p := range h.pub {
		if p == k {
			return i
		}
	}
	return -1
}

func (h *vC09H) publish(k vC09Sym) {
	if h.pubIndex(k) < 0 {
		h.pub = append(h.pub, k)
	}
}

func (h *vC09H) unpublish(k vC09Sym) {
	if i := h.pubIndex(k); i >= 0 {
		h.pub = append(h.pub[:i:i], h.pub[i+1:]...)
		h.removed = append(h.removed, k)
	}
}

func (h *vC09H) revoke(k vC09Sym) {
	if i := h.pubIndex(k); i >= 0 {
		h.pub[i] = vC09Rev(k)
	} else {
		h.pub = append(h.pub, vC09Rev(k))
	}
}

var vC09Day = int64(24 * 60)

func (h *vC09H) pickAdvance() int64 {
	r := h.rng
	// aim at a hold-down boundary of some entry, +-1 min / +-1 h, most of the time
	var targets []int64
	for _, e := range h.cur.state {
		age := h.V - e.fs
		if e.st == int(StateAddPend) {
			targets = append(targets, 30*vC09Day-age)
		}
		if e.st == int(StateMissing) {
			targets = append(targets, 90*vC09Day-age)
		}
	}
	offs := []int64{-60, -1, 1, 60, -vC09Day, vC09Day, -3, 2}
	if len(targets) > 0 && r.Intn(10) < 6 {
		tg := targets[r.Intn(len(targets))] + offs[r.Intn(len(offs))]
		if tg > 0 {
			if r.Intn(3) == 0 && tg > 2*vC09Day {
				return tg / 2 // get there in two refreshes
			}
			return tg
		}
	}
	ch := []int64{12 * 60, vC09Day, 10 * vC09Day, 29 * vC09Day, 30*vC09Day + 1, 31 * vC09Day, 45 * vC09Day, 89 * vC09Day, 91 * vC09Day, 1, 60}
	return ch[r.Intn(len(ch))]
}

// fresh hands out unused keys. In "twin" histories some of them come in pairs with the SAME key tag
// (found by search), so that colliding tags can turn up in any role: anchor, pending key, revoked
// key, key published while a marker holds the tag, injected key.
func (h *vC09H) fresh(n *int) vC09Sym {
	if len(h.twinQ) > 0 && h.rng.Intn(2) == 0 {
		k := h.twinQ[0]
		h.twinQ = h.twinQ[1:]
		return k
	}
	if h.twins > 0 && h.rng.Intn(2) == 0 {
		h.twins--
		pr := h.pool.collide[h.rng.Intn(len(h.pool.collide))]
		if h.rng.Intn(2) == 0 {
			pr[0], pr[1] = pr[1], pr[0]
		}
		h.twinQ = append(h.twinQ, vC09Sym{pr[1], 257})
		return vC09Sym{pr[0], 257}
	}
	k := vC09Sym{h.pool.normal[*n%len(h.pool.normal)], 257}
	*n++
	return k
}

// random configuration for a restart: the keys of record, stale or updated
func (h *vC09H) pickConfig(next *int) []vC09Sym {
	r := h.rng
	switch r.Intn(6) {
	case 0, 1, 2:
		return append([]vC09Sym(nil), h.cfg...) // unchanged (possibly still listing revoked keys)
	case 3:
		// operator updates: every currently valid, non-revoked anchor
		var c []vC09Sym
		for _, e := range h.cur.state {
			if e.st == int(StateValid) && e.k.flags&DNSKEYFlagRevoke == 0 {
				c = append(c, e.k)
			}
		}
		sort.Slice(c, func(i, j int) bool { return c[i].mat < c[j].mat })
		if len(c) == 0 {
			return append([]vC09Sym(nil), h.cfg...)
		}
		return c
	case 4:
		// adds a published key by hand
		c := append([]vC09Sym(nil), h.cfg...)
		for _, k := range h.pub {
			if k.flags == 257 {
				dup := false
				for _, x := range c {
					if x == k {
						dup = true
					}
				}
				if !dup {
					c = append(c, k)
					break
				}
			}
		}
		return c
	default:
		// lists a ZSK next to the old ones
		c := append([]vC09Sym(nil), h.cfg...)
		c = append(c, vC09Sym{h.fresh(next).mat, 256})
		return c
	}
}

func (h *vC09H) pickFaults() vC09Faults {
	r := h.rng
	var fl vC09Faults
	// storage trouble tends to last: a write fault is sometimes kept for the following runs
	if h.stickyLeft > 0 {
		h.stickyLeft--
		return h.sticky
	}
	defer func() {
		if (fl.twrite || fl.swrite) && r.Intn(2) == 0 {
			h.sticky = vC09Faults{twrite: fl.twrite, swrite: fl.swrite}
			h.stickyLeft = 1 + r.Intn(2)
		}
	}()
	switch x := r.Intn(100); {
	case x < 70:
	case x < 76:
		fl.twrite = true
	case x < 82:
		fl.swrite = true
	case x < 89:
		fl.twrite, fl.swrite = true, true
	case x < 93:
		fl.tread = 1
	case x < 96:
		fl.tread = 2
	default:
		fl.sread = true
	}
	return fl
}

func (h *vC09H) pickFetch(next *int) vC09Fetch {
	r := h.rng
	fe := h.honest()
	switch x := r.Intn(100); {
	case x < 50:
	case x < 56: // each signature independently broken: partially signed sets
		for i := range fe.sigs {
			if r.Intn(2) == 0 {
				fe.sigs[i].bad = true
			}
		}
	case x < 60: // partially signed set that also carries a key nobody vouches for
		for i := range fe.sigs {
			if r.Intn(2) == 0 {
				fe.sigs[i].bad = true
			}
		}
		fe.keys = append(fe.keys, h.fresh(next))
		if r.Intn(2) == 0 && len(fe.keys) > 2 {
			fe.keys = append(fe.keys[:1], fe.keys[2:]...) // and lacks one that was there
		}
	case x < 62: // a signature made by one key, labelled with the key tag of another published key
		if len(fe.sigs) >= 2 {
			i, j := r.Intn(len(fe.sigs)), r.Intn(len(fe.sigs))
			if i != j {
				fe.sigs[i].tagSet = true
				fe.sigs[i].tagKey = fe.sigs[j].signer
			}
		}
	case x < 68: // only some of the keys sign
		var s []vC09Sig
		for _, g := range fe.sigs {
			if r.Intn(2) == 0 {
				s = append(s, g)
			}
		}
		fe.sigs = s
	case x < 72: // unsigned
		fe.sigs = nil
	case x < 77: // every signature corrupted
		for i := range fe.sigs {
			fe.sigs[i].bad = true
		}
	case x < 83: // an injected key that signs itself; trusted signatures missing or broken
		e := h.fresh(next)
		fe.keys = append(fe.keys, e)
		for i := range fe.sigs {
			if r.Intn(2) == 0 {
				fe.sigs[i].bad = true
			} else {
				fe.sigs[i].signer = e
			}
		}
		fe.sigs = append(fe.sigs, vC09Sig{signer: e})
	case x < 88: // only the revoked keys sign
		var s []vC09Sig
		for _, g := range fe.sigs {
			if g.signer.flags&DNSKEYFlagRevoke != 0 {
				s = append(s, g)
			}
		}
		fe.sigs = s
	case x < 91: // key tag field of the signatures belongs to the other form of the key
		for i := range fe.sigs {
			fe.sigs[i].tagSet = true
			fe.sigs[i].tagKey = vC09Sym{fe.sigs[i].signer.mat, fe.sigs[i].signer.flags ^ DNSKEYFlagRevoke}
		}
	case x < 94: // empty answer
		fe.keys, fe.sigs = nil, nil
	case x < 96:
		fe.drop = true
	default: // reordered
		r.Shuffle(len(fe.keys), func(i, j int) { fe.keys[i], fe.keys[j] = fe.keys[j], fe.keys[i] })
	}
	return fe
}

func (h *vC09H) mutateWorld(next *int) {
	r := h.rng
	var plain, revd []vC09Sym
	for _, k := range h.pub {
		if k.flags == 257 {
			plain = append(plain, k)
		} else if k.flags == 385 {
			revd = append(revd, k)
		}
	}
	switch x := r.Intn(100); {
	case x < 30 && len(h.pub) < 5:
		h.publish(h.fresh(next))
	case x < 45 && len(plain) > 1:
		h.unpublish(plain[r.Intn(len(plain))])
	case x < 65 && len(plain) > 1:
		h.revoke(plain[r.Intn(len(plain))])
	case x < 75 && len(revd) > 0:
		h.unpublish(revd[r.Intn(len(revd))])
	case x < 85 && len(h.removed) > 0:
		k := h.removed[r.Intn(len(h.removed))]
		if h.pubIndex(vC09Rev(k)) < 0 && h.pubIndex(vC09Unrev(k)) < 0 {
			h.publish(k)
		}
	case x < 90:
		h.publish(vC09Sym{h.fresh(next).mat, 256}) // a ZSK
	case x < 93 && len(h.pub) < 5:
		h.publish(vC09Sym{h.fresh(next).mat, 1}) // SEP without ZONE: cannot sign
	default:
		if len(h.pub) < 5 {
			h.publish(h.fresh(next))
		}
	}
}

func (h *vC09H) maybeCrash(next *int) {
	if len(h.renames) > 0 && h.rng.Intn(8) == 0 {
		h.rollback(h.rng.Intn(len(h.renames)+1), h.pickConfig(next))
	}
}

// ------------------------------------------------------------- scenarios

func (h *vC09H) scenario(kind string) {
	r := h.rng
	next := r.Intn(len(h.pool.normal))
	switch kind {
	case "random", "rollover", "revfault", "missing", "pendabort", "forged":
		if r.Intn(4) == 0 {
			h.twins = 1 + r.Intn(2)
		}
		if r.Intn(6) == 0 {
			h.budget = 1 + r.Intn(3) // the request-tree work budget is enforced and tiny
		}
	}
	switch kind {
	case "random":
		a := h.fresh(&next)
		cfg := []vC09Sym{a}
		h.pub = []vC09Sym{a}
		if r.Intn(3) == 0 {
			b := h.fresh(&next)
			cfg = append(cfg, b)
			h.pub = append(h.pub, b)
		}
		h.start(cfg)
		n := 6 + r.Intn(7)
		for i := 0; i < n; i++ {
			switch x := r.Intn(100); {
			case x < 22:
				h.advance(h.pickAdvance())
			case x < 40:
				h.mutateWorld(&next)
			case x < 47:
				h.restart(h.pickConfig(&next))
			default:
				h.run(h.pickFetch(&next), h.pickFaults())
				h.maybeCrash(&next)
			}
		}
		h.run(h.honest(), vC09Faults{})

	case "rollover":
		// classic RFC 5011 roll: add B, wait around 30 d, revoke A, remove it
		a, b := h.fresh(&next), h.fresh(&next)
		h.pub = []vC09Sym{a}
		h.start([]vC09Sym{a})
		h.run(h.honest(), vC09Faults{})
		h.publish(b)
		h.run(h.honest(), h.pickFaults())
		h.maybeCrash(&next)
		parts := 1 + r.Intn(3)
		for i := 0; i < parts; i++ {
			h.advance(h.pickAdvance())
			if r.Intn(4) == 0 {
				h.restart(h.pickConfig(&next))
			}
			h.run(h.pickFetch(&next), h.pickFaults())
			h.maybeCrash(&next)
		}
		h.run(h.honest(), vC09Faults{})
		h.revoke(a)
		h.run(h.honest(), h.pickFaults())
		if len(h.renames) > 0 && r.Intn(2) == 0 {
			h.rollback(r.Intn(len(h.renames)+1), h.pickConfig(&next))
		} else if r.Intn(2) == 0 {
			h.restart(h.pickConfig(&next))
		}
		h.run(h.pickFetch(&next), h.pickFaults())
		h.maybeCrash(&next)
		if r.Intn(2) == 0 {
			h.unpublish(vC09Rev(a))
		}
		if r.Intn(3) == 0 {
			h.publish(a) // the revoked key comes back without its REVOKE bit
		}
		h.advance(h.pickAdvance())
		h.run(h.honest(), vC09Faults{})
		h.restart(h.pickConfig(&next))
		h.run(h.honest(), h.pickFaults())
		h.advance(31 * vC09Day)
		h.run(h.honest(), vC09Faults{})

	case "missing":
		a, b := h.fresh(&next), h.fresh(&next)
		h.pub = []vC09Sym{a, b}
		h.start([]vC09Sym{a, b})
		h.run(h.honest(), vC09Faults{})
		h.unpublish(b)
		h.run(h.honest(), h.pickFaults())
		h.maybeCrash(&next)
		n := 2 + r.Intn(4)
		for i := 0; i < n; i++ {
			h.advance(h.pickAdvance())
			switch r.Intn(6) {
			case 0:
				h.publish(b)
			case 1:
				h.unpublish(b)
			case 2:
				h.restart(h.pickConfig(&next))
			}
			h.run(h.pickFetch(&next), h.pickFaults())
			h.maybeCrash(&next)
		}
		h.run(h.honest(), vC09Faults{})

	case "pendabort":
		// a pending key drops out of one accepted refresh and comes back: the add hold-down restarts
		a, b := h.fresh(&next), h.fresh(&next)
		h.pub = []vC09Sym{a}
		h.start([]vC09Sym{a})
		h.run(h.honest(), vC09Faults{})
		h.publish(b)
		h.run(h.honest(), vC09Faults{})
		if r.Intn(3) == 0 {
			// the key is withdrawn while its hold-down expires between two refreshes: the first
			// accepted refresh after expiry does not contain it
			h.advance(30*vC09Day + []int64{1, 60, vC09Day, 5 * vC09Day}[r.Intn(4)])
			if r.Intn(3) == 0 {
				h.restart(h.pickConfig(&next))
			}
			h.unpublish(b)
			h.run(h.honest(), vC09Faults{})
			h.run(h.honest(), vC09Faults{})
			if r.Intn(2) == 0 {
				h.publish(b)
				h.run(h.honest(), vC09Faults{})
			}
			return
		}
		h.advance(int64(1+r.Intn(20)) * vC09Day)
		h.unpublish(b)
		fl := vC09Faults{}
		if r.Intn(4) == 0 {
			fl.swrite = true // the refresh that saw the key missing could not be recorded
		}
		h.run(h.honest(), fl)
		if r.Intn(3) == 0 {
			h.restart(h.pickConfig(&next))
		}
		h.advance(int64(1+r.Intn(3)) * vC09Day)
		h.publish(b)
		h.run(h.honest(), vC09Faults{})
		h.advance(30*vC09Day - int64(r.Intn(3))*vC09Day - h.V + []int64{-60, 1, 60}[r.Intn(3)])
		h.run(h.honest(), vC09Faults{})
		h.advance(h.pickAdvance())
		h.run(h.honest(), vC09Faults{})
		h.advance(h.pickAdvance())
		h.run(h.honest(), vC09Faults{})

	case "forged":
		a := h.fresh(&next)
		h.pub = []vC09Sym{a}
		h.start([]vC09Sym{a})
		h.run(h.honest(), vC09Faults{})
		e := h.fresh(&next)
		n := 3 + r.Intn(4)
		for i := 0; i < n; i++ {
			fe := vC09Fetch{keys: []vC09Sym{a, e}}
			switch r.Intn(6) {
			case 0:
				fe.sigs = []vC09Sig{{signer: e}}
			case 1:
				fe.sigs = []vC09Sig{{signer: a, bad: true}, {signer: e}}
			case 2:
				fe.sigs = nil
			case 3:
				fe.sigs = []vC09Sig{{signer: h.fresh(&next)}}
			case 4: // revoked-only: A' self-signed next to the injected key
				fe.keys = []vC09Sym{vC09Rev(a), e}
				fe.sigs = []vC09Sig{{signer: vC09Rev(a)}, {signer: e}}
			default:
				fe.sigs = []vC09Sig{{signer: a, tagSet: true, tagKey: e}}
			}
			h.run(fe, h.pickFaults())
			h.maybeCrash(&next)
			h.advance(h.pickAdvance())
			if r.Intn(5) == 0 {
				h.restart(h.pickConfig(&next))
			}
		}
		h.pub = []vC09Sym{a, e}
		h.run(h.honest(), vC09Faults{})
		h.advance(31 * vC09Day)
		h.run(h.signedBy(e), vC09Faults{})
		h.run(h.honest(), vC09Faults{})

	case "revfault":
		// revocation under every combination of write faults and crash points, stale config afterwards
		a, b := h.fresh(&next), h.fresh(&next)
		h.pub = []vC09Sym{a, b}
		h.start([]vC09Sym{a, b})
		h.run(h.honest(), vC09Faults{})
		if r.Intn(2) == 0 {
			h.unpublish(a)
			h.run(h.honest(), vC09Faults{}) // A goes Missing first
			h.advance(h.pickAdvance())
		}
		h.revoke(a)
		fl := vC09Faults{twrite: r.Intn(2) == 0, swrite: r.Intn(2) == 0}
		fe := h.honest()
		switch r.Intn(5) {
		case 0:
			fe = h.signedBy(vC09Rev(a)) // authenticated only by the revoked key
		case 1:
			// valid only under the revoked form; the co-signatures are there but do not verify,
			// a new key rides along and an anchor is left out
			for i := range fe.sigs {
				if fe.sigs[i].signer != vC09Rev(a) {
					fe.sigs[i].bad = true
				}
			}
			fe.keys = append(fe.keys, h.fresh(&next))
			if r.Intn(2) == 0 {
				fe.keys = fe.keys[:0]
				for _, k := range h.pub {
					if k != b {
						fe.keys = append(fe.keys, k)
					}
				}
				fe.keys = append(fe.keys, h.fresh(&next))
			}
		}
		h.run(fe, fl)
		if (fl.twrite || fl.swrite) && r.Intn(2) == 0 {
			h.sticky, h.stickyLeft = fl, 1+r.Intn(2) // the storage fault outlasts the run
		}
		if len(h.renames) > 0 && r.Intn(2) == 0 {
			h.rollback(r.Intn(len(h.renames)+1), []vC09Sym{a, b})
		} else if r.Intn(2) == 0 {
			h.restart([]vC09Sym{a, b})
		}
		n := 2 + r.Intn(3)
		for i := 0; i < n; i++ {
			switch r.Intn(5) {
			case 0:
				h.unpublish(vC09Rev(a))
			case 1:
				h.publish(a)
			case 2:
				h.restart([]vC09Sym{a, b})
			case 3:
				h.advance(h.pickAdvance())
			case 4:
				h.publish(h.fresh(&next)) // a new KSK appears (in twin histories: possibly with a tag already in use)
			}
			h.run(h.pickFetch(&next), h.pickFaults())
			h.maybeCrash(&next)
		}
		h.restart([]vC09Sym{a, b})
		h.run(h.honest(), vC09Faults{})
		if r.Intn(2) == 0 {
			h.advance(h.pickAdvance())
			h.run(h.honest(), vC09Faults{})
		}

	case "cfgboth":
		// configuration lists a key and its revoked form (correspondence only)
		a, b := h.fresh(&next), h.fresh(&next)
		h.pub = []vC09Sym{a, b}
		cfg := []vC09Sym{a, b, vC09Rev(a)}
		r.Shuffle(len(cfg), func(i, j int) { cfg[i], cfg[j] = cfg[j], cfg[i] })
		h.start(cfg)
		for i := 0; i < 4; i++ {
			h.run(h.pickFetch(&next), h.pickFaults())
			if r.Intn(3) == 0 {
				h.restart(cfg)
			}
			h.advance(h.pickAdvance())
		}

	case "cfgrev":
		// the operator replaces a configured key by its revoked form while the state file still
		// holds the key as Valid: the configuration tombstone is added after the precedence pass
		a, b := h.fresh(&next), h.fresh(&next)
		h.pub = []vC09Sym{a, b}
		h.start([]vC09Sym{a, b})
		h.run(h.honest(), vC09Faults{})
		cfg := []vC09Sym{b, vC09Rev(a)}
		if r.Intn(2) == 0 {
			cfg = []vC09Sym{vC09Rev(a), b}
		}
		h.restart(cfg)
		if r.Intn(3) != 0 {
			h.revoke(a)
		}
		h.run(h.honest(), h.pickFaults())
		h.run(h.honest(), vC09Faults{})
		h.advance(h.pickAdvance())
		h.restart(cfg)
		h.run(h.honest(), vC09Faults{})

	case "collide":
		// F4: presence is tested by key tag. K is pending; a different key J with the same tag
		// is published instead of K; K keeps ageing and becomes valid without having been present.
		pr := h.pool.collide[r.Intn(len(h.pool.collide))]
		a := h.fresh(&next)
		kk, j := vC09Sym{pr[0], 257}, vC09Sym{pr[1], 257}
		h.pub = []vC09Sym{a}
		h.start([]vC09Sym{a})
		h.run(h.honest(), vC09Faults{})
		h.publish(kk)
		h.run(h.honest(), vC09Faults{})
		h.unpublish(kk)
		h.publish(j)
		h.advance(10 * vC09Day)
		h.run(h.honest(), vC09Faults{})
		h.advance(20*vC09Day + 60)
		h.run(h.honest(), vC09Faults{})
		h.run(h.honest(), vC09Faults{})

	case "collide-missing":
		// same mechanism for a valid key that disappears: never marked Missing (correspondence only)
		pr := h.pool.collide[r.Intn(len(h.pool.collide))]
		kk, j := vC09Sym{pr[0], 257}, vC09Sym{pr[1], 257}
		a := h.fresh(&next)
		h.pub = []vC09Sym{a, kk}
		h.start([]vC09Sym{a, kk})
		h.run(h.honest(), vC09Faults{})
		h.unpublish(kk)
		h.publish(j)
		h.run(h.honest(), vC09Faults{})
		h.advance(91 * vC09Day)
		h.run(h.honest(), vC09Faults{})
		h.unpublish(j)
		h.run(h.honest(), vC09Faults{})

	case "tagattack":
		// an unrelated self-signed key whose revoked form has the tag a real anchor's revoked
		// form would have: it must neither authenticate the response nor revoke the anchor
		pr := h.pool.collide[r.Intn(len(h.pool.collide))]
		kk, j := vC09Sym{pr[0], 257}, vC09Sym{pr[1], 257}
		if r.Intn(2) == 0 {
			kk, j = j, kk
		}
		b := h.fresh(&next)
		h.pub = []vC09Sym{kk, b}
		h.start([]vC09Sym{kk, b})
		h.run(h.honest(), vC09Faults{})
		for i := 0; i < 3; i++ {
			fe := vC09Fetch{keys: []vC09Sym{kk, b, vC09Rev(j)}}
			switch r.Intn(4) {
			case 0: // the attacker has no trusted key at all
				fe.sigs = []vC09Sig{{signer: vC09Rev(j)}}
			case 1: // published next to honestly signed data
				fe.sigs = []vC09Sig{{signer: kk}, {signer: b}, {signer: vC09Rev(j)}}
			case 2:
				fe.keys = []vC09Sym{b, vC09Rev(j)}
				fe.sigs = []vC09Sig{{signer: b}, {signer: vC09Rev(j)}}
			default:
				fe.keys = []vC09Sym{vC09Rev(j), kk, b}
				fe.sigs = []vC09Sig{{signer: vC09Rev(j)}, {signer: b}}
			}
			h.run(fe, h.pickFaults())
			h.advance(h.pickAdvance())
		}
		h.run(h.honest(), vC09Faults{})

	case "multirev":
		// several live anchors; a response in which a SUBSET of them carries the REVOKE bit and only a
		// sub-subset of those is self-signed (every combination is reachable), fully authenticated (a
		// non-revoked anchor co-signs) or accepted in revocation-only mode (no non-revoked anchor signs,
		// signatures of non-revoked anchors absent or present but broken).  A revocation takes effect only
		// on a valid self-signature made with THAT key: every other anchor stays, nothing else is recorded.
		na := 2 + r.Intn(3)
		anchors := make([]vC09Sym, na)
		for i := range anchors {
			anchors[i] = h.fresh(&next)
		}
		h.pub = append([]vC09Sym(nil), anchors...)
		h.start(anchors)
		h.run(h.honest(), vC09Faults{})
		if r.Intn(4) == 0 {
			h.unpublish(anchors[na-1]) // one anchor is Missing when the revocations arrive
			h.run(h.honest(), vC09Faults{})
		}
		rounds := 1 + r.Intn(2)
		for round := 0; round < rounds; round++ {
			mask := 1 + r.Intn(1<<na-1) // which anchors carry REVOKE (non-empty)
			signed := r.Intn(1 << na)   // which of them self-sign (any subset, possibly none)
			if h.idx < len(vC09Kinds) {
				mask, signed = 3, 1 // walk-through instance: {A+REVOKE self-signed, B+REVOKE unsigned}
			}
			mode := r.Intn(3) // 0 revocation-only, 1 revocation-only with broken co-signatures, 2 fully authenticated
			if h.idx < len(vC09Kinds) {
				mode = 0
			}
			var fe vC09Fetch
			for i, a := range anchors {
				if mask&(1<<i) != 0 {
					fe.keys = append(fe.keys, vC09Rev(a))
					if signed&(1<<i) != 0 {
						fe.sigs = append(fe.sigs, vC09Sig{signer: vC09Rev(a)})
					} else if r.Intn(3) == 0 {
						fe.sigs = append(fe.sigs, vC09Sig{signer: vC09Rev(a), bad: true})
					}
				} else if h.pubIndex(a) >= 0 || r.Intn(2) == 0 {
					fe.keys = append(fe.keys, a)
					switch mode {
					case 1:
						fe.sigs = append(fe.sigs, vC09Sig{signer: a, bad: true})
					case 2:
						fe.sigs = append(fe.sigs, vC09Sig{signer: a})
					}
				}
			}
			if r.Intn(4) == 0 {
				fe.keys = append(fe.keys, h.fresh(&next)) // a new key rides along
			}
			fl := vC09Faults{}
			if h.idx >= len(vC09Kinds) && r.Intn(3) == 0 {
				fl = h.pickFaults()
			}
			h.run(fe, fl)
			h.maybeCrash(&next)
			// the world moves on: what was validly revoked stays published in revoked form
			for i, a := range anchors {
				if mask&(1<<i) != 0 && signed&(1<<i) != 0 {
					h.revoke(a)
				}
			}
		}
		h.run(h.honest(), vC09Faults{})
		h.restart(anchors)
		h.run(h.honest(), vC09Faults{})

	case "dualfail":
		// a revocation is accepted while NEITHER file can be replaced: the trust set must be EMPTY afterwards
		// (fail closed — the disk still says Valid), and the same process stays that way through refreshes that
		// cannot re-establish it (failed fetch, unsigned / forged response, a refresh whose writes fail again),
		// whatever the stale disk would republish; it recovers only through a run that records something.
		na := 2 + r.Intn(2)
		anchors := make([]vC09Sym, na)
		for i := range anchors {
			anchors[i] = h.fresh(&next)
		}
		h.pub = append([]vC09Sym(nil), anchors...)
		h.start(anchors)
		h.run(h.honest(), vC09Faults{})
		victim := anchors[r.Intn(na)]
		if r.Intn(4) == 0 {
			gone := anchors[r.Intn(na)] // the victim or another anchor is Missing when the revocation arrives
			h.unpublish(gone)
			h.run(h.honest(), vC09Faults{})
			if r.Intn(2) == 0 {
				h.advance(h.pickAdvance())
			}
		}
		h.revoke(victim)
		fe := h.honest()
		switch r.Intn(4) {
		case 0:
			fe = h.signedBy(vC09Rev(victim)) // accepted in revocation-only mode
		case 1:
			for i := range fe.sigs {
				if fe.sigs[i].signer != vC09Rev(victim) {
					fe.sigs[i].bad = true
				}
			}
		}
		h.run(fe, vC09Faults{twrite: true, swrite: true})
		follow := 1 + r.Intn(3)
		for i := 0; i < follow; i++ {
			fl := vC09Faults{}
			switch r.Intn(5) {
			case 0:
				fl = vC09Faults{twrite: true, swrite: true}
			case 1:
				fl = h.pickFaults()
			}
			switch r.Intn(7) {
			case 0, 1: // the fetch fails
				fe := h.honest()
				fe.drop = true
				h.run(fe, fl)
			case 2: // unsigned
				fe := h.honest()
				fe.sigs = nil
				h.run(fe, fl)
			case 3: // every signature broken
				fe := h.honest()
				for j := range fe.sigs {
					fe.sigs[j].bad = true
				}
				h.run(fe, fl)
			case 4: // the zone has dropped the revoked key meanwhile (nothing on record can hold it back)
				h.unpublish(vC09Rev(victim))
				h.run(h.honest(), fl)
			case 5: // the generic response mix
				h.run(h.pickFetch(&next), fl)
			default: // the revocation is presented again
				h.run(h.honest(), fl)
			}
			if r.Intn(4) == 0 {
				h.advance(h.pickAdvance())
			}
		}
		if r.Intn(2) == 0 {
			h.restart(anchors)
		}
		h.run(h.honest(), vC09Faults{})
		h.run(h.honest(), vC09Faults{})

	case "dualflags":
		// one public key tracked under two flags values (two key tags, two anchor-table entries of one
		// key material): configured and published, configured only (goes Missing, still trusted) or
		// only published (completes the add hold-down first).  One of the two forms is then revoked
		// (self-signed, co-signed): the accepting run must withhold EVERY entry of that material
		// (repaired by 3c40407; before, the sibling stayed in rootKeys for that one run).
		a, b := h.fresh(&next), h.fresh(&next)
		a1 := vC09Sym{a.mat, []uint16{1, 259, 513}[r.Intn(3)]}
		if h.idx < len(vC09Kinds) {
			a1.flags = 1 // the walk-through instance is the recorded finding
		}
		cfg := []vC09Sym{a, a1, b}
		h.pub = []vC09Sym{a, a1, b}
		where := 0
		if h.idx >= len(vC09Kinds) {
			where = r.Intn(3)
		}
		switch where {
		case 1:
			h.pub = []vC09Sym{a, b}
		case 2:
			cfg = []vC09Sym{a, b}
		}
		h.start(cfg)
		h.run(h.honest(), vC09Faults{})
		if where == 2 {
			h.advance(30*vC09Day + []int64{1, 60, vC09Day}[r.Intn(3)])
			h.run(h.honest(), vC09Faults{})
		}
		victim := a
		if h.idx >= len(vC09Kinds) && r.Intn(3) == 0 {
			victim = a1 // revoking the sibling form must withhold the 257 entry just the same
		}
		h.revoke(victim)
		// the accepting run under every combination of the two writes (the sibling must be withheld
		// whether or not the tombstone landed), or under the generic fault mix
		fl := vC09Faults{}
		if h.idx >= len(vC09Kinds) {
			switch r.Intn(5) {
			case 1:
				fl.twrite = true
			case 2:
				fl.swrite = true
			case 3:
				fl.twrite, fl.swrite = true, true
			case 4:
				fl = h.pickFaults()
			}
		}
		h.run(h.honest(), fl)
		h.run(h.honest(), vC09Faults{})
		h.restart(cfg)
		h.run(h.honest(), vC09Faults{})

	case "twinrev":
		// a new KSK whose key tag is already in use (by the anchor being revoked, or by its revoked
		// form) is published before, during or after the revocation, under lasting storage faults
		var kk, n vC09Sym
		if r.Intn(3) == 0 {
			pr := h.pool.revcol[r.Intn(len(h.pool.revcol))] // tag(n) == tag(revoked form of kk)
			kk, n = vC09Sym{pr[0], 257}, vC09Sym{pr[1], 257}
		} else {
			pr := h.pool.collide[r.Intn(len(h.pool.collide))] // tag(n) == tag(kk)
			kk, n = vC09Sym{pr[0], 257}, vC09Sym{pr[1], 257}
			if r.Intn(2) == 0 {
				kk, n = n, kk
			}
		}
		b := h.fresh(&next)
		cfg := []vC09Sym{kk, b}
		h.pub = []vC09Sym{kk, b}
		h.start(cfg)
		h.run(h.honest(), vC09Faults{})
		when := r.Intn(3) // 0: n appears before the revocation, 1: together with it, 2: after it
		if when == 0 {
			h.publish(n)
			h.run(h.honest(), h.pickFaults())
		}
		h.revoke(kk)
		if when == 1 {
			h.publish(n)
		}
		fl := vC09Faults{twrite: r.Intn(3) != 0, swrite: r.Intn(3) == 0}
		h.run(h.honest(), fl)
		if r.Intn(2) == 0 {
			h.sticky, h.stickyLeft = fl, 1+r.Intn(2)
		}
		if when == 2 {
			h.publish(n)
		}
		if r.Intn(2) == 0 {
			h.unpublish(vC09Rev(kk))
		}
		for i := 0; i < 1+r.Intn(3); i++ {
			h.run(h.honest(), h.pickFaults())
			h.maybeCrash(&next)
			if r.Intn(3) == 0 {
				h.advance(h.pickAdvance())
			}
		}
		h.restart(cfg)
		h.run(h.honest(), vC09Faults{})
		if r.Intn(2) == 0 {
			h.unpublish(n)
			h.advance(h.pickAdvance())
			h.run(h.honest(), vC09Faults{})
			h.restart(cfg)
			h.run(h.honest(), vC09Faults{})
		}

	case "revcol":
		// a key whose tag equals the tag of another anchor's revoked form (correspondence only)
		pr := h.pool.revcol[r.Intn(len(h.pool.revcol))]
		a, b := vC09Sym{pr[0], 257}, vC09Sym{pr[1], 257}
		c := h.fresh(&next)
		h.pub = []vC09Sym{a, c}
		h.start([]vC09Sym{a, c})
		h.run(h.honest(), vC09Faults{})
		h.publish(b)
		h.run(h.honest(), vC09Faults{})
		h.revoke(a)
		if r.Intn(2) == 0 {
			h.pub[0], h.pub[len(h.pub)-1] = h.pub[len(h.pub)-1], h.pub[0]
		}
		h.run(h.honest(), h.pickFaults())
		h.unpublish(b)
		h.run(h.honest(), vC09Faults{})
		h.restart([]vC09Sym{a, c})
		h.run(h.honest(), vC09Faults{})

	case "carry":
		// the revoked form's tag is tag+129 for this key: the `tag - 0x80` lookups miss it
		a := vC09Sym{h.pool.carry[r.Intn(len(h.pool.carry))], 257}
		b := h.fresh(&next)
		h.pub = []vC09Sym{a, b}
		h.start([]vC09Sym{a, b})
		h.run(h.honest(), vC09Faults{})
		h.revoke(a)
		h.run(h.honest(), vC09Faults{})
		h.advance(vC09Day)
		h.run(h.honest(), vC09Faults{})

	case "unreadable":
		// the tombstone file cannot be opened (not ENOENT): the code goes on with no tombstones
		a, b := h.fresh(&next), h.fresh(&next)
		h.pub = []vC09Sym{a, b}
		h.start([]vC09Sym{a, b})
		h.run(h.honest(), vC09Faults{})
		h.revoke(a)
		h.run(h.honest(), vC09Faults{})
		h.unpublish(vC09Rev(a))
		h.run(h.honest(), vC09Faults{})
		fe := h.honest()
		if r.Intn(2) == 0 {
			fe.drop = true
		}
		h.run(fe, vC09Faults{tread: 2})
		h.run(h.honest(), vC09Faults{})

	case "sreadloss":
		// the revocation is recorded only as a StateRevoked marker (tombstone write failed);
		// the next run cannot read the state file and the record is lost
		a, b := h.fresh(&next), h.fresh(&next)
		h.pub = []vC09Sym{a, b}
		h.start([]vC09Sym{a, b})
		h.run(h.honest(), vC09Faults{})
		h.revoke(a)
		h.run(h.honest(), vC09Faults{twrite: true})
		h.unpublish(vC09Rev(a))
		h.run(h.honest(), vC09Faults{sread: true})
		h.run(h.honest(), vC09Faults{})
	}
}

// replay of a recorded history (corpus): the operations with keys named by role
func (h *vC09H) play(ops []map[string]any) bool {
	keys := func(v any) ([]vC09Sym, bool) {
		out := []vC09Sym{}
		l, _ := v.([]any)
		for _, x := range l {
			str, _ := x.(string)
			k, ok := h.pool.unrole(str)
			if !ok {
				return nil, false
			}
			out = append(out, k)
		}
		return out, true
	}
	num := func(v any) int {
		f, _ := v.(float64)
		return int(f)
	}
	bl := func(v any) bool {
		b, _ := v.(bool)
		return b
	}
	for _, op := range ops {
		switch op["op"] {
		case "start":
			cfg, ok := keys(op["cfg"])
			if !ok {
				return false
			}
			h.budget = num(op["budget"])
			h.start(cfg)
		case "restart":
			cfg, ok := keys(op["cfg"])
			if !ok {
				return false
			}
			h.restartWith(cfg, num(op["tr"]), bl(op["sr"]))
		case "advance":
			h.advance(int64(num(op["min"])))
		case "rollback":
			cfg, ok := keys(op["cfg"])
			if !ok {
				return false
			}
			if _, ok := op["ev"]; ok && h.watch.fd >= 0 {
				h.rollbackEv(num(op["ev"]), cfg)
			} else {
				h.rollbackJunk(num(op["k"]), cfg, num(op["junk"]))
			}
		case "run":
			ks, ok := keys(op["keys"])
			if !ok {
				return false
			}
			fe := vC09Fetch{drop: bl(op["drop"]), keys: ks}
			sl, _ := op["sigs"].([]any)
			for _, x := range sl {
				m, _ := x.(map[string]any)
				by, _ := m["by"].(string)
				k, ok := h.pool.unrole(by)
				if !ok {
					return false
				}
				g := vC09Sig{signer: k, bad: bl(m["bad"])}
				if to, ok := m["tag_of"].(string); ok {
					tk, ok2 := h.pool.unrole(to)
					if !ok2 {
						return false
					}
					g.tagSet, g.tagKey = true, tk
				}
				fe.sigs = append(fe.sigs, g)
			}
			h.run(fe, vC09Faults{sread: bl(op["sread"]), tread: num(op["tread"]), twrite: bl(op["twrite"]), swrite: bl(op["swrite"])})
		default:
			return false
		}
	}
	return true
}

var vC09Kinds = []struct {
	kind   string
	weight int
	fkey   string // listed finding this scenario demonstrates ("" = must pass)
	mode   string // "hist" (check+spec), "check" (correspondence only), "split" (CCheck untagged + CSpec tagged)
}{
	{"random", 30, "", "hist"},
	{"rollover", 22, "", "hist"},
	{"missing", 12, "", "hist"},
	{"forged", 10, "", "hist"},
	{"pendabort", 8, "", "hist"},
	{"tagattack", 5, "", "hist"},
	{"revfault", 14, "", "hist"},
	{"cfgboth", 2, "", "check"},
	{"revcol", 2, "", "check"},
	// scenarios of the defects repaired by 1f61a03: strict since the fix landed
	{"collide-missing", 2, "", "hist"},
	{"collide", 4, "", "hist"},
	{"carry", 4, "", "hist"},
	{"unreadable", 4, "", "hist"},
	{"sreadloss", 4, "", "hist"},
	{"cfgrev", 3, "", "hist"},
	{"twinrev", 8, "", "hist"},
	// the defect repaired by 3c40407: strict since the fix landed
	{"dualflags", 5, "", "hist"},
	// several REVOKE-flagged anchors in one response, only a subset self-signed (seeded change C09-10)
	{"multirev", 12, "", "hist"},
	// a revocation accepted while neither file can be replaced, and what the same process does afterwards (seeded change C09-11)
	{"dualfail", 8, "", "hist"},
}

func TestVerifC09AutoTA(t *testing.T) {
	outp := os.Getenv("VERIF_OUT")
	scratch := os.Getenv("VERIF_SCRATCH")
	if outp == "" || scratch == "" {
		t.Skip("VERIF_OUT / VERIF_SCRATCH not set")
	}
	f, err := os.Create(outp)
	if err != nil {
		t.Fatal(err)
	}
	defer f.Close()
	zlog.SetLevel(zlog.LevelFatal)
	seed := int64(vC09EnvInt("VERIF_SEED", 1))
	n := vC09EnvInt("VERIF_N", 100)
	pool := vC09NewPool(seed, 6000)
	if len(pool.normal) < 20 || len(pool.carry) == 0 || len(pool.collide) == 0 || len(pool.revcol) == 0 {
		t.Fatalf("key search too small: normal=%d carry=%d collide=%d revcol=%d", len(pool.normal), len(pool.carry), len(pool.collide), len(pool.revcol))
	}
	srv := vC09StartServer(t)
	total := 0
	for _, k := range vC09Kinds {
		total += k.weight
	}
	emitted := 0
	emit := func(rec map[string]any) {
		b, _ := json.Marshal(rec)
		_, _ = f.Write(append(b, '\n'))
		emitted++
	}
	defer func() {
		if emitted == 0 && !t.Skipped() {
			t.Errorf("the driver produced no case at all")
		}
	}()
	replayIdx := -1
	if rp := os.Getenv("VERIF_REPLAY"); rp != "" {
		if b, err := os.ReadFile(rp); err == nil {
			var rec struct {
				Case struct {
					Desc struct {
						Index int `json:"index"`
					} `json:"desc"`
				} `json:"case"`
			}
			if json.Unmarshal(b, &rec) == nil {
				replayIdx = rec.Case.Desc.Index
			}
		}
	}
	finish := func(h *vC09H, w *vC09Watch, dir, kind, mode, fkey string, idx int) {
		w.close()
		vC09Release(h.r)
		_ = os.RemoveAll(dir)
		vC09Stats.tRun += h.tRun
		vC09Stats.tNew += h.tNew
		vC09Stats.nRun += h.nRun
		vC09Stats.nNew += h.nNew
		vC09Stats.nDrop += h.nDrop
		if time.Since(h.t0) > 20*time.Second && h.bad == "" {
			h.bad = "history took too long in real time for minute-granular clocks"
		}
		body := fmt.Sprintf("%s %s %s [%s]", h.tbl(), vC09KeysCoq(vC09InitCfg(h)), h.init, strings.Join(h.steps, ";\n "))
		desc := map[string]any{"index": idx, "seed": seed, "kind": kind, "steps": h.desc, "script": h.script}
		nontrivial := len(h.steps) >= 3
		if h.bad != "" {
			emit(map[string]any{"k": kind, "inconclusive": true, "desc": map[string]any{"index": idx, "why": h.bad}})
			return
		}
		switch mode {
		case "hist":
			emit(map[string]any{"k": kind, "coq": "CHist " + body, "nontrivial": nontrivial, "desc": desc})
		case "check":
			emit(map[string]any{"k": kind, "coq": "CCheck " + body, "nontrivial": nontrivial, "desc": desc})
		case "split":
			emit(map[string]any{"k": kind + "-model", "coq": "CCheck " + body, "nontrivial": nontrivial, "desc": desc})
			emit(map[string]any{"k": kind + "-spec", "coq": "CSpec " + body, "nontrivial": nontrivial, "desc": desc, "fkey": fkey})
		}
		for _, wl := range h.windows {
			_, _ = f.WriteString(wl + "\n")
		}
	}
	// corpus first: recorded minimal histories of every finding, mutation and seeded change
	if cdir := os.Getenv("VERIF_CORPUS"); cdir != "" && replayIdx < 0 {
		files, _ := filepath.Glob(filepath.Join(cdir, "*.json"))
		sort.Strings(files)
		for ci, fn := range files {
			b, err := os.ReadFile(fn)
			if err != nil {
				continue
			}
			var ent struct {
				Name   string           `json:"name"`
				Mode   string           `json:"mode"`
				Fkey   string           `json:"fkey"`
				Script []map[string]any `json:"script"`
			}
			if json.Unmarshal(b, &ent) != nil || len(ent.Script) == 0 {
				t.Fatalf("corpus entry %s does not parse", fn)
			}
			if ent.Mode == "" {
				ent.Mode = "hist"
			}
			dir := filepath.Join(scratch, fmt.Sprintf("c%d", ci))
			if err := os.MkdirAll(dir, 0o700); err != nil {
				t.Fatal(err)
			}
			w, _ := vC09NewWatch(dir)
			hr := rand.New(rand.NewSource(seed*31 + int64(ci)))
			h := &vC09H{t: t, pool: pool, rng: hr, dir: dir, srv: srv, watch: w, used: map[vC09Sym]bool{}, windowSeen: map[string]bool{}, t0: time.Now(), idx: -1 - ci}
			if !h.play(ent.Script) {
				t.Fatalf("corpus entry %s names a key role this pool does not have", fn)
			}
			finish(h, w, dir, "corpus-"+ent.Name, ent.Mode, ent.Fkey, -1-ci)
		}
	}
	// dnssec.KeyTag on real keys in several flags forms (plain, revoked, SEP only; keys whose revoked
	// form carries; colliding pairs): the model's keytag_of (translated octet-sum loop) and the RFC 4034
	// reference in Run.v must both give the observed tag
	if replayIdx < 0 {
		var mats []int
		mats = append(mats, pool.carry...)
		for _, pr := range pool.collide {
			mats = append(mats, pr[0], pr[1])
		}
		for _, pr := range pool.revcol {
			mats = append(mats, pr[0], pr[1])
		}
		tr := rand.New(rand.NewSource(seed*977 + 5))
		for i := 0; i < 12 && i < len(pool.normal); i++ {
			mats = append(mats, pool.normal[tr.Intn(len(pool.normal))])
		}
		if len(mats) > 40 {
			mats = mats[:40]
		}
		for _, m := range mats {
			for _, fl := range []uint16{257, 385, 1, 256} {
				rr := pool.rr(vC09Sym{m, fl})
				raw, err := base64.StdEncoding.DecodeString(rr.PublicKey)
				if err != nil {
					t.Fatalf("pool key does not decode: %v", err)
				}
				octs := make([]string, len(raw))
				for i, b := range raw {
					octs[i] = strconv.Itoa(int(b))
				}
				tag := dnssec.KeyTag(rr)
				emit(map[string]any{"k": "keytag", "nontrivial": true,
					"coq":  fmt.Sprintf("CTag %d %d %d [%s] %d", rr.Flags, rr.Protocol, rr.Algorithm, strings.Join(octs, ";"), tag),
					"desc": map[string]any{"index": -1000 - m, "kind": "keytag", "flags": rr.Flags, "key": rr.PublicKey, "tag": tag}})
			}
		}
	}
	// ... and on keys longer than one 192-octet chunk (RSA-2048 = 260 octets of RDATA key material, RSA-4096 = 516),
	// at and around the chunk boundaries; KeyTag only sums octets, so random material under algorithm 8 will do
	if replayIdx < 0 {
		tr := rand.New(rand.NewSource(seed*983 + 11))
		for li, ln := range []int{1, 2, 191, 192, 193, 260, 383, 384, 385, 516, 1030} {
			raw := make([]byte, ln)
			for i := range raw {
				raw[i] = byte(tr.Intn(256))
			}
			if li%3 == 0 {
				for i := range raw {
					raw[i] = 0xff // the largest sums
				}
			}
			octs := make([]string, len(raw))
			for i, b := range raw {
				octs[i] = strconv.Itoa(int(b))
			}
			for _, fl := range []uint16{257, 385} {
				rr := &dns.DNSKEY{Hdr: dns.RR_Header{Name: ".", Rrtype: dns.TypeDNSKEY, Class: dns.ClassINET, Ttl: 3600},
					Flags: fl, Protocol: 3, Algorithm: dns.RSASHA256, PublicKey: base64.StdEncoding.EncodeToString(raw)}
				tag := dnssec.KeyTag(rr)
				go_fail := ""
				if lib := rr.KeyTag(); lib != tag {
					go_fail = fmt.Sprintf("dnssec.KeyTag=%d, miekg KeyTag=%d", tag, lib)
				}
				emit(map[string]any{"k": "keytag-long", "nontrivial": true, "go_fail": go_fail,
					"coq":  fmt.Sprintf("CTag %d %d %d [%s] %d", rr.Flags, rr.Protocol, rr.Algorithm, strings.Join(octs, ";"), tag),
					"desc": map[string]any{"index": -2000 - ln, "kind": "keytag-long", "flags": rr.Flags, "octets": ln, "tag": tag}})
			}
		}
	}
	for idx := 0; idx < n; idx++ {
		if replayIdx >= 0 && idx != replayIdx {
			continue
		}
		// the first histories walk through every kind once, the rest by weight
		hr := rand.New(rand.NewSource(seed*1000003 + int64(idx)*7919 + 13))
		ki := 0
		if idx < len(vC09Kinds) {
			ki = idx
		} else {
			x := hr.Intn(total)
			for i, k := range vC09Kinds {
				if x < k.weight {
					ki = i
					break
				}
				x -= k.weight
			}
		}
		kd := vC09Kinds[ki]
		dir := filepath.Join(scratch, fmt.Sprintf("h%d", idx))
		if err := os.MkdirAll(dir, 0o700); err != nil {
			t.Fatal(err)
		}
		w, _ := vC09NewWatch(dir)
		h := &vC09H{t: t, pool: pool, rng: hr, dir: dir, srv: srv, watch: w, used: map[vC09Sym]bool{}, windowSeen: map[string]bool{}, t0: time.Now(), idx: idx}
		h.scenario(kd.kind)
		finish(h, w, dir, kd.kind, kd.mode, kd.fkey, idx)
	}
	t.Logf("C09 driver: %d AutoTA runs in %v (%d dropped fetches), %d NewResolver in %v", vC09Stats.nRun, vC09Stats.tRun, vC09Stats.nDrop, vC09Stats.nNew, vC09Stats.tNew)
}

var vC09Stats struct {
	tRun, tNew        time.Duration
	nRun, nNew, nDrop int
}

func vC09InitCfg(h *vC09H) []vC09Sym { return h.initCfg }
