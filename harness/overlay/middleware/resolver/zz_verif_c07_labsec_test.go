//go:build verif

package resolver

// C07 driver, lab level with DNSSEC validation ON.  Uses the repository's own signed hermetic
// namespace (hermetic_test.go: newHermeticNet, Delegate, DelegateInsecure, hermeticServer.serve,
// Handler): a signed root, a signed victim zone and an INSECURE attacker zone whose server
// publishes hostile record sets - alias chains continued into the signed zone with a forged tail,
// forged records for the signed zone alone, and referrals naming hosts of the signed zone with
// rogue glue.  Observed through the real DNSHandler: the reply to the attack question and, after
// it, the victim name (which must still validate: AD set, genuine data) and the NS-address cache.

import (
	"context"
	"encoding/json"
	"fmt"
	"os"
	"strings"
	"testing"
	"time"

	"github.com/miekg/dns"
	"github.com/semihalev/zlog/v2"
)

func vC07ForceQuiet() {
	logger := zlog.NewStructured()
	logger.SetWriter(zlog.StdoutTerminal())
	logger.SetLevel(zlog.LevelFatal)
	zlog.SetDefault(logger)
}

func TestVerifC07LabSec(t *testing.T) {
	out := os.Getenv("VERIF_OUT")
	if out == "" {
		t.Skip("VERIF_OUT not set")
	}
	f, err := os.Create(out)
	if err != nil {
		t.Fatal(err)
	}
	defer f.Close()
	emit := func(m map[string]any) {
		b, _ := json.Marshal(m)
		f.Write(append(b, '\n'))
	}
	// the harness creates its working directories under os.TempDir(): keep them inside the scratch directory
	os.Setenv("TMPDIR", vC07Scratch())
	n := vC07EnvInt("VERIF_N", 6)

	type scen struct {
		tag    string
		qname  string
		answer []string // record set served for qname/A by the attacker
		refNS  []string // referral (zone sub.evil.test.) NS + glue, when set the question lies below it
		refEx  []string
	}
	scens := []scen{
		{tag: "sec-cname-out-tail", qname: "x.evil.test.", answer: []string{"x.evil.test. 300 IN CNAME www.victim.test.", "www.victim.test. 300 IN A 6.6.6.6"}},
		{tag: "sec-foreign-alone", qname: "y.evil.test.", answer: []string{"www.victim.test. 300 IN A 6.6.6.7"}},
		{tag: "sec-tail-before-cname", qname: "z.evil.test.", answer: []string{"www.victim.test. 300 IN A 6.6.6.8", "z.evil.test. 300 IN CNAME www.victim.test."}},
		{tag: "sec-own+foreign", qname: "w.evil.test.", answer: []string{"w.evil.test. 300 IN A 198.51.100.80", "www.victim.test. 300 IN A 6.6.6.9", "victim.test. 300 IN NS ns.evil.test."}},
		{tag: "sec-referral-rogue-glue", qname: "a.sub.evil.test.", refNS: []string{"sub.evil.test. 300 IN NS ns.victim.test.", "sub.evil.test. 300 IN NS ns.sub.evil.test."},
			refEx: []string{"ns.victim.test. 300 IN A 192.0.2.99", "ns.sub.evil.test. 300 IN A 127.0.0.1"}},
		{tag: "sec-referral-sideways", qname: "b.evil.test.", refNS: []string{"victim.test. 300 IN NS ns.evil.test."}, refEx: []string{"ns.evil.test. 300 IN A 192.0.2.99"}},
	}
	for c := 0; c < n; c++ {
		sc := scens[c%len(scens)]
		hn := newHermeticNet(t)
		victim := hn.Delegate("victim.test.")
		victim.Serve(vC07RR("www.victim.test. 300 IN A 198.51.100.22"))
		evil := hn.DelegateInsecure("evil.test.")
		var sent []string
		if len(sc.answer) > 0 {
			var rrs []dns.RR
			for _, s := range sc.answer {
				rrs = append(rrs, vC07RR(s))
			}
			evil.server.serve(sc.qname, dns.TypeA, rrs...)
			sent = sc.answer
		}
		if len(sc.refNS) > 0 {
			ref := &hermeticReferral{zone: vC07RR(sc.refNS[0]).Header().Name}
			for _, s := range sc.refNS {
				ref.ns = append(ref.ns, vC07RR(s))
			}
			for _, s := range sc.refEx {
				ref.extra = append(ref.extra, vC07RR(s))
			}
			evil.server.mu.Lock()
			evil.server.children[ref.zone] = ref
			if ref.zone == "victim.test." {
				// a sideways referral is sent for any name below the attacker's own zone as well
				evil.server.children["b.evil.test."] = ref
			}
			evil.server.mu.Unlock()
			sent = append(append([]string{}, sc.refNS...), sc.refEx...)
		}
		h := hn.Handler()
		vC07ForceQuiet()
		ask := func(name string, do bool) *dns.Msg {
			req := new(dns.Msg)
			req.SetQuestion(name, dns.TypeA)
			req.SetEdns0(1232, do)
			ctx, cancel := context.WithTimeout(context.Background(), 8*time.Second)
			defer cancel()
			return h.handle(ctx, req)
		}
		// sanity first: the signed victim validates in this namespace (otherwise nothing can be concluded)
		hv := hn.Handler()
		vC07ForceQuiet()
		{
			req := new(dns.Msg)
			req.SetQuestion("www.victim.test.", dns.TypeA)
			req.SetEdns0(1232, true)
			ctx, cancel := context.WithTimeout(context.Background(), 8*time.Second)
			sane := hv.handle(ctx, req)
			cancel()
			if sane == nil || sane.Rcode != dns.RcodeSuccess || !sane.AuthenticatedData || len(sane.Answer) == 0 {
				emit(map[string]any{"k": sc.tag, "inconclusive": true, "desc": "the signed victim zone does not validate on this machine's loopback"})
				continue
			}
		}
		rep := ask(sc.qname, true)
		goFail := ""
		var repAns []string
		crc, ad := -1, false
		if rep != nil {
			crc, ad = rep.Rcode, rep.AuthenticatedData
			repAns = vC07RRStrings(rep.Answer)
			for _, rr := range rep.Answer {
				owner := strings.ToLower(rr.Header().Name)
				if !dns.IsSubDomain("evil.test.", owner) {
					if a, ok := rr.(*dns.A); !ok || owner != "www.victim.test." || a.A.String() != "198.51.100.22" {
						if rr.Header().Rrtype != dns.TypeRRSIG {
							goFail = "reply to " + sc.qname + " relays " + vC07Ident(rr) + ", sent by the insecure evil.test. server for a name outside its zone"
						}
					}
				}
			}
			if ad && len(sc.answer) > 0 {
				for _, rr := range rep.Answer {
					if dns.IsSubDomain("evil.test.", strings.ToLower(rr.Header().Name)) {
						goFail = "AD set on a reply carrying data of the insecure zone evil.test."
					}
				}
			}
		}
		// afterwards: the victim still validates with genuine data, and no rogue address is on file for its host
		vrep := ask("www.victim.test.", true)
		vdesc := "no reply"
		if vrep != nil {
			vdesc = fmt.Sprintf("%s ad=%v %v", dns.RcodeToString[vrep.Rcode], vrep.AuthenticatedData, vC07RRStrings(vrep.Answer))
			okv := vrep.Rcode == dns.RcodeSuccess && vrep.AuthenticatedData
			genuine := false
			for _, rr := range vrep.Answer {
				if a, ok := rr.(*dns.A); ok {
					genuine = a.A.String() == "198.51.100.22"
					if !genuine {
						okv = false
					}
				}
			}
			if !okv || !genuine {
				goFail = "after the attack www.victim.test. is answered: " + vdesc
			}
		} else {
			goFail = "after the attack www.victim.test. gets no reply"
		}
		var glueDesc []string
		for _, host := range []string{"ns.victim.test.", "www.victim.test."} {
			if addrs, ok := h.resolver.getIPv4Cache(host); ok {
				for _, a := range addrs {
					glueDesc = append(glueDesc, host+"="+a.String())
					if a.String() != victim.glue.String() {
						goFail = "NS-address cache holds " + a.String() + " for " + host
					}
				}
			}
		}
		h.Stop()
		hv.Stop()
		emit(map[string]any{
			"k": sc.tag, "nontrivial": true, "go_fail": goFail,
			"desc": map[string]any{"dnssec": "on", "attacker_zone": "evil.test. (insecure delegation)", "victim_zone": "victim.test. (signed)", "question": sc.qname,
				"sent": sent, "client_rcode": crc, "client_ad": ad, "client_reply_answer": repAns, "victim_after": vdesc, "glue_cache": glueDesc},
		})
	}
}
