//go:build verif

package resolver

// C07 driver "unitpin": usableAddr and checkGlueRR with the package's local-interface list PINNED to a
// known set (so that the filter is exercised on every family whatever interfaces the machine has).
// This is the only C07 file that names the package variable; it does so through reflection, so that a
// change of the variable's representation turns this driver into a no-op instead of breaking the build
// of every resolver-package driver (the host-interface cases of TestVerifC07Unit do not depend on it).

import (
	"encoding/json"
	"math/rand"
	"net"
	"os"
	"reflect"
	"testing"
)

var vC07Pinned = []net.IP{net.IPv4(192, 0, 2, 77), net.ParseIP("2001:db8::77"), net.IPv4(10, 9, 8, 7).To4()}

func vC07PinLocal(list []net.IP) (restore func(), ok bool) {
	v := reflect.ValueOf(&localIPaddrs).Elem()
	if v.Type() != reflect.TypeOf([]net.IP(nil)) {
		return func() {}, false
	}
	saved := reflect.ValueOf(v.Interface())
	v.Set(reflect.ValueOf(list))
	return func() { v.Set(saved) }, true
}

func TestVerifC07UnitPin(t *testing.T) {
	p := os.Getenv("VERIF_OUT")
	if p == "" {
		t.Skip("VERIF_OUT not set")
	}
	f, err := os.Create(p)
	if err != nil {
		t.Fatal(err)
	}
	defer f.Close()
	vC07Quiet()
	emit := func(m map[string]any) {
		b, _ := json.Marshal(m)
		f.Write(append(b, '\n'))
	}
	r := rand.New(rand.NewSource(int64(vC07EnvInt("VERIF_SEED", 1))*15485863 + 29))
	n := vC07EnvInt("VERIF_N", 600)
	restore, ok := vC07PinLocal(vC07Pinned)
	defer restore()
	if !ok {
		emit(map[string]any{"k": "pin-unavailable", "nontrivial": false,
			"desc": "localIPaddrs is not a []net.IP any more: the pinned cases are skipped, the host-interface cases of the unit driver stand"})
		return
	}
	vC07UsableCases(r, n/2, vC07Pinned, "pin-", emit)
	vC07GlueCases(t, r, n/2, vC07Pinned, "pin-", emit)
}
