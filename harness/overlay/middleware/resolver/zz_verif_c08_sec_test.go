//go:build verif

package resolver

// C08 DNSSEC-on lab (overlay-injected, never committed to /repo): the full
// pipeline (cache middleware + validating resolver, store wired for the
// resolver's private DS/DNSKEY sub-queries) against the repository's own
// hermetic signed namespace (hermetic_test.go): a signed root that delegates
// signed children with a DS in the referral.
//
// Per case the root publishes the child's referral with chosen NS and DS TTLs
// (the DS RRset re-signed by the root), the child serves a signed answer with a
// chosen TTL; a client asks, the stored delegation and every entry the request
// tree admitted (the answer, the child's DNSKEY, a denial) are dumped; then the
// root withdraws the delegation (DS and referral gone: signed NXDOMAIN), the
// virtual clock moves to the end of the granted lease + 3 s and the client asks
// again: the reply must be the parent's NXDOMAIN and the old child must not be
// asked.  The lease is min(NS TTL, DS TTL, 12 h) from the observation.

import (
	"context"
	"fmt"
	"math/rand"
	"net"
	"sort"
	"strings"
	"testing"
	"time"

	"github.com/miekg/dns"
	"github.com/semihalev/sdns/internal/authority"
	"github.com/semihalev/sdns/internal/cache"
	"github.com/semihalev/sdns/internal/mock"
	"github.com/semihalev/sdns/middleware"
	cachemw "github.com/semihalev/sdns/middleware/cache"
)

type vC08SecPipe struct {
	h    *DNSHandler
	cm   *cachemw.Cache
	base time.Time
	adv  time.Duration
}

func (p *vC08SecPipe) now() int64             { return int64(time.Since(p.base) + p.adv) }
func (p *vC08SecPipe) virt(t time.Time) int64 { return int64(t.Sub(p.base) + p.adv) }
func (p *vC08SecPipe) advance(d time.Duration) {
	p.adv += d
	authority.VC08Shift(p.h.resolver.delegations, d)
	cachemw.VC08Shift(p.cm, d, p.adv)
}

func (p *vC08SecPipe) ask(name string, qtype uint16, wire bool) *dns.Msg {
	req := new(dns.Msg)
	req.SetQuestion(dns.Fqdn(name), qtype)
	req.SetEdns0(1232, true)
	mw := mock.NewWriter("udp", "127.0.0.1:0")
	ch := middleware.NewChain([]middleware.Handler{p.cm, p.h})
	if wire {
		raw, err := req.Pack()
		wreq := new(middleware.Request)
		if err != nil || !wreq.ParseWire(raw, time.Now(), nil) {
			return nil
		}
		ch.ResetWire(mw, wreq)
		ch.Next(context.Background())
		ch.Finish()
	} else {
		ch.Reset(mw, req)
		ch.Next(context.Background())
	}
	if !mw.Written() {
		return nil
	}
	return mw.Msg()
}

func vC08SecNewPipe(n *hermeticNet) *vC08SecPipe {
	cfg := vC08Config(0, 0, n.root.addr)
	cfg.DNSSEC = "on"
	cfg.RootKeys = []string{n.rootKey.key.String()}
	h := New(cfg)
	byGlue := map[string]string{}
	for _, z := range n.zones {
		byGlue[net.JoinHostPort(z.glue.String(), "53")] = z.server.addr
		byGlue[net.JoinHostPort(z.glue6.String(), "53")] = z.server.addr
	}
	mapper := func(addr string) string {
		if to, ok := byGlue[addr]; ok {
			return to
		}
		return addr
	}
	h.resolver.resolveTarget.Store(&mapper)
	cm := cachemw.New(cfg)
	var sub middleware.Queryer = &vC08Queryer{handlers: []middleware.Handler{cm, h}}
	cm.SetQueryer(sub)
	cm.SetPrefetchQueryer(&vC08Queryer{handlers: []middleware.Handler{h}})
	h.resolver.queryer.Store(&sub)
	st := cm.Store()
	h.resolver.store.Store(&st)
	return &vC08SecPipe{h: h, cm: cm, base: time.Now()}
}

func TestVerifC08Sec(t *testing.T) {
	o := vC08Open(t)
	defer o.f.Close()
	seed := int64(vC08EnvInt("VERIF_SEED", 1))
	cases := vC08EnvInt("VERIF_N", 24)
	r := rand.New(rand.NewSource(seed*15485863 + 3))

	n := newHermeticNet(t)
	const nz = 4
	var zones []*hermeticZone
	for i := 0; i < nz; i++ {
		zones = append(zones, n.Delegate(fmt.Sprintf("s%d.", i)))
	}
	ttlPool := []uint32{2, 5, 30, 300, 3600, 43200, 43201, 172800}
	for c := 0; c < cases; c++ {
		z := zones[c%nz]
		nsTTL, dsTTL := ttlPool[r.Intn(len(ttlPool))], ttlPool[r.Intn(len(ttlPool))]
		ansTTL := []uint32{1, 60, 3600, 86400}[r.Intn(4)]
		wname := "www." + z.name
		// the child's data
		z.Serve(&dns.A{Hdr: dns.RR_Header{Name: wname, Rrtype: dns.TypeA, Class: dns.ClassINET, Ttl: ansTTL}, A: net.IPv4(10, 9, 0, byte(c%250))})
		// the referral the root publishes: NS (unsigned, as in every referral), glue, DS + RRSIG by the root
		nsName := "ns." + z.name
		ns := &dns.NS{Hdr: dns.RR_Header{Name: z.name, Rrtype: dns.TypeNS, Class: dns.ClassINET, Ttl: nsTTL}, Ns: nsName}
		glue := &dns.A{Hdr: dns.RR_Header{Name: nsName, Rrtype: dns.TypeA, Class: dns.ClassINET, Ttl: nsTTL}, A: z.glue}
		ds := z.key.key.ToDS(dns.SHA256)
		ds.Hdr.Ttl = dsTTL
		dsSig := n.rootKey.sign(t, []dns.RR{ds})
		n.root.serve(z.name, dns.TypeDS, ds, dsSig)
		n.root.mu.Lock()
		n.root.children[z.name] = &hermeticReferral{zone: z.name, ns: []dns.RR{ns, ds, dsSig}, extra: []dns.RR{glue}}
		n.root.mu.Unlock()

		p := vC08SecNewPipe(n)
		inconcl := false
		goFail := ""
		t0 := p.now()
		rep := p.ask(wname, dns.TypeA, r.Intn(2) == 0)
		t1 := p.now()
		if rep == nil || t1-t0 > 1500*int64(time.Millisecond) {
			inconcl = true
		}
		okFirst := rep != nil && rep.Rcode == dns.RcodeSuccess && len(rep.Answer) > 0 && rep.AuthenticatedData
		// a second question through the now cached delegation: a signed denial
		nxname := "nx." + z.name
		t2 := p.now()
		rep2 := p.ask(nxname, dns.TypeA, r.Intn(2) == 0)
		t3 := p.now()
		okSecond := rep2 != nil && rep2.Rcode == dns.RcodeNameError

		dkey := cache.Key(dns.Question{Name: z.name, Qtype: dns.TypeNS, Qclass: dns.ClassINET}, false)
		delegTerm, delegDesc := "None", "none"
		var delegExp int64
		if d, ok := authority.VC08Raw(p.h.resolver.delegations, dkey); ok {
			delegExp = p.virt(d.ExpiresAt)
			delegTerm, delegDesc = fmt.Sprintf("(Some %s%%Z)", vC08Z(delegExp)), time.Duration(delegExp).String()
		}
		type ent struct {
			label string
			q     dns.Question
		}
		var es, edesc []string
		for _, e := range []ent{
			{"answer", dns.Question{Name: wname, Qtype: dns.TypeA, Qclass: dns.ClassINET}},
			{"denial", dns.Question{Name: nxname, Qtype: dns.TypeA, Qclass: dns.ClassINET}},
			{"dnskey", dns.Question{Name: z.name, Qtype: dns.TypeDNSKEY, Qclass: dns.ClassINET}},
			{"ds", dns.Question{Name: z.name, Qtype: dns.TypeDS, Qclass: dns.ClassINET}},
		} {
			v, ok := cachemw.VC08Peek(p.cm, e.q, false)
			if !ok {
				es = append(es, "None")
				edesc = append(edesc, e.label+"=absent")
				continue
			}
			es = append(es, fmt.Sprintf("(Some (%s%%Z, %s%%Z, %s))", vC08Z(p.virt(v.Stored)), vC08Z(int64(v.TTL)), vC08OZ2(!v.CutUntil.IsZero(), p.virt(v.CutUntil))))
			edesc = append(edesc, fmt.Sprintf("%s: stored=%v ttl=%v cut=%v/%v", e.label, time.Duration(p.virt(v.Stored)), v.TTL, !v.CutUntil.IsZero(), time.Duration(p.virt(v.CutUntil))))
		}

		// what the derived denial stores (RFC 8020 cut, RFC 8198 proof index) filed for the zone under the second tree,
		// and what the denial's own records allow them: the minimum over the SOA minimum and the original TTLs the
		// signatures cover (the records' TTLs as published)
		dttl := int64(-1)
		if rep2 != nil {
			for _, rr := range rep2.Ns {
				var v int64 = -1
				switch x := rr.(type) {
				case *dns.SOA:
					v = int64(x.Minttl)
				case *dns.RRSIG:
					v = int64(x.OrigTtl)
				}
				if v >= 0 && (dttl < 0 || v < dttl) {
					dttl = v
				}
			}
		}
		var derived, derivedDesc []string
		for _, d := range cachemw.VC08DerivedDenials(p.cm) {
			if dns.CanonicalName(d.Zone) != dns.CanonicalName(z.name) {
				continue
			}
			exp := int64(d.Expires.Sub(p.base))
			if d.Shifted {
				exp = p.virt(d.Expires)
			}
			derived = append(derived, vC08Z(exp)+"%Z")
			derivedDesc = append(derivedDesc, fmt.Sprintf("%s %s exp=%v", d.Kind, d.Name, time.Duration(exp)))
		}
		sort.Strings(derivedDesc)
		if okSecond && (dttl < 0 || len(derived) == 0) {
			// a validated denial of a signed zone always reaches the derived stores
			goFail = fmt.Sprintf("lab: the signed denial left nothing in the derived denial stores (proof ttl %d, records %d)", dttl, len(derived))
		}

		// the parent withdraws the delegation; the clock moves just past the granted lease
		n.root.mu.Lock()
		delete(n.root.children, z.name)
		delete(n.root.records, hermeticRRSetKey{z.name, dns.TypeDS})
		delete(n.root.names, z.name)
		n.root.mu.Unlock()
		lease := int64(nsTTL)
		if int64(dsTTL) < lease {
			lease = int64(dsTTL)
		}
		if lease > 43200 {
			lease = 43200
		}
		target := t1 + lease*int64(time.Second) + vC08Margin
		if d := target - p.now(); d > 0 {
			p.advance(time.Duration(d))
		}
		before := z.asked(wname, dns.TypeA) + z.asked(nxname, dns.TypeA) + z.asked(z.name, dns.TypeDNSKEY)
		t4 := p.now()
		// first a question below the denied name (the old cut covers it) and a fresh name of the zone (the old proof's
		// NSEC interval covers it): neither may be answered with the old child's proof - its SOA names the zone, the
		// parent's denial names the root
		oldDenial, oldDesc := false, ""
		for _, name := range []string{"a." + nxname, fmt.Sprintf("nz%d.%s", c, z.name)} {
			rd := p.ask(name, dns.TypeA, r.Intn(2) == 0)
			if rd == nil {
				inconcl = true
				continue
			}
			for _, rr := range rd.Ns {
				if soa, ok := rr.(*dns.SOA); ok && dns.CanonicalName(soa.Hdr.Name) == dns.CanonicalName(z.name) {
					oldDenial = true
					oldDesc += fmt.Sprintf(" %s: rcode=%d with the SOA of %s;", name, rd.Rcode, z.name)
				}
			}
		}
		rep3 := p.ask(wname, dns.TypeA, r.Intn(2) == 0)
		after := z.asked(wname, dns.TypeA) + z.asked(nxname, dns.TypeA) + z.asked(z.name, dns.TypeDNSKEY)
		rc3 := -1
		if rep3 != nil {
			rc3 = rep3.Rcode
		} else {
			inconcl = true
		}
		childAsked := after != before
		if !inconcl && okFirst && goFail == "" && oldDenial {
			goFail = fmt.Sprintf("ghost: %v after the delegation of %s was observed (lease min(NS %d, DS %d, 12h) s, withdrawn) the old child's denial proof still answers:%s",
				time.Duration(t4-t1), z.name, nsTTL, dsTTL, oldDesc)
		}
		if !inconcl && okFirst && goFail == "" && (rc3 == dns.RcodeSuccess || childAsked) {
			goFail = fmt.Sprintf("ghost: %s asked at t=%v, %v after the delegation was observed (lease min(NS %d, DS %d, 12h) s, withdrawn): rcode=%d, old child asked=%v",
				wname, time.Duration(t4), time.Duration(t4-t1), nsTTL, dsTTL, rc3, childAsked)
		}
		if !okFirst && !inconcl && goFail == "" {
			goFail = fmt.Sprintf("lab: the signed answer did not validate (rcode=%v)", rep)
		}
		m := map[string]any{
			"k": "sec-lease", "go_fail": goFail, "nontrivial": okFirst,
			"coq": fmt.Sprintf("CaseSec %d %d %s %s %s %s %s [%s] %s [%s] %s %s %s %s", nsTTL, dsTTL, vC08Z(t0), vC08Z(t1), vC08Z(t2), vC08Z(t3), delegTerm, strings.Join(es, "; "),
				vC08Z(dttl*int64(time.Second)), strings.Join(derived, "; "),
				vC08Z(t4), vC08B(rc3 == dns.RcodeNameError), vC08B(childAsked), vC08B(oldDenial)),
			"desc": fmt.Sprintf("zone %s NS TTL %d DS TTL %d answer TTL %d: first reply ok=%v (t %v..%v), denial ok=%v (t %v..%v); delegation exp=%s; entries %v; derived denial records (proof allows %ds) %v; withdrawn, asked again at t=%v: rcode=%d child asked=%v old denial served=%v%s",
				z.name, nsTTL, dsTTL, ansTTL, okFirst, time.Duration(t0), time.Duration(t1), okSecond, time.Duration(t2), time.Duration(t3), delegDesc, edesc, dttl, derivedDesc, time.Duration(t4), rc3, childAsked, oldDenial, oldDesc),
		}
		if inconcl {
			m["inconclusive"] = true
		}
		o.emit(m)
		p.cm.Stop()
	}
}
