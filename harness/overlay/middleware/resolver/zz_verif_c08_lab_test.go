//go:build verif

package resolver

// C08 lab driver (overlay-injected, never committed to /repo): the full
// pipeline (cache middleware + resolver handler) against a scripted hierarchy
// root -> tld. -> a.tld. -> s.a.tld. on loopback sockets.
//
// A scenario is a random schedule of client queries, clock advances, parent
// actions (withdraw, re-point to other servers, change the NS TTLs) and child
// behaviours (long-TTL answers, re-publishing its own NS set, self / upward /
// sideways referrals, staying alive after withdrawal), optionally with
// background prefetch.  The virtual clock is advanced by moving every stored
// instant into the past (delegation expiries, entry stored/cutUntil).
//
// Observed per request tree: virtual instants before/after, which servers
// were asked for the question and what they said, whether the client was
// served from the cache, the reply, and afterwards the stored delegation
// expiries and answer-cache entries.  The Coq side replays the tree on the
// model with every clock reading at the earliest / latest possible instant
// and requires the observed values to lie in between (Run.lab_check), and
// judges the observations against the lease specification (Run.lab_spec).
// A Go-side oracle flags ghosts directly: after a delegation is withdrawn or
// re-pointed and the last lease its parent granted (incl. the 12 h ceiling)
// has run out, nobody may ask the old servers or be served their data.

import (
	"context"
	"fmt"
	"math/rand"
	"sort"
	"strings"
	"sync/atomic"
	"testing"
	"time"

	"github.com/miekg/dns"
	"github.com/semihalev/sdns/middleware"
)

type vC08Counter struct{ n atomic.Int64 }

func (c *vC08Counter) Name() string { return "vc08counter" }
func (c *vC08Counter) ServeDNS(ctx context.Context, ch *middleware.Chain) {
	c.n.Add(1)
	ch.Next(ctx)
}

const vC08Margin = int64(3 * time.Second)

type vC08Lab struct {
	t     *testing.T
	r     *rand.Rand
	w     *vC08World
	p     *vC08Pipe
	labs  vC08Labels
	zones []string
	keys  map[string]int // question -> answer-cache key id
	names []string
	trees []string
	desc  []string
	// ghost oracle
	lastRef  map[string]int64 // zone -> upper bound of the end of the last lease its parent granted to the CURRENT target
	lastTo   map[string]int   // zone -> target the last observed referral pointed to
	retired  map[int]int64    // server id -> instant from which nobody may use it (lease end), once withdrawn / re-pointed away
	goFail   string
	over12h  bool
	inconcl  bool
	counter  *vC08Counter
	nontriv  bool
	ghostChk int
	// delegations removed from the cache since the last tree (eviction / ErrorCount / purge)
	minLevel       int // qname minimisation level of the resolver under test (0 = off)
	pendingRemoved []string
	evicted        map[string]bool
	grant          map[int]int64 // server id -> end of the longest lease ever granted towards it
}

func (l *vC08Lab) keyID(name string, qtype uint16) int {
	k := fmt.Sprintf("%s/%d", strings.ToLower(name), qtype)
	if id, ok := l.keys[k]; ok {
		return id
	}
	id := len(l.keys) + 1
	l.keys[k] = id
	l.names = append(l.names, name)
	return id
}

// critical instants of the real state (virtual ns): every stored expiry and entry end
func (l *vC08Lab) criticals() []int64 {
	var cs []int64
	for _, z := range l.zones {
		if e, ok := l.p.deleg(z); ok {
			cs = append(cs, e)
		}
	}
	for _, n := range l.names {
		if e, ok := l.p.entry(n, dns.TypeA); ok {
			cs = append(cs, l.p.virt(e.Stored)+int64(e.TTL))
			if !e.CutUntil.IsZero() {
				cs = append(cs, l.p.virt(e.CutUntil))
			}
		}
	}
	for _, v := range l.lastRef {
		cs = append(cs, v)
	}
	for _, v := range l.retired {
		cs = append(cs, v)
	}
	for _, v := range l.grant {
		cs = append(cs, v)
	}
	return cs
}

// advance the clock by about d, keeping the landing instant away from every critical instant
func (l *vC08Lab) advance(d int64) {
	target := l.p.now() + d
	for iter := 0; iter < 50; iter++ {
		moved := false
		for _, c := range l.criticals() {
			if target > c-vC08Margin && target < c+vC08Margin {
				target = c + vC08Margin + int64(l.r.Intn(1000))*int64(time.Millisecond)
				moved = true
			}
		}
		if !moved {
			break
		}
	}
	dd := target - l.p.now()
	if dd <= 0 {
		return
	}
	l.p.advance(time.Duration(dd))
	l.desc = append(l.desc, fmt.Sprintf("advance %v -> t=%v", time.Duration(dd), time.Duration(l.p.now())))
}

func (l *vC08Lab) dump() (string, string, string) {
	var ds, es, human []string
	for _, z := range l.zones {
		e, ok := l.p.deleg(z)
		ds = append(ds, fmt.Sprintf("(%s, %s)", l.labs.zone(z), vC08OZ2(ok, e)))
		if ok {
			human = append(human, fmt.Sprintf("deleg %s exp=%v", z, time.Duration(e)))
		}
	}
	for _, n := range l.names {
		id := l.keyID(n, dns.TypeA)
		e, ok := l.p.entry(n, dns.TypeA)
		if !ok {
			es = append(es, fmt.Sprintf("(%d%%N, None)", id))
			continue
		}
		cutOK := !e.CutUntil.IsZero()
		es = append(es, fmt.Sprintf("(%d%%N, Some (%s%%Z, %s%%Z, %s))", id, vC08Z(l.p.virt(e.Stored)), vC08Z(int64(e.TTL)), vC08OZ2(cutOK, l.p.virt(e.CutUntil))))
		human = append(human, fmt.Sprintf("entry %s stored=%v ttl=%v cut=%v/%v", n, time.Duration(l.p.virt(e.Stored)), e.TTL, cutOK, time.Duration(l.p.virt(e.CutUntil))))
	}
	return "[" + strings.Join(ds, "; ") + "]", "[" + strings.Join(es, "; ") + "]", strings.Join(human, "; ")
}

func vC08OZ2(ok bool, x int64) string {
	if !ok {
		return "None"
	}
	return "(Some " + vC08Z(x) + "%Z)"
}

func vC08MinTTL(ts []uint32) uint32 {
	m := ts[0]
	for _, t := range ts[1:] {
		if t < m {
			m = t
		}
	}
	return m
}

// tree renders one request tree from the servers' log
func (l *vC08Lab) tree(name string, t0, t1 int64, refresh, fromCache bool, log []vC08LogEnt, withDump bool) {
	key := l.keyID(name, dns.TypeA)
	var acts, asked []string
	if !fromCache {
		acts = append(acts, fmt.Sprintf("LSeed %s", l.labs.zone(name)))
	}
	const h12 = int64(12 * time.Hour)
	full := strings.ToLower(dns.Fqdn(name))
	lastAsked := -1
	for _, e := range log {
		minimised := e.name != full
		if e.qtype != dns.TypeA || (minimised && !(l.minLevel > 0 && dns.IsSubDomain(e.name, full))) {
			l.inconcl = true // a question the scenario did not expect (retry with another name)
			continue
		}
		// with qname minimisation a zone's servers are asked for a shortened name first and for
		// more labels afterwards: that is one hop of the descent
		if !(l.minLevel > 0 && e.srv == lastAsked) {
			asked = append(asked, fmt.Sprintf("%d", e.srv))
		}
		lastAsked = e.srv
		if minimised && e.kind != vC08RespReferral && e.kind != vC08RespJunk {
			continue // an answer about a shortened name is not the answer: nothing is stored for it
		}
		// ghost oracle: nobody may still be talking to a retired server
		if until, ok := l.retired[e.srv]; ok {
			l.ghostChk++
			if t0 >= until && l.goFail == "" {
				l.goFail = fmt.Sprintf("ghost: server %d (%s) asked for %s at t=%v although its delegation was withdrawn/re-pointed and the last parent-granted lease ended at %v",
					e.srv, l.w.srvs[e.srv].zone, name, time.Duration(t0), time.Duration(until))
			}
		}
		switch e.kind {
		case vC08RespReferral, vC08RespJunk:
			ttl := vC08MinTTL(e.refTTL)
			if int64(ttl)*int64(time.Second) > h12 && e.kind == vC08RespReferral {
				l.over12h = true
			}
			acts = append(acts, fmt.Sprintf("LRefer %s %d true %d None", l.labs.zone(e.refZ), e.refTo, ttl))
			if e.kind == vC08RespReferral {
				// the parent side granted (or confirmed) a lease for refZ pointing at refTo
				lease := int64(ttl) * int64(time.Second)
				if lease > h12 {
					lease = h12
				}
				end := t1 + lease
				// limited by every shallower delegation on the path
				for _, z := range l.zones {
					if z != e.refZ && dns.IsSubDomain(z, e.refZ) {
						if v, ok := l.lastRef[z]; ok && v < end {
							end = v
						}
					}
				}
				// a lease that is still running is neither extended nor re-pointed by a further
				// referral; once it has run out the next referral starts a new one
				if cur, have := l.lastRef[e.refZ]; !have || t0 >= cur || l.evicted[e.refZ] { // (what was learned under an evicted entry's lease stays covered by grant[])
					l.lastRef[e.refZ] = end
					l.lastTo[e.refZ] = e.refTo
					delete(l.evicted, e.refZ)
					if end > l.grant[e.refTo] {
						l.grant[e.refTo] = end
					}
				}
			}
		case vC08RespAnswer, vC08RespNeg:
			acts = append(acts, fmt.Sprintf("LStore %d %s", key, vC08Z(int64(e.ansTTL)*int64(time.Second))))
		}
	}
	ds, es, human := "[]", "[]", ""
	if withDump {
		ds, es, human = l.dump()
	}
	var removed []string
	for _, z := range l.pendingRemoved {
		removed = append(removed, l.labs.zone(z))
	}
	l.pendingRemoved = nil
	l.trees = append(l.trees, fmt.Sprintf("mk_ltree %s %s %d %s [%s] [%s] [%s]%%N %s %s %s",
		vC08Z(t0), vC08Z(t1), key, vC08B(refresh), strings.Join(removed, "; "), strings.Join(acts, "; "), strings.Join(asked, ";"), vC08B(fromCache), ds, es))
	l.desc = append(l.desc, fmt.Sprintf("  tree[%s..%s] refresh=%v fromCache=%v asked=%v acts=%v | %s", time.Duration(t0), time.Duration(t1), refresh, fromCache, asked, acts, human))
}

func (l *vC08Lab) query(name string) {
	l.keyID(name, dns.TypeA)
	l.w.takeLog()
	before := l.counter.n.Load()
	t0 := l.p.now()
	wire := l.r.Intn(2) == 0 // ingress shape: wire-born (raw UDP/TCP) or decoded message
	rep := l.p.ask(name, dns.TypeA, wire)
	t1 := l.p.now()
	if !rep.ok {
		l.inconcl = true
		return
	}
	if t1-t0 > int64(time.Second) {
		l.inconcl = true // loopback hiccup: the bracket is wider than the safety margin
	}
	miss := l.counter.n.Load() != before
	l.desc = append(l.desc, fmt.Sprintf("query %s (wire-born=%v) at t=%v -> rcode=%d src=%d ttl=%d miss=%v", name, wire, time.Duration(t0), rep.rcode, rep.src, rep.ttl, miss))
	// ghost oracle on the reply itself
	if rep.src >= 0 {
		if until, ok := l.retired[rep.src]; ok {
			l.ghostChk++
			if t0 >= until && l.goFail == "" {
				l.goFail = fmt.Sprintf("ghost: %s answered at t=%v with data of server %d (%s) whose delegation was withdrawn/re-pointed; last parent-granted lease ended at %v (served from cache=%v)",
					name, time.Duration(t0), rep.src, l.w.srvs[rep.src].zone, time.Duration(until), !miss)
			}
		}
	}
	if miss {
		log := l.w.takeLog()
		l.tree(name, t0, t1, false, false, log, true)
		return
	}
	// served from the cache; a background refresh may have been claimed
	if !l.p.waitPrefetch(l.names) {
		l.inconcl = true
	}
	time.Sleep(2 * time.Millisecond)
	log := l.w.takeLog()
	t2 := l.p.now()
	if len(log) == 0 {
		l.tree(name, t0, t1, false, true, nil, true)
		return
	}
	l.tree(name, t0, t1, false, true, nil, false)
	l.tree(name, t0, t2, true, false, log, true)
}

// retire records from which instant nobody may use a server any more, once its
// delegation was withdrawn or re-pointed away: the end of the longest lease any
// parent-side referral ever granted towards it (now, if there never was one).
// Whatever that server still delegates further down stays reachable through it
// for exactly as long: a fresh referral from a server whose own lease is running
// is legitimate, and is bounded by that lease.
func (l *vC08Lab) retire(zone string, target int) {
	until := l.p.now()
	if g, ok := l.grant[target]; ok && g > until {
		until = g
	}
	l.retired[target] = until
	for _, d := range l.w.srvs[target].deleg {
		if d.active {
			u := until
			if g, ok := l.grant[d.target]; ok && g > u {
				u = g
			}
			l.retired[d.target] = u
		}
	}
}

func vC08PickTTL(r *rand.Rand, theme int) uint32 {
	short := []uint32{4, 10, 30, 60}
	mid := []uint32{300, 3600, 21600}
	long := []uint32{43199, 43200, 43201, 86400, 172800}
	upTo12h := []uint32{43199, 43200}
	switch theme {
	case 0:
		return short[r.Intn(len(short))]
	case 1:
		return mid[r.Intn(len(mid))]
	case 2:
		return long[r.Intn(len(long))]
	}
	all := append(append(append(append([]uint32{}, short...), mid...), upTo12h...), 43201, 172800)
	return all[r.Intn(len(all))]
}

func (l *vC08Lab) scenario(idx int) {
	r := l.r
	w := l.w
	// reset the world: servers 0 root, 1 tld, 2 a (old), 3 a (new), 4 s (old), 5 s (new)
	w.mu.Lock()
	for _, s := range w.srvs {
		s.deleg = map[string]*vC08Deleg{}
		s.mode = 0
		s.ansTTL = []uint32{1, 60, 3600, 86400, 172800}[r.Intn(5)]
		s.negTTL = []uint32{1, 30, 600}[r.Intn(3)]
	}
	theme := r.Intn(4)
	ttls := func() []uint32 {
		n := 1 + r.Intn(2)
		out := make([]uint32, n)
		for i := range out {
			out[i] = vC08PickTTL(r, []int{theme, 3}[r.Intn(2)])
		}
		return out
	}
	w.srvs[0].deleg["tld."] = &vC08Deleg{nsTTL: ttls(), target: 1, active: true}
	w.srvs[1].deleg["a.tld."] = &vC08Deleg{nsTTL: ttls(), target: 2, active: true}
	deep := r.Intn(2) == 0
	if deep {
		w.srvs[2].deleg["s.a.tld."] = &vC08Deleg{nsTTL: ttls(), target: 4, active: true}
		w.srvs[3].deleg["s.a.tld."] = &vC08Deleg{nsTTL: ttls(), target: 5, active: true}
	}
	w.mu.Unlock()

	prefetch := 0
	if r.Intn(2) == 0 {
		prefetch = []int{50, 75, 90, 90}[r.Intn(4)]
	}
	l.minLevel = 0
	if r.Intn(3) == 0 {
		l.minLevel = []int{1, 2, 5}[r.Intn(3)]
	}
	l.p = vC08NewPipeWith(l.t, w, prefetch, l.minLevel, l.counter)
	defer l.p.close()
	l.zones = []string{"tld.", "a.tld.", "s.a.tld."}
	l.keys, l.names, l.trees, l.desc = map[string]int{}, nil, nil, nil
	l.lastRef, l.lastTo, l.retired = map[string]int64{}, map[string]int{}, map[int]int64{}
	l.goFail, l.over12h, l.inconcl, l.nontriv, l.ghostChk = "", false, false, false, 0
	l.pendingRemoved, l.evicted, l.grant = nil, map[string]bool{}, map[int]int64{}
	l.labs = vC08Labels{}
	l.desc = append(l.desc, fmt.Sprintf("scenario %d: theme=%d deep=%v prefetch=%d qmin=%d tld=%v a=%v", idx, theme, deep, prefetch, l.minLevel,
		w.srvs[0].deleg["tld."].nsTTL, w.srvs[1].deleg["a.tld."].nsTTL))

	qnames := []string{"w1.a.tld.", "w2.a.tld.", "nx.a.tld."}
	if deep {
		qnames = append(qnames, "w1.s.a.tld.", "w2.s.a.tld.", "nx.s.a.tld.", "W1.S.A.tld.")
	}
	changed := false
	steps := 6 + r.Intn(8)
	l.query(qnames[r.Intn(len(qnames))])
	for s := 0; s < steps && !l.inconcl; s++ {
		nops := 27
		if prefetch > 0 {
			nops = 30 // with background refresh on, probe the refreshed entry's lineage more often
		}
		switch op := r.Intn(nops); {
		case op >= 25:
			// lineage probe: a name is in the answer cache; the delegation it was learned through drops
			// out of the cache, the parent publishes other TTLs, another name re-learns the delegation
			// (a new lease), and the first name is asked again: whatever is then served or refreshed in
			// the background must carry the lineage it was (re-)learned through
			var live []string
			for _, n := range l.names {
				if e, ok := l.p.entry(n, dns.TypeA); ok && e.Rcode == dns.RcodeSuccess && e.Answers > 0 {
					end := l.p.virt(e.Stored) + int64(e.TTL)
					if !e.CutUntil.IsZero() && l.p.virt(e.CutUntil) < end {
						end = l.p.virt(e.CutUntil)
					}
					if end > l.p.now()+4*vC08Margin {
						live = append(live, n)
					}
				}
			}
			if len(live) == 0 {
				break
			}
			n := live[r.Intn(len(live))]
			z := "a.tld."
			if strings.HasSuffix(strings.ToLower(n), ".s.a.tld.") && r.Intn(2) == 0 {
				z = "s.a.tld."
			}
			if _, ok := l.p.deleg(z); !ok {
				break
			}
			l.p.h.resolver.delegations.Remove(l.p.delegKey(z))
			l.pendingRemoved = append(l.pendingRemoved, z)
			l.evicted[z] = true
			w.mu.Lock()
			for _, sv := range w.srvs {
				if d, ok := sv.deleg[z]; ok {
					d.nsTTL = ttls()
				}
			}
			w.mu.Unlock()
			l.desc = append(l.desc, fmt.Sprintf("lineage probe on %s: evict %s, new TTLs", n, z))
			other := "w3." + z
			l.query(other)
			l.advance(int64(time.Second) * int64(1+r.Intn(3)))
			l.query(n)
		case op >= 23:
			// a delegation drops out of the cache (eviction, ErrorCount removal, purge): nothing is
			// outstanding for it any more and the next referral from the parent starts a new lease
			z := l.zones[r.Intn(len(l.zones))]
			if _, ok := l.p.deleg(z); ok {
				l.p.h.resolver.delegations.Remove(l.p.delegKey(z))
				l.pendingRemoved = append(l.pendingRemoved, z)
				l.evicted[z] = true
				l.desc = append(l.desc, "evict delegation "+z)
			}
		case op >= 20:
			// ghost probe: the parent withdraws (or re-points) a.tld., the clock moves to just
			// after the end of the lease it last granted, and the names asked so far are asked again
			w.mu.Lock()
			d := w.srvs[1].deleg["a.tld."]
			old, was := d.target, d.active
			if r.Intn(2) == 0 {
				d.active = false
			} else {
				d.target, d.active, d.nsTTL = 5-old, true, ttls()
			}
			nowActive, nowTarget := d.active, d.target
			w.mu.Unlock()
			if was {
				l.retire("a.tld.", old)
			}
			if nowActive {
				delete(l.retired, nowTarget)
				for _, dd := range w.srvs[nowTarget].deleg {
					if dd.active {
						delete(l.retired, dd.target)
					}
				}
			}
			changed = true
			l.desc = append(l.desc, fmt.Sprintf("ghost probe: a.tld. %d -> active=%v target=%d", old, nowActive, nowTarget))
			if until, ok := l.retired[old]; ok && until > l.p.now() {
				l.advance(until - l.p.now() + vC08Margin)
			}
			asked := append([]string{}, l.names...)
			for _, n := range asked {
				l.query(n)
			}
		case op < 8:
			l.query(qnames[r.Intn(len(qnames))])
		case op < 13:
			// advance: small, to a lease boundary, or beyond the 12 h ceiling
			var d int64
			switch r.Intn(6) {
			case 0:
				d = int64(time.Second) * int64(1+r.Intn(10))
			case 1:
				d = int64(time.Minute) * int64(1+r.Intn(90))
			case 2:
				d = int64(time.Hour) * int64(1+r.Intn(11))
			case 3:
				d = int64(12*time.Hour) + int64(time.Second)*int64(r.Intn(120))
			case 4:
				d = int64(time.Hour) * int64(13+r.Intn(40))
			default:
				cs := l.criticals()
				if len(cs) > 0 {
					d = cs[r.Intn(len(cs))] - l.p.now() + vC08Margin
				}
				if d <= 0 {
					d = int64(time.Minute)
				}
			}
			l.advance(d)
		case op < 15:
			// the parent withdraws a delegation
			z, parent := "a.tld.", 1
			if deep && r.Intn(2) == 0 {
				z, parent = "s.a.tld.", 2
				if w.srvs[1].deleg["a.tld."].target == 3 {
					parent = 3
				}
			}
			w.mu.Lock()
			d := w.srvs[parent].deleg[z]
			was := d.active
			d.active = false
			tgt := d.target
			w.mu.Unlock()
			if was {
				l.retire(z, tgt)
				changed = true
				l.desc = append(l.desc, fmt.Sprintf("withdraw %s (server %d retired from t=%v)", z, tgt, time.Duration(l.retired[tgt])))
			}
		case op < 17:
			// the parent re-points a.tld. to other servers (and possibly other TTLs)
			w.mu.Lock()
			d := w.srvs[1].deleg["a.tld."]
			old := d.target
			was := d.active
			d.target = 5 - old // 2 <-> 3
			d.active = true
			d.nsTTL = ttls()
			w.mu.Unlock()
			if was {
				l.retire("a.tld.", old)
			}
			delete(l.retired, 5-old)
			if deep {
				for _, dd := range w.srvs[5-old].deleg {
					delete(l.retired, dd.target)
				}
			}
			changed = true
			l.desc = append(l.desc, fmt.Sprintf("re-point a.tld. %d -> %d ttl %v", old, 5-old, d.nsTTL))
		case op < 18:
			// the parent changes the TTLs it publishes
			w.mu.Lock()
			w.srvs[0].deleg["tld."].nsTTL = ttls()
			w.srvs[1].deleg["a.tld."].nsTTL = ttls()
			w.mu.Unlock()
			l.desc = append(l.desc, "parents change NS TTLs")
		default:
			// a child changes what it says about itself
			id := []int{2, 3, 4, 5}[r.Intn(4)]
			w.mu.Lock()
			w.srvs[id].mode = r.Intn(5)
			w.srvs[id].ansTTL = []uint32{1, 3600, 86400, 172800}[r.Intn(4)]
			m := w.srvs[id].mode
			w.mu.Unlock()
			l.desc = append(l.desc, fmt.Sprintf("server %d mode=%d", id, m))
		}
	}
	// closing probes: walk past every outstanding lease and ask again
	if changed && !l.inconcl {
		for k := 0; k < 2; k++ {
			var far int64
			for _, v := range l.retired {
				if v > far {
					far = v
				}
			}
			if far > l.p.now() || k == 0 {
				d := far - l.p.now() + vC08Margin
				if d < int64(time.Second) {
					d = int64(time.Second)
				}
				l.advance(d)
			}
			for _, n := range qnames[:len(qnames)-1] {
				if strings.HasPrefix(n, "w1") {
					l.query(n)
				}
			}
		}
	}
	fkey := "" // no known finding is tolerated
	kind := "lab"
	if deep {
		kind += "-deep"
	}
	if prefetch > 0 {
		kind += "-prefetch"
	}
	if changed {
		kind += "-withdrawn"
	}
	if l.minLevel > 0 {
		kind += "-qmin"
	}
	if l.over12h {
		kind += "-over12h"
	}
	var zs []string
	for id, s := range w.srvs {
		zs = append(zs, fmt.Sprintf("(%s, %d%%N)", l.labs.zone(s.zone), id))
	}
	sort.Strings(zs)
	m := map[string]any{
		"k":          kind,
		"coq":        fmt.Sprintf("CaseLab [%s] [%s]", strings.Join(zs, "; "), strings.Join(l.trees, ";\n   ")),
		"go_fail":    l.goFail,
		"fkey":       fkey,
		"nontrivial": changed && l.ghostChk > 0,
		"desc":       l.desc,
	}
	if l.inconcl {
		m["inconclusive"] = true
	}
	l.o().emit(m)
}

var vC08LabOut *vC08Out

func (l *vC08Lab) o() *vC08Out { return vC08LabOut }

func TestVerifC08Lab(t *testing.T) {
	o := vC08Open(t)
	defer o.f.Close()
	vC08LabOut = o
	seed := int64(vC08EnvInt("VERIF_SEED", 1))
	n := vC08EnvInt("VERIF_N", 60)
	w := &vC08World{}
	for _, z := range []string{".", "tld.", "a.tld.", "a.tld.", "s.a.tld.", "s.a.tld."} {
		w.start(t, z)
	}
	defer w.stopAll()
	l := &vC08Lab{t: t, r: rand.New(rand.NewSource(seed*7919 + 13)), w: w, counter: &vC08Counter{}}
	for i := 0; i < n; i++ {
		l.scenario(i)
	}
}
