//go:build verif

package resolver

// C07: shared helpers of the resolver-package drivers (names as label lists,
// records and addresses as Coq terms).

import (
	"fmt"
	"math/rand"
	"net"
	"net/netip"
	"os"
	"strconv"
	"strings"

	"github.com/miekg/dns"
)

func vC07EnvInt(name string, def int) int {
	if s := os.Getenv(name); s != "" {
		if n, err := strconv.Atoi(s); err == nil {
			return n
		}
	}
	return def
}

// labels as raw octets, leaf first
type vC07Name []string

var vC07Labels = []string{"com", "example", "notexample", "Example", "EXAMPLE", "www", "ns", "ns1", "ns2", "a", "b", "evil", "co", "uk", "exam", "ple", "x.y", "net", "COM", "sub"}

func (n vC07Name) String() string {
	if len(n) == 0 {
		return "."
	}
	var sb strings.Builder
	for _, l := range n {
		for i := 0; i < len(l); i++ {
			c := l[i]
			if c == '.' || c == '\\' {
				sb.WriteByte('\\')
			}
			sb.WriteByte(c)
		}
		sb.WriteByte('.')
	}
	return sb.String()
}

func (n vC07Name) coq() string {
	var parts []string
	for i := len(n) - 1; i >= 0; i-- {
		var bs []string
		for j := 0; j < len(n[i]); j++ {
			bs = append(bs, strconv.Itoa(int(n[i][j])))
		}
		parts = append(parts, "["+strings.Join(bs, ";")+"]")
	}
	return "[" + strings.Join(parts, ";") + "]"
}

func vC07CoqNames(l []vC07Name) string {
	var parts []string
	for _, n := range l {
		parts = append(parts, n.coq())
	}
	return "[" + strings.Join(parts, ";") + "]"
}

// vC07Parse turns a presentation name (as the code under test hands it back) into labels.
func vC07Parse(s string) vC07Name {
	if s == "." || s == "" {
		return vC07Name{}
	}
	var out vC07Name
	var cur []byte
	for i := 0; i < len(s); i++ {
		c := s[i]
		switch {
		case c == '\\' && i+1 < len(s):
			if i+3 < len(s) && s[i+1] >= '0' && s[i+1] <= '9' && s[i+2] >= '0' && s[i+2] <= '9' && s[i+3] >= '0' && s[i+3] <= '9' {
				cur = append(cur, (s[i+1]-'0')*100+(s[i+2]-'0')*10+(s[i+3]-'0'))
				i += 3
			} else {
				cur = append(cur, s[i+1])
				i++
			}
		case c == '.':
			out = append(out, string(cur))
			cur = nil
		default:
			cur = append(cur, c)
		}
	}
	if len(cur) > 0 {
		out = append(out, string(cur))
	}
	return out
}

func vC07FlipCase(r *rand.Rand, s string) string {
	b := []byte(s)
	for i := range b {
		if r.Intn(2) == 0 {
			switch {
			case b[i] >= 'a' && b[i] <= 'z':
				b[i] -= 32
			case b[i] >= 'A' && b[i] <= 'Z':
				b[i] += 32
			}
		}
	}
	return string(b)
}

func vC07CaseMix(r *rand.Rand, n vC07Name) vC07Name {
	out := append(vC07Name{}, n...)
	for i := range out {
		out[i] = vC07FlipCase(r, out[i])
	}
	return out
}

func vC07RandQName(r *rand.Rand) vC07Name {
	bases := []vC07Name{
		{"www", "sub", "example", "com"}, {"a", "ns", "example", "co", "uk"}, {"www", "example", "com"},
		{"a", "b", "evil", "com"}, {"example", "com"}, {"com"}, {}, {"www", "x.y", "example", "net"},
	}
	if r.Intn(5) != 0 {
		return append(vC07Name{}, bases[r.Intn(len(bases))]...)
	}
	n := r.Intn(5)
	out := vC07Name{}
	for i := 0; i < n; i++ {
		out = append(out, vC07Labels[r.Intn(len(vC07Labels))])
	}
	return out
}

// a name placed relative to qname: ancestor at some depth, the name itself, below it,
// a sibling branch, a label-boundary near-miss, an unrelated name
func vC07Relative(r *rand.Rand, qname vC07Name) (vC07Name, string) {
	anc := func(k int) vC07Name { // last k labels
		if k > len(qname) {
			k = len(qname)
		}
		return append(vC07Name{}, qname[len(qname)-k:]...)
	}
	switch r.Intn(9) {
	case 0:
		return anc(r.Intn(len(qname) + 1)), "ancestor"
	case 1:
		return vC07CaseMix(r, anc(r.Intn(len(qname)+1))), "ancestor-case"
	case 2:
		return append(vC07Name{}, qname...), "self"
	case 3:
		return append(vC07Name{vC07Labels[r.Intn(len(vC07Labels))]}, qname...), "below"
	case 4:
		k := r.Intn(len(qname) + 1)
		a := anc(k)
		return append(vC07Name{vC07Labels[r.Intn(len(vC07Labels))]}, a...), "branch"
	case 5:
		a := anc(1 + r.Intn(len(qname)+1))
		if len(a) > 0 {
			a[0] = "not" + a[0]
		}
		return a, "nearmiss"
	case 6:
		a := anc(1 + r.Intn(len(qname)+1))
		if len(a) > 0 && len(a[0]) > 1 {
			// move a label boundary: example -> exam.ple / merge
			k := 1 + r.Intn(len(a[0])-1)
			a = append(vC07Name{a[0][:k], a[0][k:]}, a[1:]...)
		}
		return a, "split"
	case 7:
		a := anc(r.Intn(len(qname) + 1))
		if len(a) > 1 {
			// drop an inner label: a.example.com -> a.com
			i := 1 + r.Intn(len(a)-1)
			a = append(append(vC07Name{}, a[:i]...), a[i+1:]...)
		}
		return a, "skip"
	default:
		return vC07RandQName(r), "unrelated"
	}
}

// ---- addresses ---------------------------------------------------------------

func vC07CoqAddr(a netip.Addr) string {
	if a.Is4() {
		b := a.As4()
		v := uint64(b[0])<<24 | uint64(b[1])<<16 | uint64(b[2])<<8 | uint64(b[3])
		return fmt.Sprintf("(IP4 %d)", v)
	}
	b := a.As16()
	return fmt.Sprintf("(IP6 %s)", vC07Big(b[:]))
}

func vC07Big(b []byte) string {
	// decimal of a big-endian octet string (at most 16 octets) without math/big: two 64-bit halves
	var hi, lo uint64
	for i, x := range b {
		if len(b)-i > 8 {
			hi = hi<<8 | uint64(x)
		} else {
			lo = lo<<8 | uint64(x)
		}
	}
	if hi == 0 {
		return strconv.FormatUint(lo, 10)
	}
	return fmt.Sprintf("(%d * 18446744073709551616 + %d)", hi, lo)
}

func vC07CoqBytes(b []byte) string {
	var parts []string
	for _, x := range b {
		parts = append(parts, strconv.Itoa(int(x)))
	}
	return "[" + strings.Join(parts, ";") + "]"
}

func vC07CoqAddrs(l []netip.Addr) string {
	var parts []string
	for _, a := range l {
		parts = append(parts, vC07CoqAddr(a))
	}
	return "[" + strings.Join(parts, ";") + "]"
}

func vC07CoqIPList(l []net.IP) string {
	var parts []string
	for _, ip := range l {
		if a, ok := netip.AddrFromSlice(ip); ok {
			parts = append(parts, vC07CoqAddr(a.Unmap()))
		}
	}
	return "[" + strings.Join(parts, ";") + "]"
}

// ---- records -------------------------------------------------------------------

type vC07RRSpec struct {
	owner   vC07Name
	rrtype  uint16
	class   uint16
	ttl     uint32
	ip      []byte   // A / AAAA
	target  vC07Name // NS / CNAME / DNAME
	covered uint16   // RRSIG
	// RRSIG: Labels = label count of the owner + labelsDelta (a negative delta is what a wildcard expansion looks like)
	labelsDelta int
}

func (s vC07RRSpec) coq() string {
	rd := "RdOther"
	switch s.rrtype {
	case dns.TypeA, dns.TypeAAAA:
		rd = "(RdA " + vC07CoqBytes(s.ip) + ")"
	case dns.TypeNS, dns.TypeCNAME, dns.TypeDNAME:
		rd = "(RdName " + s.target.coq() + ")"
	case dns.TypeRRSIG:
		rd = fmt.Sprintf("(RdSig %d)", s.covered)
	}
	return fmt.Sprintf("(mk_rr %s %d %d %d %s)", s.owner.coq(), s.rrtype, s.class, s.ttl, rd)
}

func (s vC07RRSpec) String() string {
	switch s.rrtype {
	case dns.TypeA, dns.TypeAAAA:
		return fmt.Sprintf("%s %d %s %s %v", s.owner, s.ttl, dns.ClassToString[s.class], dns.TypeToString[s.rrtype], net.IP(s.ip))
	case dns.TypeNS, dns.TypeCNAME, dns.TypeDNAME:
		return fmt.Sprintf("%s %d %s %s %s", s.owner, s.ttl, dns.ClassToString[s.class], dns.TypeToString[s.rrtype], s.target)
	case dns.TypeRRSIG:
		return fmt.Sprintf("%s %d RRSIG(%s) labels=%d%+d", s.owner, s.ttl, dns.TypeToString[s.covered], len(s.owner), s.labelsDelta)
	}
	return fmt.Sprintf("%s %d %s", s.owner, s.ttl, dns.TypeToString[s.rrtype])
}

func (s vC07RRSpec) rr() dns.RR {
	h := dns.RR_Header{Name: s.owner.String(), Rrtype: s.rrtype, Class: s.class, Ttl: s.ttl}
	switch s.rrtype {
	case dns.TypeA:
		return &dns.A{Hdr: h, A: net.IP(s.ip)}
	case dns.TypeAAAA:
		return &dns.AAAA{Hdr: h, AAAA: net.IP(s.ip)}
	case dns.TypeNS:
		return &dns.NS{Hdr: h, Ns: s.target.String()}
	case dns.TypeCNAME:
		return &dns.CNAME{Hdr: h, Target: s.target.String()}
	case dns.TypeDNAME:
		return &dns.DNAME{Hdr: h, Target: s.target.String()}
	case dns.TypeSOA:
		return &dns.SOA{Hdr: h, Ns: "ns.", Mbox: "h.", Serial: 1, Refresh: 1, Retry: 1, Expire: 1, Minttl: 1}
	case dns.TypeRRSIG:
		lb := len(s.owner) + s.labelsDelta
		if lb < 0 {
			lb = 0
		}
		return &dns.RRSIG{Hdr: h, TypeCovered: s.covered, Algorithm: 13, Labels: uint8(lb), OrigTtl: s.ttl, Expiration: 2000000000, Inception: 1000000000, KeyTag: 1, SignerName: ".", Signature: "AAAA"}
	case dns.TypeDS:
		return &dns.DS{Hdr: h, KeyTag: 1, Algorithm: 13, DigestType: 2, Digest: "00"}
	case dns.TypeNSEC:
		return &dns.NSEC{Hdr: h, NextDomain: "z.", TypeBitMap: []uint16{dns.TypeA}}
	case dns.TypeNSEC3:
		return &dns.NSEC3{Hdr: h, Hash: 1, HashLength: 20, NextDomain: "AAAAAAAAAAAAAAAAAAAAAAAAAAAAAAAA"}
	case dns.TypeTXT:
		return &dns.TXT{Hdr: h, Txt: []string{"x"}}
	case dns.TypeMX:
		return &dns.MX{Hdr: h, Preference: 1, Mx: "mx."}
	}
	return &dns.TXT{Hdr: h, Txt: []string{"other"}}
}

func vC07CoqRRs(l []vC07RRSpec) string {
	var parts []string
	for _, s := range l {
		parts = append(parts, s.coq())
	}
	return "[" + strings.Join(parts, ";") + "]"
}

func vC07RRs(l []vC07RRSpec) []dns.RR {
	var out []dns.RR
	for _, s := range l {
		out = append(out, s.rr())
	}
	return out
}

func vC07DescRRs(l []vC07RRSpec) []string {
	var out []string
	for _, s := range l {
		out = append(out, s.String())
	}
	return out
}

// vC07FromRR describes a record of a reply the way the model sees it
func vC07FromRR(rr dns.RR) vC07RRSpec {
	h := rr.Header()
	sp := vC07RRSpec{owner: vC07Parse(h.Name), rrtype: h.Rrtype, class: h.Class, ttl: h.Ttl}
	switch v := rr.(type) {
	case *dns.A:
		sp.ip = []byte(v.A.To4())
	case *dns.AAAA:
		sp.ip = []byte(v.AAAA.To16())
	case *dns.NS:
		sp.target = vC07Parse(v.Ns)
	case *dns.CNAME:
		sp.target = vC07Parse(v.Target)
	case *dns.DNAME:
		sp.target = vC07Parse(v.Target)
	case *dns.RRSIG:
		sp.covered = v.TypeCovered
	}
	return sp
}

func vC07FromRRs(rrs []dns.RR) []vC07RRSpec {
	var out []vC07RRSpec
	for _, rr := range rrs {
		if rr.Header().Rrtype == dns.TypeOPT {
			continue
		}
		out = append(out, vC07FromRR(rr))
	}
	return out
}
