//go:build verif

package resolver

// C02 driver through Resolver.Resolve (overlay-injected, never committed to /repo): the QNAME-minimised
// walk below one authority.  A local authority (UDP + TCP on loopback) plays a generated signed zone:
// to every minimised question it replies NOERROR + SOA (the walk goes one label deeper) or NXDOMAIN +
// SOA + the case's denial records, to the full question NXDOMAIN / NOERROR with the denial records —
// truthfully (NXDOMAIN exactly where the name does not exist) or at random (a hostile authority that
// can only replay what the zone's key signed).  The production walk (resolve -> minimize -> groupLookup
// -> lookup -> processAuthoritySection -> authority) decides where it stops.  Observed: error class,
// RCODE / AD of the result, published validated-negative provenance (subject = the name the walk
// stopped at), number of distinct questions the authority saw.  Compared with ModelAuth.min_walk and
// judged against the zone (RFC 8020: an early stop denies the whole subtree).

import (
	"context"
	"crypto"
	"encoding/json"
	"errors"
	"fmt"
	"math/rand"
	"net"
	"os"
	"path/filepath"
	"sort"
	"strings"
	"sync"
	"testing"
	"time"

	"github.com/miekg/dns"
	"github.com/semihalev/sdns/config"
	"github.com/semihalev/sdns/internal/authority"
	"github.com/semihalev/sdns/internal/dnsutil"
	"github.com/semihalev/sdns/middleware"
)

type vC02WalkLab struct {
	addr string
	stop func()

	mu         sync.Mutex
	apexLabels int
	fullLabels int
	qtype      uint16
	soa        []dns.RR
	denial     []dns.RR
	nx         []bool // reply of minimised level k+1 (apex + k + 1 labels): NXDOMAIN?
	frc        int
	asked      []string // distinct question names in order of first arrival
	other      int      // questions that are not part of the walk (the DNSKEY fetch for a foreign RRSIG signer): SERVFAIL
	packets    int
}

func (l *vC02WalkLab) serve(w dns.ResponseWriter, req *dns.Msg) {
	resp := new(dns.Msg)
	if len(req.Question) == 0 {
		resp.SetRcode(req, dns.RcodeFormatError)
		_ = w.WriteMsg(resp)
		return
	}
	q := req.Question[0]
	l.mu.Lock()
	l.packets++
	labels := dns.CountLabel(q.Name)
	k := labels - l.apexLabels
	switch {
	case q.Qtype != l.qtype || k < 1 || labels > l.fullLabels:
		l.other++
		resp.SetRcode(req, dns.RcodeServerFailure)
	default:
		key := strings.ToLower(q.Name)
		seen := false
		for _, a := range l.asked {
			if a == key {
				seen = true
			}
		}
		if !seen {
			l.asked = append(l.asked, key)
		}
		switch {
		case labels == l.fullLabels:
			resp.SetRcode(req, l.frc)
			resp.Ns = append(append(resp.Ns, l.soa...), l.denial...)
		case k-1 < len(l.nx) && l.nx[k-1]:
			resp.SetRcode(req, dns.RcodeNameError)
			resp.Ns = append(append(resp.Ns, l.soa...), l.denial...)
		default:
			resp.SetRcode(req, dns.RcodeSuccess)
			resp.Ns = append(resp.Ns, l.soa...)
		}
	}
	l.mu.Unlock()
	resp.Authoritative = true
	if o := req.IsEdns0(); o != nil {
		resp.SetEdns0(1232, true)
	}
	if w.RemoteAddr().Network() == "udp" && resp.Len() > 1200 {
		resp.Ns = nil
		resp.Truncated = true
	}
	_ = w.WriteMsg(resp)
}

func vC02WalkStart() (*vC02WalkLab, error) {
	var lastErr error
	for try := 0; try < 20; try++ {
		tl, err := net.Listen("tcp4", "127.0.0.1:0")
		if err != nil {
			lastErr = err
			continue
		}
		port := tl.Addr().(*net.TCPAddr).Port
		pc, err := net.ListenPacket("udp4", fmt.Sprintf("127.0.0.1:%d", port))
		if err != nil {
			_ = tl.Close()
			lastErr = err
			continue
		}
		lab := &vC02WalkLab{addr: pc.LocalAddr().String()}
		h := dns.HandlerFunc(lab.serve)
		us := &dns.Server{Net: "udp", PacketConn: pc, Handler: h}
		ts := &dns.Server{Net: "tcp", Listener: tl, Handler: h}
		go func() { _ = us.ActivateAndServe() }()
		go func() { _ = ts.ActivateAndServe() }()
		lab.stop = func() { _ = us.Shutdown(); _ = ts.Shutdown(); _ = pc.Close(); _ = tl.Close() }
		return lab, nil
	}
	return nil, lastErr
}

func TestVerifC02Walk(t *testing.T) {
	tr := vC02Open(t)
	defer tr.f.Close()
	seed := int64(vC02EnvInt("VERIF_SEED", 1))
	n := vC02EnvInt("VERIF_N", 100)
	r := rand.New(rand.NewSource(seed*15485863 + 11))
	g := &vC02Gen{r: r}
	lab, err := vC02WalkStart()
	if err != nil {
		tr.emit(map[string]any{"k": "walk-setup", "inconclusive": true, "desc": "listen: " + err.Error()})
		return
	}
	defer lab.stop()
	vC02WalkCorpus(t, tr, g, lab)
	for c := 0; c < n; c++ {
		g.newPool(true)
		plain := func() []byte { return []byte{"abcxyz"[r.Intn(6)]} }
		apex := vC02Name{plain()}
		if r.Intn(3) == 0 {
			apex = vC02Name{plain(), plain()}
		}
		for i := range apex {
			apex[i] = vC02FoldLabel(apex[i])
		}
		zin := g.genZone(apex, 2+r.Intn(6))
		vC02WalkCase(t, tr, g, lab, zin, r.Intn(5) < 2, nil)
	}
}

// a fixed question of a corpus file (corpus/C02/walk-*.json): the full chain of the zone, signed by the zone
type vC02WalkProbe struct {
	Q     [][]int `json:"q"`
	Qtype uint16  `json:"qtype"`
	CD    bool    `json:"cd"`
	NX    []bool  `json:"nx"`
	Frc   int     `json:"frc"`
}

type vC02WalkFile struct {
	Kind  string  `json:"kind"`
	Why   string  `json:"why"`
	Apex  [][]int `json:"apex"`
	Nodes []struct {
		Name  [][]int  `json:"name"`
		Types []uint16 `json:"types"`
	} `json:"nodes"`
	NSEC3  bool            `json:"nsec3"`
	Probes []vC02WalkProbe `json:"probes"`
}

func vC02WalkName(n [][]int) vC02Name {
	var out vC02Name
	for _, l := range n {
		b := make([]byte, len(l))
		for i, c := range l {
			b[i] = byte(c)
		}
		out = append(out, b)
	}
	return out
}

func vC02WalkCorpus(t *testing.T, tr *vC02Trace, g *vC02Gen, lab *vC02WalkLab) {
	dir := os.Getenv("VERIF_CORPUS")
	if dir == "" {
		return
	}
	files, _ := filepath.Glob(filepath.Join(dir, "walk-*.json"))
	sort.Strings(files)
	for _, f := range files {
		b, err := os.ReadFile(f)
		if err != nil {
			t.Fatalf("corpus %s: %v", f, err)
		}
		var cf vC02WalkFile
		if err := json.Unmarshal(b, &cf); err != nil || cf.Kind != "walk" {
			t.Fatalf("corpus %s: %v (kind %q)", f, err, cf.Kind)
		}
		z := &vC02Zone{apex: vC02WalkName(cf.Apex)}
		for _, nd := range cf.Nodes {
			z.nodes = append(z.nodes, vC02Node{vC02WalkName(nd.Name), nd.Types})
		}
		z.index()
		g.newPool(true)
		vC02WalkCase(t, tr, g, lab, z, cf.NSEC3, cf.Probes)
	}
}

func vC02WalkCase(t0 *testing.T, tr *vC02Trace, g *vC02Gen, lab *vC02WalkLab, zin *vC02Zone, useNSEC3 bool, fixed []vC02WalkProbe) {
	var t testing.TB = &vC02TB{TB: t0, tr: tr, what: "walk"}
	r := g.r
	fromCorpus := fixed != nil
	z := zin
	if useNSEC3 {
		z = &vC02Zone{apex: zin.apex}
		for _, nd := range zin.nodes {
			var ts []uint16
			for _, ty := range nd.types {
				if ty != dns.TypeNSEC {
					ts = append(ts, ty)
				}
			}
			z.nodes = append(z.nodes, vC02Node{nd.name, ts})
		}
		z.index()
	}
	zoneStr := vC02Pres(z.apex)
	key, priv := vC02ZoneKey(t, zoneStr)

	cfg := &config.Config{DNSSEC: "on", Maxdepth: 30, MaxConcurrentQueries: 16, Timeout: config.Duration{Duration: 2 * time.Second}}
	servers := &authority.Servers{Zone: zoneStr, List: []*authority.Server{authority.NewServer(lab.addr, authority.IPv4)}}
	res := &Resolver{
		cfg:             cfg,
		delegations:     authority.NewCache(),
		rootServers:     servers,
		dnssec:          true,
		rootKeys:        []dns.RR{key},
		netTimeout:      2 * time.Second,
		sfGroup:         NewSingleflightWrapper(),
		circuitBreaker:  newCircuitBreaker(),
		maxConcurrent:   make(chan struct{}, cfg.MaxConcurrentQueries),
		resolutionSlots: make(chan struct{}, cfg.MaxConcurrentQueries),
		qnameMinLevel:   10,
	}
	keyResponse := new(dns.Msg)
	keyResponse.SetQuestion(zoneStr, dns.TypeDNSKEY)
	keyResponse.Response = true
	keyResponse.Authoritative = true
	keyResponse.Answer = append(keyResponse.Answer, key, randomQSignRRSet(t, key, priv, []dns.RR{key}))
	var store middleware.Store = &randomQWarmDNSSECStore{zone: zoneStr, msg: keyResponse}
	res.store.Store(&store)
	parentDS := []dns.RR{key.ToDS(dns.SHA256)}

	soa := &dns.SOA{Hdr: dns.RR_Header{Name: zoneStr, Rrtype: dns.TypeSOA, Class: dns.ClassINET, Ttl: 300},
		Ns: "ns1." + zoneStr, Mbox: "hostmaster." + zoneStr, Serial: 1, Refresh: 3600, Retry: 600, Expire: 86400, Minttl: 300}
	soaSet := []dns.RR{soa, randomQSignRRSet(t, key, priv, []dns.RR{soa})}

	var rrs []dns.RR
	var recsN []vC02Rec
	var recs3 []vC02Rec3
	var genuine []bool
	var signedBy []int // NSEC only: 0 = the zone's key, 1 = another zone's key, 2 = no RRSIG
	foreignZone := ""
	params := vC02Params{iter: []uint16{0, 0, 1}[r.Intn(3)], salt: []string{"", "ab"}[r.Intn(2)]}
	kind := "full"
	if fixed == nil && r.Intn(3) == 0 {
		kind = "subset"
	}
	pick := func() bool { return kind == "full" || r.Intn(5) > 0 }
	polluted := ""
	cands := g.candidates(z)
	if useNSEC3 {
		optout := fixed == nil && r.Intn(2) == 0
		chain, _ := g.nsec3Chain(z, params, optout, r.Intn(4) == 0)
		for _, rc := range chain {
			if pick() {
				recs3 = append(recs3, rc)
				genuine = append(genuine, true)
			}
		}
		if optout {
			polluted = "optout"
		}
		if fixed == nil && r.Intn(8) == 0 && len(recs3) > 0 {
			i := r.Intn(len(recs3))
			recs3[i].flags ^= 1
			genuine[i] = false
			polluted = "optout-flip"
		}
		// a sibling zone's Opt-Out NSEC3 chain under the sibling's key: owners OUTSIDE the signer zone — skipped by
		// VerifyRRSIG, dropped by FilterRRsToZone and not counted by HasNSEC3OptOut: the walk may still stop early
		signedBy = make([]int, len(recs3))
		if fixed == nil && polluted == "" && r.Intn(3) == 0 {
			sib := append([]byte(nil), z.apex[0]...)
			sib[len(sib)-1] ^= 1
			sz := &vC02Zone{apex: vC02Child(sib, z.apex[1:])}
			sz.nodes = []vC02Node{{sz.apex, []uint16{dns.TypeNS, dns.TypeSOA, dns.TypeRRSIG, dns.TypeDNSKEY}}, {vC02Child([]byte("a"), sz.apex), []uint16{dns.TypeA, dns.TypeRRSIG}}}
			sz.index()
			foreignZone = vC02Pres(sz.apex)
			schain, _ := g.nsec3Chain(sz, params, true, true)
			for _, rc := range schain {
				rc.note = "sibling"
				rc.flags |= 1
				recs3 = append(recs3, rc)
				genuine = append(genuine, false)
				signedBy = append(signedBy, 1)
				polluted = "sibling-optout"
			}
		}
		r.Shuffle(len(recs3), func(i, j int) {
			recs3[i], recs3[j] = recs3[j], recs3[i]
			genuine[i], genuine[j] = genuine[j], genuine[i]
			signedBy[i], signedBy[j] = signedBy[j], signedBy[i]
		})
		for _, rc := range recs3 {
			rrs = append(rrs, rc.rr())
		}
	} else {
		for _, rc := range z.nsecChain() {
			if pick() {
				recsN = append(recsN, rc)
				genuine = append(genuine, true)
			}
		}
		signedBy = make([]int, len(recsN))
		owned := func(n vC02Name) bool {
			for _, rc := range recsN {
				if vC02Key(rc.owner) == vC02Key(n) {
					return true
				}
			}
			return false
		}
		pollution := r.Intn(10)
		if fixed != nil {
			pollution = 9
		}
		switch pollution {
		case 0, 4: // a made-up interval under the zone's key (a dishonest signer: not judged, only compared)
			a, b := cands[r.Intn(len(cands))], cands[r.Intn(len(cands))]
			if !owned(a) && vC02Sub(a, z.apex) && vC02Sub(b, z.apex) {
				recsN = append(recsN, vC02Rec{owner: a, next: b, types: []uint16{dns.TypeA, dns.TypeRRSIG, dns.TypeNSEC}, class: 1, note: "made-up"})
				genuine = append(genuine, false)
				signedBy = append(signedBy, 0)
				polluted = "made-up"
			}
		case 1, 2: // a child zone's chain under the child's key
			var cuts []vC02Node
			for _, nd := range z.nodes {
				if vC02Has(nd.types, dns.TypeNS) && !vC02Has(nd.types, dns.TypeSOA) {
					cuts = append(cuts, nd)
				}
			}
			if len(cuts) > 0 {
				nd := cuts[r.Intn(len(cuts))]
				child := g.genZone(nd.name, 2+r.Intn(3))
				foreignZone = vC02Pres(child.apex)
				for _, rc := range child.nsecChain() {
					if !owned(rc.owner) && r.Intn(4) > 0 {
						rc.note = "child"
						recsN = append(recsN, rc)
						genuine = append(genuine, false)
						signedBy = append(signedBy, 1)
						polluted = "child-signed"
					}
				}
			}
		case 3: // an in-zone record without any signature
			if len(recsN) > 0 {
				signedBy[r.Intn(len(recsN))] = 2
				polluted = "unsigned"
			}
		}
		r.Shuffle(len(recsN), func(i, j int) {
			recsN[i], recsN[j] = recsN[j], recsN[i]
			genuine[i], genuine[j] = genuine[j], genuine[i]
			signedBy[i], signedBy[j] = signedBy[j], signedBy[i]
		})
		for _, rc := range recsN {
			rrs = append(rrs, rc.rr())
		}
	}
	rrs = vC02RoundTrip(rrs)
	byOwner := map[string][]dns.RR{}
	ownerSig := map[string]int{}
	var order []string
	for i, rr := range rrs {
		k := strings.ToLower(rr.Header().Name)
		if _, ok := byOwner[k]; !ok {
			order = append(order, k)
			if signedBy != nil {
				ownerSig[k] = signedBy[i]
			}
		}
		byOwner[k] = append(byOwner[k], rr)
	}
	var fkey *dns.DNSKEY
	var fpriv crypto.PrivateKey
	if foreignZone != "" {
		fkey, fpriv = vC02ZoneKey(t, foreignZone)
	}
	var denial []dns.RR
	for _, k := range order {
		denial = append(denial, byOwner[k]...)
		switch ownerSig[k] {
		case 0:
			denial = append(denial, randomQSignRRSet(t, key, priv, byOwner[k]))
		case 1:
			denial = append(denial, randomQSignRRSet(t, fkey, fpriv, byOwner[k]))
		}
	}
	allGenuine := true
	for i, gq := range genuine {
		if signedBy == nil || signedBy[i] == 0 {
			allGenuine = allGenuine && gq
		}
	}
	filtered := dnsutil.FilterRRsToZone(rrs, zoneStr)
	var kept []int
	for _, f := range filtered {
		for i, rr := range rrs {
			if rr == f {
				kept = append(kept, i)
			}
		}
	}

	tabNames := map[string]vC02Name{}
	var pcoq, pdesc []string
	goFail := ""
	early, deep := false, false
	nprobes := 3 + r.Intn(3)
	if fixed != nil {
		nprobes = len(fixed)
	}
	// thorough tier: one question of the case is asked under EVERY script of replies (NOERROR / NXDOMAIN at
	// each minimised level x RCODE of the final reply), exhaustively
	if fixed == nil && os.Getenv("VERIF_TIER") == "thorough" && r.Intn(2) == 0 {
		for try := 0; try < 8 && fixed == nil; try++ {
			base := cands[r.Intn(len(cands))]
			if !vC02Sub(base, z.apex) {
				continue
			}
			q := base
			for ext := 1 + r.Intn(2); ext > 0 && len(q) < len(z.apex)+4; ext-- {
				q = vC02Child(g.poolLabel(), q)
			}
			depth := len(q) - len(z.apex)
			if depth < 2 || depth > 4 || dns.CountLabel(vC02Pres(q)) != len(q) {
				continue
			}
			var qi [][]int
			for _, l := range q {
				li := make([]int, len(l))
				for j, c := range l {
					li[j] = int(c)
				}
				qi = append(qi, li)
			}
			for mask := 0; mask < 1<<(depth-1); mask++ {
				nx := make([]bool, depth-1)
				for k := range nx {
					nx[k] = mask&(1<<k) != 0
				}
				for _, frc := range []int{dns.RcodeSuccess, dns.RcodeNameError} {
					fixed = append(fixed, vC02WalkProbe{Q: qi, Qtype: dns.TypeA, CD: false, NX: nx, Frc: frc})
				}
			}
			nprobes = len(fixed)
			kind += "-allscripts"
		}
	}
	for i := 0; i < nprobes; i++ {
		var q vC02Name
		var qtype uint16
		var cd, hostile bool
		var nx []bool
		var frc, depth int
		if fixed != nil {
			fp := fixed[i]
			q, qtype, cd, hostile, frc = vC02WalkName(fp.Q), fp.Qtype, fp.CD, true, fp.Frc
			depth = len(q) - len(z.apex)
			nx = append([]bool(nil), fp.NX...)
			if !vC02Sub(q, z.apex) || depth < 1 || len(nx) != depth-1 {
				t.Fatalf("corpus probe %d of zone %s is malformed", i, vC02Pres(z.apex))
			}
		} else {
			base := cands[r.Intn(len(cands))]
			if !vC02Sub(base, z.apex) {
				continue
			}
			q = base
			for ext := r.Intn(3); ext > 0 && len(q) < len(z.apex)+4; ext-- { // names one or two labels below a candidate
				q = vC02Child(g.poolLabel(), q)
			}
			depth = len(q) - len(z.apex)
			if depth < 1 {
				continue
			}
			if r.Intn(6) == 0 {
				q = append(vC02UpperSome(r, q[:depth]), q[depth:]...)
			}
			qtype = []uint16{dns.TypeA, dns.TypeA, dns.TypeAAAA, dns.TypeTXT, dns.TypeDS, dns.TypeNS, dns.TypeMX}[r.Intn(7)]
			cd = r.Intn(10) == 0
			hostile = r.Intn(3) == 0
			nx = make([]bool, depth-1)
			for k := 1; k < depth; k++ {
				m := vC02Suffix(q, len(z.apex)+k)
				if hostile {
					nx[k-1] = r.Intn(2) == 0
				} else {
					nx[k-1] = z.existsHow(m) == ""
				}
			}
			frc = dns.RcodeSuccess
			if (hostile && r.Intn(2) == 0) || (!hostile && z.existsHow(q) == "") {
				frc = dns.RcodeNameError
			}
		}
		qs := vC02Pres(q)
		if dns.CountLabel(qs) != len(q) {
			continue
		}
		lab.mu.Lock()
		lab.apexLabels, lab.fullLabels, lab.qtype = len(z.apex), len(q), qtype
		lab.soa, lab.denial, lab.nx, lab.frc = soaSet, denial, nx, frc
		lab.asked, lab.other, lab.packets = nil, 0, 0
		lab.mu.Unlock()

		req := new(dns.Msg)
		req.SetQuestion(qs, qtype)
		req.SetEdns0(1232, true)
		req.CheckingDisabled = cd
		req.RecursionDesired = false
		var meta middleware.ResponseMeta
		ctx, cancel := context.WithTimeout(middleware.WithResponseMeta(context.Background(), &meta), 8*time.Second)
		resp, err := res.Resolve(ctx, req, servers, false, 30, dns.CountLabel(zoneStr), false, parentDS)
		timedOut := ctx.Err() != nil
		cancel()
		lab.mu.Lock()
		asked := append([]string(nil), lab.asked...)
		other, packets := lab.other, lab.packets
		lab.mu.Unlock()
		var ne net.Error
		if timedOut || errors.Is(err, context.DeadlineExceeded) || errors.Is(err, context.Canceled) || errors.Is(err, errConnectionFailed) || errors.As(err, &ne) || len(asked) == 0 {
			tr.emit(map[string]any{"k": "walk-infra", "inconclusive": true, "desc": fmt.Sprintf("%s: err=%v asked=%v other=%d packets=%d", qs, err, asked, other, packets)})
			return
		}
		ec, rc, ad, marked, aggr := vC02ErrClass(err), 0, false, false, false
		subject := ""
		if err == nil && resp != nil {
			rc = resp.Rcode
			ad = resp.AuthenticatedData
			if len(resp.Question) != 1 || resp.Question[0].Name != qs {
				goFail = fmt.Sprintf("the result for %s carries the question %v", qs, resp.Question)
			}
			if neg, ok := middleware.ValidatedNegativeProofForResponse(ctx, resp); ok {
				marked, aggr, subject = true, neg.Aggressive, neg.Subject
				if !strings.EqualFold(neg.Subject, asked[len(asked)-1]) || !strings.EqualFold(neg.Zone, zoneStr) {
					goFail = fmt.Sprintf("provenance for %s names subject %q zone %q, the last question sent was %q", qs, neg.Subject, neg.Zone, asked[len(asked)-1])
				}
			}
		}
		for k := 0; k <= len(q); k++ {
			if s := vC02Suffix(q, k); vC02Sub(s, z.apex) {
				tabNames[vC02Key(s)] = s
				w := vC02Child(vC02Star, s)
				tabNames[vC02Key(w)] = w
			}
		}
		stoppedEarly := err == nil && len(asked) < depth
		if stoppedEarly {
			early = true
		} else {
			deep = true
		}
		how := z.existsHow(q)
		ndTrue := z.nodataTrue(q, qtype)
		truth := (rc == dns.RcodeNameError && how == "") || (rc == dns.RcodeSuccess && ndTrue)
		if allGenuine && goFail == "" && err == nil {
			switch {
			case stoppedEarly && (rc != dns.RcodeNameError || !marked || !aggr || cd):
				goFail = fmt.Sprintf("the minimised walk for %s ended after %d of %d questions with rcode=%d provenance=%v aggressive=%v cd=%v", qs, len(asked), depth, rc, marked, aggr, cd)
			case stoppedEarly && z.existsHow(vC02Suffix(q, len(z.apex)+len(asked))) != "":
				goFail = fmt.Sprintf("the minimised walk for %s stopped at %s, which exists (%s)", qs, asked[len(asked)-1], z.existsHow(vC02Suffix(q, len(z.apex)+len(asked))))
			case (ad || marked) && !truth:
				goFail = fmt.Sprintf("Resolver.Resolve returned rcode=%d AD=%v provenance=%v for %s %s after %d questions although that is not true of the zone (exists=%q nodata=%v)", rc, ad, marked, qs, dns.TypeToString[qtype], len(asked), how, ndTrue)
			case marked && cd:
				goFail = "provenance published for a CD=1 request"
			}
		}
		var nxs []string
		for _, b := range nx {
			nxs = append(nxs, fmt.Sprint(b))
		}
		pcoq = append(pcoq, fmt.Sprintf("mk_wprobe %s %d %v [%s] %d %d %d %v %v %v %d", vC02Coq(q), qtype, cd, strings.Join(nxs, ";"), frc, ec, rc, ad, marked, aggr, len(asked)))
		pdesc = append(pdesc, fmt.Sprintf("%s %s cd=%v hostile=%v levels-nx=%v final-rcode=%d -> err=%d (%v) rcode=%d AD=%v provenance=%v aggressive=%v subject=%q asked=%v packets=%d [truth: exists=%q nodata=%v]",
			qs, dns.TypeToString[qtype], cd, hostile, nx, frc, ec, err, rc, ad, marked, aggr, subject, asked, packets, how, ndTrue))
	}
	if len(pcoq) == 0 {
		return
	}
	var rdesc []string
	for i, rr := range rrs {
		rdesc = append(rdesc, fmt.Sprintf("%d: %s", i, strings.Join(strings.Fields(rr.String()), " ")))
	}
	coq := ""
	if fromCorpus {
		kind = "corpus"
	}
	k := "walk-nsec-" + kind
	if useNSEC3 {
		k = "walk-nsec3-" + kind
		zones := make([]vC02Name, len(rrs))
		for i := range zones {
			zones[i] = recs3[i].zone
		}
		rcoq, tcoq := vC02Nsec3Coq(rrs, zones, tabNames, params)
		coq = fmt.Sprintf("(CaseWalkNsec3 %s %s [%s] %s [%s] %v [%s])%%N", z.coq(), vC02Coq(z.apex), strings.Join(rcoq, ";"), vC02CoqInts(kept),
			strings.Join(tcoq, ";"), allGenuine, strings.Join(pcoq, ";"))
	} else {
		var rcoq, scoq []string
		for i, rc := range recsN {
			rcoq = append(rcoq, rc.coq())
			scoq = append(scoq, fmt.Sprint(signedBy[i] == 0))
			if signedBy[i] != 0 {
				rdesc[i] += fmt.Sprintf("  [%s: signedBy=%d]", recsN[i].note, signedBy[i])
			}
		}
		coq = fmt.Sprintf("(CaseWalkNsec %s %s [%s] [%s] [%s])%%N", z.coq(), vC02Coq(z.apex), strings.Join(rcoq, ";"), strings.Join(scoq, ";"), strings.Join(pcoq, ";"))
	}
	if polluted != "" {
		k += "+" + polluted
	}
	tr.emit(map[string]any{
		"k": k, "coq": coq, "go_fail": goFail, "nontrivial": early && deep,
		"desc": map[string]any{"zone": z.desc(), "records": rdesc, "probes": pdesc},
	})
}
