//go:build verif

package resolver

// C07: fixed regression inputs of the unit driver from $VERIF_CORPUS/unit.json, replayed first on every
// run (the inputs on which findings, mutations and seeded changes were caught).

import (
	"encoding/json"
	"fmt"
	"net"
	"os"
	"path/filepath"
	"strings"
	"testing"

	"github.com/miekg/dns"
)

type vC07CorpusRR struct {
	Owner  string `json:"owner"`
	Type   string `json:"type"`
	Class  uint16 `json:"class"`
	TTL    uint32 `json:"ttl"`
	IP     string `json:"ip"`
	Target string `json:"target"`
	// RRSIG: type covered and Labels relative to the owner's label count
	Covered     string `json:"covered"`
	LabelsDelta int    `json:"labels_delta"`
}

func (c vC07CorpusRR) spec() vC07RRSpec {
	s := vC07RRSpec{owner: vC07Parse(c.Owner), rrtype: dns.StringToType[c.Type], class: c.Class, ttl: c.TTL, target: vC07Parse(c.Target)}
	s.covered, s.labelsDelta = dns.StringToType[c.Covered], c.LabelsDelta
	if s.class == 0 {
		s.class = dns.ClassINET
	}
	if s.ttl == 0 {
		s.ttl = 300
	}
	if c.IP != "" {
		ip := net.ParseIP(c.IP)
		if s.rrtype == dns.TypeA {
			s.ip = []byte(ip.To4())
		} else {
			s.ip = []byte(ip.To16())
		}
	}
	return s
}

type vC07CorpusUnit struct {
	Kind  string         `json:"kind"`
	Why   string         `json:"why"`
	IPs   []string       `json:"ips"`
	QName string         `json:"qname"`
	Level int            `json:"level"`
	IPv6  bool           `json:"ipv6"`
	Hosts []string       `json:"hosts"`
	Extra []vC07CorpusRR `json:"extra"`
	Auth  string         `json:"auth"`
	Q     *struct {
		Name  string `json:"name"`
		Type  uint16 `json:"type"`
		Class uint16 `json:"class"`
	} `json:"q"`
	Ns       []vC07CorpusRR `json:"ns"`
	Referral string         `json:"referral"`
	Zone     string         `json:"zone"`
	Owners   []string       `json:"owners"`
	// kind "sections": the positive answer handed to clearAdditional and the request's EDNS (0 none, 1 OPT, 2 OPT+DO), CD, keep-extra mode
	Answer []vC07CorpusRR `json:"answer"`
	Edns   int            `json:"edns"`
	CD     bool           `json:"cd"`
	Keep   int            `json:"keep"`
}

func vC07UnitCorpus(t *testing.T, local []net.IP, emit func(map[string]any)) {
	dir := os.Getenv("VERIF_CORPUS")
	if dir == "" {
		return
	}
	raw, err := os.ReadFile(filepath.Join(dir, "unit.json"))
	if err != nil {
		return
	}
	var doc struct {
		Cases []vC07CorpusUnit `json:"cases"`
	}
	if err := json.Unmarshal(raw, &doc); err != nil {
		t.Fatalf("corpus/C07/unit.json: %v", err)
	}
	localCoq := vC07CoqIPList(local)
	usable := func(ip []byte, kind string) {
		addr, ok := usableAddr(net.IP(ip))
		obs, goFail := "None", ""
		if ok {
			obs = "(Some " + vC07CoqAddr(addr) + ")"
			if addr.IsLoopback() || addr.Is4In6() {
				goFail = "usableAddr returned a loopback or mapped address"
			}
			if vC07IsLocalAddr(local, addr) {
				goFail = "usableAddr returned a local interface address: " + addr.String()
			}
		}
		emit(map[string]any{
			"k": "corpus-usable-" + kind, "coq": fmt.Sprintf("CaseUsable %s %s %s", localCoq, vC07CoqBytes(ip), obs),
			"nontrivial": true, "go_fail": goFail,
			"desc": map[string]any{"ip": fmt.Sprint(net.IP(ip)), "len": len(ip), "usable": ok, "addr": addr.String(), "local_interface_addrs": fmt.Sprint(local)},
		})
	}
	var ext []net.IP
	for _, l := range local {
		if !l.IsLoopback() {
			ext = append(ext, l)
		}
	}
	res := &Resolver{}
	for ci, c := range doc.Cases {
		switch c.Kind {
		case "usable-own":
			for _, l := range ext {
				if b := l.To4(); b != nil {
					usable(append([]byte{}, b...), "own")
					usable([]byte(net.IP(b).To16()), "own-16")
					near := append([]byte{}, b...)
					near[3] ^= 1
					if !vC07IsLocalIPBytes(local, near) {
						usable(near, "own-neighbour")
					}
				} else {
					usable(append([]byte{}, l.To16()...), "own6")
				}
			}
		case "usable":
			for _, sIP := range c.IPs {
				ip := net.ParseIP(sIP)
				if strings.Contains(sIP, ":") {
					usable([]byte(ip.To16()), "fixed")
				} else {
					usable([]byte(ip.To4()), "fixed")
					usable([]byte(ip.To16()), "fixed-16")
				}
			}
		case "glue-own":
			for _, l := range ext {
				qname := vC07Parse("www.sub.example.com.")
				hosts := []vC07Name{vC07Parse("ns1.sub.example.com."), vC07Parse("ns2.sub.example.com.")}
				hs := hostSet{"ns1.sub.example.com.": {}, "ns2.sub.example.com.": {}}
				own := vC07RRSpec{owner: hosts[0], rrtype: dns.TypeA, class: dns.ClassINET, ttl: 300, ip: []byte(l.To4())}
				if l.To4() == nil {
					own.rrtype, own.ip = dns.TypeAAAA, []byte(l.To16())
				}
				own16 := own
				if l.To4() != nil {
					own16.ip = []byte(l.To16())
					own16.owner = hosts[1]
				}
				other := vC07RRSpec{owner: hosts[1], rrtype: dns.TypeA, class: dns.ClassINET, ttl: 300, ip: []byte{198, 51, 100, 9}}
				vC07GlueOne(t, local, localCoq, "corpus-own-", true, 2, qname, qname, hosts, hs, []vC07RRSpec{own, other, own16}, emit)
			}
		case "glue":
			qname := vC07Parse(c.QName)
			var hosts []vC07Name
			hs := hostSet{}
			for _, h := range c.Hosts {
				hosts = append(hosts, vC07Parse(strings.ToLower(h)))
				hs[strings.ToLower(h)] = struct{}{}
			}
			var extra []vC07RRSpec
			for _, e := range c.Extra {
				extra = append(extra, e.spec())
			}
			vC07GlueOne(t, local, localCoq, fmt.Sprintf("corpus#%d-", ci), c.IPv6, c.Level, qname, qname, hosts, hs, extra, emit)
		case "info":
			var ns []vC07RRSpec
			for _, e := range c.Ns {
				ns = append(ns, e.spec())
			}
			qname := vC07Parse(c.Q.Name)
			q := dns.Question{Name: qname.String(), Qtype: c.Q.Type, Qclass: c.Q.Class}
			vC07InfoOne(res, fmt.Sprintf("corpus#%d-info", ci), vC07Parse(c.Auth), qname, q, ns, true, emit)
		case "prog":
			vC07ProgOne(fmt.Sprintf("corpus#%d-prog", ci), vC07Parse(c.Referral), vC07Parse(c.Auth), vC07Parse(c.QName), emit)
		case "zonefilter":
			var owners []vC07Name
			for _, o := range c.Owners {
				owners = append(owners, vC07Parse(o))
			}
			vC07ZoneFilterOne(fmt.Sprintf("corpus#%d-zonefilter", ci), vC07Parse(c.Zone), owners, emit)
		case "sections":
			conv := func(l []vC07CorpusRR) []vC07RRSpec {
				var out []vC07RRSpec
				for _, e := range l {
					out = append(out, e.spec())
				}
				return out
			}
			vC07SectionsOne(res, fmt.Sprintf("corpus#%d-sections", ci), vC07Parse(c.QName), conv(c.Answer), conv(c.Ns), conv(c.Extra), c.Edns, c.CD, c.Keep, emit)
		default:
			t.Fatalf("corpus/C07/unit.json: unknown kind %q", c.Kind)
		}
	}
}

func vC07IsLocalIPBytes(local []net.IP, b []byte) bool {
	for _, l := range local {
		if l.Equal(net.IP(b)) {
			return true
		}
	}
	return false
}
