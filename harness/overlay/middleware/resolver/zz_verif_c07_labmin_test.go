//go:build verif

package resolver

// C07 driver sections "minimize" (unit) and "minhop" (lab): qname-minimised hops.
//
// minimize: the REAL Resolver.minimize(req, level, nomin) for every qnameMinLevel / level / nomin around the label
// count of generated names (Coq: CaseMinimize against Model.minimize).
//
// minhop: the REAL exported Resolver.Resolve is started on the attacker zone's server set (evil.l1., one server =
// the lab's scripted socket) with rs.level = 2 or 3 and qnameMinLevel 0 / 3 / 4 / 5 for a 4- or 5-label name below
// it.  The socket answers the FIRST question it is sent on behalf of that resolution - the minimised name when
// minimisation applies - with the scenario's hostile message and everything later with an empty NOERROR + SOA.
// NS-host address lookups go to a scripted Queryer (what they return is an input of the model; the entry on file
// for the referral's owner is read at every lookup).  Observed: the name that was asked first, how the hop ended,
// the provisional entries, the entries on file afterwards, the NEXT name the socket was asked (the same servers
// asked the next longer name = the reply was dropped; the new servers asked at the new level = the referral was
// followed), whether an Answer record of the hostile message is in what Resolve returned.
// Model: Model.minimize, Model.dispose_min, Model.deleg_apply on a DelegMin / DelegMsg event (Coq: CaseMinHop).

import (
	"context"
	"errors"
	"fmt"
	"math/rand"
	"strings"
	"sync"
	"time"

	"github.com/miekg/dns"
	"github.com/semihalev/sdns/internal/authority"
	"github.com/semihalev/sdns/internal/mock"
	"github.com/semihalev/sdns/middleware"
)

func vC07MinimizeCases(r *rand.Rand, cnt int, emit func(map[string]any)) {
	one := func(kind string, qml int, nomin bool, level int, qn vC07Name) {
		res := &Resolver{qnameMinLevel: qml}
		req := new(dns.Msg)
		req.SetQuestion(qn.String(), dns.TypeA)
		out, minimized := res.minimize(req, level, nomin)
		obs, od := "None", "the request as it is"
		goFail := ""
		if minimized {
			on := vC07Parse(out.Question[0].Name)
			obs, od = "(Some "+on.coq()+")", out.Question[0].Name
			if len(on) != level+1 || len(on) >= len(qn) || !vC07IsBelow(on, qn) {
				goFail = fmt.Sprintf("minimize(%s, level %d) asks %s", qn, level, out.Question[0].Name)
			}
			if out.Question[0].Qtype != dns.TypeA || out.Question[0].Qclass != dns.ClassINET || req.Question[0].Name != qn.String() {
				goFail = "minimize changed the type / class, or the caller's request"
			}
		} else if out != req {
			goFail = "minimize returned another request without minimising"
		}
		emit(map[string]any{"k": kind, "nontrivial": minimized || (qml > 0 && !nomin), "go_fail": goFail,
			"coq":  fmt.Sprintf("CaseMinimize %d %v %d (mk_q %s 1 1) %s", qml, nomin, level, qn.coq(), obs),
			"desc": map[string]any{"qname_min_level": qml, "nomin": nomin, "level": level, "qname": qn.String(), "asked": od}})
	}
	// exhaustive small scope around one 5-label name and the root
	for qml := 0; qml <= 6; qml++ {
		for level := 0; level <= 6; level++ {
			one("minimize-grid", qml, false, level, vC07Parse("m.b.c.evil.l1."))
		}
	}
	one("minimize-grid", 5, true, 1, vC07Parse("m.b.c.evil.l1."))
	one("minimize-grid", 5, false, 0, vC07Name{})
	for c := 0; c < cnt; c++ {
		qn := vC07RandQName(r)
		if r.Intn(3) == 0 {
			qn = vC07CaseMix(r, qn)
		}
		one("minimize", r.Intn(7), r.Intn(6) == 0, r.Intn(len(qn)+2), qn)
	}
}

type vC07MinScenario struct {
	tag    string
	qml    int
	level  int
	qname  vC07Name
	attack vC07Attack
	world  map[string][]vC07RRSpec // NS-host address lookups that have an answer
	hosts  []string                // keys of world in generation order
}

func vC07LabMinHop(l *vC07Lab, r *rand.Rand, cnt int, scratch string, emit func(map[string]any)) {
	hostAll, hostExt := vC07HostAddrs()
	localCoq := vC07CoqIPList(hostAll)
	in := uint16(dns.ClassINET)
	auth := vC07N(vC07Evil)
	evilIP, rogueIP := []byte{192, 0, 2, 66}, []byte{192, 0, 2, 99}
	a := func(owner vC07Name, ip []byte) vC07RRSpec {
		return vC07RRSpec{owner: owner, rrtype: dns.TypeA, class: in, ttl: 300, ip: ip}
	}
	ns := func(owner, target vC07Name) vC07RRSpec {
		return vC07RRSpec{owner: owner, rrtype: dns.TypeNS, class: in, ttl: 300, target: target}
	}
	sub := func(label string, n vC07Name) vC07Name { return append(vC07Name{label}, n...) }
	rcodes := []int{dns.RcodeSuccess, dns.RcodeSuccess, dns.RcodeNameError, dns.RcodeRefused, dns.RcodeServerFailure}

	gen := func(c int) vC07MinScenario {
		sc := vC07MinScenario{world: map[string][]vC07RRSpec{}}
		// every label below the zone is unique to the scenario: a straggler of an earlier scenario's fan-out that
		// reaches the shared socket late is not mistaken for a question of this one
		sc.qname = vC07Name{fmt.Sprintf("m%d", c), fmt.Sprintf("b%d", c), fmt.Sprintf("c%d", c), "evil", "l1"}
		if c%5 == 4 {
			sc.qname = vC07Name{fmt.Sprintf("m%d", c), fmt.Sprintf("c%d", c), "evil", "l1"}
		}
		sc.qml = []int{5, 4, 3, 5, 0, 5, 4}[c%7]
		sc.level = 2
		if c%6 == 5 {
			sc.level = 3 // a minimisation step already happened at these servers
		}
		minimised := sc.qml > sc.level && sc.level+1 < len(sc.qname)
		hop := sc.qname
		if minimised {
			hop = vC07Name(sc.qname[len(sc.qname)-sc.level-1:])
		}
		dk := sc.level + 2 // one label below the hop, still an ancestor of the name (or the name itself)
		if dk > len(sc.qname) {
			dk = len(sc.qname)
		}
		deeper := vC07Name(sc.qname[len(sc.qname)-dk:])
		kind := r.Intn(18)
		if !minimised && kind < 6 {
			kind = 6 + r.Intn(12) // a full-question hop: only messages without an Answer section, with an Authority section
		}
		sc.attack.rcode = rcodes[r.Intn(len(rcodes))]
		referral := func(owner vC07Name, tag string) {
			sc.tag = tag
			h1, h2 := sub("ns1", owner), sub("ns2", owner)
			sc.attack.ns = []vC07RRSpec{ns(owner, h1), ns(owner, h2)}
			switch r.Intn(6) {
			case 0: // no glue at all, nothing resolves
			case 1: // no glue, one host resolves
				sc.world[strings.ToLower(h2.String())] = []vC07RRSpec{a(h2, evilIP)}
			case 2: // glue for one host, the other is looked up (a provisional entry is published)
				sc.attack.extra = []vC07RRSpec{a(h1, evilIP)}
				sc.world[strings.ToLower(h2.String())] = []vC07RRSpec{a(h2, rogueIP), a(vC07N("www.victim.l2."), []byte{6, 6, 6, 70})}
			case 3: // unusable glue only: loopback and, where the host has one, its own address
				sc.attack.extra = []vC07RRSpec{a(h1, []byte{127, 0, 0, 53})}
				if len(hostExt) > 0 && hostExt[0].To4() != nil {
					sc.attack.extra = append(sc.attack.extra, a(h2, hostExt[0].To4()))
				}
			case 4: // an out-of-zone host with rogue glue next to an in-zone one
				h3 := vC07N("ns.victim.l2.")
				sc.attack.ns = append(sc.attack.ns, ns(vC07CaseMix(r, owner), h3))
				sc.attack.extra = []vC07RRSpec{a(h3, rogueIP), a(h1, evilIP), a(vC07N("ns.bank.l1."), rogueIP)}
			default:
				sc.attack.extra = []vC07RRSpec{a(vC07CaseMix(r, h1), evilIP), a(h2, rogueIP)}
			}
			for k := range sc.world {
				sc.hosts = append(sc.hosts, k)
			}
		}
		switch kind {
		case 0:
			sc.tag = "answer-own"
			sc.attack.answer = []vC07RRSpec{a(hop, []byte{198, 51, 100, 70})}
		case 1:
			sc.tag = "answer-cname-out-tail"
			sc.attack.answer = []vC07RRSpec{{owner: hop, rrtype: dns.TypeCNAME, class: in, ttl: 300, target: vC07N("www.victim.l2.")}, a(vC07N("www.victim.l2."), []byte{6, 6, 6, 61})}
		case 2:
			sc.tag = "answer-foreign"
			sc.attack.answer = []vC07RRSpec{a(vC07N("www.victim.l2."), []byte{6, 6, 6, 62}), a(vC07N("www.bank.l1."), []byte{6, 6, 6, 63})}
		case 3:
			sc.tag = "answer-for-the-full-name"
			sc.attack.answer = []vC07RRSpec{a(sc.qname, []byte{6, 6, 6, 64})}
		case 4:
			sc.tag = "answer+referral"
			sc.attack.answer = []vC07RRSpec{a(hop, []byte{198, 51, 100, 71})}
			sc.attack.ns = []vC07RRSpec{ns(vC07N("victim.l2."), vC07N("ns1.evil.l1."))}
			sc.attack.extra = []vC07RRSpec{a(vC07N("ns1.evil.l1."), rogueIP)}
		case 5:
			sc.tag = "empty"
		case 6:
			sc.tag = "soa"
			sc.attack.ns = []vC07RRSpec{{owner: auth, rrtype: dns.TypeSOA, class: in, ttl: 30}}
			if r.Intn(2) == 0 {
				sc.tag = "soa+ns"
				sc.attack.ns = append(sc.attack.ns, ns(hop, sub("ns1", hop)))
				sc.attack.extra = []vC07RRSpec{a(sub("ns1", hop), rogueIP)}
			}
		case 7:
			sc.tag = "cname-in-authority+ns"
			sc.attack.ns = []vC07RRSpec{ns(hop, sub("ns1", hop)), {owner: hop, rrtype: dns.TypeCNAME, class: in, ttl: 300, target: vC07N("www.victim.l2.")}}
			sc.attack.extra = []vC07RRSpec{a(sub("ns1", hop), rogueIP)}
		case 8:
			sc.tag = "authority-without-ns"
			sc.attack.ns = []vC07RRSpec{a(vC07N("www.victim.l2."), []byte{6, 6, 6, 65}), {owner: hop, rrtype: dns.TypeTXT, class: in, ttl: 30}}
		case 9, 10, 11:
			referral(hop, "referral-hop")
		case 12, 13:
			referral(deeper, "referral-below-hop")
		case 14:
			referral(append(vC07Name{}, auth...), "referral-self")
		case 15:
			referral(vC07N("victim.l2."), "referral-sideways")
		case 16:
			referral(vC07Name{fmt.Sprintf("cousin%d", c), "evil", "l1"}, "referral-cousin")
		default:
			referral(vC07N("l1."), "referral-upward")
		}
		if !minimised {
			sc.tag = "full-" + sc.tag
		}
		return sc
	}

	for c := 0; c < cnt; c++ {
		sc := gen(c)
		p := l.newPipe(sc.qml, scratch)
		res := p.h.resolver
		dq := &vC07DelegQueryer{world: map[string][]dns.RR{}}
		var ansCoq []string
		for _, hk := range sc.hosts {
			dq.world[hk] = vC07RRs(sc.world[hk])
			ansCoq = append(ansCoq, fmt.Sprintf("(%s, %s)", vC07Parse(hk).coq(), vC07CoqRRs(sc.world[hk])))
		}
		var qr middleware.Queryer = dq
		res.queryer.Store(&qr)

		// the NS set as processDelegation will see it
		first := vC07Name(nil)
		var hostList []string
		hostSeen := map[string]bool{}
		var probeNames []vC07Name
		for _, s := range sc.attack.ns {
			if s.rrtype != dns.TypeNS {
				continue
			}
			dup := false
			for _, pn := range probeNames {
				dup = dup || strings.EqualFold(pn.String(), s.owner.String())
			}
			if !dup {
				probeNames = append(probeNames, vC07Parse(strings.ToLower(s.owner.String())))
			}
			if first == nil {
				first = s.owner
			}
			if strings.EqualFold(s.owner.String(), first.String()) && s.class == vC07Ns0Class(sc.attack.ns) {
				hk := strings.ToLower(s.target.String())
				if !hostSeen[hk] {
					hostSeen[hk] = true
					hostList = append(hostList, hk)
				}
			}
		}
		var orderNames []vC07Name
		for _, h := range vC07HostOrder(hostList, first) {
			orderNames = append(orderNames, vC07Parse(h))
		}
		var snaps []*vC07DelegSnap
		dq.probe = func() {
			if first != nil {
				if s := vC07DelegGet(res, first.String()); s != nil {
					snaps = append(snaps, s)
				}
			}
		}

		amsg := sc.attack.msg()
		var mu sync.Mutex
		var seq []string
		subtree := strings.ToLower(vC07Name(sc.qname[len(sc.qname)-3:]).String()) // c<k>.evil.l1.
		l.evil.setHandle(func(q dns.Question) *dns.Msg {
			name := strings.ToLower(q.Name)
			if dns.IsSubDomain(subtree, name) && !strings.HasPrefix(name, "ns") {
				mu.Lock()
				seq = append(seq, name)
				firstQ := len(seq) == 1
				mu.Unlock()
				if firstQ {
					return amsg
				}
				return vC07SoftNeg(vC07Evil, false)
			}
			return l.honestEvil(q)
		})
		req := new(dns.Msg)
		req.SetQuestion(sc.qname.String(), dns.TypeA)
		req.CheckingDisabled = true
		servers := &authority.Servers{Zone: vC07Evil, List: []*authority.Server{authority.NewServer(vC07AddrEvil+":53", authority.IPv4)}}
		ctx, cancel := context.WithTimeout(context.Background(), 8*time.Second)
		out, err := res.Resolve(ctx, req, servers, false, 30, sc.level, false, nil)
		cancel()
		dq.probe = nil
		l.evil.setHandle(l.honestEvil)
		l.drainAsked()
		mu.Lock()
		asked := append([]string{}, seq...)
		mu.Unlock()

		var entry *vC07DelegSnap
		if first != nil {
			entry = vC07DelegGet(res, first.String())
		}
		var prCoq, prDesc []string
		goFail := ""
		for _, pn := range probeNames {
			s := vC07DelegGet(res, pn.String())
			if s == nil {
				prCoq = append(prCoq, fmt.Sprintf("(%s, None)", pn.coq()))
				continue
			}
			prCoq = append(prCoq, fmt.Sprintf("(%s, Some %s)", pn.coq(), s.coq))
			prDesc = append(prDesc, pn.String()+": "+s.String())
			if !strings.EqualFold(s.zone, pn.String()) || !vC07IsBelow(pn, sc.qname) || !vC07IsBelow(auth, pn) || len(pn) <= len(auth) {
				goFail = fmt.Sprintf("after the hop the delegation cache holds %s (zone label %q) - sent by the servers of %s while resolving %s", pn, s.zone, vC07Evil, sc.qname)
			}
		}
		p.close()
		if len(asked) == 0 {
			emit(map[string]any{"k": "hop-" + sc.tag, "inconclusive": true, "desc": "the scripted server was not asked (loopback hiccup): " + fmt.Sprint(err)})
			continue
		}
		sent, sentCoq := asked[0], "None"
		minimised := !strings.EqualFold(sent, sc.qname.String())
		if minimised {
			sentCoq = "(Some " + vC07Parse(sent).coq() + ")"
		}
		next, nextCoq := "", "None"
		if len(asked) > 1 {
			next, nextCoq = asked[1], "(Some "+vC07Parse(asked[1]).coq()+")"
		}
		cls := 0
		switch {
		case errors.Is(err, errParentDetection) && out == nil:
			cls = 1
		case errors.Is(err, errParentDetection):
			cls = 2
		case errors.Is(err, errNoReachableAuth):
			cls = 4
		case entry != nil:
			cls = 3
		case next != "":
			cls = 5
		}
		relayed := false
		if out != nil {
			for _, rr := range out.Answer {
				for _, sp := range sc.attack.answer {
					if vC07Ident(rr) == vC07Ident(sp.rr()) {
						relayed = true
						goFail = fmt.Sprintf("the reply to the question %s, which the client never asked, put %s into the result for %s", sent, vC07Ident(rr), sc.qname)
					}
				}
			}
		}
		var snapCoq, snapDesc []string
		for _, s := range snaps {
			snapCoq = append(snapCoq, s.coq)
			snapDesc = append(snapDesc, s.String())
			if !strings.EqualFold(s.zone, first.String()) {
				goFail = fmt.Sprintf("provisional entry for %s with zone label %q", first, s.zone)
			}
		}
		ctor := "DelegMsg"
		if minimised {
			ctor = "DelegMin"
		}
		evCoq := fmt.Sprintf("(%s %s %d (mk_q %s 1 1) %s %s [%s])", ctor, auth.coq(), sc.level, sc.qname.coq(), sc.attack.coq(), vC07CoqNames(orderNames), strings.Join(ansCoq, ";"))
		emit(map[string]any{
			"k": "hop-" + sc.tag, "nontrivial": true, "go_fail": goFail,
			"coq": fmt.Sprintf("CaseMinHop %s %d %s %s %d [%s] [%s] %s %v", localCoq, sc.qml, evCoq, sentCoq, cls, strings.Join(snapCoq, ";"), strings.Join(prCoq, ";"), nextCoq, relayed),
			"desc": map[string]any{"zone": vC07Evil, "level": sc.level, "qname_min_level": sc.qml, "question": sc.qname.String(), "asked_first": sent,
				"sent_rcode": dns.RcodeToString[sc.attack.rcode], "sent_answer": vC07DescRRs(sc.attack.answer), "sent_authority": vC07DescRRs(sc.attack.ns), "sent_additional": vC07DescRRs(sc.attack.extra),
				"address_lookups": dq.asked, "asked_afterwards": asked[1:], "resolve_error": fmt.Sprint(err), "result_answer": func() []string {
					if out == nil {
						return nil
					}
					return vC07RRStrings(out.Answer)
				}(),
				"ended":                    []string{"message handed back (Resolver.authority)", "referral rejected", "parent detection", "referral followed", "no reachable server", "dropped: the same servers were asked the next name"}[cls],
				"provisional_entries_seen": snapDesc, "on_file_afterwards": prDesc},
		})
	}
}

// ask with an OPT record (edns 1), with DO (2) or without (0), and the CD bit
func (p *vC07Pipe) askFlags(name string, qtype uint16, edns int, cd bool) *dns.Msg {
	req := new(dns.Msg)
	req.SetQuestion(name, qtype)
	req.CheckingDisabled = cd
	if edns > 0 {
		req.SetEdns0(1232, edns == 2)
	}
	w := mock.NewWriter("udp", "127.0.0.1:0")
	ch := middleware.NewChain([]middleware.Handler{p.cm, p.h})
	ch.Reset(w, req)
	ctx, cancel := context.WithTimeout(context.Background(), 8*time.Second)
	defer cancel()
	ch.Next(ctx)
	if !w.Written() {
		return nil
	}
	return w.Msg()
}

// lab section "sections": what is left of the Authority and Additional sections of a POSITIVE answer by the time it
// reaches the client (Resolver.answer -> clearAdditional, then the cache), first reply and the reply served from the
// cache entry.  The attacker's server answers its own name with the RRset - signed or not, the signature's Labels field
// equal to, smaller than or larger than the owner's label count - and fills Authority / Additional with records of
// every kind owned by its own and by other zones' names; the client asks with and without OPT / DO / CD.
func vC07LabSections(l *vC07Lab, r *rand.Rand, cnt int, scratch string, emit func(map[string]any)) {
	in := uint16(dns.ClassINET)
	for c := 0; c < cnt; c++ {
		qn := vC07Name{fmt.Sprintf("s%d", c), "evil", "l1"}
		qs := qn.String()
		edns, cd := []int{2, 2, 1, 0}[c%4], (c/4)%2 == 0
		var attack vC07Attack
		attack.answer = []vC07RRSpec{{owner: qn, rrtype: dns.TypeA, class: in, ttl: 300, ip: []byte{198, 51, 100, 73}}}
		tag := "unsigned"
		if c%3 != 2 {
			d := []int{-1, 0, -2, 1, -1, -9}[(c/2)%6]
			attack.answer = append(attack.answer, vC07RRSpec{owner: qn, rrtype: dns.TypeRRSIG, class: in, ttl: 300, covered: dns.TypeA, labelsDelta: d})
			tag = fmt.Sprintf("sig-labels%+d", d)
		}
		owners := []vC07Name{vC07N("victim.l2."), vC07N("www.victim.l2."), vC07N("bank.l1."), vC07N(vC07Evil), qn, vC07N("l1.")}
		for i, k := 0, 2+r.Intn(5); i < k; i++ {
			s := vC07RRSpec{owner: owners[r.Intn(len(owners))], class: in, ttl: 300}
			s.rrtype = []uint16{dns.TypeNSEC, dns.TypeNSEC3, dns.TypeRRSIG, dns.TypeRRSIG, dns.TypeNS, dns.TypeSOA, dns.TypeDS}[r.Intn(7)]
			switch s.rrtype {
			case dns.TypeRRSIG:
				s.covered = []uint16{dns.TypeNSEC, dns.TypeNSEC3, dns.TypeSOA, dns.TypeNS}[r.Intn(4)]
			case dns.TypeNS:
				s.target = vC07N("ns.evil.l1.")
			}
			attack.ns = append(attack.ns, s)
		}
		attack.ns = append(attack.ns, vC07RRSpec{owner: vC07N("victim.l2."), rrtype: dns.TypeNSEC, class: in, ttl: 300},
			vC07RRSpec{owner: vC07N("victim.l2."), rrtype: dns.TypeRRSIG, class: in, ttl: 300, covered: dns.TypeNSEC})
		attack.extra = []vC07RRSpec{{owner: vC07N("www.victim.l2."), rrtype: dns.TypeA, class: in, ttl: 300, ip: []byte{6, 6, 6, 81}},
			{owner: vC07N("ns.victim.l2."), rrtype: dns.TypeA, class: in, ttl: 300, ip: vC07Rogue}}
		amsg := attack.msg()
		l.evil.setHandle(func(q dns.Question) *dns.Msg {
			if strings.EqualFold(q.Name, qs) && q.Qtype == dns.TypeA {
				return amsg
			}
			return l.honestEvil(q)
		})
		p := l.newPipe([]int{0, 3}[c%2], scratch)
		rep1 := p.askFlags(qs, dns.TypeA, edns, cd)
		rep2 := p.askFlags(qs, dns.TypeA, edns, cd)
		bad, vdesc := l.health(p)
		p.close()
		l.evil.setHandle(l.honestEvil)
		l.drainAsked()
		goFail := ""
		var left []string
		for i, rep := range []*dns.Msg{rep1, rep2} {
			if rep == nil || len(rep.Answer) == 0 {
				continue
			}
			for _, sec := range [][]dns.RR{rep.Ns, rep.Extra} {
				for _, rr := range sec {
					if rr.Header().Rrtype == dns.TypeOPT {
						continue
					}
					left = append(left, fmt.Sprintf("reply %d: %s", i+1, vC07Ident(rr)))
					if !vC07InEvil(rr.Header().Name) && !l.truth(rr) {
						goFail = fmt.Sprintf("reply %d to %s (a positive answer from the servers of %s) carries %s outside its Answer section", i+1, qs, vC07Evil, vC07Ident(rr))
					}
				}
			}
			for _, rr := range rep.Answer {
				if !l.truth(rr) {
					goFail = "reply to " + qs + " relays " + vC07Ident(rr)
				}
			}
		}
		if len(bad) > 0 {
			goFail = strings.Join(bad, "; ")
		}
		if rep1 == nil {
			emit(map[string]any{"k": "sections-" + tag, "inconclusive": true, "desc": "no reply on loopback"})
			continue
		}
		emit(map[string]any{
			"k": "labsections-" + tag, "nontrivial": true, "go_fail": goFail,
			"desc": map[string]any{"zone": vC07Evil, "question": qs, "req_edns": edns, "req_do": edns == 2, "req_cd": cd,
				"sent_answer": vC07DescRRs(attack.answer), "sent_authority": vC07DescRRs(attack.ns), "sent_additional": vC07DescRRs(attack.extra),
				"client_rcode": vC07RcodeOf(rep1), "client_reply_answer": vC07RRStrings(rep1.Answer), "left_in_authority_or_additional": left, "victim_replies": vdesc},
		})
	}
}
