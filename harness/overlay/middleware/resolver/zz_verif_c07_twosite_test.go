//go:build verif

package resolver

// C07, two sites composed: the REAL Conn.Exchange (question guard) reads scripted replies from an in-memory
// datagram connection; whatever it accepts goes - as Resolver.lookup / processDelegation do - through the REAL
// extractDelegationInfo and checkGlueRR, which takes the origin of its bailiwick test from the ACCEPTED message's
// question section.  Scripts: right / wrong ID, every rcode, the question echoed, case-mixed, foreign or missing,
// referrals for the asked zone's child or for a foreign zone with glue for their hosts.  The first scripts are the
// fixed pattern of seeded change C07-9 (right ID, non-zero rcode, foreign question, foreign referral + glue).

import (
	"fmt"
	"math/rand"
	"net"
	"net/netip"
	"os"
	"sort"
	"strings"
	"sync"
	"time"

	"github.com/miekg/dns"
	"github.com/semihalev/sdns/config"
	"github.com/semihalev/sdns/internal/cache"
)

type vC07TSAddr struct{}

func (vC07TSAddr) Network() string { return "verif" }
func (vC07TSAddr) String() string  { return "verif" }

// vC07TSConn is a net.PacketConn delivering one scripted datagram per Read
type vC07TSConn struct {
	mu    sync.Mutex
	reads [][]byte
	idx   int
}

func (c *vC07TSConn) Read(p []byte) (int, error) {
	c.mu.Lock()
	defer c.mu.Unlock()
	if c.idx >= len(c.reads) {
		return 0, os.ErrDeadlineExceeded
	}
	b := c.reads[c.idx]
	c.idx++
	return copy(p, b), nil
}
func (c *vC07TSConn) Write(p []byte) (int, error)        { return len(p), nil }
func (c *vC07TSConn) Close() error                       { return nil }
func (c *vC07TSConn) LocalAddr() net.Addr                { return vC07TSAddr{} }
func (c *vC07TSConn) RemoteAddr() net.Addr               { return vC07TSAddr{} }
func (c *vC07TSConn) SetDeadline(t time.Time) error      { return nil }
func (c *vC07TSConn) SetReadDeadline(t time.Time) error  { return nil }
func (c *vC07TSConn) SetWriteDeadline(t time.Time) error { return nil }
func (c *vC07TSConn) ReadFrom(p []byte) (int, net.Addr, error) {
	n, err := c.Read(p)
	return n, vC07TSAddr{}, err
}
func (c *vC07TSConn) WriteTo(p []byte, a net.Addr) (int, error) { return len(p), nil }

type vC07TSReply struct {
	id    uint16
	rcode int
	qs    []dns.Question
	qn    []vC07Name
	ns    []vC07RRSpec
	extra []vC07RRSpec
}

func vC07TwoSiteCases(r *rand.Rand, cnt int, local []net.IP, emit func(map[string]any)) {
	localCoq := vC07CoqIPList(local)
	rcodes := []int{0, 3, 5, 2, 1, 4, 9}
	for c := 0; c < cnt; c++ {
		// the question asked of the attacker's zone and a victim zone next to it
		asked := vC07Name{fmt.Sprintf("e%d", c), "evil", "com"}
		zoneDepth := 2
		victim := vC07Name{"victim", "net"}
		if c >= len(rcodes) && r.Intn(2) == 0 {
			asked = append(vC07Name{"a"}, vC07RandQName(r)...)
			zoneDepth = len(asked) - 1
			victim, _ = vC07Relative(r, asked)
			if len(victim) == 0 {
				victim = vC07Name{"victim", "net"}
			}
		}
		level := zoneDepth
		if c >= len(rcodes) && r.Intn(4) == 0 {
			level = r.Intn(len(asked) + 1)
		}
		reqID := uint16(1 + r.Intn(65000))
		q := dns.Question{Name: asked.String(), Qtype: dns.TypeA, Qclass: dns.ClassINET}
		mkReply := func(fixed bool, rc int) vC07TSReply {
			rep := vC07TSReply{id: reqID, rcode: rc}
			kind := 2 // foreign question
			if !fixed {
				kind = r.Intn(5)
				if r.Intn(4) == 0 {
					rep.id = reqID + 1 + uint16(r.Intn(9))
				}
			}
			var qn vC07Name
			switch kind {
			case 0:
				qn = asked
			case 1:
				qn = vC07CaseMix(r, asked)
			case 2, 3:
				qn = append(vC07Name{"x"}, victim...)
			default:
				qn = nil
			}
			if kind != 4 {
				rep.qs = []dns.Question{{Name: qn.String(), Qtype: dns.TypeA, Qclass: dns.ClassINET}}
				rep.qn = []vC07Name{qn}
			}
			// the referral: for a child of the asked zone or for the victim zone, hosts inside the referred zone
			owner := append(vC07Name{"sub"}, asked[len(asked)-zoneDepth:]...)
			if fixed || r.Intn(2) == 0 {
				owner = victim
			}
			h1, h2 := append(vC07Name{"ns"}, owner...), append(vC07Name{"ns2"}, victim...)
			rep.ns = []vC07RRSpec{{owner: owner, rrtype: dns.TypeNS, class: dns.ClassINET, ttl: 300, target: h1},
				{owner: owner, rrtype: dns.TypeNS, class: dns.ClassINET, ttl: 300, target: h2}}
			rep.extra = []vC07RRSpec{{owner: h1, rrtype: dns.TypeA, class: dns.ClassINET, ttl: 300, ip: []byte{192, 0, 2, 99}},
				{owner: h2, rrtype: dns.TypeA, class: dns.ClassINET, ttl: 300, ip: []byte{192, 0, 2, 98}}}
			return rep
		}
		var script []vC07TSReply
		tag := "gen"
		if c < len(rcodes) {
			script = []vC07TSReply{mkReply(true, rcodes[c])}
			tag = "c07-9-" + strings.ToLower(dns.RcodeToString[rcodes[c]])
		} else {
			for i, n := 0, 1+r.Intn(3); i < n; i++ {
				script = append(script, mkReply(false, rcodes[r.Intn(len(rcodes))]))
			}
		}
		conn := &vC07TSConn{}
		var repCoq, repDesc []string
		for i := range script {
			// position marker (an additional-section record the glue test ignores: its owner is no NS host)
			script[i].extra = append(script[i].extra, vC07RRSpec{owner: vC07Name{"idx"}, rrtype: dns.TypeA, class: dns.ClassINET, ttl: 1, ip: []byte{10, 0, 0, byte(i)}})
			m := new(dns.Msg)
			m.Id, m.Response, m.Rcode = script[i].id, true, script[i].rcode
			m.Question = script[i].qs
			m.Ns = vC07RRs(script[i].ns)
			m.Extra = vC07RRs(script[i].extra)
			b, err := m.Pack()
			if err != nil {
				panic(err)
			}
			conn.reads = append(conn.reads, b)
			var qc []string
			for _, n := range script[i].qn {
				qc = append(qc, fmt.Sprintf("(mk_q %s 1 1)", n.coq()))
			}
			repCoq = append(repCoq, fmt.Sprintf("(mk_fmsg (mk_wmsg %d %d [%s]) (mk_umsg %d [] %s %s))", script[i].id, script[i].rcode, strings.Join(qc, ";"),
				script[i].rcode, vC07CoqRRs(script[i].ns), vC07CoqRRs(script[i].extra)))
			repDesc = append(repDesc, fmt.Sprintf("id=%d rcode=%s q=%v ns=%v glue=%v", script[i].id, dns.RcodeToString[script[i].rcode], script[i].qn, vC07DescRRs(script[i].ns), vC07DescRRs(script[i].extra[:2])))
		}
		req := new(dns.Msg)
		req.Id = reqID
		req.Question = []dns.Question{q}
		co := &Conn{Conn: conn}
		resp, _, xerr := co.Exchange(req)
		acc, goFail := "None", ""
		var srv []netip.Addr
		var found []string
		if xerr == nil && resp != nil {
			idx := -1
			for _, rr := range resp.Extra {
				if a, ok := rr.(*dns.A); ok && a.Hdr.Name == "idx." {
					idx = int(a.A.To4()[3])
				}
			}
			acc = fmt.Sprintf("(Some %d%%nat)", idx)
			if len(resp.Question) != 1 || !strings.EqualFold(resp.Question[0].Name, q.Name) {
				goFail = fmt.Sprintf("accepted a reply whose question section is %v for request %s", resp.Question, q.Name)
			}
			if len(resp.Question) > 0 {
				res := &Resolver{cfg: &config.Config{IPv6Access: false}, glueV4: cache.New(64), glueV6: cache.New(64)}
				info := res.extractDelegationInfo(resp)
				auth, f4, _ := res.checkGlueRR(resp, info.hosts, level)
				for _, s := range auth.List {
					if ap, err := netip.ParseAddrPort(s.Addr); err == nil {
						srv = append(srv, ap.Addr())
					}
				}
				for k := range f4 {
					found = append(found, k)
				}
				sort.Strings(found)
				zone := "(none)"
				if level == 0 {
					zone = "."
				} else if level <= len(asked) {
					zone = vC07Name(asked[len(asked)-level:]).String()
				}
				for _, k := range found {
					if zone == "(none)" || !dns.IsSubDomain(strings.ToLower(zone), k) {
						goFail = fmt.Sprintf("glue for %s accepted while asking %s at level %d (zone %s)", k, q.Name, level, zone)
					}
				}
			}
		}
		var fn []vC07Name
		for _, k := range found {
			fn = append(fn, vC07Parse(k))
		}
		emit(map[string]any{
			"k": "twosite-" + tag,
			"coq": fmt.Sprintf("CaseExchGlue false %d (mk_q %s 1 1) [%s] false %s %d %s %s %s", reqID, asked.coq(), strings.Join(repCoq, ";"), localCoq, level,
				acc, vC07CoqAddrs(srv), vC07CoqNames(fn)),
			"nontrivial": true, "go_fail": goFail,
			"desc": map[string]any{"asked": q.Name, "req_id": reqID, "level": level, "script": repDesc, "accepted": acc, "err": fmt.Sprint(xerr),
				"glue_servers": fmt.Sprint(srv), "glue_found_for": found},
		})
	}
}
