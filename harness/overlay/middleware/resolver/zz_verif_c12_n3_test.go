//go:build verif

package resolver

// C12 driver (NSEC3 hash work): the NSEC3 denial verifiers the resolver calls while validating a negative answer or an
// insecure delegation — dnssec.VerifyNameErrorForZoneWithWork, VerifyNODATAForZoneWithWork,
// VerifyDelegationForZoneWithWork — governed by the resolver's real dnssecWorkBudget adapter over a real
// RecursionWorkLedger and the request tree's NSEC3 hash memo (dnssec.EnsureNSEC3HashMemo, as Resolver.Resolve installs it).
//
// One case = one request tree: 1..4 validations, one after the other, on ONE ledger and ONE memo.  Generated input (a
// plan, so that corpus/C12/n3.json can name one): per validation a zone (two zones, each with its own salt), a name of
// 0..5 labels below it drawn from a three-letter alphabet (so that names and ancestors repeat across the validations
// of a tree), and an NSEC3 chain built from real hashes: the names that "exist" (apex, some ancestors, the name itself,
// wildcards, filler names) sorted by hash and linked; then damaged at random: records dropped (names neither matched
// nor covered), an extra record with an arbitrary interval (overlaps: ambiguous lookups), Opt-Out bits, type bitmaps
// from a palette (NS without SOA, DNAME, DS, CNAME, the question's type), iterations 0..150 and above the cap, another
// hash algorithm, undefined flags, a record with other parameters (mixed set).  Budgets (NSEC3 hashes per tree) are
// small and random or the default; mode is enforce or shadow; a quarter of the trees carry no memo.
// Observed: every verdict, the ledger (NSEC3-hash counter, exhaustion bit, first latched kind).  The case gives the
// shape in PROCESSING order, computed here independently of the code under test: the suffixes of the name (root
// excluded) longest first, for each what the record set says about it and about the wildcard below it — hashes by
// miekg's dns.HashName. What a lookup of a name finds in the record set is NOT computed here (wave 9): the case carries
// the usable records (owner / next digest, Opt-Out, type bitmap) and each name's digest, and the model decides match /
// cover / ambiguity with the srcgen translations of dnssec.aggressiveNSEC3Covers and dnssec.typesSet.

import (
	"bytes"
	"context"
	"encoding/base32"
	"encoding/json"
	"errors"
	"fmt"
	"math/rand"
	"os"
	"sort"
	"strconv"
	"strings"
	"testing"

	"github.com/miekg/dns"
	"github.com/semihalev/sdns/middleware"
	"github.com/semihalev/sdns/middleware/resolver/dnssec"
)

type vC12N3Proof struct {
	Kind   int      `json:"kind"`   // 0 NXDOMAIN, 1 NODATA, 2 delegation, 3 wildcard answer
	SigLab int      `json:"siglabels"` // kind 3: the Labels field of the wildcard-expanded RRSIG (labels of the closest encloser)
	DS     bool     `json:"ds"`     // NODATA: the question is a DS question
	Zone   int      `json:"zone"`   // 0 or 1
	Labels []string `json:"labels"` // labels of the name below the zone, leftmost first
	Halg   int      `json:"halg"`   // 1 = SHA-1
	Flags  int      `json:"flags"`  // 0: records carry 0 or 1 (Opt-Out); >= 2: every record carries this value
	Iter   int      `json:"iter"`
	Mixed  bool     `json:"mixed"`
	Exist  []string `json:"exist"` // owner names (relative to the zone, "" = apex) that have a record; "name|types|optout"
	Drop   []int    `json:"drop"`  // indices (into the sorted chain) of records left out of the response
	Extra  []string `json:"extra"` // extra records: "ownerseed|nextseed|optout"
	NoSig  bool     `json:"nosigner"`
}

type vC12N3Plan struct {
	Mode   int           `json:"mode"` // 1 shadow, 2 enforce
	H      uint32        `json:"H"`
	Memo   bool          `json:"memo"`
	Proofs []vC12N3Proof `json:"proofs"`
}

var vC12N3Zones = []string{"z0.test.", "sub.z1.test."}
var vC12N3Salts = []string{"", "ab12"}

var vC12N3TypeSets = map[string][]uint16{
	"a":     {dns.TypeA, dns.TypeRRSIG},
	"apex":  {dns.TypeNS, dns.TypeSOA, dns.TypeRRSIG, dns.TypeDNSKEY, dns.TypeNSEC3PARAM},
	"ns":    {dns.TypeNS},
	"nsds":  {dns.TypeNS, dns.TypeDS, dns.TypeRRSIG},
	"dname": {dns.TypeDNAME, dns.TypeRRSIG},
	"cname": {dns.TypeCNAME, dns.TypeRRSIG},
	"txt":   {dns.TypeTXT, dns.TypeRRSIG},
	"ds":    {dns.TypeDS, dns.TypeRRSIG},
	"empty": {},
}

func vC12N3RandProof(r *rand.Rand) vC12N3Proof {
	p := vC12N3Proof{Kind: r.Intn(4), Zone: r.Intn(2), Halg: 1}
	if p.Kind == 1 {
		p.DS = r.Intn(3) == 0
	}
	for n := r.Intn(6); n > 0; n-- {
		p.Labels = append(p.Labels, string(rune('a'+r.Intn(3))))
	}
	if p.Kind == 3 {
		// the owner of a wildcard-expanded RRSIG has more labels than its Labels field says: the closest encloser is
		// usually between the apex and the owner's parent, now and then at or above the apex (a malformed count)
		if len(p.Labels) == 0 {
			p.Labels = []string{string(rune('a' + r.Intn(3)))}
		}
		zl := len(dns.SplitDomainName(vC12N3Zones[p.Zone]))
		p.SigLab = zl + r.Intn(len(p.Labels))
		if r.Intn(8) == 0 {
			p.SigLab = r.Intn(zl)
		}
	}
	switch x := r.Intn(20); {
	case x < 8:
		p.Iter = 0
	case x < 12:
		p.Iter = 1 + r.Intn(10)
	case x < 15:
		p.Iter = 150
	case x < 16:
		p.Iter = 151
	case x < 17:
		p.Iter = []int{500, 2500, 65535}[r.Intn(3)]
	default:
		p.Iter = r.Intn(151)
	}
	// half of the validations are left undamaged: a complete chain, usable parameters
	clean := r.Intn(2) == 0
	if !clean && r.Intn(25) == 0 {
		p.Halg = 2
	}
	if !clean && r.Intn(25) == 0 {
		p.Flags = []int{2, 128, 255}[r.Intn(3)]
	}
	p.Mixed = !clean && r.Intn(20) == 0
	p.NoSig = r.Intn(5) == 0
	tset := func(apex bool) string {
		if apex && r.Intn(6) != 0 {
			return "apex"
		}
		return []string{"a", "a", "a", "txt", "ns", "ns", "nsds", "dname", "cname", "ds", "empty", "apex"}[r.Intn(12)]
	}
	oo := func() string {
		if r.Intn(3) == 0 {
			return "1"
		}
		return "0"
	}
	seen := map[string]bool{}
	add := func(name string, apex bool) {
		if seen[name] {
			return
		}
		seen[name] = true
		p.Exist = append(p.Exist, name+"|"+tset(apex)+"|"+oo())
	}
	if clean || r.Intn(8) != 0 {
		add("", true)
	}
	// the closest encloser is usually somewhere on the way up; deep names with nothing on the way cost the most
	sparse := r.Intn(3) == 0
	for i := 0; i <= len(p.Labels); i++ {
		rel := strings.Join(p.Labels[i:], ".")
		pr := 3
		if i == 0 {
			pr = 4
		}
		if sparse {
			pr = 12
		}
		if i < len(p.Labels) && r.Intn(pr) == 0 {
			add(rel, false)
		}
		if r.Intn(4) == 0 {
			w := "*"
			if rel != "" {
				w = "*." + rel
			}
			add(w, false)
		}
	}
	for n := r.Intn(4); n > 0; n-- {
		add(fmt.Sprintf("f%d", r.Intn(50)), false)
	}
	if len(p.Exist) == 0 {
		add("", true)
	}
	for i := range p.Exist {
		if !clean && len(p.Exist)-len(p.Drop) > 1 && r.Intn(7) == 0 {
			p.Drop = append(p.Drop, i)
		}
	}
	if !clean && r.Intn(6) == 0 {
		p.Extra = append(p.Extra, fmt.Sprintf("x%d|y%d|%s", r.Intn(1000), r.Intn(1000), oo()))
	}
	return p
}

func vC12N3RandPlan(r *rand.Rand) vC12N3Plan {
	p := vC12N3Plan{Mode: 2, H: uint32(1 + r.Intn(12)), Memo: r.Intn(4) != 0}
	if r.Intn(4) == 0 {
		p.Mode = 1
	}
	if r.Intn(5) == 0 {
		p.H = 32
	}
	for n := 1 + r.Intn(4); n > 0; n-- {
		p.Proofs = append(p.Proofs, vC12N3RandProof(r))
	}
	// the same validation twice in one tree: the second is paid by the memo
	if r.Intn(4) == 0 {
		p.Proofs = append(p.Proofs, p.Proofs[r.Intn(len(p.Proofs))])
	}
	return p
}

type vC12N3Rec struct {
	owner, next []byte
	optout      bool
	types       []uint16
}

func vC12N3Hash(name string, halg uint8, iter int, salt string) []byte {
	// ground truth: miekg's implementation (SHA-1 only; for another algorithm the records are never used)
	h := dns.HashName(name, dns.SHA1, uint16(iter), salt)
	raw, err := base32.HexEncoding.DecodeString(strings.ToUpper(h))
	if err != nil || len(raw) != 20 {
		panic("vC12N3Hash: " + name)
	}
	_ = halg
	return raw
}

func TestVerifC12N3(t *testing.T) {
	path := os.Getenv("VERIF_OUT")
	if path == "" {
		t.Skip("VERIF_OUT not set")
	}
	f, err := os.Create(path)
	if err != nil {
		t.Fatal(err)
	}
	defer f.Close()
	seed, _ := strconv.Atoi(os.Getenv("VERIF_SEED"))
	n, _ := strconv.Atoi(os.Getenv("VERIF_N"))
	if n == 0 {
		n = 150
	}
	r := rand.New(rand.NewSource(int64(seed)*15485863 + 12))
	var plans []vC12N3Plan
	if dir := os.Getenv("VERIF_CORPUS"); dir != "" {
		if b, err := os.ReadFile(dir + "/n3.json"); err == nil {
			_ = json.Unmarshal(b, &plans)
		}
	}
	for c := 0; c < n+len(plans); c++ {
		var plan vC12N3Plan
		if c < len(plans) {
			plan = plans[c]
			ok := plan.H > 0 && len(plan.Proofs) > 0 && len(plan.Proofs) <= 8
			for _, p := range plan.Proofs {
				ok = ok && p.Zone >= 0 && p.Zone < 2 && p.Kind >= 0 && p.Kind <= 3 && (p.Kind != 3 || (p.SigLab >= 0 && p.SigLab < len(p.Labels)+len(dns.SplitDomainName(vC12N3Zones[p.Zone&1])))) && len(p.Labels) <= 8 && len(p.Exist) > 0 &&
					p.Iter >= 0 && p.Iter <= 65535 && p.Halg >= 0 && p.Halg <= 255 && p.Flags >= 0 && p.Flags <= 255
			}
			if !ok {
				continue
			}
		} else {
			plan = vC12N3RandPlan(r)
		}
		mode := middleware.RecursionWorkEnforce
		if plan.Mode == 1 {
			mode = middleware.RecursionWorkShadow
		}
		pol := middleware.RecursionWorkPolicy{Mode: mode, MaxOutboundQueries: 128, MaxInternalQueries: 32, MaxDNSKEYCandidates: 4,
			MaxRRsetSignatureChecks: 8, MaxSignatureChecks: 32, MaxDSDigests: 32, MaxNSEC3Hashes: plan.H, MaxConcurrentCrypto: 32}
		ledger := middleware.NewRecursionWorkLedger(pol)
		ctx := middleware.WithRecursionWork(context.Background(), ledger)
		if plan.Memo {
			ctx = dnssec.EnsureNSEC3HashMemo(ctx)
		}
		work := (&Resolver{}).dnssecWork(ctx)

		ids := map[string]int{}
		idOf := func(key string) int {
			if id, ok := ids[key]; ok {
				return id
			}
			ids[key] = len(ids)
			return ids[key]
		}
		var shapes, verdicts []string
		var descs []map[string]any
		goFail := ""
		anyWork := false
		prefixClash := false
		for _, p := range plan.Proofs {
			zone, salt := vC12N3Zones[p.Zone], vC12N3Salts[p.Zone]
			qname := zone
			if len(p.Labels) > 0 {
				qname = strings.Join(p.Labels, ".") + "." + zone
			}
			qtype := dns.TypeA
			if p.Kind == 1 && p.DS {
				qtype = dns.TypeDS
			}
			// ---- the record set
			var chain []vC12N3Rec
			for _, e := range p.Exist {
				parts := strings.Split(e, "|")
				if len(parts) != 3 {
					continue
				}
				name := zone
				if parts[0] != "" {
					name = parts[0] + "." + zone
				}
				chain = append(chain, vC12N3Rec{owner: vC12N3Hash(name, 1, p.Iter, salt), optout: parts[2] == "1", types: vC12N3TypeSets[parts[1]]})
			}
			sort.Slice(chain, func(i, j int) bool { return bytes.Compare(chain[i].owner, chain[j].owner) < 0 })
			// equal owner hashes (the same name listed twice): keep one
			uniq := chain[:0]
			for i, rec := range chain {
				if i > 0 && bytes.Equal(rec.owner, chain[i-1].owner) {
					continue
				}
				uniq = append(uniq, rec)
			}
			chain = uniq
			for i := range chain {
				chain[i].next = chain[(i+1)%len(chain)].owner
			}
			dropped := map[int]bool{}
			for _, d := range p.Drop {
				dropped[d] = true
			}
			var recs []vC12N3Rec
			for i, rec := range chain {
				if dropped[i] && len(chain)-len(dropped) >= 1 {
					continue
				}
				recs = append(recs, rec)
			}
			if len(recs) == 0 {
				recs = append(recs, chain[0])
			}
			for _, e := range p.Extra {
				parts := strings.Split(e, "|")
				if len(parts) != 3 {
					continue
				}
				o := vC12N3Hash(parts[0]+"."+zone, 1, p.Iter, salt)
				dup := false
				for _, rec := range recs {
					dup = dup || bytes.Equal(rec.owner, o)
				}
				if !dup {
					recs = append(recs, vC12N3Rec{owner: o, next: vC12N3Hash(parts[1]+"."+zone, 1, p.Iter, salt), optout: parts[2] == "1", types: vC12N3TypeSets["a"]})
				}
			}
			mk := func(rec vC12N3Rec, iter int, salt string) *dns.NSEC3 {
				flags := uint8(0)
				if rec.optout {
					flags = 1
				}
				if p.Flags >= 2 {
					flags = uint8(p.Flags)
				}
				types := append([]uint16(nil), rec.types...)
				sort.Slice(types, func(i, j int) bool { return types[i] < types[j] })
				return &dns.NSEC3{
					Hdr:  dns.RR_Header{Name: strings.ToLower(base32.HexEncoding.EncodeToString(rec.owner)) + "." + zone, Rrtype: dns.TypeNSEC3, Class: dns.ClassINET, Ttl: 300},
					Hash: uint8(p.Halg), Flags: flags, Iterations: uint16(iter), SaltLength: uint8(len(salt) / 2), Salt: salt,
					HashLength: 20, NextDomain: base32.HexEncoding.EncodeToString(rec.next), TypeBitMap: types,
				}
			}
			var set []dns.RR
			for _, rec := range recs {
				set = append(set, mk(rec, p.Iter, salt))
			}
			if p.Mixed {
				// another parameter tuple on a record that is usable exactly when the others are
				other := p.Iter + 1
				if (p.Iter >= 1 && p.Iter <= 150) || p.Iter >= 65535 {
					other = p.Iter - 1 // (65535 + 1 would wrap to 0, a usable record)
				}
				set = append(set, mk(vC12N3Rec{owner: vC12N3Hash("mixed."+zone, 1, other, salt), next: vC12N3Hash("mixed2."+zone, 1, other, salt), types: vC12N3TypeSets["a"]}, other, salt))
			}
			r.Shuffle(len(set), func(i, j int) { set[i], set[j] = set[j], set[i] })

			// ---- the shape in processing order, computed independently of the code under test
			zoneLabels := dns.SplitDomainName(zone)
			// digests are handed over by their first six octets (order and equality are those of the whole digests as long as
			// distinct digests differ within them; checked below)
			full := map[string]string{}
			clash := false
			pref := func(h []byte) uint64 {
				v := uint64(0)
				for _, b := range h[:6] {
					v = v<<8 | uint64(b)
				}
				key := fmt.Sprint(v)
				if prev, ok := full[key]; ok && prev != string(h) {
					clash = true
				}
				full[key] = string(h)
				return v
			}
			describe := func(name string) string {
				labels := dns.SplitDomainName(name)
				inz := len(labels) >= len(zoneLabels)
				for i := 1; inz && i <= len(zoneLabels); i++ {
					inz = strings.EqualFold(labels[len(labels)-i], zoneLabels[len(zoneLabels)-i])
				}
				id := idOf(fmt.Sprintf("%d|%d|%s|%s|%s", p.Halg, p.Iter, salt, zone, strings.ToLower(name)))
				h := uint64(0)
				if inz {
					h = pref(vC12N3Hash(name, 1, p.Iter, salt))
				}
				return fmt.Sprintf("(%d%%nat,%s,%d)", id, vC12Flag(inz), h)
			}
			var ring []string
			for _, rec := range recs {
				var ts []string
				for _, t := range rec.types {
					ts = append(ts, fmt.Sprint(t))
				}
				ring = append(ring, fmt.Sprintf("(%d,%d,%s,[%s])", pref(rec.owner), pref(rec.next), vC12Flag(rec.optout), strings.Join(ts, ";")))
			}
			var sufs []string
			labels := dns.SplitDomainName(qname)
			for i := range labels {
				s := strings.Join(labels[i:], ".") + "."
				sufs = append(sufs, fmt.Sprintf("(%s,%s)", describe(s), describe("*."+s)))
			}
			if p.Kind == 3 {
				// the wildcard-answer check asks about one name only: the owner cut to Labels + 1 labels
				nc := strings.Join(labels[len(labels)-(p.SigLab+1):], ".") + "."
				sufs = []string{fmt.Sprintf("(%s,%s)", describe(nc), describe("*."+nc))}
			}
			shapes = append(shapes, fmt.Sprintf("(%d,%s,(%d,%d,%d),%s,%d,[%s],[%s])", p.Kind, vC12Flag(p.Kind == 1 && p.DS), p.Halg, p.Flags, p.Iter,
				vC12Flag(p.Mixed), qtype, strings.Join(ring, ";"), strings.Join(sufs, ";")))
			if clash {
				prefixClash = true
			}

			// ---- the code under test
			signer := zone
			if p.NoSig {
				signer = ""
			}
			msg := new(dns.Msg)
			msg.SetQuestion(qname, qtype)
			var verr error
			switch p.Kind {
			case 0:
				msg.Rcode = dns.RcodeNameError
				_, verr = dnssec.VerifyNameErrorForZoneWithWork(msg, set, signer, work)
			case 1:
				_, verr = dnssec.VerifyNODATAForZoneWithWork(msg, set, signer, work)
			case 2:
				verr = dnssec.VerifyDelegationForZoneWithWork(qname, signer, set, work)
			default:
				msg.Answer = []dns.RR{
					&dns.A{Hdr: dns.RR_Header{Name: qname, Rrtype: dns.TypeA, Class: dns.ClassINET, Ttl: 300}, A: []byte{192, 0, 2, 53}},
					&dns.RRSIG{Hdr: dns.RR_Header{Name: qname, Rrtype: dns.TypeRRSIG, Class: dns.ClassINET, Ttl: 300}, TypeCovered: dns.TypeA,
						Algorithm: dns.ED25519, Labels: uint8(p.SigLab), OrigTtl: 300, SignerName: zone, Signature: "AA=="},
				}
				msg.Ns = set
				_, verr = dnssec.VerifyWildcardAnswerForZoneWithWork(msg, signer, work)
			}
			verdict, ekind := 0, 0
			var le *middleware.RecursionWorkLimitError
			switch {
			case verr == nil:
			case errors.As(verr, &le):
				verdict, ekind = 1, int(le.Kind)
				anyWork = true
			default:
				verdict = 2
			}
			if verdict == 0 && (p.Iter > 150 || p.Halg != 1 || p.Flags >= 2) {
				goFail = fmt.Sprintf("a proof validated on records that are not usable (hash %d, flags %d, iterations %d)", p.Halg, p.Flags, p.Iter)
			}
			verdicts = append(verdicts, fmt.Sprintf("(%d,%d)", verdict, ekind))
			descs = append(descs, map[string]any{"kind": p.Kind, "name": qname, "qtype": qtype, "zone": zone, "iterations": p.Iter, "records": len(set),
				"verdict": verdict, "limit_kind": ekind, "nsec3_hashes_so_far": ledger.Snapshot().NSEC3Hashes})
		}
		snap := ledger.Snapshot()
		exh := 0
		if snap.NSEC3HashesExhausted {
			exh = 64
		}
		first := 0
		var le *middleware.RecursionWorkLimitError
		if e := ledger.EnforcementError(); errors.As(e, &le) {
			first = int(le.Kind) + 1
		}
		if mode == middleware.RecursionWorkEnforce && snap.NSEC3Hashes > plan.H {
			goFail = fmt.Sprintf("%d NSEC3 hashes debited on a budget of %d", snap.NSEC3Hashes, plan.H)
		}
		ms := "enforce"
		if mode == middleware.RecursionWorkShadow {
			ms = "shadow"
		}
		mm := "memo"
		if !plan.Memo {
			mm = "nomemo"
		}
		pj, _ := json.Marshal(plan)
		b, _ := json.Marshal(map[string]any{
			"k": "n3-" + ms + "-" + mm,
			"inconclusive": prefixClash, // two different digests agree in their first six octets: not expressible in the case
			"coq": fmt.Sprintf("CaseN3R %d %d %s [%s] [%s] %d %d %d", mode, plan.H, vC12Flag(plan.Memo), strings.Join(shapes, ";"),
				strings.Join(verdicts, ";"), snap.NSEC3Hashes, exh, first),
			"nontrivial": anyWork || exh != 0 || snap.NSEC3Hashes >= 3,
			"go_fail":    goFail,
			"desc": map[string]any{"mode": ms, "max_nsec3_hashes": plan.H, "memo": plan.Memo, "validations": descs, "plan": string(pj),
				"nsec3_hashes": snap.NSEC3Hashes, "exhausted_bit": exh, "first": first},
		})
		f.Write(append(b, '\n'))
	}
}
