//go:build verif

package resolver

// C08 unit-level correspondence driver (overlay-injected, never committed to
// /repo): the small functions the lease calculus is made of, called directly,
// and processDelegation itself stopped by the depth budget right after its
// cache writes.
//
//   minCut / minNonZero / ResponseMeta.BoundCutFor     exact, incl. zero times and ties
//   validReferral                                      generated name triples, mixed case
//   extractDelegationInfo / minRRSetTTL                minimum TTL of the coherent RRset
//   CacheEntry.remaining / boundRequestToEntryLifetime through the verif export of package cache
//   TTLManager.Calculate as configured by cache.New    through Store.SetFromResponse
//   searchCache                                        seeded delegation cache, scripted clock
//   processDelegation                                  rs cut, pre-seeded entry, NS TTLs around 12 h,
//                                                      skewed delegation-cache clock (validation latency),
//                                                      provisional entries, fatal lookup error

import (
	"context"
	"encoding/json"
	"errors"
	"fmt"
	"math/rand"
	"net"
	"os"
	"path/filepath"
	"strings"
	"sync/atomic"
	"testing"
	"time"

	"github.com/miekg/dns"
	"github.com/semihalev/sdns/internal/authority"
	"github.com/semihalev/sdns/internal/cache"
	"github.com/semihalev/sdns/middleware"
	cachemw "github.com/semihalev/sdns/middleware/cache"
)

type vC08U struct {
	r    *rand.Rand
	o    *vC08Out
	base time.Time
	labs vC08Labels
	seq  int
	w    *vC08World
}

func (u *vC08U) at(ns int64) time.Time { return u.base.Add(time.Duration(ns)) }

// instants: a few shared values so that ties happen
func (u *vC08U) pickT() int64 {
	vals := []int64{1, 1000, int64(time.Second), 30 * int64(time.Second), int64(time.Hour), 12 * int64(time.Hour), 12*int64(time.Hour) + 1}
	if u.r.Intn(2) == 0 {
		return vals[u.r.Intn(len(vals))]
	}
	return u.r.Int63n(48 * int64(time.Hour))
}

var vC08ZoneNames = []string{"tld.", "a.tld.", "b.tld.", "s.a.tld.", "t.s.a.tld.", "other.", "x.other."}

func (u *vC08U) pickZone() string { return vC08ZoneNames[u.r.Intn(len(vC08ZoneNames))] }

func (u *vC08U) cutTerm(ok bool, t int64, zone string) string {
	if !ok {
		return "None"
	}
	return fmt.Sprintf("(Some (%s%%Z, %s))", vC08Z(t), u.labs.zone(zone))
}

func vC08KeyOf(zone string, cd bool) uint64 {
	return cache.Key(dns.Question{Name: dns.Fqdn(zone), Qtype: dns.TypeNS, Qclass: dns.ClassINET}, cd)
}

// zoneOfKey maps a delegation key back to one of the known zone names ("" -> identity 0)
func vC08ZoneOfKey(k uint64, cd bool) (string, bool) {
	if k == 0 {
		return ".", true
	}
	for _, z := range vC08ZoneNames {
		if vC08KeyOf(z, cd) == k {
			return z, true
		}
	}
	return "", false
}

func vC08MixCase(r *rand.Rand, s string) string {
	b := []byte(s)
	for i := range b {
		if r.Intn(3) == 0 && b[i] >= 'a' && b[i] <= 'z' {
			b[i] -= 32
		}
	}
	return string(b)
}

func (u *vC08U) caseMinCut() {
	aok, bok := u.r.Intn(5) != 0, u.r.Intn(5) != 0
	ta, tb := u.pickT(), u.pickT()
	if u.r.Intn(4) == 0 {
		tb = ta
	}
	za, zb := u.pickZone(), u.pickZone()
	var a, b time.Time
	var ka, kb uint64
	if aok {
		a, ka = u.at(ta), vC08KeyOf(za, true)
	}
	if bok {
		b, kb = u.at(tb), vC08KeyOf(zb, true)
	}
	got, gk := minCut(a, ka, b, kb)
	gz, known := vC08ZoneOfKey(gk, true)
	goFail := ""
	if !known {
		goFail = "minCut returned a key that is neither argument's"
	}
	res := u.cutTerm(!got.IsZero(), int64(got.Sub(u.base)), gz)
	u.o.emit(map[string]any{"k": "minCut", "go_fail": goFail, "nontrivial": aok && bok,
		"coq":  fmt.Sprintf("CaseMinCut %s %s %s", u.cutTerm(aok, ta, za), u.cutTerm(bok, tb, zb), res),
		"desc": fmt.Sprintf("minCut(%v/%d/%s, %v/%d/%s) = %v/%s", aok, ta, za, bok, tb, zb, got.Sub(u.base), gz)})

	// minNonZero on the same instants
	g2 := minNonZero(a, b)
	u.o.emit(map[string]any{"k": "minNonZero", "go_fail": "", "nontrivial": aok && bok,
		"coq":  fmt.Sprintf("CaseMinNZ %s %s %s", vC08OZ(aok, ta), vC08OZ(bok, tb), vC08OZ(!g2.IsZero(), int64(g2.Sub(u.base)))),
		"desc": fmt.Sprintf("minNonZero(%v/%d, %v/%d) = %v", aok, ta, bok, tb, g2.Sub(u.base))})
}

func (u *vC08U) caseBound() {
	var meta middleware.ResponseMeta
	n := 1 + u.r.Intn(6)
	var seq []string
	shared := u.pickT()
	for i := 0; i < n; i++ {
		ok := u.r.Intn(5) != 0
		t := u.pickT()
		if u.r.Intn(3) == 0 {
			t = shared
		}
		z := u.pickZone()
		if ok {
			meta.BoundCutFor(u.at(t), vC08KeyOf(z, true))
		} else {
			meta.BoundCutFor(time.Time{}, vC08KeyOf(z, true))
		}
		seq = append(seq, u.cutTerm(ok, t, z))
	}
	d, k := meta.Cut()
	z, known := vC08ZoneOfKey(k, true)
	goFail := ""
	if !known {
		goFail = "Cut() returned an unknown key"
	}
	if d.IsZero() && k != 0 {
		goFail = "zero deadline with non-zero key"
	}
	u.o.emit(map[string]any{"k": "boundCut", "go_fail": goFail, "nontrivial": n > 1,
		"coq":  fmt.Sprintf("CaseBound [%s] %s", strings.Join(seq, "; "), u.cutTerm(!d.IsZero(), int64(d.Sub(u.base)), z)),
		"desc": fmt.Sprintf("BoundCutFor x%d -> %v/%s", n, d.Sub(u.base), z)})
}

func (u *vC08U) caseReferral() {
	names := []string{".", "tld.", "a.tld.", "b.tld.", "s.a.tld.", "www.s.a.tld.", "www.a.tld.", "other.", "atld.", "a.tld.x."}
	ref, auth, q := names[u.r.Intn(len(names))], names[u.r.Intn(len(names))], names[u.r.Intn(len(names))]
	if u.r.Intn(2) == 0 { // mostly plausible: auth above ref above q
		chain := []string{".", "tld.", "a.tld.", "s.a.tld.", "www.s.a.tld."}
		i := u.r.Intn(4)
		j := i + u.r.Intn(len(chain)-i)
		k := j + u.r.Intn(len(chain)-j)
		auth, ref, q = chain[i], chain[j], chain[k]
	}
	class := uint16(dns.ClassINET)
	qclass := uint16(dns.ClassINET)
	incoherent := false
	switch u.r.Intn(8) {
	case 0:
		class = dns.ClassCHAOS
	case 1:
		incoherent = true
	}
	ns := &dns.NS{Hdr: dns.RR_Header{Name: vC08MixCase(u.r, ref), Rrtype: dns.TypeNS, Class: class, Ttl: 60}, Ns: "ns." + ref}
	msg := new(dns.Msg)
	msg.Ns = []dns.RR{ns}
	if incoherent {
		msg.Ns = append(msg.Ns, &dns.NS{Hdr: dns.RR_Header{Name: "zz." + ref, Rrtype: dns.TypeNS, Class: class, Ttl: 60}, Ns: "ns.zz."})
	}
	info := (&Resolver{}).extractDelegationInfo(msg)
	got := validReferral(info, vC08MixCase(u.r, auth), dns.Question{Name: vC08MixCase(u.r, q), Qtype: dns.TypeA, Qclass: qclass})
	coh := !info.incoherent && class == qclass
	u.o.emit(map[string]any{"k": "validReferral", "go_fail": "", "nontrivial": got,
		"coq":  fmt.Sprintf("CaseReferral %s %s %s %s %s", vC08B(coh), u.labs.zone(ref), u.labs.zone(auth), u.labs.zone(q), vC08B(got)),
		"desc": fmt.Sprintf("validReferral(ref=%s auth=%s q=%s coherent=%v) = %v", ref, auth, q, coh, got)})
}

func (u *vC08U) caseTTLs() {
	n := 1 + u.r.Intn(4)
	ttl := func() uint32 {
		return []uint32{0, 1, 4, 30, 300, 3600, 43200, 43201, 86400, 172800, 4294967295}[u.r.Intn(11)]
	}
	msg := new(dns.Msg)
	var ns []string
	for i := 0; i < n; i++ {
		t := ttl()
		msg.Ns = append(msg.Ns, &dns.NS{Hdr: dns.RR_Header{Name: "a.tld.", Rrtype: dns.TypeNS, Class: dns.ClassINET, Ttl: t}, Ns: fmt.Sprintf("ns%d.a.tld.", i)})
		ns = append(ns, fmt.Sprintf("%d", t))
		if u.r.Intn(4) == 0 { // foreign-owner / foreign-class records must not move the lease
			msg.Ns = append(msg.Ns, &dns.NS{Hdr: dns.RR_Header{Name: "b.tld.", Rrtype: dns.TypeNS, Class: dns.ClassINET, Ttl: 0}, Ns: "ns.b.tld."})
		}
	}
	info := (&Resolver{}).extractDelegationInfo(msg)
	m := u.r.Intn(4)
	var dsrr []dns.RR
	var ds []string
	for i := 0; i < m; i++ {
		t := ttl()
		dsrr = append(dsrr, &dns.DS{Hdr: dns.RR_Header{Name: "a.tld.", Rrtype: dns.TypeDS, Class: dns.ClassINET, Ttl: t}, KeyTag: uint16(i), Algorithm: 13, DigestType: 2, Digest: "00"})
		ds = append(ds, fmt.Sprintf("%d", t))
	}
	dmin := minRRSetTTL(dsrr)
	u.o.emit(map[string]any{"k": "rrsetTTL", "go_fail": "", "nontrivial": n > 1,
		"coq":  fmt.Sprintf("CaseTTLs [%s]%%Z %d [%s]%%Z %d", strings.Join(ns, ";"), info.nsTTL, strings.Join(ds, ";"), dmin),
		"desc": fmt.Sprintf("ns ttls %v -> %d; ds ttls %v -> %d", ns, info.nsTTL, ds, dmin)})
}

// caseTTLsFixed replays one fixed pair of RRset TTL lists (corpus: minimal inputs of seeded changes).
func (u *vC08U) caseTTLsFixed(nsTTLs, dsTTLs []uint32) {
	msg := new(dns.Msg)
	var ns, ds []string
	for i, t := range nsTTLs {
		msg.Ns = append(msg.Ns, &dns.NS{Hdr: dns.RR_Header{Name: "a.tld.", Rrtype: dns.TypeNS, Class: dns.ClassINET, Ttl: t}, Ns: fmt.Sprintf("ns%d.a.tld.", i)})
		ns = append(ns, fmt.Sprintf("%d", t))
	}
	var dsrr []dns.RR
	for i, t := range dsTTLs {
		dsrr = append(dsrr, &dns.DS{Hdr: dns.RR_Header{Name: "a.tld.", Rrtype: dns.TypeDS, Class: dns.ClassINET, Ttl: t}, KeyTag: uint16(i), Algorithm: 13, DigestType: 2, Digest: "00"})
		ds = append(ds, fmt.Sprintf("%d", t))
	}
	info := (&Resolver{}).extractDelegationInfo(msg)
	dmin := minRRSetTTL(dsrr)
	u.o.emit(map[string]any{"k": "corpus-rrsetTTL", "go_fail": "", "nontrivial": len(nsTTLs) > 1,
		"coq":  fmt.Sprintf("CaseTTLs [%s]%%Z %d [%s]%%Z %d", strings.Join(ns, ";"), info.nsTTL, strings.Join(ds, ";"), dmin),
		"desc": fmt.Sprintf("corpus: ns ttls %v -> %d; ds ttls %v -> %d", ns, info.nsTTL, ds, dmin)})
}

func (u *vC08U) corpus(t *testing.T) {
	dir := os.Getenv("VERIF_CORPUS")
	if dir == "" {
		return
	}
	raw, err := os.ReadFile(filepath.Join(dir, "unit_ttls.json"))
	if err != nil {
		return
	}
	var items []struct{ NS, DS []uint32 }
	if err := json.Unmarshal(raw, &items); err != nil {
		t.Fatalf("corpus unit_ttls.json: %v", err)
	}
	for _, it := range items {
		if len(it.NS) > 0 {
			u.caseTTLsFixed(it.NS, it.DS)
		}
	}
}

func (u *vC08U) caseEntry() {
	stored := u.pickT()
	ttl := []int64{int64(5 * time.Second), int64(time.Minute), int64(time.Hour), int64(24 * time.Hour)}[u.r.Intn(4)]
	cutOK := u.r.Intn(4) != 0
	cut := u.pickT()
	switch u.r.Intn(4) {
	case 0:
		cut = stored + ttl + []int64{-1, 0, 1}[u.r.Intn(3)]
	}
	now := u.pickT()
	switch u.r.Intn(4) {
	case 0:
		now = stored + ttl + []int64{-1, 0, 1}[u.r.Intn(3)]
	case 1:
		now = cut + []int64{-1, 0, 1}[u.r.Intn(3)]
	}
	var ct time.Time
	if cutOK {
		ct = u.at(cut)
	}
	rem := cachemw.VC08Remaining(u.at(stored), time.Duration(ttl), ct, u.at(now))
	bound := cachemw.VC08Bound(u.at(stored), time.Duration(ttl), ct)
	u.o.emit(map[string]any{"k": "entryLifetime", "go_fail": "", "nontrivial": cutOK,
		"coq": fmt.Sprintf("CaseEntry %s %s %s %s %s %s", vC08Z(stored), vC08Z(ttl), vC08OZ(cutOK, cut), vC08Z(now),
			vC08Z(int64(rem)), vC08Z(int64(bound.Sub(u.base)))),
		"desc": fmt.Sprintf("stored=%d ttl=%d cut=%v/%d now=%d remaining=%d bound=%d", stored, ttl, cutOK, cut, now, rem, bound.Sub(u.base))})
}

func (u *vC08U) caseAdmit(cm *cachemw.Cache) {
	ttl := []uint32{0, 1, 4, 5, 6, 60, 3600, 86399, 86400, 86401, 172800}[u.r.Intn(11)]
	name := fmt.Sprintf("w%d.admit.test.", u.r.Intn(1<<30))
	resp := new(dns.Msg)
	resp.SetQuestion(name, dns.TypeA)
	resp.Response = true
	resp.Answer = []dns.RR{&dns.A{Hdr: dns.RR_Header{Name: name, Rrtype: dns.TypeA, Class: dns.ClassINET, Ttl: ttl}, A: net.IPv4(10, 0, 0, 1)}}
	cm.Store().SetFromResponse(resp, false, time.Time{})
	e, ok := cachemw.VC08Peek(cm, resp.Question[0], false)
	goFail := ""
	if !ok {
		goFail = "SetFromResponse stored nothing"
	}
	u.o.emit(map[string]any{"k": "admitTTL", "go_fail": goFail, "nontrivial": true,
		"coq":  fmt.Sprintf("CaseAdmit %s %s", vC08Z(int64(ttl)*int64(time.Second)), vC08Z(int64(e.TTL))),
		"desc": fmt.Sprintf("answer ttl %ds admitted with %v", ttl, e.TTL)})
}

func (u *vC08U) caseSearch(r *Resolver) {
	// fresh delegation cache with a scripted clock
	dc := authority.NewCache()
	now := u.pickT()
	clock := now
	authority.VC08SetNow(dc, func() time.Time { return u.at(clock) })
	old := r.delegations
	r.delegations = dc
	defer func() { r.delegations = old }()
	chain := []string{"tld.", "a.tld.", "s.a.tld.", "t.s.a.tld.", "other."}
	var ents []string
	srvOf := map[*authority.Servers]int{r.rootServers: 0}
	n := u.r.Intn(5)
	for i := 0; i < n; i++ {
		z := chain[u.r.Intn(len(chain))]
		var exp int64
		switch u.r.Intn(4) {
		case 0:
			exp = now + []int64{-1, 0, 1}[u.r.Intn(3)]
		case 1:
			exp = now - u.r.Int63n(int64(time.Hour)) - 1
		default:
			exp = now + 1 + u.r.Int63n(int64(time.Hour))
		}
		s := &authority.Servers{Zone: z}
		srvOf[s] = i + 1
		// write with the clock far in the past so nothing is skipped or clamped
		clock = exp - int64(time.Minute)
		dc.SetUntil(vC08KeyOf(z, true), nil, s, u.at(exp))
		ents = append(ents, fmt.Sprintf("(%s, %s%%Z, %d%%N)", u.labs.zone(z), vC08Z(exp), i+1))
	}
	clock = now
	qnames := []string{"www.t.s.a.tld.", "t.s.a.tld.", "www.s.a.tld.", "s.a.tld.", "a.tld.", "tld.", "www.b.tld.", "www.other.", "."}
	qn := qnames[u.r.Intn(len(qnames))]
	isDS := u.r.Intn(4) == 0
	qt := uint16(dns.TypeA)
	if isDS {
		qt = dns.TypeDS
	}
	m := r.searchCache(dns.Question{Name: vC08MixCase(u.r, qn), Qtype: qt, Qclass: dns.ClassINET}, true, qn)
	rz := "."
	if m.servers != r.rootServers {
		rz = m.servers.Zone
	}
	sid, known := srvOf[m.servers]
	goFail := ""
	if !known {
		goFail = "searchCache returned an unknown server set"
	}
	kz, kk := vC08ZoneOfKey(m.key, true)
	if !kk {
		goFail = "searchCache returned an unknown key"
	}
	u.o.emit(map[string]any{"k": "searchCache", "go_fail": goFail, "nontrivial": rz != ".",
		"coq": fmt.Sprintf("CaseSearch [%s] %s %s %s %s %d %s", strings.Join(ents, "; "), vC08Z(now), u.labs.zone(qn), vC08B(isDS),
			u.labs.zone(rz), sid, u.cutTerm(!m.deadline.IsZero(), int64(m.deadline.Sub(u.base)), kz)),
		"desc": fmt.Sprintf("entries %v now=%d q=%s ds=%v -> zone %s srv %d deadline %v", ents, now, qn, isDS, rz, sid, m.deadline.Sub(u.base))})
}

type vC08AbortQueryer struct{}

func (vC08AbortQueryer) Query(context.Context, *dns.Msg) (*dns.Msg, error) {
	return nil, context.Canceled
}

// vC08JumpQueryer is a slow nameserver-address lookup: while it is in flight the delegation
// cache's clock moves on to base+to (the lookup itself ends without an address, which
// lookupV4Nss treats as "try the next host").
type vC08JumpQueryer struct {
	skew *atomic.Int64
	to   int64
}

func (j vC08JumpQueryer) Query(context.Context, *dns.Msg) (*dns.Msg, error) {
	j.skew.Store(j.to)
	return nil, errors.New("vc08: lame nameserver address lookup")
}

// casePD drives Resolver.processDelegation directly.
func (u *vC08U) casePD(r *Resolver, sinkSrv *vC08Srv) {
	sink := sinkSrv.addr
	chain := []string{".", "tld.", "a.tld.", "s.a.tld.", "www.s.a.tld."}
	// focus (a quarter of the calls): a NESTED delegation whose ancestor lease is short - around or below the
	// one-minute cap of a provisional entry and below the referral's own NS TTL - with a partly glue-less
	// NS set, and a nameserver address lookup that aborts or is slow: the region where the lease of the
	// provisional entry matters because the final store does not happen or comes too late
	focus := u.r.Intn(4) == 0
	i := u.r.Intn(3)
	if focus && i == 0 {
		i = 1 + u.r.Intn(2)
	}
	j := i + 1 + u.r.Intn(3-i)
	rsz, z, q := chain[i], chain[j], chain[4]
	junk := ""
	jsel := u.r.Intn(10)
	if focus {
		jsel = 9
	}
	switch jsel {
	case 0: // self referral
		z, junk = rsz, "self"
	case 1: // upward referral
		if i > 0 {
			z, junk = chain[i-1], "upward"
		}
	case 2: // sideways
		z, junk = "b.tld.", "sideways"
		if rsz != "tld." && rsz != "." {
			rsz = "tld."
		}
	}
	incoherent := u.r.Intn(12) == 0 && !focus
	h := int64(time.Hour)
	nsTTL := []uint32{0, 1, 4, 30, 3600, 43199, 43200, 43201, 86400, 172800}[u.r.Intn(10)]
	if focus {
		nsTTL = []uint32{4, 30, 61, 3600, 43200, 86400}[u.r.Intn(6)]
	}
	// ancestor cut
	rsCutOK := rsz != "." && (u.r.Intn(4) != 0 || focus)
	var rsCut int64
	switch u.r.Intn(6) {
	case 0:
		rsCut = 10 * int64(time.Second)
	case 1:
		rsCut = 6 * h
	case 2:
		rsCut = 12*h + 30*int64(time.Minute)
	case 3:
		rsCut = 30 * h
	case 4:
		// an ancestor lease around the one-minute cap of a provisional entry
		rsCut = []int64{2, 45, 59, 61, 90}[u.r.Intn(5)] * int64(time.Second)
	default:
		rsCut = int64(nsTTL)*int64(time.Second) + int64(u.r.Intn(3)-1)*int64(time.Minute)
		if rsCut <= 0 {
			rsCut = int64(time.Minute)
		}
	}
	if focus {
		rsCut = []int64{1, 2, 5, 10, 45, 59}[u.r.Intn(6)] * int64(time.Second)
	}
	if !rsCutOK {
		rsCut = 0
	}
	// emulated latency between observedAt and the delegation cache's clock
	skew := []int64{0, 0, 0, int64(time.Second), 30 * int64(time.Second), -int64(time.Second)}[u.r.Intn(6)]
	// pre-seeded entry for z: none, dead, live (shorter / longer than the referral)
	preKind := u.r.Intn(5)
	abort := u.r.Intn(5) == 0
	if focus {
		if preKind == 1 {
			preKind = 0 // a dead entry under the key, never a live one
		}
		abort = u.r.Intn(2) == 0
	}
	anchor := true

	dc := authority.NewCache()
	var clockSkew atomic.Int64
	authority.VC08SetNow(dc, func() time.Time { return time.Now().Add(time.Duration(clockSkew.Load())) })
	old := r.delegations
	r.delegations = dc
	defer func() { r.delegations = old }()

	u.base = time.Now()
	var preServers *authority.Servers
	preOK := false
	var preExp int64
	switch preKind {
	case 0:
		preOK, preExp = true, -int64(time.Minute) // dead for a minute
	case 1:
		preOK, preExp = true, []int64{int64(time.Minute), 5 * h, 11 * h}[u.r.Intn(3)]
	}
	if preOK && junk == "" {
		preServers = &authority.Servers{Zone: z, List: []*authority.Server{authority.NewServer(sink, authority.IPv4)}, CheckingDisable: true}
		clockSkew.Store(preExp - int64(time.Minute)) // write it verbatim: neither skipped nor clamped
		dc.SetUntil(vC08KeyOf(z, true), nil, preServers, u.at(preExp))
	} else {
		preOK = false
	}
	clockSkew.Store(skew)

	// the referral
	nNS := 1 + u.r.Intn(3)
	if focus && nNS < 2 {
		nNS = 2 + u.r.Intn(2)
	}
	noGlue := 0
	resp := new(dns.Msg)
	resp.SetQuestion(q, dns.TypeA)
	resp.Response = true
	hosts := hostSet{}
	for k := 0; k < nNS; k++ {
		u.seq++
		host := fmt.Sprintf("ns%d-%d.%s", k, u.seq, z) // unique: the resolver's glue cache outlives the case
		if z == "." {
			host = fmt.Sprintf("ns%d-%d.root.", k, u.seq)
		}
		resp.Ns = append(resp.Ns, &dns.NS{Hdr: dns.RR_Header{Name: z, Rrtype: dns.TypeNS, Class: dns.ClassINET, Ttl: nsTTL}, Ns: host})
		hosts[host] = struct{}{}
		if (k == 0 || u.r.Intn(2) == 0) && !(focus && k == nNS-1 && noGlue == 0) {
			resp.Extra = append(resp.Extra, &dns.A{Hdr: dns.RR_Header{Name: host, Rrtype: dns.TypeA, Class: dns.ClassINET, Ttl: nsTTL}, A: net.IPv4(192, 0, 2, byte(50+k))})
		} else {
			noGlue++
		}
	}
	if incoherent {
		resp.Ns = append(resp.Ns, &dns.NS{Hdr: dns.RR_Header{Name: "zz." + z, Rrtype: dns.TypeNS, Class: dns.ClassINET, Ttl: nsTTL}, Ns: "ns.zz."})
	}
	info := r.extractDelegationInfo(resp)
	nprov := noGlue
	skew2 := skew
	slow := false
	if abort {
		var aq middleware.Queryer = vC08AbortQueryer{}
		r.queryer.Store(&aq)
		if noGlue > 0 {
			nprov = 1
		} else {
			abort = false
		}
	} else if noGlue > 0 && (focus || u.r.Intn(3) == 0) {
		// a slow address lookup: the delegation cache's clock has moved on when the next provisional
		// entry / the final store is made (past the ancestor cut, past the one-minute cap, past the
		// referral's own lease, or just a little)
		slow = true
		switch u.r.Intn(5) {
		case 0:
			skew2 = rsCut + int64(time.Second)
		case 1:
			skew2 = 61 * int64(time.Second)
		case 2:
			skew2 = int64(nsTTL)*int64(time.Second) + int64(time.Second)
		case 3:
			skew2 = skew + 5*int64(time.Second)
		default:
			skew2 = rsCut - int64(time.Second)
		}
		if skew2 < skew {
			skew2 = skew
		}
		var jq middleware.Queryer = vC08JumpQueryer{skew: &clockSkew, to: skew2}
		r.queryer.Store(&jq)
	} else {
		r.queryer.Store(nil)
	}

	req := new(dns.Msg)
	req.SetQuestion(q, dns.TypeA)
	req.CheckingDisabled = true
	rsServers := &authority.Servers{Zone: rsz, List: []*authority.Server{authority.NewServer("192.0.2.200:53", authority.IPv4)}}
	rs := &resolveState{req: req, servers: rsServers, depth: 1, level: dns.CountLabel(rsz), nomin: true}
	// the DS bound: with a DS set on the path, the (CD=1) chain walk asks the sink for the
	// child's DS and the lease is limited by the smallest TTL in what it returns
	dsTerm, dsDesc := "None", "none"
	var dsTTLs []uint32
	if rsz != "." && junk == "" && u.r.Intn(3) == 0 {
		for k := 0; k < 1+u.r.Intn(2); k++ {
			dsTTLs = append(dsTTLs, []uint32{0, 2, 30, 3600, 43200, 43201, 86400, 200000}[u.r.Intn(8)])
		}
		rs.parentDS = []dns.RR{&dns.DS{Hdr: dns.RR_Header{Name: rsz, Rrtype: dns.TypeDS, Class: dns.ClassINET, Ttl: 77}, KeyTag: 9, Algorithm: 13, DigestType: 2, Digest: "00"}}
		m := dsTTLs[0]
		for _, x := range dsTTLs {
			if x < m {
				m = x
			}
		}
		dsTerm, dsDesc = fmt.Sprintf("(Some %d%%Z)", m), fmt.Sprint(dsTTLs)
	}
	u.w.mu.Lock()
	sinkSrv.dsTTLs = dsTTLs
	u.w.mu.Unlock()
	rsKeyZone := "tld."
	if rsCutOK {
		rs.cutDeadline = u.at(rsCut)
		rs.cutKey = vC08KeyOf(rsKeyZone, true)
	}
	if preOK && preExp > 0 {
		rs.depth = 3 // the cached branch continues to the (loopback) sink, which denies
	}
	var meta middleware.ResponseMeta
	ctx := middleware.WithResponseMeta(context.Background(), &meta)
	ctx = context.WithValue(ctx, contextKeyRequestID, req.Id)

	t0 := int64(time.Since(u.base))
	_, err := r.processDelegation(ctx, rs, resp, info, false)
	t1 := int64(time.Since(u.base))

	// observed
	outcome := -1
	preLive := preOK && preExp > 0
	switch {
	case errors.Is(err, errParentDetection):
		outcome = 0
	case preLive:
		outcome = 1
	case errors.Is(err, errMaxDepth):
		outcome = 2
	case errors.Is(err, context.Canceled):
		outcome = 3
	}
	goFail := ""
	if outcome < 0 {
		goFail = fmt.Sprintf("unexpected processDelegation result: %v", err)
	}
	storedTerm, storedDesc := "None", "none"
	if d, ok := authority.VC08Raw(dc, vC08KeyOf(z, true)); ok {
		sid := 2
		if d.Servers == preServers {
			sid = 1
		}
		storedTerm = fmt.Sprintf("(Some (%s%%Z, %d%%N))", vC08Z(int64(d.ExpiresAt.Sub(u.base))), sid)
		storedDesc = fmt.Sprintf("%v/srv%d", d.ExpiresAt.Sub(u.base), sid)
	}
	md, mk := meta.Cut()
	mz, ok1 := vC08ZoneOfKey(mk, true)
	rz, ok2 := vC08ZoneOfKey(rs.cutKey, true)
	if (!ok1 || !ok2) && goFail == "" {
		goFail = "cut identity is not a key on the path"
	}
	pre := "None"
	if preOK {
		pre = fmt.Sprintf("(Some (%s%%Z, 1%%N))", vC08Z(preExp))
	}
	coh := !info.incoherent
	fkey := "" // no known finding is tolerated
	kind := "pd-miss"
	switch {
	case outcome == 0:
		kind = "pd-rejected-" + junk
		if junk == "" {
			kind = "pd-rejected-incoherent"
		}
	case outcome == 1:
		kind = "pd-cached"
	case outcome == 3:
		kind = "pd-aborted"
	case preOK:
		kind = "pd-miss-over-dead-entry"
	case slow:
		kind = "pd-miss-slow-lookup"
	}
	u.o.emit(map[string]any{"k": kind, "go_fail": goFail, "fkey": fkey, "nontrivial": outcome != 0,
		"coq": fmt.Sprintf("CasePD %s %s %s %s %s 2 %s %d %s %d %s %s %s %s %s %s %d %s %s %s",
			u.labs.zone(rsz), u.cutTerm(rsCutOK, rsCut, rsKeyZone), u.labs.zone(q), pre,
			u.labs.zone(z), vC08B(coh), nsTTL, dsTerm, nprov, vC08B(abort), vC08B(anchor), vC08Z(skew), vC08Z(skew2), vC08Z(t0), vC08Z(t1),
			outcome, storedTerm, u.cutTerm(!md.IsZero(), int64(md.Sub(u.base)), mz),
			u.cutTerm(!rs.cutDeadline.IsZero(), int64(rs.cutDeadline.Sub(u.base)), rz)),
		"desc": fmt.Sprintf("rs zone=%s cut=%v/%d q=%s referral=%s(%s) nsTTL=%d ds=%s coherent=%v pre=%v/%d skew=%d skew2=%d noGlue=%d abort=%v -> err=%v stored=%s metaCut=%v rsCut=%v [t0=%d t1=%d]",
			rsz, rsCutOK, rsCut, q, z, junk, nsTTL, dsDesc, coh, preOK, preExp, skew, skew2, noGlue, abort, err, storedDesc, md.Sub(u.base), rs.cutDeadline.Sub(u.base), t0, t1)})
}

func TestVerifC08Unit(t *testing.T) {
	o := vC08Open(t)
	defer o.f.Close()
	seed := int64(vC08EnvInt("VERIF_SEED", 1))
	n := vC08EnvInt("VERIF_N", 2000)
	u := &vC08U{r: rand.New(rand.NewSource(seed)), o: o, base: time.Now()}

	// a loopback sink that denies everything (the cached branch of processDelegation asks it once)
	w := &vC08World{}
	sink := w.start(t, ".")
	u.w = w
	defer w.stopAll()
	cfg := vC08Config(0, 0, sink.addr)
	r := NewResolver(cfg)
	cm := cachemw.New(cfg)
	defer cm.Stop()

	u.corpus(t)
	for c := 0; c < n; c++ {
		switch c % 10 {
		case 0:
			u.caseMinCut()
		case 1:
			u.caseBound()
		case 2:
			u.caseReferral()
		case 3:
			u.caseTTLs()
		case 4:
			u.caseEntry()
		case 5:
			if c%20 == 5 {
				u.caseAdmit(cm)
			} else {
				u.caseSearch(r)
			}
		default:
			u.casePD(r, sink)
		}
	}
}
