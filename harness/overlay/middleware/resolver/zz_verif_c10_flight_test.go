//go:build verif

package resolver

// C10 driver "flight": WHO receives WHICH result object of a collapsed lookup, and with what
// `shared` / `leader` flags — the inputs of groupLookup's `if shared { resp = resp.Copy() }`.
//
// The real SingleflightWrapper.TimedDoChanWithRole (on top of the real x/sync singleflight group)
// is driven through generated, DETERMINISTIC interleavings of its atomic steps inside a
// testing/synctest bubble: after every step synctest.Wait() lets every goroutine run until it
// blocks, so "caller k has registered and sits in its select" is a fact, not a sleep.
//
//	join k key   a new caller enters TimedDoChanWithRole(ctx_k, key, closure_k) on its own goroutine;
//	             a closure that gets to run takes the next call number, parks at its own gate
//	finish c     gate c opens: call c's closure returns ITS OWN result object; every caller still
//	             in its select on that call receives at once
//	cancel k     ctx_k is cancelled while k waits
//	forget key   SingleflightWrapper.Forget(key)
//	cleanup d    the virtual clock advances by d (6 s / 16 s), then cleanupStuckQueries(): every
//	             generation whose leader has been running for more than 15 s is retired
//
// Observed per caller: the result object (call number and the key its closure was started for),
// shared, leader — or that it came back empty-handed. Replayed on ModelFlight (check_case: every
// step enabled, every caller's outcome reproduced); judged without the automaton by spec_case and
// by the Go-side oracle below.

import (
	"context"
	"encoding/json"
	"fmt"
	"math/rand"
	"os"
	"strconv"
	"strings"
	"sync"
	"testing"
	"testing/synctest"
	"time"
)

type vC10FlightVal struct {
	call int
	key  int
}

type vC10FlightCaller struct {
	id     int
	key    int
	cancel context.CancelFunc
	done   chan struct{}
	val    any
	shared bool
	leader bool
	err    error
	ran    bool // this caller's own closure was the one that ran
	state  int  // 0 in its select, 1 returned with a result, 2 returned empty-handed
}

type vC10FlightRun struct {
	mu      sync.Mutex
	gates   []chan struct{}
	started []time.Time
	keyOf   []int
	open    []bool // gate already opened
}

func vC10FlightCase(t *testing.T, rnd *rand.Rand, kind string, script []string) map[string]any {
	w := &SingleflightWrapper{}
	run := &vC10FlightRun{}
	var callers []*vC10FlightCaller
	var ops []string
	var fails []string
	cur := map[int]int{} // mirror of "the map points at call c for key" (only to predict what a cleanup retires)

	keyName := func(k int) string { return "verif-c10-key-" + strconv.Itoa(k) }
	settle := func() {
		synctest.Wait()
		for _, c := range callers {
			if c.state != 0 {
				continue
			}
			select {
			case <-c.done:
				if c.err == nil {
					c.state = 1
					ops = append(ops, fmt.Sprintf("FR %d", c.id))
				} else {
					c.state = 2
				}
			default:
			}
		}
	}
	join := func(key int) {
		c := &vC10FlightCaller{id: len(callers) + 1, key: key, done: make(chan struct{})}
		ctx, cancel := context.WithCancel(context.Background())
		c.cancel = cancel
		callers = append(callers, c)
		before := len(run.gates)
		go func() {
			c.val, c.shared, c.leader, c.err = w.TimedDoChanWithRole(ctx, keyName(key), func() (any, error) {
				run.mu.Lock()
				n := len(run.gates)
				gate := make(chan struct{})
				run.gates = append(run.gates, gate)
				run.started = append(run.started, time.Now())
				run.keyOf = append(run.keyOf, key)
				run.open = append(run.open, false)
				c.ran = true
				run.mu.Unlock()
				<-gate
				return &vC10FlightVal{call: n, key: key}, nil
			})
			close(c.done)
		}()
		ops = append(ops, fmt.Sprintf("FJ %d %d", c.id, key))
		settle()
		if len(run.gates) > before {
			cur[key] = before
		}
	}
	finish := func(n int) {
		if n < 0 || n >= len(run.gates) || run.open[n] {
			return
		}
		run.open[n] = true
		ops = append(ops, fmt.Sprintf("FF %d", n))
		close(run.gates[n])
		if c, ok := cur[run.keyOf[n]]; ok && c == n {
			delete(cur, run.keyOf[n])
		}
		settle()
	}
	cancelCaller := func(c *vC10FlightCaller) {
		if c.state != 0 {
			return
		}
		c.cancel()
		ops = append(ops, fmt.Sprintf("FC %d", c.id))
		settle()
	}
	forget := func(key int) {
		w.Forget(keyName(key))
		delete(cur, key)
		ops = append(ops, fmt.Sprintf("FG %d", key))
		settle()
	}
	cleanup := func(d time.Duration) {
		time.Sleep(d)
		now := time.Now()
		w.cleanupStuckQueries()
		for key := 1; key <= 3; key++ {
			if c, ok := cur[key]; ok && now.Sub(run.started[c]) > 15*time.Second {
				delete(cur, key)
				ops = append(ops, fmt.Sprintf("FG %d", key))
			}
		}
		settle()
	}
	running := func() []int {
		var r []int
		for i := range run.gates {
			if !run.open[i] {
				r = append(r, i)
			}
		}
		return r
	}
	waiting := func() []*vC10FlightCaller {
		var r []*vC10FlightCaller
		for _, c := range callers {
			if c.state == 0 {
				r = append(r, c)
			}
		}
		return r
	}

	if script != nil {
		for _, s := range script {
			var a, b int
			switch {
			case strings.HasPrefix(s, "join "):
				fmt.Sscanf(s, "join %d", &a)
				join(a)
			case strings.HasPrefix(s, "finish "):
				fmt.Sscanf(s, "finish %d", &a)
				finish(a)
			case strings.HasPrefix(s, "cancel "):
				fmt.Sscanf(s, "cancel %d", &a)
				if a >= 1 && a <= len(callers) {
					cancelCaller(callers[a-1])
				}
			case strings.HasPrefix(s, "forget "):
				fmt.Sscanf(s, "forget %d", &a)
				forget(a)
			case strings.HasPrefix(s, "cleanup "):
				fmt.Sscanf(s, "cleanup %d", &b)
				cleanup(time.Duration(b) * time.Second)
			}
		}
	} else {
		nkeys := 1 + rnd.Intn(2)
		nops := 8 + rnd.Intn(14)
		for i := 0; i < nops; i++ {
			switch k := rnd.Intn(100); {
			case k < 45:
				if len(callers) < 9 {
					join(1 + rnd.Intn(nkeys))
				}
			case k < 68:
				if r := running(); len(r) > 0 {
					finish(r[rnd.Intn(len(r))])
				}
			case k < 80:
				if ws := waiting(); len(ws) > 0 {
					cancelCaller(ws[rnd.Intn(len(ws))])
				}
			case k < 90:
				forget(1 + rnd.Intn(nkeys))
			default:
				cleanup([]time.Duration{6 * time.Second, 16 * time.Second}[rnd.Intn(2)])
			}
		}
	}
	// let everybody come home: every call still running returns
	for _, n := range running() {
		finish(n)
	}
	for _, c := range waiting() {
		fails = append(fails, fmt.Sprintf("caller %d never returned although every call has finished", c.id))
		c.cancel()
	}
	synctest.Wait()

	// ---- observation, Go-side oracle
	var obs, desc []string
	holders := map[*vC10FlightVal][]*vC10FlightCaller{}
	got := 0
	for _, c := range callers {
		if c.state != 1 {
			if c.val != nil {
				fails = append(fails, fmt.Sprintf("caller %d came back with an error AND a value", c.id))
			}
			obs = append(obs, fmt.Sprintf("(%d,%d,None)", c.id, c.key))
			desc = append(desc, fmt.Sprintf("%d: key %d, empty-handed (%v)", c.id, c.key, c.err))
			continue
		}
		v, _ := c.val.(*vC10FlightVal)
		if v == nil {
			fails = append(fails, fmt.Sprintf("caller %d returned without error and without a result", c.id))
			obs = append(obs, fmt.Sprintf("(%d,%d,None)", c.id, c.key))
			continue
		}
		got++
		holders[v] = append(holders[v], c)
		if v.key != c.key {
			fails = append(fails, fmt.Sprintf("caller %d asked for key %d and holds the result of a lookup for key %d", c.id, c.key, v.key))
		}
		if c.leader != c.ran {
			fails = append(fails, fmt.Sprintf("caller %d: leader=%v but its own closure ran=%v", c.id, c.leader, c.ran))
		}
		obs = append(obs, fmt.Sprintf("(%d,%d,Some (%d,%d,%s,%s))", c.id, c.key, v.call, v.key, strconv.FormatBool(c.shared), strconv.FormatBool(c.leader)))
		desc = append(desc, fmt.Sprintf("%d: key %d -> result object of call %d, shared=%v leader=%v", c.id, c.key, v.call, c.shared, c.leader))
	}
	multi := false
	for v, hs := range holders {
		if len(hs) < 2 {
			continue
		}
		multi = true
		for _, c := range hs {
			if !c.shared {
				fails = append(fails, fmt.Sprintf("the result object of call %d is held by %d callers and caller %d was told shared=false (it will use and edit it without copying)", v.call, len(hs), c.id))
			}
		}
	}
	line := map[string]any{
		"k":          kind,
		"coq":        fmt.Sprintf("CaseFlight [%s] [%s]", strings.Join(ops, ";"), strings.Join(obs, ";")),
		"nontrivial": multi && got >= 2,
		"desc":       map[string]any{"ops": ops, "callers": desc},
	}
	if len(fails) > 0 {
		line["go_fail"] = strings.Join(fails, "; ")
	}
	return line
}

type vC10FlightCorpus struct {
	Name string   `json:"name"`
	Ops  []string `json:"ops"`
}

func TestVerifC10Flight(t *testing.T) {
	out := os.Getenv("VERIF_OUT")
	if out == "" {
		t.Skip("VERIF_OUT not set")
	}
	f, err := os.Create(out)
	if err != nil {
		t.Fatal(err)
	}
	defer f.Close()
	seed, _ := strconv.Atoi(os.Getenv("VERIF_SEED"))
	n, _ := strconv.Atoi(os.Getenv("VERIF_N"))
	if n == 0 {
		n = 40
	}
	rnd := rand.New(rand.NewSource(int64(seed)*1000003 + 77))
	var corpus []vC10FlightCorpus
	if dir := os.Getenv("VERIF_CORPUS"); dir != "" {
		if b, err := os.ReadFile(dir + "/flight-regressions.json"); err == nil {
			_ = json.Unmarshal(b, &corpus)
		}
	}
	emit := func(line map[string]any) {
		b, _ := json.Marshal(line)
		_, _ = f.Write(append(b, '\n'))
	}
	for i := range corpus {
		c := corpus[i]
		synctest.Test(t, func(t *testing.T) { emit(vC10FlightCase(t, rnd, "corpus:"+c.Name, c.Ops)) })
	}
	for i := 0; i < n; i++ {
		synctest.Test(t, func(t *testing.T) { emit(vC10FlightCase(t, rnd, "flight", nil)) })
	}
}
