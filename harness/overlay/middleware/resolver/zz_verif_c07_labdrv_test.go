//go:build verif

package resolver

// C07 driver, lab level.  Against the zone tree of zz_verif_c07_lab_test.go:
//
//   * descent: the REAL Resolver.processDelegation is handed a referral (as its
//     parent zone's server sends it) with the delegation cached or not, and the
//     level / zone it continued with are read back from the resolve state;
//   * attack: the attacker's server answers one question inside its zone with a
//     generated hostile message (out-of-zone records in every section, alias
//     chains with an out-of-zone tail, self / upward / sideways / mixed-owner
//     referrals, out-of-zone, loopback and rogue glue); the client-visible reply,
//     the glue and delegation caches and then the replies to victim names are
//     observed.  Ground truth is the lab's own zone data;
//   * cached-descent: two concurrent client queries so that the second one meets
//     the delegation the first one just cached (the only way a client reaches
//     resolveWithCachedNameservers), then hostile glue from the child zone.

import (
	"context"
	"encoding/json"
	"fmt"
	"math/rand"
	"net/netip"
	"os"
	"sort"
	"strings"
	"sync"
	"testing"
	"time"

	"github.com/miekg/dns"
	"github.com/semihalev/sdns/internal/cache"
)

type vC07Attack struct {
	rcode  int
	answer []vC07RRSpec
	ns     []vC07RRSpec
	extra  []vC07RRSpec
}

func (a vC07Attack) msg() *dns.Msg {
	m := &dns.Msg{}
	m.Authoritative = true
	m.Rcode = a.rcode
	m.Answer = vC07RRs(a.answer)
	m.Ns = vC07RRs(a.ns)
	m.Extra = vC07RRs(a.extra)
	return m
}

func (a vC07Attack) coq() string {
	return fmt.Sprintf("(mk_umsg %d %s %s %s)", a.rcode, vC07CoqRRs(a.answer), vC07CoqRRs(a.ns), vC07CoqRRs(a.extra))
}

func vC07N(s string) vC07Name { return vC07Parse(s) }

func vC07Ident(rr dns.RR) string {
	h := rr.Header()
	body := strings.Join(strings.Fields(strings.Replace(rr.String(), h.String(), "", 1)), " ")
	return strings.ToLower(h.Name) + " " + dns.TypeToString[h.Rrtype] + " " + body
}

var vC07Rogue = []byte{192, 0, 2, 99}

// vC07GenAttack builds the hostile message for question qn/qtype asked of the evil.l1. server.
func vC07GenAttack(r *rand.Rand, qn vC07Name, qtype uint16) (vC07Attack, []string) {
	var a vC07Attack
	var tags []string
	a.rcode = []int{0, 0, 0, 0, 0, 3, 2, 5}[r.Intn(8)]
	in := dns.ClassINET
	rrA := func(owner string, last byte) vC07RRSpec {
		return vC07RRSpec{owner: vC07N(owner), rrtype: dns.TypeA, class: uint16(in), ttl: 300, ip: []byte{6, 6, 6, last}}
	}
	rrCN := func(owner vC07Name, target string) vC07RRSpec {
		return vC07RRSpec{owner: owner, rrtype: dns.TypeCNAME, class: uint16(in), ttl: 300, target: vC07N(target)}
	}
	rrNS := func(owner, target string) vC07RRSpec {
		return vC07RRSpec{owner: vC07N(owner), rrtype: dns.TypeNS, class: uint16(in), ttl: 300, target: vC07N(target)}
	}
	glue := func(owner string, ip []byte) vC07RRSpec {
		return vC07RRSpec{owner: vC07N(owner), rrtype: dns.TypeA, class: uint16(in), ttl: 300, ip: ip}
	}
	qs := qn.String()
	// ---- answer section
	switch r.Intn(12) {
	case 10:
		a.answer = []vC07RRSpec{rrA("www.victim.l2.", 12), rrCN(qn, "www.victim.l2.")}
		tags = append(tags, "ans-tail-before-cname")
	case 11:
		a.answer = []vC07RRSpec{rrA("www.victim.l2.", 13), rrCN(qn, "t.evil.l1."), rrA("t.evil.l1.", 14), rrA("www.bank.l1.", 15)}
		tags = append(tags, "ans-foreign-around-in-zone-chain")
	case 0:
		tags = append(tags, "ans-none")
	case 1:
		a.answer = []vC07RRSpec{{owner: qn, rrtype: qtype, class: uint16(in), ttl: 300, ip: []byte{198, 51, 100, 70}}}
		if qtype != dns.TypeA {
			a.answer[0].rrtype = dns.TypeTXT
		}
		tags = append(tags, "ans-own")
	case 2, 3:
		a.answer = []vC07RRSpec{rrCN(qn, "www.victim.l2."), rrA("www.victim.l2.", 6)}
		tags = append(tags, "ans-cname-out-tail")
	case 4:
		a.answer = []vC07RRSpec{rrCN(qn, "www.victim.l2.")}
		tags = append(tags, "ans-cname-out")
	case 5:
		a.answer = []vC07RRSpec{rrCN(qn, "t.evil.l1."), rrA("t.evil.l1.", 7)}
		tags = append(tags, "ans-cname-in-tail")
	case 6:
		a.answer = []vC07RRSpec{rrA("www.victim.l2.", 8)}
		tags = append(tags, "ans-foreign")
	case 7:
		a.answer = []vC07RRSpec{{owner: qn, rrtype: dns.TypeA, class: uint16(in), ttl: 300, ip: []byte{198, 51, 100, 71}}, rrA("www.bank.l1.", 9), rrA("mail.victim.l2.", 10)}
		tags = append(tags, "ans-own+foreign")
	case 8:
		a.answer = []vC07RRSpec{rrCN(qn, qs)}
		tags = append(tags, "ans-cname-self")
	default:
		a.answer = []vC07RRSpec{rrCN(qn, "www.bank.l1."), rrCN(vC07N("www.bank.l1."), "www.victim.l2."), rrA("www.victim.l2.", 11)}
		tags = append(tags, "ans-chain-out")
	}
	// ---- authority section
	switch r.Intn(10) {
	case 0, 1:
		tags = append(tags, "ns-none")
	case 2:
		a.ns = []vC07RRSpec{rrNS("victim.l2.", "ns.evil.l1."), rrNS("victim.l2.", "ns2.evil.l1.")}
		tags = append(tags, "ns-sideways")
	case 3:
		a.ns = []vC07RRSpec{rrNS("l1.", "ns.evil.l1.")}
		tags = append(tags, "ns-upward")
	case 4:
		a.ns = []vC07RRSpec{rrNS("evil.l1.", "ns9.evil.l1.")}
		tags = append(tags, "ns-self")
	case 5:
		a.ns = []vC07RRSpec{rrNS("sub.evil.l1.", "ns.sub.evil.l1."), rrNS("victim.l2.", "ns.evil.l1.")}
		tags = append(tags, "ns-mixed")
	case 6:
		a.ns = []vC07RRSpec{rrNS("bank.l1.", "ns.evil.l1.")}
		tags = append(tags, "ns-sibling")
	case 7:
		a.ns = []vC07RRSpec{{owner: vC07N("victim.l2."), rrtype: dns.TypeSOA, class: uint16(in), ttl: 300}}
		tags = append(tags, "ns-foreign-soa")
	case 8:
		a.ns = []vC07RRSpec{{owner: vC07N("evil.l1."), rrtype: dns.TypeSOA, class: uint16(in), ttl: 300}, rrNS("victim.l2.", "ns.evil.l1.")}
		tags = append(tags, "ns-soa+sideways")
	default:
		// a referral that is valid when the question lies below sub.evil.l1.
		a.ns = []vC07RRSpec{rrNS("sub.evil.l1.", "ns.sub.evil.l1."), rrNS("sub.evil.l1.", "ns.bank.l1."), rrNS("Sub.Evil.L1.", "ns.victim.l2.")}
		tags = append(tags, "ns-down")
	}
	// ---- additional section
	for i, cnt := 0, r.Intn(4); i < cnt; i++ {
		switch r.Intn(7) {
		case 0:
			a.extra = append(a.extra, glue("ns.sub.evil.l1.", vC07Rogue))
			tags = append(tags, "glue-in")
		case 1:
			a.extra = append(a.extra, glue("ns.victim.l2.", vC07Rogue))
			tags = append(tags, "glue-out")
		case 2:
			a.extra = append(a.extra, glue("ns.bank.l1.", vC07Rogue))
			tags = append(tags, "glue-sibling")
		case 3:
			a.extra = append(a.extra, glue("ns.sub.evil.l1.", []byte{127, 0, 0, 1}))
			tags = append(tags, "glue-loopback")
		case 4:
			a.extra = append(a.extra, glue("www.victim.l2.", []byte{6, 6, 6, 66}))
			tags = append(tags, "extra-foreign")
		case 5:
			a.extra = append(a.extra, glue("ns.evil.l1.", vC07Rogue))
			tags = append(tags, "glue-own-ns")
		default:
			a.extra = append(a.extra, glue("NS.Victim.L2.", vC07Rogue))
			tags = append(tags, "glue-out-case")
		}
	}
	return a, tags
}

func vC07InEvil(name string) bool {
	n := strings.ToLower(name)
	return dns.IsSubDomain(vC07Evil, n) || dns.IsSubDomain(vC07Evil3, n)
}

// victim questions asked after the attack, with the reply checked against the lab's zone data
func (l *vC07Lab) askVictims(p *vC07Pipe) (bad []string, desc []string) {
	for _, v := range []string{"www.victim.l2.", "www.bank.l1.", "mail.victim.l2.", "www.other.l2.", "www.bank.l3."} {
		rep := p.ask(v, dns.TypeA)
		if rep == nil {
			desc = append(desc, v+": no reply")
			continue
		}
		desc = append(desc, fmt.Sprintf("%s: %s %v", v, dns.RcodeToString[rep.Rcode], vC07RRStrings(rep.Answer)))
		for _, rr := range rep.Answer {
			if !l.truth(rr) {
				bad = append(bad, "forged record served for "+v+": "+vC07Ident(rr))
			}
		}
		if rep.Rcode != dns.RcodeSuccess || len(rep.Answer) == 0 {
			bad = append(bad, fmt.Sprintf("victim name %s is no longer answered (%s, %d answer records)", v, dns.RcodeToString[rep.Rcode], len(rep.Answer)))
		}
	}
	asked := l.drainAsked()
	for _, q := range asked["evil"] {
		name := q[:strings.Index(q, "/")]
		if !vC07InEvil(name) {
			bad = append(bad, "the attacker's server was asked "+q)
		}
	}
	return bad, desc
}

// health: the state a hostile exchange must leave untouched - NS-address cache and delegation cache
// entries for the honest zones hold genuine data only, and the victim names still resolve genuinely
func (l *vC07Lab) health(p *vC07Pipe) (bad []string, desc []string) {
	genuineAddr := map[string]string{"ns.victim.l2.": vC07AddrVictim, "ns.bank.l1.": vC07AddrBank, "ns.bank.l3.": vC07AddrBank,
		"ns.l1.": vC07AddrT1, "ns.l2.": vC07AddrT2, "www.victim.l2.": "", "mail.victim.l2.": "", "www.bank.l1.": "", "victim.l2.": ""}
	var names []string
	for k := range genuineAddr {
		names = append(names, k)
	}
	sort.Strings(names)
	for _, name := range names {
		if addrs, ok := p.h.resolver.getIPv4Cache(name); ok {
			for _, a := range addrs {
				if a.String() != genuineAddr[name] {
					bad = append(bad, fmt.Sprintf("NS-address cache holds %s for %s", a, name))
				}
			}
		}
	}
	genuineHosts := map[string]string{"victim.l2.": "ns.victim.l2.", "bank.l1.": "ns.bank.l1.", "bank.l3.": "ns.bank.l3.", "other.l2.": "ns.bank.l3.", "l1.": "ns.l1.", "l2.": "ns.l2."}
	genuineSrv := map[string]string{"victim.l2.": vC07AddrVictim, "bank.l1.": vC07AddrBank, "bank.l3.": vC07AddrBank, "other.l2.": vC07AddrBank, "l1.": vC07AddrT1, "l2.": vC07AddrT2}
	var zones []string
	for z := range genuineHosts {
		zones = append(zones, z)
	}
	sort.Strings(zones)
	for _, z := range zones {
		for _, cd := range []bool{true, false} {
			d, err := p.h.resolver.delegations.Get(cache.Key(dns.Question{Name: z, Qtype: dns.TypeNS, Qclass: dns.ClassINET}, cd))
			if err != nil {
				continue
			}
			d.Servers.RLock()
			if !strings.EqualFold(d.Servers.Zone, z) {
				bad = append(bad, fmt.Sprintf("the delegation entry for %s carries the zone label %q", z, d.Servers.Zone))
			}
			for _, h := range d.Servers.Hosts {
				if !strings.EqualFold(h, genuineHosts[z]) {
					bad = append(bad, fmt.Sprintf("delegation cache names %s as a server of %s", h, z))
				}
			}
			for _, sv := range d.Servers.List {
				if sv.Addr != genuineSrv[z]+":53" {
					bad = append(bad, fmt.Sprintf("delegation cache holds server %s for %s", sv.Addr, z))
				}
			}
			d.Servers.RUnlock()
		}
	}
	b2, vdesc := l.askVictims(p)
	return append(bad, b2...), vdesc
}

func TestVerifC07Lab(t *testing.T) {
	out := os.Getenv("VERIF_OUT")
	if out == "" {
		t.Skip("VERIF_OUT not set")
	}
	f, err := os.Create(out)
	if err != nil {
		t.Fatal(err)
	}
	defer f.Close()
	emit := func(m map[string]any) {
		b, _ := json.Marshal(m)
		f.Write(append(b, '\n'))
	}
	r := rand.New(rand.NewSource(int64(vC07EnvInt("VERIF_SEED", 1))*32452843 + 3))
	n := vC07EnvInt("VERIF_N", 60)
	scratch := vC07Scratch()

	l, err := vC07NewLab()
	if err != nil {
		emit(map[string]any{"k": "lab-setup", "inconclusive": true, "desc": fmt.Sprint(err)})
		return
	}
	defer l.stop()

	// sanity: the honest tree resolves; otherwise loopback is not usable here and nothing can be concluded
	{
		p := l.newPipe(0, scratch)
		rep := p.ask("www.victim.l2.", dns.TypeA)
		p.close()
		l.drainAsked()
		if rep == nil || rep.Rcode != dns.RcodeSuccess || len(rep.Answer) != 1 {
			emit(map[string]any{"k": "lab-sanity", "inconclusive": true, "desc": "honest resolution failed on loopback"})
			return
		}
	}

	// ---------------------------------------------------------------- descent
	type dcase struct {
		parent   string // zone whose servers send the referral
		level    int
		child    string
		ns, glue string
		q        string
	}
	dcases := []dcase{
		{".", 0, "l1.", "l1. 3600 IN NS ns.l1.", "ns.l1. 3600 IN A " + vC07AddrT1, "ns.l1."},
		{".", 0, "l2.", "l2. 3600 IN NS ns.l2.", "ns.l2. 3600 IN A " + vC07AddrT2, "ns.l2."},
		{"l1.", 1, "evil.l1.", "evil.l1. 3600 IN NS ns.evil.l1.", "ns.evil.l1. 3600 IN A " + vC07AddrEvil, "ok.evil.l1."},
		{".", 0, "evil.l3.", "evil.l3. 3600 IN NS ns.evil.l3.", "ns.evil.l3. 3600 IN A " + vC07AddrEvil, "ok.evil.l3."},
		{".", 0, "bank.l3.", "bank.l3. 3600 IN NS ns.bank.l3.", "ns.bank.l3. 3600 IN A " + vC07AddrBank, "www.bank.l3."},
	}
	for _, dc := range dcases {
		for _, cached := range []bool{false, true} {
			p := l.newPipe(0, scratch)
			res := p.h.resolver
			if cached {
				// let an ordinary resolution cache the delegation first (uncached path)
				if rep := p.ask(dc.q, dns.TypeA); rep == nil || rep.Rcode != dns.RcodeSuccess {
					p.close()
					emit(map[string]any{"k": "descent", "inconclusive": true, "desc": "priming query failed for " + dc.q})
					continue
				}
			}
			req := new(dns.Msg)
			req.SetQuestion(dc.q, dns.TypeA)
			req.RecursionDesired = false
			req.CheckingDisabled = true
			servers := res.rootServers
			if dc.parent != "." {
				d, derr := res.delegations.Get(cache.Key(dns.Question{Name: dc.parent, Qtype: dns.TypeNS, Qclass: dns.ClassINET}, true))
				if derr != nil {
					// descend honestly once so that the parent's delegation exists
					p.ask("ns."+dc.parent, dns.TypeA)
					d, derr = res.delegations.Get(cache.Key(dns.Question{Name: dc.parent, Qtype: dns.TypeNS, Qclass: dns.ClassINET}, true))
				}
				if derr != nil {
					p.close()
					emit(map[string]any{"k": "descent", "inconclusive": true, "desc": "no delegation for " + dc.parent})
					continue
				}
				servers = d.Servers
			}
			if !cached {
				// make sure the child is not cached (the parent priming above may have walked through it)
				res.delegations.Remove(cache.Key(dns.Question{Name: dc.child, Qtype: dns.TypeNS, Qclass: dns.ClassINET}, true))
			}
			rs := &resolveState{req: req, servers: servers, depth: 30, level: dc.level, nomin: true, requestID: req.Id}
			resp := new(dns.Msg)
			resp.SetReply(req)
			resp.Ns = []dns.RR{vC07RR(dc.ns)}
			resp.Extra = []dns.RR{vC07RR(dc.glue)}
			info := res.extractDelegationInfo(resp)
			ctx, cancel := context.WithTimeout(context.Background(), 6*time.Second)
			_, perr := res.processDelegation(ctx, rs, resp, info, false)
			cancel()
			p.close()
			l.drainAsked()
			if perr != nil {
				emit(map[string]any{"k": "descent", "inconclusive": true, "desc": "processDelegation: " + perr.Error()})
				continue
			}
			step := "StepUncached"
			if cached {
				step = "StepCached"
			}
			zone := vC07Parse(rs.servers.Zone)
			goFailD := ""
			if rs.level < len(zone) {
				goFailD = fmt.Sprintf("resolution continued with level %d at the %d-label zone %s: the glue bailiwick test would run too shallow", rs.level, len(zone), rs.servers.Zone)
			}
			emit(map[string]any{
				"k":          "descent-" + strings.ToLower(step[4:]),
				"coq":        fmt.Sprintf("CaseDescent %s [%s %s] %s %d", vC07Parse(dc.parent).coq(), step, vC07Parse(dc.child).coq(), zone.coq(), rs.level),
				"nontrivial": true, "go_fail": goFailD,
				"desc": map[string]any{"parent_zone": dc.parent, "parent_level": dc.level, "referral": dc.child, "delegation_cached": cached,
					"continued_with_zone": rs.servers.Zone, "continued_with_level": rs.level},
			})
		}
	}

	// ----------------------------------------------------------------- attack
	for c := 0; c < n; c++ {
		minLevel := []int{0, 3}[r.Intn(2)]
		qn := vC07Name{fmt.Sprintf("x%d", c), "evil", "l1"}
		attack, tags := vC07GenAttack(r, qn, dns.TypeA)
		down := false
		for _, tg := range tags {
			if tg == "ns-down" {
				down = true
			}
		}
		if down && r.Intn(4) != 0 {
			// put the question below the delegated name so that the referral is a real downward one
			qn = vC07Name{fmt.Sprintf("x%d", c), "sub", "evil", "l1"}
			minLevel = 0
			attack.answer, attack.rcode = nil, 0
			attack.ns = []vC07RRSpec{
				{owner: vC07N("sub.evil.l1."), rrtype: dns.TypeNS, class: dns.ClassINET, ttl: 300, target: vC07N("ns.sub.evil.l1.")},
				{owner: vC07N("sub.evil.l1."), rrtype: dns.TypeNS, class: dns.ClassINET, ttl: 300, target: vC07N("ns.bank.l1.")},
				{owner: vC07N("Sub.Evil.L1."), rrtype: dns.TypeNS, class: dns.ClassINET, ttl: 300, target: vC07N("ns.victim.l2.")},
			}
			tags = append([]string{"downward"}, tags...)
		}
		qs := qn.String()
		amsg := attack.msg()
		l.evil.setHandle(func(q dns.Question) *dns.Msg {
			if strings.EqualFold(q.Name, qs) && q.Qtype == dns.TypeA {
				return amsg
			}
			if strings.EqualFold(q.Name, "x.sub.evil.l1.") || (dns.IsSubDomain("sub.evil.l1.", strings.ToLower(q.Name)) && q.Qtype == dns.TypeA && !strings.HasPrefix(strings.ToLower(q.Name), "ns.")) {
				m := &dns.Msg{}
				m.Authoritative = true
				m.Answer = []dns.RR{vC07RR(q.Name + " 300 IN A 198.51.100.70")}
				return m
			}
			return l.honestEvil(q)
		})
		p := l.newPipe(minLevel, scratch)
		rep := p.ask(qs, dns.TypeA)
		subs := p.rec.take()
		askedAttack := l.drainAsked()
		seen := map[string]bool{}
		var repAns []string
		if rep != nil {
			for _, rr := range rep.Answer {
				seen[vC07Ident(rr)] = true
			}
			repAns = vC07RRStrings(rep.Answer)
		}
		var vis []string
		for _, s := range attack.answer {
			vis = append(vis, fmt.Sprint(seen[vC07Ident(s.rr())]))
		}
		// glue cache: names for which an address the attacker sent is now cached
		var glueObs []vC07Name
		var glueDesc []string
		seenG := map[string]bool{}
		for _, sec := range [][]vC07RRSpec{attack.answer, attack.ns, attack.extra} {
			for _, s := range sec {
				if s.rrtype != dns.TypeA {
					continue
				}
				key := strings.ToLower(s.owner.String())
				addrs, ok := p.h.resolver.getIPv4Cache(key)
				if !ok || seenG[key] {
					continue
				}
				want, _ := netip.AddrFromSlice(s.ip)
				for _, a := range addrs {
					if a == want.Unmap() {
						seenG[key] = true
						glueObs = append(glueObs, vC07Parse(key))
						glueDesc = append(glueDesc, key+"="+a.String())
					}
				}
			}
		}
		// delegation cache: NS owners for which the cached server set names a host the attacker supplied
		var delegObs []vC07Name
		var delegDesc []string
		seenD := map[string]bool{}
		for _, s := range attack.ns {
			if s.rrtype != dns.TypeNS {
				continue
			}
			key := strings.ToLower(s.owner.String())
			if seenD[key] {
				continue
			}
			for _, cd := range []bool{true, false} {
				d, derr := p.h.resolver.delegations.Get(cache.Key(dns.Question{Name: key, Qtype: dns.TypeNS, Qclass: dns.ClassINET}, cd))
				if derr != nil {
					continue
				}
				d.Servers.RLock()
				hosts := append([]string{}, d.Servers.Hosts...)
				d.Servers.RUnlock()
				for _, h := range hosts {
					for _, s2 := range attack.ns {
						if s2.rrtype == dns.TypeNS && strings.EqualFold(s2.owner.String(), key) && strings.EqualFold(s2.target.String(), h) && !seenD[key] &&
							!(key == "evil.l1." && strings.EqualFold(h, "ns.evil.l1.")) {
							seenD[key] = true
							delegObs = append(delegObs, vC07Parse(key))
							delegDesc = append(delegDesc, key+" via "+h)
						}
					}
				}
			}
		}
		bad, vdesc := l.askVictims(p)
		p.close()
		l.evil.setHandle(l.honestEvil)

		// Go-side ground truth on the first reply: a record owned outside the attacker's zones must be genuine
		goFail := ""
		if rep != nil {
			for _, rr := range rep.Answer {
				if !l.truth(rr) {
					goFail = "reply to " + qs + " relays " + vC07Ident(rr) + ", which the zone owning that name never published"
				}
			}
		}
		for i, sp := range attack.answer {
			if vis[i] == "true" && !vC07InEvil(sp.owner.String()) {
				if goFail == "" {
					goFail = "reply to " + qs + " relays " + sp.String() + " sent by the evil.l1. server"
				}
			}
		}
		for _, g := range glueObs {
			if !vC07InEvil(g.String()) {
				goFail = "glue cache holds the attacker's address for " + g.String()
			}
		}
		for _, d := range delegObs {
			if !vC07InEvil(d.String()) {
				goFail = "delegation cache holds the attacker's servers for " + d.String()
			}
		}
		if len(bad) > 0 {
			goFail = strings.Join(bad, "; ")
		}
		emit(map[string]any{
			"k": "attack-" + tags[0],
			"coq": fmt.Sprintf("CaseLab %s 2 (mk_q %s 1 1) %s [%s] %s %s %v", vC07N(vC07Evil).coq(), qn.coq(), attack.coq(),
				strings.Join(vis, ";"), vC07CoqNames(glueObs), vC07CoqNames(delegObs), len(bad) > 0),
			"nontrivial": true, "go_fail": goFail,
			"desc": map[string]any{"zone": vC07Evil, "question": qs, "qname_min_level": minLevel, "attack": tags,
				"sent_answer": vC07DescRRs(attack.answer), "sent_authority": vC07DescRRs(attack.ns), "sent_additional": vC07DescRRs(attack.extra), "sent_rcode": attack.rcode,
				"client_reply_answer": repAns, "client_rcode": func() int {
					if rep == nil {
						return -1
					}
					return rep.Rcode
				}(),
				"glue_cache": glueDesc, "delegation_cache": delegDesc, "victim_replies": vdesc, "servers_asked_during_attack": vC07Sorted(askedAttack)},
		})
		// the same reply against the full alias-chase model, with the sub-queries the cache issued as the oracle
		if rep != nil {
			var oparts, odesc []string
			for _, sr := range subs {
				if sr.qtype != dns.TypeA {
					continue
				}
				if sr.err {
					oparts = append(oparts, fmt.Sprintf("(%s, SubErr)", vC07Parse(sr.name).coq()))
					odesc = append(odesc, sr.name+": error")
				} else {
					oparts = append(oparts, fmt.Sprintf("(%s, SubResp %d %s %v)", vC07Parse(sr.name).coq(), sr.rcode, vC07CoqRRs(vC07FromRRs(sr.answer)), sr.hasNs))
					odesc = append(odesc, fmt.Sprintf("%s: %s %v", sr.name, dns.RcodeToString[sr.rcode], vC07RRStrings(sr.answer)))
				}
			}
			emit(map[string]any{
				"k": "reply-" + tags[0],
				"coq": fmt.Sprintf("CaseLabReply %s (mk_q %s 1 1) %s [%s] %d %s", vC07N(vC07Evil).coq(), qn.coq(), attack.coq(), strings.Join(oparts, ";"),
					rep.Rcode, vC07CoqRRs(vC07FromRRs(rep.Answer))),
				"nontrivial": len(subs) > 0,
				"desc": map[string]any{"zone": vC07Evil, "question": qs, "attack": tags, "sent_rcode": attack.rcode, "sent_answer": vC07DescRRs(attack.answer),
					"subqueries": odesc, "client_rcode": rep.Rcode, "client_reply_answer": repAns},
			})
		}
	}

	// ------------------------------------------------- rewritten question section
	// the attacker answers with the right ID but echoes another question (a victim name), with
	// every rcode an authority may send and with or without records for that name
	echoN := n / 6
	if echoN < 10 {
		echoN = 10
	}
	for c := 0; c < echoN; c++ {
		minLevel := []int{0, 3}[r.Intn(2)]
		qn := vC07Name{fmt.Sprintf("e%d", c), "evil", "l1"}
		qs := qn.String()
		var attack vC07Attack
		attack.rcode = []int{dns.RcodeNameError, dns.RcodeNameError, dns.RcodeRefused, dns.RcodeSuccess, dns.RcodeServerFailure, dns.RcodeFormatError}[r.Intn(6)]
		victimQ := []string{"www.victim.l2.", "mail.victim.l2.", "www.bank.l1.", "victim.l2."}[r.Intn(4)]
		echoed := vC07Parse(victimQ)
		echoType := dns.TypeA
		tags := []string{"echo-" + strings.ToLower(dns.RcodeToString[attack.rcode])}
		bare := c%2 == 0 // half of the scenarios: a foreign question on a bare header, one per rcode in turn
		if bare {
			attack.rcode = []int{dns.RcodeNameError, dns.RcodeRefused, dns.RcodeSuccess, dns.RcodeServerFailure, dns.RcodeFormatError, dns.RcodeNotImplemented}[(c/2)%6]
			tags[0] = "echo-" + strings.ToLower(dns.RcodeToString[attack.rcode])
		}
		pick := r.Intn(4)
		if bare {
			pick = 3
		}
		switch pick {
		case 0:
			echoed = vC07CaseMix(r, qn) // same question in another case: a legitimate echo
			tags = append(tags, "same-name-case")
		case 1:
			echoed = append(vC07Name{}, qn...)
			echoType = dns.TypeAAAA
			tags = append(tags, "same-name-other-type")
		default:
			tags = append(tags, "foreign-name")
		}
		if !bare && r.Intn(2) == 0 {
			attack.answer = []vC07RRSpec{{owner: echoed, rrtype: dns.TypeA, class: dns.ClassINET, ttl: 300, ip: []byte{6, 6, 6, 44}}}
			tags = append(tags, "with-answer")
		}
		if !bare && r.Intn(3) == 0 {
			attack.ns = []vC07RRSpec{{owner: vC07N("victim.l2."), rrtype: dns.TypeSOA, class: dns.ClassINET, ttl: 300}}
			tags = append(tags, "with-soa")
		}
		if c%3 == 1 && pick >= 2 {
			// a referral for the echoed (victim) zone with glue for its name server: the two-site attack of C07-9
			attack.answer = nil
			attack.ns = []vC07RRSpec{{owner: vC07N("victim.l2."), rrtype: dns.TypeNS, class: dns.ClassINET, ttl: 300, target: vC07N("ns.victim.l2.")}}
			attack.extra = []vC07RRSpec{{owner: vC07N("ns.victim.l2."), rrtype: dns.TypeA, class: dns.ClassINET, ttl: 300, ip: vC07Rogue}}
			tags = append(tags, "with-referral+glue")
		}
		amsg := attack.msg()
		amsg.Question = []dns.Question{{Name: echoed.String(), Qtype: echoType, Qclass: dns.ClassINET}}
		l.evil.setHandle(func(q dns.Question) *dns.Msg {
			if strings.EqualFold(q.Name, qs) && q.Qtype == dns.TypeA {
				return amsg
			}
			return l.honestEvil(q)
		})
		p := l.newPipe(minLevel, scratch)
		rep := p.ask(qs, dns.TypeA)
		askedAttack := l.drainAsked()
		seen := map[string]bool{}
		var repAns []string
		crc := -1
		if rep != nil {
			crc = rep.Rcode
			for _, rr := range rep.Answer {
				seen[vC07Ident(rr)] = true
			}
			repAns = vC07RRStrings(rep.Answer)
		}
		var vis []string
		goFail := ""
		for _, sp := range attack.answer {
			v := seen[vC07Ident(sp.rr())]
			vis = append(vis, fmt.Sprint(v))
			if v && !vC07InEvil(sp.owner.String()) {
				goFail = "reply to " + qs + " relays " + sp.String()
			}
		}
		bad, vdesc := l.health(p)
		p.close()
		l.evil.setHandle(l.honestEvil)
		if len(bad) > 0 {
			goFail = strings.Join(bad, "; ")
		}
		emit(map[string]any{
			"k": "attack-" + tags[0],
			"coq": fmt.Sprintf("CaseLabEcho %s (mk_q %s 1 1) (mk_q %s %d 1) %s [%s] [] [] %v", vC07N(vC07Evil).coq(), qn.coq(), echoed.coq(), echoType, attack.coq(),
				strings.Join(vis, ";"), len(bad) > 0),
			"nontrivial": true, "go_fail": goFail,
			"desc": map[string]any{"zone": vC07Evil, "question": qs, "echoed_question": fmt.Sprintf("%s %s", echoed.String(), dns.TypeToString[echoType]), "qname_min_level": minLevel,
				"attack": tags, "sent_rcode": attack.rcode, "sent_answer": vC07DescRRs(attack.answer), "sent_authority": vC07DescRRs(attack.ns),
				"client_rcode": crc, "client_reply_answer": repAns, "victim_replies": vdesc, "servers_asked_during_attack": vC07Sorted(askedAttack)},
		})
	}

	// ----------------------------------------------------------------- DNAME
	// the attacker publishes a DNAME (inside or outside its zone, pointing inside or outside) with a
	// synthesised alias and a forged record for the rewritten name; Resolver.checkDname follows it
	dnameN := n / 8
	if dnameN < 6 {
		dnameN = 6
	}
	for c := 0; c < dnameN; c++ {
		minLevel := []int{0, 3}[r.Intn(2)]
		d := fmt.Sprintf("d%d", c)
		qs := "www." + d + ".evil.l1."
		var ans []dns.RR
		var tags []string
		switch c % 6 {
		case 0:
			ans = []dns.RR{vC07RR(d + ".evil.l1. 300 IN DNAME victim.l2."), vC07RR(qs + " 300 IN CNAME www.victim.l2."), vC07RR("www.victim.l2. 300 IN A 6.6.6.20")}
			tags = []string{"dname-out", "synth", "forged-tail"}
		case 1:
			ans = []dns.RR{vC07RR(d + ".evil.l1. 300 IN DNAME victim.l2."), vC07RR("www.victim.l2. 300 IN A 6.6.6.21")}
			tags = []string{"dname-out", "forged-tail"}
		case 2:
			ans = []dns.RR{vC07RR("l1. 300 IN DNAME victim.l2."), vC07RR(qs + " 300 IN CNAME www." + d + ".evil.victim.l2."), vC07RR("www.bank.l1. 300 IN A 6.6.6.22")}
			tags = []string{"dname-owner-above-zone", "forged-sibling"}
		case 3:
			ans = []dns.RR{vC07RR(d + ".evil.l1. 300 IN DNAME t.evil.l1."), vC07RR(qs + " 300 IN CNAME www.t.evil.l1."), vC07RR("www.t.evil.l1. 300 IN A 198.51.100.77"), vC07RR("mail.victim.l2. 300 IN A 6.6.6.23")}
			tags = []string{"dname-in", "synth", "forged-unrelated"}
		case 4:
			ans = []dns.RR{vC07RR("www.victim.l2. 300 IN A 6.6.6.24"), vC07RR(d + ".evil.l1. 300 IN DNAME victim.l2.")}
			tags = []string{"forged-before-dname"}
		default:
			ans = []dns.RR{vC07RR(d + ".evil.l1. 300 IN DNAME bank.l1."), vC07RR(qs + " 300 IN CNAME www.bank.l1."), vC07RR("www.bank.l1. 300 IN A 6.6.6.25"), vC07RR("bank.l1. 300 IN NS ns.evil.l1.")}
			tags = []string{"dname-sibling", "synth", "forged-tail", "forged-ns-in-answer"}
		}
		amsg := &dns.Msg{}
		amsg.Authoritative = true
		amsg.Answer = ans
		l.evil.setHandle(func(q dns.Question) *dns.Msg {
			if strings.EqualFold(q.Name, qs) && q.Qtype == dns.TypeA {
				return amsg
			}
			if strings.EqualFold(q.Name, "www.t.evil.l1.") && q.Qtype == dns.TypeA {
				m := &dns.Msg{}
				m.Authoritative = true
				m.Answer = []dns.RR{vC07RR("www.t.evil.l1. 300 IN A 198.51.100.77")}
				return m
			}
			return l.honestEvil(q)
		})
		p := l.newPipe(minLevel, scratch)
		rep := p.ask(qs, dns.TypeA)
		askedAttack := l.drainAsked()
		goFail := ""
		var repAns []string
		crc := -1
		if rep != nil {
			crc = rep.Rcode
			repAns = vC07RRStrings(rep.Answer)
			for _, rr := range rep.Answer {
				if !l.truth(rr) {
					goFail = "reply to " + qs + " relays " + vC07Ident(rr) + ", which the zone owning that name never published"
				}
			}
		}
		bad, vdesc := l.health(p)
		p.close()
		l.evil.setHandle(l.honestEvil)
		if len(bad) > 0 {
			goFail = strings.Join(bad, "; ")
		}
		emit(map[string]any{
			"k": "attack-" + tags[0], "nontrivial": true, "go_fail": goFail,
			"desc": map[string]any{"zone": vC07Evil, "question": qs, "qname_min_level": minLevel, "attack": tags, "sent_answer": vC07RRStrings(ans),
				"client_rcode": crc, "client_reply_answer": repAns, "victim_replies": vdesc, "servers_asked_during_attack": vC07Sorted(askedAttack)},
		})
	}

	// ------------------------------------------------- hostile minimised hops
	// qname minimisation on and a deep question: the attacker's server is first asked shorter names;
	// it answers THOSE with the hostile message and the full question honestly
	minN := n / 6
	if minN < 8 {
		minN = 8
	}
	for c := 0; c < minN; c++ {
		minLevel := []int{4, 5, 3}[c%3]
		qn := vC07Name{fmt.Sprintf("m%d", c), "b", "c", "evil", "l1"}
		qs := qn.String()
		hop := vC07Name(qn[len(qn)-3-c%2:]) // c.evil.l1. or b.c.evil.l1.
		attack, tags := vC07GenAttack(r, hop, dns.TypeA)
		if c%4 == 3 {
			// a referral that is valid for the minimised name, with hostile glue
			attack = vC07Attack{
				ns: []vC07RRSpec{{owner: hop, rrtype: dns.TypeNS, class: dns.ClassINET, ttl: 300, target: vC07N("ns.victim.l2.")},
					{owner: hop, rrtype: dns.TypeNS, class: dns.ClassINET, ttl: 300, target: vC07N("ns.bank.l1.")},
					{owner: hop, rrtype: dns.TypeNS, class: dns.ClassINET, ttl: 300, target: append(vC07Name{"ns"}, hop...)}},
				extra: []vC07RRSpec{{owner: vC07N("ns.victim.l2."), rrtype: dns.TypeA, class: dns.ClassINET, ttl: 300, ip: vC07Rogue},
					{owner: vC07N("ns.bank.l1."), rrtype: dns.TypeA, class: dns.ClassINET, ttl: 300, ip: vC07Rogue},
					{owner: append(vC07Name{"ns"}, hop...), rrtype: dns.TypeA, class: dns.ClassINET, ttl: 300, ip: vC07Rogue}},
			}
			tags = []string{"min-referral", "glue-out", "glue-sibling", "glue-in"}
		}
		amsg := attack.msg()
		hs := hop.String()
		l.evil.setHandle(func(q dns.Question) *dns.Msg {
			name := strings.ToLower(q.Name)
			switch {
			case name == strings.ToLower(hs) && q.Qtype == dns.TypeA:
				return amsg
			case name == strings.ToLower(qs) && q.Qtype == dns.TypeA:
				m := &dns.Msg{}
				m.Authoritative = true
				m.Answer = []dns.RR{vC07RR(qs + " 300 IN A 198.51.100.70")}
				return m
			case dns.IsSubDomain("c.evil.l1.", name) && q.Qtype == dns.TypeA && !strings.HasPrefix(name, "ns."):
				return vC07SoftNeg(vC07Evil, false) // empty non-terminals on the way
			}
			return l.honestEvil(q)
		})
		p := l.newPipe(minLevel, scratch)
		rep := p.ask(qs, dns.TypeA)
		askedAttack := l.drainAsked()
		goFail := ""
		var repAns []string
		crc := -1
		if rep != nil {
			crc = rep.Rcode
			repAns = vC07RRStrings(rep.Answer)
			for _, rr := range rep.Answer {
				if !l.truth(rr) {
					goFail = "reply to " + qs + " relays " + vC07Ident(rr) + ", which the zone owning that name never published"
				}
			}
		}
		bad, vdesc := l.health(p)
		p.close()
		l.evil.setHandle(l.honestEvil)
		if len(bad) > 0 {
			goFail = strings.Join(bad, "; ")
		}
		emit(map[string]any{
			"k": "minhop-" + tags[0], "nontrivial": true, "go_fail": goFail,
			"desc": map[string]any{"zone": vC07Evil, "question": qs, "qname_min_level": minLevel, "hostile_at": hs, "attack": tags,
				"sent_rcode": attack.rcode, "sent_answer": vC07DescRRs(attack.answer), "sent_authority": vC07DescRRs(attack.ns), "sent_additional": vC07DescRRs(attack.extra),
				"client_rcode": crc, "client_reply_answer": repAns, "victim_replies": vdesc, "servers_asked_during_attack": vC07Sorted(askedAttack)},
		})
	}

	// ------------------------------------------------- glue on the machine's own addresses
	localN := n / 6
	if localN < 10 {
		localN = 10
	}
	vC07LabLocal(l, r, localN, scratch, emit)

	// ------------------------------------------------- referrals inside error replies; the NS-address lookup window
	errN := n / 4
	if errN < 14 {
		errN = 14
	}
	vC07LabErrReferrals(l, r, errN, scratch, emit)
	winN := n / 6
	if winN < 8 {
		winN = 8
	}
	vC07LabWindow(l, r, winN, scratch, emit)

	// ------------------------------------------------- one hop of the real Resolve, minimised or not, judged by the model
	hopN := n / 2
	if hopN < 40 {
		hopN = 40
	}
	vC07LabMinHop(l, rand.New(rand.NewSource(int64(vC07EnvInt("VERIF_SEED", 1))*86028121+17)), hopN, scratch, emit)

	// ------------------------------------------------- Authority / Additional of positive answers as the client sees them
	secN := n / 5
	if secN < 12 {
		secN = 12
	}
	vC07LabSections(l, rand.New(rand.NewSource(int64(vC07EnvInt("VERIF_SEED", 1))*67867967+19)), secN, scratch, emit)

	// ------------------------------------------------------- cached descent, live
	for rep := 0; rep < 2; rep++ {
		p := l.newPipe(0, scratch)
		q1done := make(chan struct{})
		l.root.setHandle(func(q dns.Question) *dns.Msg {
			if strings.EqualFold(q.Name, "x.sub.evil.l3.") {
				select {
				case <-q1done:
				case <-time.After(1200 * time.Millisecond):
				}
			}
			return l.zRoot.serve(q)
		})
		attack := vC07Attack{
			ns:    []vC07RRSpec{{owner: vC07N("sub.evil.l3."), rrtype: dns.TypeNS, class: dns.ClassINET, ttl: 300, target: vC07N("ns.bank.l3.")}},
			extra: []vC07RRSpec{{owner: vC07N("ns.bank.l3."), rrtype: dns.TypeA, class: dns.ClassINET, ttl: 300, ip: vC07Rogue}},
		}
		amsg := attack.msg()
		amsg.Authoritative = false
		l.evil.setHandle(func(q dns.Question) *dns.Msg {
			if dns.IsSubDomain("sub.evil.l3.", strings.ToLower(q.Name)) {
				return amsg
			}
			if !vC07InEvil(q.Name) {
				m := &dns.Msg{}
				m.Authoritative = true
				m.Answer = []dns.RR{vC07RR(q.Name + " 300 IN A 6.6.6.9")}
				return m
			}
			return l.honestEvil(q)
		})
		var wg sync.WaitGroup
		wg.Add(1)
		go func() { defer wg.Done(); p.ask("x.sub.evil.l3.", dns.TypeA) }()
		time.Sleep(60 * time.Millisecond)
		r1 := p.ask("ok.evil.l3.", dns.TypeA)
		close(q1done)
		wg.Wait()
		l.drainAsked()
		var glueObs []vC07Name
		var glueDesc []string
		if addrs, ok := p.h.resolver.getIPv4Cache("ns.bank.l3."); ok {
			for _, a := range addrs {
				if a == netip.AddrFrom4([4]byte{192, 0, 2, 99}) {
					glueObs = append(glueObs, vC07N("ns.bank.l3."))
					glueDesc = append(glueDesc, "ns.bank.l3.="+a.String())
				}
			}
		}
		bad, vdesc := l.askVictims(p)
		p.close()
		l.root.setHandle(l.zRoot.serve)
		l.evil.setHandle(l.honestEvil)
		if r1 == nil || r1.Rcode != dns.RcodeSuccess {
			emit(map[string]any{"k": "cached-descent-live", "inconclusive": true, "desc": "the priming query did not complete"})
			continue
		}
		goFail := ""
		if len(glueObs) > 0 {
			goFail = "glue cache holds the address evil.l3.'s server sent for ns.bank.l3."
		}
		if len(bad) > 0 {
			goFail = strings.Join(bad, "; ")
		}
		emit(map[string]any{
			"k": "cached-descent-live",
			"coq": fmt.Sprintf("CaseLab %s 2 (mk_q %s 1 1) %s [] %s [] %v", vC07N(vC07Evil3).coq(), vC07N("x.sub.evil.l3.").coq(), attack.coq(),
				vC07CoqNames(glueObs), len(bad) > 0),
			"nontrivial": true, "go_fail": goFail,
			"desc": map[string]any{"zone": vC07Evil3, "question": "x.sub.evil.l3.", "qname_min_level": 0,
				"how":             "the root delegates evil.l3. (two labels at once); a second client query in flight meets the delegation cached by the first",
				"sent_authority":  vC07DescRRs(attack.ns), "sent_additional": vC07DescRRs(attack.extra),
				"glue_cache":      glueDesc, "victim_replies": vdesc},
		})
	}
}
