//go:build verif

package resolver

// C13 lab driver (overlay-injected): the real Resolver against scripted
// authorities on loopback.
//
//  A. Fan-out: a zone with 1..6 authority addresses, each scripted as healthy
//     (fast or slower than its lame peers), REFUSED, SERVFAIL, NOTIMP or
//     silent, in every order.  Observed: did Resolver.Resolve publish a zone
//     failure (RecordZoneFailure) — allowed only when EVERY server of the zone
//     failed to give a usable response — and what it returned.
//  B. Shed load: cache.Cache in front of the resolver's DNSHandler; the
//     resolver's in-flight capacity (global pool or the zone's quota) is
//     exhausted for one query, then free again.  Observed: rcode / EDE /
//     authority packet counts of both queries.  A query shed for lack of
//     capacity says nothing about the question, so the next one must reach the
//     authority.
//
// Loopback hiccups never decide a verdict: an outcome that looks wrong is
// repeated on fresh sockets and reported only if it reproduces every time.

import (
	"context"
	"encoding/json"
	"fmt"
	"math/rand"
	"net"
	"os"
	"runtime"
	"sort"
	"strconv"
	"strings"
	"sync/atomic"
	"testing"
	"time"

	"github.com/miekg/dns"
	"github.com/semihalev/sdns/config"
	"github.com/semihalev/sdns/internal/authority"
	internalcache "github.com/semihalev/sdns/internal/cache"
	"github.com/semihalev/sdns/internal/dnsutil"
	"github.com/semihalev/sdns/internal/mock"
	"github.com/semihalev/sdns/middleware"
	mcache "github.com/semihalev/sdns/middleware/cache"
)

const (
	vC13Healthy = iota
	vC13HealthySlow
	vC13Refused
	vC13ServFail
	vC13NotImp
	vC13Silent
	vC13NotAuth
	vC13NXDomain
	vC13BogusReferral // gated authorities only
)

var vC13BehaviourNames = []string{"healthy", "healthy-slow", "REFUSED", "SERVFAIL", "NOTIMP", "silent", "NOTAUTH", "NXDOMAIN", "bogus-referral"}

type vC13Authority struct {
	pc     net.PacketConn
	srv    *dns.Server
	asked  atomic.Int64
	behave int
}

func vC13StartAuthority(behave int) (*vC13Authority, error) {
	pc, err := net.ListenPacket("udp", "127.0.0.1:0")
	if err != nil {
		return nil, err
	}
	a := &vC13Authority{pc: pc, behave: behave}
	a.srv = &dns.Server{Net: "udp", PacketConn: pc, Handler: dns.HandlerFunc(func(w dns.ResponseWriter, req *dns.Msg) {
		if len(req.Question) == 0 {
			return
		}
		a.asked.Add(1)
		q := req.Question[0]
		reply := new(dns.Msg)
		reply.SetReply(req)
		switch a.behave {
		case vC13Silent:
			return
		case vC13Refused:
			reply.Rcode = dns.RcodeRefused
		case vC13ServFail:
			reply.Rcode = dns.RcodeServerFailure
		case vC13NotImp:
			reply.Rcode = dns.RcodeNotImplemented
		case vC13NotAuth:
			reply.Rcode = dns.RcodeNotAuth
		case vC13NXDomain:
			// a usable response: the name does not exist (SOA of the zone in the authority section)
			reply.Rcode = dns.RcodeNameError
			reply.Authoritative = true
			zone := q.Name
			if i, end := dns.NextLabel(q.Name, 0); !end {
				zone = q.Name[i:]
			}
			reply.Ns = []dns.RR{&dns.SOA{Hdr: dns.RR_Header{Name: zone, Rrtype: dns.TypeSOA, Class: dns.ClassINET, Ttl: 60}, Ns: "ns." + zone, Mbox: "h." + zone, Serial: 1, Refresh: 60, Retry: 60, Expire: 60, Minttl: 60}}
		case vC13HealthySlow:
			time.Sleep(120 * time.Millisecond)
			fallthrough
		default:
			reply.Authoritative = true
			reply.Answer = []dns.RR{&dns.A{Hdr: dns.RR_Header{Name: q.Name, Rrtype: dns.TypeA, Class: dns.ClassINET, Ttl: 60}, A: net.IPv4(192, 0, 2, 44)}}
		}
		_ = w.WriteMsg(reply)
	})}
	started := make(chan struct{})
	a.srv.NotifyStartedFunc = func() { close(started) }
	go func() { _ = a.srv.ActivateAndServe() }()
	select {
	case <-started:
	case <-time.After(2 * time.Second):
		pc.Close()
		return nil, fmt.Errorf("authority did not start")
	}
	return a, nil
}

func (a *vC13Authority) stop() { _ = a.srv.Shutdown(); _ = a.pc.Close() }

func vC13LabResolver(root *authority.Servers) *Resolver {
	const maxConcurrent = 128
	cfg := &config.Config{DNSSEC: "off", Maxdepth: 30, MaxConcurrentQueries: maxConcurrent, Timeout: config.Duration{Duration: time.Second}}
	return &Resolver{
		cfg:             cfg,
		delegations:     authority.NewCache(),
		rootServers:     root,
		glueV4:          internalcache.New(defaultCacheSize),
		dnssec:          false,
		qnameMinLevel:   0,
		netTimeout:      time.Second,
		sfGroup:         NewSingleflightWrapper(),
		circuitBreaker:  newCircuitBreaker(),
		maxConcurrent:   make(chan struct{}, maxConcurrent),
		resolutionSlots: make(chan struct{}, maxConcurrent),
	}
}

type vC13FanoutObs struct {
	records, clears int
	rcode           int
	asked           []int64
	err             string
	infra           bool
}

func vC13Fanout(zone string, behaviours []int) vC13FanoutObs {
	var auths []*vC13Authority
	defer func() {
		for _, a := range auths {
			a.stop()
		}
	}()
	var list []*authority.Server
	for _, b := range behaviours {
		a, err := vC13StartAuthority(b)
		if err != nil {
			return vC13FanoutObs{infra: true, err: err.Error()}
		}
		auths = append(auths, a)
		list = append(list, authority.NewServer(a.pc.LocalAddr().String(), authority.IPv4))
	}
	servers := &authority.Servers{Zone: zone, List: list}
	r := vC13LabResolver(servers)
	st := &vC13ZoneStore{}
	var ms middleware.Store = st
	r.store.Store(&ms)
	req := new(dns.Msg)
	req.SetQuestion("www."+strings.TrimPrefix(zone, "."), dns.TypeA)
	ctx, cancel := context.WithTimeout(context.Background(), 8*time.Second)
	defer cancel()
	resp, err := r.Resolve(ctx, req, servers, false, 5, 0, true, nil)
	obs := vC13FanoutObs{records: len(st.recorded), clears: len(st.cleared), rcode: 999}
	if err != nil {
		obs.err = err.Error()
	}
	if resp != nil && err == nil {
		obs.rcode = resp.Rcode
	}
	for _, a := range auths {
		obs.asked = append(obs.asked, a.asked.Load())
	}
	return obs
}

// one shed-load episode through cache + resolver handler
type vC13ShedObs struct {
	rc1, ede1, rc2, ede2 int
	up1, up2             int64
	infra                bool
	note                 string
}

func vC13Shed(zoneQuota bool, name string) vC13ShedObs {
	a, err := vC13StartAuthority(vC13Healthy)
	if err != nil {
		return vC13ShedObs{infra: true, note: err.Error()}
	}
	defer a.stop()
	root := &authority.Servers{Zone: ".", List: []*authority.Server{authority.NewServer(a.pc.LocalAddr().String(), authority.IPv4)}}
	r := vC13LabResolver(root)
	cfg := &config.Config{DNSSEC: "off", Maxdepth: 30, CacheSize: 1024, Expire: 300, Timeout: config.Duration{Duration: time.Second}, QueryTimeout: config.Duration{Duration: 5 * time.Second}}
	h := &DNSHandler{resolver: r, cfg: cfg}
	c := mcache.New(cfg)
	defer c.Stop()

	ask := func() (int, int) {
		req := new(dns.Msg)
		req.SetQuestion(name, dns.TypeA)
		req.SetEdns0(1232, false)
		w := mock.NewWriter("udp", "192.0.2.1:53000")
		ch := middleware.NewChain([]middleware.Handler{c, h})
		ch.Reset(w, req)
		ch.Next(context.Background())
		rc, ede := 999, -1
		if m := w.Msg(); m != nil {
			rc = m.Rcode
			if e := dnsutil.GetEDE(m); e != nil {
				ede = int(e.InfoCode)
			}
		}
		return rc, ede
	}

	// exhaust the capacity the way load does: every slot is taken by other work
	var release func()
	if zoneQuota {
		r.zoneInflight = newZoneInflightLimiter(1)
		rel, ok := r.zoneInflight.acquire(".")
		if !ok {
			return vC13ShedObs{infra: true, note: "could not take the zone quota"}
		}
		release = rel
	} else {
		r.resolutionSlots = make(chan struct{}, 1)
		r.resolutionSlots <- struct{}{}
		release = func() { <-r.resolutionSlots }
	}
	var o vC13ShedObs
	o.rc1, o.ede1 = ask()
	o.up1 = a.asked.Load()
	release() // the load is gone
	o.rc2, o.ede2 = ask()
	o.up2 = a.asked.Load() - o.up1
	return o
}

// ---- C. Gated fan-out: the SCHEDULE of Resolver.lookup is observed, not guessed.
// (Optionally the client's context is cancelled at a barrier after some replies.)
//
// Every authority holds its reply until the driver releases it.  Between two releases the
// driver waits for a barrier that does not depend on wall-clock: in ONE goroutine snapshot
// (runtime.Stack, world stopped) the lookup goroutine is parked in its select and the number
// of live queryServer goroutines equals (authorities whose query has arrived) - (replies
// released).  queryServer goroutines live from `go r.queryServer` until lookup has received
// their result, so equality holds exactly when every started server's query has reached its
// authority AND every released reply has been consumed by lookup.  At a barrier the driver
// notes how many servers have been started (fallback-timer ticks start servers at times the
// driver does not control; a tick and a consumed non-final result commute in the model —
// Proofs_Fanout.timer_commutes_with_result), picks the next reply to release among the
// servers already asked, and goes on until Resolve returns.  Servers are numbered in the
// order their first query arrived (= the order lookup started them; servers started between
// two barriers are interchangeable), unstarted ones last.
type vC13Gated struct {
	pc     net.PacketConn
	srv    *dns.Server
	asked  atomic.Int64
	seq    atomic.Int64 // 1-based order of the first query, 0 = never asked
	behave int
	gate   chan struct{}
	quit   chan struct{}
	tcp    net.Listener // read-error authorities only
}

func vC13StartGated(behave int, order *atomic.Int64) (*vC13Gated, error) {
	pc, err := net.ListenPacket("udp", "127.0.0.1:0")
	if err != nil {
		return nil, err
	}
	a := &vC13Gated{pc: pc, behave: behave, gate: make(chan struct{}), quit: make(chan struct{})}
	if behave == vC13Silent {
		// The exchange's last retry goes over TCP to the same port.  Nothing of ours listens there,
		// but on a shared machine some other process' server might: own the TCP port too and hang up
		// on whoever connects, so that the retry ends in a read error whatever else runs here.
		for try := 0; ; try++ {
			ln, lerr := net.Listen("tcp", pc.LocalAddr().String())
			if lerr == nil {
				a.tcp = ln
				go func() {
					for {
						c, aerr := ln.Accept()
						if aerr != nil {
							return
						}
						_ = c.Close()
					}
				}()
				break
			}
			_ = pc.Close()
			if try == 20 {
				return nil, lerr
			}
			if pc, err = net.ListenPacket("udp", "127.0.0.1:0"); err != nil {
				return nil, err
			}
			a.pc = pc
		}
	}
	a.srv = &dns.Server{Net: "udp", PacketConn: pc, Handler: dns.HandlerFunc(func(w dns.ResponseWriter, req *dns.Msg) {
		if len(req.Question) == 0 {
			return
		}
		if a.seq.Load() == 0 {
			a.seq.CompareAndSwap(0, order.Add(1))
		}
		a.asked.Add(1)
		select {
		case <-a.gate:
		case <-a.quit:
			return
		}
		q := req.Question[0]
		reply := new(dns.Msg)
		reply.SetReply(req)
		switch a.behave {
		case vC13Silent:
			// "no usable reply" that does not cost a network timeout: a datagram shorter than a
			// DNS header is a read error for the exchange (retried over UDP, then TCP, where
			// nothing listens) — queryServer hands lookup an error
			_, _ = w.Write([]byte{0, 0, 0})
			return
		case vC13Refused:
			reply.Rcode = dns.RcodeRefused
		case vC13ServFail:
			reply.Rcode = dns.RcodeServerFailure
		case vC13NotImp:
			reply.Rcode = dns.RcodeNotImplemented
		case vC13NotAuth:
			reply.Rcode = dns.RcodeNotAuth
		case vC13NXDomain:
			reply.Rcode = dns.RcodeNameError
			reply.Authoritative = true
			zone := q.Name
			if i, end := dns.NextLabel(q.Name, 0); !end {
				zone = q.Name[i:]
			}
			reply.Ns = []dns.RR{&dns.SOA{Hdr: dns.RR_Header{Name: zone, Rrtype: dns.TypeSOA, Class: dns.ClassINET, Ttl: 60}, Ns: "ns." + zone, Mbox: "h." + zone, Serial: 1, Refresh: 60, Retry: 60, Expire: 60, Minttl: 60}}
		case vC13BogusReferral:
			// NOERROR, no answer, a delegation of the very zone that was asked (the question is
			// www.<zone>): it does not progress below the zone — lookup files it under configErrors
			zone := q.Name
			if i, end := dns.NextLabel(q.Name, 0); !end {
				zone = q.Name[i:]
			}
			reply.Ns = []dns.RR{&dns.NS{Hdr: dns.RR_Header{Name: zone, Rrtype: dns.TypeNS, Class: dns.ClassINET, Ttl: 60}, Ns: "ns1." + zone}}
			reply.Extra = []dns.RR{&dns.A{Hdr: dns.RR_Header{Name: "ns1." + zone, Rrtype: dns.TypeA, Class: dns.ClassINET, Ttl: 60}, A: net.IPv4(198, 51, 100, 7)}}
		default:
			reply.Authoritative = true
			reply.Answer = []dns.RR{&dns.A{Hdr: dns.RR_Header{Name: q.Name, Rrtype: dns.TypeA, Class: dns.ClassINET, Ttl: 60}, A: net.IPv4(192, 0, 2, 44)}}
		}
		_ = w.WriteMsg(reply)
	})}
	started := make(chan struct{})
	a.srv.NotifyStartedFunc = func() { close(started) }
	go func() { _ = a.srv.ActivateAndServe() }()
	select {
	case <-started:
	case <-time.After(2 * time.Second):
		pc.Close()
		return nil, fmt.Errorf("authority did not start")
	}
	return a, nil
}

func vC13CreatedByLookup(g string) bool {
	const by = "created by github.com/semihalev/sdns/middleware/resolver.(*Resolver).lookup"
	i := strings.Index(g, by)
	if i < 0 {
		return false
	}
	rest := g[i+len(by):]
	return rest == "" || rest[0] == ' ' || rest[0] == '\n'
}

// one snapshot of all goroutines: live queryServer goroutines, and whether a goroutine inside
// Resolver.lookup is parked in a select
func vC13Goroutines() (queryServers int, lookupParked bool) {
	buf := make([]byte, 1<<20)
	for {
		n := runtime.Stack(buf, true)
		if n < len(buf) {
			buf = buf[:n]
			break
		}
		buf = make([]byte, 2*len(buf))
	}
	for _, g := range strings.Split(string(buf), "\n\n") {
		// A goroutine started by `go r.queryServer(...)` that has not run yet shows only the
		// compiler's wrapper (lookup.gowrap1), not queryServer: count by who created it — lookup
		// starts no other goroutine —, or the snapshot misses a server that has just been started
		// (seen once: the barrier then reported one started server too few).
		if vC13CreatedByLookup(g) || strings.Contains(g, "resolver.(*Resolver).queryServer(") {
			queryServers++
		}
		if strings.Contains(g, "resolver.(*Resolver).lookup(") {
			head, _, _ := strings.Cut(g, "\n")
			if strings.Contains(head, "[select") {
				lookupParked = true
			}
		}
	}
	return
}

type vC13GatedObs struct {
	order           []int    // behaviours in start order (unstarted last)
	events          [][2]int // (servers started when the reply was released, index of the released server)
	records, clears int
	rcode           int
	err             string
	startedAtEnd    int
	cancelled       bool // the client's context was cancelled at a barrier, before Resolve returned
	infra           bool
	note            string
}

func vC13GatedFanout(zone string, behaviours []int, prio []int, waitAll bool, cancelAfter int) vC13GatedObs {
	deadline := time.Now().Add(40 * time.Second)
	// stragglers of the previous case have been cancelled; let them leave
	for {
		q, _ := vC13Goroutines()
		if q == 0 {
			break
		}
		if time.Now().After(deadline) {
			return vC13GatedObs{infra: true, note: "stragglers of an earlier lookup did not leave"}
		}
		time.Sleep(2 * time.Millisecond)
	}
	var order atomic.Int64
	var auths []*vC13Gated
	defer func() {
		for _, a := range auths {
			close(a.quit)
			_ = a.srv.Shutdown()
			_ = a.pc.Close()
			if a.tcp != nil {
				_ = a.tcp.Close()
			}
		}
	}()
	var list []*authority.Server
	for _, b := range behaviours {
		a, err := vC13StartGated(b, &order)
		if err != nil {
			return vC13GatedObs{infra: true, note: err.Error()}
		}
		auths = append(auths, a)
		list = append(list, authority.NewServer(a.pc.LocalAddr().String(), authority.IPv4))
	}
	servers := &authority.Servers{Zone: zone, List: list}
	r := vC13LabResolver(servers)
	// no exchange may run into its socket deadline while its reply is held
	r.netTimeout = 60 * time.Second
	r.cfg.Timeout = config.Duration{Duration: 60 * time.Second}
	st := &vC13ZoneStore{}
	var ms middleware.Store = st
	r.store.Store(&ms)
	req := new(dns.Msg)
	req.SetQuestion("www."+strings.TrimPrefix(zone, "."), dns.TypeA)
	ctx, cancel := context.WithTimeout(context.Background(), 90*time.Second)
	defer cancel()
	type result struct {
		resp *dns.Msg
		err  error
	}
	done := make(chan result, 1)
	go func() {
		resp, err := r.Resolve(ctx, req, servers, false, 5, 0, true, nil)
		done <- result{resp, err}
	}()
	asked := func() int {
		c := 0
		for _, a := range auths {
			if a.asked.Load() > 0 {
				c++
			}
		}
		return c
	}
	released := make([]bool, len(auths))
	nReleased := 0
	type ev struct{ started, auth int }
	var evs []ev
	var fin *result
	obs := vC13GatedObs{}
	// barrier: quiescent (returns the number of servers started), or Resolve returned
	barrier := func() (int, bool) {
		for {
			select {
			case res := <-done:
				fin = &res
				return 0, true
			default:
			}
			a1 := asked()
			q, parked := vC13Goroutines()
			a2 := asked()
			if parked && a1 == a2 && q == a1-nReleased {
				return a1, false
			}
			if time.Now().After(deadline) {
				obs.infra = true
				obs.note = fmt.Sprintf("no barrier: asked=%d live=%d released=%d parked=%v", a2, q, nReleased, parked)
				return 0, true
			}
			time.Sleep(time.Millisecond)
		}
	}
loop:
	for {
		started, ended := barrier()
		if ended {
			break
		}
		if waitAll && started < len(auths) {
			time.Sleep(5 * time.Millisecond) // timer ticks start the others
			continue
		}
		if cancelAfter >= 0 && nReleased == cancelAfter {
			// the client goes away while the lookup waits (parked, nothing of what was released
			// is still on its way): request-local, nothing may be published
			obs.cancelled = true
			cancel()
			select {
			case res := <-done:
				fin = &res
			case <-time.After(time.Until(deadline)):
				obs.note = "the context was cancelled but Resolve did not return"
			}
			break loop
		}
		next := -1
		for _, i := range prio {
			if !released[i] && auths[i].asked.Load() > 0 {
				next = i
				break
			}
		}
		if next < 0 {
			if started == len(auths) {
				// every reply released and consumed, nothing left to start: lookup must end now
				select {
				case res := <-done:
					fin = &res
				case <-time.After(time.Until(deadline)):
					obs.note = "every reply was released and consumed but Resolve did not return"
				}
				break loop
			}
			time.Sleep(5 * time.Millisecond) // a timer tick will start the next server
			continue
		}
		evs = append(evs, ev{started, next})
		released[next] = true
		nReleased++
		close(auths[next].gate)
	}
	// start order
	idx := make([]int, len(auths))
	for i := range idx {
		idx[i] = i
	}
	seqOf := func(i int) int64 {
		if s := auths[i].seq.Load(); s > 0 {
			return s
		}
		return 1 << 40
	}
	sort.SliceStable(idx, func(a, b int) bool { return seqOf(idx[a]) < seqOf(idx[b]) })
	pos := make([]int, len(auths))
	for p, i := range idx {
		pos[i] = p
		obs.order = append(obs.order, behaviours[i])
	}
	for _, e := range evs {
		obs.events = append(obs.events, [2]int{e.started, pos[e.auth]})
	}
	obs.startedAtEnd = asked()
	obs.records, obs.clears, obs.rcode = len(st.recorded), len(st.cleared), 999
	if fin == nil {
		if !obs.infra && obs.note == "" {
			obs.note = "Resolve did not return"
		}
		obs.rcode = 998
		return obs
	}
	if fin.err != nil {
		obs.err = fin.err.Error()
	}
	if fin.resp != nil && fin.err == nil {
		obs.rcode = fin.resp.Rcode
	}
	return obs
}

type vC13LabCorpusCase struct {
	Zone    string `json:"zone"`
	Servers []int  `json:"servers"`
}

// a missing corpus file is fine; a malformed one is a broken check, not an empty corpus
func vC13LabCorpus(t *testing.T) []vC13LabCorpusCase {
	dir := os.Getenv("VERIF_CORPUS")
	if dir == "" {
		return nil
	}
	b, err := os.ReadFile(dir + "/lab.json")
	if os.IsNotExist(err) {
		return nil
	}
	if err != nil {
		t.Fatalf("corpus: %v", err)
	}
	var out []vC13LabCorpusCase
	if err := json.Unmarshal(b, &out); err != nil {
		t.Fatalf("corpus lab.json: %v", err)
	}
	for _, c := range out {
		if c.Zone == "" || len(c.Servers) == 0 {
			t.Fatalf("corpus lab.json: empty zone or server list")
		}
		for _, s := range c.Servers {
			if s < 0 || s >= len(vC13BehaviourNames) || s == vC13BogusReferral {
				t.Fatalf("corpus lab.json: unknown behaviour %d", s)
			}
		}
	}
	return out
}

type vC13GatedCorpusCase struct {
	Zone        string `json:"zone"`
	Servers     []int  `json:"servers"`
	Prio        []int  `json:"prio"`
	WaitAll     bool   `json:"wait_all"`
	CancelAfter int    `json:"cancel_after"`
}

// gated.json: [{"zone", "servers": [codes], "prio": [release order: a permutation of the server
// positions], "wait_all": release only after every server was started, "cancel_after": -1 or the
// number of replies after which the client cancels}]
func vC13GatedCorpus(t *testing.T) []vC13GatedCorpusCase {
	dir := os.Getenv("VERIF_CORPUS")
	if dir == "" {
		return nil
	}
	b, err := os.ReadFile(dir + "/gated.json")
	if os.IsNotExist(err) {
		return nil
	}
	if err != nil {
		t.Fatalf("corpus: %v", err)
	}
	var out []vC13GatedCorpusCase
	if err := json.Unmarshal(b, &out); err != nil {
		t.Fatalf("corpus gated.json: %v", err)
	}
	for _, c := range out {
		if c.Zone == "" || len(c.Servers) == 0 || len(c.Prio) != len(c.Servers) {
			t.Fatalf("corpus gated.json: empty zone / server list, or prio is not a permutation")
		}
		seen := map[int]bool{}
		for _, p := range c.Prio {
			if p < 0 || p >= len(c.Servers) || seen[p] {
				t.Fatalf("corpus gated.json: prio is not a permutation")
			}
			seen[p] = true
		}
		for _, s := range c.Servers {
			if s < 0 || s >= len(vC13BehaviourNames) || s == vC13HealthySlow {
				t.Fatalf("corpus gated.json: behaviour %d not available for a gated authority", s)
			}
		}
	}
	return out
}

func vC13EdeCoq(e int) string {
	if e < 0 {
		return "None"
	}
	return fmt.Sprintf("(Some %d%%N)", e)
}

func TestVerifC13Lab(t *testing.T) {
	p := os.Getenv("VERIF_OUT")
	if p == "" {
		t.Skip("VERIF_OUT not set")
	}
	f, err := os.Create(p)
	if err != nil {
		t.Fatal(err)
	}
	defer f.Close()
	emit := func(m map[string]any) {
		b, _ := json.Marshal(m)
		f.Write(append(b, '\n'))
	}
	seed := int64(1)
	if s, err := strconv.Atoi(os.Getenv("VERIF_SEED")); err == nil {
		seed = int64(s)
	}
	n := 36
	if v, err := strconv.Atoi(os.Getenv("VERIF_N")); err == nil && v > 0 {
		n = v
	}
	r := rand.New(rand.NewSource(seed + 77))
	// stress runs of the gated section alone (not used by the check)
	gatedOnly := os.Getenv("VERIF_C13_GATED_ONLY") != ""
	zones := []string{"example.", "lab.example.", "a.lab.example."}
	failing := []int{vC13Refused, vC13ServFail, vC13NotImp, vC13Refused, vC13ServFail}
	failing = append(failing, vC13NotAuth)
	runFanout := func(bs []int, zone, kindTag string) {
		anyHealthy, anyNX := false, false
		for _, b := range bs {
			if b == vC13Healthy || b == vC13HealthySlow {
				anyHealthy = true
			}
			if b == vC13NXDomain {
				anyNX = true
			}
		}
		var obs vC13FanoutObs
		wrong := func(o vC13FanoutObs) bool {
			switch {
			case anyHealthy && anyNX:
				return o.records != 0 || (o.rcode != dns.RcodeSuccess && o.rcode != dns.RcodeNameError)
			case anyHealthy:
				return o.records != 0 || o.rcode != dns.RcodeSuccess
			case anyNX:
				return o.records != 0 || o.rcode != dns.RcodeNameError
			}
			return o.records == 0
		}
		inconclusive := false
		for try := 0; try < 3; try++ {
			obs = vC13Fanout(zone, bs)
			if obs.infra {
				inconclusive = true
				break
			}
			if !wrong(obs) {
				break
			}
		}
		var bc, bn []string
		for _, b := range bs {
			bc = append(bc, strconv.Itoa(b))
			bn = append(bn, vC13BehaviourNames[b])
		}
		kind := "lab-fanout-some-healthy"
		if !anyHealthy {
			kind = "lab-fanout-all-fail"
		}
		if anyNX {
			kind = "lab-fanout-nxdomain"
		}
		if kindTag != "" {
			kind = kindTag
		}
		emit(map[string]any{
			"k":            kind,
			"coq":          fmt.Sprintf("CaseLab %d [%s]%%N %d %d %d", dns.CountLabel(zone), strings.Join(bc, ";"), obs.records, obs.clears, obs.rcode),
			"nontrivial":   len(bs) > 1,
			"inconclusive": inconclusive,
			"desc":         map[string]any{"zone": zone, "servers": bn, "zone_failures_published": obs.records, "cleared": obs.clears, "rcode": obs.rcode, "err": obs.err, "asked": obs.asked},
		})
	}
	// fixed inputs first (VERIF_CORPUS/lab.json: [{"zone": "...", "servers": [codes]}])
	for _, c := range vC13LabCorpus(t) {
		if gatedOnly {
			break
		}
		runFanout(c.Servers, c.Zone, "lab-corpus")
	}
	// Directed: a large NS set most of which is lame for the question — k >= 3
	// authorities answer with a failure rcode at once (all the same rcode, or
	// three alike among others) and ONE healthy server answers after all of
	// them.  However many lame verdicts have come in, the zone has not failed
	// while a server is still unheard.  Every failure rcode; the healthy
	// server at every position of the delegation.
	rcodes := []int{vC13Refused, vC13ServFail, vC13NotImp, vC13NotAuth}
	rounds := 1
	if n >= 100 {
		rounds = 3
	}
	if gatedOnly {
		rounds = 0
	}
	for round := 0; round < rounds; round++ {
		for ri, rc := range rcodes {
			for _, lame := range []int{3, 4 + (ri+round+int(seed))%2} {
				bs := make([]int, 0, lame+1)
				for j := 0; j < lame; j++ {
					bs = append(bs, rc)
				}
				bs = append(bs, vC13HealthySlow)
				pos := r.Intn(len(bs))
				bs[pos], bs[len(bs)-1] = bs[len(bs)-1], bs[pos]
				runFanout(bs, zones[r.Intn(len(zones))], "lab-fanout-lame-majority")
			}
		}
		for j := 0; j < 2; j++ { // three alike among other failure rcodes, and a second healthy one
			rc := rcodes[r.Intn(len(rcodes))]
			bs := []int{rc, rc, rc, rcodes[r.Intn(len(rcodes))], vC13HealthySlow}
			if j == 1 {
				bs = append(bs, vC13Healthy)
			}
			r.Shuffle(len(bs), func(a, b int) { bs[a], bs[b] = bs[b], bs[a] })
			runFanout(bs, zones[r.Intn(len(zones))], "lab-fanout-lame-majority")
		}
	}
	// Directed: authorities that say NXDOMAIN — a usable response — among lame ones, at every zone
	// depth (for the root / a TLD the first NXDOMAIN ends the lookup, deeper only the third
	// response error does): whatever the others said, the zone has not failed; with a healthy
	// server as well the outcome (answer or NXDOMAIN) depends on who is heard first, a zone
	// failure is wrong either way.
	nxRounds := 6
	if n >= 100 {
		nxRounds = 40
	}
	if gatedOnly {
		nxRounds = 0
	}
	for i := 0; i < nxRounds; i++ {
		k := 2 + r.Intn(4)
		bs := make([]int, 0, k+1)
		for j := 0; j < k; j++ {
			bs = append(bs, failing[r.Intn(len(failing))])
		}
		nx := 1 + r.Intn(2)
		for j := 0; j < nx && j < k; j++ {
			bs[j] = vC13NXDomain
		}
		if i%3 == 2 {
			bs = append(bs, vC13HealthySlow)
		}
		r.Shuffle(len(bs), func(a, b int) { bs[a], bs[b] = bs[b], bs[a] })
		runFanout(bs, zones[i%len(zones)], "")
	}
	// C. Gated fan-outs (see vC13GatedFanout): the schedule is observed.  1..6 authorities; every
	// failure rcode, NXDOMAIN, a reply that is a read error, healthy; replies released in a random
	// order or with the usable ones last / first; released as soon as two servers are out or only
	// after the fallback timer has started every server; every zone depth.
	runGated := func(bs []int, zone string, prio []int, waitAll bool, cancelAfter int, kindTag string) {
		obs := vC13GatedFanout(zone, bs, prio, waitAll, cancelAfter)
		var bc, bn, ev []string
		for _, b := range obs.order {
			bc = append(bc, strconv.Itoa(b))
			bn = append(bn, vC13BehaviourNames[b])
		}
		heard := map[int]bool{}
		for _, e := range obs.events {
			ev = append(ev, fmt.Sprintf("(%d,%d)", e[0], e[1]))
			heard[e[1]] = true
		}
		kind := "lab-gated-all-fail"
		for _, b := range bs {
			if b == vC13NXDomain {
				kind = "lab-gated-nxdomain"
			}
		}
		for _, b := range bs {
			if b == vC13Healthy {
				kind = "lab-gated-healthy"
			}
		}
		if obs.cancelled {
			kind = "lab-gated-cancelled"
		}
		if kindTag != "" {
			kind = kindTag
		}
		goFail := ""
		if !obs.infra && obs.note != "" {
			goFail = obs.note
		}
		emit(map[string]any{
			"k":            kind,
			"coq":          fmt.Sprintf("CaseLabSched %d [%s]%%N [%s]%%nat %v %d %d %d", dns.CountLabel(zone), strings.Join(bc, ";"), strings.Join(ev, ";"), obs.cancelled, obs.records, obs.clears, obs.rcode),
			"nontrivial":   len(bs) > 1,
			"inconclusive": obs.infra,
			"go_fail":      goFail,
			"desc": map[string]any{"zone": zone, "servers_in_start_order": bn, "released(started_then,server)": ev, "wait_for_all_started": waitAll, "client_cancelled_then": obs.cancelled,
				"zone_failures_published": obs.records, "cleared": obs.clears, "rcode": obs.rcode, "err": obs.err, "started_at_end": obs.startedAtEnd, "note": obs.note},
		})
	}
	// fixed inputs first (VERIF_CORPUS/gated.json)
	for _, c := range vC13GatedCorpus(t) {
		runGated(c.Servers, c.Zone, c.Prio, c.WaitAll, c.CancelAfter, "lab-gated-corpus")
	}
	gatedRounds := 14
	if n >= 100 {
		gatedRounds = 150
	}
	for i := 0; i < gatedRounds; i++ {
		k := 1 + r.Intn(6)
		if i%7 >= 4 {
			k = 4 + r.Intn(3)
		}
		bs := make([]int, 0, k)
		for j := 0; j < k; j++ {
			bs = append(bs, failing[r.Intn(len(failing))])
		}
		if r.Intn(3) == 0 {
			bs[r.Intn(k)] = vC13Silent
		}
		if r.Intn(4) == 0 {
			bs[r.Intn(k)] = vC13BogusReferral
		}
		usable := map[int]bool{}
		mode := r.Intn(3) // order of release: random / usable replies last / usable replies first
		switch i % 7 {
		case 0: // every server fails; sometimes with bogus referrals / read errors only (no response error at all)
			if r.Intn(3) == 0 {
				for j := range bs {
					bs[j] = []int{vC13BogusReferral, vC13BogusReferral, vC13Silent}[r.Intn(3)]
				}
			}
		case 1: // one healthy server
			j := r.Intn(k)
			bs[j] = vC13Healthy
			usable[j] = true
		case 2: // NXDOMAIN from one or two servers
			for c := 1 + r.Intn(2); c > 0; c-- {
				j := r.Intn(k)
				bs[j] = vC13NXDomain
				usable[j] = true
			}
		case 3: // both
			j := r.Intn(k)
			bs[j] = vC13NXDomain
			usable[j] = true
			j = r.Intn(k)
			bs[j] = vC13Healthy
			usable[j] = true
		case 4, 5: // a lame majority: every server but one says the same thing, the odd one (healthy, or
			// NXDOMAIN) is heard last — however many equal verdicts are in, the zone has not failed
			rc := failing[r.Intn(len(failing))]
			for j := range bs {
				bs[j] = rc
			}
			j := r.Intn(k)
			bs[j] = []int{vC13Healthy, vC13NXDomain}[i%7-4]
			usable[j] = true
			mode = 1
		case 6: // all lame with one rcode but one other failure, heard at a random place
			rc := failing[r.Intn(len(failing))]
			for j := range bs {
				bs[j] = rc
			}
			bs[r.Intn(k)] = failing[r.Intn(len(failing))]
		}
		prio := r.Perm(k)
		if mode > 0 {
			sort.SliceStable(prio, func(a, b int) bool {
				if mode == 1 {
					return !usable[prio[a]] && usable[prio[b]]
				}
				return usable[prio[a]] && !usable[prio[b]]
			})
		}
		cancelAfter := -1
		if i%5 == 4 { // the client cancels after 0..k-1 replies (all of them failures when the usable ones come last)
			cancelAfter = r.Intn(k)
		}
		runGated(bs, zones[i%len(zones)], prio, r.Intn(2) == 0, cancelAfter, "")
	}
	for i := 0; i < n && !gatedOnly; i++ {
		k := 1 + r.Intn(6)
		var bs []int
		healthy := 0
		switch r.Intn(4) {
		case 0: // every server fails
		case 1:
			healthy = 1
		default:
			healthy = 1 + r.Intn(2)
		}
		if healthy > k {
			healthy = k
		}
		for j := 0; j < k-healthy; j++ {
			bs = append(bs, failing[r.Intn(len(failing))])
		}
		for j := 0; j < healthy; j++ {
			bs = append(bs, []int{vC13Healthy, vC13HealthySlow, vC13HealthySlow}[r.Intn(3)])
		}
		r.Shuffle(len(bs), func(a, b int) { bs[a], bs[b] = bs[b], bs[a] })
		if r.Intn(6) == 0 { // one silent server: costs a network timeout
			bs[r.Intn(len(bs))] = vC13Silent
		}
		runFanout(bs, zones[r.Intn(len(zones))], "")
	}
	for i := 0; i < 4 && !gatedOnly; i++ {
		zoneQuota := i%2 == 1
		name := fmt.Sprintf("shed%d.example.", r.Intn(1000))
		var o vC13ShedObs
		for try := 0; try < 3; try++ {
			o = vC13Shed(zoneQuota, name)
			if o.infra || (o.rc2 == dns.RcodeSuccess && o.up2 > 0) {
				break
			}
		}
		e := "RCapacityGlobal"
		if zoneQuota {
			e = "RCapacityZone"
		}
		emit(map[string]any{
			"k":            "lab-shed-load",
			"coq":          fmt.Sprintf("CaseShed %s %d %s %d %d %s %d", e, o.rc1, vC13EdeCoq(o.ede1), o.up1, o.rc2, vC13EdeCoq(o.ede2), o.up2),
			"nontrivial":   true,
			"inconclusive": o.infra,
			"desc": map[string]any{"capacity": e, "query": name,
				"while_at_capacity": fmt.Sprintf("rcode=%d ede=%d authority_packets=%d", o.rc1, o.ede1, o.up1),
				"after_load_gone":   fmt.Sprintf("rcode=%d ede=%d authority_packets=%d", o.rc2, o.ede2, o.up2), "note": o.note},
		})
	}
}
