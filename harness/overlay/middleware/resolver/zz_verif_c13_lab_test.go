//go:build verif

package resolver

// C13 lab driver (overlay-injected): the real Resolver against scripted
// authorities on loopback.
//
//  A. Fan-out: a zone with 1..6 authority addresses, each scripted as healthy
//     (fast or slower than its lame peers), REFUSED, SERVFAIL, NOTIMP or
//     silent, in every order.  Observed: did Resolver.Resolve publish a zone
//     failure (RecordZoneFailure) — allowed only when EVERY server of the zone
//     failed to give a usable response — and what it returned.
//  B. Shed load: cache.Cache in front of the resolver's DNSHandler; the
//     resolver's in-flight capacity (global pool or the zone's quota) is
//     exhausted for one query, then free again.  Observed: rcode / EDE /
//     authority packet counts of both queries.  A query shed for lack of
//     capacity says nothing about the question, so the next one must reach the
//     authority.
//
// Loopback hiccups never decide a verdict: an outcome that looks wrong is
// repeated on fresh sockets and reported only if it reproduces every time.

import (
	"context"
	"encoding/json"
	"fmt"
	"math/rand"
	"net"
	"os"
	"strconv"
	"strings"
	"sync/atomic"
	"testing"
	"time"

	"github.com/miekg/dns"
	"github.com/semihalev/sdns/config"
	"github.com/semihalev/sdns/internal/authority"
	internalcache "github.com/semihalev/sdns/internal/cache"
	"github.com/semihalev/sdns/internal/dnsutil"
	"github.com/semihalev/sdns/internal/mock"
	"github.com/semihalev/sdns/middleware"
	mcache "github.com/semihalev/sdns/middleware/cache"
)

const (
	vC13Healthy = iota
	vC13HealthySlow
	vC13Refused
	vC13ServFail
	vC13NotImp
	vC13Silent
	vC13NotAuth
	vC13NXDomain
)

var vC13BehaviourNames = []string{"healthy", "healthy-slow", "REFUSED", "SERVFAIL", "NOTIMP", "silent", "NOTAUTH", "NXDOMAIN"}

type vC13Authority struct {
	pc     net.PacketConn
	srv    *dns.Server
	asked  atomic.Int64
	behave int
}

func vC13StartAuthority(behave int) (*vC13Authority, error) {
	pc, err := net.ListenPacket("udp", "127.0.0.1:0")
	if err != nil {
		return nil, err
	}
	a := &vC13Authority{pc: pc, behave: behave}
	a.srv = &dns.Server{Net: "udp", PacketConn: pc, Handler: dns.HandlerFunc(func(w dns.ResponseWriter, req *dns.Msg) {
		if len(req.Question) == 0 {
			return
		}
		a.asked.Add(1)
		q := req.Question[0]
		reply := new(dns.Msg)
		reply.SetReply(req)
		switch a.behave {
		case vC13Silent:
			return
		case vC13Refused:
			reply.Rcode = dns.RcodeRefused
		case vC13ServFail:
			reply.Rcode = dns.RcodeServerFailure
		case vC13NotImp:
			reply.Rcode = dns.RcodeNotImplemented
		case vC13NotAuth:
			reply.Rcode = dns.RcodeNotAuth
		case vC13NXDomain:
			// a usable response: the name does not exist (SOA of the zone in the authority section)
			reply.Rcode = dns.RcodeNameError
			reply.Authoritative = true
			zone := q.Name
			if i, end := dns.NextLabel(q.Name, 0); !end {
				zone = q.Name[i:]
			}
			reply.Ns = []dns.RR{&dns.SOA{Hdr: dns.RR_Header{Name: zone, Rrtype: dns.TypeSOA, Class: dns.ClassINET, Ttl: 60}, Ns: "ns." + zone, Mbox: "h." + zone, Serial: 1, Refresh: 60, Retry: 60, Expire: 60, Minttl: 60}}
		case vC13HealthySlow:
			time.Sleep(120 * time.Millisecond)
			fallthrough
		default:
			reply.Authoritative = true
			reply.Answer = []dns.RR{&dns.A{Hdr: dns.RR_Header{Name: q.Name, Rrtype: dns.TypeA, Class: dns.ClassINET, Ttl: 60}, A: net.IPv4(192, 0, 2, 44)}}
		}
		_ = w.WriteMsg(reply)
	})}
	started := make(chan struct{})
	a.srv.NotifyStartedFunc = func() { close(started) }
	go func() { _ = a.srv.ActivateAndServe() }()
	select {
	case <-started:
	case <-time.After(2 * time.Second):
		pc.Close()
		return nil, fmt.Errorf("authority did not start")
	}
	return a, nil
}

func (a *vC13Authority) stop() { _ = a.srv.Shutdown(); _ = a.pc.Close() }

func vC13LabResolver(root *authority.Servers) *Resolver {
	const maxConcurrent = 128
	cfg := &config.Config{DNSSEC: "off", Maxdepth: 30, MaxConcurrentQueries: maxConcurrent, Timeout: config.Duration{Duration: time.Second}}
	return &Resolver{
		cfg:             cfg,
		delegations:     authority.NewCache(),
		rootServers:     root,
		glueV4:          internalcache.New(defaultCacheSize),
		dnssec:          false,
		qnameMinLevel:   0,
		netTimeout:      time.Second,
		sfGroup:         NewSingleflightWrapper(),
		circuitBreaker:  newCircuitBreaker(),
		maxConcurrent:   make(chan struct{}, maxConcurrent),
		resolutionSlots: make(chan struct{}, maxConcurrent),
	}
}

type vC13FanoutObs struct {
	records, clears int
	rcode           int
	asked           []int64
	err             string
	infra           bool
}

func vC13Fanout(zone string, behaviours []int) vC13FanoutObs {
	var auths []*vC13Authority
	defer func() {
		for _, a := range auths {
			a.stop()
		}
	}()
	var list []*authority.Server
	for _, b := range behaviours {
		a, err := vC13StartAuthority(b)
		if err != nil {
			return vC13FanoutObs{infra: true, err: err.Error()}
		}
		auths = append(auths, a)
		list = append(list, authority.NewServer(a.pc.LocalAddr().String(), authority.IPv4))
	}
	servers := &authority.Servers{Zone: zone, List: list}
	r := vC13LabResolver(servers)
	st := &vC13ZoneStore{}
	var ms middleware.Store = st
	r.store.Store(&ms)
	req := new(dns.Msg)
	req.SetQuestion("www."+strings.TrimPrefix(zone, "."), dns.TypeA)
	ctx, cancel := context.WithTimeout(context.Background(), 8*time.Second)
	defer cancel()
	resp, err := r.Resolve(ctx, req, servers, false, 5, 0, true, nil)
	obs := vC13FanoutObs{records: len(st.recorded), clears: len(st.cleared), rcode: 999}
	if err != nil {
		obs.err = err.Error()
	}
	if resp != nil && err == nil {
		obs.rcode = resp.Rcode
	}
	for _, a := range auths {
		obs.asked = append(obs.asked, a.asked.Load())
	}
	return obs
}

// one shed-load episode through cache + resolver handler
type vC13ShedObs struct {
	rc1, ede1, rc2, ede2 int
	up1, up2             int64
	infra                bool
	note                 string
}

func vC13Shed(zoneQuota bool, name string) vC13ShedObs {
	a, err := vC13StartAuthority(vC13Healthy)
	if err != nil {
		return vC13ShedObs{infra: true, note: err.Error()}
	}
	defer a.stop()
	root := &authority.Servers{Zone: ".", List: []*authority.Server{authority.NewServer(a.pc.LocalAddr().String(), authority.IPv4)}}
	r := vC13LabResolver(root)
	cfg := &config.Config{DNSSEC: "off", Maxdepth: 30, CacheSize: 1024, Expire: 300, Timeout: config.Duration{Duration: time.Second}, QueryTimeout: config.Duration{Duration: 5 * time.Second}}
	h := &DNSHandler{resolver: r, cfg: cfg}
	c := mcache.New(cfg)
	defer c.Stop()

	ask := func() (int, int) {
		req := new(dns.Msg)
		req.SetQuestion(name, dns.TypeA)
		req.SetEdns0(1232, false)
		w := mock.NewWriter("udp", "192.0.2.1:53000")
		ch := middleware.NewChain([]middleware.Handler{c, h})
		ch.Reset(w, req)
		ch.Next(context.Background())
		rc, ede := 999, -1
		if m := w.Msg(); m != nil {
			rc = m.Rcode
			if e := dnsutil.GetEDE(m); e != nil {
				ede = int(e.InfoCode)
			}
		}
		return rc, ede
	}

	// exhaust the capacity the way load does: every slot is taken by other work
	var release func()
	if zoneQuota {
		r.zoneInflight = newZoneInflightLimiter(1)
		rel, ok := r.zoneInflight.acquire(".")
		if !ok {
			return vC13ShedObs{infra: true, note: "could not take the zone quota"}
		}
		release = rel
	} else {
		r.resolutionSlots = make(chan struct{}, 1)
		r.resolutionSlots <- struct{}{}
		release = func() { <-r.resolutionSlots }
	}
	var o vC13ShedObs
	o.rc1, o.ede1 = ask()
	o.up1 = a.asked.Load()
	release() // the load is gone
	o.rc2, o.ede2 = ask()
	o.up2 = a.asked.Load() - o.up1
	return o
}

type vC13LabCorpusCase struct {
	Zone    string `json:"zone"`
	Servers []int  `json:"servers"`
}

// a missing corpus file is fine; a malformed one is a broken check, not an empty corpus
func vC13LabCorpus(t *testing.T) []vC13LabCorpusCase {
	dir := os.Getenv("VERIF_CORPUS")
	if dir == "" {
		return nil
	}
	b, err := os.ReadFile(dir + "/lab.json")
	if os.IsNotExist(err) {
		return nil
	}
	if err != nil {
		t.Fatalf("corpus: %v", err)
	}
	var out []vC13LabCorpusCase
	if err := json.Unmarshal(b, &out); err != nil {
		t.Fatalf("corpus lab.json: %v", err)
	}
	for _, c := range out {
		if c.Zone == "" || len(c.Servers) == 0 {
			t.Fatalf("corpus lab.json: empty zone or server list")
		}
		for _, s := range c.Servers {
			if s < 0 || s >= len(vC13BehaviourNames) {
				t.Fatalf("corpus lab.json: unknown behaviour %d", s)
			}
		}
	}
	return out
}

func vC13EdeCoq(e int) string {
	if e < 0 {
		return "None"
	}
	return fmt.Sprintf("(Some %d%%N)", e)
}

func TestVerifC13Lab(t *testing.T) {
	p := os.Getenv("VERIF_OUT")
	if p == "" {
		t.Skip("VERIF_OUT not set")
	}
	f, err := os.Create(p)
	if err != nil {
		t.Fatal(err)
	}
	defer f.Close()
	emit := func(m map[string]any) {
		b, _ := json.Marshal(m)
		f.Write(append(b, '\n'))
	}
	seed := int64(1)
	if s, err := strconv.Atoi(os.Getenv("VERIF_SEED")); err == nil {
		seed = int64(s)
	}
	n := 36
	if v, err := strconv.Atoi(os.Getenv("VERIF_N")); err == nil && v > 0 {
		n = v
	}
	r := rand.New(rand.NewSource(seed + 77))
	zones := []string{"example.", "lab.example.", "a.lab.example."}
	failing := []int{vC13Refused, vC13ServFail, vC13NotImp, vC13Refused, vC13ServFail}
	failing = append(failing, vC13NotAuth)
	runFanout := func(bs []int, zone, kindTag string) {
		anyHealthy, anyNX := false, false
		for _, b := range bs {
			if b == vC13Healthy || b == vC13HealthySlow {
				anyHealthy = true
			}
			if b == vC13NXDomain {
				anyNX = true
			}
		}
		var obs vC13FanoutObs
		wrong := func(o vC13FanoutObs) bool {
			switch {
			case anyHealthy && anyNX:
				return o.records != 0 || (o.rcode != dns.RcodeSuccess && o.rcode != dns.RcodeNameError)
			case anyHealthy:
				return o.records != 0 || o.rcode != dns.RcodeSuccess
			case anyNX:
				return o.records != 0 || o.rcode != dns.RcodeNameError
			}
			return o.records == 0
		}
		inconclusive := false
		for try := 0; try < 3; try++ {
			obs = vC13Fanout(zone, bs)
			if obs.infra {
				inconclusive = true
				break
			}
			if !wrong(obs) {
				break
			}
		}
		var bc, bn []string
		for _, b := range bs {
			bc = append(bc, strconv.Itoa(b))
			bn = append(bn, vC13BehaviourNames[b])
		}
		kind := "lab-fanout-some-healthy"
		if !anyHealthy {
			kind = "lab-fanout-all-fail"
		}
		if anyNX {
			kind = "lab-fanout-nxdomain"
		}
		if kindTag != "" {
			kind = kindTag
		}
		emit(map[string]any{
			"k":            kind,
			"coq":          fmt.Sprintf("CaseLab %d [%s]%%N %d %d %d", dns.CountLabel(zone), strings.Join(bc, ";"), obs.records, obs.clears, obs.rcode),
			"nontrivial":   len(bs) > 1,
			"inconclusive": inconclusive,
			"desc":         map[string]any{"zone": zone, "servers": bn, "zone_failures_published": obs.records, "cleared": obs.clears, "rcode": obs.rcode, "err": obs.err, "asked": obs.asked},
		})
	}
	// fixed inputs first (VERIF_CORPUS/lab.json: [{"zone": "...", "servers": [codes]}])
	for _, c := range vC13LabCorpus(t) {
		runFanout(c.Servers, c.Zone, "lab-corpus")
	}
	// Directed: a large NS set most of which is lame for the question — k >= 3
	// authorities answer with a failure rcode at once (all the same rcode, or
	// three alike among others) and ONE healthy server answers after all of
	// them.  However many lame verdicts have come in, the zone has not failed
	// while a server is still unheard.  Every failure rcode; the healthy
	// server at every position of the delegation.
	rcodes := []int{vC13Refused, vC13ServFail, vC13NotImp, vC13NotAuth}
	rounds := 1
	if n >= 100 {
		rounds = 3
	}
	for round := 0; round < rounds; round++ {
		for ri, rc := range rcodes {
			for _, lame := range []int{3, 4 + (ri+round+int(seed))%2} {
				bs := make([]int, 0, lame+1)
				for j := 0; j < lame; j++ {
					bs = append(bs, rc)
				}
				bs = append(bs, vC13HealthySlow)
				pos := r.Intn(len(bs))
				bs[pos], bs[len(bs)-1] = bs[len(bs)-1], bs[pos]
				runFanout(bs, zones[r.Intn(len(zones))], "lab-fanout-lame-majority")
			}
		}
		for j := 0; j < 2; j++ { // three alike among other failure rcodes, and a second healthy one
			rc := rcodes[r.Intn(len(rcodes))]
			bs := []int{rc, rc, rc, rcodes[r.Intn(len(rcodes))], vC13HealthySlow}
			if j == 1 {
				bs = append(bs, vC13Healthy)
			}
			r.Shuffle(len(bs), func(a, b int) { bs[a], bs[b] = bs[b], bs[a] })
			runFanout(bs, zones[r.Intn(len(zones))], "lab-fanout-lame-majority")
		}
	}
	// Directed: authorities that say NXDOMAIN — a usable response — among lame ones, at every zone
	// depth (for the root / a TLD the first NXDOMAIN ends the lookup, deeper only the third
	// response error does): whatever the others said, the zone has not failed; with a healthy
	// server as well the outcome (answer or NXDOMAIN) depends on who is heard first, a zone
	// failure is wrong either way.
	nxRounds := 6
	if n >= 100 {
		nxRounds = 40
	}
	for i := 0; i < nxRounds; i++ {
		k := 2 + r.Intn(4)
		bs := make([]int, 0, k+1)
		for j := 0; j < k; j++ {
			bs = append(bs, failing[r.Intn(len(failing))])
		}
		nx := 1 + r.Intn(2)
		for j := 0; j < nx && j < k; j++ {
			bs[j] = vC13NXDomain
		}
		if i%3 == 2 {
			bs = append(bs, vC13HealthySlow)
		}
		r.Shuffle(len(bs), func(a, b int) { bs[a], bs[b] = bs[b], bs[a] })
		runFanout(bs, zones[i%len(zones)], "")
	}
	for i := 0; i < n; i++ {
		k := 1 + r.Intn(6)
		var bs []int
		healthy := 0
		switch r.Intn(4) {
		case 0: // every server fails
		case 1:
			healthy = 1
		default:
			healthy = 1 + r.Intn(2)
		}
		if healthy > k {
			healthy = k
		}
		for j := 0; j < k-healthy; j++ {
			bs = append(bs, failing[r.Intn(len(failing))])
		}
		for j := 0; j < healthy; j++ {
			bs = append(bs, []int{vC13Healthy, vC13HealthySlow, vC13HealthySlow}[r.Intn(3)])
		}
		r.Shuffle(len(bs), func(a, b int) { bs[a], bs[b] = bs[b], bs[a] })
		if r.Intn(6) == 0 { // one silent server: costs a network timeout
			bs[r.Intn(len(bs))] = vC13Silent
		}
		runFanout(bs, zones[r.Intn(len(zones))], "")
	}
	for i := 0; i < 4; i++ {
		zoneQuota := i%2 == 1
		name := fmt.Sprintf("shed%d.example.", r.Intn(1000))
		var o vC13ShedObs
		for try := 0; try < 3; try++ {
			o = vC13Shed(zoneQuota, name)
			if o.infra || (o.rc2 == dns.RcodeSuccess && o.up2 > 0) {
				break
			}
		}
		e := "RCapacityGlobal"
		if zoneQuota {
			e = "RCapacityZone"
		}
		emit(map[string]any{
			"k":            "lab-shed-load",
			"coq":          fmt.Sprintf("CaseShed %s %d %s %d %d %s %d", e, o.rc1, vC13EdeCoq(o.ede1), o.up1, o.rc2, vC13EdeCoq(o.ede2), o.up2),
			"nontrivial":   true,
			"inconclusive": o.infra,
			"desc": map[string]any{"capacity": e, "query": name,
				"while_at_capacity": fmt.Sprintf("rcode=%d ede=%d authority_packets=%d", o.rc1, o.ede1, o.up1),
				"after_load_gone":   fmt.Sprintf("rcode=%d ede=%d authority_packets=%d", o.rc2, o.ede2, o.up2), "note": o.note},
		})
	}
}
