//go:build verif

package resolver

// C02 driver through Resolver.authority (overlay-injected, never committed to /repo): generated
// signed zones (real ECDSA RRSIGs over SOA and every NSEC / NSEC3 record, DNSKEY served from a
// warm store, DS as parentDS), negative responses NXDOMAIN / NODATA built from subsets of the
// genuine chain, CD=0/1.  Observed: error class, AD of the returned response, whether
// validated-negative provenance is published and whether it is aggressive-eligible — the flag
// that stops the QNAME-minimised walk (processAuthoritySection) and admits the proof to
// RecordDenialProof / RecordNXDomainCut (cache.ResponseWriter.WriteMsg).  Judged against the
// zone's ground truth and against the Coq model of the composition (ModelAuth.v).

import (
	"context"
	"crypto"
	"fmt"
	"math/rand"
	"net"
	"strings"
	"sync/atomic"
	"testing"
	"time"

	"github.com/miekg/dns"
	"github.com/semihalev/sdns/config"
	"github.com/semihalev/sdns/internal/authority"
	"github.com/semihalev/sdns/internal/dnsutil"
	"github.com/semihalev/sdns/middleware"
)

func TestVerifC02Authority(t *testing.T) {
	tr := vC02Open(t)
	defer tr.f.Close()
	seed := int64(vC02EnvInt("VERIF_SEED", 1))
	n := vC02EnvInt("VERIF_N", 100)
	r := rand.New(rand.NewSource(seed*32452843 + 9))
	g := &vC02Gen{r: r}
	// a local authority that answers SERVFAIL to everything: Resolver.authority must decide from
	// the response, the DS and the warm DNSKEY store alone; any query it sends is recorded
	packetConn, err := net.ListenPacket("udp4", "127.0.0.1:0")
	if err != nil {
		tr.emit(map[string]any{"k": "auth-setup", "inconclusive": true, "desc": "listen: " + err.Error()})
		return
	}
	server := &dns.Server{Net: "udp", PacketConn: packetConn, Handler: dns.HandlerFunc(func(w dns.ResponseWriter, req *dns.Msg) {
		vC02AuthOutbound.Add(1)
		resp := new(dns.Msg)
		resp.SetRcode(req, dns.RcodeServerFailure)
		_ = w.WriteMsg(resp)
	})}
	go func() { _ = server.ActivateAndServe() }()
	defer func() { _ = server.Shutdown(); _ = packetConn.Close() }()
	vC02AuthServer = packetConn.LocalAddr().String()
	for c := 0; c < n; c++ {
		g.newPool(true)
		plain := func() []byte { return []byte{"abcxyz"[r.Intn(6)]} } // apex: ordinary labels (it names the DNSKEY/DS)
		apex := vC02Name{plain()}
		if r.Intn(3) == 0 {
			apex = vC02Name{plain(), plain()}
		}
		for i := range apex { // the RRSIG signer / DS owner spelling is the caller's business (C01): keep the apex lower case
			apex[i] = vC02FoldLabel(apex[i])
		}
		zin := g.genZone(apex, 1+r.Intn(7))
		vC02AuthCase(t, tr, g, zin, r.Intn(2) == 0)
	}
}

var (
	vC02AuthServer   string
	vC02AuthOutbound atomic.Uint64
)

// vC02ZoneKey: a fresh ECDSA zone key whose key tag is not 0.  miekg's RRSIG.Sign refuses KeyTag == 0 ("dns: bad
// key"), so one generated key in 65 536 made the fixture helper randomQSignRRSet end the driver (seen once in ~300
// runs: "sign y.c. DNSKEY: dns: bad key"); the key material is random anyway, drawing again changes nothing the
// check states
func vC02ZoneKey(t testing.TB, zone string) (*dns.DNSKEY, crypto.PrivateKey) {
	for {
		key, priv := randomQZoneKey(t, zone)
		if key.KeyTag() != 0 {
			return key, priv
		}
	}
}

// vC02TB hands the repository's fixture helpers (key generation, signing) a testing.TB whose Fatalf leaves its
// message in the trace before it ends the driver: a driver that dies this way is reported by check.py as broken
// (exit 1), and the trace then says why (this is how the key-tag-0 failure above was identified)
type vC02TB struct {
	testing.TB
	tr   *vC02Trace
	what string
}

func (v *vC02TB) Fatalf(format string, args ...any) {
	v.tr.emit(map[string]any{"k": v.what + "-driver-fatal", "desc": fmt.Sprintf(format, args...)})
	v.TB.Fatalf(format, args...)
}

func (v *vC02TB) Fatal(args ...any) {
	v.tr.emit(map[string]any{"k": v.what + "-driver-fatal", "desc": fmt.Sprint(args...)})
	v.TB.Fatal(args...)
}

func vC02AuthCase(t0 *testing.T, tr *vC02Trace, g *vC02Gen, zin *vC02Zone, useNSEC3 bool) {
	var t testing.TB = &vC02TB{TB: t0, tr: tr, what: "auth"}
	r := g.r
	z := zin
	if useNSEC3 { // an NSEC3-signed zone has no NSEC RRsets
		z = &vC02Zone{apex: zin.apex}
		for _, nd := range zin.nodes {
			var ts []uint16
			for _, ty := range nd.types {
				if ty != dns.TypeNSEC {
					ts = append(ts, ty)
				}
			}
			z.nodes = append(z.nodes, vC02Node{nd.name, ts})
		}
		z.index()
	}
	zoneStr := vC02Pres(z.apex)
	key, priv := vC02ZoneKey(t, zoneStr)
	sign := func(rr dns.RR) *dns.RRSIG { return randomQSignRRSet(t, key, priv, []dns.RR{rr}) }

	cfg := &config.Config{DNSSEC: "on", Maxdepth: 30, MaxConcurrentQueries: 16, Timeout: config.Duration{Duration: time.Second}}
	res := &Resolver{
		cfg:             cfg,
		delegations:     authority.NewCache(),
		rootServers:     &authority.Servers{Zone: zoneStr, List: []*authority.Server{authority.NewServer(vC02AuthServer, authority.IPv4)}},
		dnssec:          true,
		rootKeys:        []dns.RR{key},
		netTimeout:      time.Second,
		sfGroup:         NewSingleflightWrapper(),
		circuitBreaker:  newCircuitBreaker(),
		maxConcurrent:   make(chan struct{}, cfg.MaxConcurrentQueries),
		resolutionSlots: make(chan struct{}, cfg.MaxConcurrentQueries),
		qnameMinLevel:   10,
	}
	keyResponse := new(dns.Msg)
	keyResponse.SetQuestion(zoneStr, dns.TypeDNSKEY)
	keyResponse.Response = true
	keyResponse.Authoritative = true
	keyResponse.Answer = append(keyResponse.Answer, key, randomQSignRRSet(t, key, priv, []dns.RR{key}))
	var store middleware.Store = &randomQWarmDNSSECStore{zone: zoneStr, msg: keyResponse}
	res.store.Store(&store)
	parentDS := []dns.RR{key.ToDS(dns.SHA256)}

	soa := &dns.SOA{Hdr: dns.RR_Header{Name: zoneStr, Rrtype: dns.TypeSOA, Class: dns.ClassINET, Ttl: 300},
		Ns: "ns1." + zoneStr, Mbox: "hostmaster." + zoneStr, Serial: 1, Refresh: 3600, Retry: 600, Expire: 86400, Minttl: 300}
	soaSig := sign(soa)

	// the denial records of the response: a subset of the genuine chain, sometimes with one
	// record a hostile (but correctly signing) zone could add
	var rrs []dns.RR
	var recsN []vC02Rec
	var recs3 []vC02Rec3
	var genuine []bool
	var signedBy []int  // per record: 0 = the zone's key, 1 = another zone's key, 2 = no RRSIG
	foreignZone := ""
	params := vC02Params{iter: []uint16{0, 0, 1}[r.Intn(3)], salt: []string{"", "ab"}[r.Intn(2)]}
	kind := "full"
	pick := func() bool {
		if kind == "subset" {
			return r.Intn(4) > 0
		}
		return true
	}
	if r.Intn(2) == 0 {
		kind = "subset"
	}
	polluted := ""
	cands := g.candidates(z)
	if useNSEC3 {
		chain, _ := g.nsec3Chain(z, params, r.Intn(3) == 0, r.Intn(2) == 0)
		for _, rc := range chain {
			if pick() {
				recs3 = append(recs3, rc)
				genuine = append(genuine, true)
			}
		}
		if r.Intn(6) == 0 && len(recs3) > 0 {
			i := r.Intn(len(recs3))
			recs3[i].flags ^= 1
			genuine[i] = false
			polluted = "optout-flip"
		}
		// session 5: records that do NOT carry a signature of the zone's key, as in the NSEC branch below: a child
		// zone's NSEC3 chain under the child's key (owners hash.child.zone lie inside the signer zone), a sibling
		// zone's chain under the sibling's key (owners outside), an in-zone record shipped without a signature
		signedBy = make([]int, len(recs3))
		if polluted == "" && r.Intn(3) == 0 {
			switch r.Intn(6) {
			case 0, 1, 2:
				var cuts []vC02Node
				for _, nd := range z.nodes {
					if vC02Has(nd.types, dns.TypeNS) && !vC02Has(nd.types, dns.TypeSOA) {
						cuts = append(cuts, nd)
					}
				}
				if len(cuts) > 0 {
					nd := cuts[r.Intn(len(cuts))]
					cz := g.genZone(nd.name, 2+r.Intn(3))
					child := &vC02Zone{apex: cz.apex}
					for _, cn := range cz.nodes {
						var ts []uint16
						for _, ty := range cn.types {
							if ty != dns.TypeNSEC {
								ts = append(ts, ty)
							}
						}
						child.nodes = append(child.nodes, vC02Node{cn.name, ts})
					}
					child.index()
					foreignZone = vC02Pres(child.apex)
					cchain, _ := g.nsec3Chain(child, params, false, false)
					for _, rc := range cchain {
						if r.Intn(4) > 0 {
							rc.note = "child"
							recs3 = append(recs3, rc)
							genuine = append(genuine, false)
							signedBy = append(signedBy, 1)
							polluted = "child-signed"
						}
					}
				}
			case 3:
				sib := append([]byte(nil), z.apex[0]...)
				sib[len(sib)-1] ^= 1
				sz := &vC02Zone{apex: vC02Child(sib, z.apex[1:])}
				sz.nodes = []vC02Node{{sz.apex, []uint16{dns.TypeNS, dns.TypeSOA, dns.TypeRRSIG, dns.TypeDNSKEY}}, {vC02Child([]byte("a"), sz.apex), []uint16{dns.TypeA, dns.TypeRRSIG}}}
				sz.index()
				foreignZone = vC02Pres(sz.apex)
				schain, _ := g.nsec3Chain(sz, params, false, false)
				for _, rc := range schain {
					rc.note = "sibling"
					recs3 = append(recs3, rc)
					genuine = append(genuine, false)
					signedBy = append(signedBy, 1)
					polluted = "sibling-signed"
				}
			default:
				if len(recs3) > 0 {
					signedBy[r.Intn(len(recs3))] = 2
					polluted = "unsigned"
				}
			}
		}
		r.Shuffle(len(recs3), func(i, j int) {
			recs3[i], recs3[j] = recs3[j], recs3[i]
			genuine[i], genuine[j] = genuine[j], genuine[i]
			signedBy[i], signedBy[j] = signedBy[j], signedBy[i]
		})
		for _, rc := range recs3 {
			rrs = append(rrs, rc.rr())
		}
	} else {
		for _, rc := range z.nsecChain() {
			if pick() {
				recsN = append(recsN, rc)
				genuine = append(genuine, true)
			}
		}
		if r.Intn(6) == 0 {
			a, b := cands[r.Intn(len(cands))], cands[r.Intn(len(cands))]
			collides := false // a second RR at an existing owner would join that RRset (and must be spelled alike)
			for _, rc := range recsN {
				if vC02Key(rc.owner) == vC02Key(a) {
					collides = true
				}
			}
			if !collides && vC02Sub(a, z.apex) && vC02Sub(b, z.apex) {
				recsN = append(recsN, vC02Rec{owner: a, next: b, types: []uint16{dns.TypeA, dns.TypeRRSIG, dns.TypeNSEC}, class: 1, note: "made-up"})
				genuine = append(genuine, false)
				polluted = "made-up"
			}
		}
		// records that do NOT carry a signature of the zone's key (signedBy: 0 = the zone's key, 1 = another
		// zone's key with that zone as RRSIG signer, 2 = no RRSIG at all): a child zone's chain replayed under
		// the child's key (owners inside the signer zone), a sibling zone's chain under the sibling's key
		// (owners outside), an in-zone record shipped without a signature
		signedBy = make([]int, len(recsN))
		owned := func(n vC02Name) bool {
			for _, rc := range recsN {
				if vC02Key(rc.owner) == vC02Key(n) {
					return true
				}
			}
			return false
		}
		if polluted == "" && r.Intn(2) == 0 {
			switch r.Intn(6) {
			case 0, 1, 2: // child zone below one of the delegations
				var cuts []vC02Node
				for _, nd := range z.nodes {
					if vC02Has(nd.types, dns.TypeNS) && !vC02Has(nd.types, dns.TypeSOA) {
						cuts = append(cuts, nd)
					}
				}
				if len(cuts) > 0 {
					nd := cuts[r.Intn(len(cuts))]
					child := g.genZone(nd.name, 2+r.Intn(3))
					foreignZone = vC02Pres(child.apex)
					for _, rc := range child.nsecChain() {
						if !owned(rc.owner) && r.Intn(4) > 0 {
							rc.note = "child"
							recsN = append(recsN, rc)
							genuine = append(genuine, false)
							signedBy = append(signedBy, 1)
							polluted = "child-signed"
						}
					}
				}
			case 3: // sibling zone
				sib := append([]byte(nil), z.apex[0]...)
				sib[len(sib)-1] ^= 1
				sz := g.genZone(vC02Child(sib, z.apex[1:]), 2)
				foreignZone = vC02Pres(sz.apex)
				for _, rc := range sz.nsecChain() {
					rc.note = "sibling"
					recsN = append(recsN, rc)
					genuine = append(genuine, false)
					signedBy = append(signedBy, 1)
					polluted = "sibling-signed"
				}
			default: // an in-zone record without any signature: a genuine one, or a made-up interval
				if len(recsN) > 0 && r.Intn(2) == 0 {
					signedBy[r.Intn(len(recsN))] = 2
					polluted = "unsigned"
				} else {
					a, b := cands[r.Intn(len(cands))], cands[r.Intn(len(cands))]
					if !owned(a) && vC02Sub(a, z.apex) && vC02Sub(b, z.apex) {
						recsN = append(recsN, vC02Rec{owner: a, next: b, types: []uint16{dns.TypeA, dns.TypeRRSIG, dns.TypeNSEC}, class: 1, note: "made-up"})
						genuine = append(genuine, false)
						signedBy = append(signedBy, 2)
						polluted = "unsigned-made-up"
					}
				}
			}
		}
		r.Shuffle(len(recsN), func(i, j int) {
			recsN[i], recsN[j] = recsN[j], recsN[i]
			genuine[i], genuine[j] = genuine[j], genuine[i]
			signedBy[i], signedBy[j] = signedBy[j], signedBy[i]
		})
		for _, rc := range recsN {
			rrs = append(rrs, rc.rr())
		}
	}
	rrs = vC02RoundTrip(rrs)
	// one RRSIG per record; records sharing an owner form one RRset and are signed together
	byOwner := map[string][]dns.RR{}
	ownerSig := map[string]int{}
	var order []string
	for i, rr := range rrs {
		k := strings.ToLower(rr.Header().Name)
		if _, ok := byOwner[k]; !ok {
			order = append(order, k)
			if signedBy != nil {
				ownerSig[k] = signedBy[i]
			}
		}
		byOwner[k] = append(byOwner[k], rr)
	}
	var fkey *dns.DNSKEY
	var fpriv crypto.PrivateKey
	if foreignZone != "" {
		fkey, fpriv = vC02ZoneKey(t, foreignZone)
	}
	var denial []dns.RR
	denial = append(denial, soa, soaSig)
	for _, k := range order {
		denial = append(denial, byOwner[k]...)
		switch ownerSig[k] {
		case 0:
			denial = append(denial, randomQSignRRSet(t, key, priv, byOwner[k]))
		case 1:
			denial = append(denial, randomQSignRRSet(t, fkey, fpriv, byOwner[k]))
		}
	}
	// judged: everything the zone's key signed is a genuine record (what others signed, or nobody, is arbitrary)
	allGenuine := true
	foreignInZone := false
	for i, gq := range genuine {
		if signedBy == nil || signedBy[i] == 0 {
			allGenuine = allGenuine && gq
		} else if dnsutil.NameInZone(strings.ToLower(rrs[i].Header().Name), zoneStr) {
			foreignInZone = true
		}
	}
	filtered := dnsutil.FilterRRsToZone(rrs, zoneStr)
	var kept []int
	for _, f := range filtered {
		for i, rr := range rrs {
			if rr == f {
				kept = append(kept, i)
			}
		}
	}

	tabNames := map[string]vC02Name{}
	var pcoq, pdesc []string
	goFail := ""
	accepted, refused := false, false
	for i := 0; i < 3+r.Intn(3); i++ {
		q := cands[r.Intn(len(cands))]
		if !vC02Sub(q, z.apex) {
			continue
		}
		if r.Intn(6) == 0 { // case of the labels below the apex only
			k := len(q) - len(z.apex)
			q = append(vC02UpperSome(r, q[:k]), q[k:]...)
		}
		qtype := []uint16{dns.TypeA, dns.TypeA, dns.TypeAAAA, dns.TypeTXT, dns.TypeDS, dns.TypeNS, dns.TypeMX, dns.TypeCNAME}[r.Intn(8)]
		rcode := dns.RcodeNameError
		if r.Intn(2) == 0 {
			rcode = dns.RcodeSuccess
		}
		cd := r.Intn(10) == 0
		qs := vC02Pres(q)
		req := new(dns.Msg)
		req.SetQuestion(qs, qtype)
		req.SetEdns0(1232, true)
		req.CheckingDisabled = cd
		resp := new(dns.Msg)
		resp.SetRcode(req, rcode)
		resp.Authoritative = true
		for _, rr := range denial {
			resp.Ns = append(resp.Ns, dns.Copy(rr))
		}
		var meta middleware.ResponseMeta
		ctx := middleware.WithResponseMeta(context.Background(), &meta)
		before := vC02AuthOutbound.Load()
		validated, err := res.authority(ctx, req, resp, parentDS, zoneStr)
		outbound := vC02AuthOutbound.Load() - before
		ec, ad, marked, aggr := vC02ErrClass(err), false, false, false
		stops, admits := false, false
		note := ""
		if err == nil && validated != nil {
			ad = validated.AuthenticatedData
			if neg, ok := middleware.ValidatedNegativeProofForResponse(ctx, validated); ok {
				marked, aggr = true, neg.Aggressive
				if !strings.EqualFold(neg.Subject, qs) || !strings.EqualFold(neg.Zone, zoneStr) {
					goFail = fmt.Sprintf("provenance for %s names subject %q zone %q", qs, neg.Subject, neg.Zone)
				}
				// the two consumers of the flag, as written in processAuthoritySection and
				// cache.ResponseWriter.WriteMsg
				stops = neg.Aggressive && neg.Proof != nil && neg.Proof.Rcode == dns.RcodeNameError && !dnsutil.HasNSEC3OptOut(validated.Ns, neg.Zone)
				admits = !cd && neg.Aggressive && neg.Proof != nil
			}
			accepted = true
		} else {
			refused = true
		}
		for k := 0; k <= len(q); k++ {
			if s := vC02Suffix(q, k); vC02Sub(s, z.apex) {
				tabNames[vC02Key(s)] = s
				w := vC02Child(vC02Star, s)
				tabNames[vC02Key(w)] = w
			}
		}
		how := z.existsHow(q)
		ndTrue := z.nodataTrue(q, qtype)
		truth := (rcode == dns.RcodeNameError && how == "") || (rcode == dns.RcodeSuccess && ndTrue)
		if foreignInZone && !cd && err == nil && goFail == "" {
			goFail = fmt.Sprintf("Resolver.authority accepted the response for %s although it carries an RRset inside %s without a verifying signature of the zone (%s)", qs, zoneStr, polluted)
		}
		if allGenuine && goFail == "" {
			switch {
			case err == nil && ad && !truth:
				goFail = fmt.Sprintf("Resolver.authority returned AD=1 for rcode=%d %s %s although that is not true of the zone (exists=%q nodata=%v)", rcode, qs, dns.TypeToString[qtype], how, ndTrue)
			case marked && !truth:
				goFail = fmt.Sprintf("Resolver.authority published validated-negative provenance (aggressive=%v) for rcode=%d %s %s although that is not true of the zone (exists=%q nodata=%v)", aggr, rcode, qs, dns.TypeToString[qtype], how, ndTrue)
			case (stops || admits) && !truth:
				goFail = fmt.Sprintf("an untrue denial for %s would stop the minimised walk / be admitted to the shared denial state", qs)
			case marked && cd:
				goFail = "provenance published for a CD=1 request"
			}
		}
		note = fmt.Sprintf("[truth: exists=%q nodata=%v; minimised walk stops=%v; admitted to RecordDenialProof=%v RecordNXDomainCut=%v]", how, ndTrue, stops, admits, admits && rcode == dns.RcodeNameError)
		pcoq = append(pcoq, fmt.Sprintf("mk_aprobe %s %d 1 %d %v %d %v %v %v", vC02Coq(q), qtype, rcode, cd, ec, ad, marked, aggr))
		pdesc = append(pdesc, fmt.Sprintf("%s %s rcode=%d cd=%v -> err=%d AD=%v provenance=%v aggressive=%v outbound=%d %s", qs, dns.TypeToString[qtype], rcode, cd, ec, ad, marked, aggr, outbound, note))
	}
	if len(pcoq) == 0 {
		return
	}
	var rdesc []string
	for i, rr := range rrs {
		rdesc = append(rdesc, fmt.Sprintf("%d: %s", i, strings.Join(strings.Fields(rr.String()), " ")))
	}
	coq := ""
	k := "auth-nsec-" + kind
	if useNSEC3 {
		k = "auth-nsec3-" + kind
		zones := make([]vC02Name, len(rrs))
		for i := range zones {
			zones[i] = recs3[i].zone
		}
		rcoq, tcoq := vC02Nsec3Coq(rrs, zones, tabNames, params)
		var scoq []string
		for i := range recs3 {
			scoq = append(scoq, fmt.Sprint(signedBy[i] == 0))
			if signedBy[i] != 0 {
				rdesc[i] += fmt.Sprintf("  [%s: signedBy=%d]", recs3[i].note, signedBy[i])
			}
		}
		coq = fmt.Sprintf("(CaseAuthNsec3 %s %s [%s] [%s] %s [%s] %v [%s])%%N", z.coq(), vC02Coq(z.apex), strings.Join(rcoq, ";"), strings.Join(scoq, ";"), vC02CoqInts(kept),
			strings.Join(tcoq, ";"), allGenuine, strings.Join(pcoq, ";"))
	} else {
		var rcoq []string
		for _, rc := range recsN {
			rcoq = append(rcoq, rc.coq())
		}
		var scoq []string
		for i := range recsN {
			scoq = append(scoq, fmt.Sprint(signedBy[i] == 0))
			if signedBy[i] != 0 {
				rdesc[i] += fmt.Sprintf("  [%s: signedBy=%d]", recsN[i].note, signedBy[i])
			}
		}
		coq = fmt.Sprintf("(CaseAuthNsec %s %s [%s] [%s] %s [%s])%%N", z.coq(), vC02Coq(z.apex), strings.Join(rcoq, ";"), strings.Join(scoq, ";"), vC02CoqInts(kept), strings.Join(pcoq, ";"))
	}
	if polluted != "" {
		k += "+" + polluted
	}
	tr.emit(map[string]any{
		"k": k, "coq": coq, "go_fail": goFail, "nontrivial": accepted && refused,
		"desc": map[string]any{"zone": z.desc(), "records": rdesc, "probes": pdesc},
	})
}
