//go:build verif

package resolver

// C01 driver (descent): Resolver.Resolve — the production entry point the handler calls — walking a generated
// hierarchy from the root hints down to the answering zone over UDP on loopback, one scripted listener per zone.
// The DS / DNSKEY sub-queries are answered by the scripted Store of the mid driver (no recursion inside the
// recursion), QNAME minimisation is off, every NS host has glue: the ONLY upstream exchanges are the steps of the
// descent, and the listeners log which response they served in which order. The model (Model.descend) consumes that
// transcript: (zone asked, DS set held) travel down through validate_delegation at every cut; the last response goes
// through validate_answer / validate_negative with what arrived there. The question is then resolved a second time
// on the same resolver: the walk starts at the deepest cut of the delegation cache with the DS set filed there.
// Compared: both outcomes (error / rcode, AD, answer and authority records), the transcript being consumed exactly,
// and the DS set the delegation cache holds for every zone of the world.

import (
	"context"
	"errors"
	"fmt"
	"math/rand"
	"net"
	"os"
	"strings"
	"sync"
	"testing"
	"time"

	"github.com/miekg/dns"
	"github.com/semihalev/sdns/config"
	internalcache "github.com/semihalev/sdns/internal/cache"
	"github.com/semihalev/sdns/internal/dnsutil"
	"github.com/semihalev/sdns/middleware"
	"github.com/semihalev/sdns/middleware/resolver/dnssec"
)

type vC01DLog struct {
	mu     sync.Mutex
	served []*dns.Msg // the scripted messages, in the order they were served
	stray  int        // questions no script covers
}

type vC01DServer struct {
	addr string
	stop func()
}

// one listener per zone: answers (name, qtype) with a copy of the message scripted for that name, and logs it
func vC01DStart(log *vC01DLog, qtype uint16, script map[string]*dns.Msg) (*vC01DServer, bool) {
	pc, err := net.ListenPacket("udp", "127.0.0.1:0")
	if err != nil {
		return nil, false
	}
	s := &vC01DServer{addr: pc.LocalAddr().String()}
	mux := dns.NewServeMux()
	mux.HandleFunc(".", func(rw dns.ResponseWriter, r *dns.Msg) {
		if len(r.Question) != 1 {
			return
		}
		q := r.Question[0]
		var m *dns.Msg
		if resp := script[strings.ToLower(q.Name)]; resp != nil && q.Qtype == qtype {
			m = resp.Copy()
			m.Id = r.Id
			m.Question = []dns.Question{q}
			m.Response = true
			m.Authoritative = len(m.Answer) > 0 || m.Rcode == dns.RcodeNameError
			log.mu.Lock()
			log.served = append(log.served, resp)
			log.mu.Unlock()
		} else {
			m = new(dns.Msg)
			m.SetRcode(r, dns.RcodeRefused)
			log.mu.Lock()
			log.stray++
			log.mu.Unlock()
		}
		if opt := r.IsEdns0(); opt != nil {
			m.SetEdns0(4096, opt.Do())
		}
		_ = rw.WriteMsg(m)
	})
	srv := &dns.Server{Net: "udp", PacketConn: pc, Handler: mux}
	started := make(chan struct{})
	srv.NotifyStartedFunc = func() { close(started) }
	go func() { _ = srv.ActivateAndServe() }()
	select {
	case <-started:
	case <-time.After(3 * time.Second):
		return nil, false
	}
	s.stop = func() { _ = srv.Shutdown() }
	return s, true
}

// the environment with the denial / wildcard oracles asked about EVERY hop of the descent
func (x *vC01World) descEnv(r *Resolver, rk vC01Ranks, hops []*dns.Msg, subjects []string, negative []bool) string {
	var dsT, keyT, dnT, orc, wild []string
	signers := x.zoneNames()
	seenDS := map[string]bool{}
	for _, m := range x.order {
		q := m.Question[0]
		if q.Qtype == dns.TypeDS {
			isTab := false
			for _, cd := range []bool{false, true} {
				if x.ds[vC01StoreKey(q.Name, dns.TypeDS, cd)] == m && !seenDS[vC01StoreKey(q.Name, dns.TypeDS, cd)] {
					seenDS[vC01StoreKey(q.Name, dns.TypeDS, cd)] = true
					dsT = append(dsT, fmt.Sprintf("(%s,%s,LMsg m%d)", x.w.name(q.Name), vC01Bool(cd), x.msgs[m]))
					isTab = true
				}
			}
			if isTab {
				orc = append(orc, x.orcEntries(r, m, q.Name, signers, false)...)
			}
		}
		if q.Qtype == dns.TypeDNSKEY && x.keys[strings.ToLower(q.Name)] == m {
			keyT = append(keyT, fmt.Sprintf("(%s,LMsg m%d)", x.w.name(q.Name), x.msgs[m]))
		}
	}
	for k, m := range x.dname {
		parts := strings.Split(k, "|")
		dnT = append(dnT, fmt.Sprintf("(%s,%s,LMsg m%d)", x.w.name(parts[0]), parts[1], x.msgs[m]))
	}
	for i, m := range hops {
		orc = append(orc, x.orcEntries(r, m, subjects[i], signers, negative[i])...)
		wild = append(wild, x.wildEntries(r, m, signers)...)
	}
	var lets []string
	for _, m := range x.order {
		lets = append(lets, fmt.Sprintf("let m%d := %s in ", x.msgs[m], x.coqMsg(m, rk)))
	}
	env := fmt.Sprintf("(mk_envd %s %d true %s [%s] [%s] [%s] [%s] [%s])", x.w.namesSorted(), time.Now().Unix(), x.w.coqKeys(x.anchors),
		strings.Join(dsT, ";"), strings.Join(keyT, ";"), strings.Join(dnT, ";"), strings.Join(orc, ";"), strings.Join(wild, ";"))
	return strings.Join(lets, "") + "let E := " + env + " in "
}

func vC01DescObs(w *vC01W, m *dns.Msg, err error) string {
	switch {
	case err == nil:
	case errors.Is(err, errParentDetection):
		return "(OFail (ELookup 97))"
	}
	return vC01Obs(w, m, err)
}

// an outcome that says nothing about the code: the loopback exchange itself failed
func vC01DescInfra(err error) bool {
	if err == nil {
		return false
	}
	return errors.Is(err, errNoReachableAuth) || errors.Is(err, context.DeadlineExceeded) || errors.Is(err, context.Canceled) ||
		errors.Is(err, errConnectionFailed) || strings.Contains(err.Error(), "timeout") || strings.Contains(err.Error(), "connection refused")
}

func TestVerifC01Descent(t *testing.T) {
	tr := vC01Open(t)
	seed := int64(vC01EnvInt("VERIF_SEED", 1))
	n := vC01EnvInt("VERIF_N", 60)
	rnd := rand.New(rand.NewSource(seed*7351 + 11))
	vC01Quiet()
	for i := 0; i < n; i++ {
		vC01DescentCase(rnd, tr, i)
	}
}

func vC01DescentCase(rnd *rand.Rand, tr *vC01Trace, caseNo int) {
	x := vC01NewWorld(rnd)
	att := &vC01Attacker{keys: map[string]*vC01Key{}}
	z := x.zones[len(x.zones)-1]
	inc, exp := x.now-6*3600, x.now+6*3600
	kinds := []string{fmt.Sprintf("depth%d", len(x.zones))}
	for _, zz := range x.zones[1:] {
		kinds = append(kinds, zz.cut)
	}
	chainSecure := !x.insecureAbove(z) && z.signed
	genuine := true
	cd := rnd.Intn(10) == 0

	// ---- QNAME minimisation: cfg.QnameMinLevel (0 = off, then Resolve is also told nomin, as its internal callers do) ----
	qmin := []int{0, 5, 5, 2}[rnd.Intn(4)]
	nomin := qmin == 0
	deep := 0 // extra labels in front of the name: the names in between are empty non-terminals of the answering zone
	if qmin > 0 {
		deep = rnd.Intn(3)
		kinds = append(kinds, fmt.Sprintf("qmin%d+deep%d", qmin, deep))
	}

	// ---- the question and the answering zone's response ----
	qname, qtype := x.sub("www", z.name), dns.TypeA
	shape := rnd.Intn(10)
	negative := false
	plain := false
	switch {
	case shape < 5:
		plain = true
		kinds = append(kinds, "a")
	case shape < 7 && z.signed:
		kinds = append(kinds, "wildcard")
	case shape < 9:
		negative = true
		if rnd.Intn(2) == 0 {
			qname = x.sub("nx", z.name)
			kinds = append(kinds, "nxdomain")
		} else {
			qtype = dns.TypeAAAA
			kinds = append(kinds, "nodata")
		}
	default:
		plain = true
		qname = z.name // the apex
		kinds = append(kinds, "a-apex")
	}
	// the question type rides on every referral: an RRSIG question (whose answer cannot be verified) must not change what
	// the referrals hand down
	if plain && rnd.Intn(5) == 0 {
		qtype = dns.TypeRRSIG
		kinds = append(kinds, "q:rrsig")
	}
	for j := 0; j < deep; j++ {
		qname = x.sub([]string{"a", "b"}[j], qname)
	}
	x.fillEnv(qname)
	// the root has no DS RRset: its sub-query is answered from the scripted Store with an empty message (lookupDS: "DS or
	// NSEC records not found") instead of leaking to the listeners as a stray question
	if x.ds[vC01StoreKey(".", dns.TypeDS, false)] == nil {
		rootDS := x.newMsg(".", dns.TypeDS)
		x.ds[vC01StoreKey(".", dns.TypeDS, false)] = rootDS
		x.ds[vC01StoreKey(".", dns.TypeDS, true)] = rootDS
	}
	final := x.newMsg(qname, qtype)
	switch {
	case negative && qtype == dns.TypeA:
		final.Rcode = dns.RcodeNameError
		final.Ns = append(x.soa(z), x.nsec(z, z.name, dns.TypeSOA, dns.TypeRRSIG, dns.TypeNSEC)...)
	case negative:
		final.Ns = append(x.soa(z), x.nsec(z, qname, dns.TypeA, dns.TypeRRSIG, dns.TypeNSEC)...)
	case !plain:
		set := []dns.RR{&dns.A{Hdr: dns.RR_Header{Name: x.sub("*", z.name), Rrtype: dns.TypeA, Class: dns.ClassINET, Ttl: 300}, A: []byte{192, 0, 2, 7}}}
		l := x.sign(z, z.zsk, set...)
		for _, rr := range l {
			rr.Header().Name = qname
		}
		final.Answer = l
		final.Ns = x.nsec(z, z.name, dns.TypeSOA, dns.TypeRRSIG, dns.TypeNSEC)
	default:
		var set []dns.RR
		for j := 0; j < 1+rnd.Intn(2); j++ {
			set = append(set, &dns.A{Hdr: dns.RR_Header{Name: qname, Rrtype: dns.TypeA, Class: dns.ClassINET, Ttl: 300}, A: []byte{192, 0, 2, byte(10 + j)}})
		}
		final.Answer = x.sign(z, z.zsk, set...)
		if rnd.Intn(3) == 0 {
			final.Ns = append(final.Ns, &dns.NS{Hdr: dns.RR_Header{Name: z.name, Rrtype: dns.TypeNS, Class: dns.ClassINET, Ttl: 300}, Ns: x.sub("ns", z.name)})
		}
	}

	// ---- the referrals: hop i is what zone i's server says; the last hop is the answering zone's ----
	glue := func(i int) string { return fmt.Sprintf("198.51.100.%d", 20+i) }
	hops := make([]*dns.Msg, len(x.zones))
	subjects := make([]string, len(x.zones))
	negs := make([]bool, len(x.zones))
	for i := 0; i+1 < len(x.zones); i++ {
		p, c := x.zones[i], x.zones[i+1]
		ref := x.newMsg(qname, qtype)
		ref.Ns = []dns.RR{&dns.NS{Hdr: dns.RR_Header{Name: c.name, Rrtype: dns.TypeNS, Class: dns.ClassINET, Ttl: 300}, Ns: x.sub("ns", c.name)}}
		switch c.cut {
		case "secure", "island":
			ref.Ns = append(ref.Ns, x.sign(p, p.zsk, x.w.ds(c.ksk.key, c.dt))...)
		case "unsupported":
			ds := x.w.ds(c.ksk.key, dns.SHA256)
			ds.DigestType = 3
			ref.Ns = append(ref.Ns, x.sign(p, p.zsk, ds)...)
		case "insecure":
			ref.Ns = append(ref.Ns, x.nsec(p, c.name, dns.TypeNS, dns.TypeRRSIG, dns.TypeNSEC)...)
		}
		ref.Extra = []dns.RR{&dns.A{Hdr: dns.RR_Header{Name: x.sub("ns", c.name), Rrtype: dns.TypeA, Class: dns.ClassINET, Ttl: 300}, A: net.ParseIP(glue(i + 1)).To4()}}
		hops[i], subjects[i] = ref, c.name
	}
	last := len(x.zones) - 1
	hops[last], subjects[last], negs[last] = final, qname, negative

	// ---- tampering: of the answering zone's response, of one referral, of the trust set ----
	forgeFinal := func() {
		for _, rr := range final.Answer {
			if a, ok := rr.(*dns.A); ok {
				a.A = []byte{203, 0, 113, 66}
			}
		}
	}
	tamperKind := -1
	if rnd.Intn(2) == 0 {
		cut := 0
		if last > 0 {
			cut = rnd.Intn(last) // the referral from zone cut toward zone cut+1
		}
		stripDS := func(keepNS bool) {
			var out []dns.RR
			for _, rr := range hops[cut].Ns {
				if rr.Header().Rrtype == dns.TypeNS && keepNS {
					out = append(out, rr)
				}
			}
			hops[cut].Ns = out
		}
		tk := rnd.Intn(12)
		tamperKind = tk
		switch tk {
		case 11: // the last response replaced by a bare rcode: NXDOMAIN, NOERROR (or an upstream failure) with all sections empty
			final.Answer, final.Ns = nil, nil
			final.Rcode = []int{dns.RcodeNameError, dns.RcodeNameError, dns.RcodeSuccess, dns.RcodeSuccess, dns.RcodeRefused, dns.RcodeYXDomain}[rnd.Intn(6)]
			genuine = false
			kinds = append(kinds, "t:bare-"+strings.ToLower(dns.RcodeToString[final.Rcode]))
		case 0: // one record altered, signature kept
			if len(final.Answer) > 0 {
				forgeFinal()
				genuine = false
				kinds = append(kinds, "t:alter-rdata")
			}
		case 1: // every signature stripped from the last response
			final.Answer, final.Ns = vC01StripSigs(final.Answer), vC01StripSigs(final.Ns)
			genuine = genuine && !z.signed
			kinds = append(kinds, "t:strip-sigs")
		case 2: // downgrade: a referral loses its DS (or its denial) and the signatures; below it data is forged, unsigned
			if last > 0 {
				stripDS(true)
				forgeFinal()
				final.Answer, final.Ns = vC01StripSigs(final.Answer), vC01StripSigs(final.Ns)
				genuine = false
				kinds = append(kinds, fmt.Sprintf("t:referral-ds-dropped@%d", cut))
			}
		case 3: // the referral's DS replaced by the attacker's (unsigned); the child's DNSKEY answer and data are the attacker's
			if last > 0 && x.zones[cut+1].signed {
				c := x.zones[cut+1]
				ak := x.attackerKey(att, c.name, 257)
				stripDS(true)
				hops[cut].Ns = append(hops[cut].Ns, x.w.ds(ak.key, dns.SHA256))
				nk := x.newMsg(c.name, dns.TypeDNSKEY)
				nk.Answer = x.resignAll([]dns.RR{ak.key}, ak, inc, exp)
				x.keys[strings.ToLower(c.name)] = nk
				if cut+1 == last {
					forgeFinal()
					final.Answer = x.resignAll(final.Answer, ak, inc, exp)
					final.Ns = x.resignAll(final.Ns, ak, inc, exp)
				}
				genuine = false
				x.tampered = true
				kinds = append(kinds, fmt.Sprintf("t:referral-ds-swapped@%d", cut))
			}
		case 4: // the signature over the referral's DS / denial claims an unimplemented algorithm; data below forged, unsigned
			if last > 0 {
				hit := false
				for _, rr := range hops[cut].Ns {
					if sg, ok := rr.(*dns.RRSIG); ok {
						sg.Algorithm = dns.RSAMD5
						hit = true
					}
				}
				if hit {
					forgeFinal()
					final.Answer, final.Ns = vC01StripSigs(final.Answer), vC01StripSigs(final.Ns)
					genuine = false
					kinds = append(kinds, fmt.Sprintf("t:referral-sig-alg@%d", cut))
				}
			}
		case 5: // a referral that does not progress: for the zone asked itself, or for a name off the path
			if last > 0 {
				owner := x.zones[cut].name
				if rnd.Intn(2) == 0 || owner == "." {
					owner = x.sub("off", x.zones[cut].name)
				}
				for _, rr := range hops[cut].Ns {
					if rr.Header().Rrtype == dns.TypeNS {
						rr.Header().Name = owner
					}
				}
				genuine = false
				kinds = append(kinds, fmt.Sprintf("t:referral-not-progressing@%d", cut))
			}
		case 6: // signatures of the last response expired
			if z.signed {
				final.Answer = x.resignAll(final.Answer, z.zsk, x.now-48*3600, x.now-24*3600)
				final.Ns = x.resignAll(final.Ns, z.zsk, x.now-48*3600, x.now-24*3600)
				genuine = false
				kinds = append(kinds, "t:expired")
			}
		case 7: // no trust anchor
			x.anchors = nil
			kinds = append(kinds, "t:no-anchor")
		case 8: // signer name of the last response's signatures rewritten to the parent zone
			if z.parent != nil {
				hit := false
				for _, rr := range append(append([]dns.RR{}, final.Answer...), final.Ns...) {
					if sg, ok := rr.(*dns.RRSIG); ok {
						sg.SignerName = z.parent.name
						hit = true
					}
				}
				if hit {
					genuine = false
					kinds = append(kinds, "t:signer-name")
				}
			}
		case 9: // data forged and signed by a key that merely claims the zone's name
			if z.signed && len(final.Answer) > 0 {
				ak := x.attackerKey(att, z.name, 256)
				forgeFinal()
				final.Answer = x.resignAll(final.Answer, ak, inc, exp)
				genuine = false
				kinds = append(kinds, "t:forged-untrusted-key")
			}
		case 10: // a denial without its NSEC / NSEC3 records
			if negative {
				var keep []dns.RR
				for _, rr := range final.Ns {
					t := rr.Header().Rrtype
					if t == dns.TypeNSEC || t == dns.TypeNSEC3 {
						continue
					}
					if s, ok := rr.(*dns.RRSIG); ok && (s.TypeCovered == dns.TypeNSEC || s.TypeCovered == dns.TypeNSEC3) {
						continue
					}
					keep = append(keep, rr)
				}
				final.Ns = keep
				genuine = false
				kinds = append(kinds, "t:denial-dropped")
			}
		}
	}

	// a tamper that touched the last response only says nothing about a walk that never got as far as that response
	// (a minimised walk ended by the zone's own signed denial of a name in between, or by a failure above)
	finalOnly := !genuine && (tamperKind == 11 || tamperKind == 0 || tamperKind == 1 || tamperKind == 6 || tamperKind == 8 || tamperKind == 9 || tamperKind == 10)
	forged := map[*dns.Msg]bool{} // forged answers to the minimised questions in between

	// ---- what each zone's server says to which question ----
	// not minimised: every server is asked the name itself. Minimised: zone i's server is asked the name cut to one label
	// more than the zone has — the child's name, for which it has the same referral — and the answering zone's server is
	// asked every name between its apex and the name: empty non-terminals, answered as drawn below.
	scripts := make([]map[string]*dns.Msg, len(x.zones))
	var allMsgs []*dns.Msg
	var allSubjects []string
	var allNegs []bool
	aggr := map[*dns.Msg]bool{}
	add := func(i int, m *dns.Msg, subject string, neg bool) {
		if scripts[i] == nil {
			scripts[i] = map[string]*dns.Msg{}
		}
		scripts[i][strings.ToLower(m.Question[0].Name)] = m
		allMsgs, allSubjects, allNegs = append(allMsgs, m), append(allSubjects, subject), append(allNegs, neg)
	}
	for i := range x.zones {
		add(i, hops[i], subjects[i], negs[i])
	}
	if qmin > 0 {
		for i := 0; i < last; i++ {
			c := x.zones[i+1]
			if strings.EqualFold(c.name, qname) {
				continue
			}
			ref := x.newMsg(c.name, qtype)
			ref.Rcode, ref.Ns, ref.Extra = hops[i].Rcode, hops[i].Ns, hops[i].Extra
			add(i, ref, c.name, false)
		}
		labels := dns.SplitDomainName(qname)
		for k := len(labels) - 1; k >= 1; k-- {
			n := strings.Join(labels[k:], ".") + "."
			if dns.CountLabel(n) <= dns.CountLabel(z.name) || !dns.IsSubDomain(z.name, n) {
				continue
			}
			im := x.newMsg(n, qtype)
			neg := false
			switch ik := rnd.Intn(14); {
			case ik < 5: // an empty non-terminal: NODATA with the zone's SOA and a signed NSEC
				im.Ns = append(x.soa(z), x.nsec(z, z.name, dns.TypeSOA, dns.TypeRRSIG, dns.TypeNSEC)...)
				kinds = append(kinds, "i:ent")
			case ik == 5:
				kinds = append(kinds, "i:bare-noerror")
			case ik == 6:
				im.Rcode = dns.RcodeNameError
				kinds = append(kinds, "i:bare-nxdomain")
			case ik == 7:
				im.Rcode = dns.RcodeRefused
				kinds = append(kinds, "i:bare-refused")
			case ik == 8: // data at the name in between
				im.Answer = x.sign(z, z.zsk, &dns.A{Hdr: dns.RR_Header{Name: n, Rrtype: dns.TypeA, Class: dns.ClassINET, Ttl: 300}, A: []byte{192, 0, 2, 99}})
				kinds = append(kinds, "i:answer")
			case ik == 9 || ik == 12: // the zone's signer denies the name in between (RFC 8020: and with it everything below)
				im.Rcode = dns.RcodeNameError
				im.Ns = append(x.soa(z), x.nsec(z, z.name, dns.TypeSOA, dns.TypeRRSIG, dns.TypeNSEC)...)
				neg = true
				kinds = append(kinds, "i:nxdomain-signed")
			case ik == 10 || ik == 13: // forged: a name error for the name in between with an unsigned SOA
				im.Rcode = dns.RcodeNameError
				im.Ns = vC01StripSigs(append(x.soa(z), x.nsec(z, z.name, dns.TypeSOA, dns.TypeRRSIG, dns.TypeNSEC)...))
				neg = true
				forged[im] = true
				kinds = append(kinds, "i:nxdomain-unsigned")
			default: // forged: the zone's old denial replayed, signatures expired
				im.Rcode = dns.RcodeNameError
				im.Ns = x.soa(z)
				if z.signed {
					im.Ns = x.resignAll(append(x.soa(z), x.nsec(z, z.name, dns.TypeSOA, dns.TypeRRSIG, dns.TypeNSEC)...), z.zsk, x.now-48*3600, x.now-24*3600)
				}
				neg = true
				forged[im] = true
				kinds = append(kinds, "i:nxdomain-expired")
			}
			add(last, im, n, neg)
		}
	}

	// ---- listeners, resolver ----
	log := &vC01DLog{}
	byGlue := map[string]string{}
	var servers []*vC01DServer
	stopAll := func() {
		for _, s := range servers {
			s.stop()
		}
	}
	for i := range x.zones {
		s, ok := vC01DStart(log, qtype, scripts[i])
		if !ok {
			stopAll()
			tr.emit(map[string]any{"k": "descent-infra", "inconclusive": true, "desc": "bind failure"})
			return
		}
		servers = append(servers, s)
		byGlue[net.JoinHostPort(glue(i), "53")] = s.addr
	}
	defer stopAll()
	cfg := new(config.Config)
	cfg.RootServers = []string{net.JoinHostPort(glue(0), "53")}
	cfg.DNSSEC = "on"
	cfg.Directory = os.Getenv("VERIF_SCRATCH")
	cfg.Maxdepth = 30
	cfg.QnameMinLevel = qmin
	cfg.Timeout.Duration = 1500 * time.Millisecond
	cfg.IPv6Access = false
	r := NewResolver(cfg)
	mapper := func(addr string) string {
		if t, ok := byGlue[addr]; ok {
			return t
		}
		return addr
	}
	r.resolveTarget.Store(&mapper)
	x.install(r)

	rk := vC01RankAll(x.allRR()...)
	qn := x.w.name(qname)
	for _, zz := range x.zones {
		_ = x.w.name(zz.name)
	}
	envCoq := x.descEnv(r, rk, allMsgs, allSubjects, allNegs)
	// which of the minimised name errors authority() would mark as eligible for aggressive use (RFC 8198) — the RFC 8020
	// cut needs that mark — computed as authority() computes it, with the exported evaluators
	for i, m := range allMsgs {
		if !allNegs[i] || m.Rcode != dns.RcodeNameError || m == final || !z.signed {
			continue
		}
		pq := dns.Question{Name: allSubjects[i], Qtype: qtype, Qclass: dns.ClassINET}
		nsec3Set := dnsutil.FilterRRsToZone(dnsutil.ExtractRRSet(m.Ns, "", dns.TypeNSEC3), z.name)
		nsecSet := dnsutil.FilterRRsToZone(dnsutil.ExtractRRSet(m.Ns, "", dns.TypeNSEC), z.name)
		ok := false
		switch {
		case len(nsec3Set) > 0:
			if res, err := dnssec.EvaluateAggressiveNSEC3(pq, z.name, nsec3Set, newResolverAggressiveProofWork(context.Background(), r.cryptoLimiter)); err == nil && res.Rcode == m.Rcode {
				ok = true
			}
		case len(nsecSet) > 0:
			if res, err := dnssec.EvaluateAggressiveNSEC(pq, z.name, nsecSet); err == nil && res.Rcode == m.Rcode {
				ok = true
			}
		}
		aggr[m] = ok && !dnsutil.HasNSEC3OptOut(m.Ns, z.name)
	}

	ask := func() (string, *dns.Msg, error, []*dns.Msg) {
		log.mu.Lock()
		log.served = nil
		log.mu.Unlock()
		req := new(dns.Msg)
		req.SetQuestion(qname, qtype)
		req.SetEdns0(dnsutil.DefaultMsgSize, true)
		req.CheckingDisabled = cd
		ctx, cancel := context.WithTimeout(middleware.WithResponseMeta(context.Background(), &middleware.ResponseMeta{}), 8*time.Second)
		defer cancel()
		out, err := r.Resolve(ctx, req, r.rootServers, true, 30, 0, nomin, nil)
		log.mu.Lock()
		// the same scripted message served twice in a row = a retransmission after a lost / late datagram (once a response
		// is processed the walk asks a different question or a different zone's server, or ends): one step, not two
		var served []*dns.Msg
		for _, h := range log.served {
			if len(served) == 0 || served[len(served)-1] != h {
				served = append(served, h)
			}
		}
		log.mu.Unlock()
		return vC01DescObs(x.w, out, err), out, err, served
	}
	o1, out1, err1, tr1 := ask()
	// what the delegation cache holds for every zone of the world after the first walk
	var cacheObs []string
	cacheDesc := map[string]any{}
	for _, zz := range x.zones[1:] {
		key := internalcache.Key(dns.Question{Name: zz.name, Qtype: dns.TypeNS, Qclass: dns.ClassINET}, cd)
		if d, err := r.delegations.Get(key); err == nil && d != nil {
			cacheObs = append(cacheObs, fmt.Sprintf("(%s, Some %s)", x.w.name(zz.name), vC01Pairs(x.w, d.DSSet)))
			cacheDesc[zz.name] = vC01Pres(d.DSSet)
		} else {
			cacheObs = append(cacheObs, fmt.Sprintf("(%s, None)", x.w.name(zz.name)))
			cacheDesc[zz.name] = nil
		}
	}
	o2, out2, err2, tr2 := ask()
	if vC01DescInfra(err1) || vC01DescInfra(err2) {
		tr.emit(map[string]any{"k": "descent-infra", "inconclusive": true, "desc": fmt.Sprint(err1, " / ", err2, " world=", kinds, " served=", tr1, tr2, " stray=", log.stray)})
		return
	}
	msgList := func(l []*dns.Msg) string {
		var s []string
		for _, h := range l {
			s = append(s, fmt.Sprintf("m%d", x.msgs[h]))
		}
		return "[" + strings.Join(s, ";") + "]"
	}
	servedDesc := func(l []*dns.Msg) []string {
		var s []string
		for _, h := range l {
			s = append(s, fmt.Sprintf("%s %s", h.Question[0].Name, dns.RcodeToString[h.Rcode]))
		}
		return s
	}
	body := fmt.Sprintf("CaseDescent E %s %d %s %s %s [%s] %s %s", qn, qtype, vC01Bool(cd), msgList(tr1), o1, strings.Join(cacheObs, ";"), msgList(tr2), o2)
	if qmin > 0 {
		var ag []string
		for _, m := range allMsgs {
			if aggr[m] {
				ag = append(ag, fmt.Sprint(x.msgs[m]))
			}
		}
		body = fmt.Sprintf("CaseDescentMin E %d %s [%s] %s %d %s %s %s [%s] %s %s", qmin, vC01Bool(nomin), strings.Join(ag, ";"), qn, qtype, vC01Bool(cd),
			msgList(tr1), o1, strings.Join(cacheObs, ";"), msgList(tr2), o2)
	}

	goFail := ""
	genuineAll := genuine
	for pass, oe := range []struct {
		out    *dns.Msg
		err    error
		served []*dns.Msg
	}{{out1, err1, tr1}, {out2, err2, tr2}} {
		if oe.err != nil || oe.out == nil {
			continue
		}
		which := []string{"first walk", "walk from the delegation cache"}[pass]
		// ground truth for THIS walk: nothing it was served (or, for referrals, had filed earlier) was altered
		sawFinal, sawForged := false, false
		for _, m := range oe.served {
			if m == final {
				sawFinal = true
			}
			if forged[m] && z.signed {
				sawForged = true
			}
		}
		genuine := !sawForged && (genuineAll || (finalOnly && !sawFinal))
		if oe.out.AuthenticatedData && !(chainSecure && genuine && len(x.anchors) > 0 && !cd) {
			goFail = which + ": AD on a reply that is not authentic up to the anchor"
		}
		// a reply the client reads as an answer or as a denial: NOERROR (data or NODATA), NXDOMAIN, or any records at all
		// (the answer to an RRSIG question is by design not verifiable — signatures are not signed — and comes back
		// without AD: what it holds is outside this oracle as long as AD stays clear)
		if !cd && chainSecure && !genuine && len(x.anchors) > 0 && (qtype != dns.TypeRRSIG || oe.out.AuthenticatedData) && (len(oe.out.Answer) > 0 || len(oe.out.Ns) > 0 || oe.out.Rcode == dns.RcodeNameError || oe.out.Rcode == dns.RcodeSuccess) {
			goFail = which + ": altered data accepted under a signed chain"
		}
		if !cd && chainSecure && genuine && plain && qtype != dns.TypeRRSIG && len(x.anchors) > 0 && !oe.out.AuthenticatedData {
			goFail = which + ": a zone under a signed chain was treated as unsigned"
		}
		if !cd && len(x.anchors) == 0 && (len(oe.out.Answer) > 0 || len(oe.out.Ns) > 0) {
			goFail = which + ": unvalidated data served without a trust anchor"
		}
	}
	// "a zone is treated as unsigned only on a validated proof": a cut the parent delegates with a signed DS RRset, below a
	// chain that is secure down to the parent, whose referral was not touched, is never filed with an EMPTY DS set
	emptySecureCut := false // observed: a cut that is secure in truth sits in the delegation cache with an empty DS set
	if !cd && len(x.anchors) > 0 {
		for _, zz := range x.zones[1:] {
			if zz.cut == "secure" && !x.insecureAbove(zz) {
				if v, filed := cacheDesc[zz.name]; filed && v != nil {
					if l, ok := v.([]string); ok && len(l) == 0 {
						emptySecureCut = true
					}
				}
			}
		}
	}
	if emptySecureCut && (genuineAll || finalOnly) && goFail == "" {
		goFail = "a secure delegation was filed with an empty DS set: the zone is treated as unsigned without a proof"
	}
	desc := map[string]any{"world": kinds, "qname": qname, "qtype": dns.TypeToString[qtype], "cd": cd, "served_first": servedDesc(tr1), "served_again": servedDesc(tr2),
		"first": fmt.Sprint(err1), "again": fmt.Sprint(err2), "delegation_cache": cacheDesc, "stray_questions": log.stray, "chain_secure": chainSecure, "genuine": genuine}
	if out1 != nil && err1 == nil {
		desc["first"] = fmt.Sprintf("%s AD=%v %v", dns.RcodeToString[out1.Rcode], out1.AuthenticatedData, vC01Pres(out1.Answer))
	}
	if out2 != nil && err2 == nil {
		desc["again"] = fmt.Sprintf("%s AD=%v %v", dns.RcodeToString[out2.Rcode], out2.AuthenticatedData, vC01Pres(out2.Answer))
	}
	rec := map[string]any{"k": "descent:" + strings.Join(kinds, "+"), "coq": x.w.wrap(envCoq + body), "nontrivial": true, "desc": desc}
	if goFail != "" {
		rec["go_fail"] = goFail
	}
	tr.emit(rec)
	_ = caseNo
}
