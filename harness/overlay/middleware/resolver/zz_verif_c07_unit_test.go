//go:build verif

package resolver

// C07 driver, unit level in package resolver: generated messages fed to the
// REAL usableAddr, Resolver.checkGlueRR (with real glue caches),
// Resolver.extractDelegationInfo, validReferral, progressingReferral,
// Resolver.filterAuthorityRecords and Resolver.clearAdditional.  Names come
// from a small label alphabet with case mixes and label-boundary near-misses
// (notexample.com / exam.ple.com against example.com).

import (
	"context"
	"encoding/json"
	"fmt"
	"math/rand"
	"net"
	"net/netip"
	"os"
	"sort"
	"strings"
	"testing"
	"time"

	"github.com/miekg/dns"
	"github.com/semihalev/sdns/config"
	"github.com/semihalev/sdns/internal/authority"
	"github.com/semihalev/sdns/internal/cache"
	"github.com/semihalev/sdns/internal/dnsutil"
	"github.com/semihalev/sdns/middleware"
)

// the Queryer NS-host address lookups go through in the history cases: answers from a scripted map
type vC07HostQueryer struct {
	world map[string][]dns.RR
	asked []string
}

func (q *vC07HostQueryer) Query(ctx context.Context, req *dns.Msg) (*dns.Msg, error) {
	name := strings.ToLower(req.Question[0].Name)
	q.asked = append(q.asked, name)
	ans, ok := q.world[name]
	if !ok {
		return nil, middleware.ErrNoResponse
	}
	m := new(dns.Msg)
	m.SetReply(req)
	m.Answer = ans
	return m, nil
}

// vC07HostAddrs enumerates the addresses configured on this host's interfaces, independently of the
// package's own findLocalIPAddresses (net.InterfaceAddrs instead of net.Interfaces + Addrs).  all = every
// interface address (what the resolver's filter is built from at init), ext = the non-loopback ones.
func vC07HostAddrs() (all, ext []net.IP) {
	aa, err := net.InterfaceAddrs()
	if err != nil {
		return nil, nil
	}
	seen := map[string]bool{}
	for _, a := range aa {
		ipn, ok := a.(*net.IPNet)
		if !ok || ipn.IP == nil {
			continue
		}
		k := ipn.IP.String()
		if seen[k] {
			continue
		}
		seen[k] = true
		all = append(all, ipn.IP)
		if !ipn.IP.IsLoopback() {
			ext = append(ext, ipn.IP)
		}
	}
	sort.Slice(all, func(i, j int) bool { return all[i].String() < all[j].String() })
	sort.Slice(ext, func(i, j int) bool { return ext[i].String() < ext[j].String() })
	return all, ext
}

// vC07IPGen draws addresses around the boundaries of the filters: loopback range edges, unspecified,
// plain addresses, and - for the given local-interface list - each local address (4-octet, 16-octet
// and mapped spellings) and its neighbour.
type vC07IPGen struct {
	v4 [][]byte
	k4 []string
	v6 [][]byte
	k6 []string
}

func vC07NewIPGen(local []net.IP) *vC07IPGen {
	g := &vC07IPGen{
		v4: [][]byte{{127, 0, 0, 1}, {127, 255, 255, 255}, {126, 255, 255, 255}, {128, 0, 0, 0}, {0, 0, 0, 0},
			{198, 51, 100, 1}, {198, 51, 100, 2}, {6, 6, 6, 6}},
		k4: []string{"loopback", "loopback-hi", "below-loopback", "above-loopback", "unspecified", "plain", "plain", "plain"},
	}
	for i, s := range []string{"::1", "::2", "::", "2001:db8::1", "2001:db8::2", "fe80::1"} {
		g.v6 = append(g.v6, []byte(net.ParseIP(s).To16()))
		g.k6 = append(g.k6, []string{"loopback6", "near-loopback6", "unspecified6", "plain6", "plain6", "linklocal6"}[i])
	}
	isLocal := func(ip net.IP) bool {
		for _, l := range local {
			if l.Equal(ip) {
				return true
			}
		}
		return false
	}
	for _, l := range local {
		if l.IsLoopback() {
			continue // loopback interface addresses are covered by the loopback kinds
		}
		if b := l.To4(); b != nil {
			near := append([]byte{}, b...)
			near[3] ^= 1
			g.v4, g.k4 = append(g.v4, append([]byte{}, b...)), append(g.k4, "local")
			if !isLocal(net.IP(near)) {
				g.v4, g.k4 = append(g.v4, near), append(g.k4, "near-local")
			}
			continue
		}
		b := l.To16()
		near := append([]byte{}, b...)
		near[15] ^= 1
		g.v6, g.k6 = append(g.v6, append([]byte{}, b...)), append(g.k6, "local6")
		if !isLocal(net.IP(near)) {
			g.v6, g.k6 = append(g.v6, near), append(g.k6, "near-local6")
		}
	}
	return g
}

func (g *vC07IPGen) rand(r *rand.Rand, want16 bool) ([]byte, string) {
	// a local address is drawn with a fixed share whatever the length of the lists
	pick4 := func() int {
		var loc []int
		for i, k := range g.k4 {
			if k == "local" {
				loc = append(loc, i)
			}
		}
		if len(loc) > 0 && r.Intn(4) == 0 {
			return loc[r.Intn(len(loc))]
		}
		return r.Intn(len(g.v4))
	}
	pick6 := func() int {
		var loc []int
		for i, k := range g.k6 {
			if k == "local6" {
				loc = append(loc, i)
			}
		}
		if len(loc) > 0 && r.Intn(4) == 0 {
			return loc[r.Intn(len(loc))]
		}
		return r.Intn(len(g.v6))
	}
	if !want16 {
		switch r.Intn(12) {
		case 0:
			return []byte{1, 2, 3}, "badlen"
		case 1:
			return nil, "empty"
		case 2:
			i := pick4()
			return []byte(net.IP(g.v4[i]).To16()), "mapped-" + g.k4[i]
		default:
			i := pick4()
			return append([]byte{}, g.v4[i]...), g.k4[i]
		}
	}
	switch r.Intn(12) {
	case 0:
		return make([]byte, 15), "badlen"
	case 1, 2, 3:
		i := pick4()
		return []byte(net.IP(g.v4[i]).To16()), "mapped-" + g.k4[i]
	default:
		i := pick6()
		return append([]byte{}, g.v6[i]...), g.k6[i]
	}
}

// vC07IsLocalAddr: a is one of the listed interface addresses (4-in-6 spellings identified)
func vC07IsLocalAddr(local []net.IP, a netip.Addr) bool {
	for _, l := range local {
		if la, ok := netip.AddrFromSlice(l); ok && la.Unmap() == a.Unmap() {
			return true
		}
	}
	return false
}

// vC07UsableCases: the real usableAddr against the model, with [local] = the content of localIPaddrs
func vC07UsableCases(r *rand.Rand, cnt int, local []net.IP, tag string, emit func(map[string]any)) {
	localCoq := vC07CoqIPList(local)
	gen := vC07NewIPGen(local)
	for c := 0; c < cnt; c++ {
		ip, kind := gen.rand(r, r.Intn(2) == 0)
		addr, ok := usableAddr(net.IP(ip))
		obs := "None"
		goFail := ""
		if ok {
			obs = "(Some " + vC07CoqAddr(addr) + ")"
			if addr.IsLoopback() || addr.Is4In6() {
				goFail = "usableAddr returned a loopback or mapped address"
			}
			if vC07IsLocalAddr(local, addr) {
				goFail = "usableAddr returned a local interface address: " + addr.String()
			}
		}
		emit(map[string]any{
			"k": tag + "usable-" + kind, "coq": fmt.Sprintf("CaseUsable %s %s %s", localCoq, vC07CoqBytes(ip), obs),
			"nontrivial": len(ip) == 4 || len(ip) == 16, "go_fail": goFail,
			"desc": map[string]any{"ip": fmt.Sprint(net.IP(ip)), "len": len(ip), "usable": ok, "addr": addr.String(), "local_interface_addrs": fmt.Sprint(local)},
		})
	}

}

// vC07GlueOne: one call of the real checkGlueRR (fresh caches) compared with the model and the ground truth
func vC07GlueOne(t *testing.T, local []net.IP, localCoq, tag string, ipv6 bool, level int, qname, qn vC07Name, hosts []vC07Name, hostSetV hostSet, extra []vC07RRSpec, emit func(map[string]any)) {
	res := &Resolver{cfg: &config.Config{IPv6Access: ipv6}, glueV4: cache.New(256), glueV6: cache.New(256)}
	resp := &dns.Msg{}
	resp.Question = []dns.Question{{Name: qn.String(), Qtype: dns.TypeA, Qclass: dns.ClassINET}}
	resp.Extra = vC07RRs(extra)
	auth, f4, f6 := res.checkGlueRR(resp, hostSetV, level)
	var srv []netip.Addr
	for _, s := range auth.List {
		ap, err := netip.ParseAddrPort(s.Addr)
		if err != nil {
			t.Fatalf("server addr %q: %v", s.Addr, err)
		}
		srv = append(srv, ap.Addr())
	}
	names := func(hs hostSet) ([]string, []vC07Name) {
		var ks []string
		for k := range hs {
			ks = append(ks, k)
		}
		sort.Strings(ks)
		var out []vC07Name
		for _, k := range ks {
			out = append(out, vC07Parse(k))
		}
		return ks, out
	}
	k4, n4 := names(f4)
	k6, n6 := names(f6)
	assoc := func(ks []string, get func(string) ([]netip.Addr, bool)) string {
		var parts []string
		for _, k := range ks {
			a, _ := get(k)
			parts = append(parts, fmt.Sprintf("(%s, %s)", vC07Parse(k).coq(), vC07CoqAddrs(a)))
		}
		return "[" + strings.Join(parts, ";") + "]"
	}
	a4 := assoc(k4, res.getIPv4Cache)
	a6 := "[]"
	if ipv6 {
		a6 = assoc(k6, res.getIPv6Cache)
	}
	// Go-side ground truth: every accepted name lies in the zone made of qname's last `level` labels and is an NS host
	goFail := ""
	zone := "."
	if level > 0 {
		if level > len(qname) {
			zone = "(none)"
		} else {
			zone = vC07Name(qname[len(qname)-level:]).String()
		}
	}
	for _, k := range append(append([]string{}, k4...), k6...) {
		if zone == "(none)" || !dns.IsSubDomain(strings.ToLower(zone), k) {
			goFail = fmt.Sprintf("glue for %s accepted outside %s", k, zone)
		}
		if _, ok := hostSetV[k]; !ok {
			goFail = fmt.Sprintf("glue for %s accepted but it is not an NS host", k)
		}
	}
	for _, a := range srv {
		if a.IsLoopback() {
			goFail = "loopback glue address used"
		}
		if vC07IsLocalAddr(local, a) {
			goFail = "local interface glue address used: " + a.String()
		}
	}
	kind := "glue-none"
	if len(srv) > 0 {
		kind = "glue-some"
	}
	emit(map[string]any{
		"k": tag + kind,
		"coq": fmt.Sprintf("CaseGlue %v %s %d %s %s %s %s %s %s %s %s", ipv6, localCoq, level, qn.coq(), vC07CoqNames(hosts), vC07CoqRRs(extra),
			vC07CoqAddrs(srv), vC07CoqNames(n4), vC07CoqNames(n6), a4, a6),
		"nontrivial": len(extra) > 0, "go_fail": goFail,
		"desc": map[string]any{"qname": qn.String(), "level": level, "ipv6": ipv6, "hosts": fmt.Sprint(hosts), "extra": vC07DescRRs(extra),
			"servers": fmt.Sprint(srv), "found4": k4, "found6": k6, "local_interface_addrs": fmt.Sprint(local)},
	})
}

// vC07GlueCases: the real Resolver.checkGlueRR (fresh glue caches) against the model
func vC07GlueCases(t *testing.T, r *rand.Rand, cnt int, local []net.IP, tag string, emit func(map[string]any)) {
	localCoq := vC07CoqIPList(local)
	gen := vC07NewIPGen(local)
	for c := 0; c < cnt; c++ {
		qname := vC07RandQName(r)
		level := r.Intn(len(qname) + 2)
		if r.Intn(3) != 0 && len(qname) > 0 {
			level = r.Intn(len(qname)) // mostly a proper ancestor's depth
		}
		ipv6 := r.Intn(3) != 0
		// NS host set: some inside the level-zone, some outside
		var hosts []vC07Name
		hostSetV := make(hostSet)
		nh := 1 + r.Intn(4)
		for i := 0; i < nh; i++ {
			h, _ := vC07Relative(r, qname)
			if r.Intn(2) == 0 {
				h = append(vC07Name{[]string{"ns", "ns1", "ns2"}[r.Intn(3)]}, h...)
			}
			hosts = append(hosts, h)
			hostSetV[strings.ToLower(h.String())] = struct{}{}
		}
		var extra []vC07RRSpec
		ne := r.Intn(7)
		for i := 0; i < ne; i++ {
			var owner vC07Name
			kind := r.Intn(6)
			switch {
			case kind < 4:
				owner = hosts[r.Intn(len(hosts))]
				if r.Intn(2) == 0 {
					owner = vC07CaseMix(r, owner)
				}
			default:
				owner, _ = vC07Relative(r, qname)
			}
			s := vC07RRSpec{owner: owner, class: dns.ClassINET, ttl: uint32(r.Intn(600))}
			switch r.Intn(8) {
			case 0:
				s.rrtype = dns.TypeTXT
			case 1, 2, 3:
				s.rrtype = dns.TypeAAAA
				s.ip, _ = gen.rand(r, true)
			default:
				s.rrtype = dns.TypeA
				s.ip, _ = gen.rand(r, false)
			}
			extra = append(extra, s)
		}
		qn := qname
		if r.Intn(3) == 0 {
			qn = vC07CaseMix(r, qname)
		}
		vC07GlueOne(t, local, localCoq, tag, ipv6, level, qname, qn, hosts, hostSetV, extra, emit)
	}
}

// vC07InfoOne: the real extractDelegationInfo + validReferral on one authority section
func vC07InfoOne(res *Resolver, kindBase string, authZone, qname vC07Name, q dns.Question, ns []vC07RRSpec, nontrivial bool, emit func(map[string]any)) {
	resp := &dns.Msg{}
	resp.Question = []dns.Question{q}
	resp.Ns = vC07RRs(ns)
	info := res.extractDelegationInfo(resp)
	valid := validReferral(info, authZone.String(), q)
	oCoq, cl, ttl := "None", uint16(0), uint32(0)
	oDesc := "-"
	if info.nsRecord != nil {
		oCoq = "(Some " + vC07Parse(info.nsRecord.Header().Name).coq() + ")"
		cl = info.nsRecord.Header().Class
		ttl = info.nsTTL
		oDesc = info.nsRecord.Header().Name
	}
	var hk []string
	for k := range info.hosts {
		hk = append(hk, k)
	}
	sort.Strings(hk)
	var hn []vC07Name
	for _, k := range hk {
		hn = append(hn, vC07Parse(k))
	}
	// Go-side ground truth for an accepted referral
	goFail := ""
	if valid {
		var first *dns.NS
		for _, rr := range resp.Ns {
			nsr, isNS := rr.(*dns.NS)
			if !isNS {
				continue
			}
			if first == nil {
				first = nsr
				continue
			}
			if !strings.EqualFold(nsr.Hdr.Name, first.Hdr.Name) || nsr.Hdr.Class != first.Hdr.Class {
				goFail = "accepted a referral whose NS records do not form one set"
			}
		}
		if first == nil {
			goFail = "accepted a referral without NS"
		} else {
			o, a, qq := strings.ToLower(first.Hdr.Name), strings.ToLower(authZone.String()), strings.ToLower(q.Name)
			if first.Hdr.Class != q.Qclass {
				goFail = "accepted a referral of another class"
			}
			if !dns.IsSubDomain(a, o) || o == a {
				goFail = fmt.Sprintf("accepted referral %s not strictly below %s", o, a)
			}
			if !dns.IsSubDomain(o, qq) {
				goFail = fmt.Sprintf("accepted referral %s off the path to %s", o, qq)
			}
		}
	}
	kind := kindBase
	if valid {
		kind += "-valid"
	}
	emit(map[string]any{
		"k": kind,
		"coq": fmt.Sprintf("CaseInfo %s %s (mk_q %s %d %d) %s %d %d %s %v %v %v", vC07CoqRRs(ns), authZone.coq(), qname.coq(), q.Qtype, q.Qclass,
			oCoq, cl, ttl, vC07CoqNames(hn), info.hasSOA, info.incoherent, valid),
		"nontrivial": nontrivial, "go_fail": goFail,
		"desc": map[string]any{"ns": vC07DescRRs(ns), "auth_zone": authZone.String(), "q": q.Name, "qclass": q.Qclass,
			"owner": oDesc, "ttl": ttl, "hosts": hk, "soa": info.hasSOA, "incoherent": info.incoherent, "valid": valid},
	})
}

// vC07ProgOne: the real progressingReferral
func vC07ProgOne(kind string, referral, authZone, qname vC07Name, emit func(map[string]any)) {
	obs := progressingReferral(referral.String(), authZone.String(), qname.String())
	goFail := ""
	if obs {
		o, a, qq := strings.ToLower(referral.String()), strings.ToLower(authZone.String()), strings.ToLower(qname.String())
		if !dns.IsSubDomain(a, o) || o == a || !dns.IsSubDomain(o, qq) {
			goFail = "progressingReferral accepted a referral that is not strictly below the zone on the path to qname"
		}
	}
	emit(map[string]any{
		"k": kind, "coq": fmt.Sprintf("CaseProg %s %s %s %v", referral.coq(), authZone.coq(), qname.coq(), obs),
		"nontrivial": true, "go_fail": goFail,
		"desc": map[string]any{"referral": referral.String(), "auth_zone": authZone.String(), "qname": qname.String(), "progressing": obs},
	})
}

// vC07ZoneFilterOne: the real dnsutil.FilterRRsToZone (what Resolver.answer applies to the upstream Answer
// section) on records of eight types owned by [owners]
func vC07ZoneFilterOne(kind string, zone vC07Name, owners []vC07Name, emit func(map[string]any)) {
	var rrs []dns.RR
	for i, o := range owners {
		// every record type the Answer section may carry (the filter looks at the owner whatever the type; an NSEC
		// record's next-domain clause is covered by the theorem about the translated function, not here)
		sp := vC07RRSpec{owner: o, rrtype: dns.TypeA, class: dns.ClassINET, ttl: 60, ip: []byte{198, 51, 100, byte(i)}}
		switch (i + len(owners)) % 8 {
		case 1:
			sp.rrtype, sp.target = dns.TypeCNAME, vC07Name{"www", "victim", "l2"}
		case 2:
			sp.rrtype, sp.target = dns.TypeNS, vC07Name{"ns", "evil", "l1"}
		case 3:
			sp.rrtype = dns.TypeTXT
		case 4:
			sp.rrtype, sp.target = dns.TypeDNAME, vC07Name{"victim", "l2"}
		case 5:
			sp.rrtype = dns.TypeSOA
		case 6:
			sp.rrtype, sp.covered = dns.TypeRRSIG, dns.TypeA
		}
		rrs = append(rrs, sp.rr())
	}
	kept := dnsutil.FilterRRsToZone(rrs, zone.String())
	var idx, keptDesc []string
	j := 0
	for i := range rrs {
		if j < len(kept) && kept[j] == rrs[i] {
			idx = append(idx, fmt.Sprint(i))
			keptDesc = append(keptDesc, owners[i].String())
			j++
		}
	}
	goFail := ""
	if j != len(kept) {
		goFail = "FilterRRsToZone reordered or invented records"
	}
	for _, rr := range kept {
		if !dns.IsSubDomain(strings.ToLower(zone.String()), strings.ToLower(rr.Header().Name)) {
			goFail = "FilterRRsToZone kept " + rr.Header().Name + ", which is outside " + zone.String()
		}
	}
	var od []string
	for _, o := range owners {
		od = append(od, o.String())
	}
	emit(map[string]any{
		"k": kind, "coq": fmt.Sprintf("CaseZoneFilter %s %s [%s]", zone.coq(), vC07CoqNames(owners), strings.Join(idx, ";")),
		"nontrivial": len(owners) > 0, "go_fail": goFail,
		"desc": map[string]any{"zone": zone.String(), "owners": od, "kept": keptDesc},
	})
}

func TestVerifC07Unit(t *testing.T) {
	p := os.Getenv("VERIF_OUT")
	if p == "" {
		t.Skip("VERIF_OUT not set")
	}
	f, err := os.Create(p)
	if err != nil {
		t.Fatal(err)
	}
	defer f.Close()
	vC07Quiet()
	r := rand.New(rand.NewSource(int64(vC07EnvInt("VERIF_SEED", 1))*104729 + 11))
	n := vC07EnvInt("VERIF_N", 2000)
	emit := func(m map[string]any) {
		b, _ := json.Marshal(m)
		f.Write(append(b, '\n'))
	}

	// the local-interface list is a package variable filled at init from the machine's interfaces; this
	// driver leaves it alone and tells the model which addresses the host has (enumerated independently).
	// A pinned list is exercised by TestVerifC07UnitPin (its own driver: it names the package variable).
	hostAll, hostExt := vC07HostAddrs()
	if len(hostExt) == 0 {
		emit(map[string]any{"k": "hostlocal-none", "nontrivial": false,
			"desc": "this host has no non-loopback interface address: the local-interface filter is exercised by the pinned driver only"})
	}
	vC07UnitCorpus(t, hostAll, emit)
	vC07TwoSiteCases(rand.New(rand.NewSource(int64(vC07EnvInt("VERIF_SEED", 1))*7907+5)), 7+n/15, hostAll, emit)
	vC07DelegCases(rand.New(rand.NewSource(int64(vC07EnvInt("VERIF_SEED", 1))*15485863+9)), 12+n/40, hostAll, emit)
	vC07MinimizeCases(rand.New(rand.NewSource(int64(vC07EnvInt("VERIF_SEED", 1))*49979687+13)), 20+n/30, emit)
	vC07UsableCases(r, n/5, hostAll, "", emit)
	vC07GlueCases(t, r, n/5, hostAll, "", emit)
	local := hostAll
	localCoq := vC07CoqIPList(local)
	gen := vC07NewIPGen(local)

	// --- the NS-address cache across a history of referrals ------------------------------------
	// each event is what processDelegation does on the uncached path: the real checkGlueRR, then the
	// real lookupV4Nss (cache first, otherwise an address lookup through the Queryer)
	for c := 0; c < n/12; c++ {
		res := &Resolver{cfg: &config.Config{IPv6Access: false}, glueV4: cache.New(1024), glueV6: cache.New(1024), delegations: authority.NewCache()}
		hq := &vC07HostQueryer{}
		var qr middleware.Queryer = hq
		res.queryer.Store(&qr)
		qbase := vC07RandQName(r)
		for len(qbase) < 2 {
			qbase = vC07RandQName(r)
		}
		var evCoq, evDesc []string
		probeSet := map[string]vC07Name{}
		steps := 1 + r.Intn(4)
		for e := 0; e < steps; e++ {
			qname := qbase
			if r.Intn(3) == 0 {
				qname = append(vC07Name{vC07Labels[r.Intn(len(vC07Labels))]}, qbase...)
			}
			level := r.Intn(len(qname))
			var hosts []vC07Name
			hostSetV := make(hostSet)
			for i, nh := 0, 1+r.Intn(3); i < nh; i++ {
				h, _ := vC07Relative(r, qname)
				h = append(vC07Name{[]string{"ns", "ns1", "ns2"}[r.Intn(3)]}, h...)
				if r.Intn(3) == 0 && len(probeSet) > 0 { // a host seen in an earlier event again
					for _, old := range probeSet {
						h = old
						break
					}
				}
				key := strings.ToLower(h.String())
				if _, dup := hostSetV[key]; dup {
					continue
				}
				hostSetV[key] = struct{}{}
				hosts = append(hosts, vC07Parse(key))
				probeSet[key] = vC07Parse(key)
			}
			var extra []vC07RRSpec
			for i, ne := 0, r.Intn(4); i < ne; i++ {
				owner := hosts[r.Intn(len(hosts))]
				if r.Intn(4) == 0 {
					owner, _ = vC07Relative(r, qname)
					probeSet[strings.ToLower(owner.String())] = vC07Parse(strings.ToLower(owner.String()))
				}
				if r.Intn(2) == 0 {
					owner = vC07CaseMix(r, owner)
				}
				sp := vC07RRSpec{owner: owner, rrtype: dns.TypeA, class: dns.ClassINET, ttl: 60}
				sp.ip, _ = gen.rand(r, false)
				extra = append(extra, sp)
			}
			// what an address lookup for each host returns (missing: the lookup fails)
			hq.world = map[string][]dns.RR{}
			var ansCoq []string
			for _, h := range hosts {
				if r.Intn(3) == 0 {
					continue
				}
				var recs []vC07RRSpec
				for i, na := 0, r.Intn(3); i < na; i++ {
					sp := vC07RRSpec{owner: h, rrtype: dns.TypeA, class: dns.ClassINET, ttl: 60}
					if r.Intn(4) == 0 {
						sp.rrtype = dns.TypeAAAA
						sp.ip, _ = gen.rand(r, true)
					} else {
						sp.ip, _ = gen.rand(r, false)
					}
					if r.Intn(5) == 0 {
						sp.owner = append(vC07Name{"alias"}, h...) // the tail of an alias chain
					}
					recs = append(recs, sp)
				}
				hq.world[strings.ToLower(h.String())] = vC07RRs(recs)
				ansCoq = append(ansCoq, fmt.Sprintf("(%s, %s)", h.coq(), vC07CoqRRs(recs)))
			}
			resp := &dns.Msg{}
			resp.Question = []dns.Question{{Name: qname.String(), Qtype: dns.TypeA, Qclass: dns.ClassINET}}
			resp.Extra = vC07RRs(extra)
			authservers, f4, _ := res.checkGlueRR(resp, hostSetV, level)
			authservers.Zone = qname.String()
			nsq := dns.Question{Name: qname.String(), Qtype: dns.TypeNS, Qclass: dns.ClassINET}
			_ = res.lookupV4Nss(context.Background(), nsq, authservers, cache.Key(nsq, true), nil, f4, hostSetV, true, time.Time{})
			evCoq = append(evCoq, fmt.Sprintf("GlueReferral %d %s %s %s [%s]", level, qname.coq(), vC07CoqNames(hosts), vC07CoqRRs(extra), strings.Join(ansCoq, ";")))
			evDesc = append(evDesc, fmt.Sprintf("level=%d qname=%s hosts=%v glue=%v lookups=%d", level, qname, hosts, vC07DescRRs(extra), len(hq.world)))
		}
		var keys []string
		for k := range probeSet {
			keys = append(keys, k)
		}
		sort.Strings(keys)
		var prCoq, prDesc []string
		for _, k := range keys {
			addrs, ok := res.getIPv4Cache(k)
			if ok {
				prCoq = append(prCoq, fmt.Sprintf("(%s, Some %s)", probeSet[k].coq(), vC07CoqAddrs(addrs)))
				prDesc = append(prDesc, fmt.Sprintf("%s=%v", k, addrs))
			} else {
				prCoq = append(prCoq, fmt.Sprintf("(%s, None)", probeSet[k].coq()))
			}
		}
		emit(map[string]any{
			"k": fmt.Sprintf("gluehist-%d", steps), "coq": fmt.Sprintf("CaseGlueHist %s [%s] [%s]", localCoq, strings.Join(evCoq, ";"), strings.Join(prCoq, ";")),
			"nontrivial": len(prDesc) > 0,
			"desc":       map[string]any{"events": evDesc, "cache": prDesc},
		})
	}

	// --- extractDelegationInfo + validReferral ---------------------------------------
	res := &Resolver{}
	for c := 0; c < n*2/5; c++ {
		qname := vC07RandQName(r)
		authZone, ak := vC07Relative(r, qname)
		if r.Intn(3) != 0 {
			k := 0
			if len(qname) > 0 {
				k = r.Intn(len(qname))
			}
			authZone = append(vC07Name{}, qname[len(qname)-k:]...)
			ak = "ancestor"
		}
		// referral owner: mostly strictly between authZone and qname
		var owner vC07Name
		ok := "rel"
		if r.Intn(2) == 0 && len(qname) > len(authZone) && ak == "ancestor" {
			k := len(authZone) + 1 + r.Intn(len(qname)-len(authZone))
			owner = append(vC07Name{}, qname[len(qname)-k:]...)
			ok = "between"
		} else {
			owner, ok = vC07Relative(r, qname)
		}
		q := dns.Question{Name: qname.String(), Qtype: []uint16{dns.TypeA, dns.TypeNS, dns.TypeDS}[r.Intn(3)], Qclass: dns.ClassINET}
		if r.Intn(12) == 0 {
			q.Qclass = dns.ClassCHAOS
		}
		var ns []vC07RRSpec
		cnt := r.Intn(5)
		for i := 0; i < cnt; i++ {
			s := vC07RRSpec{owner: owner, rrtype: dns.TypeNS, class: dns.ClassINET, ttl: uint32(1 + r.Intn(5000))}
			s.target = append(vC07Name{[]string{"ns", "ns1", "ns2", "NS1"}[r.Intn(4)]}, owner...)
			switch r.Intn(10) {
			case 0:
				s.owner, _ = vC07Relative(r, qname) // mixed owner
			case 1:
				s.owner = vC07CaseMix(r, owner)
			case 2:
				s.class = dns.ClassCHAOS
			case 3:
				s.target, _ = vC07Relative(r, qname)
			}
			ns = append(ns, s)
		}
		for i := 0; i < r.Intn(3); i++ {
			s := vC07RRSpec{owner: owner, class: dns.ClassINET, ttl: uint32(r.Intn(100))}
			s.rrtype = []uint16{dns.TypeSOA, dns.TypeDS, dns.TypeRRSIG, dns.TypeNSEC, dns.TypeTXT}[r.Intn(5)]
			if s.rrtype == dns.TypeRRSIG {
				s.covered = dns.TypeDS
			}
			pos := r.Intn(len(ns) + 1)
			ns = append(ns[:pos], append([]vC07RRSpec{s}, ns[pos:]...)...)
		}
		vC07InfoOne(res, "info-"+ak+"-"+ok, authZone, qname, q, ns, cnt > 0, emit)
	}

	// --- progressingReferral -------------------------------------------------------------
	for c := 0; c < n/10; c++ {
		qname := vC07RandQName(r)
		authZone, ak := vC07Relative(r, qname)
		referral, rk := vC07Relative(r, qname)
		if r.Intn(2) == 0 {
			// a referral derived from the authority zone itself: equal, case-mixed, one label below
			switch r.Intn(3) {
			case 0:
				referral, rk = append(vC07Name{}, authZone...), "eq-auth"
			case 1:
				referral, rk = vC07CaseMix(r, authZone), "eq-auth-case"
			default:
				if len(qname) > len(authZone) {
					referral, rk = append(vC07Name{qname[len(qname)-len(authZone)-1]}, authZone...), "auth+1"
				}
			}
		}
		vC07ProgOne("prog-"+ak+"-"+rk, referral, authZone, qname, emit)
	}

	// --- the zone filter of Resolver.answer ---------------------------------------------------
	for c := 0; c < n/10; c++ {
		qname := vC07RandQName(r)
		zone, zk := vC07Relative(r, qname)
		if r.Intn(3) != 0 {
			k := 0
			if len(qname) > 0 {
				k = r.Intn(len(qname) + 1)
			}
			zone, zk = append(vC07Name{}, qname[len(qname)-k:]...), "ancestor"
		}
		var owners []vC07Name
		for i, cnt := 0, 1+r.Intn(6); i < cnt; i++ {
			var o vC07Name
			if r.Intn(2) == 0 {
				o, _ = vC07Relative(r, qname)
			} else {
				o, _ = vC07Relative(r, zone)
			}
			owners = append(owners, o)
		}
		vC07ZoneFilterOne("zonefilter-"+zk, zone, owners, emit)
	}

	// --- filterAuthorityRecords + clearAdditional --------------------------------------------
	for c := 0; c < n/10; c++ {
		owner := vC07RandQName(r)
		if r.Intn(8) == 0 && len(owner) > 1 {
			owner = append(vC07Name{"*"}, owner[1:]...)
		}
		covers := []uint16{dns.TypeSOA, dns.TypeNSEC, dns.TypeNSEC3, dns.TypeNS, dns.TypeA}
		mk := func(cnt int) []vC07RRSpec {
			var out []vC07RRSpec
			for i := 0; i < cnt; i++ {
				s := vC07RRSpec{owner: owner, class: dns.ClassINET, ttl: 60}
				// records owned by the answering name, by a relative of it, or by a name of another zone altogether
				switch r.Intn(4) {
				case 0:
					s.owner, _ = vC07Relative(r, owner)
				case 1:
					s.owner = vC07Name{"www", "victim", "l2"}
				}
				s.rrtype = []uint16{dns.TypeSOA, dns.TypeNS, dns.TypeNSEC, dns.TypeNSEC3, dns.TypeRRSIG, dns.TypeDS, dns.TypeA, dns.TypeTXT}[r.Intn(8)]
				switch s.rrtype {
				case dns.TypeNS:
					s.target = owner
				case dns.TypeRRSIG:
					s.covered = covers[r.Intn(len(covers))]
				case dns.TypeA:
					s.ip = []byte{198, 51, 100, byte(i)}
				}
				out = append(out, s)
			}
			return out
		}
		// the Answer section of the positive answer: the RRset, often with a signature whose Labels field is the
		// owner's label count, smaller (what a wildcard expansion looks like), zero or larger; now and then an alias in front
		answer := []vC07RRSpec{{owner: owner, rrtype: dns.TypeA, class: dns.ClassINET, ttl: 5, ip: []byte{198, 51, 100, 9}}}
		if r.Intn(3) != 0 {
			answer = append(answer, vC07RRSpec{owner: owner, rrtype: dns.TypeRRSIG, class: dns.ClassINET, ttl: 5, covered: dns.TypeA, labelsDelta: []int{0, -1, -1, -2, -9, 1}[r.Intn(6)]})
		}
		if r.Intn(6) == 0 {
			al := append(vC07Name{"alias"}, owner...)
			answer = append([]vC07RRSpec{{owner: al, rrtype: dns.TypeCNAME, class: dns.ClassINET, ttl: 5, target: owner},
				{owner: al, rrtype: dns.TypeRRSIG, class: dns.ClassINET, ttl: 5, covered: dns.TypeCNAME, labelsDelta: -r.Intn(2)}}, answer...)
		}
		vC07SectionsOne(res, "sections", owner, answer, mk(r.Intn(6)), mk(r.Intn(5)), r.Intn(3), r.Intn(2) == 0, r.Intn(3), emit)
	}
}

// vC07SectionsOne: the real filterAuthorityRecords on [ns], and the real clearAdditional on the positive answer
// (answer, ns, extra) for a request with no OPT record (edns 0), with one (1) or with one that sets DO (2)
func vC07SectionsOne(res *Resolver, kind string, owner vC07Name, answer, ns, extra []vC07RRSpec, edns int, cd bool, keep int, emit func(map[string]any)) {
	flt := res.filterAuthorityRecords(vC07RRs(ns))
	// which indices survived (records are compared by identity of position: the filter keeps order)
	var idx []string
	j := 0
	all := vC07RRs(ns)
	for i := range all {
		if j < len(flt) && dns.IsDuplicate(all[i], flt[j]) && all[i].Header().Rrtype == flt[j].Header().Rrtype {
			idx = append(idx, fmt.Sprint(i))
			j++
		}
	}
	req := new(dns.Msg)
	req.SetQuestion(owner.String(), dns.TypeA)
	req.CheckingDisabled = cd
	reqOpt := edns > 0
	if reqOpt {
		req.SetEdns0(1232, edns == 2)
	}
	resp := &dns.Msg{}
	resp.Answer = vC07RRs(answer)
	resp.Ns = vC07RRs(ns)
	resp.Extra = vC07RRs(extra)
	keepCoq := "None"
	var out *dns.Msg
	switch keep {
	case 0:
		out = res.clearAdditional(req, resp)
	case 1:
		out = res.clearAdditional(req, resp, false)
		keepCoq = "(Some false)"
	default:
		out = res.clearAdditional(req, resp, true)
		keepCoq = "(Some true)"
	}
	optLeft, nonOpt := false, 0
	for _, rr := range out.Extra {
		if rr.Header().Rrtype == dns.TypeOPT {
			optLeft = true
		} else {
			nonOpt++
		}
	}
	goFail := ""
	if len(flt) != j {
		goFail = "filterAuthorityRecords reordered or invented records"
	}
	if len(out.Answer) != len(answer) {
		goFail = "clearAdditional touched the answer section"
	}
	for _, rr := range out.Ns {
		goFail = fmt.Sprintf("the positive answer for %s leaves clearAdditional with %s in its authority section", owner, vC07Ident(rr))
	}
	emit(map[string]any{
		"k": kind,
		"coq": fmt.Sprintf("CaseSections %s %s %v %s [%s] %d %d %v", vC07CoqRRs(ns), vC07CoqRRs(extra), reqOpt, keepCoq,
			strings.Join(idx, ";"), len(out.Ns), nonOpt, optLeft),
		"nontrivial": len(ns)+len(extra) > 0, "go_fail": goFail,
		"desc": map[string]any{"question": owner.String(), "answer": vC07DescRRs(answer), "ns": vC07DescRRs(ns), "extra": vC07DescRRs(extra),
			"req_opt": reqOpt, "req_do": edns == 2, "req_cd": cd, "keep": keepCoq,
			"filtered_idx": idx, "ns_left": len(out.Ns), "extra_left": nonOpt, "opt_left": optLeft},
	})
}
