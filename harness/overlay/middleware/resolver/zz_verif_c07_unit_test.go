//go:build verif

package resolver

// C07 driver, unit level in package resolver: generated messages fed to the
// REAL usableAddr, Resolver.checkGlueRR (with real glue caches),
// Resolver.extractDelegationInfo, validReferral, progressingReferral,
// Resolver.filterAuthorityRecords and Resolver.clearAdditional.  Names come
// from a small label alphabet with case mixes and label-boundary near-misses
// (notexample.com / exam.ple.com against example.com).

import (
	"context"
	"encoding/json"
	"fmt"
	"math/rand"
	"net"
	"net/netip"
	"os"
	"sort"
	"strings"
	"testing"
	"time"

	"github.com/miekg/dns"
	"github.com/semihalev/sdns/config"
	"github.com/semihalev/sdns/internal/authority"
	"github.com/semihalev/sdns/internal/cache"
	"github.com/semihalev/sdns/middleware"
)

// the Queryer NS-host address lookups go through in the history cases: answers from a scripted map
type vC07HostQueryer struct {
	world map[string][]dns.RR
	asked []string
}

func (q *vC07HostQueryer) Query(ctx context.Context, req *dns.Msg) (*dns.Msg, error) {
	name := strings.ToLower(req.Question[0].Name)
	q.asked = append(q.asked, name)
	ans, ok := q.world[name]
	if !ok {
		return nil, middleware.ErrNoResponse
	}
	m := new(dns.Msg)
	m.SetReply(req)
	m.Answer = ans
	return m, nil
}

var vC07Local = []net.IP{net.IPv4(192, 0, 2, 77), net.ParseIP("2001:db8::77"), net.IPv4(10, 9, 8, 7).To4()}

func vC07RandIP(r *rand.Rand, want16 bool) ([]byte, string) {
	v4 := [][]byte{
		{127, 0, 0, 1}, {127, 255, 255, 255}, {126, 255, 255, 255}, {128, 0, 0, 0}, {0, 0, 0, 0},
		{192, 0, 2, 77}, {10, 9, 8, 7}, {192, 0, 2, 78}, {198, 51, 100, 1}, {198, 51, 100, 2}, {6, 6, 6, 6},
	}
	kinds4 := []string{"loopback", "loopback-hi", "below-loopback", "above-loopback", "unspecified",
		"local", "local", "near-local", "plain", "plain", "plain"}
	v6 := []string{"::1", "::2", "::", "2001:db8::77", "2001:db8::78", "2001:db8::1", "2001:db8::2", "fe80::1"}
	kinds6 := []string{"loopback6", "near-loopback6", "unspecified6", "local6", "near-local6", "plain6", "plain6", "linklocal6"}
	if !want16 {
		switch r.Intn(12) {
		case 0:
			return []byte{1, 2, 3}, "badlen"
		case 1:
			return nil, "empty"
		case 2:
			i := r.Intn(len(v4))
			b := net.IP(v4[i]).To16()
			return []byte(b), "mapped-" + kinds4[i]
		default:
			i := r.Intn(len(v4))
			return append([]byte{}, v4[i]...), kinds4[i]
		}
	}
	switch r.Intn(12) {
	case 0:
		return make([]byte, 15), "badlen"
	case 1, 2, 3:
		i := r.Intn(len(v4))
		b := net.IP(v4[i]).To16()
		return []byte(b), "mapped-" + kinds4[i]
	default:
		i := r.Intn(len(v6))
		return []byte(net.ParseIP(v6[i]).To16()), kinds6[i]
	}
}

func TestVerifC07Unit(t *testing.T) {
	p := os.Getenv("VERIF_OUT")
	if p == "" {
		t.Skip("VERIF_OUT not set")
	}
	f, err := os.Create(p)
	if err != nil {
		t.Fatal(err)
	}
	defer f.Close()
	vC07Quiet()
	r := rand.New(rand.NewSource(int64(vC07EnvInt("VERIF_SEED", 1))*104729 + 11))
	n := vC07EnvInt("VERIF_N", 2000)
	emit := func(m map[string]any) {
		b, _ := json.Marshal(m)
		f.Write(append(b, '\n'))
	}

	// the local-interface list is a package variable filled at init; the driver pins it to a
	// known set so that the filter is exercised independently of the machine's interfaces
	saved := localIPaddrs
	localIPaddrs = vC07Local
	defer func() { localIPaddrs = saved }()
	localCoq := vC07CoqIPList(vC07Local)

	// --- usableAddr ---------------------------------------------------------------
	for c := 0; c < n/5; c++ {
		ip, kind := vC07RandIP(r, r.Intn(2) == 0)
		addr, ok := usableAddr(net.IP(ip))
		obs := "None"
		goFail := ""
		if ok {
			obs = "(Some " + vC07CoqAddr(addr) + ")"
			if addr.IsLoopback() || addr.Is4In6() {
				goFail = "usableAddr returned a loopback or mapped address"
			}
			for _, l := range vC07Local {
				if la, _ := netip.AddrFromSlice(l); la.Unmap() == addr {
					goFail = "usableAddr returned a local interface address"
				}
			}
		}
		emit(map[string]any{
			"k": "usable-" + kind, "coq": fmt.Sprintf("CaseUsable %s %s %s", localCoq, vC07CoqBytes(ip), obs),
			"nontrivial": len(ip) == 4 || len(ip) == 16, "go_fail": goFail,
			"desc": map[string]any{"ip": fmt.Sprint(net.IP(ip)), "len": len(ip), "usable": ok, "addr": addr.String()},
		})
	}

	// --- checkGlueRR ----------------------------------------------------------------
	for c := 0; c < n/5; c++ {
		qname := vC07RandQName(r)
		level := r.Intn(len(qname) + 2)
		if r.Intn(3) != 0 && len(qname) > 0 {
			level = r.Intn(len(qname)) // mostly a proper ancestor's depth
		}
		ipv6 := r.Intn(3) != 0
		// NS host set: some inside the level-zone, some outside
		var hosts []vC07Name
		hostSetV := make(hostSet)
		nh := 1 + r.Intn(4)
		for i := 0; i < nh; i++ {
			h, _ := vC07Relative(r, qname)
			if r.Intn(2) == 0 {
				h = append(vC07Name{[]string{"ns", "ns1", "ns2"}[r.Intn(3)]}, h...)
			}
			hosts = append(hosts, h)
			hostSetV[strings.ToLower(h.String())] = struct{}{}
		}
		var extra []vC07RRSpec
		ne := r.Intn(7)
		for i := 0; i < ne; i++ {
			var owner vC07Name
			kind := r.Intn(6)
			switch {
			case kind < 4:
				owner = hosts[r.Intn(len(hosts))]
				if r.Intn(2) == 0 {
					owner = vC07CaseMix(r, owner)
				}
			default:
				owner, _ = vC07Relative(r, qname)
			}
			s := vC07RRSpec{owner: owner, class: dns.ClassINET, ttl: uint32(r.Intn(600))}
			switch r.Intn(8) {
			case 0:
				s.rrtype = dns.TypeTXT
			case 1, 2, 3:
				s.rrtype = dns.TypeAAAA
				s.ip, _ = vC07RandIP(r, true)
			default:
				s.rrtype = dns.TypeA
				s.ip, _ = vC07RandIP(r, false)
			}
			extra = append(extra, s)
		}
		res := &Resolver{cfg: &config.Config{IPv6Access: ipv6}, glueV4: cache.New(256), glueV6: cache.New(256)}
		resp := &dns.Msg{}
		qn := qname
		if r.Intn(3) == 0 {
			qn = vC07CaseMix(r, qname)
		}
		resp.Question = []dns.Question{{Name: qn.String(), Qtype: dns.TypeA, Qclass: dns.ClassINET}}
		resp.Extra = vC07RRs(extra)
		auth, f4, f6 := res.checkGlueRR(resp, hostSetV, level)
		var srv []netip.Addr
		for _, s := range auth.List {
			ap, err := netip.ParseAddrPort(s.Addr)
			if err != nil {
				t.Fatalf("server addr %q: %v", s.Addr, err)
			}
			srv = append(srv, ap.Addr())
		}
		names := func(hs hostSet) ([]string, []vC07Name) {
			var ks []string
			for k := range hs {
				ks = append(ks, k)
			}
			sort.Strings(ks)
			var out []vC07Name
			for _, k := range ks {
				out = append(out, vC07Parse(k))
			}
			return ks, out
		}
		k4, n4 := names(f4)
		k6, n6 := names(f6)
		assoc := func(ks []string, get func(string) ([]netip.Addr, bool)) string {
			var parts []string
			for _, k := range ks {
				a, _ := get(k)
				parts = append(parts, fmt.Sprintf("(%s, %s)", vC07Parse(k).coq(), vC07CoqAddrs(a)))
			}
			return "[" + strings.Join(parts, ";") + "]"
		}
		a4 := assoc(k4, res.getIPv4Cache)
		a6 := "[]"
		if ipv6 {
			a6 = assoc(k6, res.getIPv6Cache)
		}
		// Go-side ground truth: every accepted name lies in the zone made of qname's last `level` labels and is an NS host
		goFail := ""
		zone := "."
		if level > 0 {
			if level > len(qname) {
				zone = "(none)"
			} else {
				zone = vC07Name(qname[len(qname)-level:]).String()
			}
		}
		for _, k := range append(append([]string{}, k4...), k6...) {
			if zone == "(none)" || !dns.IsSubDomain(strings.ToLower(zone), k) {
				goFail = fmt.Sprintf("glue for %s accepted outside %s", k, zone)
			}
			if _, ok := hostSetV[k]; !ok {
				goFail = fmt.Sprintf("glue for %s accepted but it is not an NS host", k)
			}
		}
		for _, a := range srv {
			if a.IsLoopback() {
				goFail = "loopback glue address used"
			}
			for _, l := range vC07Local {
				if la, _ := netip.AddrFromSlice(l); la.Unmap() == a {
					goFail = "local interface glue address used"
				}
			}
		}
		kind := "glue-none"
		if len(srv) > 0 {
			kind = "glue-some"
		}
		emit(map[string]any{
			"k": kind,
			"coq": fmt.Sprintf("CaseGlue %v %s %d %s %s %s %s %s %s %s %s", ipv6, localCoq, level, qn.coq(), vC07CoqNames(hosts), vC07CoqRRs(extra),
				vC07CoqAddrs(srv), vC07CoqNames(n4), vC07CoqNames(n6), a4, a6),
			"nontrivial": len(extra) > 0, "go_fail": goFail,
			"desc": map[string]any{"qname": qn.String(), "level": level, "ipv6": ipv6, "hosts": fmt.Sprint(hosts), "extra": vC07DescRRs(extra),
				"servers": fmt.Sprint(srv), "found4": k4, "found6": k6},
		})
	}

	// --- the NS-address cache across a history of referrals ------------------------------------
	// each event is what processDelegation does on the uncached path: the real checkGlueRR, then the
	// real lookupV4Nss (cache first, otherwise an address lookup through the Queryer)
	for c := 0; c < n/12; c++ {
		res := &Resolver{cfg: &config.Config{IPv6Access: false}, glueV4: cache.New(1024), glueV6: cache.New(1024), delegations: authority.NewCache()}
		hq := &vC07HostQueryer{}
		var qr middleware.Queryer = hq
		res.queryer.Store(&qr)
		qbase := vC07RandQName(r)
		for len(qbase) < 2 {
			qbase = vC07RandQName(r)
		}
		var evCoq, evDesc []string
		probeSet := map[string]vC07Name{}
		steps := 1 + r.Intn(4)
		for e := 0; e < steps; e++ {
			qname := qbase
			if r.Intn(3) == 0 {
				qname = append(vC07Name{vC07Labels[r.Intn(len(vC07Labels))]}, qbase...)
			}
			level := r.Intn(len(qname))
			var hosts []vC07Name
			hostSetV := make(hostSet)
			for i, nh := 0, 1+r.Intn(3); i < nh; i++ {
				h, _ := vC07Relative(r, qname)
				h = append(vC07Name{[]string{"ns", "ns1", "ns2"}[r.Intn(3)]}, h...)
				if r.Intn(3) == 0 && len(probeSet) > 0 { // a host seen in an earlier event again
					for _, old := range probeSet {
						h = old
						break
					}
				}
				key := strings.ToLower(h.String())
				if _, dup := hostSetV[key]; dup {
					continue
				}
				hostSetV[key] = struct{}{}
				hosts = append(hosts, vC07Parse(key))
				probeSet[key] = vC07Parse(key)
			}
			var extra []vC07RRSpec
			for i, ne := 0, r.Intn(4); i < ne; i++ {
				owner := hosts[r.Intn(len(hosts))]
				if r.Intn(4) == 0 {
					owner, _ = vC07Relative(r, qname)
					probeSet[strings.ToLower(owner.String())] = vC07Parse(strings.ToLower(owner.String()))
				}
				if r.Intn(2) == 0 {
					owner = vC07CaseMix(r, owner)
				}
				sp := vC07RRSpec{owner: owner, rrtype: dns.TypeA, class: dns.ClassINET, ttl: 60}
				sp.ip, _ = vC07RandIP(r, false)
				extra = append(extra, sp)
			}
			// what an address lookup for each host returns (missing: the lookup fails)
			hq.world = map[string][]dns.RR{}
			var ansCoq []string
			for _, h := range hosts {
				if r.Intn(3) == 0 {
					continue
				}
				var recs []vC07RRSpec
				for i, na := 0, r.Intn(3); i < na; i++ {
					sp := vC07RRSpec{owner: h, rrtype: dns.TypeA, class: dns.ClassINET, ttl: 60}
					if r.Intn(4) == 0 {
						sp.rrtype = dns.TypeAAAA
						sp.ip, _ = vC07RandIP(r, true)
					} else {
						sp.ip, _ = vC07RandIP(r, false)
					}
					if r.Intn(5) == 0 {
						sp.owner = append(vC07Name{"alias"}, h...) // the tail of an alias chain
					}
					recs = append(recs, sp)
				}
				hq.world[strings.ToLower(h.String())] = vC07RRs(recs)
				ansCoq = append(ansCoq, fmt.Sprintf("(%s, %s)", h.coq(), vC07CoqRRs(recs)))
			}
			resp := &dns.Msg{}
			resp.Question = []dns.Question{{Name: qname.String(), Qtype: dns.TypeA, Qclass: dns.ClassINET}}
			resp.Extra = vC07RRs(extra)
			authservers, f4, _ := res.checkGlueRR(resp, hostSetV, level)
			authservers.Zone = qname.String()
			nsq := dns.Question{Name: qname.String(), Qtype: dns.TypeNS, Qclass: dns.ClassINET}
			_ = res.lookupV4Nss(context.Background(), nsq, authservers, cache.Key(nsq, true), nil, f4, hostSetV, true, time.Time{})
			evCoq = append(evCoq, fmt.Sprintf("GlueReferral %d %s %s %s [%s]", level, qname.coq(), vC07CoqNames(hosts), vC07CoqRRs(extra), strings.Join(ansCoq, ";")))
			evDesc = append(evDesc, fmt.Sprintf("level=%d qname=%s hosts=%v glue=%v lookups=%d", level, qname, hosts, vC07DescRRs(extra), len(hq.world)))
		}
		var keys []string
		for k := range probeSet {
			keys = append(keys, k)
		}
		sort.Strings(keys)
		var prCoq, prDesc []string
		for _, k := range keys {
			addrs, ok := res.getIPv4Cache(k)
			if ok {
				prCoq = append(prCoq, fmt.Sprintf("(%s, Some %s)", probeSet[k].coq(), vC07CoqAddrs(addrs)))
				prDesc = append(prDesc, fmt.Sprintf("%s=%v", k, addrs))
			} else {
				prCoq = append(prCoq, fmt.Sprintf("(%s, None)", probeSet[k].coq()))
			}
		}
		emit(map[string]any{
			"k": fmt.Sprintf("gluehist-%d", steps), "coq": fmt.Sprintf("CaseGlueHist %s [%s] [%s]", localCoq, strings.Join(evCoq, ";"), strings.Join(prCoq, ";")),
			"nontrivial": len(prDesc) > 0,
			"desc":       map[string]any{"events": evDesc, "cache": prDesc},
		})
	}

	// --- extractDelegationInfo + validReferral ---------------------------------------
	res := &Resolver{}
	for c := 0; c < n*2/5; c++ {
		qname := vC07RandQName(r)
		authZone, ak := vC07Relative(r, qname)
		if r.Intn(3) != 0 {
			k := 0
			if len(qname) > 0 {
				k = r.Intn(len(qname))
			}
			authZone = append(vC07Name{}, qname[len(qname)-k:]...)
			ak = "ancestor"
		}
		// referral owner: mostly strictly between authZone and qname
		var owner vC07Name
		ok := "rel"
		if r.Intn(2) == 0 && len(qname) > len(authZone) && ak == "ancestor" {
			k := len(authZone) + 1 + r.Intn(len(qname)-len(authZone))
			owner = append(vC07Name{}, qname[len(qname)-k:]...)
			ok = "between"
		} else {
			owner, ok = vC07Relative(r, qname)
		}
		q := dns.Question{Name: qname.String(), Qtype: []uint16{dns.TypeA, dns.TypeNS, dns.TypeDS}[r.Intn(3)], Qclass: dns.ClassINET}
		if r.Intn(12) == 0 {
			q.Qclass = dns.ClassCHAOS
		}
		var ns []vC07RRSpec
		cnt := r.Intn(5)
		for i := 0; i < cnt; i++ {
			s := vC07RRSpec{owner: owner, rrtype: dns.TypeNS, class: dns.ClassINET, ttl: uint32(1 + r.Intn(5000))}
			s.target = append(vC07Name{[]string{"ns", "ns1", "ns2", "NS1"}[r.Intn(4)]}, owner...)
			switch r.Intn(10) {
			case 0:
				s.owner, _ = vC07Relative(r, qname) // mixed owner
			case 1:
				s.owner = vC07CaseMix(r, owner)
			case 2:
				s.class = dns.ClassCHAOS
			case 3:
				s.target, _ = vC07Relative(r, qname)
			}
			ns = append(ns, s)
		}
		for i := 0; i < r.Intn(3); i++ {
			s := vC07RRSpec{owner: owner, class: dns.ClassINET, ttl: uint32(r.Intn(100))}
			s.rrtype = []uint16{dns.TypeSOA, dns.TypeDS, dns.TypeRRSIG, dns.TypeNSEC, dns.TypeTXT}[r.Intn(5)]
			if s.rrtype == dns.TypeRRSIG {
				s.covered = dns.TypeDS
			}
			pos := r.Intn(len(ns) + 1)
			ns = append(ns[:pos], append([]vC07RRSpec{s}, ns[pos:]...)...)
		}
		resp := &dns.Msg{}
		resp.Question = []dns.Question{q}
		resp.Ns = vC07RRs(ns)
		info := res.extractDelegationInfo(resp)
		valid := validReferral(info, authZone.String(), q)
		oCoq, cl, ttl := "None", uint16(0), uint32(0)
		oDesc := "-"
		if info.nsRecord != nil {
			oCoq = "(Some " + vC07Parse(info.nsRecord.Header().Name).coq() + ")"
			cl = info.nsRecord.Header().Class
			ttl = info.nsTTL
			oDesc = info.nsRecord.Header().Name
		}
		var hk []string
		for k := range info.hosts {
			hk = append(hk, k)
		}
		sort.Strings(hk)
		var hn []vC07Name
		for _, k := range hk {
			hn = append(hn, vC07Parse(k))
		}
		// Go-side ground truth for an accepted referral
		goFail := ""
		if valid {
			var first *dns.NS
			for _, rr := range resp.Ns {
				nsr, isNS := rr.(*dns.NS)
				if !isNS {
					continue
				}
				if first == nil {
					first = nsr
					continue
				}
				if !strings.EqualFold(nsr.Hdr.Name, first.Hdr.Name) || nsr.Hdr.Class != first.Hdr.Class {
					goFail = "accepted a referral whose NS records do not form one set"
				}
			}
			if first == nil {
				goFail = "accepted a referral without NS"
			} else {
				o, a, qq := strings.ToLower(first.Hdr.Name), strings.ToLower(authZone.String()), strings.ToLower(q.Name)
				if first.Hdr.Class != q.Qclass {
					goFail = "accepted a referral of another class"
				}
				if !dns.IsSubDomain(a, o) || o == a {
					goFail = fmt.Sprintf("accepted referral %s not strictly below %s", o, a)
				}
				if !dns.IsSubDomain(o, qq) {
					goFail = fmt.Sprintf("accepted referral %s off the path to %s", o, qq)
				}
			}
		}
		kind := "info-" + ak + "-" + ok
		if valid {
			kind += "-valid"
		}
		emit(map[string]any{
			"k": kind,
			"coq": fmt.Sprintf("CaseInfo %s %s (mk_q %s %d %d) %s %d %d %s %v %v %v", vC07CoqRRs(ns), authZone.coq(), qname.coq(), q.Qtype, q.Qclass,
				oCoq, cl, ttl, vC07CoqNames(hn), info.hasSOA, info.incoherent, valid),
			"nontrivial": cnt > 0, "go_fail": goFail,
			"desc": map[string]any{"ns": vC07DescRRs(ns), "auth_zone": authZone.String(), "q": q.Name, "qclass": q.Qclass,
				"owner": oDesc, "ttl": ttl, "hosts": hk, "soa": info.hasSOA, "incoherent": info.incoherent, "valid": valid},
		})
	}

	// --- progressingReferral -------------------------------------------------------------
	for c := 0; c < n/10; c++ {
		qname := vC07RandQName(r)
		authZone, ak := vC07Relative(r, qname)
		referral, rk := vC07Relative(r, qname)
		if r.Intn(2) == 0 {
			// a referral derived from the authority zone itself: equal, case-mixed, one label below
			switch r.Intn(3) {
			case 0:
				referral, rk = append(vC07Name{}, authZone...), "eq-auth"
			case 1:
				referral, rk = vC07CaseMix(r, authZone), "eq-auth-case"
			default:
				if len(qname) > len(authZone) {
					referral, rk = append(vC07Name{qname[len(qname)-len(authZone)-1]}, authZone...), "auth+1"
				}
			}
		}
		obs := progressingReferral(referral.String(), authZone.String(), qname.String())
		goFail := ""
		if obs {
			o, a, qq := strings.ToLower(referral.String()), strings.ToLower(authZone.String()), strings.ToLower(qname.String())
			if !dns.IsSubDomain(a, o) || o == a || !dns.IsSubDomain(o, qq) {
				goFail = "progressingReferral accepted a referral that is not strictly below the zone on the path to qname"
			}
		}
		emit(map[string]any{
			"k": "prog-" + ak + "-" + rk, "coq": fmt.Sprintf("CaseProg %s %s %s %v", referral.coq(), authZone.coq(), qname.coq(), obs),
			"nontrivial": true, "go_fail": goFail,
			"desc": map[string]any{"referral": referral.String(), "auth_zone": authZone.String(), "qname": qname.String(), "progressing": obs},
		})
	}

	// --- filterAuthorityRecords + clearAdditional --------------------------------------------
	for c := 0; c < n/10; c++ {
		owner := vC07RandQName(r)
		mk := func(cnt int) []vC07RRSpec {
			var out []vC07RRSpec
			for i := 0; i < cnt; i++ {
				s := vC07RRSpec{owner: owner, class: dns.ClassINET, ttl: 60}
				s.rrtype = []uint16{dns.TypeSOA, dns.TypeNS, dns.TypeNSEC, dns.TypeNSEC3, dns.TypeRRSIG, dns.TypeDS, dns.TypeA, dns.TypeTXT}[r.Intn(8)]
				switch s.rrtype {
				case dns.TypeNS:
					s.target = owner
				case dns.TypeRRSIG:
					s.covered = dns.TypeSOA
				case dns.TypeA:
					s.ip = []byte{198, 51, 100, byte(i)}
				}
				out = append(out, s)
			}
			return out
		}
		ns, extra := mk(r.Intn(6)), mk(r.Intn(5))
		flt := res.filterAuthorityRecords(vC07RRs(ns))
		// which indices survived (records are compared by identity of position: the filter keeps order)
		var idx []string
		j := 0
		all := vC07RRs(ns)
		for i := range all {
			if j < len(flt) && dns.IsDuplicate(all[i], flt[j]) && all[i].Header().Rrtype == flt[j].Header().Rrtype {
				idx = append(idx, fmt.Sprint(i))
				j++
			}
		}
		req := new(dns.Msg)
		req.SetQuestion(owner.String(), dns.TypeA)
		reqOpt := r.Intn(2) == 0
		if reqOpt {
			req.SetEdns0(1232, true)
		}
		resp := &dns.Msg{}
		resp.Answer = []dns.RR{vC07RRSpec{owner: owner, rrtype: dns.TypeA, class: dns.ClassINET, ttl: 5, ip: []byte{198, 51, 100, 9}}.rr()}
		resp.Ns = vC07RRs(ns)
		resp.Extra = vC07RRs(extra)
		keepCoq := "None"
		var out *dns.Msg
		switch r.Intn(3) {
		case 0:
			out = res.clearAdditional(req, resp)
		case 1:
			out = res.clearAdditional(req, resp, false)
			keepCoq = "(Some false)"
		default:
			out = res.clearAdditional(req, resp, true)
			keepCoq = "(Some true)"
		}
		optLeft, nonOpt := false, 0
		for _, rr := range out.Extra {
			if rr.Header().Rrtype == dns.TypeOPT {
				optLeft = true
			} else {
				nonOpt++
			}
		}
		emit(map[string]any{
			"k": "sections",
			"coq": fmt.Sprintf("CaseSections %s %s %v %s [%s] %d %d %v", vC07CoqRRs(ns), vC07CoqRRs(extra), reqOpt, keepCoq,
				strings.Join(idx, ";"), len(out.Ns), nonOpt, optLeft),
			"nontrivial": len(ns)+len(extra) > 0,
			"go_fail": func() string {
				if len(flt) != j {
					return "filterAuthorityRecords reordered or invented records"
				}
				if len(out.Answer) != 1 {
					return "clearAdditional touched the answer section"
				}
				return ""
			}(),
			"desc": map[string]any{"ns": vC07DescRRs(ns), "extra": vC07DescRRs(extra), "req_opt": reqOpt, "keep": keepCoq,
				"filtered_idx": idx, "ns_left": len(out.Ns), "extra_left": nonOpt, "opt_left": optLeft},
		})
	}
}
