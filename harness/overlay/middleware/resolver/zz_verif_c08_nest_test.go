//go:build verif

package resolver

// C08 nested-delegation driver (overlay-injected, never committed to /repo): the
// full pipeline (cache middleware + resolver, internal sub-queries reported the way
// the production pipeline queryer reports them) against root -> tld. -> a.tld. ->
// s.a.tld. on loopback, where the referral for s.a.tld. carries a PARTLY GLUE-LESS
// NS set (ns0 with glue, ns1.. without): processDelegation files a provisional
// entry for s.a.tld. and resolves ns1's address through the sub-pipeline before
// the final store.
//
// Per case: TTLs per level (the ancestor a.tld. often short: below the one-minute
// cap of a provisional entry and below s.a.tld.'s own NS TTL), optionally a warm-up
// tree that caches tld./a.tld. first, then a client asks w1.s.a.tld.; while ns1's
// address lookup is at the child's server the scenario either lets it pass, cancels
// the client's request (the lookup aborts: the final store never happens and only the
// provisional entry is left), or holds it for 1.2 s of real time past a 1 s
// ancestor lease (the final store comes too late and is skipped).  Afterwards the
// stored delegations and the admitted entries (the answer, ns1's address) are dumped,
// a.tld. withdraws s.a.tld., the virtual clock moves to the end of the lease the
// parent side granted for s.a.tld. (+3 s) and the client asks again: the reply must
// be the parent's NXDOMAIN and the former child must not be asked.

import (
	"context"
	"encoding/json"
	"fmt"
	"math/rand"
	"os"
	"path/filepath"
	"strings"
	"sync"
	"testing"
	"time"

	"github.com/miekg/dns"
	"github.com/semihalev/sdns/internal/mock"
	"github.com/semihalev/sdns/middleware"
	cachemw "github.com/semihalev/sdns/middleware/cache"
)

// vC08GuardQueryer runs an internal query through the handlers and reports request-local
// failures (cancellation, deadline, work limits) as errors, as middleware.pipelineQueryer does.
type vC08GuardQueryer struct{ handlers []middleware.Handler }

func (q *vC08GuardQueryer) Query(ctx context.Context, req *dns.Msg) (*dns.Msg, error) {
	ctx, _ = middleware.EnsureResolutionAttemptGuard(ctx)
	w := mock.NewWriter("tcp", "127.0.0.255:0")
	ch := middleware.NewChain(q.handlers)
	ch.Reset(w, req)
	ch.Next(ctx)
	if err := middleware.RecursionWorkEnforcementError(ctx); err != nil {
		return nil, err
	}
	if w.Written() {
		if err := middleware.RequestLocalFailureForResponse(ctx, w.Msg()); err != nil {
			return nil, err
		}
	}
	if !w.Written() {
		return nil, middleware.ErrNoResponse
	}
	return w.Msg(), nil
}

func (p *vC08Pipe) askCtx(ctx context.Context, name string, wire bool) (int, bool) {
	req := new(dns.Msg)
	req.SetQuestion(dns.Fqdn(name), dns.TypeA)
	req.SetEdns0(1232, false)
	mw := mock.NewWriter("udp", "127.0.0.1:0")
	ch := middleware.NewChain([]middleware.Handler{p.cm, p.h})
	if wire {
		raw, err := req.Pack()
		wreq := new(middleware.Request)
		if err != nil || !wreq.ParseWire(raw, time.Now(), nil) {
			return -1, false
		}
		ch.ResetWire(mw, wreq)
		ch.Next(ctx)
		ch.Finish()
	} else {
		ch.Reset(mw, req)
		ch.Next(ctx)
	}
	if !mw.Written() {
		return -1, false
	}
	return mw.Msg().Rcode, true
}

func vC08EntryTerm(p *vC08Pipe, name string) (string, string) {
	e, ok := p.entry(name, dns.TypeA)
	if !ok {
		// an internal lookup below an insecure delegation is made with CD set: the other bucket
		e, ok = cachemw.VC08Peek(p.cm, dns.Question{Name: dns.Fqdn(name), Qtype: dns.TypeA, Qclass: dns.ClassINET}, true)
	}
	if !ok {
		return "None", name + "=absent"
	}
	cutOK := !e.CutUntil.IsZero()
	return fmt.Sprintf("(Some (%s%%Z, %s%%Z, %s))", vC08Z(p.virt(e.Stored)), vC08Z(int64(e.TTL)), vC08OZ2(cutOK, p.virt(e.CutUntil))),
		fmt.Sprintf("%s: stored=%v ttl=%v cut=%v/%v rcode=%d", name, time.Duration(p.virt(e.Stored)), e.TTL, cutOK, time.Duration(p.virt(e.CutUntil)), e.Rcode)
}

type vC08NestParams struct {
	tTLD, tA, tS uint32
	bare         int
	warm         bool
	gap          int64 // virtual advance between the warm-up tree and the main tree
	mode         int   // 0 lookup passes, 1 the request is cancelled during the lookup, 2 the lookup is held past the ancestor lease
	wire         bool
}

func vC08NestCase(t *testing.T, o *vC08Out, w *vC08World, pr vC08NestParams, kindPrefix string) {
	const sec = int64(time.Second)
	w.mu.Lock()
	for _, s := range w.srvs {
		s.deleg, s.mode, s.ansTTL, s.negTTL = map[string]*vC08Deleg{}, 0, 3600, 30
	}
	w.srvs[0].deleg["tld."] = &vC08Deleg{nsTTL: []uint32{pr.tTLD}, target: 1, active: true}
	w.srvs[1].deleg["a.tld."] = &vC08Deleg{nsTTL: []uint32{pr.tA}, target: 2, active: true}
	sTTLs := make([]uint32, 1+pr.bare)
	for i := range sTTLs {
		sTTLs[i] = pr.tS
	}
	w.srvs[2].deleg["s.a.tld."] = &vC08Deleg{nsTTL: sTTLs, target: 3, active: true, bare: pr.bare}
	w.log = nil
	w.mu.Unlock()

	p := vC08NewPipeWith(t, w, 0, 0, nil)
	defer p.close()
	var sub middleware.Queryer = &vC08GuardQueryer{handlers: []middleware.Handler{p.cm, p.h}}
	p.cm.SetQueryer(sub)
	p.h.resolver.queryer.Store(&sub)

	inconcl, why := false, ""
	name := "w1.s.a.tld."
	var w0, w1 int64
	if pr.warm {
		w0 = p.now()
		rc, ok := p.askCtx(context.Background(), "w5.a.tld.", pr.wire)
		w1 = p.now()
		if !ok || rc != dns.RcodeSuccess || w1-w0 > sec {
			inconcl, why = true, "warm-up failed"
		}
		w.takeLog()
		if pr.gap > 0 {
			p.advance(time.Duration(pr.gap))
		}
	}

	ctx, cancel := context.WithCancel(context.Background())
	defer cancel()
	var once sync.Once
	var h0, h1 int64
	lookups := 0
	hookDone := make(chan struct{})
	w.mu.Lock()
	w.hook = func(srv int, q dns.Question) {
		if srv != 3 || !strings.HasPrefix(strings.ToLower(q.Name), "ns") {
			return
		}
		w.mu.Lock()
		lookups++
		w.mu.Unlock()
		once.Do(func() {
			defer close(hookDone)
			h0 = p.now()
			switch pr.mode {
			case 1:
				cancel()
			case 2:
				time.Sleep(1200 * time.Millisecond)
			}
			h1 = p.now()
		})
	}
	w.mu.Unlock()
	t0 := p.now()
	rc, answered := p.askCtx(ctx, name, pr.wire)
	t1 := p.now()
	w.mu.Lock()
	started := lookups > 0
	w.mu.Unlock()
	if started {
		// a cancelled request may return before the server goroutine has left the hook
		select {
		case <-hookDone:
		case <-time.After(5 * time.Second):
			inconcl, why = true, "hook did not finish"
		}
		time.Sleep(2 * time.Millisecond) // ... and logged its reply
	}
	w.mu.Lock()
	w.hook = nil
	nLookups := lookups
	w.mu.Unlock()
	log := w.takeLog()
	if !started || inconcl {
		// the address lookup never reached the child's server
		h0, h1 = t1, t0
		inconcl, why = true, why+" no address lookup seen"
	}
	if t1 < h1 {
		t1 = p.now()
	}
	if (h0-t0)+(t1-h1) > sec {
		inconcl, why = true, why+" slow tree"
	}
	// what happened: the lookup aborted the descent iff the child was never asked for the name itself
	askedChild, sawUpper, lookedUp := false, false, false
	for _, e := range log {
		if e.srv == 3 && e.name == name {
			askedChild = true
		}
		if e.srv == 3 && strings.HasPrefix(e.name, "ns") {
			lookedUp = true
		}
		if e.srv <= 1 {
			sawUpper = true
		}
		if e.srv <= 2 && lookedUp {
			// a later address lookup found the provisional entry gone and walked down from above again:
			// the parent side was observed a second time (a new lease) - another shape
			inconcl, why = true, why+" re-descent after the lookup"
		}
	}
	aborted := !askedChild
	if pr.warm && sawUpper {
		inconcl, why = true, why+" warm-up lease over" // ran out before the main tree started: another shape
	}
	if pr.mode != 1 && (aborted || !answered || rc != dns.RcodeSuccess) {
		inconcl, why = true, why+" unexpected reply"
	}
	// one provisional entry is filed before every address lookup that was started - also when the client's
	// cancellation lands only during the second lookup (the first at [t0,h0], the others at [h1,t1])
	nprov := nLookups

	var ds, dsDesc []string
	for _, z := range []string{"tld.", "a.tld.", "s.a.tld."} {
		e, ok := p.deleg(z)
		ds = append(ds, vC08OZ2(ok, e))
		if ok {
			dsDesc = append(dsDesc, fmt.Sprintf("%s exp=%v", z, time.Duration(e)))
		} else {
			dsDesc = append(dsDesc, z+" none")
		}
	}
	ansTerm, ansDesc := vC08EntryTerm(p, name)
	nsTerm, nsDesc := vC08EntryTerm(p, "ns1.s.a.tld.")

	// the parent withdraws s.a.tld.; the clock moves just past the lease the parent side granted for it
	w.mu.Lock()
	w.srvs[2].deleg["s.a.tld."].active = false
	w.mu.Unlock()
	h12 := int64(12 * time.Hour)
	capd := func(ttl uint32) int64 {
		d := int64(ttl) * sec
		if d > h12 {
			d = h12
		}
		return d
	}
	obsUp := h0
	if pr.warm {
		obsUp = w1
	}
	lease := obsUp + capd(pr.tTLD)
	if v := obsUp + capd(pr.tA); v < lease {
		lease = v
	}
	if v := h0 + capd(pr.tS); v < lease {
		lease = v
	}
	if d := lease + vC08Margin - p.now(); d > 0 {
		p.advance(time.Duration(d))
	}
	t4 := p.now()
	rc4, ok4 := p.askCtx(context.Background(), name, pr.wire)
	log4 := w.takeLog()
	childAsked := false
	for _, e := range log4 {
		if e.srv == 3 {
			childAsked = true
		}
	}
	if !ok4 {
		inconcl = true
	}
	goFail := ""
	if !inconcl && t4 >= lease && (childAsked || rc4 == dns.RcodeSuccess) {
		goFail = fmt.Sprintf("ghost: %s asked at t=%v, after the lease the parent side granted for s.a.tld. ended (%v) and a.tld. had withdrawn it: rcode=%d, former child asked=%v",
			name, time.Duration(t4), time.Duration(lease), rc4, childAsked)
	}
	warmTerm := "None"
	if pr.warm {
		warmTerm = fmt.Sprintf("(Some (%s%%Z, %s%%Z))", vC08Z(w0), vC08Z(w1))
	}
	kind := kindPrefix + []string{"nest-lookup-passes", "nest-lookup-aborts", "nest-lookup-slow"}[pr.mode]
	if pr.mode == 1 && !aborted {
		kind = kindPrefix + "nest-cancel-too-late"
	}
	m := map[string]any{
		"k": kind, "go_fail": goFail, "nontrivial": !inconcl && nprov > 0,
		"coq": fmt.Sprintf("CaseNest %d %d %d %d %s %s %s %s %s %s %s [%s] %s %s %s %s %s",
			pr.tTLD, pr.tA, pr.tS, nprov, warmTerm, vC08Z(t0), vC08Z(h0), vC08Z(h1), vC08Z(t1), vC08B(pr.mode == 1), vC08B(aborted),
			strings.Join(ds, "; "), ansTerm, nsTerm, vC08Z(t4), vC08B(rc4 == dns.RcodeNameError), vC08B(childAsked)),
		"desc": fmt.Sprintf("TTLs tld %d a.tld. %d s.a.tld. %d (ns0 glued, %d glue-less) warm=%v gap=%v mode=%d wire=%v: main tree [%v..%v], ns1 lookup at the child [%v..%v] (%d lookups), rcode=%d answered=%v aborted=%v; %v; %s; %s; withdrawn, lease end %v, asked again at t=%v: rcode=%d former child asked=%v",
			pr.tTLD, pr.tA, pr.tS, pr.bare, pr.warm, time.Duration(pr.gap), pr.mode, pr.wire, time.Duration(t0), time.Duration(t1), time.Duration(h0), time.Duration(h1), nLookups,
			rc, answered, aborted, dsDesc, ansDesc, nsDesc, time.Duration(lease), time.Duration(t4), rc4, childAsked),
	}
	if inconcl {
		m["inconclusive"] = true
		m["desc"] = m["desc"].(string) + " | inconclusive:" + why + fmt.Sprintf(" log=%v", log)
	}
	o.emit(m)
}

// vC08NestCorpus reads the fixed scenarios replayed before the generated ones
// ($VERIF_CORPUS/nest.json: minimal inputs of the seeded changes this driver caught).
func vC08NestCorpus(t *testing.T) []vC08NestParams {
	dir := os.Getenv("VERIF_CORPUS")
	if dir == "" {
		return nil
	}
	raw, err := os.ReadFile(filepath.Join(dir, "nest.json"))
	if err != nil {
		return nil
	}
	var items []struct {
		TLD, A, S uint32
		Bare      int
		Warm      bool
		GapS      int64
		Mode      int
		Wire      bool
	}
	if err := json.Unmarshal(raw, &items); err != nil {
		t.Fatalf("corpus nest.json: %v", err)
	}
	var out []vC08NestParams
	for _, it := range items {
		out = append(out, vC08NestParams{tTLD: it.TLD, tA: it.A, tS: it.S, bare: it.Bare, warm: it.Warm, gap: it.GapS * int64(time.Second), mode: it.Mode, wire: it.Wire})
	}
	return out
}

func TestVerifC08Nest(t *testing.T) {
	o := vC08Open(t)
	defer o.f.Close()
	seed := int64(vC08EnvInt("VERIF_SEED", 1))
	n := vC08EnvInt("VERIF_N", 60)
	r := rand.New(rand.NewSource(seed*32452843 + 11))
	w := &vC08World{}
	for _, z := range []string{".", "tld.", "a.tld.", "s.a.tld."} {
		w.start(t, z)
	}
	defer w.stopAll()
	for _, pr := range vC08NestCorpus(t) {
		vC08NestCase(t, o, w, pr, "corpus-")
	}
	const sec = int64(time.Second)
	for c := 0; c < n; c++ {
		pr := vC08NestParams{
			tTLD: []uint32{300, 3600, 172800}[r.Intn(3)],
			tA:   []uint32{2, 4, 10, 45, 59, 90, 3600, 43201}[r.Intn(8)],
			tS:   []uint32{4, 30, 61, 3600, 43200, 43201, 172800}[r.Intn(7)],
			bare: 1 + r.Intn(2),
			warm: r.Intn(2) == 0,
			wire: r.Intn(2) == 0,
		}
		switch x := r.Intn(12); {
		case x == 0:
			// held for 1.2 s of real time past a one-second ancestor lease (cold descent: the lease starts in this tree)
			pr.mode, pr.tA, pr.warm, pr.bare = 2, 1, false, 1
		case x < 7:
			pr.mode = 1
		}
		if pr.warm {
			// part of the ancestor lease (itself limited by tld.'s and the 12 h ceiling) has already run when
			// the nested referral is observed
			eff := int64(pr.tA)
			if int64(pr.tTLD) < eff {
				eff = int64(pr.tTLD)
			}
			if eff > 43200 {
				eff = 43200
			}
			switch {
			case eff >= 10 && r.Intn(2) == 0:
				pr.gap = eff * sec / 2
			case eff >= 45 && r.Intn(2) == 0:
				pr.gap = eff*sec - 5*sec
			}
		}
		vC08NestCase(t, o, w, pr, "")
	}
}
