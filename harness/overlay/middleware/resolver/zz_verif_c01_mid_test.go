//go:build verif

package resolver

// C01 driver M: the resolver's validation functions themselves — answer,
// authority, validateDelegation, verifyDNSSEC, findDS, isZoneSecure,
// provenInsecureDelegation — run on generated responses against a scripted
// environment: the DS / DNSKEY sub-queries are answered by a table behind the
// Store seam (middleware.Store), the DNAME leg by a table behind the Queryer
// seam. No sockets. The same table, abstracted, is the model's environment.
//
// The world is a small hierarchy . -> tld. -> zone.tld. -> sub.zone.tld. with
// secure / insecure / unsupported-DS / unproven cuts, real keys, real
// signatures, real DS digests; then zero or more tamperings of the response
// and of the environment.

import (
	"context"
	"encoding/json"
	"io"
	"path/filepath"
	"sort"
	"errors"
	"fmt"
	"math/rand"
	"os"
	"strings"
	"testing"
	"time"

	"github.com/miekg/dns"
	"github.com/semihalev/sdns/config"
	"github.com/semihalev/sdns/internal/dnsutil"
	"github.com/semihalev/sdns/middleware"
	"github.com/semihalev/sdns/middleware/resolver/dnssec"
	"github.com/semihalev/zlog/v2"
)

func vC01KeyTag(k *dns.DNSKEY) uint16 { return dnssec.KeyTag(k) }

var vC01ErrDname = errors.New("verif: dname leg failed")

func vC01ErrTerm(err error) string {
	switch {
	case errors.Is(err, vC01ErrDname):
		return "(EDnameLeg 98)"
	case strings.HasPrefix(err.Error(), "DNAME target resolution failed"):
		return "(EDnameLeg 2)"
	case errors.Is(err, dnssec.ErrNoDNSKEY):
		return "ENoDNSKEY"
	case errors.Is(err, dnssec.ErrMissingKSK):
		return "EMissingKSK"
	case errors.Is(err, dnssec.ErrFailedToConvertKSK):
		return "EFailedToConvertKSK"
	case errors.Is(err, dnssec.ErrMismatchingDS):
		return "EMismatchingDS"
	case errors.Is(err, dnssec.ErrNoSignatures):
		return "ENoSignatures"
	case errors.Is(err, dnssec.ErrMissingDNSKEY):
		return "EMissingDNSKEY"
	case errors.Is(err, dnssec.ErrInvalidSignaturePeriod):
		return "EInvalidSignaturePeriod"
	case errors.Is(err, dnssec.ErrMissingSigned):
		return "EMissingSigned"
	case errors.Is(err, dnssec.ErrDSRecords):
		return "EDSRecords"
	case errors.Is(err, dnssec.ErrTrustAnchorsUnavailable):
		return "ETrustAnchorsUnavailable"
	case errors.Is(err, dnssec.ErrWildcardNoDenial):
		return "EWildcardNoDenial"
	case errors.Is(err, dnssec.ErrNSECMissingCoverage):
		return "ENSECMissingCoverage"
	case errors.Is(err, dns.ErrAlg):
		return "EAlg"
	case errors.Is(err, dns.ErrSig):
		return "ESig"
	case errors.Is(err, ErrQuestion):
		return "EQuestion"
	case errors.Is(err, errNoRootServers):
		return "(ELookup 99)"
	case err.Error() == "DS RR set empty":
		return "EDSSetEmpty"
	case err.Error() == "DS or NSEC records not found":
		return "EDSNotFound"
	case strings.Contains(err.Error(), "bad rdata"):
		return "EPack"
	}
	code, _ := dnsutil.ErrorToEDE(err)
	return fmt.Sprintf("(EOracle %d)", code)
}

func vC01OptErr(err error) string {
	if err == nil {
		return "None"
	}
	return "(Some " + vC01ErrTerm(err) + ")"
}

// a reply that denies (NXDOMAIN, or NOERROR without data) and shows nothing: no SOA, no NSEC / NSEC3, no signature, no AD
func vC01BareDenial(m *dns.Msg) bool {
	return m != nil && (m.Rcode == dns.RcodeNameError || m.Rcode == dns.RcodeSuccess) && len(m.Answer) == 0 && len(m.Ns) == 0 && !m.AuthenticatedData
}

// ---- scripted Store / Queryer ----

type vC01Store struct{ tab map[string]*dns.Msg }

func vC01StoreKey(name string, qtype uint16, cd bool) string {
	return fmt.Sprintf("%s|%d|%v", strings.ToLower(name), qtype, cd)
}
func (s *vC01Store) Get(req *dns.Msg) (*dns.Msg, bool) {
	q := req.Question[0]
	m, ok := s.tab[vC01StoreKey(q.Name, q.Qtype, req.CheckingDisabled)]
	if !ok {
		return nil, false
	}
	return m.Copy(), true
}
func (s *vC01Store) SetFromResponse(*dns.Msg, bool, time.Time) {}

type vC01Queryer struct{ tab map[string]*dns.Msg }

func (q *vC01Queryer) Query(_ context.Context, req *dns.Msg) (*dns.Msg, error) {
	m, ok := q.tab[fmt.Sprintf("%s|%d", strings.ToLower(req.Question[0].Name), req.Question[0].Qtype)]
	if !ok {
		return nil, vC01ErrDname
	}
	return m.Copy(), nil
}

// ---- world ----

type vC01Zone struct {
	name     string
	parent   *vC01Zone
	signed   bool
	cut      string // how the parent delegates: "secure" | "insecure" | "unsupported" | "unproven" | "island"
	ksk, zsk *vC01Key
	nsec3    bool
	dt       uint8 // digest type of the DS the parent publishes for this zone (every type the validator supports is drawn)
}

type vC01World struct {
	w       *vC01W
	r       *rand.Rand
	now     uint32
	zones   []*vC01Zone // root first
	msgs    map[*dns.Msg]int
	order   []*dns.Msg
	ds      map[string]*dns.Msg // name|cd
	keys    map[string]*dns.Msg // zone
	dname   map[string]*dns.Msg
	anchors []*dns.DNSKEY
	notes   []string
	// ground truth
	tampered bool
}

func (x *vC01World) sub(l, zone string) string {
	if zone == "." {
		return l + "."
	}
	return l + "." + zone
}

func (x *vC01World) sign(z *vC01Zone, k *vC01Key, set ...dns.RR) []dns.RR {
	if !z.signed || k == nil {
		return set
	}
	s, err := x.w.sign(k, set, x.now-6*3600, x.now+6*3600)
	if err != nil {
		return set
	}
	return append(append([]dns.RR{}, set...), s)
}

func (x *vC01World) soa(z *vC01Zone) []dns.RR {
	return x.sign(z, z.zsk, &dns.SOA{Hdr: dns.RR_Header{Name: z.name, Rrtype: dns.TypeSOA, Class: dns.ClassINET, Ttl: 300}, Ns: "ns.", Mbox: "h.", Serial: 1, Refresh: 1, Retry: 1, Expire: 1, Minttl: 60})
}

// nsec at owner listing types; next is a name inside the zone
func (x *vC01World) nsec(z *vC01Zone, owner string, types ...uint16) []dns.RR {
	if !z.signed {
		return nil
	}
	if z.nsec3 {
		h := dns.HashName(owner, dns.SHA1, 0, "")
		n3 := &dns.NSEC3{Hdr: dns.RR_Header{Name: x.sub(h, z.name), Rrtype: dns.TypeNSEC3, Class: dns.ClassINET, Ttl: 60}, Hash: dns.SHA1, Flags: 0, Iterations: 0, SaltLength: 0, Salt: "", HashLength: 20,
			NextDomain: vC01HashPlus(h), TypeBitMap: types}
		return x.sign(z, z.zsk, n3)
	}
	return x.sign(z, z.zsk, &dns.NSEC{Hdr: dns.RR_Header{Name: owner, Rrtype: dns.TypeNSEC, Class: dns.ClassINET, Ttl: 60}, NextDomain: x.sub("zzz", z.name), TypeBitMap: types})
}

// vC01Siblings: two names just outside zone (its first label with the last octet one lower / one higher), so that
// every name at or below zone lies canonically between them
func vC01Siblings(zone string) (lo, hi string) {
	labels := dns.SplitDomainName(zone)
	if len(labels) == 0 {
		return "", ""
	}
	f := []byte(strings.ToLower(labels[0]))
	c := f[len(f)-1]
	if c <= 'a' || c >= 'z' {
		return "", ""
	}
	rest := strings.Join(labels[1:], ".") + "."
	if len(labels) == 1 {
		rest = ""
	}
	mk := func(b byte) string { return string(f[:len(f)-1]) + string(b) + "." + rest }
	return mk(c - 1), mk(c + 1)
}

func vC01HashMinus(h string) string {
	const alpha = "0123456789ABCDEFGHIJKLMNOPQRSTUV"
	b := []byte(strings.ToUpper(h))
	for i := len(b) - 1; i >= 0; i-- {
		v := strings.IndexByte(alpha, b[i])
		if v > 0 {
			b[i] = alpha[v-1]
			break
		}
		b[i] = 'V'
	}
	return string(b)
}

func vC01HashPlus(h string) string {
	const alpha = "0123456789ABCDEFGHIJKLMNOPQRSTUV"
	b := []byte(strings.ToUpper(h))
	for i := len(b) - 1; i >= 0; i-- {
		v := strings.IndexByte(alpha, b[i])
		if v < 31 {
			b[i] = alpha[v+1]
			break
		}
		b[i] = '0'
	}
	return string(b)
}

func (x *vC01World) reg(m *dns.Msg) *dns.Msg {
	if _, ok := x.msgs[m]; !ok {
		x.msgs[m] = len(x.msgs) + 1
		x.order = append(x.order, m)
	}
	return m
}

func (x *vC01World) newMsg(qname string, qtype uint16) *dns.Msg {
	m := new(dns.Msg)
	m.SetQuestion(qname, qtype)
	m.Response = true
	return x.reg(m)
}

// zoneOf: deepest zone containing name (for DS questions pass the parent side)
func (x *vC01World) zoneOf(name string, parentSide bool) *vC01Zone {
	var best *vC01Zone
	for _, z := range x.zones {
		if !dns.IsSubDomain(z.name, name) {
			continue
		}
		if parentSide && strings.EqualFold(z.name, name) && z.parent != nil {
			continue
		}
		if best == nil || dns.CountLabel(z.name) > dns.CountLabel(best.name) {
			best = z
		}
	}
	return best
}

func (x *vC01World) zoneNamed(name string) *vC01Zone {
	for _, z := range x.zones {
		if strings.EqualFold(z.name, name) {
			return z
		}
	}
	return nil
}

// dsMsg: what the parent side answers for "name DS"
func (x *vC01World) dsMsg(name string) *dns.Msg {
	m := x.newMsg(name, dns.TypeDS)
	p := x.zoneOf(name, true)
	child := x.zoneNamed(name)
	// the table stands for what the store holds under CD=0: the sub-query's own validation authenticated this answer
	// exactly when the zone that gave it is signed and every cut above it is a secure one
	m.AuthenticatedData = p != nil && p.signed && !x.insecureAbove(p)
	if child != nil && child.parent != nil {
		switch child.cut {
		case "secure", "island":
			ds := x.w.ds(child.ksk.key, child.dt)
			m.Answer = x.sign(p, p.zsk, ds)
			return m
		case "unsupported":
			ds := x.w.ds(child.ksk.key, dns.SHA256)
			ds.DigestType = 3
			m.Answer = x.sign(p, p.zsk, ds)
			return m
		case "insecure":
			m.Ns = append(x.soa(p), x.nsec(p, name, dns.TypeNS, dns.TypeRRSIG, dns.TypeNSEC)...)
			return m
		default: // unproven: NODATA without a denial
			m.Ns = x.soa(p)
			m.AuthenticatedData = false
			return m
		}
	}
	// not a cut: NODATA from the zone holding the name
	m.Ns = append(x.soa(p), x.nsec(p, name, dns.TypeA, dns.TypeRRSIG, dns.TypeNSEC)...)
	return m
}

func (x *vC01World) keyMsg(z *vC01Zone) *dns.Msg {
	m := x.newMsg(z.name, dns.TypeDNSKEY)
	if !z.signed {
		m.Ns = x.soa(z)
		return m
	}
	m.Answer = x.sign(z, z.ksk, z.ksk.key, z.zsk.key)
	return m
}

func vC01NewWorld(r *rand.Rand) *vC01World {
	x := &vC01World{w: vC01NewW(r), r: r, now: uint32(time.Now().Unix()), msgs: map[*dns.Msg]int{}, ds: map[string]*dns.Msg{}, keys: map[string]*dns.Msg{}, dname: map[string]*dns.Msg{}}
	names := []string{".", "tld.", "zone.tld.", "sub.zone.tld."}
	depth := 2 + r.Intn(3)
	if vC01F != nil {
		depth = vC01F.Depth
	}
	var parent *vC01Zone
	for i := 0; i < depth; i++ {
		z := &vC01Zone{name: names[i], parent: parent, signed: true, cut: "secure"}
		if i > 0 {
			switch r.Intn(12) {
			case 0, 1:
				z.cut, z.signed = "insecure", r.Intn(3) == 0
			case 2:
				z.cut = "unsupported"
			case 3:
				z.cut, z.signed = "unproven", r.Intn(2) == 0
			}
			if vC01F != nil && i-1 < len(vC01F.Cuts) {
				z.cut = vC01F.Cuts[i-1]
				z.signed = z.cut == "secure" || z.cut == "unsupported"
			}
			if !parent.signed || x.insecureAbove(parent) {
				// below an insecure cut nothing is authenticated; a signed zone here is an island
				if z.signed {
					z.cut = "island"
				} else {
					z.cut = "unproven"
				}
			}
		}
		if z.signed {
			alg := []uint8{dns.ED25519, dns.ED25519, dns.ECDSAP256SHA256}[r.Intn(3)]
			z.ksk, z.zsk = x.w.newKey(z.name, 257, alg), x.w.newKey(z.name, 256, dns.ED25519)
			z.nsec3 = r.Intn(5) == 0
			z.dt = []uint8{dns.SHA256, dns.SHA256, dns.SHA384, dns.SHA1}[r.Intn(4)]
		}
		x.zones = append(x.zones, z)
		parent = z
	}
	x.anchors = []*dns.DNSKEY{x.zones[0].ksk.key}
	return x
}

// insecureAbove: some cut from the root down to z (inclusive) is not a secure one
func (x *vC01World) insecureAbove(z *vC01Zone) bool {
	for c := z; c != nil && c.parent != nil; c = c.parent {
		if c.cut != "secure" {
			return true
		}
	}
	return false
}

// fill the environment: DS answers for every suffix of qname, DNSKEY for every zone
func (x *vC01World) fillEnv(qname string) {
	labels := dns.SplitDomainName(qname)
	for i := len(labels) - 1; i >= 0; i-- {
		n := strings.Join(labels[i:], ".") + "."
		m := x.dsMsg(n)
		x.ds[vC01StoreKey(n, dns.TypeDS, false)] = m
		x.ds[vC01StoreKey(n, dns.TypeDS, true)] = m
	}
	for _, z := range x.zones {
		x.keys[strings.ToLower(z.name)] = x.keyMsg(z)
	}
}

func (x *vC01World) dsOf(z *vC01Zone) []dns.RR {
	if z.parent == nil {
		return nil
	}
	m := x.ds[vC01StoreKey(z.name, dns.TypeDS, false)]
	if m == nil {
		return nil
	}
	return dnsutil.ExtractRRSet(m.Answer, z.name, dns.TypeDS)
}

// ---- abstraction of the environment ----

func (x *vC01World) coqMsg(m *dns.Msg, rk vC01Ranks) string {
	q := m.Question[0]
	return fmt.Sprintf("(mk_msg %d %s %d %d %s %s %s)", x.msgs[m], x.w.name(q.Name), q.Qtype, m.Rcode, x.w.coqRRs(m.Answer, rk), x.w.coqRRs(m.Ns, rk), vC01Bool(m.AuthenticatedData))
}

func (x *vC01World) allRR(extra ...*dns.Msg) [][]dns.RR {
	var l [][]dns.RR
	for _, m := range append(append([]*dns.Msg{}, x.order...), extra...) {
		l = append(l, m.Answer, m.Ns)
	}
	return l
}

// oracle entries: what the real denial verifiers say about message m for (subject, signer)
func (x *vC01World) orcEntries(r *Resolver, m *dns.Msg, subject string, signers []string, negative bool) []string {
	var out []string
	ctx := context.Background()
	for _, s := range signers {
		nsec3 := dnsutil.FilterRRsToZone(dnsutil.ExtractRRSet(m.Ns, "", dns.TypeNSEC3), s)
		nsec := dnsutil.FilterRRsToZone(dnsutil.ExtractRRSet(m.Ns, "", dns.TypeNSEC), s)
		emit := func(kind int, err error, secure bool) {
			res := "OOk " + vC01Bool(secure)
			if err != nil {
				res = "OErr " + vC01ErrTerm(err)
			}
			out = append(out, fmt.Sprintf("(%d,%d,%s,%s,%s)", kind, x.msgs[m], x.w.name(subject), x.w.name(s), res))
		}
		if len(nsec3) > 0 {
			emit(1, dnssec.VerifyDelegationForZoneWithWork(subject, s, nsec3, r.dnssecWork(ctx)), true)
			if negative {
				if m.Rcode == dns.RcodeNameError {
					sec, err := dnssec.VerifyNameErrorForZoneWithWork(m, nsec3, s, r.dnssecWork(ctx))
					emit(3, err, sec)
				} else {
					sec, err := dnssec.VerifyNODATAForZoneWithWork(m, nsec3, s, r.dnssecWork(ctx))
					emit(4, err, sec)
				}
			}
		}
		if len(nsec) > 0 {
			emit(2, dnssec.VerifyDelegationNSEC(subject, nsec), true)
			if negative {
				if m.Rcode == dns.RcodeNameError {
					emit(5, dnssec.VerifyNameErrorNSEC(m, nsec), true)
				} else {
					emit(6, dnssec.VerifyNODATANSEC(m, nsec), true)
				}
			}
		}
	}
	return out
}

// wildcard oracle: the exported verifier on a one-signature message, once for each authority section it could be
// shown — the records inside the signer's zone (what answer() hands it) and the section as received. The entry is
// keyed by the (type, rdata id) list of the NSEC/NSEC3 records shown, so the MODEL decides which of the two is asked.
func (x *vC01World) wildEntries(r *Resolver, m *dns.Msg, signers []string) []string {
	var out []string
	view := func(ns []dns.RR) string {
		var v []string
		for _, rr := range ns {
			if t := rr.Header().Rrtype; t == dns.TypeNSEC || t == dns.TypeNSEC3 {
				v = append(v, fmt.Sprintf("(%d,%d)", t, x.w.rid(rr)))
			}
		}
		return "[" + strings.Join(v, ";") + "]"
	}
	for _, s := range signers {
		sections := [][]dns.RR{dnsutil.FilterRRsToZone(m.Ns, s)}
		if view(m.Ns) != view(sections[0]) {
			sections = append(sections, m.Ns)
		}
		for _, ns := range sections {
			for _, rr := range m.Answer {
				sig, ok := rr.(*dns.RRSIG)
				if !ok || int(sig.Labels) >= dns.CountLabel(sig.Hdr.Name) {
					continue
				}
				labels := dns.SplitDomainName(sig.Hdr.Name)
				nc := strings.Join(labels[len(labels)-int(sig.Labels)-1:], ".") + "."
				one := new(dns.Msg)
				one.Question = m.Question
				one.Answer = []dns.RR{sig}
				one.Ns = ns
				secure, err := dnssec.VerifyWildcardAnswerForZoneWithWork(one, s, r.dnssecWork(context.Background()))
				res := fmt.Sprintf("WRes true %s", vC01Bool(secure))
				if errors.Is(err, dnssec.ErrWildcardNoDenial) {
					res = "WRes false false"
				} else if err != nil {
					res = "WErr " + vC01ErrTerm(err)
				}
				out = append(out, fmt.Sprintf("(%d,%s,%s,%s,%s)", x.msgs[m], view(ns), x.w.name(nc), x.w.name(s), res))
			}
		}
	}
	return out
}

func (x *vC01World) zoneNames() []string {
	var l []string
	for _, z := range x.zones {
		l = append(l, z.name)
	}
	return l
}

// coqEnv renders the environment; resp is the message under validation (oracles are asked about it too)
func (x *vC01World) coqEnv(r *Resolver, rk vC01Ranks, resp *dns.Msg, subject string, negative bool) string {
	var dsT, keyT, dnT, orc, wild []string
	signers := x.zoneNames()
	seenDS := map[string]bool{}
	for _, m := range x.order {
		q := m.Question[0]
		if q.Qtype == dns.TypeDS {
			for _, cd := range []bool{false, true} {
				if x.ds[vC01StoreKey(q.Name, dns.TypeDS, cd)] == m && !seenDS[vC01StoreKey(q.Name, dns.TypeDS, cd)] {
					seenDS[vC01StoreKey(q.Name, dns.TypeDS, cd)] = true
					dsT = append(dsT, fmt.Sprintf("(%s,%s,LMsg m%d)", x.w.name(q.Name), vC01Bool(cd), x.msgs[m]))
				}
			}
			orc = append(orc, x.orcEntries(r, m, q.Name, signers, false)...)
		}
		if q.Qtype == dns.TypeDNSKEY && x.keys[strings.ToLower(q.Name)] == m {
			keyT = append(keyT, fmt.Sprintf("(%s,LMsg m%d)", x.w.name(q.Name), x.msgs[m]))
		}
	}
	for k, m := range x.dname {
		parts := strings.Split(k, "|")
		dnT = append(dnT, fmt.Sprintf("(%s,%s,LMsg m%d)", x.w.name(parts[0]), parts[1], x.msgs[m]))
	}
	if resp != nil {
		orc = append(orc, x.orcEntries(r, resp, subject, signers, negative)...)
		wild = append(wild, x.wildEntries(r, resp, signers)...)
	}
	var lets []string
	for _, m := range x.order {
		if m == resp {
			continue
		}
		lets = append(lets, fmt.Sprintf("let m%d := %s in ", x.msgs[m], x.coqMsg(m, rk)))
	}
	env := fmt.Sprintf("(mk_envd %s %d true %s [%s] [%s] [%s] [%s] [%s])", x.w.namesSorted(), time.Now().Unix(), x.w.coqKeys(x.anchors),
		strings.Join(dsT, ";"), strings.Join(keyT, ";"), strings.Join(dnT, ";"), strings.Join(orc, ";"), strings.Join(wild, ";"))
	return strings.Join(lets, "") + "let E := " + env + " in "
}

func (x *vC01World) install(r *Resolver) {
	var st middleware.Store = &vC01Store{tab: map[string]*dns.Msg{}}
	for k, m := range x.ds {
		st.(*vC01Store).tab[k] = m
	}
	for zn, m := range x.keys {
		st.(*vC01Store).tab[vC01StoreKey(zn, dns.TypeDNSKEY, false)] = m
	}
	r.store.Store(&st)
	var q middleware.Queryer = &vC01Queryer{tab: x.dname}
	r.queryer.Store(&q)
	var rk []dns.RR
	for _, k := range x.anchors {
		rk = append(rk, k)
	}
	r.Lock()
	r.rootKeys = rk
	r.Unlock()
}

func vC01Pairs(w *vC01W, l []dns.RR) string {
	var s []string
	for _, rr := range l {
		id, known := w.rdata[vC01Rdata(rr)]
		if !known {
			id = 0 // a record the resolver made itself (DS of a trust anchor)
		}
		s = append(s, fmt.Sprintf("(%d,%d)", rr.Header().Rrtype, id))
	}
	return "[" + strings.Join(s, ";") + "]"
}

func vC01Obs(w *vC01W, m *dns.Msg, err error) string {
	if err != nil {
		return "(OFail " + vC01ErrTerm(err) + ")"
	}
	return fmt.Sprintf("(OAccept %s %d %s %s)", vC01Bool(m.AuthenticatedData), m.Rcode, vC01Pairs(w, m.Answer), vC01Pairs(w, m.Ns))
}

// ---- tampering of a message by an attacker who owns no zone key ----

type vC01Attacker struct {
	keys map[string]*vC01Key // zone -> key pair claiming that zone's name
}

func (x *vC01World) attackerKey(a *vC01Attacker, zone string, flags uint16) *vC01Key {
	k := zone + fmt.Sprint(flags)
	if a.keys[k] == nil {
		a.keys[k] = x.w.newKey(zone, flags, dns.ED25519)
	}
	return a.keys[k]
}

func vC01StripSigs(l []dns.RR) []dns.RR {
	var out []dns.RR
	for _, rr := range l {
		if rr.Header().Rrtype != dns.TypeRRSIG {
			out = append(out, rr)
		}
	}
	return out
}

// resignAll replaces every signature in l by one made with k over the RRset as it stands
func (x *vC01World) resignAll(l []dns.RR, k *vC01Key, inc, exp uint32) []dns.RR {
	plain := vC01StripSigs(l)
	type gk struct {
		n string
		t uint16
	}
	groups := map[gk][]dns.RR{}
	var order []gk
	for _, rr := range plain {
		g := gk{strings.ToLower(rr.Header().Name), rr.Header().Rrtype}
		if _, ok := groups[g]; !ok {
			order = append(order, g)
		}
		groups[g] = append(groups[g], rr)
	}
	out := plain
	for _, g := range order {
		if g.t == dns.TypeNS && !strings.EqualFold(g.n, k.key.Hdr.Name) {
			continue
		}
		if s, err := x.w.sign(k, groups[g], inc, exp); err == nil {
			out = append(out, s)
		}
	}
	return out
}

func TestVerifC01Mid(t *testing.T) {
	tr := vC01Open(t)
	seed := int64(vC01EnvInt("VERIF_SEED", 1))
	n := vC01EnvInt("VERIF_N", 300)
	rnd := rand.New(rand.NewSource(seed*104729 + 7))
	vC01Quiet()
	cfg := new(config.Config)
	cfg.RootServers = []string{"192.0.2.1:53"}
	cfg.DNSSEC = "on"
	cfg.Directory = os.Getenv("VERIF_SCRATCH")
	cfg.Maxdepth = 30
	res := NewResolver(cfg)
	res.rootServers = nil // a sub-query the table does not answer fails at once (errNoRootServers)
	vC01KSKPool = vC01BuildPool(rand.New(rand.NewSource(seed+9)), 1500, 257)
	// corpus first: scenario classes of the findings and seeded changes this check caught
	if dir := os.Getenv("VERIF_CORPUS"); dir != "" {
		files, _ := filepath.Glob(filepath.Join(dir, "mid-*.json"))
		sort.Strings(files)
		for _, fn := range files {
			raw, err := os.ReadFile(fn)
			if err != nil {
				continue
			}
			f := new(vC01Force)
			if json.Unmarshal(raw, f) != nil || f.Depth < 2 {
				continue
			}
			vC01F = f
			cr := rand.New(rand.NewSource(42))
			for j := 0; j < 3; j++ {
				vC01MidCase(cr, res, tr)
			}
			vC01F = nil
		}
	}
	for i := 0; i < n; i++ {
		vC01MidCase(rnd, res, tr)
	}
}

// vC01Force pins the choices that define a corpus scenario; everything else stays drawn from the PRNG
type vC01Force struct {
	Depth     int      // number of zones incl. the root
	Cuts      []string // how each non-root zone is delegated ("secure", "insecure", ...); unsigned when "insecure"/"unproven"
	Mode      int      // 0 positive, 5 negative, 9 referral
	Shape     int      // positive answer shape (2 = plain A)
	Tampers   []int    // tamper kinds, in order
	Companion bool     // repeat the call with the trust set emptied
	Variant   string   // verifyDNSSEC-on-own-DNSKEY-answer variant ("" = none)
	NoDenial  bool     // shape 0: the wildcard expansion comes without the zone's own next-closer denial
	Pad       int      // shape 0: authority padding (0 none, 3 foreign NSEC, 4 parent-signed, 5 foreign NSEC3, 6 straddling)
}

var vC01F *vC01Force

// pairs of Ed25519 seeds whose flags-257 DNSKEY RDATA share one key tag (found by search)
var vC01KSKPool *vC01Pool

func vC01MidCase(rnd *rand.Rand, r *Resolver, tr *vC01Trace) {
	x := vC01NewWorld(rnd)
	att := &vC01Attacker{keys: map[string]*vC01Key{}}
	deep := x.zones[len(x.zones)-1]
	// the zone that answers and the name asked
	z := deep
	qname := x.sub("www", z.name)
	if rnd.Intn(6) == 0 {
		qname = z.name
	}
	x.fillEnv(qname)
	inc, exp := x.now-6*3600, x.now+6*3600
	var kinds []string
	kinds = append(kinds, fmt.Sprintf("depth%d", len(x.zones)))
	for _, zz := range x.zones[1:] {
		kinds = append(kinds, zz.cut)
	}

	// ground truth about the chain
	chainSecure := !x.insecureAbove(z) && z.signed

	// arguments the descent would hand to the validator
	parentDS := x.dsOf(z)
	zoneArg := z.name
	shared := false
	if len(x.zones) >= 3 && rnd.Intn(4) == 0 && vC01F == nil {
		// one server authoritative for an ancestor and for z: no referral crossed, so the
		// resolver still holds the ancestor's DS and zone
		anc := x.zones[len(x.zones)-2-rnd.Intn(len(x.zones)-2)]
		if anc != z {
			parentDS, zoneArg, shared = x.dsOf(anc), anc.name, true
			kinds = append(kinds, "shared-server")
		}
	}
	if z.parent != nil && z.cut != "secure" && !shared {
		// what validateDelegation leaves behind an insecure / unsupported cut
		if z.cut == "unsupported" {
			parentDS = x.dsOf(z)
		} else {
			parentDS = nil
		}
	}
	if !shared && x.insecureAbove(z) && z.cut == "island" {
		parentDS = nil
	}

	cd := rnd.Intn(10) == 0
	mode := rnd.Intn(10)
	if vC01F != nil {
		cd, mode = false, vC01F.Mode
	}
	var resp *dns.Msg
	genuine := true
	negative := false
	wildNoDenial := false // a wildcard expansion that arrives without the zone's own next-closer denial
	switch {
	case mode < 5: // positive answer
		resp = x.newMsg(qname, dns.TypeA)
		shape := rnd.Intn(5)
		if vC01F != nil {
			shape = vC01F.Shape
		}
		switch shape {
		case 0: // wildcard expansion with its next-closer denial
			if z.signed && qname != z.name {
				set := []dns.RR{&dns.A{Hdr: dns.RR_Header{Name: x.sub("*", z.name), Rrtype: dns.TypeA, Class: dns.ClassINET, Ttl: 300}, A: []byte{192, 0, 2, 7}}}
				l := x.sign(z, z.zsk, set...)
				for _, rr := range l {
					rr.Header().Name = qname
				}
				resp.Answer = l
				if rnd.Intn(4) != 0 && (vC01F == nil || !vC01F.NoDenial) {
					resp.Ns = x.nsec(z, z.name, dns.TypeSOA, dns.TypeRRSIG, dns.TypeNSEC)
				} else {
					kinds = append(kinds, "wildcard-no-denial")
					wildNoDenial = true
				}
				// authority padding that is NOT the zone's own denial: records owned outside the answering zone whose span
				// covers the next closer name (unsigned, signed by the parent, hashed), or an in-zone owner whose next
				// name points out of the zone. None of them may count as the RFC 4035 5.3.4 proof.
				pad := rnd.Intn(7)
				if vC01F != nil {
					pad = vC01F.Pad
				}
				if lo, hi := vC01Siblings(z.name); lo != "" && pad >= 3 {
					var extra []dns.RR
					span := &dns.NSEC{Hdr: dns.RR_Header{Name: lo, Rrtype: dns.TypeNSEC, Class: dns.ClassINET, Ttl: 60}, NextDomain: hi, TypeBitMap: []uint16{dns.TypeA, dns.TypeRRSIG, dns.TypeNSEC}}
					switch pad {
					case 3:
						extra = []dns.RR{span}
						kinds = append(kinds, "pad:foreign-nsec")
					case 4:
						if p := z.parent; p != nil && p.signed && dns.IsSubDomain(p.name, lo) {
							extra = x.sign(p, p.zsk, span)
						} else {
							extra = []dns.RR{span}
						}
						kinds = append(kinds, "pad:foreign-nsec-parent-signed")
					case 5:
						h := dns.HashName(qname, dns.SHA1, 0, "")
						extra = []dns.RR{&dns.NSEC3{Hdr: dns.RR_Header{Name: vC01HashMinus(h) + "." + lo, Rrtype: dns.TypeNSEC3, Class: dns.ClassINET, Ttl: 60}, Hash: dns.SHA1, Flags: 0, Iterations: 0, SaltLength: 0, Salt: "", HashLength: 20,
							NextDomain: vC01HashPlus(h), TypeBitMap: []uint16{dns.TypeA, dns.TypeRRSIG}}}
						kinds = append(kinds, "pad:foreign-nsec3")
					default:
						st := dns.Copy(span).(*dns.NSEC)
						st.Hdr.Name = x.sub("a", z.name)
						extra = []dns.RR{st}
						kinds = append(kinds, "pad:straddling-nsec")
					}
					if rnd.Intn(2) == 0 {
						resp.Ns = append(extra, resp.Ns...)
					} else {
						resp.Ns = append(resp.Ns, extra...)
					}
				}
				kinds = append(kinds, "wildcard")
				break
			}
			fallthrough
		case 1: // DNAME + synthesised CNAME + target leg
			if qname != z.name {
				d := &dns.DNAME{Hdr: dns.RR_Header{Name: z.name, Rrtype: dns.TypeDNAME, Class: dns.ClassINET, Ttl: 300}, Target: "t.other."}
				resp.Answer = x.sign(z, z.zsk, d)
				resp.Answer = append(resp.Answer, &dns.CNAME{Hdr: dns.RR_Header{Name: qname, Rrtype: dns.TypeCNAME, Class: dns.ClassINET, Ttl: 300}, Target: "www.t.other."})
				tm := x.newMsg("www.t.other.", dns.TypeA)
				tm.AuthenticatedData = rnd.Intn(2) == 0
				switch rnd.Intn(5) {
				case 4: // the target leg failed in its own resolution: a SERVFAIL message carrying the reason as an Extended DNS Error
					tm.Rcode = dns.RcodeServerFailure
					tm.AuthenticatedData = false
					tm.SetEdns0(dnsutil.DefaultMsgSize, true)
					dnsutil.SetEDE(tm, dns.ExtendedErrorCodeDNSBogus, "RRsets covered by RRSIG are missing")
					kinds = append(kinds, "dname-leg-servfail")
				case 0:
					tm.Rcode = dns.RcodeNameError
					tm.Ns = []dns.RR{&dns.SOA{Hdr: dns.RR_Header{Name: "other.", Rrtype: dns.TypeSOA, Class: dns.ClassINET, Ttl: 60}, Ns: "n.", Mbox: "m."}}
				case 1:
					tm.Ns = []dns.RR{&dns.SOA{Hdr: dns.RR_Header{Name: "other.", Rrtype: dns.TypeSOA, Class: dns.ClassINET, Ttl: 60}, Ns: "n.", Mbox: "m."}}
				default:
					tm.Answer = []dns.RR{&dns.A{Hdr: dns.RR_Header{Name: "www.t.other.", Rrtype: dns.TypeA, Class: dns.ClassINET, Ttl: 60}, A: []byte{198, 51, 100, 1}}}
				}
				if rnd.Intn(6) != 0 {
					x.dname["www.t.other.|1"] = tm
				} else {
					kinds = append(kinds, "dname-leg-fails")
				}
				kinds = append(kinds, "dname")
				break
			}
			fallthrough
		default:
			nrec := 1 + rnd.Intn(2)
			var set []dns.RR
			for j := 0; j < nrec; j++ {
				set = append(set, &dns.A{Hdr: dns.RR_Header{Name: qname, Rrtype: dns.TypeA, Class: dns.ClassINET, Ttl: 300}, A: []byte{192, 0, 2, byte(10 + j)}})
			}
			resp.Answer = x.sign(z, z.zsk, set...)
			if rnd.Intn(3) == 0 {
				resp.Ns = append(resp.Ns, &dns.NS{Hdr: dns.RR_Header{Name: z.name, Rrtype: dns.TypeNS, Class: dns.ClassINET, Ttl: 300}, Ns: "ns1.example."})
			}
			kinds = append(kinds, "a")
		}
	}
	// foreign padding on ANY positive shape (plain, DNAME with its leg, wildcard): records owned just outside the answering
	// zone — an unsigned span, or one the parent genuinely signed (so the padding holds an RRSIG too) — in front of or behind
	// the authority section. answer_foreign_padding_general: the verdict, the AD bit and the answer must be what they are without it.
	if lo, hi := vC01Siblings(z.name); mode < 5 && resp != nil && lo != "" && rnd.Intn(5) == 0 && vC01F == nil {
		span := &dns.NSEC{Hdr: dns.RR_Header{Name: lo, Rrtype: dns.TypeNSEC, Class: dns.ClassINET, Ttl: 60}, NextDomain: hi, TypeBitMap: []uint16{dns.TypeA, dns.TypeRRSIG, dns.TypeNSEC}}
		extra := []dns.RR{span}
		if p := z.parent; p != nil && p.signed && dns.IsSubDomain(p.name, lo) && rnd.Intn(2) == 0 {
			extra = x.sign(p, p.zsk, span)
		}
		if rnd.Intn(2) == 0 {
			resp.Ns = append(extra, resp.Ns...)
		} else {
			resp.Ns = append(resp.Ns, extra...)
		}
		kinds = append(kinds, "pad:any-shape")
	}
	switch {
	case mode < 5:
	case mode < 8: // negative answer
		negative = true
		resp = x.newMsg(qname, dns.TypeA)
		if rnd.Intn(2) == 0 {
			qname = x.sub("nx", z.name)
			resp.Question[0].Name = qname
			resp.Rcode = dns.RcodeNameError
			resp.Ns = append(x.soa(z), x.nsec(z, z.name, dns.TypeSOA, dns.TypeRRSIG, dns.TypeNSEC)...)
			kinds = append(kinds, "nxdomain")
		} else {
			resp.Question[0].Qtype = dns.TypeAAAA
			resp.Ns = append(x.soa(z), x.nsec(z, qname, dns.TypeA, dns.TypeRRSIG, dns.TypeNSEC)...)
			kinds = append(kinds, "nodata")
		}
		if rnd.Intn(6) == 0 {
			var keep []dns.RR
			for _, rr := range resp.Ns {
				if t := rr.Header().Rrtype; t != dns.TypeNSEC && t != dns.TypeNSEC3 {
					if s, ok := rr.(*dns.RRSIG); ok && (s.TypeCovered == dns.TypeNSEC || s.TypeCovered == dns.TypeNSEC3) {
						continue
					}
					keep = append(keep, rr)
				}
			}
			resp.Ns = keep
			genuine = false
			kinds = append(kinds, "denial-dropped")
		}
	default: // referral from z's parent toward z (validateDelegation)
		if z.parent == nil {
			return
		}
		resp = x.newMsg(qname, dns.TypeA)
		p := z.parent
		resp.Ns = []dns.RR{&dns.NS{Hdr: dns.RR_Header{Name: z.name, Rrtype: dns.TypeNS, Class: dns.ClassINET, Ttl: 300}, Ns: x.sub("ns", z.name)}}
		switch z.cut {
		case "secure", "island":
			resp.Ns = append(resp.Ns, x.sign(p, p.zsk, x.w.ds(z.ksk.key, z.dt))...)
		case "unsupported":
			ds := x.w.ds(z.ksk.key, dns.SHA256)
			ds.DigestType = 3
			resp.Ns = append(resp.Ns, x.sign(p, p.zsk, ds)...)
		case "insecure":
			resp.Ns = append(resp.Ns, x.nsec(p, z.name, dns.TypeNS, dns.TypeRRSIG, dns.TypeNSEC)...)
		}
		kinds = append(kinds, "referral")
		mode = 9
		if !shared {
			// the referral is validated with what the descent holds for the PARENT
			parentDS, zoneArg = x.dsOf(p), p.name
			if p.parent != nil && p.cut != "secure" && p.cut != "unsupported" {
				parentDS = nil
			}
		}
	}
	if resp.Question[0].Name != qname {
		resp.Question[0].Name = qname
	}

	// ---- tampering ----
	tampers := []int{0, 0, 0, 1, 1, 2}[rnd.Intn(6)]
	if vC01F != nil {
		tampers = len(vC01F.Tampers)
	}
	for i := 0; i < tampers; i++ {
		tk := []int{0, 1, 1, 2, 3, 4, 4, 4, 5, 6, 7, 8, 9, 10, 11, 12, 13, 13, 13, 13}[rnd.Intn(20)]
		if vC01F != nil {
			tk = vC01F.Tampers[i]
		}
		switch tk {
		case 0: // forged data signed by a key that merely claims the zone's name
			if z.signed {
				ak := x.attackerKey(att, z.name, 256)
				for _, rr := range resp.Answer {
					if a, ok := rr.(*dns.A); ok {
						a.A = []byte{203, 0, 113, 66}
					}
				}
				resp.Answer = x.resignAll(resp.Answer, ak, inc, exp)
				resp.Ns = x.resignAll(resp.Ns, ak, inc, exp)
				genuine = false
				kinds = append(kinds, "t:forged-untrusted-key")
			}
		case 1: // attacker key added to the DNSKEY RRset, RRset re-signed by it, data signed by it
			if z.signed && mode < 5 {
				ak := x.attackerKey(att, z.name, 256)
				km := x.keys[strings.ToLower(z.name)]
				if km == nil {
					break
				}
				nk := x.newMsg(z.name, dns.TypeDNSKEY)
				set := append(vC01StripSigs(km.Answer), ak.key)
				if s, err := x.w.sign(ak, set, inc, exp); err == nil {
					nk.Answer = append(set, s)
					x.keys[strings.ToLower(z.name)] = nk
					for _, rr := range resp.Answer {
						if a, ok := rr.(*dns.A); ok {
							a.A = []byte{203, 0, 113, 10}
						}
					}
					resp.Answer = x.resignAll(resp.Answer, ak, inc, exp)
					resp.Ns = x.resignAll(resp.Ns, ak, inc, exp)
					genuine = false
					x.tampered = true // since d62d15b the recursion refuses to store such a DNSKEY answer
					kinds = append(kinds, "t:dnskey-rrset-extra-key")
				}
			}
		case 2: // DS replaced by the attacker's, unsigned; DNSKEY replaced; data forged
			if z.parent != nil && z.signed {
				ak := x.attackerKey(att, z.name, 257)
				dm := x.newMsg(z.name, dns.TypeDS)
				dm.Answer = []dns.RR{x.w.ds(ak.key, dns.SHA256)}
				x.ds[vC01StoreKey(z.name, dns.TypeDS, false)] = dm
				x.ds[vC01StoreKey(z.name, dns.TypeDS, true)] = dm
				nk := x.newMsg(z.name, dns.TypeDNSKEY)
				nk.Answer = x.resignAll([]dns.RR{ak.key}, ak, inc, exp)
				x.keys[strings.ToLower(z.name)] = nk
				resp.Answer = x.resignAll(resp.Answer, ak, inc, exp)
				resp.Ns = x.resignAll(resp.Ns, ak, inc, exp)
				genuine = false
				x.tampered = true
				kinds = append(kinds, "t:ds-swapped-unsigned")
			}
		case 3: // every signature stripped from the response
			resp.Answer, resp.Ns = vC01StripSigs(resp.Answer), vC01StripSigs(resp.Ns)
			genuine = genuine && !z.signed
			kinds = append(kinds, "t:strip-sigs")
		case 4: // signer name rewritten
			for _, rr := range append(append([]dns.RR{}, resp.Answer...), resp.Ns...) {
				if s, ok := rr.(*dns.RRSIG); ok {
					for {
						s.SignerName = []string{x.sub("evil", z.name), x.sub("evil", z.name), "tld.", ".", qname, "a." + qname, "other.", "evil."}[rnd.Intn(8)]
						if !strings.EqualFold(s.SignerName, z.name) {
							break
						}
					}
					// the parent side has something to say about that name: no DS, with a denial
					fake := s.SignerName
					if x.ds[vC01StoreKey(fake, dns.TypeDS, false)] == nil && rnd.Intn(2) == 0 {
						dm := x.dsMsg(fake)
						x.ds[vC01StoreKey(fake, dns.TypeDS, false)] = dm
						x.ds[vC01StoreKey(fake, dns.TypeDS, true)] = dm
					}
					genuine = false
				}
			}
			kinds = append(kinds, "t:signer-name")
		case 5: // signatures expired
			if z.signed {
				resp.Answer = x.resignAll(resp.Answer, z.zsk, x.now-48*3600, x.now-24*3600)
				resp.Ns = x.resignAll(resp.Ns, z.zsk, x.now-48*3600, x.now-24*3600)
				genuine = false
				kinds = append(kinds, "t:expired")
			}
		case 6: // garbage RRSIG with an ancestor signer ahead of the real one
			for _, rr := range resp.Answer {
				if s, ok := rr.(*dns.RRSIG); ok {
					g := dns.Copy(s).(*dns.RRSIG)
					g.SignerName = []string{".", "tld."}[rnd.Intn(2)]
					g.Signature = vC01FlipSig(rnd, g.Signature)
					resp.Answer = append([]dns.RR{g}, resp.Answer...)
					kinds = append(kinds, "t:junk-sig-ancestor")
					break
				}
			}
		case 7: // foreign RRset injected
			f := &dns.A{Hdr: dns.RR_Header{Name: "www.elsewhere.", Rrtype: dns.TypeA, Class: dns.ClassINET, Ttl: 60}, A: []byte{203, 0, 113, 99}}
			if rnd.Intn(2) == 0 {
				resp.Answer = append(resp.Answer, f) // dropped by answer()'s bailiwick filter unless the zone is the root
			} else {
				resp.Ns = append(resp.Ns, f)
			}
			kinds = append(kinds, "t:inject-foreign")
		case 8: // DS denial stripped to a bare NODATA
			if z.parent != nil {
				dm := x.newMsg(z.name, dns.TypeDS)
				dm.Ns = vC01StripSigs(x.soa(z.parent))
				x.ds[vC01StoreKey(z.name, dns.TypeDS, false)] = dm
				x.ds[vC01StoreKey(z.name, dns.TypeDS, true)] = dm
				x.tampered = true
				kinds = append(kinds, "t:ds-dropped")
			}
		case 9: // the sub-query table loses an entry (lookup failure)
			if z.parent != nil && rnd.Intn(2) == 0 {
				delete(x.ds, vC01StoreKey(z.name, dns.TypeDS, false))
				kinds = append(kinds, "t:ds-lookup-fails")
			} else {
				delete(x.keys, strings.ToLower(z.name))
				kinds = append(kinds, "t:dnskey-lookup-fails")
			}
		case 10: // no trust anchor
			x.anchors = nil
			kinds = append(kinds, "t:no-anchor")
		case 11: // one record altered, signature kept
			for _, rr := range resp.Answer {
				if a, ok := rr.(*dns.A); ok && dns.IsSubDomain(z.name, a.Hdr.Name) && !strings.EqualFold(a.Hdr.Name, "www.elsewhere.") {
					a.A = []byte{203, 0, 113, 200}
					genuine = false
					kinds = append(kinds, "t:alter-rdata")
					break
				}
			}
		case 13: // one header field of every RRSIG of the response rewritten (signature octets kept), data altered or not
			field := rnd.Intn(6)
			// algorithm numbers the validator does not implement, and implemented ones the zone's keys are not of
			algs := []uint8{dns.RSAMD5, dns.DSA, dns.ECCGOST, 17, 200, 253, dns.RSASHA256, dns.ECDSAP384SHA384}
			alg := algs[rnd.Intn(len(algs))]
			hit := false
			for _, rr := range append(append([]dns.RR{}, resp.Answer...), resp.Ns...) {
				sg, ok := rr.(*dns.RRSIG)
				if !ok {
					continue
				}
				switch field {
				case 0, 1, 2: // half of the draws: the algorithm octet
					if sg.Algorithm == alg {
						sg.Algorithm = dns.RSAMD5
					} else {
						sg.Algorithm = alg
					}
				case 3:
					sg.KeyTag++
				case 4:
					sg.OrigTtl++
				case 5:
					sg.Inception, sg.Expiration = uint32(x.now+3600), uint32(x.now+7200)
				}
				hit = true
			}
			if hit {
				if rnd.Intn(2) == 0 {
					for _, rr := range resp.Answer {
						if a, ok := rr.(*dns.A); ok && !strings.EqualFold(a.Hdr.Name, "www.elsewhere.") {
							a.A = []byte{203, 0, 113, 77}
						}
					}
				}
				genuine = false
				kinds = append(kinds, []string{"t:sig-alg", "t:sig-alg", "t:sig-alg", "t:sig-keytag", "t:sig-origttl", "t:sig-not-yet-valid"}[field])
			}
		case 12: // DNSKEY answer replaced by attacker keys only
			if z.signed {
				ak := x.attackerKey(att, z.name, 257)
				nk := x.newMsg(z.name, dns.TypeDNSKEY)
				nk.Answer = x.resignAll([]dns.RR{ak.key}, ak, inc, exp)
				x.keys[strings.ToLower(z.name)] = nk
				x.tampered = true
				kinds = append(kinds, "t:dnskey-replaced")
			}
		}
	}
	// the live trust set may be gone whatever the hierarchy looks like (AutoTA cleared it): every validating path must fail closed
	if rnd.Intn(12) == 0 && len(x.anchors) > 0 && vC01F == nil {
		x.anchors = nil
		kinds = append(kinds, "t:no-anchor")
	}
	x.install(r)
	ctx := middleware.WithResponseMeta(context.Background(), &middleware.ResponseMeta{})
	req := new(dns.Msg)
	req.SetQuestion(qname, resp.Question[0].Qtype)
	req.SetEdns0(dnsutil.DefaultMsgSize, true)
	req.CheckingDisabled = cd
	resp.CheckingDisabled = cd
	resp.AuthenticatedData = false
	rk := vC01RankAll(x.allRR(resp)...)
	pristine := resp.Copy()
	// abstraction BEFORE the call (the validators edit the response in place)
	respCoq := x.coqMsg(resp, rk)
	pdsCoq := x.w.coqRRs(parentDS, rk)
	qn, zn := x.w.name(qname), x.w.optName(zoneArg)
	subject := qname
	if mode == 9 {
		subject = z.name
	}
	envCoq := x.coqEnv(r, rk, resp, subject, negative || mode >= 5)
	var body, k, goFail string
	desc := map[string]any{"world": kinds, "qname": qname, "zone_arg": zoneArg, "cd": cd, "parentDS": vC01Pres(parentDS), "answer": vC01Pres(resp.Answer), "authority": vC01Pres(resp.Ns)}
	switch {
	case mode == 9:
		ds, err := r.validateDelegation(ctx, req, resp, dns.Question{Name: z.name, Qtype: dns.TypeNS, Qclass: dns.ClassINET}, parentDS, zoneArg)
		o := "(ODsOk " + vC01Pairs(x.w, ds) + ")"
		if err != nil {
			o = "(ODsFail " + vC01ErrTerm(err) + ")"
		}
		body = fmt.Sprintf("CaseDeleg E %s %s %s %s %s %s", vC01Bool(cd), respCoq, x.w.name(z.name), pdsCoq, zn, o)
		k = "deleg"
		desc["newDS"], desc["err"] = vC01Pres(ds), fmt.Sprint(err)
	case negative:
		out, err := r.authority(ctx, req, resp, parentDS, zoneArg)
		body = fmt.Sprintf("CaseNegative E %s %d %s %s %s %s %s", qn, req.Question[0].Qtype, vC01Bool(cd), respCoq, pdsCoq, zn, vC01Obs(x.w, out, err))
		k = "negative"
		desc["err"] = fmt.Sprint(err)
		if err == nil {
			desc["ad"] = out.AuthenticatedData
			if out.AuthenticatedData && !(chainSecure && genuine && len(x.anchors) > 0 && !cd) {
				goFail = "AD on a denial that is not authentic up to the anchor"
			}
		}
	default:
		out, err := r.answer(ctx, req, resp, parentDS, zoneArg)
		body = fmt.Sprintf("CaseAnswer E %s %d %s %s %s %s %s", qn, req.Question[0].Qtype, vC01Bool(cd), respCoq, pdsCoq, zn, vC01Obs(x.w, out, err))
		k = "answer"
		desc["err"] = fmt.Sprint(err)
		if err == nil {
			desc["ad"] = out.AuthenticatedData
			if out.AuthenticatedData && !(chainSecure && genuine && len(x.anchors) > 0 && !cd) {
				goFail = "AD on data that is not authentic up to the anchor"
			}
			if !cd && chainSecure && !genuine && len(x.anchors) > 0 {
				goFail = "altered data accepted under a signed chain"
			}
			if !cd && chainSecure && wildNoDenial && len(x.anchors) > 0 {
				goFail = "a wildcard expansion was accepted under a signed chain without a next-closer denial from the zone itself"
			}
			for _, rr := range out.Answer {
				if !cd && chainSecure && strings.EqualFold(rr.Header().Name, "www.elsewhere.") {
					goFail = "a foreign record injected into the answer was served under a signed chain"
				}
			}
			plain := true
			for _, kk := range kinds {
				if kk == "dname" || kk == "wildcard" {
					plain = false
				}
			}
			if !cd && chainSecure && genuine && plain && len(x.anchors) > 0 && !out.AuthenticatedData {
				goFail = "a zone under a signed chain was treated as unsigned"
			}
		}
	}
	m := map[string]any{"k": k + ":" + strings.Join(kinds, "+"), "coq": x.w.wrap(envCoq + body), "nontrivial": true, "desc": desc}
	if x.tampered {
		// the table now holds a CD=0 sub-query answer the resolver's own recursion would have refused;
		// whether such an entry can arise is the lab driver's question, not this one's
		goFail = ""
	}
	if goFail != "" {
		m["go_fail"] = goFail
	}
	tr.emit(m)

	// the same call once more with the live trust set gone: whatever the response looks like — signed,
	// unsigned, negative, referral — a validating path must fail closed
	if len(x.anchors) > 0 && !cd && (rnd.Intn(3) == 0 || (vC01F != nil && vC01F.Companion)) {
		saved := x.anchors
		x.anchors = nil
		x.install(r)
		env2 := x.coqEnv(r, rk, resp, subject, negative || mode >= 5)
		again := pristine.Copy()
		var body2, k2, gf string
		switch {
		case mode == 9:
			ds, err := r.validateDelegation(ctx, req, again, dns.Question{Name: z.name, Qtype: dns.TypeNS, Qclass: dns.ClassINET}, parentDS, zoneArg)
			o := "(ODsOk " + vC01Pairs(x.w, ds) + ")"
			if err != nil {
				o = "(ODsFail " + vC01ErrTerm(err) + ")"
			} else {
				gf = "a referral was accepted without any trust anchor"
			}
			body2, k2 = fmt.Sprintf("CaseDeleg E %s %s %s %s %s %s", vC01Bool(cd), respCoq, x.w.name(z.name), pdsCoq, zn, o), "deleg"
		case negative:
			out, err := r.authority(ctx, req, again, parentDS, zoneArg)
			if err == nil {
				gf = "a negative answer was accepted without any trust anchor"
			}
			body2, k2 = fmt.Sprintf("CaseNegative E %s %d %s %s %s %s %s", qn, req.Question[0].Qtype, vC01Bool(cd), respCoq, pdsCoq, zn, vC01Obs(x.w, out, err)), "negative"
		default:
			out, err := r.answer(ctx, req, again, parentDS, zoneArg)
			if err == nil {
				gf = "an answer was accepted without any trust anchor"
			}
			body2, k2 = fmt.Sprintf("CaseAnswer E %s %d %s %s %s %s %s", qn, req.Question[0].Qtype, vC01Bool(cd), respCoq, pdsCoq, zn, vC01Obs(x.w, out, err)), "answer"
		}
		rec := map[string]any{"k": k2 + "-no-anchor:" + strings.Join(kinds, "+"), "coq": x.w.wrap(env2 + body2), "nontrivial": true, "desc": desc}
		if gf != "" {
			rec["go_fail"] = gf
		}
		tr.emit(rec)
		x.anchors = saved
		x.install(r)
	}

	// verifyDNSSEC on a zone's own DNSKEY answer: genuine, or with a key the DS does not vouch for doing the signing
	if vz := x.zones[1+rnd.Intn(len(x.zones)-1)]; vz.signed && (rnd.Intn(3) == 0 || (vC01F != nil && vC01F.Variant != "")) {
		ak := x.attackerKey(att, vz.name, 256)
		km := x.newMsg(vz.name, dns.TypeDNSKEY)
		variant := []string{"genuine", "extra-key-signed-by-it", "extra-key-both-sign", "zsk-signs-only", "attacker-only", "tag-twin-of-ksk-signs", "tag-twin-of-ksk-signs"}[rnd.Intn(7)]
		if vC01F != nil && vC01F.Variant != "" {
			variant = vC01F.Variant
		}
		forged := false
		vksk := vz.ksk
		switch variant {
		case "tag-twin-of-ksk-signs": // the zone's KSK and an attacker key with the SAME key tag; only the attacker signs
			if len(vC01KSKPool.pairs) == 0 {
				variant = "genuine"
				km.Answer = x.sign(vz, vz.ksk, vz.ksk.key, vz.zsk.key)
				break
			}
			pr := vC01KSKPool.pairs[rnd.Intn(len(vC01KSKPool.pairs))]
			vksk = x.w.keyFromSeed(vz.name, 257, dns.ED25519, pr[0])
			twin := x.w.keyFromSeed(vz.name, 257, dns.ED25519, pr[1])
			if rnd.Intn(2) == 0 {
				km.Answer = x.resignAll([]dns.RR{twin.key, vksk.key, vz.zsk.key}, twin, inc, exp)
			} else {
				km.Answer = x.resignAll([]dns.RR{vksk.key, vz.zsk.key, twin.key}, twin, inc, exp)
			}
			forged = true
		case "genuine":
			km.Answer = x.sign(vz, vz.ksk, vz.ksk.key, vz.zsk.key)
		case "extra-key-signed-by-it":
			km.Answer = x.resignAll([]dns.RR{vz.ksk.key, vz.zsk.key, ak.key}, ak, inc, exp)
			forged = true
		case "extra-key-both-sign": // the KSK's own signature covers the set WITHOUT the extra key only
			set := x.sign(vz, vz.ksk, vz.ksk.key, vz.zsk.key)
			km.Answer = append(x.resignAll([]dns.RR{vz.ksk.key, vz.zsk.key, ak.key}, ak, inc, exp), set[len(set)-1])
			forged = true
		case "zsk-signs-only":
			km.Answer = x.resignAll([]dns.RR{vz.ksk.key, vz.zsk.key}, vz.zsk, inc, exp)
		default:
			km.Answer = x.resignAll([]dns.RR{ak.key}, ak, inc, exp)
			forged = true
		}
		vds := x.w.ds(vksk.key, vz.dt)
		rk2 := vC01RankAll(x.allRR(km, resp)...)
		rk2 = vC01RankAll(append(x.allRR(km, resp), []dns.RR{vds})...)
		kmCoq := x.coqMsg(km, rk2)
		ok, verr := r.verifyDNSSEC(ctx, vz.name, vz.name, km, []dns.RR{vds})
		rec := map[string]any{"k": "verify-dnskey:" + variant, "nontrivial": true,
			"coq":  x.w.wrap(x.coqEnv(r, rk2, resp, subject, false) + fmt.Sprintf("CaseVerify E %s %s %s %s %s", x.w.name(vz.name), kmCoq, x.w.coqRRs([]dns.RR{vds}, rk2), vC01Bool(ok), vC01OptErr(verr))),
			"desc": map[string]any{"zone": vz.name, "variant": variant, "dnskey_answer": vC01Pres(km.Answer), "ds": vC01Pres([]dns.RR{vds}), "ok": ok, "err": fmt.Sprint(verr)}}
		if ok && forged {
			rec["go_fail"] = "a DNSKEY RRset holding a key the parent's DS does not vouch for, signed by that key, was accepted"
		}
		tr.emit(rec)
	}

	// auxiliary observations on the same world (fresh abstraction state is not needed: same W)
	switch rnd.Intn(4) {
	case 0:
		s := rnd.Intn(3) == 0
		got := r.isZoneSecure(ctx, qname, parentDS, map[bool]string{true: "", false: zoneArg}[s])
		zc := zn
		if s {
			zc = "None"
		}
		tr.emit(map[string]any{"k": "zone-secure", "coq": x.w.wrap(envCoq + fmt.Sprintf("CaseZoneSecure E %s %s %s %s", qn, pdsCoq, zc, vC01Bool(got))), "nontrivial": len(parentDS) > 0,
			"desc": map[string]any{"world": kinds, "qname": qname, "zone": zoneArg, "secure": got}})
	case 1:
		got := r.provenInsecureDelegation(ctx, zoneArg, qname, parentDS)
		tr.emit(map[string]any{"k": "proven-insecure", "coq": x.w.wrap(envCoq + fmt.Sprintf("CaseProvenInsecure E %s %s %s %s", zn, qn, pdsCoq, vC01Bool(got))), "nontrivial": true,
			"desc": map[string]any{"world": kinds, "qname": qname, "zone": zoneArg, "proven": got}})
	case 2:
		signer := []string{"", z.name, zoneArg, "."}[rnd.Intn(4)]
		fcd := rnd.Intn(2) == 0
		ds, err := r.findDS(ctx, signer, qname, parentDS, fcd)
		o := "(ODsOk " + vC01Pairs(x.w, ds) + ")"
		if err != nil {
			o = "(ODsFail " + vC01ErrTerm(err) + ")"
		}
		tr.emit(map[string]any{"k": "find-ds", "coq": x.w.wrap(envCoq + fmt.Sprintf("CaseFindDS E %s %s %s %s %s", x.w.optName(signer), qn, pdsCoq, vC01Bool(fcd), o)), "nontrivial": true,
			"desc": map[string]any{"world": kinds, "signer": signer, "qname": qname, "ds": vC01Pres(ds), "err": fmt.Sprint(err)}})
	}
}

func vC01Quiet() {
	logger := zlog.NewStructured()
	logger.SetWriter(zlog.NewTerminalWriter(io.Discard))
	logger.SetLevel(zlog.LevelFatal)
	zlog.SetDefault(logger)
}
