//go:build verif

package accesslist

// C17 driver: the real accesslist handler in a chain ahead of a counting
// stub. Observes, per (list, source, internal flag): was the next handler
// invoked, was anything written to the client.

import (
	"context"
	"encoding/binary"
	"encoding/json"
	"fmt"
	"math/big"
	"math/rand"
	"net"
	"net/netip"
	"os"
	"strconv"
	"strings"
	"testing"

	"github.com/miekg/dns"
	"github.com/semihalev/sdns/config"
	"github.com/semihalev/sdns/middleware"
)

// a transport without an Internal() method, reporting an arbitrary remote address
type vC17Tr struct {
	addr net.Addr
	msg  *dns.Msg
}

func (t *vC17Tr) LocalAddr() net.Addr         { return &net.UDPAddr{IP: net.IPv4(127, 0, 0, 1), Port: 53} }
func (t *vC17Tr) RemoteAddr() net.Addr        { return t.addr }
func (t *vC17Tr) WriteMsg(m *dns.Msg) error   { t.msg = m; return nil }
func (t *vC17Tr) Write(b []byte) (int, error) { t.msg = new(dns.Msg); return len(b), t.msg.Unpack(b) }
func (t *vC17Tr) Close() error                { return nil }
func (t *vC17Tr) vC17Written() bool           { return t.msg != nil }

// ... and one with it
type vC17TrSays struct {
	vC17Tr
	says bool
}

func (t *vC17TrSays) Internal() bool { return t.says }

func vC17CoqIP(ip net.IP) string {
	switch len(ip) {
	case 4:
		return fmt.Sprintf("(Some (mk_addr true %s))", new(big.Int).SetBytes(ip).String())
	case 16:
		return fmt.Sprintf("(Some (mk_addr false %s))", new(big.Int).SetBytes(ip).String())
	}
	return "None"
}

type vC17Sink interface {
	vC17Written() bool
}

// one corpus entry: a fixed remote (see corpus/C17/*.json)
type vC17Fixed struct {
	Src    string `json:"src"`       // address literal
	Form   int    `json:"ip_bytes"`  // 4 or 16 (an IPv4 address in 16-byte IPv4-mapped form)
	Kind   string `json:"addr_type"` // udp | tcp | ipaddr | nil
	Port   int    `json:"port"`
	Method string `json:"internal_method"` // none | false | true
}

func (e vC17Fixed) vC17Make() (middleware.Transport, vC17Sink, string, map[string]any) {
	a := netip.MustParseAddr(e.Src)
	ip := net.IP(a.AsSlice())
	if e.Form == 16 && a.Is4() {
		b := a.As16()
		ip = net.IP(b[:])
	}
	kind := map[string]int{"udp": 0, "tcp": 1, "ipaddr": 2, "nil": 3}[e.Kind]
	says := map[string]int{"none": 0, "": 0, "false": 1, "true": 2}[e.Method]
	return vC17MkRemote(ip, kind, e.Port, says)
}

// vC17Remote builds a transport for a peer with this IP: the remote-address type, the port and the
// Internal() method vary; sentinel = offer the sub-query signature's neighbourhood (port 0, any method).
// Returns the transport, the model's [remote] term and a description.
func vC17Remote(r *rand.Rand, ip net.IP, sentinel bool) (middleware.Transport, vC17Sink, string, map[string]any) {
	kind := r.Intn(2)
	port := []int{4242, 1, 53, 65535, 1024 + r.Intn(60000)}[r.Intn(5)]
	says := r.Intn(2) // none / false
	if sentinel {
		port = []int{0, 0, 4242, 1, 65535}[r.Intn(5)]
		says = r.Intn(3)
		if r.Intn(6) == 0 {
			kind = 2
		}
	} else {
		switch r.Intn(16) {
		case 0:
			says = 2 // a transport that declares the request internal
		case 1:
			kind = 2 + r.Intn(2) // a foreign address type: no usable peer address
		case 2:
			port = 0
		}
	}
	return vC17MkRemote(ip, kind, port, says)
}

// vC17MkRemote: kind 0 = *net.UDPAddr, 1 = *net.TCPAddr, 2 = *net.IPAddr, 3 = nil address; says 0 = the
// transport has no Internal() method, 1 = it says false, 2 = it says true.
func vC17MkRemote(ip net.IP, kind, port, says int) (middleware.Transport, vC17Sink, string, map[string]any) {
	var addr net.Addr
	kindCoq, ipCoq, kindName := "KOther", "None", "nil"
	switch kind {
	case 0:
		addr, kindCoq, ipCoq, kindName = &net.UDPAddr{IP: ip, Port: port}, "KUdp", vC17CoqIP(ip), "*net.UDPAddr"
	case 1:
		addr, kindCoq, ipCoq, kindName = &net.TCPAddr{IP: ip, Port: port}, "KTcp", vC17CoqIP(ip), "*net.TCPAddr"
	case 2:
		addr, ipCoq, kindName = &net.IPAddr{IP: ip}, vC17CoqIP(ip), "*net.IPAddr"
	}
	saysCoq := []string{"None", "(Some false)", "(Some true)"}[says]
	coq := fmt.Sprintf("(mk_remote %s %s %d %s)", kindCoq, ipCoq, port, saysCoq)
	desc := map[string]any{"remote_addr_type": kindName, "ip": fmt.Sprint(ip), "ip_bytes": len(ip), "port": port, "transport_internal_method": saysCoq}
	if says == 0 {
		t := &vC17Tr{addr: addr}
		return t, t, coq, desc
	}
	t := &vC17TrSays{vC17Tr{addr: addr}, says == 2}
	return t, t, coq, desc
}

type vStub struct{ calls int }

func (s *vStub) Name() string { return "verifstub" }
func (s *vStub) ServeDNS(ctx context.Context, ch *middleware.Chain) {
	s.calls++
}

func vEnvInt(name string, def int) int {
	if s := os.Getenv(name); s != "" {
		if n, err := strconv.Atoi(s); err == nil {
			return n
		}
	}
	return def
}

func vAddrBig(a netip.Addr) *big.Int {
	if a.Is4() {
		b := a.As4()
		return new(big.Int).SetUint64(uint64(binary.BigEndian.Uint32(b[:])))
	}
	b := a.As16()
	return new(big.Int).SetBytes(b[:])
}

func vRandPrefix(r *rand.Rand) netip.Prefix {
	if r.Intn(2) == 0 {
		var b [4]byte
		r.Read(b[:])
		b[0] = 10
		b[1] = byte(r.Intn(2))
		return netip.PrefixFrom(netip.AddrFrom4(b), 8+r.Intn(25))
	}
	var b [16]byte
	r.Read(b[:])
	copy(b[:], []byte{0x20, 0x01, 0x0d, 0xb8, 0, 0, 0, byte(r.Intn(2))})
	return netip.PrefixFrom(netip.AddrFrom16(b), 32+r.Intn(97))
}

func TestVerifC17Acl(t *testing.T) {
	p := os.Getenv("VERIF_OUT")
	if p == "" {
		t.Skip("VERIF_OUT not set")
	}
	f, err := os.Create(p)
	if err != nil {
		t.Fatal(err)
	}
	defer f.Close()
	r := rand.New(rand.NewSource(int64(vEnvInt("VERIF_SEED", 1)) + 17))
	n := vEnvInt("VERIF_N", 300)
	// corpus first (corpus/C17/acl.json): minimal failing inputs of the seeded changes this driver caught
	var corpus []struct {
		From       string   `json:"from"`
		AccessList []string `json:"accesslist"`
		vC17Fixed
	}
	if dir := os.Getenv("VERIF_CORPUS"); dir != "" {
		if raw, err := os.ReadFile(dir + "/acl.json"); err == nil {
			if err := json.Unmarshal(raw, &corpus); err != nil {
				t.Fatalf("corpus acl.json: %v", err)
			}
		}
	}
	for c := -len(corpus); c < n; c++ {
		var good []netip.Prefix
		var cidrs []string
		fixed := c < 0
		cnt := 0
		shape := -1
		if fixed {
			cidrs = corpus[c+len(corpus)].AccessList
			for _, e := range cidrs {
				if pf, err := netip.ParsePrefix(e); err == nil {
					good = append(good, pf)
				}
			}
		} else {
			cnt = 1 + r.Intn(5)
			shape = r.Intn(12)
		}
		if shape == 0 {
			cnt = 0 // empty configured list: the open default applies
		}
		for i := 0; i < cnt; i++ {
			if shape == 1 || shape == 2 || r.Intn(6) == 0 { // shapes 1,2: every entry malformed
				cidrs = append(cidrs, []string{"bogus", "10.0.0.0/40", "1", "192.168.1.0.0/24", "::/129"}[r.Intn(5)])
				continue
			}
			pf := vRandPrefix(r)
			if r.Intn(12) == 0 { // lists that cover (part of) the loopback block: both verdicts for sentinel-like sources
				pf = netip.MustParsePrefix([]string{"127.0.0.0/8", "127.0.0.255/32", "127.0.0.254/31", "127.0.0.0/24", "::ffff:127.0.0.255/128"}[r.Intn(5)])
			}
			good = append(good, pf)
			cidrs = append(cidrs, pf.String())
		}
		cfg := new(config.Config)
		cfg.AccessList = append([]string(nil), cidrs...)
		a := New(cfg)
		var w middleware.Transport
		var wr vC17Sink
		var remoteCoq string
		var rdesc map[string]any
		sentinel := false
		if fixed {
			w, wr, remoteCoq, rdesc = corpus[c+len(corpus)].vC17Make()
		} else {
			// source: inside / boundary / outside / mapped / nil
			var src netip.Addr
			pf := vRandPrefix(r)
			if len(good) > 0 {
				pf = good[r.Intn(len(good))]
			}
			switch r.Intn(5) {
			case 0:
				src = pf.Masked().Addr()
			case 1:
				src = pf.Masked().Addr().Prev()
				if !src.IsValid() {
					src = pf.Addr()
				}
			case 2:
				x := vRandPrefix(r)
				src = x.Addr()
			default:
				src = pf.Addr()
			}
			// one case in five: the neighbourhood of the sub-query signature (127.0.0.255, port 0) on every address type
			sentinel = r.Intn(5) == 0
			if sentinel {
				src = netip.MustParseAddr([]string{"127.0.0.255", "127.0.0.255", "127.0.0.254", "127.0.1.0", "127.0.0.1"}[r.Intn(5)])
			}
			var ip net.IP
			form := r.Intn(4)
			switch {
			case form == 0 && !sentinel:
				ip = nil
			case form <= 1 && src.Is4():
				b := src.As16()
				ip = net.IP(b[:])
			default:
				ip = net.IP(src.AsSlice())
			}
			w, wr, remoteCoq, rdesc = vC17Remote(r, ip, sentinel)
		}
		stub := &vStub{}
		ch := middleware.NewChain([]middleware.Handler{a, stub})
		req := new(dns.Msg)
		req.SetQuestion("example.com.", dns.TypeA)
		ch.Reset(w, req)
		internal := ch.Writer.Internal()
		ch.Next(context.Background())
		outcome := 2
		if stub.calls == 1 && !wr.vC17Written() {
			outcome = 0
		} else if stub.calls == 0 && !wr.vC17Written() {
			outcome = 1
		}
		var pcoq []string
		for _, g := range good {
			pcoq = append(pcoq, fmt.Sprintf("mk_prefix %v %s %d", g.Addr().Is4(), vAddrBig(g.Addr()).String(), g.Bits()))
		}
		k := "acl-allowed"
		if outcome == 1 {
			k = "acl-denied"
		}
		if sentinel {
			k = "acl-sentinel-sweep-" + k
		}
		if fixed {
			k = "acl-corpus-" + k
		}
		if internal {
			k = "acl-internal"
		} else if len(cidrs) == 0 {
			k = "acl-empty-config-" + k
		} else if len(good) == 0 {
			k = "acl-all-malformed-" + k
		}
		b, _ := json.Marshal(map[string]any{
			"k":          k,
			"coq":        fmt.Sprintf("CaseAcl %d [%s] %s %d", len(cidrs), strings.Join(pcoq, "; "), remoteCoq, outcome),
			"nontrivial": true,
			"desc":       map[string]any{"accesslist": cidrs, "remote": rdesc, "writer_internal": internal, "next_calls": stub.calls, "written": wr.vC17Written()},
		})
		f.Write(append(b, '\n'))
	}
}
