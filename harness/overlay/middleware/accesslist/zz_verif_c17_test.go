//go:build verif

package accesslist

// C17 driver: the real accesslist handler in a chain ahead of a counting
// stub. Observes, per (list, source, internal flag): was the next handler
// invoked, was anything written to the client.

import (
	"context"
	"encoding/binary"
	"encoding/json"
	"fmt"
	"math/big"
	"math/rand"
	"net"
	"net/netip"
	"os"
	"strconv"
	"strings"
	"testing"

	"github.com/miekg/dns"
	"github.com/semihalev/sdns/config"
	"github.com/semihalev/sdns/internal/mock"
	"github.com/semihalev/sdns/middleware"
)

type vWriter struct {
	*mock.Writer
	ip       net.IP
	internal bool
}

func (w *vWriter) RemoteIP() net.IP       { return w.ip }
func (w *vWriter) RemoteAddr() net.Addr { return &net.UDPAddr{IP: w.ip, Port: 5353} }
func (w *vWriter) Internal() bool   { return w.internal }

type vStub struct{ calls int }

func (s *vStub) Name() string { return "verifstub" }
func (s *vStub) ServeDNS(ctx context.Context, ch *middleware.Chain) {
	s.calls++
}

func vEnvInt(name string, def int) int {
	if s := os.Getenv(name); s != "" {
		if n, err := strconv.Atoi(s); err == nil {
			return n
		}
	}
	return def
}

func vAddrBig(a netip.Addr) *big.Int {
	if a.Is4() {
		b := a.As4()
		return new(big.Int).SetUint64(uint64(binary.BigEndian.Uint32(b[:])))
	}
	b := a.As16()
	return new(big.Int).SetBytes(b[:])
}

func vRandPrefix(r *rand.Rand) netip.Prefix {
	if r.Intn(2) == 0 {
		var b [4]byte
		r.Read(b[:])
		b[0] = 10
		b[1] = byte(r.Intn(2))
		return netip.PrefixFrom(netip.AddrFrom4(b), 8+r.Intn(25))
	}
	var b [16]byte
	r.Read(b[:])
	copy(b[:], []byte{0x20, 0x01, 0x0d, 0xb8, 0, 0, 0, byte(r.Intn(2))})
	return netip.PrefixFrom(netip.AddrFrom16(b), 32+r.Intn(97))
}

func TestVerifC17Acl(t *testing.T) {
	p := os.Getenv("VERIF_OUT")
	if p == "" {
		t.Skip("VERIF_OUT not set")
	}
	f, err := os.Create(p)
	if err != nil {
		t.Fatal(err)
	}
	defer f.Close()
	r := rand.New(rand.NewSource(int64(vEnvInt("VERIF_SEED", 1)) + 17))
	n := vEnvInt("VERIF_N", 300)
	for c := 0; c < n; c++ {
		var good []netip.Prefix
		var cidrs []string
		cnt := 1 + r.Intn(5)
		shape := r.Intn(12)
		if shape == 0 {
			cnt = 0 // empty configured list: the open default applies
		}
		for i := 0; i < cnt; i++ {
			if shape == 1 || shape == 2 || r.Intn(6) == 0 { // shapes 1,2: every entry malformed
				cidrs = append(cidrs, []string{"bogus", "10.0.0.0/40", "1", "192.168.1.0.0/24", "::/129"}[r.Intn(5)])
				continue
			}
			pf := vRandPrefix(r)
			good = append(good, pf)
			cidrs = append(cidrs, pf.String())
		}
		cfg := new(config.Config)
		cfg.AccessList = cidrs
		a := New(cfg)
		// source: inside / boundary / outside / mapped / nil
		var src netip.Addr
		pf := vRandPrefix(r)
		if len(good) > 0 {
			pf = good[r.Intn(len(good))]
		}
		switch r.Intn(5) {
		case 0:
			src = pf.Masked().Addr()
		case 1:
			src = pf.Masked().Addr().Prev()
			if !src.IsValid() {
				src = pf.Addr()
			}
		case 2:
			x := vRandPrefix(r)
			src = x.Addr()
		default:
			src = pf.Addr()
		}
		var ip net.IP
		srcCoq := "None"
		form := r.Intn(4)
		switch {
		case form == 0:
			ip = nil
		case form == 1 && src.Is4():
			b := src.As16()
			ip = net.IP(b[:])
			srcCoq = fmt.Sprintf("(Some (mk_addr false %s))", new(big.Int).SetBytes(b[:]).String())
		default:
			ip = net.IP(src.AsSlice())
			srcCoq = fmt.Sprintf("(Some (mk_addr %v %s))", src.Is4(), vAddrBig(src).String())
		}
		internal := r.Intn(8) == 0
		stub := &vStub{}
		ch := middleware.NewChain([]middleware.Handler{a, stub})
		w := &vWriter{Writer: mock.NewWriter("udp", "192.0.2.1:53"), ip: ip, internal: internal}
		req := new(dns.Msg)
		req.SetQuestion("example.com.", dns.TypeA)
		ch.Reset(w, req)
		ch.Next(context.Background())
		outcome := 2
		if stub.calls == 1 && !w.Written() {
			outcome = 0
		} else if stub.calls == 0 && !w.Written() {
			outcome = 1
		}
		var pcoq []string
		for _, g := range good {
			pcoq = append(pcoq, fmt.Sprintf("mk_prefix %v %s %d", g.Addr().Is4(), vAddrBig(g.Addr()).String(), g.Bits()))
		}
		k := "acl-allowed"
		if outcome == 1 {
			k = "acl-denied"
		}
		if internal {
			k = "acl-internal"
		} else if len(cidrs) == 0 {
			k = "acl-empty-config-" + k
		} else if len(good) == 0 {
			k = "acl-all-malformed-" + k
		}
		b, _ := json.Marshal(map[string]any{
			"k":          k,
			"coq":        fmt.Sprintf("CaseAcl %d [%s] %v %s %d", len(cidrs), strings.Join(pcoq, "; "), internal, srcCoq, outcome),
			"nontrivial": true,
			"desc":       map[string]any{"accesslist": cidrs, "src": fmt.Sprint(ip), "internal": internal, "next_calls": stub.calls, "written": w.Written()},
		})
		f.Write(append(b, '\n'))
	}
}
