//go:build verif

package edns

// C19 correspondence driver for middleware/edns (overlay-injected, never
// committed to /repo).  Queries are hand-assembled wire packets (so subnet
// options keep host bits, odd lengths and family mismatches) or decoded
// messages the packer would refuse; each runs through the real handler in a
// real Chain — wire-born (ParseWire + ResetWire, the strict path) when the
// parser admits it, message-born otherwise — in front of a scripted next
// handler that records the upstream-bound request and the client-ECS marker
// and answers with a scripted additional section (0-2 OPT records, options
// of every kind, sometimes the request's own OPT object, sometimes large
// enough to overflow a 512-byte UDP reply).  Recorded: the request as the next
// handler saw it, the reply the transport got, the BADVERS reply.

import (
	"context"
	"encoding/binary"
	"encoding/hex"
	"encoding/json"
	"fmt"
	"math/big"
	"math/rand"
	"net"
	"net/netip"
	"os"
	"strconv"
	"strings"
	"testing"
	"time"

	"github.com/miekg/dns"
	"github.com/semihalev/sdns/config"
	"github.com/semihalev/sdns/internal/dnsutil"
	"github.com/semihalev/sdns/internal/ecs"
	"github.com/semihalev/sdns/middleware"
)

type vC19Trace struct{ f *os.File }

func vC19Open(t *testing.T) *vC19Trace {
	p := os.Getenv("VERIF_OUT")
	if p == "" {
		t.Skip("VERIF_OUT not set")
	}
	f, err := os.Create(p)
	if err != nil {
		t.Fatal(err)
	}
	return &vC19Trace{f: f}
}

func (v *vC19Trace) emit(m map[string]any) {
	b, _ := json.Marshal(m)
	v.f.Write(append(b, '\n'))
}

func vC19EnvInt(name string, def int) int {
	if s := os.Getenv(name); s != "" {
		if n, err := strconv.Atoi(s); err == nil {
			return n
		}
	}
	return def
}

// ---- Coq term rendering

func vC19Bool(b bool) string {
	if b {
		return "true"
	}
	return "false"
}

func vC19Bytes(b []byte) string {
	return fmt.Sprintf("(mk_ipb %d %s)", len(b), new(big.Int).SetBytes(b).String())
}

func vC19AddrVal(a netip.Addr) *big.Int {
	if a.Is4() {
		b := a.As4()
		return new(big.Int).SetBytes(b[:])
	}
	b := a.As16()
	return new(big.Int).SetBytes(b[:])
}

func vC19Addr(a netip.Addr) string {
	if !a.IsValid() {
		return "None"
	}
	return fmt.Sprintf("(Some (mk_addr %s %s))", vC19Bool(a.Is4()), vC19AddrVal(a).String())
}

func vC19PfxRaw(p netip.Prefix) string {
	return fmt.Sprintf("(mk_pfx %s %s %d)", vC19Bool(p.Addr().Is4()), vC19AddrVal(p.Addr()).String(), p.Bits())
}

func vC19Pfx(p netip.Prefix) string {
	if !p.IsValid() {
		return "None"
	}
	return "(Some " + vC19PfxRaw(p) + ")"
}

func vC19Policy(p *ecs.Policy) string {
	if p == nil {
		return "None"
	}
	var nets []string
	for _, n := range p.ClientNetworks {
		nets = append(nets, vC19PfxRaw(n))
	}
	return fmt.Sprintf("(Some (mk_policy %s %d %d [%s] %d %d))", vC19Bool(p.Enabled), p.ForwardV4Max, p.ForwardV6Max,
		strings.Join(nets, "; "), p.MinScopeV4, p.MinScopeV6)
}

func vC19EcsRaw(e *dns.EDNS0_SUBNET) string {
	return fmt.Sprintf("(mk_ecs %d %d %d %s)", e.Family, e.SourceNetmask, e.SourceScope, vC19Bytes(e.Address))
}

func vC19Ecs(e *dns.EDNS0_SUBNET) string {
	if e == nil {
		return "None"
	}
	return "(Some " + vC19EcsRaw(e) + ")"
}

func vC19Opts(opts []dns.EDNS0) string {
	var s []string
	for _, o := range opts {
		if e, ok := o.(*dns.EDNS0_SUBNET); ok {
			s = append(s, "OEcs "+vC19EcsRaw(e))
		} else {
			s = append(s, fmt.Sprintf("OOther %d", o.Option()))
		}
	}
	return "[" + strings.Join(s, "; ") + "]"
}

// ---- generators

func vC19Uint8(r *rand.Rand, around ...int) uint8 {
	switch r.Intn(4) {
	case 0:
		return uint8([]int{0, 1, 8, 16, 23, 24, 25, 31, 32, 33, 48, 55, 56, 57, 64, 127, 128, 129, 200, 255}[r.Intn(20)])
	case 1:
		if len(around) > 0 {
			v := around[r.Intn(len(around))] + r.Intn(3) - 1
			if v < 0 {
				v = 0
			}
			if v > 255 {
				v = 255
			}
			return uint8(v)
		}
	}
	return uint8(r.Intn(256))
}

func vC19RandAddr(r *rand.Rand, is4 bool) netip.Addr {
	if is4 {
		var b [4]byte
		r.Read(b[:])
		switch r.Intn(4) {
		case 0:
			b[0], b[1] = 10, byte(r.Intn(3))
		case 1:
			b = [4]byte{203, 0, 113, byte(r.Intn(256))}
		}
		return netip.AddrFrom4(b)
	}
	var b [16]byte
	r.Read(b[:])
	switch r.Intn(5) {
	case 0:
		copy(b[:], []byte{0x20, 0x01, 0x0d, 0xb8, 0, byte(r.Intn(2)), 0, byte(r.Intn(2))})
	case 1: // IPv4-mapped
		for i := 0; i < 10; i++ {
			b[i] = 0
		}
		b[10], b[11] = 0xff, 0xff
	case 2: // nearly mapped
		for i := 0; i < 10; i++ {
			b[i] = 0
		}
		b[10], b[11] = 0xff, 0xfe
	}
	return netip.AddrFrom16(b)
}

func vC19RandPrefix(r *rand.Rand) netip.Prefix {
	is4 := r.Intn(2) == 0
	a := vC19RandAddr(r, is4)
	w := a.BitLen()
	var bits int
	switch r.Intn(4) {
	case 0:
		bits = []int{0, 1, w - 1, w}[r.Intn(4)]
	case 1:
		bits = []int{8, 16, 24, 32}[r.Intn(4)]
	default:
		bits = r.Intn(w + 1)
	}
	return netip.PrefixFrom(a, bits) // host bits kept
}

var vC19Malformed = []string{"", " ", "\t", "  ", " 10.0.0.0/8", "10.0.0.0/8 ", "10.0.0.0", "10.0.0.0/33", "::/129", "10.0.0.0/-1", "10.0.0.256/8", "fe80::1%eth0/64", "1.2.3.4/ 8", "/8", "2001:db8::/x", "", " "}

type vC19BuildArgs struct {
	enabled        bool
	f4, f6, m4, m6 uint8
	nets           []string
}

func (b vC19BuildArgs) coq() string {
	var nets []string
	for _, s := range b.nets {
		p, err := netip.ParsePrefix(s)
		if err != nil {
			nets = append(nets, "None")
		} else {
			nets = append(nets, "Some "+vC19PfxRaw(p))
		}
	}
	return fmt.Sprintf("(mk_bargs %s %d %d %d %d [%s])", vC19Bool(b.enabled), b.f4, b.f6, b.m4, b.m6, strings.Join(nets, "; "))
}

func vC19GenBuildArgs(r *rand.Rand) vC19BuildArgs {
	b := vC19BuildArgs{enabled: r.Intn(8) != 0}
	pick := func(lim int) uint8 {
		switch r.Intn(10) {
		case 0, 1, 2:
			return 0
		case 3:
			return uint8(lim)
		case 4:
			return uint8(lim + 1)
		case 5:
			return uint8(r.Intn(256))
		case 6:
			return 1
		}
		return uint8(1 + r.Intn(lim))
	}
	b.f4, b.f6, b.m4, b.m6 = pick(32), pick(128), pick(32), pick(128)
	if r.Intn(3) == 0 { // mostly valid configurations
		if b.f4 > 32 {
			b.f4 = 24
		}
		if b.f6 > 128 {
			b.f6 = 56
		}
		if b.m4 > 32 {
			b.m4 = 0
		}
		if b.m6 > 128 {
			b.m6 = 0
		}
	}
	n := r.Intn(4)
	if r.Intn(3) == 0 {
		n = 0
	}
	for i := 0; i < n; i++ {
		if r.Intn(7) == 0 {
			b.nets = append(b.nets, vC19Malformed[r.Intn(len(vC19Malformed))])
		} else {
			b.nets = append(b.nets, vC19RandPrefix(r).String())
		}
	}
	return b
}

// a policy: from Build (mostly), nil, or hand-made (disabled but non-nil, ceilings beyond the width)
func vC19GenPolicy(r *rand.Rand) *ecs.Policy {
	switch r.Intn(10) {
	case 0:
		return nil
	case 1:
		p := &ecs.Policy{Enabled: r.Intn(2) == 0, ForwardV4Max: vC19Uint8(r, 24, 32), ForwardV6Max: vC19Uint8(r, 56, 128),
			MinScopeV4: vC19Uint8(r, 24, 32), MinScopeV6: vC19Uint8(r, 56, 128)}
		for i := r.Intn(3); i > 0; i-- {
			p.ClientNetworks = append(p.ClientNetworks, vC19RandPrefix(r))
		}
		return p
	}
	for {
		b := vC19GenBuildArgs(r)
		b.enabled = true
		p, err := ecs.Build(b.enabled, b.f4, b.f6, b.m4, b.m6, b.nets)
		if err == nil && p != nil {
			return p
		}
	}
}

func vC19GenECS(r *rand.Rand, p *ecs.Policy) *dns.EDNS0_SUBNET {
	e := &dns.EDNS0_SUBNET{Code: dns.EDNS0SUBNET}
	fam := 1 + r.Intn(2)
	is4 := fam == 1
	a := vC19RandAddr(r, is4)
	e.Family = uint16(fam)
	e.Address = net.IP(a.AsSlice())
	ceil := []int{24, 56}
	if p != nil {
		ceil = []int{int(p.ForwardV4Max), int(p.ForwardV6Max), int(p.MinScopeV4), int(p.MinScopeV6)}
	}
	w := a.BitLen()
	switch r.Intn(5) {
	case 0:
		e.SourceNetmask = uint8([]int{0, 1, w - 1, w}[r.Intn(4)])
	case 1:
		e.SourceNetmask = vC19Uint8(r, ceil...)
	default:
		e.SourceNetmask = uint8(r.Intn(w + 1))
	}
	e.SourceScope = 0
	if r.Intn(3) == 0 {
		e.SourceScope = uint8(r.Intn(w + 1))
	}
	// deviations
	switch r.Intn(30) {
	case 0:
		e.Family = uint16([]int{0, 3, 65535}[r.Intn(3)])
	case 1: // family / address mismatch
		e.Family = uint16(3 - fam)
	case 2:
		e.Address = nil
	case 3:
		e.Address = net.IP{}
	case 4:
		e.Address = net.IP(e.Address[:len(e.Address)-1])
	case 5: // v4 in 16-byte form
		if is4 {
			e.Address = net.IP(a.AsSlice()).To16()
		}
	case 6:
		e.SourceNetmask = vC19Uint8(r)
	case 7:
		e.Address = append(net.IP{}, append(e.Address, 7)...)
	}
	return e
}

func vC19AddrOfIP(ip net.IP) (netip.Addr, bool) {
	if v4 := ip.To4(); v4 != nil {
		return netip.AddrFromSlice(v4)
	}
	return netip.AddrFromSlice(ip)
}

// independent judgement of a forwarded option
func vC19ForwardedOK(p *ecs.Policy, in, out *dns.EDNS0_SUBNET) string {
	if p == nil || in == nil {
		return "option produced without a policy / without an input"
	}
	ia, ok := vC19AddrOfIP(in.Address)
	if !ok {
		return "option produced from an unusable address"
	}
	var ceil int
	switch out.Family {
	case 1:
		ceil = int(p.ForwardV4Max)
		if !ia.Is4() || len(out.Address) != 4 {
			return "family 1 with a non-IPv4 address"
		}
	case 2:
		ceil = int(p.ForwardV6Max)
		if !ia.Is6() || ia.Is4In6() || len(out.Address) != 16 {
			return "family 2 with a non-IPv6 address"
		}
	default:
		return fmt.Sprintf("family %d forwarded", out.Family)
	}
	if out.Family != in.Family {
		return "family changed"
	}
	if int(out.SourceNetmask) > ceil || out.SourceNetmask > in.SourceNetmask {
		return fmt.Sprintf("source prefix /%d beyond ceiling /%d or client /%d", out.SourceNetmask, ceil, in.SourceNetmask)
	}
	if out.SourceScope != 0 {
		return "query SCOPE not 0"
	}
	oa, ok := netip.AddrFromSlice(out.Address)
	if !ok {
		return "bad output address"
	}
	want, err := ia.Prefix(int(out.SourceNetmask))
	if err != nil {
		return "prefix length beyond the address width"
	}
	if netip.PrefixFrom(oa, int(out.SourceNetmask)).Masked().Addr() != oa {
		return "host bits set in forwarded address " + oa.String()
	}
	if want.Addr() != oa {
		return fmt.Sprintf("forwarded %s, client network is %s", oa, want.Addr())
	}
	return ""
}

func vC19Extra(extra []dns.RR) string {
	var s []string
	for _, rr := range extra {
		if o, ok := rr.(*dns.OPT); ok {
			s = append(s, fmt.Sprintf("ROpt (mk_optrr %d %s)", o.Version(), vC19Opts(o.Option)))
		} else {
			s = append(s, "ROther")
		}
	}
	return "[" + strings.Join(s, "; ") + "]"
}

func vC19GenOption(r *rand.Rand, p *ecs.Policy) dns.EDNS0 {
	switch r.Intn(9) {
	case 0:
		return &dns.EDNS0_COOKIE{Code: dns.EDNS0COOKIE, Cookie: "0011223344556677"}
	case 1:
		return &dns.EDNS0_NSID{Code: dns.EDNS0NSID}
	case 2:
		return &dns.EDNS0_PADDING{Padding: make([]byte, r.Intn(8))}
	case 3:
		return &dns.EDNS0_TCP_KEEPALIVE{Code: dns.EDNS0TCPKEEPALIVE}
	case 4:
		return &dns.EDNS0_LOCAL{Code: uint16(65001 + r.Intn(20)), Data: []byte{1, 2, 3}}
	}
	return vC19GenECS(r, p)
}

func vC19GenExtra(r *rand.Rand, p *ecs.Policy) []dns.RR {
	var extra []dns.RR
	nopt := 1
	switch r.Intn(40) {
	case 0, 1, 2, 3:
		nopt = 0
	case 4, 5:
		nopt = 2
	case 6:
		nopt = 3
	}
	other := func() {
		if r.Intn(5) == 0 {
			extra = append(extra, &dns.A{Hdr: dns.RR_Header{Name: "ns.example.", Rrtype: dns.TypeA, Class: dns.ClassINET, Ttl: 60}, A: net.IPv4(192, 0, 2, 1).To4()})
		}
	}
	other()
	for i := 0; i < nopt; i++ {
		o := &dns.OPT{Hdr: dns.RR_Header{Name: ".", Rrtype: dns.TypeOPT}}
		o.SetUDPSize(uint16([]int{0, 512, 1232, 4096, 65535}[r.Intn(5)]))
		if r.Intn(2) == 0 {
			o.SetDo()
		}
		if r.Intn(15) == 0 {
			o.SetVersion(uint8(1 + r.Intn(3)))
		}
		cnt := r.Intn(4)
		if r.Intn(3) == 0 {
			cnt = 1
		}
		for j := 0; j < cnt; j++ {
			o.Option = append(o.Option, vC19GenOption(r, p))
		}
		extra = append(extra, o)
		other()
	}
	return extra
}

func vC19Eligible(p *ecs.Policy, client netip.Addr) bool {
	if p == nil || !p.Enabled || !client.IsValid() {
		return false
	}
	if len(p.ClientNetworks) == 0 {
		return true
	}
	for _, q := range p.ClientNetworks {
		if q.Masked().Contains(client) {
			return true
		}
	}
	return false
}

// independent privacy oracle for an upstream-bound additional section
func vC19UpstreamOK(p *ecs.Policy, client netip.Addr, before []*dns.EDNS0_SUBNET, after []dns.RR) string {
	necs := 0
	for _, rr := range after {
		o, ok := rr.(*dns.OPT)
		if !ok {
			continue
		}
		for _, opt := range o.Option {
			e, isECS := opt.(*dns.EDNS0_SUBNET)
			if !isECS {
				return fmt.Sprintf("client option code %d survived", opt.Option())
			}
			necs++
			if !vC19Eligible(p, client) {
				return fmt.Sprintf("subnet option %s forwarded for an ineligible client %s", e.String(), client)
			}
			why := "no client subnet option to derive it from"
			for _, in := range before {
				if why = vC19ForwardedOK(p, in, e); why == "" {
					break
				}
			}
			if why != "" {
				return "forwarded subnet option " + e.String() + ": " + why
			}
		}
	}
	if necs > 1 {
		return "more than one subnet option forwarded"
	}
	return ""
}

func vC19SnapECS(extra []dns.RR) (all []*dns.EDNS0_SUBNET, leftovers bool, nopt int) {
	last := -1
	for i, rr := range extra {
		if _, ok := rr.(*dns.OPT); ok {
			last = i
			nopt++
		}
	}
	for i, rr := range extra {
		o, ok := rr.(*dns.OPT)
		if !ok {
			continue
		}
		if i != last && len(o.Option) > 0 {
			leftovers = true
		}
		for _, opt := range o.Option {
			if e, ok := opt.(*dns.EDNS0_SUBNET); ok {
				c := *e
				c.Address = append(net.IP(nil), e.Address...)
				if e.Address == nil {
					c.Address = nil
				}
				all = append(all, &c)
			}
		}
	}
	return
}

// a transport with an arbitrary remote address
type vC19Writer struct {
	proto  string
	remote net.IP
	msg    *dns.Msg
	raw    []byte // the octets of a reply that arrived packed (the byte path)
	bad    string // why they do not unpack, if they do not
}

func (w *vC19Writer) LocalAddr() net.Addr {
	if w.proto == "tcp" {
		return &net.TCPAddr{IP: net.IPv4(127, 0, 0, 1), Port: 53}
	}
	return &net.UDPAddr{IP: net.IPv4(127, 0, 0, 1), Port: 53}
}
func (w *vC19Writer) RemoteAddr() net.Addr {
	if w.proto == "tcp" {
		return &net.TCPAddr{IP: w.remote, Port: 40000}
	}
	return &net.UDPAddr{IP: w.remote, Port: 40000}
}
func (w *vC19Writer) WriteMsg(m *dns.Msg) error { w.msg = m; return nil }
func (w *vC19Writer) Write(b []byte) (int, error) {
	// like a socket: the octets are gone whatever they are; whether they are a message is judged afterwards
	w.raw = append([]byte(nil), b...)
	m := new(dns.Msg)
	if err := m.Unpack(b); err != nil {
		w.msg, w.bad = nil, err.Error()
		return len(b), nil
	}
	w.msg = m
	return len(b), nil
}
func (w *vC19Writer) Close() error  { return nil }
func (w *vC19Writer) Proto() string { return w.proto }

func vC19RemoteIP(r *rand.Rand, b vC19BuildArgs) net.IP {
	is4 := r.Intn(3) != 0
	a := vC19RandAddr(r, is4)
	if len(b.nets) > 0 && r.Intn(2) == 0 {
		if p, err := netip.ParsePrefix(b.nets[r.Intn(len(b.nets))]); err == nil {
			a = p.Masked().Addr()
		}
	}
	ip := net.IP(a.AsSlice())
	if a.Is4() && r.Intn(2) == 0 {
		ip = ip.To16() // the form net.ResolveUDPAddr produces
	}
	switch r.Intn(40) {
	case 0:
		ip = nil
	case 1:
		ip = ip[:3]
	}
	return ip
}

// one EDNS option as wire bytes
func vC19WireOption(code uint16, data []byte) []byte {
	b := make([]byte, 4, 4+len(data))
	binary.BigEndian.PutUint16(b[0:], code)
	binary.BigEndian.PutUint16(b[2:], uint16(len(data)))
	return append(b, data...)
}

func vC19WireECS(r *rand.Rand, b vC19BuildArgs) []byte {
	fam := 1 + r.Intn(2)
	w := 32
	if fam == 2 {
		w = 128
	}
	a := vC19RandAddr(r, fam == 1).AsSlice()
	mask := r.Intn(w + 1)
	switch r.Intn(4) {
	case 0:
		mask = []int{0, 1, w - 1, w}[r.Intn(4)]
	case 1:
		c := []int{int(b.f4), int(b.f6), 24, 56}[r.Intn(4)] + r.Intn(3) - 1
		if c >= 0 && c <= w {
			mask = c
		}
	}
	n := (mask + 7) / 8
	switch r.Intn(5) {
	case 0:
		n = len(a) // whole address although the mask is shorter: host bits on the wire
	case 1:
		if n < len(a) {
			n++
		}
	}
	data := []byte{0, byte(fam), byte(mask), 0}
	data = append(data, a[:n]...)
	switch r.Intn(25) {
	case 0, 2, 3: // the opt-out form: family 0, source 0, no address
		data[1] = 0
		data[2] = 0
		data = data[:4]
	case 1:
		data[3] = byte(r.Intn(w + 1)) // a client-sent SCOPE
	}
	return vC19WireOption(dns.EDNS0SUBNET, data)
}

// returns the packet, whether a subnet option was put into it, where the first additional record
// starts and how many OPT records were appended
func vC19WireQuery(r *rand.Rand, b vC19BuildArgs) ([]byte, bool, int, int) {
	q := new(dns.Msg)
	q.SetQuestion("www.example.org.", dns.TypeA)
	q.RecursionDesired = true
	q.CheckingDisabled = r.Intn(6) == 0
	raw, _ := q.Pack()
	optOff := len(raw)
	nopt := 1
	switch r.Intn(20) {
	case 0, 1:
		nopt = 0
	case 2:
		nopt = 2
	}
	hasECS := false
	for i := 0; i < nopt; i++ {
		var rd []byte
		cnt := r.Intn(4)
		for j := 0; j < cnt; j++ {
			switch r.Intn(8) {
			case 0:
				rd = append(rd, vC19WireOption(dns.EDNS0COOKIE, []byte{1, 2, 3, 4, 5, 6, 7, 8})...)
			case 1:
				rd = append(rd, vC19WireOption(dns.EDNS0NSID, nil)...)
			case 2:
				rd = append(rd, vC19WireOption(dns.EDNS0PADDING, make([]byte, r.Intn(6)))...)
			case 3:
				if r.Intn(2) == 0 {
					rd = append(rd, vC19WireOption(dns.EDNS0TCPKEEPALIVE, nil)...)
				} else {
					rd = append(rd, vC19WireOption(uint16(65001+r.Intn(5)), []byte{9})...)
				}
			default:
				rd = append(rd, vC19WireECS(r, b)...)
				hasECS = true
			}
		}
		size := []int{512, 1232, 4096}[r.Intn(3)]
		ver := byte(0)
		if r.Intn(12) == 0 {
			ver = byte(1 + r.Intn(2))
		}
		flags := uint16(0)
		if r.Intn(2) == 0 {
			flags = 0x8000
		}
		rr := []byte{0, 0, 41, byte(size >> 8), byte(size), 0, ver, byte(flags >> 8), byte(flags), byte(len(rd) >> 8), byte(len(rd))}
		raw = append(raw, append(rr, rd...)...)
	}
	binary.BigEndian.PutUint16(raw[10:], uint16(nopt))
	return raw, hasECS, optOff, nopt
}

// a Coq list of octets
func vC19Octets(b []byte) string {
	parts := make([]string, len(b))
	for i, x := range b {
		parts[i] = strconv.Itoa(int(x))
	}
	return "([" + strings.Join(parts, ";") + "]%N)"
}

func vC19Counts(m *dns.Msg) (string, bool) {
	var s []string
	any := false
	for _, rr := range m.Extra {
		if o, ok := rr.(*dns.OPT); ok {
			n := 0
			for _, x := range o.Option {
				if _, isECS := x.(*dns.EDNS0_SUBNET); isECS {
					n++
				}
			}
			if n > 0 {
				any = true
			}
			s = append(s, fmt.Sprintf("%d%%N", n))
		}
	}
	return "[" + strings.Join(s, "; ") + "]", any
}

// regressions for the former findings multi-opt-response-ecs and badvers-ecs-reflected (fixed by
// fb9758c), replayed on the real code on every run
func vC19EdnsReplays(tr *vC19Trace) {
	// (1) downstream response with two OPT records, the first carrying a subnet option
	{
		e := New(&config.Config{})
		req := new(dns.Msg)
		req.SetQuestion("www.example.org.", dns.TypeA)
		req.SetEdns0(1232, false)
		for _, big := range []bool{false, true} {
			w := &vC19Writer{proto: "udp", remote: net.IP{198, 51, 100, 9}}
			q := req.Copy()
			if big {
				q.IsEdns0().SetUDPSize(512)
			}
			next := middleware.HandlerFunc(func(ctx context.Context, ch *middleware.Chain) {
				resp := new(dns.Msg)
				resp.SetReply(ch.Request.Msg())
				if big {
					for i := 0; i < 60; i++ {
						resp.Answer = append(resp.Answer, &dns.TXT{Hdr: dns.RR_Header{Name: "www.example.org.", Rrtype: dns.TypeTXT, Class: dns.ClassINET, Ttl: 60}, Txt: []string{fmt.Sprintf("record-%d-xxxxxxxxxxxxxxxx", i)}})
					}
				}
				o1 := &dns.OPT{Hdr: dns.RR_Header{Name: ".", Rrtype: dns.TypeOPT}}
				o1.SetUDPSize(1232)
				o1.Option = []dns.EDNS0{&dns.EDNS0_SUBNET{Code: dns.EDNS0SUBNET, Family: 1, SourceNetmask: 24, SourceScope: 24, Address: net.IP{203, 0, 113, 0}}}
				o2 := &dns.OPT{Hdr: dns.RR_Header{Name: ".", Rrtype: dns.TypeOPT}}
				o2.SetUDPSize(1232)
				resp.Extra = []dns.RR{o1, o2}
				_ = ch.Writer.WriteMsg(resp)
				ch.Cancel()
			})
			ch := middleware.NewChain([]middleware.Handler{e, next})
			ch.Reset(w, q)
			ch.Next(context.Background())
			if w.msg == nil {
				continue
			}
			counts, leaked := vC19Counts(w.msg)
			goFail := ""
			if leaked {
				goFail = "client reply carries a subnet option"
			}
			var rdesc []string
			for _, rr := range w.msg.Extra {
				rdesc = append(rdesc, rr.String())
			}
			tr.emit(map[string]any{"k": "replay-two-opt-reply", "coq": fmt.Sprintf("CaseEdnsReply false %s [[OEcs (mk_ecs 1 24 24 (mk_ipb 4 3405803776))]; []] %s", vC19Bool(w.msg.Truncated), counts),
				"go_fail": goFail, "nontrivial": true, "desc": map[string]any{"reply_extra": rdesc, "truncated": w.msg.Truncated}})
		}
	}
	// (2) EDNS version 1 with a subnet option, forwarding enabled for everyone
	{
		b := vC19BuildArgs{enabled: true}
		cfg := &config.Config{}
		cfg.ECS = config.ECSConfig{Enabled: true}
		e := New(cfg)
		req := new(dns.Msg)
		req.SetQuestion("www.example.org.", dns.TypeA)
		o := &dns.OPT{Hdr: dns.RR_Header{Name: ".", Rrtype: dns.TypeOPT}}
		o.SetUDPSize(1232)
		o.SetVersion(1)
		o.Option = []dns.EDNS0{&dns.EDNS0_SUBNET{Code: dns.EDNS0SUBNET, Family: 1, SourceNetmask: 32, Address: net.IP{203, 0, 113, 77}}}
		req.Extra = []dns.RR{o}
		extraIn := vC19Extra(req.Extra)
		remote := net.IP{203, 0, 113, 77}
		w := &vC19Writer{proto: "udp", remote: remote}
		ch := middleware.NewChain([]middleware.Handler{e, middleware.HandlerFunc(func(ctx context.Context, ch *middleware.Chain) {})})
		ch.Reset(w, req)
		ch.Next(context.Background())
		if w.msg != nil {
			counts, leaked := vC19Counts(w.msg)
			goFail := ""
			if leaked {
				goFail = "BADVERS reply carries a subnet option"
			}
			var rdesc []string
			for _, rr := range w.msg.Extra {
				rdesc = append(rdesc, rr.String())
			}
			tr.emit(map[string]any{"k": "replay-badvers-reply", "coq": fmt.Sprintf("CaseEdnsBadvers %s %s %s %s", b.coq(), vC19Bytes(remote), extraIn, counts),
				"go_fail": goFail, "nontrivial": true, "desc": map[string]any{"rcode": w.msg.Rcode, "reply_extra": rdesc}})
		}
	}
}

func TestVerifC19Edns(t *testing.T) {
	tr := vC19Open(t)
	defer tr.f.Close()
	vC19EdnsReplays(tr)
	r := rand.New(rand.NewSource(int64(vC19EnvInt("VERIF_SEED", 1))))
	n := vC19EnvInt("VERIF_N", 1200)
	wireCases := 0
	for c := 0; c < n; c++ {
		b := vC19GenBuildArgs(r)
		if r.Intn(3) != 0 { // mostly an enabled, valid policy
			b.enabled = true
			if b.f4 > 32 {
				b.f4 = 24
			}
			if b.f6 > 128 {
				b.f6 = 0
			}
			if b.m4 > 32 {
				b.m4 = 0
			}
			if b.m6 > 128 {
				b.m6 = 56
			}
			var good []string
			for _, s := range b.nets {
				if _, err := netip.ParsePrefix(s); err == nil {
					good = append(good, s)
				}
			}
			b.nets = good
			if r.Intn(2) == 0 {
				b.nets = nil
			}
		}
		remote := vC19RemoteIP(r, b)
		if (len(remote) == 4 || len(remote) == 16) && r.Intn(12) == 0 {
			// client_networks names this very client by its bare host address (no prefix length): a form
			// ecs.Build refuses — the whole [ecs] block is invalid, nothing may be forwarded
			b.nets = append(append([]string(nil), b.nets...), remote.String())
		}
		cfg := &config.Config{CookieSecret: "verif-secret"}
		if r.Intn(2) == 0 {
			cfg.NSID = "sdns-verif"
		}
		cfg.ECS = config.ECSConfig{Enabled: b.enabled, ForwardV4Max: b.f4, ForwardV6Max: b.f6, MinScopeV4: b.m4, MinScopeV6: b.m6, ClientNetworks: b.nets}
		e := New(cfg)
		pol := e.ecsPolicy
		proto := "udp"
		if r.Intn(4) == 0 {
			proto = "tcp"
		}
		w := &vC19Writer{proto: proto, remote: remote}

		// the query
		var (
			msg     *dns.Msg
			wireReq middleware.Request
			wired   bool
		)
		if r.Intn(8) == 0 { // decoded message the packer would refuse
			msg = new(dns.Msg)
			msg.SetQuestion("www.example.org.", dns.TypeA)
			msg.RecursionDesired = true
			msg.Extra = vC19GenExtra(r, pol)
		} else {
			raw, _, optOff, nopt := vC19WireQuery(r, b)
			if wireCases%2 == 0 {
				// the strict parser alone (Request.ParseWire -> parseWireOPT(optOff)), against the translated
				// function: admitted?  and the facts it leaves on the request
				var pr middleware.Request
				adm := pr.ParseWire(append([]byte(nil), raw...), time.Now(), nil)
				e, ns, ka := false, false, false
				if adm {
					e, ns, ka = pr.HasECS(), pr.HasNSID(), pr.HasTCPKeepalive()
				}
				k := "wire-opt-refused"
				if adm {
					k = "wire-opt-admitted"
					if e {
						k += "-ecs"
					}
				}
				if nopt != 1 {
					optOff = -1 // no single OPT: only the whole-packet model applies
					k += fmt.Sprintf("-%dopt", nopt)
				}
				tr.emit(map[string]any{"k": k, "coq": fmt.Sprintf("CaseWireOPT %s (%d)%%Z %s %s %s %s", vC19Octets(raw), optOff, vC19Bool(adm), vC19Bool(e), vC19Bool(ns), vC19Bool(ka)),
					"go_fail": "", "nontrivial": true,
					"desc": map[string]any{"packet": hex.EncodeToString(raw), "opt_offset": optOff, "admitted": adm, "has_ecs": e, "has_nsid": ns, "has_keepalive": ka}})
			}
			wireCases++
			msg = new(dns.Msg)
			if err := msg.Unpack(raw); err != nil {
				c--
				continue // the server answers FORMERR before any handler runs
			}
			if r.Intn(3) != 0 && wireReq.ParseWire(raw, time.Now(), nil) {
				wired = true
			}
		}
		extraIn := vC19Extra(msg.Extra)
		snap, leftovers, nopt := vC19SnapECS(msg.Extra)
		anyECS := len(snap) > 0
		clientAddr, _ := netip.AddrFromSlice(remote)
		clientAddr = clientAddr.Unmap()
		var qdesc []string
		for _, rr := range msg.Extra {
			qdesc = append(qdesc, rr.String())
		}
		noedns := msg.IsEdns0() == nil
		reqOPT := msg.IsEdns0()
		// facts the layer composes its reply OPT from, read off the query BEFORE the handler runs: on the
		// message-born path SetEdns0 empties the selected OPT of this very message
		hasCookie, hasNSID, hasKA := false, false, false
		clientDO := reqOPT != nil && reqOPT.Do()
		if reqOPT != nil {
			for _, o := range reqOPT.Option {
				switch x := o.(type) {
				case *dns.EDNS0_COOKIE:
					if len(x.Cookie) >= 16 {
						hasCookie = true
					}
				case *dns.EDNS0_NSID:
					hasNSID = true
				case *dns.EDNS0_TCP_KEEPALIVE:
					hasKA = true
				}
			}
		}

		// scripted next handler
		called, marker := false, false
		var seen []dns.RR
		seenCoq := ""
		respCoq := ""
		var respDesc []string
		big := r.Intn(6) == 0
		tryBytes, bytesEDE, wroteBytes := r.Intn(3) == 0, r.Intn(2) == 0, false
		bodyLen := 0
		next := middleware.HandlerFunc(func(ctx context.Context, ch *middleware.Chain) {
			called = true
			marker = middleware.HasClientECS(ctx)
			um := ch.Request.Msg()
			seen = um.Copy().Extra // snapshot: the reply path may append to the live OPT
			seenCoq = vC19Extra(um.Extra)
			resp := new(dns.Msg)
			resp.SetReply(um)
			resp.RecursionAvailable = true
			cnt := 1
			if big {
				cnt = 60
			}
			for i := 0; i < cnt; i++ {
				resp.Answer = append(resp.Answer, &dns.TXT{Hdr: dns.RR_Header{Name: "www.example.org.", Rrtype: dns.TypeTXT, Class: dns.ClassINET, Ttl: 60}, Txt: []string{fmt.Sprintf("record-%d-xxxxxxxxxxxxxxxx", i)}})
			}
			var lists []string
			nro := []int{0, 0, 1, 1, 1, 1, 1, 1, 1, 2}[r.Intn(10)]
			for i := 0; i < nro; i++ {
				var o *dns.OPT
				if um.IsEdns0() != nil && r.Intn(3) == 0 {
					o = um.IsEdns0() // the resolver re-attaches the request's own OPT
				} else {
					o = &dns.OPT{Hdr: dns.RR_Header{Name: ".", Rrtype: dns.TypeOPT}}
					o.SetUDPSize(1232)
					for j := r.Intn(3); j > 0; j-- {
						x := vC19GenOption(r, pol)
						if s, ok := x.(*dns.EDNS0_SUBNET); ok && r.Intn(2) == 0 {
							s.SourceScope = s.SourceNetmask
						}
						o.Option = append(o.Option, x)
					}
				}
				dup := false
				for _, rr := range resp.Extra {
					if rr == dns.RR(o) {
						dup = true
					}
				}
				if dup {
					continue
				}
				resp.Extra = append(resp.Extra, o)
				lists = append(lists, vC19Opts(o.Option))
				respDesc = append(respDesc, o.String())
			}
			respCoq = "[" + strings.Join(lists, "; ") + "]"
			if tryBytes {
				// the byte path: a packed body without OPT handed to the writer chain, as the cache's
				// wire serving does; the edns layer appends the per-client OPT
				if ww, ok := ch.Writer.(middleware.WireWriter); ok {
					if _, ready := ww.WireReady(); ready {
						plain := new(dns.Msg)
						plain.SetReply(um)
						plain.RecursionAvailable = true
						plain.Answer = resp.Answer[:1]
						if body, err := plain.Pack(); err == nil {
							buf := make([]byte, len(body), len(body)+512)
							copy(buf, body)
							info := middleware.WireInfo{Rcode: dns.RcodeSuccess, HasEDE: bytesEDE, EDECode: dns.ExtendedErrorCodeStaleAnswer, EDEText: "verif"}
							if err := ww.WriteWire(buf, info); err == nil {
								wroteBytes = true
								bodyLen = len(body)
								ch.Cancel()
								return
							}
						}
					}
				}
			}
			_ = ch.Writer.WriteMsg(resp)
			ch.Cancel()
		})
		ch := middleware.NewChain([]middleware.Handler{e, next})
		if wired {
			ch.ResetWire(w, &wireReq)
		} else {
			ch.Reset(w, msg)
		}
		if tryBytes {
			ch.AllowDirectPack()
		}
		ch.Next(context.Background())

		path := "msg"
		if wired {
			path = "wire"
		}
		remoteCoq := vC19Bytes(remote)
		if called {
			goFail := vC19UpstreamOK(pol, clientAddr, snap, seen)
			if anyECS && !marker && goFail == "" {
				goFail = "client sent a subnet option but the request tree is not marked"
			}
			_, _ = nopt, leftovers
			fw := strings.Contains(seenCoq, "OEcs")
			k := "edns-req-" + path
			if fw {
				k += "-forwarded"
			} else if anyECS {
				k += "-stripped"
			}
			var sdesc []string
			for _, rr := range seen {
				sdesc = append(sdesc, rr.String())
			}
			tr.emit(map[string]any{"k": k, "coq": fmt.Sprintf("CaseEdnsReq %s %s %s %s (Some %s)", b.coq(), remoteCoq, extraIn, vC19Bool(marker), seenCoq),
				"go_fail": goFail, "nontrivial": anyECS,
				"desc": map[string]any{"ecs_cfg": fmt.Sprintf("%+v", b), "remote": remote.String(), "path": path, "query_extra": qdesc, "upstream_extra": sdesc, "marker": marker}})
			if w.msg == nil && wroteBytes && w.raw != nil {
				tr.emit(map[string]any{"k": "edns-reply-bytes-malformed", "go_fail": "the byte-path reply is not a well-formed message: " + w.bad, "nontrivial": true,
					"desc": map[string]any{"proto": proto, "path": path, "body_len": bodyLen, "reply": hex.EncodeToString(w.raw)}})
			}
			if w.msg != nil && wroteBytes {
				var codes []string
				nOPT := 0
				for _, rr := range w.msg.Extra {
					if o, ok := rr.(*dns.OPT); ok {
						nOPT++
						for _, x := range o.Option {
							codes = append(codes, fmt.Sprintf("%d%%N", x.Option()))
						}
					}
				}
				obs := "None"
				if nOPT > 0 {
					obs = "(Some [" + strings.Join(codes, "; ") + "])"
				}
				goFail2 := ""
				if _, leaked := vC19Counts(w.msg); leaked {
					goFail2 = "byte-path reply carries a subnet option"
				}
				if nOPT > 1 || (noedns && nOPT > 0) {
					goFail2 = fmt.Sprintf("byte-path reply carries %d OPT records (client OPT: %v)", nOPT, !noedns)
				}
				var rdesc []string
				for _, rr := range w.msg.Extra {
					rdesc = append(rdesc, rr.String())
				}
				tr.emit(map[string]any{"k": "edns-reply-bytes", "coq": fmt.Sprintf("CaseEdnsWire %s %s %s %s %s %s", vC19Bool(noedns), vC19Bool(hasCookie),
					vC19Bool(hasNSID && cfg.NSID != ""), vC19Bool(hasKA && proto == "tcp"), vC19Bool(bytesEDE), obs),
					"go_fail": goFail2, "nontrivial": fw || !noedns,
					"desc": map[string]any{"proto": proto, "path": path, "nsid_configured": cfg.NSID != "", "forwarded_ecs_on_request_opt": fw, "reply_extra": rdesc}})
				if !noedns && w.raw != nil && bodyLen >= 12 && len(w.raw) >= bodyLen {
					// byte for byte: what the layer appended to the packed body, against the model composed
					// from the translated internal/wire builders.  The server cookie is a digest: the
					// observed one is handed to the model as a fact (its place, length and framing are compared)
					appended := w.raw[bodyLen:]
					cookieFact, nsidFact, edeFact := "None", "None", "None"
					goFail3 := ""
					if hasCookie {
						var got []byte
						for _, rr := range w.msg.Extra {
							if o, ok := rr.(*dns.OPT); ok {
								for _, x := range o.Option {
									if ck, ok := x.(*dns.EDNS0_COOKIE); ok {
										got, _ = hex.DecodeString(ck.Cookie)
									}
								}
							}
						}
						cookieFact = "(Some " + vC19Octets(got) + ")"
						if len(got) != 40 { // 8 octets of the client's cookie + a SHA-256 digest
							goFail3 = fmt.Sprintf("server cookie of %d octets on the byte path", len(got))
						}
					}
					if hasNSID && cfg.NSID != "" {
						nsidFact = "(Some " + vC19Octets([]byte(cfg.NSID)) + ")"
					}
					if bytesEDE {
						edeFact = fmt.Sprintf("(Some (%d%%N, %s))", dns.ExtendedErrorCodeStaleAnswer, vC19Octets([]byte("verif")))
					}
					if binary.BigEndian.Uint16(w.raw[10:12]) != 1 {
						goFail3 = fmt.Sprintf("ARCOUNT %d after appending one OPT to a body without additional records", binary.BigEndian.Uint16(w.raw[10:12]))
					}
					tr.emit(map[string]any{"k": "edns-reply-bytes-octets", "coq": fmt.Sprintf("CaseEdnsWireBytes %d (mk_wire_facts %d %s %s %s %s %s) %s",
						bodyLen, dnsutil.DefaultMsgSize, vC19Bool(clientDO), cookieFact, nsidFact, vC19Bool(hasKA && proto == "tcp"), edeFact, vC19Octets(appended)),
						"go_fail": goFail3, "nontrivial": true,
						"desc": map[string]any{"proto": proto, "path": path, "body_len": bodyLen, "appended": hex.EncodeToString(appended), "reply_extra": rdesc}})
				}
			} else if w.msg != nil {
				counts, leaked := vC19Counts(w.msg)
				trunc := w.msg.Truncated
				goFail2 := ""
				if leaked {
					goFail2 = "client reply carries a subnet option"
				}
				if strings.Count(counts, "N") > 1 {
					goFail2 = "client reply carries more than one OPT record"
				}
				var rdesc []string
				for _, rr := range w.msg.Extra {
					rdesc = append(rdesc, rr.String())
				}
				k2 := "edns-reply"
				if noedns {
					k2 = "edns-reply-noedns"
				} else if trunc {
					k2 = "edns-reply-truncated"
				}
				tr.emit(map[string]any{"k": k2, "coq": fmt.Sprintf("CaseEdnsReply %s %s %s %s", vC19Bool(noedns), vC19Bool(trunc), respCoq, counts),
					"go_fail": goFail2, "nontrivial": strings.Contains(respCoq, "OEcs") || fw,
					"desc": map[string]any{"proto": proto, "downstream_opts": respDesc, "reply_extra": rdesc, "truncated": trunc}})
			}
		} else if w.msg != nil && reqOPT != nil {
			// BADVERS (or another early reply)
			tr.emit(map[string]any{"k": "edns-req-" + path + "-badvers", "coq": fmt.Sprintf("CaseEdnsReq %s %s %s false None", b.coq(), remoteCoq, extraIn),
				"go_fail": "", "nontrivial": true, "desc": map[string]any{"rcode": w.msg.Rcode}})
			counts, leaked := vC19Counts(w.msg)
			goFail := ""
			if leaked {
				goFail = "BADVERS reply carries a subnet option"
			}
			var rdesc []string
			for _, rr := range w.msg.Extra {
				rdesc = append(rdesc, rr.String())
			}
			tr.emit(map[string]any{"k": "edns-badvers-reply", "coq": fmt.Sprintf("CaseEdnsBadvers %s %s %s %s", b.coq(), remoteCoq, extraIn, counts),
				"go_fail": goFail, "nontrivial": anyECS,
				"desc": map[string]any{"ecs_cfg": fmt.Sprintf("%+v", b), "remote": remote.String(), "query_extra": qdesc, "reply_extra": rdesc, "rcode": w.msg.Rcode}})
		}
	}
}
