//go:build verif

package edns

// C01 driver E: AD discipline of the edns layer toward the client. The real
// handler sits in a chain ahead of a stub that answers with AD set or clear,
// through WriteMsg (decoded requests) and through WriteWire (wire-born
// requests); every combination of the client's DO / CD / AD / EDNS presence.

import (
	"context"
	"encoding/json"
	"fmt"
	"net"
	"os"
	"testing"
	"time"

	"github.com/miekg/dns"
	"github.com/semihalev/sdns/config"
	"github.com/semihalev/sdns/internal/mock"
	"github.com/semihalev/sdns/middleware"
)

type vC01Stub struct {
	ad   bool
	wire bool
	used string
}

func (s *vC01Stub) Name() string { return "verifstub" }
func (s *vC01Stub) ServeDNS(ctx context.Context, ch *middleware.Chain) {
	_, req := ch.Materialize(ctx)
	if s.wire && ch.Request.Undecoded() {
		req = nil
	}
	m := new(dns.Msg)
	if req != nil {
		m.SetReply(req)
	} else {
		q := new(dns.Msg)
		_ = q.Unpack(ch.Request.Raw())
		m.SetReply(q)
	}
	m.Answer = []dns.RR{&dns.A{Hdr: dns.RR_Header{Name: m.Question[0].Name, Rrtype: dns.TypeA, Class: dns.ClassINET, Ttl: 60}, A: net.IPv4(192, 0, 2, 1).To4()}}
	m.AuthenticatedData = s.ad
	m.Extra = nil
	if s.wire {
		if ww, ok := ch.Writer.(middleware.WireWriter); ok {
			if _, ready := ww.WireReady(); ready {
				body, err := m.Pack()
				if err == nil {
					buf := make([]byte, len(body), len(body)+512)
					copy(buf, body)
					if err := ww.WriteWire(buf, middleware.WireInfo{Rcode: 0, AuthenticatedData: s.ad}); err == nil {
						s.used = "wire"
						return
					}
				}
			}
		}
	}
	s.used = "msg"
	_ = ch.Writer.WriteMsg(m)
}

// a transport that also takes wire bodies
type vC01Sink struct {
	*mock.Writer
	wire []byte
}

func (w *vC01Sink) WireReady() (middleware.WireCapability, bool) {
	return middleware.WireCapability{}, true
}
func (w *vC01Sink) WriteWire(body []byte, _ middleware.WireInfo) error {
	w.wire = append([]byte(nil), body...)
	return nil
}

func TestVerifC01Edns(t *testing.T) {
	p := os.Getenv("VERIF_OUT")
	if p == "" {
		t.Skip("VERIF_OUT not set")
	}
	f, err := os.Create(p)
	if err != nil {
		t.Fatal(err)
	}
	defer f.Close()
	cfg := new(config.Config)
	e := New(cfg)
	b := func(x bool) string {
		if x {
			return "true"
		}
		return "false"
	}
	for mask := 0; mask < 64; mask++ {
		do, cd, ad, ed, respAD, wire := mask&1 != 0, mask&2 != 0, mask&4 != 0, mask&8 != 0, mask&16 != 0, mask&32 != 0
		if !ed {
			do = false
		}
		req := new(dns.Msg)
		req.SetQuestion("example.test.", dns.TypeA)
		req.CheckingDisabled, req.AuthenticatedData = cd, ad
		if ed {
			req.SetEdns0(1232, do)
		}
		stub := &vC01Stub{ad: respAD, wire: wire}
		ch := middleware.NewChain([]middleware.Handler{e, stub})
		sink := &vC01Sink{Writer: mock.NewWriter("tcp", "192.0.2.9:5300")}
		path := "msg"
		if wire {
			raw, _ := req.Pack()
			r := new(middleware.Request)
			if r.ParseWire(raw, time.Now(), nil) {
				ch.ResetWire(sink, r)
				ch.AllowDirectPack()
				path = "wire-born"
			} else {
				ch.Reset(sink, req)
			}
		} else {
			ch.Reset(sink, req)
			if mask&1 == 0 {
				ch.AllowDirectPack()
			}
		}
		ch.Next(context.Background())
		var got bool
		switch {
		case sink.wire != nil:
			m := new(dns.Msg)
			if err := m.Unpack(sink.wire); err != nil {
				continue
			}
			got = m.AuthenticatedData
		case sink.Msg() != nil:
			got = sink.Msg().AuthenticatedData
		default:
			continue
		}
		rec, _ := json.Marshal(map[string]any{"k": "edns-" + path + "-" + stub.used, "nontrivial": true,
			"coq":  fmt.Sprintf("CaseClientAD (mk_creq %s %s %s) %s %s", b(cd), b(do), b(ad), b(respAD), b(got)),
			"desc": map[string]any{"do": do, "cd": cd, "ad": ad, "edns": ed, "response_ad": respAD, "request": path, "writer": stub.used, "client_sees_ad": got}})
		f.Write(append(rec, '\n'))
	}
}
