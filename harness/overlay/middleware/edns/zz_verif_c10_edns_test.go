//go:build verif

package edns

// C10 driver "edns": consecutive wire-born requests of DIFFERENT clients through the
// real EDNS.serveWire on ONE job-owned wrapper slot (what udpJob.ednsWriter /
// tcpJob.ednsWriter is to a recycled slab): Request.ParseWire(raw, now, slot),
// Chain.ResetWire, [edns, scripted last handler], reply through WriteMsg or the
// byte path (WireReady / WriteWire), Chain.Finish. The requests' OPTs differ from
// one to the next: none, bare, DO, a client cookie of their own (8 or 24 octets),
// NSID, edns-tcp-keepalive, CD/AD bits, UDP sizes, udp/tcp.
//
// Observed per request: every field of the wrapper as the last handler sees it and
// as the serve leaves it behind, and what the reply's OPT shows of the client (OPT
// at all, DO, the client half of COOKIE, NSID, keepalive).

import (
	"context"
	"encoding/hex"
	"encoding/json"
	"fmt"
	"math/rand"
	"net/netip"
	"os"
	"path/filepath"
	"sort"
	"strconv"
	"strings"
	"testing"
	"time"

	"github.com/miekg/dns"
	"github.com/semihalev/sdns/config"
	"github.com/semihalev/sdns/internal/mock"
	"github.com/semihalev/sdns/middleware"
)

func vC10EBool(b bool) string {
	if b {
		return "true"
	}
	return "false"
}

func vC10EBytes(b []byte) string {
	p := make([]string, len(b))
	for i, x := range b {
		p[i] = strconv.Itoa(int(x))
	}
	return "[" + strings.Join(p, ";") + "]"
}

// vC10EView renders every per-request field of the wrapper, in struct order.
func vC10EView(rw *ResponseWriter) string {
	ck, _ := hex.DecodeString(rw.cookie)
	if rw.cookie != "" && ck == nil {
		ck = []byte(rw.cookie)
	}
	return fmt.Sprintf("(EV %s %d %s %s %s %s %s %d %s %s %s %s)", vC10EBool(rw.opt != nil), rw.size, vC10EBool(rw.do), vC10EBytes(ck),
		vC10EBool(rw.nsid), vC10EBool(rw.noedns), vC10EBool(rw.noad), rw.respUDPSize, vC10EBytes(rw.cookieRaw[:]),
		vC10EBool(rw.hasCookieRaw), vC10EBool(rw.keepalive), vC10EBool(rw.pooled))
}

type vC10EStep struct {
	// the request
	Client    int    `json:"client"`
	TCP       bool   `json:"tcp"`
	Opt       bool   `json:"opt"`
	Do        bool   `json:"do"`
	Cookie    string `json:"cookie"` // hex, "" = none
	Nsid      bool   `json:"nsid"`
	Keepalive bool   `json:"keepalive"`
	Cd        bool   `json:"cd"`
	Ad        bool   `json:"ad"`
	Size      int    `json:"size"`
	Path      int    `json:"path"` // 0 nothing written, 1 WriteMsg, 2 try the byte path first
}

type vC10ECorpus struct {
	Name  string       `json:"name"`
	Steps []vC10EStep `json:"steps"`
}

var vC10ECur struct {
	path    int
	taken   int
	mid     string
	midSeen bool
}

type vC10EStub struct{}

func (vC10EStub) Name() string { return "verifc10ednsstub" }
func (vC10EStub) ServeDNS(ctx context.Context, ch *middleware.Chain) {
	if rw, ok := ch.Writer.(*ResponseWriter); ok {
		vC10ECur.mid, vC10ECur.midSeen = vC10EView(rw), true
	}
	vC10ECur.taken = 0
	if vC10ECur.path == 0 {
		ch.Cancel()
		return
	}
	_, req := ch.Materialize(ctx)
	if req == nil {
		return
	}
	m := new(dns.Msg)
	m.SetReply(req)
	m.Extra = nil
	if len(req.Question) == 1 {
		m.Answer = []dns.RR{&dns.TXT{Hdr: dns.RR_Header{Name: req.Question[0].Name, Rrtype: dns.TypeTXT, Class: dns.ClassINET, Ttl: 30}, Txt: []string{req.Question[0].Name}}}
	}
	if vC10ECur.path == 2 {
		if ww, ok := ch.Writer.(middleware.WireWriter); ok {
			if capab, ready := ww.WireReady(); ready {
				m.Compress = true
				if body, err := m.Pack(); err == nil {
					buf := make([]byte, len(body), len(body)+capab.Reserve+64)
					copy(buf, body)
					if err := ww.WriteWire(buf, middleware.WireInfo{Rcode: m.Rcode}); err == nil {
						vC10ECur.taken = 2
						return
					}
				}
			}
		}
	}
	vC10ECur.taken = 1
	_ = ch.Writer.WriteMsg(m)
}

func vC10EGen(r *rand.Rand, client int) vC10EStep {
	st := vC10EStep{Client: client, TCP: r.Intn(3) == 0, Path: []int{1, 2, 2, 1, 2, 0}[r.Intn(6)], Cd: r.Intn(6) == 0, Ad: r.Intn(6) == 0, Size: 1232}
	if r.Intn(5) != 0 {
		st.Opt = true
		st.Do = r.Intn(3) == 0
		st.Size = []int{0, 300, 512, 1232, 1400, 4096, 65535}[r.Intn(7)]
		if r.Intn(2) == 0 {
			ck := []byte{0xC1, byte(client), byte(r.Intn(256)), byte(r.Intn(256)), byte(r.Intn(256)), byte(r.Intn(256)), 0, byte(client)}
			if r.Intn(3) == 0 { // client + a server cookie it was given earlier
				for i := 0; i < 16; i++ {
					ck = append(ck, byte(r.Intn(256)))
				}
			}
			st.Cookie = hex.EncodeToString(ck)
		}
		st.Nsid = r.Intn(4) == 0
		st.Keepalive = r.Intn(4) == 0
	}
	return st
}

func TestVerifC10Edns(t *testing.T) {
	out := os.Getenv("VERIF_OUT")
	if out == "" {
		t.Skip("VERIF_OUT not set")
	}
	f, err := os.Create(out)
	if err != nil {
		t.Fatal(err)
	}
	defer f.Close()
	seed, _ := strconv.Atoi(os.Getenv("VERIF_SEED"))
	n, _ := strconv.Atoi(os.Getenv("VERIF_N"))
	if n == 0 {
		n = 60
	}
	r := rand.New(rand.NewSource(int64(seed)*48271 + 10))

	cfg := new(config.Config)
	cfg.CookieSecret = "verif-c10-edns-secret"
	cfg.NSID = "c10-nsid"
	e := New(cfg)

	var corpus []vC10ECorpus
	if dir := os.Getenv("VERIF_CORPUS"); dir != "" {
		files, _ := filepath.Glob(filepath.Join(dir, "edns-*.json"))
		sort.Strings(files)
		for _, p := range files {
			if b, err := os.ReadFile(p); err == nil {
				var cs []vC10ECorpus
				if json.Unmarshal(b, &cs) == nil {
					corpus = append(corpus, cs...)
				}
			}
		}
	}

	for cn := -len(corpus); cn < n; cn++ {
		var steps []vC10EStep
		kind := "edns-slot"
		if cn < 0 {
			steps = corpus[cn+len(corpus)].Steps
			kind = "corpus:" + corpus[cn+len(corpus)].Name
		} else {
			ns := 2 + r.Intn(7)
			for i := 0; i < ns; i++ {
				steps = append(steps, vC10EGen(r, 1+r.Intn(5)))
			}
		}
		// the slab's own storage: one wrapper slot, one chain, one request, reused
		slot := new(ResponseWriter)
		ch := middleware.NewChain([]middleware.Handler{e, vC10EStub{}})
		var req middleware.Request
		var serves []string
		goFail := ""
		inconclusive := false
		replies, cookieThenBare := 0, false
		prevCookie := false
		for i, st := range steps {
			m := new(dns.Msg)
			m.SetQuestion(fmt.Sprintf("q%d.c%d.edns.c10.test.", i, cn+1000), dns.TypeTXT)
			m.Id = uint16(1000 + i)
			m.CheckingDisabled, m.AuthenticatedData = st.Cd, st.Ad
			var ckRaw []byte
			if st.Opt {
				m.SetEdns0(uint16(st.Size), st.Do)
				opt := m.IsEdns0()
				if st.Cookie != "" {
					ckRaw, _ = hex.DecodeString(st.Cookie)
					opt.Option = append(opt.Option, &dns.EDNS0_COOKIE{Code: dns.EDNS0COOKIE, Cookie: st.Cookie})
				}
				if st.Nsid {
					opt.Option = append(opt.Option, &dns.EDNS0_NSID{Code: dns.EDNS0NSID})
				}
				if st.Keepalive {
					opt.Option = append(opt.Option, &dns.EDNS0_TCP_KEEPALIVE{Code: dns.EDNS0TCPKEEPALIVE})
				}
			}
			raw, err := m.Pack()
			if err != nil {
				inconclusive = true
				break
			}
			proto := "udp"
			if st.TCP {
				proto = "tcp"
			}
			client := netip.AddrPortFrom(netip.AddrFrom4([4]byte{198, 51, 100, byte(st.Client)}), uint16(4000+st.Client))
			w := mock.NewWriter(proto, client.String())
			if !req.ParseWire(raw, time.Now(), slot) {
				inconclusive = true // not a shape the strict path takes: outside this driver
				break
			}
			ch.ResetWire(w, &req)
			vC10ECur.path, vC10ECur.midSeen = st.Path, false
			ch.Next(context.Background())
			ch.Finish()
			if !vC10ECur.midSeen {
				inconclusive = true // served below serveWire (BADVERS and the like)
				break
			}
			post := vC10EView(slot)
			rep := "None"
			if reply := w.Msg(); reply != nil {
				replies++
				o := reply.IsEdns0()
				var ck []byte
				nsid, ka := false, false
				if o != nil {
					for _, x := range o.Option {
						switch v := x.(type) {
						case *dns.EDNS0_COOKIE:
							b, _ := hex.DecodeString(v.Cookie)
							if len(b) >= 8 {
								ck = b[:8]
							} else {
								ck = b
							}
						case *dns.EDNS0_NSID:
							nsid = true
						case *dns.EDNS0_TCP_KEEPALIVE:
							ka = true
						}
					}
				}
				rep = fmt.Sprintf("(Some (%s,%s,%s,%s,%s))", vC10EBool(o != nil), vC10EBool(o != nil && o.Do()), vC10EBytes(ck), vC10EBool(nsid), vC10EBool(ka))
				// Go-side: the client half of a COOKIE in the reply is this request's own
				if ck != nil && (len(ckRaw) < 8 || string(ck) != string(ckRaw[:8])) && goFail == "" {
					goFail = fmt.Sprintf("request %d (client %d, cookie %q) was answered with COOKIE client half % x: bytes of another client's query", i, st.Client, st.Cookie, ck)
				}
				if ck == nil && len(ckRaw) >= 8 && st.Opt && goFail == "" {
					goFail = fmt.Sprintf("request %d (client %d) sent cookie %q and the reply carries none", i, st.Client, st.Cookie)
				}
				if (len(reply.Question) != 1 || reply.Id != m.Id) && goFail == "" {
					goFail = fmt.Sprintf("request %d: reply id %d question %v", i, reply.Id, reply.Question)
				}
			}
			if prevCookie && st.Opt && st.Cookie == "" && st.Path != 0 {
				cookieThenBare = true
			}
			prevCookie = st.Opt && st.Cookie != ""
			path := vC10ECur.taken
			if st.Path == 0 {
				path = 0
			}
			serves = append(serves, fmt.Sprintf("ES %s %s %s %s %s %s %s %s %d %d %s %s %s", vC10EBool(st.Opt), vC10EBool(st.Opt && st.Do), vC10EBytes(ckRaw),
				vC10EBool(st.Opt && st.Nsid), vC10EBool(st.Opt && st.Keepalive), vC10EBool(st.Cd), vC10EBool(st.Ad), vC10EBool(st.TCP), st.Size, path,
				vC10ECur.mid, rep, post))
		}
		line := map[string]any{
			"k":          kind,
			"coq":        "CaseEdns [" + strings.Join(serves, ";") + "]",
			"nontrivial": replies > 1 && cookieThenBare,
			"desc":       map[string]any{"requests": len(steps), "replies": replies, "cookie_client_then_bare_opt_client": cookieThenBare, "steps": steps},
		}
		if goFail != "" {
			line["go_fail"] = goFail
		}
		if inconclusive {
			line["inconclusive"] = true
		}
		b, _ := json.Marshal(line)
		f.Write(append(b, '\n'))
	}
}
