//go:build verif

package edns

// C05 driver (c): the per-client OPT.  For generated writer facts (EDNS or not, DO, size, client
// cookie wire- or message-born, NSID, keepalive, a forwarded ECS left on the request OPT) and a
// cached Extended DNS Error, the real ResponseWriter.WireReady / WriteWire (appendWireOPT) and the
// real ResponseWriter.WriteMsg are run over a capturing writer; the OPT each leaves is one Coq case
// (model: Edns.wire_opt, Edns.msg_opt, Edns.wire_opt_len) and the two are compared on the Go side.

import (
	"bytes"
	"encoding/hex"
	"encoding/json"
	"fmt"
	"math/rand"
	"net"
	"os"
	"sort"
	"strconv"
	"strings"
	"testing"

	"github.com/miekg/dns"
	"github.com/semihalev/sdns/config"
	"github.com/semihalev/sdns/internal/dnsutil"
	"github.com/semihalev/sdns/middleware"
)

type vC05Under struct {
	proto string
	ip    net.IP
	wire  []byte
	msg   *dns.Msg
	wrote bool
}

func (u *vC05Under) LocalAddr() net.Addr  { return &net.UDPAddr{IP: net.IPv4(127, 0, 0, 1), Port: 53} }
func (u *vC05Under) RemoteAddr() net.Addr { return &net.UDPAddr{IP: u.ip, Port: 4242} }
func (u *vC05Under) WriteMsg(m *dns.Msg) error {
	u.msg, u.wrote = m, true
	return nil
}
func (u *vC05Under) Write(b []byte) (int, error) { u.wire, u.wrote = append([]byte{}, b...), true; return len(b), nil }
func (u *vC05Under) Close() error                { return nil }
func (u *vC05Under) Msg() *dns.Msg               { return u.msg }
func (u *vC05Under) Rcode() int                  { return 0 }
func (u *vC05Under) Written() bool               { return u.wrote }
func (u *vC05Under) Proto() string               { return u.proto }
func (u *vC05Under) RemoteIP() net.IP            { return u.ip }
func (u *vC05Under) Internal() bool              { return false }
func (u *vC05Under) WireReady() (middleware.WireCapability, bool) {
	return middleware.WireCapability{}, true
}
func (u *vC05Under) WriteWire(body []byte, info middleware.WireInfo) error {
	u.wire, u.wrote = append([]byte{}, body...), true
	return nil
}

func vC05L(b []byte) string {
	if len(b) == 0 {
		return "[]"
	}
	parts := make([]string, len(b))
	for i, x := range b {
		parts[i] = strconv.Itoa(int(x))
	}
	return "[" + strings.Join(parts, ";") + "]%N"
}
func vC05B(b bool) string {
	if b {
		return "true"
	}
	return "false"
}

type vC05O struct {
	code int
	data []byte
}

func vC05Opts(os []vC05O) string {
	if len(os) == 0 {
		return "[]"
	}
	var p []string
	for _, o := range os {
		p = append(p, fmt.Sprintf("mk_eopt %d %s", o.code, vC05L(o.data)))
	}
	return "[" + strings.Join(p, "; ") + "]"
}

func vC05OptData(o dns.EDNS0) []byte {
	tmp := &dns.OPT{Hdr: dns.RR_Header{Name: ".", Rrtype: dns.TypeOPT}, Option: []dns.EDNS0{o}}
	buf := make([]byte, 70000)
	off, err := dns.PackRR(tmp, buf, 0, nil, false)
	if err != nil || off < 15 {
		return nil
	}
	return append([]byte(nil), buf[15:off]...)
}

// abstract OPT of a message: "None" or size/do/options in order; more than one OPT is reported
func vC05Rec(m *dns.Msg) (string, string) {
	var opts []*dns.OPT
	for _, rr := range m.Extra {
		if o, ok := rr.(*dns.OPT); ok {
			opts = append(opts, o)
		}
	}
	if len(opts) == 0 {
		return "None", "none"
	}
	o := opts[len(opts)-1]
	var os []vC05O
	var keys []string
	for _, e := range o.Option {
		d := vC05OptData(e)
		os = append(os, vC05O{int(e.Option()), d})
		keys = append(keys, fmt.Sprintf("%d:%x", e.Option(), d))
	}
	sort.Strings(keys)
	key := fmt.Sprintf("n=%d size=%d do=%v ver=%d ttl=%08x %s", len(opts), o.UDPSize(), o.Do(), o.Version(), o.Hdr.Ttl&0x00FF7FFF, strings.Join(keys, " "))
	return fmt.Sprintf("(Some (mk_optrec %d %s %s))", o.UDPSize(), vC05B(o.Do()), vC05Opts(os)), key
}

func TestVerifC05Edns(t *testing.T) {
	path := os.Getenv("VERIF_OUT")
	if path == "" {
		t.Skip("VERIF_OUT not set")
	}
	f, err := os.Create(path)
	if err != nil {
		t.Fatal(err)
	}
	defer f.Close()
	seed, _ := strconv.Atoi(os.Getenv("VERIF_SEED"))
	n, _ := strconv.Atoi(os.Getenv("VERIF_N"))
	if n == 0 {
		n = 300
	}
	r := rand.New(rand.NewSource(int64(seed)*31337 + 55))
	pick := func(xs ...int) int { return xs[r.Intn(len(xs))] }
	secret := "6c6f6f6b61686172646c6f6f6b6168617264"

	for c := 0; c < n; c++ {
		nsidCfg := []string{"", "ns", "verif-c05-nsid"}[r.Intn(3)]
		e := New(&config.Config{CookieSecret: secret, NSID: nsidCfg})
		noedns := r.Intn(6) == 0
		do := r.Intn(2) == 0
		size := uint16(pick(1232, 1232, 512, 4096, 0, 65535))
		nsidReq := r.Intn(2) == 0
		keepalive := r.Intn(3) == 0
		ip := []net.IP{net.IPv4(203, 0, 113, 9), net.IPv4(198, 51, 100, 1).To4(), net.ParseIP("2001:db8::9")}[r.Intn(3)]
		var client []byte
		cookieMode := r.Intn(3) // 0 none, 1 wire-born raw, 2 message-born text
		if cookieMode > 0 {
			client = make([]byte, 8)
			r.Read(client)
		}
		var reqOpts []vC05O
		var reqOPT *dns.OPT
		if cookieMode != 1 && r.Intn(3) == 0 {
			// message-born request: its own (normalised) OPT, possibly with the forwarded subnet
			reqOPT = &dns.OPT{Hdr: dns.RR_Header{Name: ".", Rrtype: dns.TypeOPT}}
			if r.Intn(2) == 0 {
				sub := &dns.EDNS0_SUBNET{Code: dns.EDNS0SUBNET, Family: 1, SourceNetmask: 24, Address: net.IPv4(192, 0, 2, 0)}
				reqOPT.Option = append(reqOPT.Option, sub)
				reqOpts = append(reqOpts, vC05O{8, vC05OptData(sub)})
			}
		}
		mkWriter := func(u *vC05Under) *ResponseWriter {
			rw := &ResponseWriter{ResponseWriter: u, EDNS: e, do: do, noedns: noedns, nsid: nsidReq, keepalive: keepalive,
				respUDPSize: size, size: 65535, noad: false}
			switch cookieMode {
			case 1:
				copy(rw.cookieRaw[:], client)
				rw.hasCookieRaw = true
			case 2:
				rw.cookie = hex.EncodeToString(client)
			}
			if reqOPT != nil {
				cp := *reqOPT
				cp.Option = append([]dns.EDNS0{}, reqOPT.Option...)
				rw.opt = &cp
			}
			return rw
		}
		// the cached Extended DNS Error and what the downstream message's OPT carries
		var ede *dns.EDNS0_EDE
		if r.Intn(2) == 0 {
			ede = &dns.EDNS0_EDE{InfoCode: uint16(pick(3, 13, 22, 0, 65535)), ExtraText: []string{"", "stale", "cached failure, retry later"}[r.Intn(3)]}
		}
		var down []dns.EDNS0
		hasDown := ede != nil
		if ede != nil {
			down = append(down, &dns.EDNS0_EDE{InfoCode: ede.InfoCode, ExtraText: ede.ExtraText})
		}
		foreign := r.Intn(4) == 0
		if foreign {
			// a downstream message that is not ToMsg's: other options ride along
			hasDown = true
			for i, k := 0, 1+r.Intn(3); i < k; i++ {
				switch r.Intn(6) {
				case 0:
					down = append(down, &dns.EDNS0_COOKIE{Code: dns.EDNS0COOKIE, Cookie: "0102030405060708"})
				case 1:
					down = append(down, &dns.EDNS0_NSID{Code: dns.EDNS0NSID, Nsid: "6161"})
				case 2:
					down = append(down, &dns.EDNS0_SUBNET{Code: dns.EDNS0SUBNET, Family: 1, SourceNetmask: 24, SourceScope: 24, Address: net.IPv4(192, 0, 2, 0)})
				case 3:
					down = append(down, &dns.EDNS0_TCP_KEEPALIVE{Code: dns.EDNS0TCPKEEPALIVE, Timeout: 50})
				case 4:
					down = append(down, &dns.EDNS0_PADDING{Padding: make([]byte, 3)})
				default:
					down = append(down, &dns.EDNS0_EDE{InfoCode: 9, ExtraText: "upstream"})
				}
			}
			r.Shuffle(len(down), func(i, j int) { down[i], down[j] = down[j], down[i] })
		}

		// The downstream options are recorded NOW: WriteMsg filters the OPT's option slice in place
		// (keepRelayable / stripECS / stripKeepalive reuse the backing array and the writer's own
		// keepalive is appended into it), so reading `down` after the call would describe what the
		// code left behind, not what it was given.
		downS := "None"
		if hasDown {
			var os []vC05O
			for _, d := range down {
				os = append(os, vC05O{int(d.Option()), vC05OptData(d)})
			}
			downS = "(Some " + vC05Opts(os) + ")"
		}

		reply := new(dns.Msg)
		reply.SetQuestion("www.zero.test.", dns.TypeA)
		reply.Response = true
		reply.Answer = []dns.RR{&dns.A{Hdr: dns.RR_Header{Name: "www.zero.test.", Rrtype: dns.TypeA, Class: dns.ClassINET, Ttl: 60}, A: net.IPv4(192, 0, 2, 1)}}
		body, _ := reply.Pack()

		// --- bytes
		goFail := ""
		uw := &vC05Under{proto: "tcp", ip: ip}
		rw := mkWriter(uw)
		capab, ready := rw.WireReady()
		wireRec, wireKey := "None", "not-ready"
		if !ready {
			// a message-born writer whose request OPT still has an option the byte path has no
			// encoder for declines; nothing to compare
		} else {
			info := middleware.WireInfo{}
			if ede != nil {
				info.HasEDE, info.EDECode, info.EDEText = true, ede.InfoCode, ede.ExtraText
			}
			buf := make([]byte, len(body), len(body)+capab.Reserve+64)
			copy(buf, body)
			if err := rw.WriteWire(buf, info); err != nil {
				goFail = "WriteWire: " + err.Error()
			} else {
				m := new(dns.Msg)
				if err := m.Unpack(uw.wire); err != nil {
					goFail = "byte reply does not decode: " + err.Error()
				} else {
					wireRec, wireKey = vC05Rec(m)
				}
			}
		}
		// --- message
		um := &vC05Under{proto: "tcp", ip: ip}
		rm := mkWriter(um)
		msg := reply.Copy()
		if hasDown {
			o := &dns.OPT{Hdr: dns.RR_Header{Name: ".", Rrtype: dns.TypeOPT}}
			o.SetUDPSize(4096)
			o.Option = down
			msg.Extra = append(msg.Extra, o)
		}
		_ = rm.WriteMsg(msg)
		msgRec, msgKey := "None", "none"
		if um.msg != nil {
			msgRec, msgKey = vC05Rec(um.msg)
		}
		if !ready {
			continue
		}
		if goFail == "" && !foreign && wireKey != msgKey {
			goFail = fmt.Sprintf("byte-built OPT {%s} differs from the message OPT {%s}", wireKey, msgKey)
		}
		// --- the case
		cookieS, srvS := "None", "[]"
		if client != nil {
			cookieS = "(Some " + vC05L(client) + ")"
			full, _ := hex.DecodeString(dnsutil.GenerateServerCookie(secret, ip.String(), hex.EncodeToString(client)))
			srvS = vC05L(full)
		}
		nsidS := "None"
		if nsidCfg != "" && nsidReq {
			nsidS = "(Some " + vC05L([]byte(nsidCfg)) + ")"
		}
		edeS := "None"
		if ede != nil {
			edeS = fmt.Sprintf("(Some (mk_eopt 15 %s))", vC05L(vC05OptData(ede)))
		}
		w := fmt.Sprintf("(mk_ewriter %s %s %d %s %s %s %s)", vC05B(noedns), vC05B(do), size, cookieS, nsidS, vC05B(keepalive), vC05Opts(reqOpts))
		kind := "edns/tomsg"
		if foreign {
			kind = "edns/foreign-down"
		}
		if noedns {
			kind += "/noedns"
		}
		b, _ := json.Marshal(map[string]any{
			"k":   kind,
			"coq": fmt.Sprintf("CaseEdns %s %s %s %s %d %s %s", w, srvS, edeS, downS, capab.Reserve, wireRec, msgRec),
			"desc": map[string]any{"noedns": noedns, "do": do, "size": size, "cookie": hex.EncodeToString(client), "cookie_mode": cookieMode, "nsid": nsidCfg, "nsid_req": nsidReq,
				"keepalive": keepalive, "ip": ip.String(), "ede": fmt.Sprint(ede), "wire": wireKey, "msg": msgKey, "reserve": capab.Reserve},
			"nontrivial": !noedns,
			"go_fail":    goFail,
		})
		f.Write(append(b, '\n'))

		// the octets themselves: what WriteWire put behind the body it was handed (model:
		// Edns.append_wire_opt = appendWireOPT over the translated internal/wire builders;
		// specification: the RFC 6891 encoding of the record the library reads back)
		if goFail == "" && len(uw.wire) >= len(body) && bytes.Equal(uw.wire[12:len(body)], body[12:]) {
			edeB := "None"
			if ede != nil {
				edeB = fmt.Sprintf("(Some (%d%%N, %s))", ede.InfoCode, vC05L([]byte(ede.ExtraText)))
			}
			ar0, ar1 := int(body[10])<<8|int(body[11]), int(uw.wire[10])<<8|int(uw.wire[11])
			b2, _ := json.Marshal(map[string]any{
				"k":          kind + "/bytes",
				"coq":        fmt.Sprintf("CaseOptBytes %s %s %s %d %d %s %s", w, srvS, edeB, ar0, ar1, wireRec, vC05L(uw.wire[len(body):])),
				"desc":       map[string]any{"tail": hex.EncodeToString(uw.wire[len(body):]), "wire": wireKey, "arcount": []int{ar0, ar1}},
				"nontrivial": !noedns,
				"go_fail":    "",
			})
			f.Write(append(b2, '\n'))
		} else if goFail == "" {
			b2, _ := json.Marshal(map[string]any{"k": kind + "/bytes", "desc": map[string]any{"wire": hex.EncodeToString(uw.wire), "body": hex.EncodeToString(body)},
				"nontrivial": true, "go_fail": "WriteWire changed the body it was handed (beyond the header counts)"})
			f.Write(append(b2, '\n'))
		}
	}
}
