//go:build verif

package middleware

// C10 driver "query": overlapping internal sub-queries through the real
// pipelineQueryer.Query — a pooled BufferWriter (bufferWriterPool) and a pooled
// Chain (the sub-pipeline's chainPool) per call — in generated, DETERMINISTIC
// interleavings: the sub-pipeline's last handler parks every query at a gate, so
// the driver decides when a query's handler writes (Writer.WriteMsg or
// Writer.Write, once, twice or never), returns, or panics.
//
//	begin q     a new caller enters Query(ctx, req_q) on its own goroutine; the driver
//	            waits until q's handler is parked (both pool Gets and ch.Reset happened)
//	write q     q's handler writes a reply (the n-th one of q, tagged q*16+n)
//	end q       q's handler returns; the driver waits until Query has come back (result
//	            evaluated, PutChain and putBufferWriter done)
//	panic q     q's handler panics; Query's defers run, the panic reaches the caller
//
// Observed: the identity of the BufferWriter and the Chain every query ran on
// (numbered as first seen), and what every call came back with (the reply's tag, or
// ErrNoResponse). Replayed on ModelQuery (check_case: every step ENABLED — the pools
// really could hand those objects out —, every result reproduced); judged without
// the automaton by spec_case and by the Go-side oracle below.

import (
	"context"
	"encoding/json"
	"errors"
	"fmt"
	"math/rand"
	"net"
	"os"
	"strconv"
	"strings"
	"testing"

	"github.com/miekg/dns"
)

type vC10QCmd struct {
	kind  int // 0 write through WriteMsg, 1 write through Write, 2 return, 3 panic
	reply *dns.Msg
}

type vC10QRun struct {
	q      int
	req    *dns.Msg
	cmd    chan vC10QCmd
	ack    chan struct{}
	parked chan struct{}
	done   chan struct{}
	ch     *Chain
	bw     *BufferWriter
	res    *dns.Msg
	err    error
	pan    any
	writes int
	silent bool
}

type vC10QState struct {
	runs map[int]*vC10QRun // by request ID
}

type vC10QOuter struct{}

func (vC10QOuter) Name() string { return "vc10-query-outer" }
func (vC10QOuter) ServeDNS(ctx context.Context, ch *Chain) {
	ch.Next(ctx)
}

type vC10QGate struct{ st *vC10QState }

func (vC10QGate) Name() string { return "vc10-query-gate" }
func (g vC10QGate) ServeDNS(ctx context.Context, ch *Chain) {
	req := ch.Request.Msg()
	run := g.st.runs[int(req.Id)]
	run.ch = ch
	if base, ok := ch.Writer.(*responseWriter); ok {
		run.bw, _ = base.Transport.(*BufferWriter)
	}
	close(run.parked)
	for c := range run.cmd {
		switch c.kind {
		case 0:
			_ = ch.Writer.WriteMsg(c.reply)
		case 1:
			b, _ := c.reply.Pack()
			_, _ = ch.Writer.Write(b)
		case 2:
			run.ack <- struct{}{}
			return
		case 3:
			run.ack <- struct{}{}
			panic("vc10: handler panic")
		}
		run.ack <- struct{}{}
	}
}

func vC10QTag(m *dns.Msg) int {
	if m == nil || len(m.Answer) != 1 {
		return -1
	}
	a, ok := m.Answer[0].(*dns.A)
	if !ok {
		return -1
	}
	ip := a.A.To4()
	if ip == nil {
		return -1
	}
	return int(ip[2])*16 + int(ip[3])
}

// script == nil: generated; otherwise "begin q" / "write q" / "wire q" / "end q" / "panic q"
func vC10QueryCase(rnd *rand.Rand, cn int, kind string, script []string) map[string]any {
	st := &vC10QState{runs: map[int]*vC10QRun{}}
	p := newPipeline([]Handler{vC10QOuter{}, vC10QGate{st}}, map[string]Handler{}, nil, RecursionWorkPolicy{})
	qy := NewPipelineQueryer(p)
	var ops, obs, desc, fails []string
	wid := map[*BufferWriter]int{}
	cid := map[*Chain]int{}
	var live []*vC10QRun
	next := 0
	reused, overlapped, silentEnded := false, false, false

	begin := func(silent bool) {
		next++
		run := &vC10QRun{q: next, cmd: make(chan vC10QCmd), ack: make(chan struct{}), parked: make(chan struct{}), done: make(chan struct{}), silent: silent}
		run.req = new(dns.Msg)
		run.req.SetQuestion(fmt.Sprintf("q%d.c%d.query.test.", run.q, cn), dns.TypeA)
		run.req.Id = uint16(run.q)
		st.runs[run.q] = run
		go func() {
			defer close(run.done)
			defer func() { run.pan = recover() }()
			run.res, run.err = qy.Query(context.Background(), run.req)
		}()
		<-run.parked
		w, seenW := wid[run.bw]
		if !seenW {
			w = len(wid)
			wid[run.bw] = w
		}
		c, seenC := cid[run.ch]
		if !seenC {
			c = len(cid)
			cid[run.ch] = c
		}
		if seenW || seenC {
			reused = true
		}
		if run.bw == nil {
			fails = append(fails, fmt.Sprintf("query %d: the chain's base writer is not bound to a BufferWriter", run.q))
		}
		if len(live) > 0 {
			overlapped = true
		}
		for _, o := range live {
			if o.bw == run.bw {
				fails = append(fails, fmt.Sprintf("queries %d and %d, both in flight, run on ONE BufferWriter", o.q, run.q))
			}
			if o.ch == run.ch {
				fails = append(fails, fmt.Sprintf("queries %d and %d, both in flight, run on ONE chain", o.q, run.q))
			}
		}
		live = append(live, run)
		ops = append(ops, fmt.Sprintf("QB %d %d %d", run.q, w, c))
	}
	write := func(run *vC10QRun, wire bool) {
		m := new(dns.Msg)
		m.SetReply(run.req)
		m.Answer = []dns.RR{&dns.A{Hdr: dns.RR_Header{Name: run.req.Question[0].Name, Rrtype: dns.TypeA, Class: dns.ClassINET, Ttl: 60},
			A: net.IPv4(10, 9, byte(run.q), byte(run.writes))}}
		tag := run.q*16 + run.writes
		run.writes++
		k := 0
		if wire {
			k = 1
		}
		run.cmd <- vC10QCmd{kind: k, reply: m}
		<-run.ack
		ops = append(ops, fmt.Sprintf("QW %d %d", run.q, tag))
	}
	drop := func(run *vC10QRun) {
		for i, o := range live {
			if o == run {
				live = append(live[:i], live[i+1:]...)
				return
			}
		}
	}
	end := func(run *vC10QRun, pan bool) {
		k := 2
		if pan {
			k = 3
		}
		run.cmd <- vC10QCmd{kind: k}
		<-run.ack
		<-run.done
		drop(run)
		if pan {
			ops = append(ops, fmt.Sprintf("QX %d", run.q))
			if run.pan == nil {
				fails = append(fails, fmt.Sprintf("query %d: the handler's panic did not reach the caller", run.q))
			}
			desc = append(desc, fmt.Sprintf("%d: panicked", run.q))
			return
		}
		ops = append(ops, fmt.Sprintf("QE %d", run.q))
		switch {
		case run.pan != nil:
			fails = append(fails, fmt.Sprintf("query %d: Query panicked: %v", run.q, run.pan))
			obs = append(obs, fmt.Sprintf("(%d,None)", run.q))
		case errors.Is(run.err, ErrNoResponse):
			if run.res != nil {
				fails = append(fails, fmt.Sprintf("query %d came back with ErrNoResponse AND a message", run.q))
			}
			if run.writes > 0 {
				fails = append(fails, fmt.Sprintf("query %d: its handler wrote %d replies and the caller was told nothing was written", run.q, run.writes))
			} else {
				silentEnded = true
			}
			obs = append(obs, fmt.Sprintf("(%d,None)", run.q))
			desc = append(desc, fmt.Sprintf("%d: no response", run.q))
		case run.err != nil:
			fails = append(fails, fmt.Sprintf("query %d: unexpected error %v", run.q, run.err))
			obs = append(obs, fmt.Sprintf("(%d,None)", run.q))
		default:
			tag := vC10QTag(run.res)
			if run.res == nil || tag < 0 {
				fails = append(fails, fmt.Sprintf("query %d came back without error and without a recognisable reply", run.q))
				obs = append(obs, fmt.Sprintf("(%d,Some 999999)", run.q))
				break
			}
			// the property, on the reply itself: this query's ID and question, this query's answer
			if int(run.res.Id) != run.q || len(run.res.Question) != 1 || run.res.Question[0].Name != run.req.Question[0].Name {
				fails = append(fails, fmt.Sprintf("query %d (%s) came back with a reply that carries id %d, question %v", run.q, run.req.Question[0].Name, run.res.Id, run.res.Question))
			}
			if tag/16 != run.q {
				fails = append(fails, fmt.Sprintf("query %d came back with the reply query %d's handler wrote (its write number %d)", run.q, tag/16, tag%16))
			}
			if run.writes == 0 {
				fails = append(fails, fmt.Sprintf("query %d: its handler wrote nothing and the caller received a reply (tag %d)", run.q, tag))
			}
			obs = append(obs, fmt.Sprintf("(%d,Some %d)", run.q, tag))
			desc = append(desc, fmt.Sprintf("%d: reply %d.%d", run.q, tag/16, tag%16))
		}
	}
	find := func(q int) *vC10QRun {
		for _, o := range live {
			if o.q == q {
				return o
			}
		}
		return nil
	}

	if script != nil {
		for _, s := range script {
			f := strings.Fields(s)
			q := 0
			if len(f) > 1 {
				q, _ = strconv.Atoi(f[1])
			}
			switch f[0] {
			case "begin":
				begin(false)
			case "write":
				if r := find(q); r != nil {
					write(r, false)
				}
			case "wire":
				if r := find(q); r != nil {
					write(r, true)
				}
			case "end":
				if r := find(q); r != nil {
					end(r, false)
				}
			case "panic":
				if r := find(q); r != nil {
					end(r, true)
				}
			}
		}
	} else {
		nops := 8 + rnd.Intn(18)
		for i := 0; i < nops; i++ {
			k := rnd.Intn(100)
			switch {
			case len(live) == 0 || (k < 35 && len(live) < 5):
				begin(rnd.Intn(10) < 3)
			case k < 70:
				r := live[rnd.Intn(len(live))]
				if r.silent || r.writes >= 3 {
					end(r, false)
				} else {
					write(r, rnd.Intn(2) == 0)
				}
			case k < 95:
				end(live[rnd.Intn(len(live))], false)
			default:
				end(live[rnd.Intn(len(live))], true)
			}
		}
	}
	for len(live) > 0 {
		end(live[0], false)
	}
	line := map[string]any{
		"k":          kind,
		"coq":        fmt.Sprintf("CaseQuery [%s] [%s]", strings.Join(ops, ";"), strings.Join(obs, ";")),
		"nontrivial": overlapped && reused && silentEnded && len(obs) >= 2,
		"desc":       map[string]any{"ops": ops, "results": desc},
	}
	if len(fails) > 0 {
		line["go_fail"] = strings.Join(fails, "; ")
	}
	return line
}

type vC10QueryCorpus struct {
	Name string   `json:"name"`
	Ops  []string `json:"ops"`
}

func TestVerifC10Query(t *testing.T) {
	out := os.Getenv("VERIF_OUT")
	if out == "" {
		t.Skip("VERIF_OUT not set")
	}
	f, err := os.Create(out)
	if err != nil {
		t.Fatal(err)
	}
	defer f.Close()
	seed, _ := strconv.Atoi(os.Getenv("VERIF_SEED"))
	n, _ := strconv.Atoi(os.Getenv("VERIF_N"))
	if n == 0 {
		n = 40
	}
	rnd := rand.New(rand.NewSource(int64(seed)*7919 + 1010))
	var corpus []vC10QueryCorpus
	if dir := os.Getenv("VERIF_CORPUS"); dir != "" {
		if b, err := os.ReadFile(dir + "/query-regressions.json"); err == nil {
			_ = json.Unmarshal(b, &corpus)
		}
	}
	emit := func(line map[string]any) {
		b, _ := json.Marshal(line)
		_, _ = f.Write(append(b, '\n'))
	}
	for i, c := range corpus {
		emit(vC10QueryCase(rnd, 1000+i, "corpus:"+c.Name, c.Ops))
	}
	for i := 0; i < n; i++ {
		emit(vC10QueryCase(rnd, i, "query", nil))
	}
}
