//go:build verif

package middleware

// C17 driver: Pipeline.SubPipeline on pipelines of named fake handlers and
// autoWire's choice of what to skip (ClientOnly handlers; plus "cache" for
// the prefetch sub-pipeline), observed through the Queryers injected into a
// probe handler.

import (
	"context"
	"encoding/json"
	"fmt"
	"math/rand"
	"os"
	"strconv"
	"strings"
	"testing"
)

type vNamed struct {
	name       string
	clientOnly bool
}

func (h *vNamed) Name() string                          { return h.name }
func (h *vNamed) ServeDNS(ctx context.Context, ch *Chain) { ch.Next(ctx) }

type vClientOnly struct{ vNamed }

func (h *vClientOnly) ClientOnly() bool { return h.clientOnly }

type vProbe struct {
	vNamed
	q, pq Queryer
}

func (p *vProbe) SetQueryer(q Queryer)          { p.q = q }
func (p *vProbe) SetPrefetchQueryer(q Queryer)  { p.pq = q }

func vCoqName(s string) string {
	var parts []string
	for i := 0; i < len(s); i++ {
		parts = append(parts, strconv.Itoa(int(s[i])))
	}
	return "[" + strings.Join(parts, ";") + "]"
}
func vCoqNames(l []string) string {
	var parts []string
	for _, s := range l {
		parts = append(parts, vCoqName(s))
	}
	return "[" + strings.Join(parts, "; ") + "]"
}

func vPipelineNames(p *Pipeline) []string {
	var out []string
	for _, h := range p.Handlers() {
		out = append(out, h.Name())
	}
	return out
}

func TestVerifC17Sub(t *testing.T) {
	path := os.Getenv("VERIF_OUT")
	if path == "" {
		t.Skip("VERIF_OUT not set")
	}
	f, err := os.Create(path)
	if err != nil {
		t.Fatal(err)
	}
	defer f.Close()
	seed, _ := strconv.Atoi(os.Getenv("VERIF_SEED"))
	n, _ := strconv.Atoi(os.Getenv("VERIF_N"))
	if n == 0 {
		n = 200
	}
	r := rand.New(rand.NewSource(int64(seed) + 41))
	pool := []string{"recovery", "metrics", "dnstap", "accesslist", "ratelimit", "reflex", "edns", "accesslog", "chaos", "hostsfile", "views", "blocklist", "as112", "kubernetes", "dns64", "cache", "failover", "resolver", "forwarder", "x", "cache2", "Cache"}
	for c := 0; c < n; c++ {
		perm := r.Perm(len(pool))
		cnt := 1 + r.Intn(len(pool))
		var hs []Handler
		var names, skipCO []string
		byName := map[string]Handler{}
		probe := &vProbe{vNamed: vNamed{name: "verifprobe"}}
		for _, i := range perm[:cnt] {
			nm := pool[i]
			var h Handler
			switch r.Intn(3) {
			case 0:
				h = &vClientOnly{vNamed{name: nm, clientOnly: true}}
				skipCO = append(skipCO, nm)
			case 1:
				h = &vClientOnly{vNamed{name: nm, clientOnly: false}}
			default:
				h = &vNamed{name: nm}
			}
			hs = append(hs, h)
			names = append(names, nm)
			byName[nm] = h
		}
		hs = append(hs, probe)
		names = append(names, probe.name)
		byName[probe.name] = probe
		p := newPipeline(hs, byName, names, RecursionWorkPolicy{})
		// explicit SubPipeline with a random skip list (may name absent handlers, duplicates)
		var skip []string
		for i := 0; i < r.Intn(6); i++ {
			skip = append(skip, pool[r.Intn(len(pool))])
		}
		res := vPipelineNames(p.SubPipeline(skip...))
		b, _ := json.Marshal(map[string]any{
			"k":          "subpipeline",
			"coq":        fmt.Sprintf("CaseSub %s %s %s", vCoqNames(names), vCoqNames(skip), vCoqNames(res)),
			"nontrivial": len(skip) > 0,
			"desc":       map[string]any{"handlers": names, "skip": skip, "result": res},
		})
		f.Write(append(b, '\n'))
		// autoWire: what the injected queryers run
		p.autoWire()
		goFail := ""
		q, ok1 := probe.q.(*pipelineQueryer)
		pq, ok2 := probe.pq.(*pipelineQueryer)
		if !ok1 || !ok2 {
			goFail = "autoWire did not inject pipeline queryers"
			continue
		}
		qn := vPipelineNames(q.sub)
		pqn := vPipelineNames(pq.sub)
		b, _ = json.Marshal(map[string]any{
			"k":          "autowire-queryer",
			"coq":        fmt.Sprintf("CaseSub %s %s %s", vCoqNames(names), vCoqNames(skipCO), vCoqNames(qn)),
			"go_fail":    goFail,
			"nontrivial": len(skipCO) > 0,
			"desc":       map[string]any{"handlers": names, "client_only": skipCO, "queryer_sub": qn},
		})
		f.Write(append(b, '\n'))
		b, _ = json.Marshal(map[string]any{
			"k":          "autowire-prefetch",
			"coq":        fmt.Sprintf("CaseSub %s %s %s", vCoqNames(names), vCoqNames(append(append([]string{}, skipCO...), "cache")), vCoqNames(pqn)),
			"nontrivial": true,
			"desc":       map[string]any{"handlers": names, "client_only": skipCO, "prefetch_sub": pqn},
		})
		f.Write(append(b, '\n'))
	}
}
