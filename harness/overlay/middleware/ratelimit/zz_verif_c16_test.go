//go:build verif

package ratelimit

// C16 (limiter store part): LimiterStore is a Go map under one RWMutex.  Every
// history is replayed on the Coq model (Limiter.v: the stamp each call stored and
// the key that vanished are inputs, the model says whether evictOne may pick it)
// and judged by a clock-free reference map; Go-side as well: the bound and the
// identity of limiters: a key keeps its
// limiter while it is stored, distinct keys get distinct limiters, and the
// store never holds more than max(maxSize, 1) limiters — sequentially and at
// quiescence after concurrent Gets.

import (
	"encoding/json"
	"fmt"
	"math/rand"
	"os"
	"runtime"
	"strconv"
	"strings"
	"sync"
	"testing"
	"time"
)

func vC16LEnvInt(name string, def int) int {
	if s := os.Getenv(name); s != "" {
		if n, err := strconv.Atoi(s); err == nil {
			return n
		}
	}
	return def
}

func vC16LBound(maxSize int) int {
	if maxSize < 1 {
		return 1
	}
	return maxSize
}

// one observed history on a fresh store: Get (and now and then Cleanup) calls; for the
// Coq model every call carries what the runtime decided (the stamp it stored, the key
// that vanished) and what came back (identity of the limiter, Len)
func vC16LHistory(r *rand.Rand, maxSize int, keyOf func(i int) uint64, nops int, name string) map[string]any {
	s := NewLimiterStore(maxSize, 1+r.Intn(50))
	base := time.Now().UnixNano()
	ids := map[*limiter]uint64{}
	var alive []*limiter // keeps every limiter reachable: no address is ever reused
	shadow := map[uint64]bool{}
	var steps []string
	goFail := ""
	evictions, hits := 0, 0
	z := func(v int64) string {
		if v < 0 {
			return fmt.Sprintf("(%d)", v)
		}
		return fmt.Sprintf("%d", v)
	}
	for i := 0; i < nops && goFail == ""; i++ {
		k := keyOf(i)
		before, had := s.limiters[k]
		lenBefore := len(s.limiters)
		got := s.Get(k)
		cur, ok := s.limiters[k]
		switch {
		case !ok || cur.limiter != got:
			goFail = fmt.Sprintf("%s op %d: Get(%d) returned a limiter that is not the one stored under the key", name, i, k)
		case had && (before != cur || len(s.limiters) != lenBefore):
			goFail = fmt.Sprintf("%s op %d: Get(%d) on a stored key replaced its limiter or changed the store (%d -> %d)", name, i, k, lenBefore, len(s.limiters))
		case len(s.limiters) > vC16LBound(maxSize):
			goFail = fmt.Sprintf("%s op %d: %d limiters stored, maxSize %d", name, i, len(s.limiters), maxSize)
		case s.Len() != len(s.limiters):
			goFail = fmt.Sprintf("%s op %d: Len()=%d, %d stored", name, i, s.Len(), len(s.limiters))
		}
		if !ok {
			break
		}
		if _, known := ids[got]; !known {
			if had {
				goFail = fmt.Sprintf("%s op %d: Get(%d) on a stored key handed out a new limiter", name, i, k)
			}
			ids[got] = uint64(len(ids) + 1)
			alive = append(alive, got)
		} else if !had && goFail == "" {
			goFail = fmt.Sprintf("%s op %d: Get(%d) on a new key handed out the limiter of another key", name, i, k)
		}
		if had {
			hits++
		}
		victim := "None"
		shadow[k] = true
		if len(shadow) != len(s.limiters) {
			for sk := range shadow {
				if _, still := s.limiters[sk]; !still {
					victim = fmt.Sprintf("(Some %d%%N)", sk)
					delete(shadow, sk)
					evictions++
					if sk == k && goFail == "" {
						goFail = fmt.Sprintf("%s op %d: Get(%d) evicted the key it was storing", name, i, k)
					}
				}
			}
		}
		steps = append(steps, fmt.Sprintf("(OGet %d %s %d %s, %d%%Z)", k, z(cur.lastSeen.Load()-base), ids[got], victim, s.Len()))
		if r.Intn(25) == 0 && len(s.limiters) > 0 && goFail == "" {
			// Cleanup: now and then with a cutoff in the middle of the stored stamps
			older := time.Hour
			if r.Intn(2) == 0 {
				var stamps []int64
				for _, tl := range s.limiters {
					stamps = append(stamps, tl.lastSeen.Load())
				}
				older = time.Duration(time.Now().UnixNano() - stamps[r.Intn(len(stamps))])
			}
			lo := time.Now().UnixNano()
			s.Cleanup(older)
			hi := time.Now().UnixNano()
			var gone []string
			for sk := range shadow {
				if _, still := s.limiters[sk]; !still {
					gone = append(gone, fmt.Sprintf("%d", sk))
					delete(shadow, sk)
				}
			}
			if older == time.Hour && len(gone) > 0 {
				goFail = fmt.Sprintf("%s op %d: Cleanup(1h) removed fresh limiters", name, i)
			}
			g := "[]"
			if len(gone) > 0 {
				g = "[" + strings.Join(gone, ";") + "]%N"
			}
			steps = append(steps, fmt.Sprintf("(OClean %s %s %s, %d%%Z)", z(lo-int64(older)-base), z(hi-int64(older)-base), g, s.Len()))
		}
	}
	runtime.KeepAlive(alive)
	return map[string]any{"k": "limiter", "coq": fmt.Sprintf("CaseLim %s [%s]", z(int64(maxSize)), strings.Join(steps, ";")),
		"go_fail": goFail, "nontrivial": evictions > 0 && hits > 0,
		"desc": map[string]any{"name": name, "maxSize": maxSize, "ops": nops, "evictions": evictions, "hits": hits, "final": s.Len()}}
}

func TestVerifC16Limiter(t *testing.T) {
	p := os.Getenv("VERIF_OUT")
	if p == "" {
		t.Skip("VERIF_OUT not set")
	}
	f, err := os.Create(p)
	if err != nil {
		t.Fatal(err)
	}
	defer f.Close()
	emit := func(m map[string]any) {
		b, _ := json.Marshal(m)
		f.Write(append(b, '\n'))
	}
	seed := int64(vC16LEnvInt("VERIF_SEED", 1))
	n := vC16LEnvInt("VERIF_N", 200)
	r := rand.New(rand.NewSource(seed))
	// fixed scripts first (corpus/C16/limiter_scripts.json: maxSize + key sequence)
	if dir := os.Getenv("VERIF_CORPUS"); dir != "" {
		if b, err := os.ReadFile(dir + "/limiter_scripts.json"); err == nil {
			var scripts []struct {
				Name    string   `json:"name"`
				MaxSize int      `json:"maxSize"`
				Keys    []uint64 `json:"keys"`
			}
			if json.Unmarshal(b, &scripts) != nil {
				emit(map[string]any{"k": "corpus-limiter", "go_fail": "corpus file limiter_scripts.json does not parse", "nontrivial": false})
			}
			for _, sc := range scripts {
				keys := sc.Keys
				c := vC16LHistory(rand.New(rand.NewSource(1)), sc.MaxSize, func(i int) uint64 { return keys[i] }, len(keys), sc.Name)
				c["k"] = "corpus-limiter"
				emit(c)
			}
		}
	}
	sizes := []int{-1, 0, 1, 2, 3, 5, 7, 16, 40}
	for c := 0; c < n; c++ {
		maxSize := sizes[r.Intn(len(sizes))]
		keys := 1 + r.Intn(3*vC16LBound(maxSize)+3)
		nops := 30 + r.Intn(90)
		emit(vC16LHistory(r, maxSize, func(int) uint64 { return uint64(r.Intn(keys)) }, nops, fmt.Sprintf("random-%d", c)))
	}
	// above the sampling threshold of evictOne (any entry may go): fill the store, then churn
	big := 2
	if os.Getenv("VERIF_TIER") == "thorough" {
		big = 8
	}
	for c := 0; c < big; c++ {
		maxSize := []int{1001, 1100, 1000, 1002}[c%4]
		keys := maxSize + 40
		emit(vC16LHistory(r, maxSize, func(i int) uint64 {
			if i < maxSize {
				return uint64(i)
			}
			return uint64(r.Intn(keys))
		}, maxSize+60+r.Intn(40), fmt.Sprintf("big-%d", c)))
	}
	// concurrent Gets: bound and identity at quiescence
	for round := 0; round < 4; round++ {
		maxSize := []int{1, 8, 64, 500}[round]
		s := NewLimiterStore(maxSize, 10)
		var wg sync.WaitGroup
		for w := 0; w < 8; w++ {
			wg.Add(1)
			go func(w int) {
				defer wg.Done()
				rr := rand.New(rand.NewSource(seed*100 + int64(w)))
				for i := 0; i < 3000; i++ {
					s.Get(uint64(rr.Intn(3 * maxSize)))
				}
			}(w)
		}
		wg.Wait()
		goFail := ""
		if s.Len() > maxSize {
			goFail = fmt.Sprintf("after concurrent Gets %d limiters stored, maxSize %d", s.Len(), maxSize)
		}
		for k, tl := range s.limiters {
			if s.Get(k) != tl.limiter && goFail == "" {
				goFail = fmt.Sprintf("key %d does not return its stored limiter", k)
			}
		}
		emit(map[string]any{"k": "go-limiter-stress", "go_fail": goFail, "nontrivial": true,
			"desc": map[string]any{"maxSize": maxSize, "final": s.Len()}})
	}
}
