//go:build verif

package ratelimit

// C16 (limiter store part): LimiterStore is a Go map under one RWMutex, so map
// behaviour comes from the runtime; what is checked here (Go-side oracle only,
// no Coq model) is the bound and the identity of limiters: a key keeps its
// limiter while it is stored, distinct keys get distinct limiters, and the
// store never holds more than max(maxSize, 1) limiters — sequentially and at
// quiescence after concurrent Gets.

import (
	"encoding/json"
	"fmt"
	"math/rand"
	"os"
	"strconv"
	"sync"
	"testing"
	"time"
)

func vC16LEnvInt(name string, def int) int {
	if s := os.Getenv(name); s != "" {
		if n, err := strconv.Atoi(s); err == nil {
			return n
		}
	}
	return def
}

func vC16LBound(maxSize int) int {
	if maxSize < 1 {
		return 1
	}
	return maxSize
}

func TestVerifC16Limiter(t *testing.T) {
	p := os.Getenv("VERIF_OUT")
	if p == "" {
		t.Skip("VERIF_OUT not set")
	}
	f, err := os.Create(p)
	if err != nil {
		t.Fatal(err)
	}
	defer f.Close()
	emit := func(m map[string]any) {
		b, _ := json.Marshal(m)
		f.Write(append(b, '\n'))
	}
	seed := int64(vC16LEnvInt("VERIF_SEED", 1))
	n := vC16LEnvInt("VERIF_N", 200)
	r := rand.New(rand.NewSource(seed))
	sizes := []int{-1, 0, 1, 2, 3, 7, 16, 100, 1001, 1100}
	for c := 0; c < n; c++ {
		maxSize := sizes[r.Intn(len(sizes))]
		s := NewLimiterStore(maxSize, 1+r.Intn(50))
		keys := 1 + r.Intn(3*vC16LBound(maxSize)+3)
		if keys > 1500 {
			keys = 1500
		}
		nops := 50 + r.Intn(200)
		if maxSize > 1000 {
			nops = 1300 + r.Intn(300) // reaches the "sample only the first entry" branch of evictOne
		}
		goFail := ""
		evictions := 0
		for i := 0; i < nops && goFail == ""; i++ {
			k := uint64(r.Intn(keys))
			if maxSize > 1000 {
				k = uint64(i % keys)
			}
			before, had := s.limiters[k]
			lenBefore := len(s.limiters)
			got := s.Get(k)
			cur, ok := s.limiters[k]
			switch {
			case !ok || cur.limiter != got:
				goFail = fmt.Sprintf("op %d: Get(%d) returned a limiter that is not the one stored under the key", i, k)
			case had && (before != cur || len(s.limiters) != lenBefore):
				goFail = fmt.Sprintf("op %d: Get(%d) on a stored key replaced its limiter or changed the store (%d -> %d)", i, k, lenBefore, len(s.limiters))
			case len(s.limiters) > vC16LBound(maxSize):
				goFail = fmt.Sprintf("op %d: %d limiters stored, maxSize %d", i, len(s.limiters), maxSize)
			case s.Len() != len(s.limiters):
				goFail = fmt.Sprintf("op %d: Len()=%d, %d stored", i, s.Len(), len(s.limiters))
			}
			if !had && lenBefore >= vC16LBound(maxSize) && lenBefore > 0 {
				evictions++
			}
			seen := map[*limiter]uint64{}
			if i%16 == 0 {
				for kk, tl := range s.limiters {
					if o, dup := seen[tl.limiter]; dup && goFail == "" {
						goFail = fmt.Sprintf("op %d: keys %d and %d share one limiter", i, o, kk)
					}
					seen[tl.limiter] = kk
				}
			}
			if r.Intn(40) == 0 {
				s.Cleanup(time.Hour) // nothing is that old: must remove nothing
				if len(s.limiters) != lenBefore && had {
					goFail = fmt.Sprintf("op %d: Cleanup(1h) removed fresh limiters", i)
				}
			}
		}
		emit(map[string]any{"k": "go-limiter", "go_fail": goFail, "nontrivial": evictions > 0,
			"desc": map[string]any{"maxSize": maxSize, "keys": keys, "ops": nops, "evictions": evictions, "final": s.Len()}})
	}
	// concurrent Gets: bound and identity at quiescence
	for round := 0; round < 4; round++ {
		maxSize := []int{1, 8, 64, 500}[round]
		s := NewLimiterStore(maxSize, 10)
		var wg sync.WaitGroup
		for w := 0; w < 8; w++ {
			wg.Add(1)
			go func(w int) {
				defer wg.Done()
				rr := rand.New(rand.NewSource(seed*100 + int64(w)))
				for i := 0; i < 3000; i++ {
					s.Get(uint64(rr.Intn(3 * maxSize)))
				}
			}(w)
		}
		wg.Wait()
		goFail := ""
		if s.Len() > maxSize {
			goFail = fmt.Sprintf("after concurrent Gets %d limiters stored, maxSize %d", s.Len(), maxSize)
		}
		for k, tl := range s.limiters {
			if s.Get(k) != tl.limiter && goFail == "" {
				goFail = fmt.Sprintf("key %d does not return its stored limiter", k)
			}
		}
		emit(map[string]any{"k": "go-limiter-stress", "go_fail": goFail, "nontrivial": true,
			"desc": map[string]any{"maxSize": maxSize, "final": s.Len()}})
	}
}
