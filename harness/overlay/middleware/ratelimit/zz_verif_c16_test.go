//go:build verif

package ratelimit

// C16 (limiter store part): LimiterStore is a Go map under one RWMutex.  Every
// history is replayed on the Coq model (Limiter.v: the stamp each call stored and
// the key that vanished are inputs, the model says whether evictOne may pick it)
// and judged by a clock-free reference map; Go-side as well: the bound and the
// identity of limiters: a key keeps its
// limiter while it is stored, distinct keys get distinct limiters, and the
// store never holds more than max(maxSize, 1) limiters — sequentially and at
// quiescence after concurrent Gets.

import (
	"encoding/json"
	"fmt"
	"math/rand"
	"os"
	"runtime"
	"sort"
	"strconv"
	"strings"
	"sync"
	"sync/atomic"
	"testing"
	"time"
)

func vC16LEnvInt(name string, def int) int {
	if s := os.Getenv(name); s != "" {
		if n, err := strconv.Atoi(s); err == nil {
			return n
		}
	}
	return def
}

func vC16LBound(maxSize int) int {
	if maxSize < 1 {
		return 1
	}
	return maxSize
}

// one observed history on a fresh store: Get (and now and then Cleanup) calls; for the
// Coq model every call carries what the runtime decided (the stamp it stored, the key
// that vanished) and what came back (identity of the limiter, Len)
func vC16LHistory(r *rand.Rand, maxSize int, keyOf func(i int) uint64, nops int, name string) map[string]any {
	s := NewLimiterStore(maxSize, 1+r.Intn(50))
	base := time.Now().UnixNano()
	ids := map[*limiter]uint64{}
	var alive []*limiter // keeps every limiter reachable: no address is ever reused
	shadow := map[uint64]bool{}
	var steps []string
	goFail := ""
	evictions, hits := 0, 0
	z := func(v int64) string {
		if v < 0 {
			return fmt.Sprintf("(%d)", v)
		}
		return fmt.Sprintf("%d", v)
	}
	for i := 0; i < nops && goFail == ""; i++ {
		k := keyOf(i)
		before, had := s.limiters[k]
		lenBefore := len(s.limiters)
		got := s.Get(k)
		cur, ok := s.limiters[k]
		switch {
		case !ok || cur.limiter != got:
			goFail = fmt.Sprintf("%s op %d: Get(%d) returned a limiter that is not the one stored under the key", name, i, k)
		case had && (before != cur || len(s.limiters) != lenBefore):
			goFail = fmt.Sprintf("%s op %d: Get(%d) on a stored key replaced its limiter or changed the store (%d -> %d)", name, i, k, lenBefore, len(s.limiters))
		case len(s.limiters) > vC16LBound(maxSize):
			goFail = fmt.Sprintf("%s op %d: %d limiters stored, maxSize %d", name, i, len(s.limiters), maxSize)
		case s.Len() != len(s.limiters):
			goFail = fmt.Sprintf("%s op %d: Len()=%d, %d stored", name, i, s.Len(), len(s.limiters))
		}
		if !ok {
			break
		}
		if _, known := ids[got]; !known {
			if had {
				goFail = fmt.Sprintf("%s op %d: Get(%d) on a stored key handed out a new limiter", name, i, k)
			}
			ids[got] = uint64(len(ids) + 1)
			alive = append(alive, got)
		} else if !had && goFail == "" {
			goFail = fmt.Sprintf("%s op %d: Get(%d) on a new key handed out the limiter of another key", name, i, k)
		}
		if had {
			hits++
		}
		victim := "None"
		shadow[k] = true
		if len(shadow) != len(s.limiters) {
			for sk := range shadow {
				if _, still := s.limiters[sk]; !still {
					victim = fmt.Sprintf("(Some %d%%N)", sk)
					delete(shadow, sk)
					evictions++
					if sk == k && goFail == "" {
						goFail = fmt.Sprintf("%s op %d: Get(%d) evicted the key it was storing", name, i, k)
					}
				}
			}
		}
		steps = append(steps, fmt.Sprintf("(OGet %d %s %d %s, %d%%Z)", k, z(cur.lastSeen.Load()-base), ids[got], victim, s.Len()))
		if r.Intn(25) == 0 && len(s.limiters) > 0 && goFail == "" {
			// Cleanup: now and then with a cutoff in the middle of the stored stamps
			older := time.Hour
			if r.Intn(2) == 0 {
				var stamps []int64
				for _, tl := range s.limiters {
					stamps = append(stamps, tl.lastSeen.Load())
				}
				older = time.Duration(time.Now().UnixNano() - stamps[r.Intn(len(stamps))])
			}
			lo := time.Now().UnixNano()
			s.Cleanup(older)
			hi := time.Now().UnixNano()
			var gone []string
			for sk := range shadow {
				if _, still := s.limiters[sk]; !still {
					gone = append(gone, fmt.Sprintf("%d", sk))
					delete(shadow, sk)
				}
			}
			if older == time.Hour && len(gone) > 0 {
				goFail = fmt.Sprintf("%s op %d: Cleanup(1h) removed fresh limiters", name, i)
			}
			g := "[]"
			if len(gone) > 0 {
				g = "[" + strings.Join(gone, ";") + "]%N"
			}
			steps = append(steps, fmt.Sprintf("(OClean %s %s %s, %d%%Z)", z(lo-int64(older)-base), z(hi-int64(older)-base), g, s.Len()))
		}
	}
	runtime.KeepAlive(alive)
	return map[string]any{"k": "limiter", "coq": fmt.Sprintf("CaseLim %s [%s]", z(int64(maxSize)), strings.Join(steps, ";")),
		"go_fail": goFail, "nontrivial": evictions > 0 && hits > 0,
		"desc": map[string]any{"name": name, "maxSize": maxSize, "ops": nops, "evictions": evictions, "hits": hits, "final": s.Len()}}
}

type vC16LRec struct {
	c        map[string]any
	overlap  int
	rejected bool
}

// every rejected history (at most 4) and the `emit` with the most overlapping calls
func vC16LPick(all []vC16LRec, emit int) []map[string]any {
	sort.SliceStable(all, func(a, b int) bool {
		if all[a].rejected != all[b].rejected {
			return all[a].rejected
		}
		return all[a].overlap > all[b].overlap
	})
	var out []map[string]any
	nrej := 0
	for _, x := range all {
		if x.rejected {
			if nrej++; nrej > 4 {
				continue
			}
		} else if len(out)-min(nrej, 4) >= emit {
			break
		}
		out = append(out, x.c)
	}
	return out
}

// one recorded history as a CaseLimC and the Go-side verdict on it
func vC16LJudge(kind string, maxSize, nkeys int, ops []vC16LGop, s *LimiterStore) (map[string]any, int, bool) {
	ids := map[*limiter]uint64{}
	byKey := map[uint64]*limiter{}
	owner := map[*limiter]uint64{}
	goFail := ""
	for _, o := range ops {
		if _, ok := ids[o.l]; !ok {
			ids[o.l] = uint64(len(ids) + 1)
		}
		if l, ok := byKey[o.k]; ok && l != o.l && goFail == "" {
			goFail = fmt.Sprintf("maxSize %d, %d keys in play: two Gets of key %d returned different limiters although nothing had to be evicted", maxSize, nkeys, o.k)
		}
		byKey[o.k] = o.l
		if k2, ok := owner[o.l]; ok && k2 != o.k && goFail == "" {
			goFail = fmt.Sprintf("keys %d and %d share one limiter", k2, o.k)
		}
		owner[o.l] = o.k
	}
	if s.Len() != nkeys && goFail == "" {
		goFail = fmt.Sprintf("maxSize %d, %d keys in play, every one asked for: Len()=%d", maxSize, nkeys, s.Len())
	}
	sorted := append([]vC16LGop(nil), ops...)
	sort.Slice(sorted, func(a, b int) bool { return sorted[a].call < sorted[b].call })
	overlap := 0
	for i := 1; i < len(sorted); i++ {
		if sorted[i].call < sorted[i-1].ret {
			overlap++
		}
	}
	var gops, descs []string
	for _, o := range ops {
		gops = append(gops, fmt.Sprintf("Gop %d %d %d %d %d", o.tid, o.k, ids[o.l], o.call, o.ret))
		descs = append(descs, fmt.Sprintf("t%d Get(%d)->limiter %d @[%d,%d]", o.tid, o.k, ids[o.l], o.call, o.ret))
	}
	runtime.KeepAlive(ops)
	ms := strconv.Itoa(maxSize)
	if maxSize < 0 {
		ms = "(" + ms + ")"
	}
	return map[string]any{
		"k": kind, "coq": "CaseLimC " + ms + " [" + strings.Join(gops, "; ") + "]", "go_fail": goFail,
		"nontrivial": overlap > 0, "desc": map[string]any{"maxSize": maxSize, "keys": nkeys, "overlapping_pairs": overlap, "final": s.Len(), "history": strings.Join(descs, " | ")}}, overlap, goFail != ""
}

// Corpus (corpus/C16/limiter_bursts.json): fixed first-sight bursts replayed first on every
// run — a store with `prefill` known keys and room for exactly one more, `workers`
// goroutines released together that all Get the same new key, `repeats` times; every
// repeat is one recorded history (CaseLimC).
type vC16LBurstScript struct {
	Name    string   `json:"name"`
	MaxSize int      `json:"maxSize"`
	Prefill []uint64 `json:"prefill"`
	Key     uint64   `json:"key"`
	Workers int      `json:"workers"`
	Repeats int      `json:"repeats"`
}

func vC16LBursts(path string) []map[string]any {
	b, err := os.ReadFile(path)
	if err != nil {
		return nil
	}
	var scripts []vC16LBurstScript
	if json.Unmarshal(b, &scripts) != nil {
		return []map[string]any{{"k": "corpus-limiter", "go_fail": "corpus file limiter_bursts.json does not parse", "nontrivial": false}}
	}
	var out []map[string]any
	for _, sc := range scripts {
		var all []vC16LRec
		for rep := 0; rep < sc.Repeats; rep++ {
			s := NewLimiterStore(sc.MaxSize, 10)
			var clk, arrive atomic.Int64
			var ops []vC16LGop
			for _, k := range sc.Prefill {
				o := vC16LGop{tid: sc.Workers, k: k, call: clk.Add(1)}
				o.l = s.Get(k)
				o.ret = clk.Add(1)
				ops = append(ops, o)
			}
			hist := make([]vC16LGop, sc.Workers)
			var wg sync.WaitGroup
			for w := 0; w < sc.Workers; w++ {
				wg.Add(1)
				go func(w int) {
					defer wg.Done()
					arrive.Add(1)
					for spin := 0; arrive.Load() < int64(sc.Workers) && spin < 1<<22; spin++ {
						if spin&255 == 255 {
							runtime.Gosched()
						}
					}
					o := vC16LGop{tid: w, k: sc.Key, call: clk.Add(1)}
					o.l = s.Get(sc.Key)
					o.ret = clk.Add(1)
					hist[w] = o
				}(w)
			}
			wg.Wait()
			ops = append(ops, hist...)
			for _, k := range append(append([]uint64(nil), sc.Prefill...), sc.Key) {
				o := vC16LGop{tid: sc.Workers + 1, k: k, call: clk.Add(1)}
				o.l = s.Get(k)
				o.ret = clk.Add(1)
				ops = append(ops, o)
			}
			c, overlap, rejected := vC16LJudge("corpus-limiter-burst", sc.MaxSize, len(sc.Prefill)+1, ops, s)
			c["desc"].(map[string]any)["script"] = sc.Name
			all = append(all, vC16LRec{c: c, overlap: overlap, rejected: rejected})
		}
		out = append(out, vC16LPick(all, 2)...)
	}
	return out
}

// Recorded concurrent histories of LimiterStore.Get (CaseLimC).  A store with maxSize
// entries and at most max(maxSize,1) distinct keys in play, so that no call has a reason
// to evict: some keys are stored beforehand (sequentially), then `workers` goroutines,
// lined up by a spin barrier before every call, Get mostly ONE key the store has not seen
// yet (a burst from a new client) and now and then another one; afterwards one more Get
// per key and Len().  Every call is stamped with a logical clock before and after and
// carries the identity of the limiter it returned.  Run.v looks for an order of the calls
// that respects "returned before the other was called" and that the Limiter.v model
// (lstep, no eviction) accepts call by call; the observation-only oracle wants one
// limiter per key and no limiter under two keys.  Go-side: the same plus Len() = number
// of keys in play.  Every rejected round (at most 4) and the `emit` rounds with the most
// overlapping calls are written out.
type vC16LGop struct {
	tid       int
	k         uint64
	l         *limiter
	call, ret int64
}

func vC16LConcurrent(seed int64, rounds, emit, workers, perWorker int) []map[string]any {
	var all []vC16LRec
	for round := 0; round < rounds; round++ {
		rr := rand.New(rand.NewSource(seed*6151 + int64(round)))
		maxSize := []int{0, 1, 2, 3, 4, 8, 64}[rr.Intn(7)]
		nkeys := vC16LBound(maxSize)
		if nkeys > 5 {
			nkeys = 2 + rr.Intn(4)
		} else if nkeys > 1 && rr.Intn(4) == 0 {
			nkeys-- // sometimes one below the capacity
		}
		keys := make([]uint64, nkeys)
		for i := range keys {
			keys[i] = uint64(i) * 7919
			if i > 0 && rr.Intn(2) == 0 {
				keys[i] = rr.Uint64()
			}
		}
		s := NewLimiterStore(maxSize, 10)
		var clk, arrive atomic.Int64
		var ops []vC16LGop
		hot := rr.Intn(nkeys)
		// every key but the hot one is usually known already
		for i, k := range keys {
			if i != hot && rr.Intn(4) > 0 {
				o := vC16LGop{tid: workers, k: k, call: clk.Add(1)}
				o.l = s.Get(k)
				o.ret = clk.Add(1)
				ops = append(ops, o)
			}
		}
		hist := make([][]vC16LGop, workers)
		var wg sync.WaitGroup
		start := make(chan struct{})
		for w := 0; w < workers; w++ {
			wg.Add(1)
			go func(w int) {
				defer wg.Done()
				r := rand.New(rand.NewSource(seed*104729 + int64(round)*977 + int64(w)))
				<-start
				for n := 0; n < perWorker; n++ {
					arrive.Add(1)
					for spin := 0; arrive.Load() < int64(workers*(n+1)) && spin < 1<<22; spin++ {
						if spin&255 == 255 {
							runtime.Gosched()
						}
					}
					k := keys[hot]
					if r.Intn(5) == 0 {
						k = keys[r.Intn(nkeys)]
					}
					o := vC16LGop{tid: w, k: k, call: clk.Add(1)}
					o.l = s.Get(k)
					o.ret = clk.Add(1)
					hist[w] = append(hist[w], o)
				}
			}(w)
		}
		close(start)
		wg.Wait()
		conc := 0
		for _, h := range hist {
			ops = append(ops, h...)
			conc += len(h)
		}
		for _, k := range keys {
			o := vC16LGop{tid: workers + 1, k: k, call: clk.Add(1)}
			o.l = s.Get(k)
			o.ret = clk.Add(1)
			ops = append(ops, o)
		}
		c, overlap, rejected := vC16LJudge("limiter-conc", maxSize, nkeys, ops, s)
		all = append(all, vC16LRec{c: c, overlap: overlap, rejected: rejected})
	}
	return vC16LPick(all, emit)
}

func TestVerifC16Limiter(t *testing.T) {
	p := os.Getenv("VERIF_OUT")
	if p == "" {
		t.Skip("VERIF_OUT not set")
	}
	f, err := os.Create(p)
	if err != nil {
		t.Fatal(err)
	}
	defer f.Close()
	emit := func(m map[string]any) {
		b, _ := json.Marshal(m)
		f.Write(append(b, '\n'))
	}
	seed := int64(vC16LEnvInt("VERIF_SEED", 1))
	n := vC16LEnvInt("VERIF_N", 200)
	r := rand.New(rand.NewSource(seed))
	// fixed scripts first (corpus/C16/limiter_scripts.json: maxSize + key sequence)
	if dir := os.Getenv("VERIF_CORPUS"); dir != "" {
		if b, err := os.ReadFile(dir + "/limiter_scripts.json"); err == nil {
			var scripts []struct {
				Name    string   `json:"name"`
				MaxSize int      `json:"maxSize"`
				Keys    []uint64 `json:"keys"`
			}
			if json.Unmarshal(b, &scripts) != nil {
				emit(map[string]any{"k": "corpus-limiter", "go_fail": "corpus file limiter_scripts.json does not parse", "nontrivial": false})
			}
			for _, sc := range scripts {
				keys := sc.Keys
				c := vC16LHistory(rand.New(rand.NewSource(1)), sc.MaxSize, func(i int) uint64 { return keys[i] }, len(keys), sc.Name)
				c["k"] = "corpus-limiter"
				emit(c)
			}
		}
	}
	if dir := os.Getenv("VERIF_CORPUS"); dir != "" {
		for _, c := range vC16LBursts(dir + "/limiter_bursts.json") {
			emit(c)
		}
	}
	sizes := []int{-1, 0, 1, 2, 3, 5, 7, 16, 40}
	for c := 0; c < n; c++ {
		maxSize := sizes[r.Intn(len(sizes))]
		keys := 1 + r.Intn(3*vC16LBound(maxSize)+3)
		nops := 30 + r.Intn(90)
		emit(vC16LHistory(r, maxSize, func(int) uint64 { return uint64(r.Intn(keys)) }, nops, fmt.Sprintf("random-%d", c)))
	}
	// above the sampling threshold of evictOne (any entry may go): fill the store, then churn
	big := 2
	if os.Getenv("VERIF_TIER") == "thorough" {
		big = 8
	}
	for c := 0; c < big; c++ {
		maxSize := []int{1001, 1100, 1000, 1002}[c%4]
		keys := maxSize + 40
		emit(vC16LHistory(r, maxSize, func(i int) uint64 {
			if i < maxSize {
				return uint64(i)
			}
			return uint64(r.Intn(keys))
		}, maxSize+60+r.Intn(40), fmt.Sprintf("big-%d", c)))
	}
	// recorded concurrent histories (first-sight bursts on a store that has room)
	crounds, cemit := 3000, 30
	if os.Getenv("VERIF_TIER") == "thorough" {
		crounds, cemit = 30000, 300
	}
	for _, c := range vC16LConcurrent(seed, crounds, cemit, 3, 3) {
		emit(c)
	}
	// concurrent Gets: bound and identity at quiescence
	for round := 0; round < 4; round++ {
		maxSize := []int{1, 8, 64, 500}[round]
		s := NewLimiterStore(maxSize, 10)
		var wg sync.WaitGroup
		for w := 0; w < 8; w++ {
			wg.Add(1)
			go func(w int) {
				defer wg.Done()
				rr := rand.New(rand.NewSource(seed*100 + int64(w)))
				for i := 0; i < 3000; i++ {
					s.Get(uint64(rr.Intn(3 * maxSize)))
				}
			}(w)
		}
		wg.Wait()
		goFail := ""
		if s.Len() > maxSize {
			goFail = fmt.Sprintf("after concurrent Gets %d limiters stored, maxSize %d", s.Len(), maxSize)
		}
		for k, tl := range s.limiters {
			if s.Get(k) != tl.limiter && goFail == "" {
				goFail = fmt.Sprintf("key %d does not return its stored limiter", k)
			}
		}
		emit(map[string]any{"k": "go-limiter-stress", "go_fail": goFail, "nontrivial": true,
			"desc": map[string]any{"maxSize": maxSize, "final": s.Len()}})
	}
}
