//go:build verif

package ratelimit

// C05 driver (d): the per-client limiter with cookies.  Every generated packet is served through the real
// RateLimit.ServeDNS twice: as a wire-born request (Request.ParseWire + Chain.ResetWire -> serveWire) on one
// RateLimit and as the decoded message (Msg.Unpack + Chain.Reset -> decoded body) on a twin built from the same
// configuration, the client's limiter in the same state on both.  The refill of the client's token bucket is
// stopped (rate.Limiter.SetLimit(0) on the limiter the store itself created: one history is one instant), so
// the tokens are whole numbers.  One Coq case per packet (model: Climit.crl_serve_wire / crl_serve_msg), the
// two observations also compared here.  A packet ParseWire refuses (a cookie option shorter than 8 octets, two
// cookie options) is served decoded on both, so that the decoded body's loop is exercised on shapes the strict
// path never sees; the histories then go on from equal states.

import (
	"context"
	"encoding/binary"
	"encoding/hex"
	"encoding/json"
	"fmt"
	"math/rand"
	"os"
	"strconv"
	"strings"
	"testing"
	"time"

	"github.com/miekg/dns"
	"github.com/semihalev/sdns/config"
	"github.com/semihalev/sdns/internal/dnsutil"
	"github.com/semihalev/sdns/internal/mock"
	"github.com/semihalev/sdns/middleware"
)

func vC05L(b []byte) string {
	if len(b) == 0 {
		return "[]"
	}
	parts := make([]string, len(b))
	for i, x := range b {
		parts[i] = strconv.Itoa(int(x))
	}
	return "[" + strings.Join(parts, ";") + "]%N"
}

type vC05Opt struct {
	code int
	data []byte
}

func vC05Opts(xs []vC05Opt) string {
	if len(xs) == 0 {
		return "[]"
	}
	var p []string
	for _, o := range xs {
		p = append(p, fmt.Sprintf("mk_lopt %d %s", o.code, vC05L(o.data)))
	}
	return "[" + strings.Join(p, "; ") + "]"
}

// the options of a message's OPT as (code, octets), through the library's packer
func vC05MsgOpts(m *dns.Msg) []vC05Opt {
	o := m.IsEdns0()
	if o == nil {
		return nil
	}
	var out []vC05Opt
	for _, e := range o.Option {
		tmp := &dns.OPT{Hdr: dns.RR_Header{Name: ".", Rrtype: dns.TypeOPT}, Option: []dns.EDNS0{e}}
		buf := make([]byte, 70000)
		off, err := dns.PackRR(tmp, buf, 0, nil, false)
		if err != nil || off < 15 {
			out = append(out, vC05Opt{int(e.Option()), nil})
			continue
		}
		out = append(out, vC05Opt{int(e.Option()), append([]byte(nil), buf[15:off]...)})
	}
	return out
}

type vC05Obs struct {
	kind   int // 0 the rest of the chain ran, 1 nothing written, 2 BADCOOKIE
	ropts  []vC05Opt
	cookie []byte
	tokens int
	bad    string
}

func (o vC05Obs) term() string {
	return fmt.Sprintf("(Some (%d%%N, %s, %s, %d%%N))", o.kind, vC05Opts(o.ropts), vC05L(o.cookie), o.tokens)
}
func (o vC05Obs) key() string {
	return fmt.Sprintf("kind=%d ropts=%s cookie=%x tokens=%d", o.kind, vC05Opts(o.ropts), o.cookie, o.tokens)
}

// the client's limiter state: remembered cookie (octets) and whole tokens
func vC05State(r *RateLimit, w *mock.Writer) ([]byte, int) {
	if w.RemoteIP() == nil {
		return nil, 0
	}
	l := r.getLimiter(w.RemoteIP())
	l.rl.SetLimit(0) // no refill from here on (idempotent)
	c, _ := hex.DecodeString(l.cookie.Load().(string))
	return c, int(l.rl.Tokens() + 1e-6)
}

func vC05Packet(r *rand.Rand, id uint16, opts []vC05Opt, hasOPT bool) []byte {
	raw := make([]byte, 12)
	binary.BigEndian.PutUint16(raw[0:], id)
	raw[2] = 0x01 // RD
	raw[5] = 1
	name := [][]byte{[]byte("\x03www\x07example\x03com\x00"), []byte("\x01a\x04zero\x04test\x00"), []byte("\x00")}[r.Intn(3)]
	raw = append(raw, name...)
	raw = append(raw, 0, byte([]int{1, 28, 16}[r.Intn(3)]), 0, 1)
	if hasOPT {
		raw[11] = 1
		var rd []byte
		for _, o := range opts {
			rd = binary.BigEndian.AppendUint16(rd, uint16(o.code))
			rd = binary.BigEndian.AppendUint16(rd, uint16(len(o.data)))
			rd = append(rd, o.data...)
		}
		raw = append(raw, 0, 0, 41)
		raw = binary.BigEndian.AppendUint16(raw, uint16([]int{1232, 512, 4096}[r.Intn(3)]))
		raw = append(raw, 0, 0, byte(r.Intn(2))<<7, 0)
		raw = binary.BigEndian.AppendUint16(raw, uint16(len(rd)))
		raw = append(raw, rd...)
	}
	return raw
}

func TestVerifC05ClientLimiter(t *testing.T) {
	path := os.Getenv("VERIF_OUT")
	if path == "" {
		t.Skip("VERIF_OUT not set")
	}
	f, err := os.Create(path)
	if err != nil {
		t.Fatal(err)
	}
	defer f.Close()
	seed, _ := strconv.Atoi(os.Getenv("VERIF_SEED"))
	n, _ := strconv.Atoi(os.Getenv("VERIF_N"))
	if n == 0 {
		n = 400
	}
	r := rand.New(rand.NewSource(int64(seed)*7919 + 505))
	bs := map[bool]string{true: "true", false: "false"}
	emitted := 0

	serve := func(rl *RateLimit, w *mock.Writer, raw []byte, wire bool, replay bool) (vC05Obs, bool) {
		var ob vC05Obs
		called := false
		next := middleware.HandlerFunc(func(_ context.Context, ch *middleware.Chain) {
			called = true
			ch.Cancel()
		})
		ch := middleware.NewChain([]middleware.Handler{rl, next})
		if wire {
			req := new(middleware.Request)
			if !req.ParseWire(raw, time.Now(), nil) {
				return ob, false
			}
			ch.ResetWire(w, req)
		} else {
			m := new(dns.Msg)
			if err := m.Unpack(raw); err != nil {
				return ob, false
			}
			ch.Reset(w, m)
		}
		if replay {
			ch.SetReplay()
		}
		ch.Next(context.Background())
		switch {
		case called && w.Written():
			ob.bad = "the chain ran AND a reply was written by the limiter"
		case called:
			ob.kind = 0
		case w.Written():
			ob.kind = 2
			if w.Rcode() != dns.RcodeBadCookie {
				ob.bad = fmt.Sprintf("limiter wrote rcode %d", w.Rcode())
			}
			ob.ropts = vC05MsgOpts(w.Msg())
		default:
			ob.kind = 1
		}
		ob.cookie, ob.tokens = vC05State(rl, w)
		return ob, true
	}

	for h := 0; emitted < n; h++ {
		rate := []int{1, 2, 3, 5, 8, 12, 2, 3, 5, 8, 3, 0}[r.Intn(12)]
		secret := []string{"6c6f6f6b61686172646c6f6f6b6168617264", "verif-c05"}[r.Intn(2)]
		cfg := &config.Config{ClientRateLimit: rate, CookieSecret: secret}
		rW, rM := New(cfg), New(cfg)
		clientAddr := []string{"203.0.113.9", "198.51.100.77", "[2001:db8::c05]"}[r.Intn(3)] + ":4242"
		client := make([]byte, 8)
		r.Read(client)
		var prevCached []byte
		steps := 8 + r.Intn(8)
		// pre-drain so that empty buckets are met early in some histories
		if rate > 0 && r.Intn(3) == 0 {
			for _, rl := range []*RateLimit{rW, rM} {
				w := mock.NewWriter("udp", clientAddr)
				vC05State(rl, w)
				l := rl.getLimiter(w.RemoteIP())
				for k := rate - 1 - r.Intn(2); k > 0; k-- {
					l.rl.Allow()
				}
			}
		}
		for s := 0; s < steps && emitted < n; s++ {
			proto := []string{"udp", "udp", "tcp"}[r.Intn(3)]
			addr, gateTag := clientAddr, ""
			replay := false
			switch r.Intn(28) {
			case 0:
				addr, gateTag = "127.0.0.1:5353", "loopback"
			case 1:
				addr, gateTag = "127.0.0.255:0", "internal"
			case 2:
				addr, gateTag = "", "noip"
			case 3:
				replay, gateTag = true, "replay"
			}
			wW, wM := mock.NewWriter(proto, addr), mock.NewWriter(proto, addr)
			cachedW, tokW := vC05State(rW, wW)
			cachedM, tokM := vC05State(rM, wM)
			if hex.EncodeToString(cachedW) != hex.EncodeToString(cachedM) || tokW != tokM {
				break // the states parted at an earlier step (reported there)
			}
			// the packet
			var opts []vC05Opt
			hasOPT := r.Intn(8) != 0
			cookieTag := "nocookie"
			var cookies [][]byte
			if hasOPT {
				mode := r.Intn(12)
				switch {
				case mode <= 1:
				case mode == 2:
					cookieTag = "fresh"
					c := make([]byte, 8)
					r.Read(c)
					cookies = [][]byte{c}
				case mode == 3:
					cookieTag = "client-half"
					cookies = [][]byte{append([]byte{}, client...)}
				case mode <= 5 && len(cachedW) > 0:
					cookieTag = "echo-cached"
					cookies = [][]byte{append([]byte{}, cachedW...)}
				case mode == 6 && len(prevCached) > 0:
					cookieTag = "echo-stale"
					cookies = [][]byte{append([]byte{}, prevCached...)}
				case mode == 7:
					cookieTag = "wrong-server-half"
					c := append(append([]byte{}, client...), make([]byte, 8+r.Intn(25))...)
					r.Read(c[8:])
					cookies = [][]byte{c}
				case mode == 8:
					cookieTag = "odd-length"
					c := append(append([]byte{}, client...), make([]byte, 1+r.Intn(7))...)
					r.Read(c[8:])
					cookies = [][]byte{c}
				case mode == 9:
					cookieTag = "short"
					c := make([]byte, r.Intn(8))
					r.Read(c)
					cookies = [][]byte{c}
				case mode == 10:
					cookieTag = "two"
					a := append([]byte{}, client...)
					b := make([]byte, 8+8*r.Intn(2))
					r.Read(b)
					if len(cachedW) > 0 && r.Intn(2) == 0 {
						b = append([]byte{}, cachedW...)
					}
					if r.Intn(2) == 0 {
						a = a[:r.Intn(8)]
					}
					cookies = [][]byte{a, b}
					if r.Intn(2) == 0 {
						cookies = [][]byte{b, a}
					}
				default:
					cookieTag = "client-half"
					cookies = [][]byte{append([]byte{}, client...)}
				}
				for k := r.Intn(3); k > 0; k-- {
					switch r.Intn(3) {
					case 0:
						opts = append(opts, vC05Opt{3, nil})
					case 1:
						opts = append(opts, vC05Opt{12, make([]byte, r.Intn(6))})
					default:
						opts = append(opts, vC05Opt{11, nil})
					}
				}
				for _, c := range cookies {
					at := r.Intn(len(opts) + 1)
					opts = append(opts[:at], append([]vC05Opt{{10, c}}, opts[at:]...)...)
				}
			}
			raw := vC05Packet(r, uint16(r.Intn(65536)), opts, hasOPT)
			m := new(dns.Msg)
			if err := m.Unpack(raw); err != nil {
				continue
			}
			mopts := vC05MsgOpts(m)
			probe := new(middleware.Request)
			wireBorn := probe.ParseWire(raw, time.Now(), nil)
			echoS := "None"
			if wireBorn {
				echoS = "(Some " + vC05L(probe.CookieEcho()) + ")"
			}
			// the sha256 part of the server cookie for every client half in the packet
			var tab []string
			ipStr := "<nil>"
			if wW.RemoteIP() != nil {
				ipStr = wW.RemoteIP().String()
			}
			for _, o := range mopts {
				if o.code == 10 && len(o.data) >= 8 {
					full, _ := hex.DecodeString(dnsutil.GenerateServerCookie(secret, ipStr, hex.EncodeToString(o.data[:8])))
					tab = append(tab, fmt.Sprintf("(%s, %s)", vC05L(o.data[:8]), vC05L(full[8:])))
				}
			}
			tabS := "[]"
			if len(tab) > 0 {
				tabS = "[" + strings.Join(tab, "; ") + "]"
			}

			obW, okW := serve(rW, wW, raw, wireBorn, replay)
			obM, okM := serve(rM, wM, raw, false, replay)
			goFail := ""
			if !okW || !okM {
				goFail = "driver: packet could not be served"
			} else if obW.bad != "" || obM.bad != "" {
				goFail = "per-client limiter: " + obW.bad + " " + obM.bad
			} else if obW.key() != obM.key() {
				goFail = fmt.Sprintf("per-client limiter differs: wire-born{%s} decoded{%s}", obW.key(), obM.key())
			}
			if len(cachedW) > 0 && hex.EncodeToString(cachedW) != hex.EncodeToString(obW.cookie) {
				prevCached = cachedW
			}
			gate := fmt.Sprintf("(mk_crl_gate %s %s %s %s %s)", bs[replay], bs[wW.Internal()], bs[rate == 0], bs[wW.RemoteIP() == nil],
				bs[wW.RemoteIP() != nil && wW.RemoteIP().IsLoopback()])
			owS := "None"
			if wireBorn {
				owS = obW.term()
			}
			kind := "climit/" + cookieTag
			if gateTag != "" {
				kind = "climit/gate-" + gateTag
			} else if rate == 0 {
				kind = "climit/gate-rate0"
			}
			if !wireBorn {
				kind += "/decoded-only"
			}
			kind += "/" + proto + "/" + []string{"next", "drop", "badcookie"}[obM.kind]
			b, _ := json.Marshal(map[string]any{
				"k": kind,
				"coq": fmt.Sprintf("CaseClientRL %s %s %s %d %s %s %s %s %s", gate, bs[proto == "udp"], vC05L(cachedW), tokW, tabS, vC05Opts(mopts), echoS,
					owS, obM.term()),
				"desc": map[string]any{"history": h, "step": s, "rate": rate, "proto": proto, "addr": addr, "replay": replay, "raw": hex.EncodeToString(raw),
					"cached_before": hex.EncodeToString(cachedW), "tokens_before": tokW, "wire_born": wireBorn, "wire": obW.key(), "decoded": obM.key()},
				"nontrivial": gateTag == "" && rate != 0,
				"go_fail":    goFail,
			})
			f.Write(append(b, '\n'))
			emitted++
			if goFail != "" {
				break
			}
		}
	}
}
