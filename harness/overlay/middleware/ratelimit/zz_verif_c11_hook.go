//go:build verif

package ratelimit

// C11 inline driver, ratelimit-side half (the driver lives in package server): the tokens a
// client's limiter holds now, in 1/60000 of a token (one ms of refill at rate 1/min is one unit).
// Reading creates the client's limiter (full) when it does not exist yet, as the first query
// of that client would.

import "net"

func (r *RateLimit) VC11ClientTokens(ip net.IP) int64 {
	l := r.getLimiter(ip)
	return int64(l.rl.Tokens()*60000 + 0.5)
}
