//go:build verif

package middleware

// C15 consumer driver (overlay-injected): responseWriter.WriteMsg on a writer that
// declared AllowDirectPack, and validatedNegativeProofFingerprint, against the
// library's Pack on an aliasing-preserving deep copy.

import (
	"bytes"
	"crypto/sha256"
	"encoding/json"
	"fmt"
	"math/rand"
	"net"
	"os"
	"strconv"
	"strings"
	"testing"

	"github.com/miekg/dns"
	"github.com/semihalev/sdns/internal/vc15gen"
	"github.com/semihalev/sdns/internal/wire"
)

type vC15Sink struct {
	internal bool
	wrote    [][]byte
	msgs     []*dns.Msg
	modified string // message differed from its snapshot when the fallback received it
	check    func() string
	// other, when set, runs inside Write BEFORE the sink takes its copy of the bytes: other requests'
	// packs through the shared pool, scheduled between the hand-over of the borrowed slice and the
	// moment the transport has copied it (a schedule the property quantifies over)
	other func()
}

// vC15OtherRequests packs three large, name-heavy, non-zero messages through the shared pool — what
// concurrent requests on the same P do to a pooled state that is not checked out.
func vC15OtherRequests() {
	for i := 0; i < 3; i++ {
		j := new(dns.Msg)
		j.SetQuestion(fmt.Sprintf("other-request-%d.example.net.", i), dns.TypeTXT)
		j.Response = true
		j.Compress = i%2 == 0
		fill := strings.Repeat(string(rune('X'+i)), 250)
		for k := 0; k < 12; k++ {
			j.Answer = append(j.Answer, &dns.TXT{Hdr: dns.RR_Header{Name: fmt.Sprintf("r%d.other-request-%d.example.net.", k, i), Rrtype: dns.TypeTXT, Class: dns.ClassINET, Ttl: 0xEEEEEEEE}, Txt: []string{fill}})
		}
		_, _ = wire.PackClone(j)
	}
}

func (s *vC15Sink) LocalAddr() net.Addr { return &net.UDPAddr{IP: net.IPv4(127, 0, 0, 1), Port: 53} }
func (s *vC15Sink) RemoteAddr() net.Addr {
	if s.internal {
		return &net.UDPAddr{IP: net.IPv4(127, 0, 0, 255), Port: 0}
	}
	return &net.UDPAddr{IP: net.IPv4(192, 0, 2, 1), Port: 5353}
}
func (s *vC15Sink) WriteMsg(m *dns.Msg) error {
	if s.check != nil {
		s.modified = s.check()
	}
	s.msgs = append(s.msgs, m)
	return nil
}
func (s *vC15Sink) Write(b []byte) (int, error) {
	if s.other != nil {
		s.other()
	}
	s.wrote = append(s.wrote, append([]byte{}, b...))
	return len(b), nil
}
func (s *vC15Sink) Close() error { return nil }

func vC15EnvInt(name string, def int) int {
	if s := os.Getenv(name); s != "" {
		if n, err := strconv.Atoi(s); err == nil {
			return n
		}
	}
	return def
}

func vC15B(b bool) string {
	if b {
		return "true"
	}
	return "false"
}

func TestVerifC15Consumers(t *testing.T) {
	p := os.Getenv("VERIF_OUT")
	if p == "" {
		t.Skip("VERIF_OUT not set")
	}
	f, err := os.Create(p)
	if err != nil {
		t.Fatal(err)
	}
	defer f.Close()
	emit := func(m map[string]any) {
		b, _ := json.Marshal(m)
		f.Write(append(b, '\n'))
	}
	seed := int64(vC15EnvInt("VERIF_SEED", 1))
	n := vC15EnvInt("VERIF_N", 600)
	r := rand.New(rand.NewSource(seed))

	for c := 0; c < n; c++ {
		var cs *vc15gen.VC15Case
		switch c % 8 {
		case 5:
			cs = vc15gen.VC15Gen(r, true)
		case 6:
			cs = vc15gen.VC15Sized(r, 4096+[]int{-1, 0, 1, 600}[r.Intn(4)])
		case 7:
			if r.Intn(2) == 0 {
				cs = vc15gen.VC15AliasedOversize(r)
			} else {
				cs = vc15gen.VC15Bare(r)
			}
		default:
			cs = vc15gen.VC15Gen(r, false)
		}
		msg := cs.Msg
		allClean := true
		for _, b := range cs.Clean {
			allClean = allClean && b
		}
		var fails []string
		fail := func(s string, a ...any) { fails = append(fails, fmt.Sprintf(s, a...)) }

		if c%2 == 0 {
			// ---- WriteMsg
			direct := r.Intn(5) != 0
			internal := r.Intn(6) == 0
			ref := vc15gen.VC15DeepCopy(msg)
			snap := vc15gen.VC15DeepCopy(msg)
			slots := vc15gen.VC15Records(msg)
			want, werr, wpanic := vc15gen.VC15LibPack(ref)
			// what the packer itself says about this message (on another copy)
			tpHandled := false
			func() {
				defer func() { _ = recover() }()
				tpHandled, _ = wire.TryPack(vc15gen.VC15DeepCopy(msg), func([]byte) error { return nil })
			}()
			sink := &vC15Sink{internal: internal}
			if r.Intn(3) != 0 {
				sink.other = vC15OtherRequests
			}
			sink.check = func() string { return vc15gen.VC15Diff(msg, snap, slots) }
			ch := NewChain(nil)
			req := new(dns.Msg)
			req.SetQuestion("example.com.", dns.TypeA)
			ch.Reset(sink, req)
			if direct {
				ch.AllowDirectPack()
			}
			var werr2 error
			panicked := false
			func() {
				defer func() {
					if recover() != nil {
						panicked = true
					}
				}()
				werr2 = ch.Writer.WriteMsg(msg)
			}()
			if panicked {
				fail("WriteMsg panicked")
			}
			if werr2 != nil {
				fail("WriteMsg error %v", werr2)
			}
			wroteBytes := len(sink.wrote) == 1 && len(sink.msgs) == 0
			fellBack := len(sink.wrote) == 0 && len(sink.msgs) == 1
			if !wroteBytes && !fellBack {
				fail("transport saw %d Write and %d WriteMsg calls", len(sink.wrote), len(sink.msgs))
			}
			if wroteBytes {
				switch {
				case wpanic || werr != nil:
					fail("raw bytes written for a message the library does not pack")
				case !bytes.Equal(sink.wrote[0], want):
					fail("raw bytes differ from the library's")
				}
				if d := vc15gen.VC15Diff(msg, snap, slots); d != "" {
					fail("message modified by the direct path: %s", d)
				}
			}
			if fellBack {
				if sink.msgs[0] != msg {
					fail("fallback received a different message pointer")
				}
				if sink.modified != "" {
					fail("message reached the fallback modified: %s", sink.modified)
				}
			}
			if ch.Writer.Msg() != msg || ch.Writer.Rcode() != msg.Rcode || !ch.Writer.Written() {
				fail("writer bookkeeping: Msg()/Rcode()/Written() do not describe the written message")
			}
			line := map[string]any{
				"coq":        fmt.Sprintf("CaseWrite %s %s %s %s %s", vC15B(direct), vC15B(internal), vC15B(tpHandled), vC15B(wroteBytes), vC15B(fellBack)),
				"k":          fmt.Sprintf("writemsg/direct=%v/internal=%v/bytes=%v", direct, internal, wroteBytes),
				"desc":       map[string]any{"tags": cs.Tags, "rcode": msg.Rcode, "sections": []int{len(msg.Question), len(msg.Answer), len(msg.Ns), len(msg.Extra)}, "lib_ok": werr == nil && !wpanic, "len": len(want)},
				"nontrivial": wroteBytes && len(slots) > 0 || (fellBack && direct && !internal),
			}
			if len(fails) > 0 {
				line["go_fail"] = strings.Join(fails, " | ")
			}
			emit(line)
			continue
		}

		// ---- validatedNegativeProofFingerprint: sealed = {Rcode, Ns}
		proof := msg
		sealed := new(dns.Msg)
		ref := vc15gen.VC15DeepCopy(proof)
		sealed.Rcode = ref.Rcode
		sealed.Ns = ref.Ns
		snap := vc15gen.VC15DeepCopy(proof)
		slots := vc15gen.VC15Records(proof)
		want, werr, wpanic := vc15gen.VC15LibPack(sealed)
		var sum [sha256.Size]byte
		ok, panicked := false, false
		func() {
			defer func() {
				if recover() != nil {
					panicked = true
				}
			}()
			sum, ok = validatedNegativeProofFingerprint(proof)
		}()
		switch {
		case panicked != wpanic:
			fail("fingerprint panic=%v, library panic=%v", panicked, wpanic)
		case panicked:
		case ok != (werr == nil):
			fail("fingerprint valid=%v, library error %v", ok, werr)
		case ok && sum != sha256.Sum256(want):
			fail("fingerprint is not the hash of the library's bytes")
		}
		nsClean := true
		for i := range proof.Ns {
			nsClean = nsClean && cs.Clean[len(proof.Answer)+i]
		}
		if nsClean {
			if d := vc15gen.VC15Diff(proof, snap, slots); d != "" {
				fail("fingerprint modified the proof: %s", d)
			}
		}
		line := map[string]any{
			"k":          fmt.Sprintf("fingerprint/valid=%v", ok),
			"desc":       map[string]any{"tags": cs.Tags, "rcode": msg.Rcode, "ns": len(msg.Ns), "lib_ok": werr == nil && !wpanic},
			"nontrivial": ok && len(proof.Ns) > 0,
		}
		if len(fails) > 0 {
			line["go_fail"] = strings.Join(fails, " | ")
		}
		emit(line)
		_ = allClean
	}
	// the model ties: small concrete replies, what the transport gets and what is sealed computed by C15.Cache
	for c := 0; c < 10+n/15; c++ {
		vC15ReplyModelCase(emit, r)
	}
	for c := 0; c < 8+n/30; c++ {
		vC15FingerprintModelCase(emit, r)
	}
}
