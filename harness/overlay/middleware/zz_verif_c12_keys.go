//go:build verif

package middleware

import "context"

// VC12QueryerDepth exposes the value pipelineQueryer.Query keeps under queryerDepthKey (the nesting
// counter compared with maxQueryerRecursion) to the C12 lab driver in package resolver.
func VC12QueryerDepth(ctx context.Context) int {
	d, _ := ctx.Value(queryerDepthKey).(int)
	return d
}
