//go:build verif

package middleware

// C17 driver "writer": who is internal. Binds the chain's writer (responseWriter.Reset, through the two
// production entry points Chain.Reset and Chain.ResetWire) to transports reporting every remote-address
// type x {the sentinel 127.0.0.255 in 4-byte and IPv4-mapped form, its neighbours, other addresses, no
// address} x {port 0, real ports} x {no Internal() method, Internal() false, Internal() true}, and records
// what the chain's writer then says for Internal() and RemoteIP(). Also runs real sub-queries through
// Queryer.Query (direct and as injected by autoWire) and records what a handler of the sub-pipeline sees.

import (
	"context"
	"encoding/json"
	"fmt"
	"math/big"
	"math/rand"
	"net"
	"os"
	"strconv"
	"testing"

	"github.com/miekg/dns"
	"github.com/semihalev/sdns/internal/mock"
)

// a transport without an Internal() method
type vC17Tr struct {
	addr net.Addr
	msg  *dns.Msg
}

func (t *vC17Tr) LocalAddr() net.Addr         { return &net.UDPAddr{IP: net.IPv4(127, 0, 0, 1), Port: 53} }
func (t *vC17Tr) RemoteAddr() net.Addr        { return t.addr }
func (t *vC17Tr) WriteMsg(m *dns.Msg) error   { t.msg = m; return nil }
func (t *vC17Tr) Write(b []byte) (int, error) { t.msg = new(dns.Msg); return len(b), t.msg.Unpack(b) }
func (t *vC17Tr) Close() error                { return nil }

// ... and one with it
type vC17TrSays struct {
	vC17Tr
	says bool
}

func (t *vC17TrSays) Internal() bool { return t.says }

// vC17Slab is a long-lived transport of the kind the server's engines keep (udpJob / tcpJob): ONE value that is
// bound to its chain again for every packet it carries while the remote it reports changes from packet to packet —
// the IP bytes are rewritten in place over a scratch array, as udpJob.setRemote does.
type vC17Slab struct {
	vC17Tr
	udp     net.UDPAddr
	tcp     net.TCPAddr
	ipa     net.IPAddr
	scratch [16]byte
}

func (s *vC17Slab) set(kind int, ip net.IP, port int) {
	var view net.IP
	if ip != nil {
		view = append(s.scratch[:0], ip...)
	}
	switch kind {
	case 0:
		s.udp.IP, s.udp.Port = view, port
		s.addr = &s.udp
	case 1:
		s.tcp.IP, s.tcp.Port = view, port
		s.addr = &s.tcp
	default:
		s.ipa.IP = view
		s.addr = &s.ipa
	}
}

// ... and one that has the Internal() method
type vC17SlabSays struct {
	vC17Slab
	says bool
}

func (t *vC17SlabSays) Internal() bool { return t.says }

func vC17CoqIP(ip net.IP) string {
	switch len(ip) {
	case 4:
		return fmt.Sprintf("(Some (mk_addr true %s))", new(big.Int).SetBytes(ip).String())
	case 16:
		return fmt.Sprintf("(Some (mk_addr false %s))", new(big.Int).SetBytes(ip).String())
	}
	return "None"
}

// vC17CoqRemote renders what a transport reports as the model's [remote]
func vC17CoqRemote(a net.Addr, says string) string {
	kind, ip, port := "KOther", "None", 0
	switch x := a.(type) {
	case *net.UDPAddr:
		kind, ip, port = "KUdp", vC17CoqIP(x.IP), x.Port
	case *net.TCPAddr:
		kind, ip, port = "KTcp", vC17CoqIP(x.IP), x.Port
	case *net.IPAddr:
		ip = vC17CoqIP(x.IP)
	}
	return fmt.Sprintf("(mk_remote %s %s %d %s)", kind, ip, port, says)
}

type vC17Probe struct {
	vNamed
	q, pq    Queryer
	seen     []string // coq remote of the transport under the chain's writer
	internal []bool
}

func (p *vC17Probe) SetQueryer(q Queryer)         { p.q = q }
func (p *vC17Probe) SetPrefetchQueryer(q Queryer) { p.pq = q }
func (p *vC17Probe) ServeDNS(ctx context.Context, ch *Chain) {
	says := "None"
	if rw, ok := ch.Writer.(*responseWriter); ok {
		if i, ok := rw.Transport.(interface{ Internal() bool }); ok {
			says = fmt.Sprintf("(Some %v)", i.Internal())
		}
	}
	p.seen = append(p.seen, vC17CoqRemote(ch.Writer.RemoteAddr(), says))
	p.internal = append(p.internal, ch.Writer.Internal())
	_, req := ch.Materialize(ctx)
	if req != nil {
		m := new(dns.Msg)
		m.SetReply(req)
		_ = ch.Writer.WriteMsg(m)
	}
	ch.Cancel()
}

func TestVerifC17Writer(t *testing.T) {
	path := os.Getenv("VERIF_OUT")
	if path == "" {
		t.Skip("VERIF_OUT not set")
	}
	f, err := os.Create(path)
	if err != nil {
		t.Fatal(err)
	}
	defer f.Close()
	seed, _ := strconv.Atoi(os.Getenv("VERIF_SEED"))
	n, _ := strconv.Atoi(os.Getenv("VERIF_N"))
	if n == 0 {
		n = 400
	}
	r := rand.New(rand.NewSource(int64(seed) + 67))
	emit := func(m map[string]any) {
		b, _ := json.Marshal(m)
		f.Write(append(b, '\n'))
	}

	// genuine sub-queries: what a handler of the sub-pipeline sees
	{
		probe := &vC17Probe{vNamed: vNamed{name: "verifprobe"}}
		co := &vClientOnly{vNamed{name: "accesslist", clientOnly: true}}
		hs := []Handler{co, probe}
		names := []string{"accesslist", "verifprobe"}
		p := newPipeline(hs, map[string]Handler{"accesslist": co, "verifprobe": probe}, names, RecursionWorkPolicy{})
		p.autoWire()
		qs := map[string]Queryer{"direct": NewPipelineQueryer(p.SubPipeline("accesslist")), "autowire-queryer": probe.q, "autowire-prefetch": probe.pq}
		for _, nm := range []string{"direct", "autowire-queryer", "autowire-prefetch"} {
			q := qs[nm]
			goFail := ""
			before := len(probe.seen)
			if q == nil {
				goFail = "no queryer injected"
			} else {
				req := new(dns.Msg)
				req.SetQuestion("sub.c17.test.", dns.TypeA)
				if _, err := q.Query(context.Background(), req); err != nil {
					goFail = "sub-query failed: " + err.Error()
				}
			}
			if len(probe.seen) != before+1 {
				if goFail == "" {
					goFail = "the sub-pipeline's handler was not reached exactly once"
				}
				emit(map[string]any{"k": "writer-subquery", "coq": "CaseSubquery (mk_remote KOther None 0 None) false", "go_fail": goFail, "nontrivial": true, "desc": map[string]any{"via": nm}})
				continue
			}
			emit(map[string]any{
				"k":          "writer-subquery",
				"coq":        fmt.Sprintf("CaseSubquery %s %v", probe.seen[before], probe.internal[before]),
				"go_fail":    goFail,
				"nontrivial": true,
				"desc":       map[string]any{"via": nm, "transport_remote": probe.seen[before], "internal": probe.internal[before]},
			})
		}
	}

	type ipc struct {
		ip   net.IP
		core bool
	}
	rnd4 := make(net.IP, 4)
	r.Read(rnd4)
	rnd16 := make(net.IP, 16)
	r.Read(rnd16)
	ips := []ipc{
		{net.IP{127, 0, 0, 255}, true},
		{net.IPv4(127, 0, 0, 255), true}, // 16-byte IPv4-mapped form
		{net.IP{127, 0, 0, 254}, true},
		{net.IP{127, 0, 1, 0}, true},
		{net.IPv4(127, 0, 0, 254), true},
		{net.IPv4(127, 0, 1, 0), true},
		{net.IP{0, 0, 0, 0, 0, 0, 0, 0, 0, 0, 0, 0, 127, 0, 0, 255}, false}, // v4-compatible, not mapped
		{net.IP{0, 0, 0, 0, 0, 0, 0, 0, 0, 0, 0xff, 0xfe, 127, 0, 0, 255}, false},
		{net.IP{128, 0, 0, 255}, false},
		{net.IP{127, 1, 0, 255}, false},
		{net.IPv6loopback, false},
		{net.IP{127, 0, 0, 1}, false},
		{nil, false},
		{net.IP{127, 0, 0, 255, 0}, false}, // not an address at all
		{rnd4, false},
		{rnd16, false},
	}
	ports := []int{0, 4242, 1, 53, 65535, 1 + r.Intn(65535)}
	type combo struct {
		kind, ipi, porti, says, entry int
		core                          bool
	}
	var core, rest []combo
	for kind := 0; kind < 5; kind++ {
		for ipi := range ips {
			for porti := range ports {
				for says := 0; says < 3; says++ {
					for entry := 0; entry < 2; entry++ {
						c := combo{kind, ipi, porti, says, entry, false}
						// core = always emitted: every address on the two address types the switch knows, port 0 and one real
						// port, all three Internal() variants, both entry points (384); the rest is sampled in the quick tier
						if kind < 2 && porti < 2 {
							c.core = true
							core = append(core, c)
						} else {
							rest = append(rest, c)
						}
					}
				}
			}
		}
	}
	r.Shuffle(len(rest), func(i, j int) { rest[i], rest[j] = rest[j], rest[i] })
	all := append(core, rest...)
	if n < len(core) {
		n = len(core)
	}
	if n > len(all) {
		n = len(all)
	}
	ch := NewChain([]Handler{})
	// internal/mock.Writer — what server.ServeHTTP builds for every DoH / DoH3 request, and what most of the repository's
	// tests use — computes its own Internal() from the peer address: every sentinel-neighbourhood address x port x proto
	for _, proto := range []string{"doh", "tcp", "udp"} {
		for _, lit := range []string{"127.0.0.255", "[::ffff:127.0.0.255]", "127.0.0.254", "127.0.1.0", "[::ffff:127.0.0.254]", "[::127.0.0.255]", "[::1]", "10.1.2.3", "[2001:db8::1]"} {
			for _, port := range []int{0, 1, 53, 4242, 65535} {
				mw := mock.NewWriter(proto, fmt.Sprintf("%s:%d", lit, port))
				remote := vC17CoqRemote(mw.RemoteAddr(), fmt.Sprintf("(Some %v)", mw.Internal()))
				req := new(dns.Msg)
				req.SetQuestion("w.c17.test.", dns.TypeA)
				ch.Reset(mw, req)
				internal := ch.Writer.Internal()
				emit(map[string]any{"k": "writer-mock-says", "coq": "CaseTransportSays " + remote, "nontrivial": true,
					"desc": map[string]any{"proto": proto, "remote": fmt.Sprintf("%s:%d", lit, port), "mock_internal": mw.Internal()}})
				k := "writer-mock-client"
				if internal {
					k = "writer-mock-internal"
				}
				emit(map[string]any{"k": k, "coq": fmt.Sprintf("CaseWriter %s %v %s", remote, internal, vC17CoqIP(ch.Writer.RemoteIP())), "nontrivial": true,
					"desc": map[string]any{"entry": "Chain.Reset", "proto": proto, "remote": fmt.Sprintf("%s:%d", lit, port), "mock_internal": mw.Internal(), "writer_internal": internal}})
			}
		}
	}
	for _, c := range all[:n] {
		ip, port := ips[c.ipi].ip, ports[c.porti]
		var addr net.Addr
		kindName := ""
		switch c.kind {
		case 0:
			addr, kindName = &net.UDPAddr{IP: ip, Port: port}, "*net.UDPAddr"
		case 1:
			addr, kindName = &net.TCPAddr{IP: ip, Port: port}, "*net.TCPAddr"
		case 2:
			addr, kindName = &net.IPAddr{IP: ip}, "*net.IPAddr"
		case 3:
			addr, kindName = &net.UnixAddr{Name: "/run/x", Net: "unix"}, "*net.UnixAddr"
		case 4:
			addr, kindName = nil, "nil"
		}
		var tr Transport
		says := "None"
		switch c.says {
		case 0:
			tr = &vC17Tr{addr: addr}
		case 1:
			tr, says = &vC17TrSays{vC17Tr{addr: addr}, false}, "(Some false)"
		case 2:
			tr, says = &vC17TrSays{vC17Tr{addr: addr}, true}, "(Some true)"
		}
		entry := "Chain.Reset"
		if c.entry == 0 {
			req := new(dns.Msg)
			req.SetQuestion("w.c17.test.", dns.TypeA)
			ch.Reset(tr, req)
		} else {
			entry = "Chain.ResetWire"
			ch.ResetWire(tr, &Request{})
		}
		internal := ch.Writer.Internal()
		rip := ch.Writer.RemoteIP()
		remote := vC17CoqRemote(addr, says)
		if c.kind == 2 { // the model's remote of a foreign address type carries no port
			remote = fmt.Sprintf("(mk_remote KOther %s %d %s)", vC17CoqIP(ip), port, says)
		}
		k := "writer-client"
		if internal {
			k = "writer-internal"
		}
		if ips[c.ipi].core && c.core {
			k += "-sentinel-sweep"
		}
		emit(map[string]any{
			"k":          k,
			"coq":        fmt.Sprintf("CaseWriter %s %v %s", remote, internal, vC17CoqIP(rip)),
			"nontrivial": true,
			"desc":       map[string]any{"entry": entry, "remote_addr_type": kindName, "ip": fmt.Sprint([]byte(ip)), "port": port, "transport_internal_method": says, "writer_internal": internal, "writer_remote_ip": fmt.Sprint(rip)},
		})
	}

	// ---- rebinding: long-lived transports (the engines' job slabs) bound to a long-lived chain packet after packet
	// while their remote changes (family, byte form, address type, port, what Internal() says): after every binding the
	// writer speaks for the packet's OWN remote, whatever the transport reported the last time it was bound
	{
		plain := &vC17Slab{}
		decl := &vC17SlabSays{}
		slabCh := [2]*Chain{NewChain([]Handler{}), NewChain([]Handler{})}
		var rcore []combo
		for _, c := range core {
			if ips[c.ipi].ip == nil || len(ips[c.ipi].ip) <= 16 {
				rcore = append(rcore, c)
			}
		}
		r.Shuffle(len(rcore), func(i, j int) { rcore[i], rcore[j] = rcore[j], rcore[i] })
		nr := 60 + n/4
		if nr > len(rcore) {
			nr = len(rcore)
		}
		prev := [2]string{"(never bound)", "(never bound)"}
		for i, c := range rcore[:nr] {
			ip, port := ips[c.ipi].ip, ports[c.porti]
			kind := c.kind
			if i%11 == 10 {
				kind = 2 // a foreign address type in between
			}
			which := 0
			says := "None"
			var tr Transport = plain
			if c.says > 0 {
				which = 1
				decl.says = c.says == 2
				says = fmt.Sprintf("(Some %v)", decl.says)
				tr = decl
				decl.set(kind, ip, port)
			} else {
				plain.set(kind, ip, port)
			}
			ch := slabCh[which]
			entry := "Chain.ResetWire"
			if i%5 == 4 { // mostly the wire entry (what the jobs use), the decoded one now and then
				entry = "Chain.Reset"
				req := new(dns.Msg)
				req.SetQuestion("w.c17.test.", dns.TypeA)
				ch.Reset(tr, req)
			} else {
				ch.ResetWire(tr, &Request{})
			}
			internal := ch.Writer.Internal()
			rip := append(net.IP(nil), ch.Writer.RemoteIP()...)
			if ch.Writer.RemoteIP() == nil {
				rip = nil
			}
			remote := vC17CoqRemote(tr.RemoteAddr(), says)
			if kind == 2 {
				remote = fmt.Sprintf("(mk_remote KOther %s %d %s)", vC17CoqIP(ip), port, says)
			}
			k := "writer-rebind-client"
			if internal {
				k = "writer-rebind-internal"
			}
			emit(map[string]any{
				"k":          k,
				"coq":        fmt.Sprintf("CaseWriter %s %v %s", remote, internal, vC17CoqIP(rip)),
				"nontrivial": true,
				"desc":       map[string]any{"entry": entry, "same_transport_rebound": true, "bound_before_to": prev[which], "remote_addr_type": []string{"*net.UDPAddr", "*net.TCPAddr", "*net.IPAddr"}[kind], "ip": fmt.Sprint([]byte(ip)), "port": port, "transport_internal_method": says, "writer_internal": internal, "writer_remote_ip": fmt.Sprint(rip)},
			})
			prev[which] = fmt.Sprintf("%v:%d", []byte(ip), port)
		}
	}
}
