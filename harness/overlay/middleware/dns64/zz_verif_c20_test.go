//go:build verif

package dns64

// C20 driver. Runs the real dns64 code on generated inputs and records what
// it did as Coq terms of type C20.Run.case:
//
//   - validatePrefix / embedIPv4 / extractIPv4 / parseIP6ArpaName / inAddrArpa /
//     net.IPNet.Contains / compileConfig / isDNSSECFailure directly;
//   - DNS64.ServeDNS as the first handler of a real middleware.Chain in front of
//     a scripted next handler (the "downstream" AAAA response, with the
//     cached-failure / request-local markers the production handlers attach) and
//     a scripted Queryer (the secondary A / PTR lookup), message-born and
//     wire-born requests, observing the reply that reaches the client writer.
//
// Every random choice comes from VERIF_SEED. Nothing here decides a verdict
// except the go_fail ground-truth oracles (RFC 6052 reference embedding,
// ip6.arpa ground truth of the generator).

import (
	"context"
	"encoding/hex"
	"encoding/json"
	"fmt"
	"math/rand"
	"net"
	"os"
	"strconv"
	"strings"
	"testing"
	"time"

	"github.com/miekg/dns"
	"github.com/semihalev/sdns/config"
	"github.com/semihalev/sdns/internal/mock"
	"github.com/semihalev/sdns/middleware"
)

// ---------------------------------------------------------------- output

type vC20Out struct {
	f *os.File
}

func (o *vC20Out) emit(k, coq string, desc any, nontrivial bool, goFail, fkey string) {
	rec := map[string]any{"k": k, "coq": coq, "desc": desc, "nontrivial": nontrivial}
	if goFail != "" {
		rec["go_fail"] = goFail
	}
	if fkey != "" {
		rec["fkey"] = fkey
	}
	b, _ := json.Marshal(rec)
	o.f.Write(append(b, '\n'))
}

func vC20EnvInt(name string, def int) int {
	if s := os.Getenv(name); s != "" {
		if n, err := strconv.Atoi(s); err == nil {
			return n
		}
	}
	return def
}

// ---------------------------------------------------------------- Coq text

func vC20Hx(b []byte) string { return `(hx "` + hex.EncodeToString(b) + `")` }

func vC20Bs(s string) string { return `(bs "` + strings.ReplaceAll(s, `"`, `""`) + `")` }

func vC20Bool(b bool) string {
	if b {
		return "true"
	}
	return "false"
}

func vC20Net(n *net.IPNet) string {
	ones, _ := n.Mask.Size()
	return fmt.Sprintf(`(nt "%s" %d %d)`, hex.EncodeToString(n.IP), ones, len(n.Mask))
}

// the ParseCIDR result of a configured string, as the code computes it
func vC20OptNet(raw string) string {
	_, n, err := net.ParseCIDR(strings.TrimSpace(raw))
	if err != nil {
		return "None"
	}
	return "(Some " + vC20Net(n) + ")"
}

func vC20OptNets(raws []string) string {
	var parts []string
	for _, r := range raws {
		parts = append(parts, vC20OptNet(r))
	}
	return "[" + strings.Join(parts, "; ") + "]"
}

func vC20OptList(raws []string) string {
	if raws == nil {
		return "None"
	}
	return "(Some " + vC20OptNets(raws) + ")"
}

func vC20Config(c *config.Config) string {
	var zs []string
	for _, z := range c.DNS64.ExcludeZones {
		zs = append(zs, vC20Bs(z))
	}
	return fmt.Sprintf("(mk_config %s %s [%s] %s %s)",
		vC20OptNets(c.DNS64.Prefixes), vC20OptNets(c.DNS64.ClientNetworks), strings.Join(zs, "; "),
		vC20OptList(c.DNS64.ExcludeANetworks), vC20OptList(c.DNS64.ExcludeAAAANetworks))
}

func vC20RR(rr dns.RR) string {
	h := rr.Header()
	switch v := rr.(type) {
	case *dns.A:
		return fmt.Sprintf("(RA %s %d %s)", vC20Bs(h.Name), h.Ttl, vC20Hx(v.A))
	case *dns.AAAA:
		return fmt.Sprintf("(RAAAA %s %d %s)", vC20Bs(h.Name), h.Ttl, vC20Hx(v.AAAA))
	case *dns.CNAME:
		return fmt.Sprintf("(RCNAME %s %d %s)", vC20Bs(h.Name), h.Ttl, vC20Bs(v.Target))
	case *dns.DNAME:
		return fmt.Sprintf("(RDNAME %s %d %s)", vC20Bs(h.Name), h.Ttl, vC20Bs(v.Target))
	case *dns.PTR:
		return fmt.Sprintf("(RPTR %s %d %s)", vC20Bs(h.Name), h.Ttl, vC20Bs(v.Ptr))
	}
	return fmt.Sprintf("(ROther %s %d %d)", vC20Bs(h.Name), h.Ttl, h.Rrtype)
}

func vC20RRs(rrs []dns.RR) string {
	var parts []string
	for _, rr := range rrs {
		parts = append(parts, vC20RR(rr))
	}
	return "[" + strings.Join(parts, "; ") + "]"
}

func vC20Edes(m *dns.Msg) (string, []uint16) {
	opt := m.IsEdns0()
	if opt == nil {
		return "None", nil
	}
	var codes []uint16
	var parts []string
	for _, o := range opt.Option {
		if e, ok := o.(*dns.EDNS0_EDE); ok {
			codes = append(codes, e.InfoCode)
			parts = append(parts, strconv.Itoa(int(e.InfoCode)))
		}
	}
	return "(Some [" + strings.Join(parts, "; ") + "]%N)", codes
}

func vC20Msg(m *dns.Msg) string {
	edes, _ := vC20Edes(m)
	var ns []string
	for _, rr := range m.Ns {
		if soa, ok := rr.(*dns.SOA); ok {
			ns = append(ns, fmt.Sprintf("Some (%d, %d)", soa.Hdr.Ttl, soa.Minttl))
		} else {
			ns = append(ns, "None")
		}
	}
	return fmt.Sprintf("(mk_msg %s %d %d %s %s %s [%s]%%N)", vC20Bool(m.Truncated), len(m.Question), m.Rcode,
		vC20Bool(m.AuthenticatedData), edes, vC20RRs(m.Answer), strings.Join(ns, "; "))
}

// ---------------------------------------------------------------- generators

// RFC 6052 section 2.2 — the driver's own table; the code's table (or whatever
// replaces it) is only ever asked through validatePrefix / extractIPv4
var vC20LegalBits = []int{32, 40, 48, 56, 64, 96}

func vC20IsRFCLen(bits int) bool {
	for _, b := range vC20LegalBits {
		if b == bits {
			return true
		}
	}
	return false
}

// Which prefix lengths does the code admit?  Asked, not read: validatePrefix on
// every length 0..128 of an IPv6 prefix (bits 64..71 zero) and, for the admitted
// ones, embedIPv4 + extractIPv4; the same lengths through compileConfig
// (the prefix survives compilation or the well-known one replaces it).
// shapes: how many base addresses (1 in the quick tier).
func vC20ProbeLengths(o *vC20Out, shapes []string, v4s []net.IP) {
	for _, sh := range shapes {
		for bits := 0; bits <= 128; bits++ {
			_, p, err := net.ParseCIDR(fmt.Sprintf("%s/%d", sh, bits))
			if err != nil {
				continue
			}
			valid := validatePrefix(p) == nil
			for _, v4 := range v4s {
				var emb, ext net.IP
				ok := false
				goFail := ""
				if valid {
					emb = embedIPv4(p, v4)
					ext, ok = extractIPv4(p, emb)
					if vC20IsRFCLen(bits) && len(p.IP) == 16 {
						if ref := vC20RefEmbed(p, v4); !ref.Equal(emb) {
							goFail = fmt.Sprintf("embedIPv4(%s, %s) = %x, RFC 6052 reference %x", p, v4, []byte(emb), []byte(ref))
						}
					}
				}
				if valid != (vC20IsRFCLen(bits) && len(p.IP) == 16 && len(p.Mask) == 16 && (bits != 96 || p.IP[8] == 0)) && goFail == "" {
					goFail = fmt.Sprintf("validatePrefix(%s) accepted=%v, RFC 6052 section 2.2 says %v", p, valid, !valid)
				}
				o.emit(fmt.Sprintf("len-probe-%v", valid), fmt.Sprintf("CaseEmbed %s %s %s %s %s", vC20Net(p), vC20Hx(v4), vC20Bool(valid), vC20Hx(emb), vC20OptBytes(ext, ok)),
					map[string]any{"prefix": p.String(), "v4": v4.String(), "valid": valid, "embedded": emb.String(), "extracted": fmt.Sprint(ext, ok)}, true, goFail, "")
			}
			// through compileConfig
			cfg := &config.Config{}
			cfg.DNS64.Enabled = true
			cfg.DNS64.Prefixes = []string{fmt.Sprintf("%s/%d", sh, bits)}
			if d := New(cfg); d != nil {
				o.emit("len-probe-compile", fmt.Sprintf("CaseCompile %s %s", vC20Config(cfg), vC20Compiled(d.cfg)),
					map[string]any{"prefixes": cfg.DNS64.Prefixes, "compiled_prefixes": len(d.cfg.prefixes), "first": d.cfg.prefixes[0].net.String()}, true, "", "")
			}
		}
	}
}

func vC20RandV6(r *rand.Rand) net.IP {
	ip := make(net.IP, 16)
	r.Read(ip)
	switch r.Intn(8) {
	case 0:
		copy(ip, []byte{0x20, 0x01, 0x0d, 0xb8})
	case 1:
		for i := range ip[:8] {
			ip[i] = 0
		}
	case 2:
		for i := range ip {
			ip[i] = 0xff
		}
	case 3:
		copy(ip, []byte{0, 0x64, 0xff, 0x9b, 0, 0, 0, 0, 0, 0, 0, 0})
	}
	return ip
}

var vC20BoundaryV4 = []string{
	"0.0.0.0", "0.0.255.255", "0.255.255.7", "0.255.255.255", "1.0.0.0", "9.255.255.255", "10.0.0.0", "10.255.255.255", "11.0.0.0",
	"100.63.255.255", "100.64.0.0", "100.127.255.255", "100.128.0.0", "126.255.255.255", "127.0.0.1", "128.0.0.0",
	"169.253.255.255", "169.254.0.0", "169.254.255.255", "169.255.0.0", "172.15.255.255", "172.16.0.0", "172.31.255.255", "172.32.0.0",
	"191.255.255.255", "192.0.0.0", "192.0.0.255", "192.0.1.0", "192.0.1.255", "192.0.2.0", "192.0.2.255", "192.0.3.0",
	"192.88.98.255", "192.88.99.0", "192.88.99.255", "192.88.100.0", "192.167.255.255", "192.168.0.0", "192.168.255.255", "192.169.0.0",
	"198.17.255.255", "198.18.0.0", "198.19.255.255", "198.20.0.0", "198.51.99.255", "198.51.100.0", "198.51.100.255", "198.51.101.0",
	"203.0.112.255", "203.0.113.0", "203.0.113.255", "203.0.114.0", "223.255.255.255", "224.0.0.0", "239.255.255.255", "240.0.0.0",
	"255.255.255.254", "255.255.255.255", "8.8.8.8", "1.2.3.4", "93.184.216.34",
}

func vC20RandV4(r *rand.Rand) net.IP {
	if r.Intn(3) != 0 {
		return net.ParseIP(vC20BoundaryV4[r.Intn(len(vC20BoundaryV4))]).To4()
	}
	ip := make(net.IP, 4)
	r.Read(ip)
	return ip
}

// a CIDR string for a Pref64 candidate; legal or illegal
func vC20RandPrefixString(r *rand.Rand) string {
	switch r.Intn(14) {
	case 0:
		return "64:ff9b::/96"
	case 1:
		return "::ffff:0:0/96"
	case 2:
		return []string{"::/56", "::/64", "::/32", "::/96"}[r.Intn(4)]
	case 3: // illegal length
		bits := []int{0, 1, 8, 16, 24, 31, 33, 39, 41, 47, 49, 55, 57, 63, 65, 72, 80, 88, 95, 97, 104, 112, 120, 127, 128}[r.Intn(25)]
		return fmt.Sprintf("%s/%d", vC20RandV6(r), bits)
	case 4: // IPv4 CIDR, possibly with a "legal" number
		return fmt.Sprintf("%s/%d", vC20RandV4(r), []int{8, 24, 32}[r.Intn(3)])
	case 5: // /96 with a non-zero byte 8
		ip := vC20RandV6(r)
		ip[8] = byte(1 + r.Intn(255))
		return fmt.Sprintf("%s/96", ip)
	case 6:
		return []string{"bogus", "", "2001:db8::/", "2001:db8::1"}[r.Intn(4)]
	}
	ip := vC20RandV6(r)
	if r.Intn(2) == 0 {
		ip[8] = 0
	}
	bits := vC20LegalBits[r.Intn(6)]
	s := fmt.Sprintf("%s/%d", ip, bits)
	if r.Intn(10) == 0 {
		s = " " + s + " "
	}
	return s
}

// a legal prefix (validated), for the cases that need one
func vC20RandLegalPrefix(r *rand.Rand) *net.IPNet {
	for {
		_, p, err := net.ParseCIDR(strings.TrimSpace(vC20RandPrefixString(r)))
		if err == nil && validatePrefix(p) == nil {
			return p
		}
	}
}

// independent RFC 6052 2.2 reference: the 32 address bits follow the prefix
// bits, stepping over bits 64..71, everything else zero
func vC20RefEmbed(p *net.IPNet, v4 net.IP) net.IP {
	pl, _ := p.Mask.Size()
	out := make(net.IP, 16)
	for i := 0; i < pl; i++ {
		if p.IP[i/8]&(0x80>>(i%8)) != 0 {
			out[i/8] |= 0x80 >> (i % 8)
		}
	}
	pos := pl
	for i := 0; i < 32; i++ {
		if pos == 64 {
			pos += 8
		}
		if v4[i/8]&(0x80>>(i%8)) != 0 {
			out[pos/8] |= 0x80 >> (pos % 8)
		}
		pos++
	}
	if pl < 96 {
		out[8] = 0
	}
	return out
}

// first byte behind the embedded address (RFC 6052 2.2 "suffix")
func vC20SuffixStart(bits int) int {
	switch bits {
	case 32:
		return 8
	case 40:
		return 10
	case 48:
		return 11
	case 56:
		return 12
	case 64:
		return 13
	}
	return 16
}

func vC20IsMapped(ip net.IP) bool { return len(ip) == 16 && ip.To4() != nil }

func vC20OptBytes(b []byte, ok bool) string {
	if !ok {
		return "None"
	}
	return "(Some " + vC20Hx(b) + ")"
}

func vC20ArpaName(addr net.IP) string {
	var sb strings.Builder
	for i := 15; i >= 0; i-- {
		fmt.Fprintf(&sb, "%x.%x.", addr[i]&0xf, addr[i]>>4)
	}
	sb.WriteString("ip6.arpa.")
	return sb.String()
}

// ---------------------------------------------------------------- direct cases

func vC20Direct(o *vC20Out, r *rand.Rand, n int) {
	// validatePrefix + embedIPv4 + extractIPv4
	for i := 0; i < n*3/8; i++ {
		raw := vC20RandPrefixString(r)
		_, p, err := net.ParseCIDR(strings.TrimSpace(raw))
		if err != nil {
			continue
		}
		v4 := vC20RandV4(r)
		valid := validatePrefix(p) == nil
		var emb, ext net.IP
		extOK := false
		goFail, fkey := "", ""
		if valid {
			emb = embedIPv4(p, v4)
			ext, extOK = extractIPv4(p, emb)
			if ref := vC20RefEmbed(p, v4); !ref.Equal(emb) || len(emb) != 16 {
				goFail = fmt.Sprintf("embedIPv4(%s, %s) = %x, RFC 6052 reference %x", p, v4, []byte(emb), []byte(ref))
			}
		}
		k := "embed-illegal"
		if valid {
			bits, _ := p.Mask.Size()
			k = fmt.Sprintf("embed-%d", bits)
		}
		o.emit(k, fmt.Sprintf("CaseEmbed %s %s %s %s %s", vC20Net(p), vC20Hx(v4), vC20Bool(valid), vC20Hx(emb), vC20OptBytes(ext, extOK)),
			map[string]any{"prefix": raw, "v4": v4.String(), "valid": valid, "embedded": emb.String(), "extracted": fmt.Sprint(ext, extOK)}, valid, goFail, fkey)
	}
	// extractIPv4 on perturbed addresses
	for i := 0; i < n/4; i++ {
		p := vC20RandLegalPrefix(r)
		v4 := vC20RandV4(r)
		addr := embedIPv4(p, v4)
		kind := r.Intn(10)
		fkey := ""
		pbits, _ := p.Mask.Size()
		sfx := vC20SuffixStart(pbits)
		switch kind {
		case 0: // as is
		case 1:
			addr[8] ^= byte(1 << r.Intn(8))
		case 2: // anywhere behind the prefix
			addr[pbits/8+r.Intn(16-pbits/8)] ^= byte(1 << r.Intn(8))
		case 3: // inside the prefix, last prefix byte most of the time
			if r.Intn(3) == 0 {
				addr[r.Intn(pbits/8)] ^= byte(1 << r.Intn(8))
			} else {
				addr[pbits/8-1] ^= byte(1 << r.Intn(8))
			}
		case 4:
			addr[15] ^= 1
		case 8: // first byte of the suffix
			if sfx < 16 {
				addr[sfx] ^= byte(1 << r.Intn(8))
			}
		case 9: // somewhere in the suffix
			if sfx < 16 {
				addr[sfx+r.Intn(16-sfx)] ^= byte(1 << r.Intn(8))
			}
		case 5:
			addr = vC20RandV6(r)
		case 6:
			addr = vC20RandV4(r)
		case 7:
			addr = append(append(net.IP{}, make([]byte, 10)...), 0xff, 0xff, byte(r.Intn(256)), 0, 0, 0)
			if r.Intn(2) == 0 {
				addr = append(addr[:12:12], vC20RandV4(r)...)
			}
		}
		ext, ok := extractIPv4(p, addr)
		bits, _ := p.Mask.Size()
		o.emit(fmt.Sprintf("extract-%d-%v", bits, ok), fmt.Sprintf("CaseExtract %s %s %s", vC20Net(p), vC20Hx(addr), vC20OptBytes(ext, ok)),
			map[string]any{"prefix": p.String(), "addr": addr.String(), "perturbation": kind, "extracted": fmt.Sprint(ext, ok)}, true, "", fkey)
	}
	// parseIP6ArpaName
	for i := 0; i < n/8; i++ {
		addr := vC20RandV6(r)
		name := vC20ArpaName(addr)
		want := true
		kind := r.Intn(12)
		switch kind {
		case 0:
			name = strings.ToUpper(name)
		case 1:
			name = strings.TrimSuffix(name, ".")
		case 2:
			name = name[2:]
			want = false
		case 3:
			name = "f." + name
			want = false
		case 4:
			name = "g" + name[1:]
			want = false
		case 5:
			name = "ab" + name[1:]
			want = false
		case 6:
			name = strings.Replace(name, "ip6.arpa.", "ip6.arpb.", 1)
			want = false
		case 7:
			name = name + "x."
			want = false
		case 8:
			name = []string{"", ".", "ip6.arpa.", ".ip6.arpa.", "1.ip6.arpa.", "..ip6.arpa."}[r.Intn(6)]
			want = false
		case 9:
			b := []byte(name)
			for j := range b {
				if r.Intn(2) == 0 && b[j] >= 'a' && b[j] <= 'z' {
					b[j] -= 32
				}
			}
			name = string(b)
		case 10:
			name = strings.Replace(name, ".", "..", 1)
			want = false
		}
		got, ok := parseIP6ArpaName(name)
		goFail := ""
		if ok != want || (ok && !got.Equal(addr)) {
			goFail = fmt.Sprintf("parseIP6ArpaName(%q) = %v,%v; generator ground truth %v,%v", name, got, ok, addr, want)
		}
		o.emit(fmt.Sprintf("arpa-%v", ok), fmt.Sprintf("CaseArpa %s %s", vC20Bs(name), vC20OptBytes(got, ok)),
			map[string]any{"name": name, "parsed": fmt.Sprint(got, ok)}, true, goFail, "")
	}
	// inAddrArpa
	for i := 0; i < n/32+8; i++ {
		var ip net.IP
		switch r.Intn(5) {
		case 0:
			ip = vC20RandV4(r).To16()
		case 1:
			ip = vC20RandV6(r)
		case 2:
			ip = nil
		default:
			ip = vC20RandV4(r)
		}
		s := inAddrArpa(ip)
		o.emit("inaddr", fmt.Sprintf("CaseInAddr %s %s", vC20Hx(ip), vC20Bs(s)), map[string]any{"ip": ip.String(), "name": s}, len(ip) > 0, "", "")
	}
	// net.IPNet.Contains
	for i := 0; i < n/5; i++ {
		var nw *net.IPNet
		switch r.Intn(6) {
		case 0:
			_, nw, _ = net.ParseCIDR(fmt.Sprintf("%s/%d", vC20RandV4(r), r.Intn(33)))
		case 1:
			_, nw, _ = net.ParseCIDR(fmt.Sprintf("::ffff:%s/%d", vC20RandV4(r), 96+r.Intn(33)))
		case 2:
			_, nw, _ = net.ParseCIDR([]string{"::/0", "::/8", "::ffff:0:0/96", "::/96", "::ffff:0:0/80", "0.0.0.0/0"}[r.Intn(6)])
		default:
			_, nw, _ = net.ParseCIDR(fmt.Sprintf("%s/%d", vC20RandV6(r), r.Intn(129)))
		}
		var ip net.IP
		switch r.Intn(12) {
		case 0:
			ip = vC20RandV4(r)
		case 1:
			ip = vC20RandV4(r).To16()
		case 2:
			ip = vC20RandV6(r)
		case 3:
			ip = nil
		default: // inside, or one bit outside
			ip = append(net.IP{}, nw.IP...)
			ones, bitsLen := nw.Mask.Size()
			for j := ones; j < bitsLen; j++ {
				if r.Intn(2) == 0 {
					ip[j/8] |= 0x80 >> (j % 8)
				}
			}
			if ones > 0 && r.Intn(3) == 0 {
				j := ones - 1 - r.Intn(min(ones, 3))
				ip[j/8] ^= 0x80 >> (j % 8)
			}
			if len(ip) == 4 && r.Intn(2) == 0 {
				ip = ip.To16()
			}
		}
		res := nw.Contains(ip)
		o.emit(fmt.Sprintf("contains-%v", res), fmt.Sprintf("CaseContains %s %s %s", vC20Net(nw), vC20Hx(ip), vC20Bool(res)),
			map[string]any{"net": nw.String(), "ip": ip.String(), "contains": res}, true, "", "")
	}
	// isDNSSECFailure over every rcode of interest x EDE code; constants
	for _, rc := range []int{0, 2, 3, 5} {
		for code := -1; code <= 40; code++ {
			m := new(dns.Msg)
			m.SetQuestion("a.t.", dns.TypeAAAA)
			m.Response = true
			m.Rcode = rc
			c := "None"
			if code >= 0 {
				m.SetEdns0(1232, false)
				m.IsEdns0().Option = append(m.IsEdns0().Option, &dns.EDNS0_EDE{InfoCode: uint16(code)})
				c = fmt.Sprintf("(Some %d%%N)", code)
			}
			res := isDNSSECFailure(m)
			o.emit(fmt.Sprintf("ede-%v", res), fmt.Sprintf("CaseEde %d %s %s", rc, c, vC20Bool(res)), map[string]any{"rcode": rc, "ede": code, "isDNSSECFailure": res}, rc == 2, "", "")
		}
	}
	vC20Cidr(o, r, n/10+20)
}

// net.ParseCIDR on IPv4 / IPv6 text against Model.parse_cidr4 / parse_cidr6
// (the parsers that read the source literals): canonical, expanded,
// upper-case, zero-padded and malformed spellings
func vC20Cidr(o *vC20Out, r *rand.Rand, n int) {
	for i := 0; i < n; i++ {
		var txt string
		if r.Intn(4) == 0 {
			ip := vC20RandV4(r)
			txt = fmt.Sprintf("%s/%d", ip, r.Intn(34))
			switch r.Intn(8) {
			case 0:
				txt = fmt.Sprintf("0%d.%d.%d.%d/8", ip[0], ip[1], ip[2], ip[3])
			case 1:
				txt = fmt.Sprintf("%d.%d.%d/8", ip[0], ip[1], ip[2])
			case 2:
				txt = fmt.Sprintf("%d.%d.%d.%d", ip[0], ip[1], ip[2], ip[3])
			case 3:
				txt = fmt.Sprintf("%d.%d.%d.%d/08", ip[0], ip[1], ip[2], ip[3])
			case 4:
				txt = fmt.Sprintf("%d.%d.%d.256/8", ip[0], ip[1], ip[2])
			}
		} else {
			ip := vC20RandV6(r)
			for j := 0; j < 16; j += 2 { // runs of zero groups
				if r.Intn(3) == 0 {
					ip[j], ip[j+1] = 0, 0
				}
			}
			if r.Intn(4) == 0 {
				ip[0], ip[1] = 0, 0
			}
			if r.Intn(4) == 0 {
				ip[14], ip[15] = 0, 0
			}
			bits := r.Intn(130)
			addr := ip.String()
			switch r.Intn(10) {
			case 0: // all eight groups, zero padded
				addr = fmt.Sprintf("%04x:%04x:%04x:%04x:%04x:%04x:%04x:%04x", uint16(ip[0])<<8|uint16(ip[1]), uint16(ip[2])<<8|uint16(ip[3]),
					uint16(ip[4])<<8|uint16(ip[5]), uint16(ip[6])<<8|uint16(ip[7]), uint16(ip[8])<<8|uint16(ip[9]), uint16(ip[10])<<8|uint16(ip[11]),
					uint16(ip[12])<<8|uint16(ip[13]), uint16(ip[14])<<8|uint16(ip[15]))
			case 1:
				addr = strings.ToUpper(addr)
			case 2:
				addr = addr + ":1"
			case 3:
				addr = strings.Replace(addr, ":", "::", 1)
			case 4:
				addr = "1:2:3:4:5:6:7::"
			case 5:
				addr = "1:2:3:4:5:6:7:8::"
			case 6:
				addr = []string{"::", "::1", "1::", ":1::", "1:::2", "12345::", "g::", "1:2:3:4:5:6:7", "1:2:3:4:5:6:7:8:9", ""}[r.Intn(10)]
			}
			txt = fmt.Sprintf("%s/%d", addr, bits)
			if r.Intn(15) == 0 {
				txt = addr
			}
		}
		if strings.Contains(txt, "%") || (strings.Contains(txt, ":") && strings.Contains(strings.SplitN(txt, "/", 2)[0], ".")) {
			continue // zones and dotted-quad tails are outside the modelled parser
		}
		_, nw, err := net.ParseCIDR(txt)
		res := "None"
		if err == nil {
			res = "(Some " + vC20Net(nw) + ")"
		}
		o.emit(fmt.Sprintf("cidr-%v", err == nil), fmt.Sprintf("CaseCidr %s %s", vC20Bs(txt), res), map[string]any{"text": txt, "parsed": fmt.Sprint(nw, err)}, true, "", "")
	}
}

// ---------------------------------------------------------------- configs

func vC20Pick(r *rand.Rand, l []string) string { return l[r.Intn(len(l))] }

// Pref64s that are related to each other: the same 128 bits cut at two or
// three legal lengths (so the shorter ones cover the longer ones), listed in
// any order, a prefix listed twice, the well-known prefix beside a shorter
// prefix that covers it, and a sibling that differs from the first in the last
// prefix bit.  Synthesis embeds into every one of them and the PTR route has
// to find the one an address was embedded under, whichever comes first.
func vC20RelatedPrefixes(r *rand.Rand) []string {
	ip := vC20RandV6(r)
	ip[8] = 0
	switch r.Intn(5) {
	case 0: // the family of the well-known prefix
		for i := range ip {
			ip[i] = 0
		}
		copy(ip, []byte{0, 0x64, 0xff, 0x9b})
	case 1: // all-zero address bits behind /32: the longer members are bare
		for i := 4; i < 16; i++ {
			ip[i] = 0
		}
	}
	var out []string
	perm := r.Perm(len(vC20LegalBits))
	for _, i := range perm[:2+r.Intn(2)] {
		out = append(out, fmt.Sprintf("%s/%d", ip, vC20LegalBits[i]))
	}
	switch r.Intn(6) {
	case 0: // listed twice
		out = append(out, out[r.Intn(len(out))])
	case 1: // a sibling: last prefix bit flipped
		bits := vC20LegalBits[perm[0]]
		sib := append(net.IP{}, ip...)
		sib[bits/8-1] ^= 1
		out = append(out, fmt.Sprintf("%s/%d", sib, bits))
	case 2: // an unrelated or illegal one in between
		k := r.Intn(len(out) + 1)
		out = append(out[:k], append([]string{vC20RandPrefixString(r)}, out[k:]...)...)
	}
	return out
}

func vC20RandConfig(r *rand.Rand) *config.Config {
	c := &config.Config{}
	c.DNS64.Enabled = true
	switch r.Intn(10) {
	case 0: // none: default
	case 1, 2:
		c.DNS64.Prefixes = []string{"64:ff9b::/96"}
	case 3, 4:
		c.DNS64.Prefixes = vC20RelatedPrefixes(r)
	default:
		for i, cnt := 0, 1+r.Intn(3); i < cnt; i++ {
			c.DNS64.Prefixes = append(c.DNS64.Prefixes, vC20RandPrefixString(r))
		}
	}
	if r.Intn(10) < 3 {
		for i, cnt := 0, 1+r.Intn(2); i < cnt; i++ {
			c.DNS64.ClientNetworks = append(c.DNS64.ClientNetworks, vC20Pick(r, []string{
				"203.0.113.0/24", "10.0.0.0/8", "2001:db8:c::/48", "::/0", "::ffff:203.0.113.0/120", "bogus", "0.0.0.0/0", " 198.51.100.0/25 "}))
		}
	}
	if r.Intn(10) < 3 {
		for i, cnt := 0, 1+r.Intn(2); i < cnt; i++ {
			c.DNS64.ExcludeZones = append(c.DNS64.ExcludeZones, vC20Pick(r, []string{"ex.t", "EX.t.", " sub.ex.t ", "t.", "x.ex.t.", "", "  ", "arpa"}))
		}
	}
	switch r.Intn(10) {
	case 0, 1:
		c.DNS64.ExcludeANetworks = []string{}
	case 2, 3, 4:
		for i, cnt := 0, 1+r.Intn(3); i < cnt; i++ {
			c.DNS64.ExcludeANetworks = append(c.DNS64.ExcludeANetworks, vC20Pick(r, []string{
				"10.0.0.0/8", "192.168.0.0/16", "127.0.0.0/8", "bogus", "2001:db8::/32", "198.18.0.0/15", "0.0.0.0/8", "8.8.8.8/32"}))
		}
	}
	switch r.Intn(10) {
	case 0:
		c.DNS64.ExcludeAAAANetworks = []string{}
	case 1, 2, 3:
		for i, cnt := 0, 1+r.Intn(2); i < cnt; i++ {
			c.DNS64.ExcludeAAAANetworks = append(c.DNS64.ExcludeAAAANetworks, vC20Pick(r, []string{
				"::ffff:0:0/96", "2001:db8:bad::/48", "10.0.0.0/8", "bogus", "::/0", "::ffff:1.2.0.0/112", "2001:db8:bad:1::/64"}))
		}
	}
	return c
}

func vC20Compiled(c *compiled) string {
	var ps, cl, zs, ea, e6 []string
	for _, p := range c.prefixes {
		ps = append(ps, fmt.Sprintf("mk_cprefix %s %s", vC20Net(p.net), vC20Bool(p.wellKnown)))
	}
	for _, n := range c.clientNetworks {
		cl = append(cl, vC20Net(n))
	}
	for _, z := range c.excludeZones {
		zs = append(zs, vC20Bs(z))
	}
	for _, n := range c.excludeAv4 {
		ea = append(ea, vC20Net(n))
	}
	for _, n := range c.excludeAAAA {
		e6 = append(e6, vC20Net(n))
	}
	j := func(l []string) string { return "[" + strings.Join(l, "; ") + "]" }
	return fmt.Sprintf("(mk_compiled %s %s %s %s %s)", j(ps), j(cl), j(zs), j(ea), j(e6))
}

// ---------------------------------------------------------------- the handler cases

type vC20Writer struct {
	*mock.Writer
	ip       net.IP
	internal bool
}

// the chain's base writer takes the client address from RemoteAddr()
func (w *vC20Writer) RemoteIP() net.IP     { return w.ip }
func (w *vC20Writer) RemoteAddr() net.Addr { return &net.UDPAddr{IP: w.ip, Port: 5300} }
func (w *vC20Writer) Internal() bool   { return w.internal }

type vC20Queryer struct {
	resp   *dns.Msg
	err    error
	called int
	last   *dns.Msg
	cut    *vC20CutPlan
}

func (q *vC20Queryer) Query(ctx context.Context, req *dns.Msg) (*dns.Msg, error) {
	q.called++
	q.last = req.Copy()
	q.cut.fold(ctx, 1)
	if q.err != nil {
		return nil, q.err
	}
	return q.resp, nil
}

type vC20Next struct {
	msg     *dns.Msg // nil: writes nothing
	mark    int
	calls   int
	written *dns.Msg
	cut     *vC20CutPlan
}

func (s *vC20Next) Name() string { return "vc20next" }
func (s *vC20Next) ServeDNS(ctx context.Context, ch *middleware.Chain) {
	s.calls++
	s.cut.fold(ctx, 0)
	if s.msg == nil {
		ch.Cancel()
		return
	}
	m := s.msg
	m.Id = ch.Request.ID()
	s.written = m
	switch s.mark {
	case 1:
		if meta := middleware.ResponseMetaFrom(ctx); meta != nil {
			release := meta.MarkCachedFailureResponse(m)
			defer release()
		}
	case 2:
		ctx2, _ := middleware.EnsureResolutionAttemptGuard(ctx)
		middleware.MarkRequestLocalFailureResponse(ctx2, m, &middleware.ResolutionAttemptLimitError{
			Question: dns.Question{Name: "x.t.", Qtype: dns.TypeAAAA, Qclass: dns.ClassINET}, Endpoint: "192.0.2.53:53", Transport: "udp"})
	case 3:
		ctx2, _ := middleware.EnsureResolutionAttemptGuard(ctx)
		middleware.MarkRequestLocalFailureResponse(ctx2, m, context.DeadlineExceeded)
	}
	_ = ch.Writer.WriteMsg(m)
	ch.Cancel()
}

var vC20TTLs = []uint32{0, 1, 30, 60, 299, 300, 599, 600, 601, 3600, 86400}

func vC20TTL(r *rand.Rand) uint32 {
	if r.Intn(6) == 0 {
		return uint32(r.Intn(100000))
	}
	return vC20TTLs[r.Intn(len(vC20TTLs))]
}

func vC20SOA(r *rand.Rand) *dns.SOA {
	return &dns.SOA{Hdr: dns.RR_Header{Name: "t.", Rrtype: dns.TypeSOA, Class: dns.ClassINET, Ttl: vC20TTL(r)},
		Ns: "ns.t.", Mbox: "h.t.", Serial: 1, Refresh: 7200, Retry: 3600, Expire: 604800, Minttl: vC20TTL(r)}
}

// the downstream (AAAA) response; returns the message and its marker
func vC20RandDown(r *rand.Rand, qname string, qtype uint16, cfg *compiled) (*dns.Msg, int) {
	if r.Intn(40) == 0 {
		return nil, 0
	}
	m := new(dns.Msg)
	m.SetQuestion(qname, qtype)
	m.Response = true
	m.RecursionAvailable = true
	mark := 0
	hasOPT := r.Intn(5) != 0
	if hasOPT {
		m.SetEdns0(1232, r.Intn(2) == 0)
	}
	m.AuthenticatedData = r.Intn(5) < 2
	addEDE := func(code uint16) {
		if opt := m.IsEdns0(); opt != nil {
			opt.Option = append(opt.Option, &dns.EDNS0_EDE{InfoCode: code})
		}
	}
	aaaa := func(ip net.IP) *dns.AAAA {
		return &dns.AAAA{Hdr: dns.RR_Header{Name: qname, Rrtype: dns.TypeAAAA, Class: dns.ClassINET, Ttl: vC20TTL(r)}, AAAA: ip}
	}
	excludedAAAA := func() net.IP {
		if len(cfg.excludeAAAA) > 0 && r.Intn(4) != 0 {
			n := cfg.excludeAAAA[r.Intn(len(cfg.excludeAAAA))]
			ip := append(net.IP{}, n.IP...)
			ones, _ := n.Mask.Size()
			for j := ones; j < 128; j++ {
				if r.Intn(2) == 0 {
					ip[j/8] |= 0x80 >> (j % 8)
				}
			}
			return ip
		}
		return vC20RandV4(r).To16()
	}
	switch k := r.Intn(20); {
	case k < 8: // NODATA
		switch r.Intn(8) {
		case 0: // no SOA
		case 1:
			m.Ns = []dns.RR{&dns.NS{Hdr: dns.RR_Header{Name: "t.", Rrtype: dns.TypeNS, Class: dns.ClassINET, Ttl: 5}, Ns: "ns.t."}, vC20SOA(r)}
		case 2:
			m.Ns = []dns.RR{vC20SOA(r), vC20SOA(r)}
		default:
			m.Ns = []dns.RR{vC20SOA(r)}
		}
		if r.Intn(6) == 0 {
			m.Answer = []dns.RR{&dns.CNAME{Hdr: dns.RR_Header{Name: qname, Rrtype: dns.TypeCNAME, Class: dns.ClassINET, Ttl: 60}, Target: "c.t."}}
		}
	case k < 12: // NOERROR with AAAA records
		for i, cnt := 0, 1+r.Intn(3); i < cnt; i++ {
			switch r.Intn(3) {
			case 0:
				m.Answer = append(m.Answer, aaaa(net.ParseIP("2001:db8:1::5")))
			case 1:
				m.Answer = append(m.Answer, aaaa(vC20RandV6(r)))
			default:
				m.Answer = append(m.Answer, aaaa(excludedAAAA()))
			}
		}
		if r.Intn(3) == 0 {
			for i := range m.Answer {
				m.Answer[i] = aaaa(excludedAAAA())
			}
		}
		if r.Intn(2) == 0 {
			m.Ns = []dns.RR{vC20SOA(r)}
		}
	case k < 13:
		m.Rcode = dns.RcodeNameError
		m.Ns = []dns.RR{vC20SOA(r)}
	case k < 17: // SERVFAIL with or without EDE
		m.Rcode = dns.RcodeServerFailure
		if r.Intn(5) != 0 {
			addEDE(uint16(r.Intn(31)))
			if r.Intn(4) == 0 {
				addEDE(uint16(r.Intn(31)))
			}
		}
		if r.Intn(6) == 0 {
			mark = 1 + r.Intn(3)
		}
	case k < 18:
		m.Rcode = []int{dns.RcodeRefused, dns.RcodeNotImplemented, dns.RcodeFormatError, dns.RcodeNotAuth}[r.Intn(4)]
		if r.Intn(3) == 0 {
			addEDE(uint16(r.Intn(31)))
		}
	case k < 19:
		if r.Intn(2) == 0 {
			m.Truncated = true
		} else {
			m.Question = nil
		}
		m.Ns = []dns.RR{vC20SOA(r)}
	default: // a successful rcode carrying an EDE / a marker / an AAAA on an error rcode
		switch r.Intn(3) {
		case 0:
			addEDE(uint16(r.Intn(31)))
			m.Ns = []dns.RR{vC20SOA(r)}
		case 1:
			mark = 1 + r.Intn(3)
			m.Rcode = []int{0, 2, 3, 5}[r.Intn(4)]
		default:
			m.Rcode = []int{2, 5}[r.Intn(2)]
			m.Answer = []dns.RR{aaaa(net.ParseIP("2001:db8:1::9"))}
		}
	}
	return m, mark
}

// the A (or PTR) response of the scripted Queryer; wf: alias chain is
// well-formed from qname and the A records sit at its end
func vC20RandA(r *rand.Rand, qname string) (*dns.Msg, bool) {
	m := new(dns.Msg)
	m.SetQuestion(qname, dns.TypeA)
	m.Response = true
	m.RecursionAvailable = r.Intn(4) != 0
	m.AuthenticatedData = r.Intn(3) == 0
	owner := qname
	wf := true
	switch r.Intn(6) {
	case 0: // CNAME chain
		for i, cnt := 0, 1+r.Intn(3); i < cnt; i++ {
			t := fmt.Sprintf("c%d.u.", i)
			m.Answer = append(m.Answer, &dns.CNAME{Hdr: dns.RR_Header{Name: owner, Rrtype: dns.TypeCNAME, Class: dns.ClassINET, Ttl: vC20TTL(r)}, Target: t})
			owner = t
		}
	case 1: // DNAME + the synthesised CNAME
		labels := dns.SplitDomainName(qname)
		if len(labels) >= 2 {
			zone := strings.Join(labels[1:], ".") + "."
			t := labels[0] + ".d.u."
			m.Answer = append(m.Answer,
				&dns.DNAME{Hdr: dns.RR_Header{Name: zone, Rrtype: dns.TypeDNAME, Class: dns.ClassINET, Ttl: vC20TTL(r)}, Target: "d.u."},
				&dns.CNAME{Hdr: dns.RR_Header{Name: qname, Rrtype: dns.TypeCNAME, Class: dns.ClassINET, Ttl: 0}, Target: t})
			owner = t
		}
	case 2: // owner spelled in another case
		owner = strings.ToUpper(qname)
	}
	switch k := r.Intn(12); {
	case k == 0:
		m.Rcode = dns.RcodeNameError
		m.Ns = []dns.RR{vC20SOA(r)}
	case k == 1:
		m.Rcode = dns.RcodeServerFailure
	case k == 2: // NODATA
		m.Ns = []dns.RR{vC20SOA(r)}
	default:
		for i, cnt := 0, 1+r.Intn(3); i < cnt; i++ {
			ip := vC20RandV4(r)
			switch r.Intn(12) {
			case 0:
				ip = ip.To16()
			case 1:
				ip = vC20RandV6(r) // malformed A: To4() == nil
			}
			o := owner
			if r.Intn(25) == 0 {
				o = "stray.u."
				wf = false
			}
			m.Answer = append(m.Answer, &dns.A{Hdr: dns.RR_Header{Name: o, Rrtype: dns.TypeA, Class: dns.ClassINET, Ttl: vC20TTL(r)}, A: ip})
		}
		if r.Intn(8) == 0 {
			m.Answer = append(m.Answer, &dns.TXT{Hdr: dns.RR_Header{Name: owner, Rrtype: dns.TypeTXT, Class: dns.ClassINET, Ttl: 7}, Txt: []string{"x"}})
		}
		if r.Intn(4) == 0 {
			m.Ns = []dns.RR{&dns.NS{Hdr: dns.RR_Header{Name: "u.", Rrtype: dns.TypeNS, Class: dns.ClassINET, Ttl: 5}, Ns: "ns.u."}}
		}
	}
	vC20ReorderAnswer(r, m)
	return m, wf
}

// The order of the records in an Answer section carries no meaning (RRset
// rotation, servers that append the alias chain after the addresses, caches
// that rebuild a message from RRsets): one scenario in four with more than
// one record lists them in another order — rotated, reversed, addresses
// first, hops swapped pairwise, or shuffled.  The alias chain stays the same
// chain (wf is about owners and targets, not positions).
func vC20ReorderAnswer(r *rand.Rand, m *dns.Msg) {
	n := len(m.Answer)
	if n < 2 || r.Intn(4) != 0 {
		return
	}
	a := append([]dns.RR(nil), m.Answer...)
	switch r.Intn(5) {
	case 0: // rotate
		k := 1 + r.Intn(n-1)
		a = append(append([]dns.RR(nil), a[k:]...), a[:k]...)
	case 1: // reverse
		for i, j := 0, n-1; i < j; i, j = i+1, j-1 {
			a[i], a[j] = a[j], a[i]
		}
	case 2: // addresses (and anything else) first, the chain last
		var chain, rest []dns.RR
		for _, rr := range a {
			switch rr.(type) {
			case *dns.CNAME, *dns.DNAME:
				chain = append(chain, rr)
			default:
				rest = append(rest, rr)
			}
		}
		a = append(rest, chain...)
	case 3: // neighbours swapped
		for i := 0; i+1 < n; i += 2 {
			a[i], a[i+1] = a[i+1], a[i]
		}
	default:
		r.Shuffle(n, func(i, j int) { a[i], a[j] = a[j], a[i] })
	}
	m.Answer = a
}

func vC20ClientIP(r *rand.Rand, cfg *compiled) net.IP {
	if len(cfg.clientNetworks) > 0 && r.Intn(5) != 0 {
		n := cfg.clientNetworks[r.Intn(len(cfg.clientNetworks))]
		ip := append(net.IP{}, n.IP...)
		ones, bitsLen := n.Mask.Size()
		for j := ones; j < bitsLen; j++ {
			if r.Intn(2) == 0 {
				ip[j/8] |= 0x80 >> (j % 8)
			}
		}
		if ones > 0 && r.Intn(4) == 0 {
			ip[(ones-1)/8] ^= 0x80 >> ((ones - 1) % 8)
		}
		if len(ip) == 4 && r.Intn(2) == 0 {
			ip = ip.To16()
		}
		return ip
	}
	switch r.Intn(8) {
	case 0:
		return nil
	case 1:
		return net.ParseIP("2001:db8:c::7")
	case 2:
		return net.ParseIP("203.0.113.9").To4()
	case 3:
		return vC20RandV6(r)
	}
	return net.ParseIP("203.0.113.9")
}

// The request tree's bound (ResponseMeta cut), folded in the way the
// production parties do it: the next handler (a cache hit folds the entry's
// end of life before it writes), the Queryer (a sub-query's bound is folded
// back into the tree before Query returns), or the caller's context (a nested
// pipeline inherits the outer tree's ResponseMeta).  A bound "secs ahead" is
// set to now + secs s + 500 ms at the moment it is folded, so that
// uint64(time.Until(cut)/time.Second) read by synthesise is exactly secs as
// long as the case takes less than half a second; ok() verifies that after the
// run (the run is repeated / dropped as inconclusive otherwise), so no verdict
// depends on the machine's speed.  A past bound reads as 0 whatever the clock.
type vC20CutPlan struct {
	// who folds: 0 next handler, 1 Queryer, 2 caller's context, 3 next handler
	// AND Queryer (the earlier bound is [secs]; the other party folds secs+extra),
	// 4 a ResponseMeta in the caller's context with no cut at all
	route int
	past  bool
	secs  int64 // whole seconds ahead (ignored when past)
	extra int64 // route 3: how much later the second bound lies (>= 1)
	late  int   // route 3: which party folds the LATER bound (0 next, 1 Queryer)

	// run state
	folded bool      // some party folded the earliest bound
	min    time.Time // the deadline that was folded for [secs]
}

func (c *vC20CutPlan) reset() {
	if c != nil {
		c.folded, c.min = false, time.Time{}
	}
}

func (c *vC20CutPlan) deadline(extra int64) time.Time {
	if c.past {
		return time.Now().Add(-time.Duration(1+c.secs%5)*time.Second - time.Duration(extra)*time.Millisecond)
	}
	return time.Now().Add(time.Duration(c.secs+extra)*time.Second + 500*time.Millisecond)
}

// party: 0 next handler, 1 Queryer, 2 the caller (before the chain runs)
func (c *vC20CutPlan) fold(ctx context.Context, party int) {
	if c == nil || c.route == 4 {
		return
	}
	meta := middleware.ResponseMetaFrom(ctx)
	if meta == nil {
		return
	}
	switch {
	case c.route == party:
		c.foldMin(meta)
	case c.route == 3 && party <= 1:
		if party == c.late {
			if !c.past {
				meta.BoundCut(c.deadline(c.extra))
			} else {
				meta.BoundCut(time.Now().Add(time.Duration(c.extra) * time.Second)) // ahead, while the other is past
			}
		} else {
			c.foldMin(meta)
		}
	}
}

// a party that runs twice (a query re-sent over UDP) folds a fresh deadline
// each time; ok() is judged against the earliest one
func (c *vC20CutPlan) foldMin(meta *middleware.ResponseMeta) {
	dl := c.deadline(0)
	meta.BoundCut(dl)
	if !c.folded {
		c.min, c.folded = dl, true
	}
}

// the bound as synthesise read it, valid once ok() holds
func (c *vC20CutPlan) coq() string {
	if c == nil || !c.folded {
		return "None"
	}
	if c.past {
		return "(Some 0%N)"
	}
	return fmt.Sprintf("(Some %d%%N)", c.secs)
}

func (c *vC20CutPlan) ok() bool {
	if c == nil || !c.folded || c.past {
		return true
	}
	return time.Until(c.min) > time.Duration(c.secs)*time.Second
}

func (c *vC20CutPlan) desc() string {
	if c == nil {
		return "no ResponseMeta cut (tree unbounded)"
	}
	who := []string{"next handler", "Queryer", "caller's context", "next handler and Queryer", "caller's context carries a ResponseMeta without a cut"}[c.route]
	if c.route == 4 {
		return who
	}
	if !c.folded {
		return "planned via " + who + ", never folded (that party did not run)"
	}
	if c.past {
		return "bound already past, folded by " + who
	}
	return fmt.Sprintf("bound %d s (+0.5 s) ahead, folded by %s", c.secs, who)
}

var vC20CutSecs = []int64{0, 1, 2, 5, 29, 30, 59, 60, 61, 299, 300, 599, 600, 601, 3599, 3600, 86400, 4294967295, 4294967296, 4294967301}

func vC20RandCut(r *rand.Rand, wire bool) *vC20CutPlan {
	if r.Intn(5) < 2 {
		return nil
	}
	c := &vC20CutPlan{route: []int{0, 0, 0, 1, 1, 2, 3, 3, 4}[r.Intn(9)], extra: int64(1 + r.Intn(700)), late: r.Intn(2)}
	if wire && (c.route == 2 || c.route == 4) {
		c.route = 0 // over the socket there is no caller context to prepare
	}
	switch k := r.Intn(10); {
	case k == 0:
		c.past = true
		c.secs = int64(r.Intn(100))
	case k < 7:
		c.secs = vC20CutSecs[r.Intn(len(vC20CutSecs))]
	default:
		c.secs = int64(r.Intn(700))
	}
	return c
}

// one handler scenario
type vC20Scenario struct {
	cut      *vC20CutPlan
	cfg      *config.Config
	req      *dns.Msg
	hasOPT   bool
	wireBorn bool
	internal bool
	client   net.IP
	down     *dns.Msg
	mark     int
	work     bool
	alKind   int // 0 QNone, 1 QErr work limit, 2 QErr attempt limit, 3 QErr other, 4 nil response, 5 response
	aResp    *dns.Msg
	wf       bool
	// out: the AAAA addresses of the reply when it was synthesised
	synthAAAA []net.IP
	reverse   bool // built by vC20ReverseOf
	npfx      int  // compiled prefixes
}

// forward then reverse: is one of the addresses just synthesised asked back?
// Always under several prefixes (which one decodes it?), else one time in six.
func (sc *vC20Scenario) wantsReverse(r *rand.Rand) bool {
	return len(sc.synthAAAA) > 0 && (sc.npfx > 1 || r.Intn(6) == 0)
}

// the reverse question for an address the handler has just synthesised: same
// configuration, same client, a PTR query for the address's ip6.arpa name
// ("the matching ip6.arpa PTR query maps back to the same IPv4 address")
func vC20ReverseOf(r *rand.Rand, sc *vC20Scenario, addr net.IP) *vC20Scenario {
	qname := vC20ArpaName(addr.To16())
	if r.Intn(4) == 0 {
		qname = strings.ToUpper(qname)
	}
	req := new(dns.Msg)
	req.SetQuestion(qname, dns.TypePTR)
	req.Id = uint16(r.Intn(65536))
	if sc.hasOPT {
		req.SetEdns0(1232, false)
	}
	down := new(dns.Msg)
	down.SetRcode(req, dns.RcodeNameError)
	rev := &vC20Scenario{cfg: sc.cfg, req: req, hasOPT: sc.hasOPT, wireBorn: r.Intn(5) < 2, client: sc.client, down: down, wf: true, alKind: 5, reverse: true}
	aResp := new(dns.Msg)
	aResp.SetQuestion("x.in-addr.arpa.", dns.TypePTR)
	aResp.Response = true
	if r.Intn(2) == 0 {
		aResp.Answer = append(aResp.Answer, &dns.PTR{Hdr: dns.RR_Header{Name: "x.in-addr.arpa.", Rrtype: dns.TypePTR, Class: dns.ClassINET, Ttl: vC20TTL(r)}, Ptr: "host.t."})
	}
	rev.aResp = aResp
	return rev
}

func vC20Serve(o *vC20Out, r *rand.Rand, n int) {
	for i := 0; i < n; i++ {
		sc := vC20Gen(o, r, i%11 == 0, false)
		if sc == nil {
			continue
		}
		vC20Run(o, sc, r.Intn(2) == 0)
		if sc.wantsReverse(r) {
			vC20Run(o, vC20ReverseOf(r, sc, sc.synthAAAA[r.Intn(len(sc.synthAAAA))]), true)
		}
	}
}

// one generated scenario; wire: for the UDP driver (loopback client, always a
// downstream reply, no context-only inputs)
func vC20Gen(o *vC20Out, r *rand.Rand, emitCompile, wire bool) *vC20Scenario {
	{
		sc := &vC20Scenario{cfg: vC20RandConfig(r), wf: true}
		if wire && len(sc.cfg.DNS64.ClientNetworks) > 0 && r.Intn(2) == 0 {
			sc.cfg.DNS64.ClientNetworks = append(sc.cfg.DNS64.ClientNetworks, "127.0.0.0/8")
		}
		d := New(sc.cfg)
		if d == nil {
			return nil
		}
		sc.npfx = len(d.cfg.prefixes)
		if emitCompile {
			cfg := sc.cfg
			o.emit("compile", fmt.Sprintf("CaseCompile %s %s", vC20Config(cfg), vC20Compiled(d.cfg)),
				map[string]any{"prefixes": cfg.DNS64.Prefixes, "clients": cfg.DNS64.ClientNetworks, "zones": cfg.DNS64.ExcludeZones,
					"exclude_a": cfg.DNS64.ExcludeANetworks, "exclude_aaaa": cfg.DNS64.ExcludeAAAANetworks, "compiled_prefixes": len(d.cfg.prefixes)}, true, "", "")
		}

		// ---- the query
		qtype := dns.TypeAAAA
		ptrShare := 6
		if len(d.cfg.prefixes) > 1 {
			ptrShare = 12
		}
		switch k := r.Intn(40); {
		case k < ptrShare:
			qtype = dns.TypePTR
		case k < 7:
			qtype = []uint16{dns.TypeA, dns.TypeMX, dns.TypeANY, dns.TypeCNAME}[r.Intn(4)]
		}
		qname := vC20Pick(r, []string{"h.ex.t.", "ex.t.", "badex.t.", "h.other.", "H.Ex.T.", "a.sub.ex.t.", "sub.ex.t.", "w.t.", "x.y.ex.t.", "ex.t.x.", "a.arpa."})
		if qtype == dns.TypePTR {
			switch k := r.Intn(10); {
			case k < 7: // an address embedded under one of the configured prefixes
				p := d.cfg.prefixes[r.Intn(len(d.cfg.prefixes))]
				addr := embedIPv4(p.net, vC20RandV4(r))
				pb, _ := p.net.Mask.Size()
				switch r.Intn(10) {
				case 0:
					addr[8] ^= 0x10
				case 1:
					addr[15] ^= 1
				case 2:
					if sfx := vC20SuffixStart(pb); sfx < 16 {
						addr[sfx] ^= byte(1 << r.Intn(8))
					}
				case 3:
					addr[pb/8-1] ^= byte(1 << r.Intn(8))
				}
				qname = vC20ArpaName(addr)
				if r.Intn(4) == 0 {
					qname = strings.ToUpper(qname)
				}
			case k < 8:
				qname = vC20ArpaName(vC20RandV6(r))
			case k < 9:
				qname = "4.3.2.1.in-addr.arpa."
			default:
				qname = vC20ArpaName(vC20RandV6(r))[4:]
			}
		}
		req := new(dns.Msg)
		req.SetQuestion(qname, qtype)
		req.Id = uint16(r.Intn(65536))
		if r.Intn(40) == 0 {
			req.Question[0].Qclass = dns.ClassCHAOS
		}
		req.RecursionDesired = r.Intn(25) != 0
		req.CheckingDisabled = r.Intn(25) == 0
		req.AuthenticatedData = r.Intn(4) == 0
		sc.hasOPT = r.Intn(5) != 0
		if sc.hasOPT {
			req.SetEdns0(1232, r.Intn(2) == 0)
		}
		sc.wireBorn = r.Intn(5) < 2
		switch r.Intn(60) {
		case 0:
			req.Question = nil
			sc.wireBorn = false
		case 1:
			req.Question = append(req.Question, dns.Question{Name: "second.t.", Qtype: dns.TypeAAAA, Qclass: dns.ClassINET})
			sc.wireBorn = false
		}
		sc.req = req
		sc.internal = r.Intn(40) == 0
		sc.client = vC20ClientIP(r, d.cfg)

		// ---- downstream response and the scripted queryer
		sc.down, sc.mark = vC20RandDown(r, qname, qtype, d.cfg)
		switch k := r.Intn(40); {
		case k <= 4:
			sc.alKind = k
		default:
			sc.alKind = 5
			if qtype == dns.TypePTR {
				aResp := new(dns.Msg)
				aResp.SetQuestion("x.in-addr.arpa.", dns.TypePTR)
				aResp.Response = true
				aResp.Rcode = []int{0, 0, 0, 3, 2}[r.Intn(5)]
				for j, cnt := 0, r.Intn(3); j < cnt; j++ {
					aResp.Answer = append(aResp.Answer, &dns.PTR{Hdr: dns.RR_Header{Name: "x.in-addr.arpa.", Rrtype: dns.TypePTR, Class: dns.ClassINET, Ttl: vC20TTL(r)}, Ptr: fmt.Sprintf("p%d.t.", j)})
				}
				if r.Intn(4) == 0 {
					aResp.Answer = append(aResp.Answer, &dns.CNAME{Hdr: dns.RR_Header{Name: "x.in-addr.arpa.", Rrtype: dns.TypeCNAME, Class: dns.ClassINET, Ttl: 9}, Target: "y.t."})
				}
				sc.aResp = aResp
			} else {
				sc.aResp, sc.wf = vC20RandA(r, qname)
			}
		}
		sc.work = !wire && !sc.wireBorn && r.Intn(12) == 0
		if sc.work && sc.down != nil && r.Intn(2) == 0 {
			sc.down.Rcode = dns.RcodeServerFailure
		}
		sc.cut = vC20RandCut(r, wire)
		return sc
	}
}

// a scenario with a bound on the request tree is run on copies of its
// messages, again (with fresh deadlines) when the clock check of the bound
// failed, and dropped as inconclusive when that keeps happening
func vC20Run(o *vC20Out, sc *vC20Scenario, passNontrivial bool) {
	if sc.cut == nil {
		vC20RunOnce(o, sc, passNontrivial)
		return
	}
	for attempt := 0; attempt < 4; attempt++ {
		c := *sc
		c.req = sc.req.Copy()
		if sc.down != nil {
			c.down = sc.down.Copy()
		}
		if sc.aResp != nil {
			c.aResp = sc.aResp.Copy()
		}
		c.cut.reset()
		if vC20RunOnce(o, &c, passNontrivial) {
			sc.synthAAAA = c.synthAAAA
			return
		}
	}
	b, _ := json.Marshal(map[string]any{"k": "serve-slow-clock", "inconclusive": true, "desc": "the case took longer than the 0.5 s slack of its bound, four times: " + sc.cut.desc()})
	o.f.Write(append(b, '\n'))
}

func vC20RunOnce(o *vC20Out, sc *vC20Scenario, passNontrivial bool) bool {
	cfg := sc.cfg
	d := New(cfg)
	req := sc.req
	qname, qtype := "", uint16(0)
	if len(req.Question) > 0 {
		qname, qtype = req.Question[0].Name, req.Question[0].Qtype
	}
	down, mark := sc.down, sc.mark
	qr := &vC20Queryer{cut: sc.cut}
	alCoq := ""
	switch sc.alKind {
	case 0:
		alCoq = "QNone"
	case 1:
		qr.err = &middleware.RecursionWorkLimitError{Kind: middleware.RecursionWorkInternalQuery, Limit: 32}
		alCoq = "(QErr 0)"
	case 2:
		qr.err = &middleware.ResolutionAttemptLimitError{Question: dns.Question{Name: qname, Qtype: dns.TypeA, Qclass: dns.ClassINET}, Endpoint: "192.0.2.53:53", Transport: "udp"}
		alCoq = "(QErr 1)"
	case 3:
		qr.err = middleware.ErrNoResponse
		alCoq = "(QErr 2)"
	case 4:
		alCoq = "QNilResp"
	default:
		qr.resp = sc.aResp
		alCoq = "(QResp " + vC20Msg(sc.aResp) + ")"
	}
	if sc.alKind != 0 {
		d.queryer = qr
	}
	ctx := context.Background()
	if sc.work {
		ledger := middleware.NewRecursionWorkLedger(middleware.RecursionWorkPolicy{Mode: middleware.RecursionWorkEnforce, MaxOutboundQueries: 1, MaxInternalQueries: 0})
		_ = ledger.Debit(middleware.RecursionWorkInternalQuery)
		ctx = middleware.WithRecursionWork(ctx, ledger)
	}
	downCoq := "None"
	if down != nil {
		downCoq = fmt.Sprintf("(Some (%s, %d%%N))", vC20Msg(down), mark)
	}
	downDesc := vC20Desc(down)

	if sc.cut != nil && (sc.cut.route == 2 || sc.cut.route == 4) {
		ctx = middleware.WithResponseMeta(ctx, &middleware.ResponseMeta{})
		sc.cut.fold(ctx, 2)
	}

	// ---- run
	next := &vC20Next{msg: down, mark: mark, cut: sc.cut}
	ch := middleware.NewChain([]middleware.Handler{d, next})
	mw := &vC20Writer{Writer: mock.NewWriter("udp", "192.0.2.1:5300"), ip: sc.client, internal: sc.internal}
	entry := "msg"
	if sc.wireBorn {
		raw, err := req.Pack()
		wreq := new(middleware.Request)
		if err == nil && wreq.ParseWire(raw, time.Unix(1700000000, 0), nil) {
			ch.ResetWire(mw, wreq)
			entry = "wire"
		} else {
			ch.Reset(mw, req)
		}
	} else {
		ch.Reset(mw, req)
	}
	ch.Next(ctx)
	if !sc.cut.ok() {
		return false
	}

	// ---- observe
	got := mw.Msg()
	obs := "(mk_obs false false 0 false [] [] " + vC20Bool(qr.called > 0) + " " + vC20Bool(next.calls > 0) + " " + vC20SubQ(qr.last) + ")"
	if got != nil {
		_, gotEdes := vC20Edes(got)
		var es []string
		for _, c := range gotEdes {
			es = append(es, strconv.Itoa(int(c)))
		}
		obs = fmt.Sprintf("(mk_obs true %s %d %s [%s]%%N %s %s %s %s)", vC20Bool(next.written != nil && got == next.written), got.Rcode,
			vC20Bool(got.AuthenticatedData), strings.Join(es, "; "), vC20RRs(got.Answer), vC20Bool(qr.called > 0), vC20Bool(next.calls > 0), vC20SubQ(qr.last))
	}
	nq := len(req.Question)
	qclass := 0
	if nq > 0 {
		qclass = int(req.Question[0].Qclass)
	}
	qCoq := fmt.Sprintf("(mk_query %d %d %d %s %s %s %s %s %s)", nq, qclass, qtype, vC20Bs(qname), vC20Bool(req.RecursionDesired),
		vC20Bool(req.CheckingDisabled), vC20Bool(sc.hasOPT), vC20Bool(sc.internal), vC20Hx(sc.client))

	// ---- classification
	synth := false
	if got != nil && down != nil && got != down && qr.called > 0 {
		for _, rr := range got.Answer {
			if a, ok := rr.(*dns.AAAA); ok {
				synth = true
				sc.synthAAAA = append(sc.synthAAAA, a.AAAA)
			}
		}
	}
	k := "serve-"
	switch {
	case qtype == dns.TypePTR && next.calls == 0 && got != nil && got.Rcode == 0:
		k += "ptr-translated"
	case qtype == dns.TypePTR:
		k += "ptr-other"
	case got == nil:
		k += "nothing"
	case synth:
		k += "synth"
	case down != nil && got == down && qr.called == 0:
		k += "pass"
	case down != nil && got == down:
		k += "fallback-orig"
	case qr.called == 0 && got.Rcode == dns.RcodeServerFailure:
		k += "localfail"
	case qr.called == 0:
		k += "filtered"
	case got.Rcode == dns.RcodeServerFailure && qr.err != nil:
		k += "localfail-a"
	default:
		k += "abasis-or-fallback"
	}
	// the three findings this driver used to tag (SOA TTL/MINIMUM 0, AD on the
	// stripped fall-back, ::ffff: form under an all-zero prefix) are fixed in
	// 3d56ccc: such cases are judged strictly now
	fkey := ""
	desc := map[string]any{
		"prefixes": cfg.DNS64.Prefixes, "clients": cfg.DNS64.ClientNetworks, "zones": cfg.DNS64.ExcludeZones,
		"exclude_a": cfg.DNS64.ExcludeANetworks, "exclude_aaaa": cfg.DNS64.ExcludeAAAANetworks,
		"query": fmt.Sprintf("%s %s class=%d rd=%v cd=%v opt=%v internal=%v client=%v entry=%s", qname, dns.TypeToString[qtype], qclass, req.RecursionDesired, req.CheckingDisabled, sc.hasOPT, sc.internal, sc.client, entry),
		"down": downDesc, "mark": mark, "work_enforced": sc.work, "tree_bound": sc.cut.desc(), "a_lookup": alCoq[:min(len(alCoq), 12)], "a_resp": vC20Desc(sc.aResp),
		"reply": vC20Desc(got), "reply_is_downstream_msg": got != nil && got == down, "queryer_called": qr.called, "queryer_asked": vC20SubQDesc(qr.last), "next_called": next.calls,
	}
	if sc.cut != nil && sc.cut.folded && k == "serve-synth" {
		k += "-bounded"
	}
	if sc.reverse {
		k += "-of-synth"
	}
	o.emit(k, fmt.Sprintf("CaseServe %s %s %s %s %s %s %s %s", vC20Config(cfg), qCoq, downCoq, vC20Bool(sc.work), alCoq, sc.cut.coq(), vC20Bool(sc.wf), obs),
		desc, k != "serve-pass" || passNontrivial, "", fkey)
	return true
}

// thorough tier only: small scopes enumerated completely
//   - every legal length x four prefix shapes x every boundary IPv4 address (embed + extract),
//   - every legal length x every single-bit change of an embedded address (extract),
//   - SERVFAIL x every ordered pair of EDE codes 0..30 through the handler,
//   - the request tree's bound: every listed number of seconds and "past" x every
//     folding party x A TTLs {0,1,60,600,3600} x {no SOA, SOA 3600/60} x {no chain, CNAME 900}.
func vC20Exhaustive(o *vC20Out) {
	vC20ExhaustiveCut(o)
	vC20ExhaustiveHandModels(o)
	shapes := []string{"2001:db8:122:344:5:6:7:8", "::", "ffff:ffff:ffff:ffff:ff:ffff:ffff:ffff", "::ffff:0:0"}
	for _, bits := range vC20LegalBits {
		for _, sh := range shapes {
			_, p, err := net.ParseCIDR(fmt.Sprintf("%s/%d", sh, bits))
			if err != nil || validatePrefix(p) != nil {
				continue
			}
			for _, a := range vC20BoundaryV4 {
				v4 := net.ParseIP(a).To4()
				emb := embedIPv4(p, v4)
				ext, ok := extractIPv4(p, emb)
				goFail := ""
				if ref := vC20RefEmbed(p, v4); !ref.Equal(emb) {
					goFail = fmt.Sprintf("embedIPv4(%s, %s) = %x, RFC 6052 reference %x", p, v4, []byte(emb), []byte(ref))
				}
				o.emit(fmt.Sprintf("x-embed-%d", bits), fmt.Sprintf("CaseEmbed %s %s true %s %s", vC20Net(p), vC20Hx(v4), vC20Hx(emb), vC20OptBytes(ext, ok)),
					map[string]any{"prefix": p.String(), "v4": a, "embedded": emb.String(), "extracted": fmt.Sprint(ext, ok)}, true, goFail, "")
			}
		}
		_, p, _ := net.ParseCIDR(fmt.Sprintf("2001:db8:122:344::/%d", bits))
		base := embedIPv4(p, net.IPv4(192, 0, 2, 33).To4())
		for bit := 0; bit < 128; bit++ {
			addr := append(net.IP{}, base...)
			addr[bit/8] ^= 0x80 >> (bit % 8)
			ext, ok := extractIPv4(p, addr)
			o.emit(fmt.Sprintf("x-extract-%d-%v", bits, ok), fmt.Sprintf("CaseExtract %s %s %s", vC20Net(p), vC20Hx(addr), vC20OptBytes(ext, ok)),
				map[string]any{"prefix": p.String(), "addr": addr.String(), "flipped_bit": bit, "extracted": fmt.Sprint(ext, ok)}, true, "", "")
		}
	}
	for e1 := 0; e1 <= 30; e1++ {
		for e2 := 0; e2 <= 30; e2++ {
			cfg := &config.Config{}
			cfg.DNS64.Enabled = true
			req := new(dns.Msg)
			req.SetQuestion("h.ex.t.", dns.TypeAAAA)
			req.SetEdns0(1232, true)
			down := new(dns.Msg)
			down.SetQuestion("h.ex.t.", dns.TypeAAAA)
			down.Response = true
			down.Rcode = dns.RcodeServerFailure
			down.SetEdns0(1232, true)
			down.IsEdns0().Option = append(down.IsEdns0().Option, &dns.EDNS0_EDE{InfoCode: uint16(e1)}, &dns.EDNS0_EDE{InfoCode: uint16(e2)})
			a := new(dns.Msg)
			a.SetQuestion("h.ex.t.", dns.TypeA)
			a.Response = true
			a.Answer = []dns.RR{&dns.A{Hdr: dns.RR_Header{Name: "h.ex.t.", Rrtype: dns.TypeA, Class: dns.ClassINET, Ttl: 300}, A: net.IPv4(192, 0, 9, 1).To4()}}
			vC20Run(o, &vC20Scenario{cfg: cfg, req: req, hasOPT: true, wireBorn: (e1+e2)%2 == 0, client: net.ParseIP("203.0.113.9"),
				down: down, alKind: 5, aResp: a, wf: true}, true)
		}
	}
}

// small scopes of the functions that are modelled by hand (outside the translator's subset):
//   - inAddrArpa: every octet value at every position, 4-byte and 16-byte mapped form, non-IPv4 input,
//   - excludedV4 / shouldExcludeAOnPrefix: every boundary IPv4 address as the A record of a synthesis and as
//     the target of a PTR translation, under the well-known prefix (default list, operator list, empty list,
//     reached explicitly and through the fallback) and under a network-specific prefix,
//   - negativeAAAATTL: SOA TTL x MINIMUM over the TTL grid, no SOA, NS before SOA, two SOAs, x A TTL,
//   - prefixContains / extractIPv4 on the other family: 4-byte and ::ffff: addresses against every legal length.
func vC20ExhaustiveHandModels(o *vC20Out) {
	// inAddrArpa
	for pos := 0; pos < 4; pos++ {
		for v := 0; v < 256; v++ {
			ip := net.IP{1, 20, 113, 250}
			ip[pos] = byte(v)
			if v%2 == 1 {
				ip = ip.To16()
			}
			name := inAddrArpa(ip)
			o.emit("x-inaddr", fmt.Sprintf("CaseInAddr %s %s", vC20Hx(ip), vC20Bs(name)), map[string]any{"ip": ip.String(), "name": name}, true, "", "")
		}
	}
	for _, ip := range []net.IP{nil, {}, net.ParseIP("2001:db8::1"), {1, 2, 3}, net.ParseIP("::"), net.ParseIP("::ffff:0:0")} {
		name := inAddrArpa(ip)
		o.emit("x-inaddr", fmt.Sprintf("CaseInAddr %s %s", vC20Hx(ip), vC20Bs(name)), map[string]any{"ip": ip.String(), "name": name}, true, "", "")
	}

	// excludedV4 through synthesis and PTR
	empty := []string{}
	type exCfg struct {
		prefixes []string
		excl     *[]string
	}
	custom := []string{"93.184.0.0/16", "1.2.3.4/32", "2001:db8::/32", "bogus", "0.0.0.0/0"}[:4]
	cfgs := []exCfg{
		{[]string{"64:ff9b::/96"}, nil}, {nil, nil}, {[]string{"2001:db8::/72"}, nil}, {[]string{"64:ff9b::/96"}, &empty},
		{[]string{"64:ff9b::/96"}, &custom}, {[]string{"bogus"}, &custom}, {[]string{"2001:db8:64::/96"}, nil}, {[]string{"2001:db8:64::/48", "64:ff9b::/96"}, nil},
	}
	n := 0
	for _, ec := range cfgs {
		for _, a := range vC20BoundaryV4 {
			v4 := net.ParseIP(a).To4()
			mk := func() *config.Config {
				cfg := &config.Config{}
				cfg.DNS64.Enabled = true
				cfg.DNS64.Prefixes = ec.prefixes
				if ec.excl != nil {
					cfg.DNS64.ExcludeANetworks = append([]string{}, (*ec.excl)...)
				}
				return cfg
			}
			n++
			// synthesis
			req := new(dns.Msg)
			req.SetQuestion("h.ex.t.", dns.TypeAAAA)
			req.SetEdns0(1232, true)
			down := new(dns.Msg)
			down.SetQuestion("h.ex.t.", dns.TypeAAAA)
			down.Response = true
			down.SetEdns0(1232, true)
			ar := new(dns.Msg)
			ar.SetQuestion("h.ex.t.", dns.TypeA)
			ar.Response = true
			ar.Answer = []dns.RR{&dns.A{Hdr: dns.RR_Header{Name: "h.ex.t.", Rrtype: dns.TypeA, Class: dns.ClassINET, Ttl: 300}, A: v4}}
			if n%5 == 0 {
				ar.Answer = append(ar.Answer, &dns.A{Hdr: dns.RR_Header{Name: "h.ex.t.", Rrtype: dns.TypeA, Class: dns.ClassINET, Ttl: 200}, A: net.IPv4(93, 184, 216, 34)})
			}
			vC20Run(o, &vC20Scenario{cfg: mk(), req: req, hasOPT: true, wireBorn: n%2 == 0, client: net.ParseIP("203.0.113.9"), down: down, alKind: 5, aResp: ar, wf: true}, true)
			// PTR for the embedding under the first compiled prefix
			d := New(mk())
			if d == nil {
				continue
			}
			preq := new(dns.Msg)
			preq.SetQuestion(vC20ArpaName(embedIPv4(d.cfg.prefixes[len(d.cfg.prefixes)-1].net, v4)), dns.TypePTR)
			preq.SetEdns0(1232, false)
			pdown := new(dns.Msg)
			pdown.SetRcode(preq, dns.RcodeNameError)
			vC20Run(o, &vC20Scenario{cfg: mk(), req: preq, hasOPT: true, wireBorn: n%2 == 1, client: net.ParseIP("203.0.113.9"), down: pdown, alKind: 4, wf: true}, true)
		}
	}

	// negativeAAAATTL
	soa := func(ttl, min uint32) *dns.SOA {
		return &dns.SOA{Hdr: dns.RR_Header{Name: "t.", Rrtype: dns.TypeSOA, Class: dns.ClassINET, Ttl: ttl},
			Ns: "ns.t.", Mbox: "h.t.", Serial: 1, Refresh: 7200, Retry: 3600, Expire: 604800, Minttl: min}
	}
	nsrr := &dns.NS{Hdr: dns.RR_Header{Name: "t.", Rrtype: dns.TypeNS, Class: dns.ClassINET, Ttl: 5}, Ns: "ns.t."}
	var authorities [][]dns.RR
	authorities = append(authorities, nil, []dns.RR{nsrr})
	for _, t := range vC20TTLs {
		for _, m := range vC20TTLs {
			authorities = append(authorities, []dns.RR{soa(t, m)})
		}
		authorities = append(authorities, []dns.RR{nsrr, soa(t, 77)}, []dns.RR{soa(t, 4000), soa(1, 1)}, []dns.RR{soa(9, t), nsrr})
	}
	for i, ns := range authorities {
		for _, attl := range []uint32{0, 599, 700, 100000} {
			cfg := &config.Config{}
			cfg.DNS64.Enabled = true
			req := new(dns.Msg)
			req.SetQuestion("h.ex.t.", dns.TypeAAAA)
			req.SetEdns0(1232, true)
			down := new(dns.Msg)
			down.SetQuestion("h.ex.t.", dns.TypeAAAA)
			down.Response = true
			down.SetEdns0(1232, true)
			down.AuthenticatedData = i%3 == 0
			down.Ns = ns
			ar := new(dns.Msg)
			ar.SetQuestion("h.ex.t.", dns.TypeA)
			ar.Response = true
			ar.Answer = []dns.RR{&dns.A{Hdr: dns.RR_Header{Name: "h.ex.t.", Rrtype: dns.TypeA, Class: dns.ClassINET, Ttl: attl}, A: net.IPv4(192, 0, 9, 1).To4()}}
			vC20Run(o, &vC20Scenario{cfg: cfg, req: req, hasOPT: true, wireBorn: i%2 == 0, client: net.ParseIP("203.0.113.9"), down: down, alKind: 5, aResp: ar, wf: true}, true)
		}
	}

	// the other family against every legal length (prefixContains / extractIPv4)
	for _, bits := range vC20LegalBits {
		for _, sh := range []string{"2001:db8:122:344::", "::", "::ffff:0:0", "64:ff9b::"} {
			_, p, err := net.ParseCIDR(fmt.Sprintf("%s/%d", sh, bits))
			if err != nil || validatePrefix(p) != nil {
				continue
			}
			for _, a := range []net.IP{net.IPv4(192, 0, 2, 33).To4(), net.IPv4(192, 0, 2, 33), net.IPv4(0, 0, 0, 0).To4(), net.IPv4(0, 0, 0, 0), net.IPv4(255, 255, 255, 255), nil, {1, 2, 3}} {
				ext, ok := extractIPv4(p, a)
				o.emit(fmt.Sprintf("x-extract-family-%d-%v", bits, ok), fmt.Sprintf("CaseExtract %s %s %s", vC20Net(p), vC20Hx(a), vC20OptBytes(ext, ok)),
					map[string]any{"prefix": p.String(), "addr": a.String(), "len": len(a), "extracted": fmt.Sprint(ext, ok)}, true, "", "")
			}
		}
	}
}

func vC20ExhaustiveCut(o *vC20Out) {
	type bound struct {
		past bool
		secs int64
	}
	bounds := []bound{{past: true, secs: 0}, {past: true, secs: 3}}
	for _, s := range vC20CutSecs {
		bounds = append(bounds, bound{secs: s})
	}
	n := 0
	for _, b := range bounds {
		for route := 0; route <= 3; route++ {
			for _, attl := range []uint32{0, 1, 60, 600, 3600} {
				for _, soa := range []bool{false, true} {
					for _, chain := range []bool{false, true} {
						cfg := &config.Config{}
						cfg.DNS64.Enabled = true
						cfg.DNS64.Prefixes = []string{"64:ff9b::/96", "2001:db8:64::/48"}
						req := new(dns.Msg)
						req.SetQuestion("h.ex.t.", dns.TypeAAAA)
						req.SetEdns0(1232, true)
						down := new(dns.Msg)
						down.SetQuestion("h.ex.t.", dns.TypeAAAA)
						down.Response = true
						down.SetEdns0(1232, true)
						if soa {
							down.Ns = []dns.RR{&dns.SOA{Hdr: dns.RR_Header{Name: "t.", Rrtype: dns.TypeSOA, Class: dns.ClassINET, Ttl: 3600},
								Ns: "ns.t.", Mbox: "h.t.", Serial: 1, Refresh: 7200, Retry: 3600, Expire: 604800, Minttl: 60}}
						}
						a := new(dns.Msg)
						a.SetQuestion("h.ex.t.", dns.TypeA)
						a.Response = true
						owner := "h.ex.t."
						if chain {
							a.Answer = append(a.Answer, &dns.CNAME{Hdr: dns.RR_Header{Name: owner, Rrtype: dns.TypeCNAME, Class: dns.ClassINET, Ttl: 900}, Target: "c0.u."})
							owner = "c0.u."
						}
						a.Answer = append(a.Answer, &dns.A{Hdr: dns.RR_Header{Name: owner, Rrtype: dns.TypeA, Class: dns.ClassINET, Ttl: attl}, A: net.IPv4(192, 0, 9, 1).To4()})
						n++
						vC20Run(o, &vC20Scenario{cfg: cfg, req: req, hasOPT: true, wireBorn: n%3 == 0, client: net.ParseIP("203.0.113.9"),
							down: down, alKind: 5, aResp: a, wf: true,
							cut: &vC20CutPlan{route: route, past: b.past, secs: b.secs, extra: int64(1 + n%97), late: n % 2}}, true)
					}
				}
			}
		}
	}
}

// the question a secondary query carried, as Run.subq (None: the Queryer was not asked)
func vC20SubQ(m *dns.Msg) string {
	if m == nil {
		return "None"
	}
	if len(m.Question) != 1 {
		return fmt.Sprintf("(Some (mk_subq [] 0 %d false false))", 1000+len(m.Question))
	}
	q := m.Question[0]
	return fmt.Sprintf("(Some (mk_subq %s %d %d %s %s))", vC20Bs(q.Name), q.Qtype, q.Qclass, vC20Bool(m.RecursionDesired), vC20Bool(m.CheckingDisabled))
}

func vC20SubQDesc(m *dns.Msg) string {
	if m == nil || len(m.Question) == 0 {
		return "<none>"
	}
	q := m.Question[0]
	return fmt.Sprintf("%s %s class=%d rd=%v cd=%v", q.Name, dns.TypeToString[q.Qtype], q.Qclass, m.RecursionDesired, m.CheckingDisabled)
}

func vC20Desc(m *dns.Msg) string {
	if m == nil {
		return "<nil>"
	}
	_, edes := vC20Edes(m)
	var rrs []string
	for _, rr := range m.Answer {
		rrs = append(rrs, strings.Join(strings.Fields(rr.String()), " "))
	}
	var ns []string
	for _, rr := range m.Ns {
		if soa, ok := rr.(*dns.SOA); ok {
			ns = append(ns, fmt.Sprintf("SOA ttl=%d min=%d", soa.Hdr.Ttl, soa.Minttl))
		} else {
			ns = append(ns, dns.TypeToString[rr.Header().Rrtype])
		}
	}
	return fmt.Sprintf("rcode=%d ad=%v tc=%v opt=%v ede=%v answer=%v ns=%v", m.Rcode, m.AuthenticatedData, m.Truncated, m.IsEdns0() != nil, edes, rrs, ns)
}

func TestVerifC20(t *testing.T) {
	p := os.Getenv("VERIF_OUT")
	if p == "" {
		t.Skip("VERIF_OUT not set")
	}
	f, err := os.Create(p)
	if err != nil {
		t.Fatal(err)
	}
	defer f.Close()
	o := &vC20Out{f: f}
	seed := int64(vC20EnvInt("VERIF_SEED", 1))
	n := vC20EnvInt("VERIF_N", 1200)
	vC20ReplayCorpus(t, o)
	if os.Getenv("VERIF_TIER") == "thorough" {
		vC20Exhaustive(o)
	}
	if os.Getenv("VERIF_TIER") == "thorough" {
		vC20ProbeLengths(o, []string{"2001:db8:122:344:0:6:7:8", "2001:db8:122:344:100:6:7:8", "::", "ffff:ffff:ffff:ffff:ff:ffff:ffff:ffff", "64:ff9b::", "192.0.2.0"},
			[]net.IP{net.IPv4(192, 0, 2, 33).To4(), net.IPv4(0, 0, 255, 255).To4(), net.IPv4(255, 255, 255, 255).To4()})
	} else {
		vC20ProbeLengths(o, []string{"2001:db8:122:344:0:6:7:8"}, []net.IP{net.IPv4(192, 0, 2, 33).To4()})
	}
	vC20Direct(o, rand.New(rand.NewSource(seed*7919+20)), n)
	vC20Serve(o, rand.New(rand.NewSource(seed*104729+20)), n)
}
