//go:build verif

package dns64

// C13 driver for the wrapper in front of the cache (overlay-injected): the
// real dns64 handler, the real cache and a scripted downstream.  A SERVFAIL
// for an AAAA question normally makes dns64 send a corresponding A query
// (through its Queryer).  A failure answered from the RFC 9520 cache must be
// terminal — no outgoing query of any kind — with and without client EDNS;
// so must a request-local failure.  Observed per step: A lookups sent by
// dns64, downstream calls, client rcode and EDE.

import (
	"context"
	"encoding/json"
	"fmt"
	"math/rand"
	"net"
	"os"
	"strconv"
	"testing"

	"github.com/miekg/dns"
	"github.com/semihalev/sdns/config"
	"github.com/semihalev/sdns/internal/dnsutil"
	"github.com/semihalev/sdns/internal/mock"
	"github.com/semihalev/sdns/middleware"
	cachemw "github.com/semihalev/sdns/middleware/cache"
)

type vC13Queryer struct{ calls int }

func (q *vC13Queryer) Query(_ context.Context, req *dns.Msg) (*dns.Msg, error) {
	q.calls++
	m := new(dns.Msg)
	m.SetReply(req)
	m.RecursionAvailable = true
	m.Answer = []dns.RR{&dns.A{Hdr: dns.RR_Header{Name: req.Question[0].Name, Rrtype: dns.TypeA, Class: dns.ClassINET, Ttl: 60}, A: net.ParseIP("192.0.2.33")}}
	return m, nil
}

func TestVerifC13Wrappers(t *testing.T) {
	p := os.Getenv("VERIF_OUT")
	if p == "" {
		t.Skip("VERIF_OUT not set")
	}
	f, err := os.Create(p)
	if err != nil {
		t.Fatal(err)
	}
	defer f.Close()
	seed := int64(1)
	if s, err := strconv.Atoi(os.Getenv("VERIF_SEED")); err == nil {
		seed = int64(s)
	}
	n := 40
	if v, err := strconv.Atoi(os.Getenv("VERIF_N")); err == nil && v > 0 {
		n = v
	}
	r := rand.New(rand.NewSource(seed + 4242))
	for i := 0; i < n; i++ {
		cfg := &config.Config{CacheSize: 1024, DNS64: config.DNS64Config{Enabled: true, Prefixes: []string{"64:ff9b::/96"}}}
		d := New(cfg)
		q := &vC13Queryer{}
		d.queryer = q
		c := cachemw.New(cfg)
		downstream := 0
		// what the downstream does for the next query: 1 = shared failure, 2 = request-local failure
		mode := 1
		stub := middleware.HandlerFunc(func(hctx context.Context, ch *middleware.Chain) {
			downstream++
			resp := new(dns.Msg)
			resp.SetRcode(ch.Request.Msg(), dns.RcodeServerFailure)
			if mode == 2 {
				mctx, _ := middleware.EnsureResolutionAttemptGuard(hctx)
				middleware.MarkRequestLocalFailureResponse(mctx, resp, []error{middleware.ErrResolutionAttemptLimit, context.DeadlineExceeded, middleware.ErrFailureProbeLimit}[r.Intn(3)])
			}
			_ = ch.Writer.WriteMsg(resp)
			ch.Cancel()
		})
		name := fmt.Sprintf("w%d.example.org.", r.Intn(1000))
		var steps, desc []string
		failed := false // has a shared failure of this question been recorded (5 s backoff, real clock, run takes ms)
		for s := 0; s < 3+r.Intn(3); s++ {
			edns := r.Intn(2) == 0
			mode = 1 + r.Intn(2)
			kind := mode
			if failed {
				kind = 0 // the cache answers
			}
			req := new(dns.Msg)
			req.SetQuestion(name, dns.TypeAAAA)
			if edns {
				req.SetEdns0(4096, r.Intn(2) == 0)
			}
			qa, da := q.calls, downstream
			w := mock.NewWriter("udp", "203.0.113.5:53000")
			ch := middleware.NewChain([]middleware.Handler{d, c, stub})
			ch.Reset(w, req)
			ch.Next(context.Background())
			rc, ede := 999, "None"
			if m := w.Msg(); m != nil {
				rc = m.Rcode
				if e := dnsutil.GetEDE(m); e != nil {
					ede = fmt.Sprintf("(Some %d%%N)", e.InfoCode)
				}
			}
			if kind == 1 && downstream > da {
				failed = true
			}
			steps = append(steps, fmt.Sprintf("(%d%%N,%v,%d,%d,%d%%N,%s)", kind, edns, q.calls-qa, downstream-da, rc, ede))
			desc = append(desc, fmt.Sprintf("AAAA %s edns=%v expected-source=%s -> a_lookups=%d downstream=%d rcode=%d ede=%s", name, edns, []string{"failure cache", "downstream shared failure", "downstream request-local failure"}[kind], q.calls-qa, downstream-da, rc, ede))
		}
		c.Stop()
		b, _ := json.Marshal(map[string]any{
			"k":          "dns64-in-front-of-cache",
			"coq":        "CaseWrap [" + vC13Join(steps) + "]",
			"nontrivial": failed,
			"desc":       map[string]any{"steps": desc},
		})
		f.Write(append(b, '\n'))
	}
}

func vC13Join(s []string) string {
	out := ""
	for i, x := range s {
		if i > 0 {
			out += ";"
		}
		out += x
	}
	return out
}
