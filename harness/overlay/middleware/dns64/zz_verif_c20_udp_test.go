//go:build verif

package dns64

// C20, second driver file: (a) the corpus loader shared by both drivers and
// (b) the UDP driver: a real server.Server bound to a loopback UDP port,
// running the registry-built pipeline [dns64, scripted next] with the
// auto-wired pipeline Queryer, queried over a socket. What is observed is
// the reply datagram and which (sub-)queries reached the next handler.

import (
	"context"
	"encoding/json"
	"fmt"
	"math/rand"
	"net"
	"os"
	"path/filepath"
	"sort"
	"strconv"
	"strings"
	"sync"
	"testing"
	"time"

	"github.com/miekg/dns"
	"github.com/semihalev/sdns/config"
	"github.com/semihalev/sdns/middleware"
	"github.com/semihalev/sdns/server"
)

// ---------------------------------------------------------------- corpus

type vC20CorpusRR struct {
	T    string `json:"t"` // A AAAA CNAME DNAME PTR TXT
	Name string `json:"name"`
	TTL  uint32 `json:"ttl"`
	Data string `json:"data"`
}

type vC20CorpusMsg struct {
	Rcode      int            `json:"rcode"`
	AD         bool           `json:"ad"`
	TC         bool           `json:"tc"`
	NoOPT      bool           `json:"no_opt"`
	NoQuestion bool           `json:"no_question"`
	Edes       []uint16       `json:"edes"`
	Answer     []vC20CorpusRR `json:"answer"`
	SOA        [][2]uint32    `json:"soa"` // (TTL, MINIMUM) per SOA in the authority section
}

type vC20CorpusCase struct {
	Name        string         `json:"name"`
	Kind        string         `json:"kind"` // serve | embed | extract
	Prefixes    []string       `json:"prefixes"`
	Clients     []string       `json:"clients"`
	Zones       []string       `json:"zones"`
	ExcludeA    *[]string      `json:"exclude_a"`
	ExcludeAAAA *[]string      `json:"exclude_aaaa"`
	Qname       string         `json:"qname"`
	PTROf       []string       `json:"ptr_of"` // [prefix, v4]: qname = ip6.arpa name of the embedding
	Qtype       string         `json:"qtype"`
	NoRD        bool           `json:"no_rd"`
	CD          bool           `json:"cd"`
	NoOPT       bool           `json:"no_opt"`
	DO          bool           `json:"do"`
	Client      string         `json:"client"`
	Down        *vC20CorpusMsg `json:"down"`
	Mark        int            `json:"mark"`
	Lookup      string         `json:"lookup"` // resp (default) | none | nil | err-work | err-attempt | err-other
	A           *vC20CorpusMsg `json:"a"`
	Prefix      string         `json:"prefix"` // embed / extract
	V4          string         `json:"v4"`
	Addr        string         `json:"addr"`
	// the request tree's bound: whole seconds ahead / already past, and who
	// folds it (0 next handler, 1 Queryer, 2 caller's context, 3 both); absent = unbounded
	Cut *struct {
		Secs  int64 `json:"secs"`
		Past  bool  `json:"past"`
		Route int   `json:"route"`
	} `json:"cut"`
}

func (c *vC20CorpusMsg) build(qname string, qtype uint16) *dns.Msg {
	if c == nil {
		return nil
	}
	m := new(dns.Msg)
	m.SetQuestion(qname, qtype)
	if c.NoQuestion {
		m.Question = nil
	}
	m.Response = true
	m.RecursionAvailable = true
	m.Rcode = c.Rcode
	m.AuthenticatedData = c.AD
	m.Truncated = c.TC
	if !c.NoOPT {
		m.SetEdns0(1232, true)
		for _, e := range c.Edes {
			m.IsEdns0().Option = append(m.IsEdns0().Option, &dns.EDNS0_EDE{InfoCode: e})
		}
	}
	for _, rr := range c.Answer {
		h := dns.RR_Header{Name: rr.Name, Class: dns.ClassINET, Ttl: rr.TTL}
		switch rr.T {
		case "A":
			h.Rrtype = dns.TypeA
			m.Answer = append(m.Answer, &dns.A{Hdr: h, A: net.ParseIP(rr.Data).To4()})
		case "AAAA":
			h.Rrtype = dns.TypeAAAA
			m.Answer = append(m.Answer, &dns.AAAA{Hdr: h, AAAA: net.ParseIP(rr.Data).To16()})
		case "CNAME":
			h.Rrtype = dns.TypeCNAME
			m.Answer = append(m.Answer, &dns.CNAME{Hdr: h, Target: rr.Data})
		case "DNAME":
			h.Rrtype = dns.TypeDNAME
			m.Answer = append(m.Answer, &dns.DNAME{Hdr: h, Target: rr.Data})
		case "PTR":
			h.Rrtype = dns.TypePTR
			m.Answer = append(m.Answer, &dns.PTR{Hdr: h, Ptr: rr.Data})
		default:
			h.Rrtype = dns.TypeTXT
			m.Answer = append(m.Answer, &dns.TXT{Hdr: h, Txt: []string{rr.Data}})
		}
	}
	for _, s := range c.SOA {
		m.Ns = append(m.Ns, &dns.SOA{Hdr: dns.RR_Header{Name: "t.", Rrtype: dns.TypeSOA, Class: dns.ClassINET, Ttl: s[0]},
			Ns: "ns.t.", Mbox: "h.t.", Serial: 1, Refresh: 7200, Retry: 3600, Expire: 604800, Minttl: s[1]})
	}
	return m
}

// the corpus entries of VERIF_CORPUS in file-name order
func vC20LoadCorpus(t *testing.T) []*vC20CorpusCase {
	dir := os.Getenv("VERIF_CORPUS")
	if dir == "" {
		return nil
	}
	files, _ := filepath.Glob(filepath.Join(dir, "*.json"))
	sort.Strings(files)
	var out []*vC20CorpusCase
	for _, f := range files {
		b, err := os.ReadFile(f)
		if err != nil {
			t.Fatalf("corpus %s: %v", f, err)
		}
		var cs []*vC20CorpusCase
		if err := json.Unmarshal(b, &cs); err != nil {
			t.Fatalf("corpus %s: %v", f, err)
		}
		out = append(out, cs...)
	}
	return out
}

func (c *vC20CorpusCase) scenario() *vC20Scenario {
	cfg := &config.Config{}
	cfg.DNS64.Enabled = true
	cfg.DNS64.Prefixes = c.Prefixes
	cfg.DNS64.ClientNetworks = c.Clients
	cfg.DNS64.ExcludeZones = c.Zones
	if c.ExcludeA != nil {
		cfg.DNS64.ExcludeANetworks = append([]string{}, (*c.ExcludeA)...)
	}
	if c.ExcludeAAAA != nil {
		cfg.DNS64.ExcludeAAAANetworks = append([]string{}, (*c.ExcludeAAAA)...)
	}
	qname := c.Qname
	if len(c.PTROf) == 2 {
		_, p, err := net.ParseCIDR(c.PTROf[0])
		if err != nil {
			return nil
		}
		qname = vC20ArpaName(embedIPv4(p, net.ParseIP(c.PTROf[1]).To4()))
	}
	qtype := dns.TypeAAAA
	if c.Qtype != "" {
		qtype = dns.StringToType[c.Qtype]
	}
	req := new(dns.Msg)
	req.SetQuestion(qname, qtype)
	req.RecursionDesired = !c.NoRD
	req.CheckingDisabled = c.CD
	if !c.NoOPT {
		req.SetEdns0(1232, c.DO)
	}
	client := net.ParseIP("203.0.113.9")
	if c.Client != "" {
		client = net.ParseIP(c.Client)
	}
	sc := &vC20Scenario{cfg: cfg, req: req, hasOPT: !c.NoOPT, client: client, mark: c.Mark, wf: true, alKind: 5}
	sc.down = c.Down.build(qname, qtype)
	switch c.Lookup {
	case "none":
		sc.alKind = 0
	case "err-work":
		sc.alKind = 1
	case "err-attempt":
		sc.alKind = 2
	case "err-other":
		sc.alKind = 3
	case "nil":
		sc.alKind = 4
	}
	aq := dns.TypeA
	if qtype == dns.TypePTR {
		aq = dns.TypePTR
	}
	sc.aResp = c.A.build(qname, aq)
	if sc.alKind == 5 && sc.aResp == nil {
		sc.alKind = 4
	}
	if c.Cut != nil {
		sc.cut = &vC20CutPlan{route: c.Cut.Route, past: c.Cut.Past, secs: c.Cut.Secs, extra: 100}
	}
	return sc
}

// direct corpus kinds, and every "serve" entry message-born and wire-born
func vC20ReplayCorpus(t *testing.T, o *vC20Out) {
	for _, c := range vC20LoadCorpus(t) {
		switch c.Kind {
		case "embed", "extract":
			_, p, err := net.ParseCIDR(c.Prefix)
			if err != nil {
				continue
			}
			valid := validatePrefix(p) == nil
			if c.Kind == "embed" {
				v4 := net.ParseIP(c.V4).To4()
				var emb, ext net.IP
				ok := false
				goFail := ""
				if valid {
					emb = embedIPv4(p, v4)
					ext, ok = extractIPv4(p, emb)
					if bits, _ := p.Mask.Size(); bits%8 == 0 && bits >= 32 && bits <= 96 {
						if ref := vC20RefEmbed(p, v4); !ref.Equal(emb) && vC20IsRFCLen(bits) {
							goFail = fmt.Sprintf("embedIPv4(%s, %s) = %x, RFC 6052 reference %x", p, v4, []byte(emb), []byte(ref))
						}
					}
				}
				o.emit("corpus-embed", fmt.Sprintf("CaseEmbed %s %s %s %s %s", vC20Net(p), vC20Hx(v4), vC20Bool(valid), vC20Hx(emb), vC20OptBytes(ext, ok)),
					map[string]any{"corpus": c.Name, "prefix": c.Prefix, "v4": c.V4, "valid": valid, "embedded": emb.String(), "extracted": fmt.Sprint(ext, ok)}, true, goFail, "")
			} else if valid {
				addr := net.ParseIP(c.Addr)
				ext, ok := extractIPv4(p, addr)
				o.emit("corpus-extract", fmt.Sprintf("CaseExtract %s %s %s", vC20Net(p), vC20Hx(addr), vC20OptBytes(ext, ok)),
					map[string]any{"corpus": c.Name, "prefix": c.Prefix, "addr": c.Addr, "extracted": fmt.Sprint(ext, ok)}, true, "", "")
			}
		default:
			for _, wb := range []bool{false, true} {
				if sc := c.scenario(); sc != nil {
					sc.wireBorn = wb
					vC20Run(o, sc, true)
				}
			}
		}
	}
}

// ---------------------------------------------------------------- UDP driver

// the registered "dns64" handler: the real *DNS64 of the current case behind
// a stable pipeline slot (middleware.Setup runs once per process)
type vC20Swap struct {
	mu  sync.Mutex
	cur *DNS64
	q   middleware.Queryer
}

func (s *vC20Swap) Name() string                    { return name }
func (s *vC20Swap) ClientOnly() bool                { return true }
func (s *vC20Swap) SetQueryer(q middleware.Queryer) { s.q = q }
func (s *vC20Swap) ServeDNS(ctx context.Context, ch *middleware.Chain) {
	s.mu.Lock()
	d := s.cur
	s.mu.Unlock()
	d.ServeDNS(ctx, ch)
}

// the scripted next handler: client queries get `down`, internal sub-queries `sub`
type vC20WireNext struct {
	mu       sync.Mutex
	down     *dns.Msg
	mark     int
	sub      *dns.Msg
	subMark  int
	calls    int
	subCalls int
	subReq   *dns.Msg // the sub-query as it reached the sub-pipeline's handler
	cut      *vC20CutPlan // folded into the tree's ResponseMeta: client query = "next handler", sub-query = "Queryer"
}

func (h *vC20WireNext) Name() string { return "vc20next" }
func (h *vC20WireNext) ServeDNS(ctx context.Context, ch *middleware.Chain) {
	h.mu.Lock()
	var m *dns.Msg
	mark := 0
	if ch.Writer.Internal() {
		h.subCalls++
		if rm := ch.Request.Msg(); rm != nil {
			h.subReq = rm.Copy()
		}
		m, mark = h.sub, h.subMark
		h.cut.fold(ctx, 1)
	} else {
		h.calls++
		m, mark = h.down, h.mark
		h.cut.fold(ctx, 0)
	}
	h.mu.Unlock()
	if m == nil {
		ch.Cancel()
		return
	}
	m = m.Copy()
	m.Id = ch.Request.ID()
	switch mark {
	case 1:
		if meta := middleware.ResponseMetaFrom(ctx); meta != nil {
			release := meta.MarkCachedFailureResponse(m)
			defer release()
		}
	case 2:
		ctx2, _ := middleware.EnsureResolutionAttemptGuard(ctx)
		middleware.MarkRequestLocalFailureResponse(ctx2, m, &middleware.ResolutionAttemptLimitError{
			Question: dns.Question{Name: "x.t.", Qtype: dns.TypeA, Qclass: dns.ClassINET}, Endpoint: "192.0.2.53:53", Transport: "udp"})
	case 3:
		ctx2, _ := middleware.EnsureResolutionAttemptGuard(ctx)
		middleware.MarkRequestLocalFailureResponse(ctx2, m, context.DeadlineExceeded)
	}
	_ = ch.Writer.WriteMsg(m)
	ch.Cancel()
}

type vC20UDP struct {
	swap *vC20Swap
	next *vC20WireNext
	conn *net.UDPConn
	id   uint16
}

// one exchange; nil = no reply within the deadlines (infrastructure hiccup)
func (u *vC20UDP) exchange(req *dns.Msg) *dns.Msg {
	u.id++
	req.Id = u.id
	raw, err := req.Pack()
	if err != nil {
		return nil
	}
	buf := make([]byte, 65535)
	for attempt := 0; attempt < 2; attempt++ {
		if _, err := u.conn.Write(raw); err != nil {
			return nil
		}
		deadline := time.Now().Add(time.Duration(1500*(attempt+1)) * time.Millisecond)
		for {
			_ = u.conn.SetReadDeadline(deadline)
			n, err := u.conn.Read(buf)
			if err != nil {
				break
			}
			m := new(dns.Msg)
			if m.Unpack(buf[:n]) == nil && m.Id == req.Id {
				return m
			}
		}
	}
	return nil
}

func (u *vC20UDP) run(o *vC20Out, sc *vC20Scenario, corpus string) {
	if len(sc.req.Question) != 1 || sc.down == nil {
		return
	}
	for attempt := 0; attempt < 3; attempt++ {
		if u.runOnce(o, sc, corpus) {
			return
		}
	}
	b, _ := json.Marshal(map[string]any{"k": "udp-slow-clock", "inconclusive": true, "desc": "the exchange took longer than the 0.5 s slack of its bound, three times: " + sc.cut.desc()})
	o.f.Write(append(b, '\n'))
}

func (u *vC20UDP) runOnce(o *vC20Out, sc *vC20Scenario, corpus string) bool {
	d := New(sc.cfg)
	if d == nil {
		return true
	}
	d.SetQueryer(u.swap.q)
	u.swap.mu.Lock()
	u.swap.cur = d
	u.swap.mu.Unlock()

	// the sub-query script, and what it means for the Queryer (Model.al_of_script)
	var sub *dns.Msg
	subMark := 0
	switch sc.alKind {
	case 0, 3:
		sub = nil
	case 1:
		subMark = 3
	case 2:
		subMark = 2
	case 4:
		subMark = 1
	}
	if sc.alKind != 0 && sc.alKind != 3 {
		sub = sc.aResp
		if sub == nil {
			sub = new(dns.Msg)
			sub.SetQuestion(sc.req.Question[0].Name, dns.TypeA)
			sub.Response = true
			sub.Rcode = dns.RcodeServerFailure
		}
	}
	subCoq := "SubNothing"
	if sub != nil {
		subCoq = fmt.Sprintf("(SubWrite %s %d)", vC20Msg(sub), subMark)
	}
	u.next.mu.Lock()
	sc.cut.reset()
	u.next.down, u.next.mark, u.next.sub, u.next.subMark, u.next.calls, u.next.subCalls, u.next.cut = sc.down, sc.mark, sub, subMark, 0, 0, sc.cut
	u.next.subReq = nil
	u.next.mu.Unlock()

	req := sc.req.Copy()
	got := u.exchange(req)
	u.next.mu.Lock()
	calls, subCalls, subReq := u.next.calls, u.next.subCalls, u.next.subReq
	u.next.cut = nil
	cutOK, cutCoq, cutDesc, bounded := sc.cut.ok(), sc.cut.coq(), sc.cut.desc(), sc.cut != nil && sc.cut.folded
	u.next.mu.Unlock()
	if !cutOK {
		return false
	}
	qname, qtype := req.Question[0].Name, req.Question[0].Qtype
	desc := map[string]any{
		"prefixes": sc.cfg.DNS64.Prefixes, "clients": sc.cfg.DNS64.ClientNetworks, "zones": sc.cfg.DNS64.ExcludeZones,
		"exclude_a": sc.cfg.DNS64.ExcludeANetworks, "exclude_aaaa": sc.cfg.DNS64.ExcludeAAAANetworks,
		"query": fmt.Sprintf("%s %s class=%d rd=%v cd=%v opt=%v over UDP from 127.0.0.1", qname, dns.TypeToString[qtype], req.Question[0].Qclass, req.RecursionDesired, req.CheckingDisabled, sc.hasOPT),
		"down": vC20Desc(sc.down), "mark": sc.mark, "sub_query_script": vC20Desc(sub), "sub_mark": subMark,
		"reply": vC20Desc(got), "next_called": calls, "sub_queries": subCalls, "sub_query": vC20SubQDesc(subReq), "tree_bound": cutDesc,
	}
	if corpus != "" {
		desc["corpus"] = corpus
	}
	if got == nil {
		b, _ := json.Marshal(map[string]any{"k": "udp-no-reply", "inconclusive": true, "desc": desc})
		o.f.Write(append(b, '\n'))
		return true
	}
	_, gotEdes := vC20Edes(got)
	var es []string
	for _, c := range gotEdes {
		es = append(es, strconv.Itoa(int(c)))
	}
	obs := fmt.Sprintf("(mk_obs true false %d %s [%s]%%N %s %s %s %s)", got.Rcode, vC20Bool(got.AuthenticatedData), strings.Join(es, "; "),
		vC20RRs(got.Answer), vC20Bool(subCalls > 0), vC20Bool(calls > 0), vC20SubQ(subReq))
	qCoq := fmt.Sprintf("(mk_query 1 %d %d %s %s %s %s false (hx \"7f000001\"))", req.Question[0].Qclass, qtype, vC20Bs(qname),
		vC20Bool(req.RecursionDesired), vC20Bool(req.CheckingDisabled), vC20Bool(sc.hasOPT))
	synth := false
	if subCalls > 0 {
		for _, rr := range got.Answer {
			if a, ok := rr.(*dns.AAAA); ok {
				synth = true
				sc.synthAAAA = append(sc.synthAAAA, a.AAAA)
			}
		}
	}
	k := "udp-"
	switch {
	case qtype == dns.TypePTR && calls == 0 && got.Rcode == 0:
		k += "ptr-translated"
	case qtype == dns.TypePTR:
		k += "ptr-other"
	case synth:
		k += "synth"
	case subCalls == 0:
		k += "no-lookup"
	default:
		k += "lookup-no-synth"
	}
	if bounded && k == "udp-synth" {
		k += "-bounded"
	}
	if sc.reverse {
		k += "-of-synth"
	}
	o.emit(k, fmt.Sprintf("CaseWire %s %s (Some (%s, %d%%N)) %s %s %s %s", vC20Config(sc.cfg), qCoq, vC20Msg(sc.down), sc.mark, subCoq, cutCoq, vC20Bool(sc.wf), obs),
		desc, k != "udp-no-lookup" || calls%2 == 0, "", "")
	return true
}

func TestVerifC20UDP(t *testing.T) {
	p := os.Getenv("VERIF_OUT")
	if p == "" {
		t.Skip("VERIF_OUT not set")
	}
	f, err := os.Create(p)
	if err != nil {
		t.Fatal(err)
	}
	defer f.Close()
	o := &vC20Out{f: f}
	inconclusive := func(why string) {
		b, _ := json.Marshal(map[string]any{"k": "udp-setup", "inconclusive": true, "desc": why})
		f.Write(append(b, '\n'))
	}

	// a free loopback port (UDP and TCP: the server binds both)
	probe, err := net.ListenUDP("udp", &net.UDPAddr{IP: net.IPv4(127, 0, 0, 1)})
	if err != nil {
		inconclusive("no loopback UDP socket: " + err.Error())
		return
	}
	port := probe.LocalAddr().(*net.UDPAddr).Port
	probe.Close()

	cfg := &config.Config{}
	cfg.Bind = fmt.Sprintf("127.0.0.1:%d", port)
	cfg.LogLevel = "crit"
	swap := &vC20Swap{}
	next := &vC20WireNext{}
	boot := &config.Config{}
	boot.DNS64.Enabled = true
	swap.cur = New(boot)
	middleware.Register(name, func(*config.Config) middleware.Handler { return swap })
	middleware.Register("vc20next", func(*config.Config) middleware.Handler { return next })
	middleware.Setup(cfg)
	if swap.q == nil {
		t.Fatal("middleware.Setup did not wire a Queryer into the dns64 slot")
	}
	srv := server.New(cfg)
	ctx, cancel := context.WithCancel(context.Background())
	_ = srv.Run(ctx)
	defer func() {
		cancel()
		deadline := time.Now().Add(5 * time.Second)
		for !srv.Stopped() && time.Now().Before(deadline) {
			time.Sleep(5 * time.Millisecond)
		}
	}()
	conn, err := net.DialUDP("udp", nil, &net.UDPAddr{IP: net.IPv4(127, 0, 0, 1), Port: port})
	if err != nil {
		inconclusive("dial: " + err.Error())
		return
	}
	defer conn.Close()
	u := &vC20UDP{swap: swap, next: next, conn: conn, id: uint16(vC20EnvInt("VERIF_SEED", 1))}

	// wait for the listener
	warm := new(dns.Msg)
	warm.SetQuestion("warm.t.", dns.TypeA)
	next.down = new(dns.Msg)
	next.down.SetRcode(warm, dns.RcodeRefused)
	up := false
	for i := 0; i < 5 && !up; i++ {
		up = u.exchange(warm.Copy()) != nil
	}
	if !up {
		inconclusive(fmt.Sprintf("server on %s did not answer the warm-up query", cfg.Bind))
		return
	}

	for _, c := range vC20LoadCorpus(t) {
		if c.Kind == "" || c.Kind == "serve" {
			if sc := c.scenario(); sc != nil {
				if sc.cut != nil && (sc.cut.route == 2 || sc.cut.route == 4) {
					sc.cut.route = 0
				}
				u.run(o, sc, c.Name)
			}
		}
	}
	seed := int64(vC20EnvInt("VERIF_SEED", 1))
	r := rand.New(rand.NewSource(seed*15485863 + 20))
	n := vC20EnvInt("VERIF_N", 400)
	for i := 0; i < n; i++ {
		if sc := vC20Gen(o, r, false, true); sc != nil {
			sc.synthAAAA = nil
			u.run(o, sc, "")
			if sc.wantsReverse(r) {
				u.run(o, vC20ReverseOf(r, sc, sc.synthAAAA[r.Intn(len(sc.synthAAAA))]), "")
			}
		}
	}
}
