//go:build verif

package middleware

// C15, consumer model ties: small concrete replies (vc15gen.VC15SmallReply, decomposed into the step
// model by the generator package's own encoders) through responseWriter.WriteMsg and
// validatedNegativeProofFingerprint; the Coq side (C15.Run.CaseReply / CaseFingerprint) computes
// from the message alone what the transport gets (C15.Cache.write_msg_c) and what is sealed
// (fingerprint_c over the {Rcode, Ns} view) and demands the observed bytes.

import (
	"bytes"
	"crypto/sha256"
	"fmt"
	"math/rand"
	"strings"

	"github.com/miekg/dns"
	"github.com/semihalev/sdns/internal/vc15gen"
)

func vC15Lib(m *dns.Msg) (want []byte, lib int, errText string) {
	b, err, panicked := vc15gen.VC15LibPack(m)
	switch {
	case panicked:
		return nil, 2, "panic"
	case err != nil:
		return nil, 1, err.Error()
	}
	return b, 0, ""
}

func vC15ReplyModelCase(emit func(map[string]any), r *rand.Rand) {
	m := vc15gen.VC15SmallReply(r)
	term, _, ok := vc15gen.VC15SmallTerm(m)
	if !ok {
		emit(map[string]any{"k": "reply-model/driver", "desc": "renderer refused a generated record", "nontrivial": false,
			"go_fail": "driver: VC15SmallSteps refused a record of VC15SmallReply"})
		return
	}
	direct := r.Intn(5) != 0
	internal := r.Intn(5) == 0
	want, lib, liberr := vC15Lib(vc15gen.VC15DeepCopy(m))
	snap := vc15gen.VC15DeepCopy(m)
	slots := vc15gen.VC15Records(m)

	sink := &vC15Sink{internal: internal}
	if r.Intn(3) != 0 {
		sink.other = vC15OtherRequests
	}
	sink.check = func() string { return vc15gen.VC15Diff(m, snap, slots) }
	ch := NewChain(nil)
	req := new(dns.Msg)
	req.SetQuestion("example.com.", dns.TypeA)
	ch.Reset(sink, req)
	if direct {
		ch.AllowDirectPack()
	}
	var fails []string
	func() {
		defer func() {
			if recover() != nil {
				fails = append(fails, "WriteMsg panicked")
			}
		}()
		if err := ch.Writer.WriteMsg(m); err != nil {
			fails = append(fails, "WriteMsg error "+err.Error())
		}
	}()
	wroteBytes := len(sink.wrote) == 1 && len(sink.msgs) == 0
	fellBack := len(sink.wrote) == 0 && len(sink.msgs) == 1
	if !wroteBytes && !fellBack {
		fails = append(fails, fmt.Sprintf("transport saw %d Write and %d WriteMsg calls", len(sink.wrote), len(sink.msgs)))
	}
	wrote := "None"
	if wroteBytes {
		wrote = "(Some " + vc15gen.VC15CoqBytes(string(sink.wrote[0])) + ")"
		if lib != 0 || !bytes.Equal(sink.wrote[0], want) {
			fails = append(fails, "raw bytes differ from the library's Pack of the reply")
		}
	}
	if fellBack && (sink.msgs[0] != m || sink.modified != "") {
		fails = append(fails, "the fallback did not receive the caller's message as built: "+sink.modified)
	}
	if d := vc15gen.VC15Diff(m, snap, slots); wroteBytes && d != "" {
		fails = append(fails, "message modified by the direct path: "+d)
	}
	line := map[string]any{
		"coq": fmt.Sprintf("CaseReply %s %s %s %s %s %d %s", term, vC15B(direct), vC15B(internal), wrote, vC15B(fellBack), lib, vc15gen.VC15CoqBytes(string(want))),
		"k":   fmt.Sprintf("reply-model/direct=%v/internal=%v/bytes=%v/interleaved=%v", direct, internal, wroteBytes, sink.other != nil),
		"desc": map[string]any{"rcode": m.Rcode, "compress": m.Compress, "sections": []int{len(m.Question), len(m.Answer), len(m.Ns), len(m.Extra)},
			"len": len(want), "liberr": liberr},
		"nontrivial": wroteBytes && len(slots) >= 2 || (fellBack && direct && !internal),
	}
	if len(fails) > 0 {
		line["go_fail"] = strings.Join(fails, " | ")
	}
	emit(line)
}

func vC15FingerprintModelCase(emit func(map[string]any), r *rand.Rand) {
	m := vc15gen.VC15SmallReply(r)
	if r.Intn(3) != 0 && m.Rcode > 15 {
		m.Rcode = []int{0, 3}[r.Intn(2)] // proofs are NOERROR / NXDOMAIN; keep some the library refuses
	}
	term, _, ok := vc15gen.VC15SmallTerm(m)
	if !ok {
		emit(map[string]any{"k": "fingerprint-model/driver", "desc": "renderer refused a generated record", "nontrivial": false,
			"go_fail": "driver: VC15SmallSteps refused a record of VC15SmallReply"})
		return
	}
	ref := vc15gen.VC15DeepCopy(m)
	sealed := new(dns.Msg)
	sealed.Rcode = ref.Rcode
	sealed.Ns = ref.Ns
	want, lib, liberr := vC15Lib(sealed)
	snap := vc15gen.VC15DeepCopy(m)
	slots := vc15gen.VC15Records(m)
	var sum [sha256.Size]byte
	valid := false
	var fails []string
	func() {
		defer func() {
			if recover() != nil {
				fails = append(fails, "fingerprint panicked on a proof of plain library records")
			}
		}()
		sum, valid = validatedNegativeProofFingerprint(m)
	}()
	sumOK := valid && lib == 0 && sum == sha256.Sum256(want)
	if valid != (lib == 0) {
		fails = append(fails, fmt.Sprintf("fingerprint valid=%v, library result %d %s", valid, lib, liberr))
	}
	if valid && !sumOK {
		fails = append(fails, "fingerprint is not the hash of the library's bytes")
	}
	if d := vc15gen.VC15Diff(m, snap, slots); d != "" {
		fails = append(fails, "fingerprint modified the proof: "+d)
	}
	line := map[string]any{
		"coq":        fmt.Sprintf("CaseFingerprint %s %s %s %d %s", term, vC15B(valid), vC15B(sumOK), lib, vc15gen.VC15CoqBytes(string(want))),
		"k":          fmt.Sprintf("fingerprint-model/valid=%v", valid),
		"desc":       map[string]any{"rcode": m.Rcode, "ns": len(m.Ns), "len": len(want), "liberr": liberr},
		"nontrivial": valid && len(m.Ns) > 0,
	}
	if len(fails) > 0 {
		line["go_fail"] = strings.Join(fails, " | ")
	}
	emit(line)
}
