//go:build verif

package blocklist

// C18 driver: the real BlockList (New / loadInitial / Set / Remove / SetBatch /
// RemoveBatch / Exists / ServeDNS through a real Chain / persist / reload from
// disk) on generated entry sets, query names and API histories.
//
// Case kinds (field k):
//   exists*   memory dump + Exists() on derived probe names
//   serve*    ServeDNS in a Chain ahead of a counting stub, decoded and wire-born requests
//   history   sequential API calls with return values, final memory, final `local` file
//   conc      concurrent API calls (disjoint keys per goroutine), final memory and file
//   sched     forced schedules: mutation+snapshotLocked under mu, persist() of the outstanding
//             snapshots in an arbitrary order (newest first included)
//   reload*   a fresh BlockList over the directory another one wrote
//   gated     the real Set/Remove/SetBatch/RemoveBatch as goroutines while the driver holds saveMu:
//             saving calls queue at persist(), calls that change nothing pass in between, then the gate opens
//   ioerr*    like crash*, but SIGXFSZ stays ignored: the write fails with EFBIG and the process goes on
//   refresh*  the real refreshRemote (re-read of the directory, 1 s timer) forced between a call's mutation and its persist()
//   parse-hosts  list files in hosts / plain-domain syntax (comments, aliases, tabs, CRLF) loaded by New
//   crash*    a child process applies one API call and is killed by the kernel when
//             the temp file reaches a chosen size (RLIMIT_FSIZE + default SIGXFSZ);
//             the directory it leaves behind and a reload of it
//
// Every random choice comes from VERIF_SEED. Files live under VERIF_SCRATCH.

import (
	"context"
	"encoding/json"
	"fmt"
	"math/big"
	"math/rand"
	"net"
	"net/http"
	"net/http/httptest"
	"os"
	"os/exec"
	"path/filepath"
	"reflect"
	"runtime"
	"sort"
	"strconv"
	"strings"
	"sync"
	"syscall"
	"testing"
	"time"
	"unsafe"

	"github.com/miekg/dns"
	"github.com/semihalev/sdns/config"
	"github.com/semihalev/sdns/internal/mock"
	"github.com/semihalev/sdns/middleware"
)


func vC18EnvInt(name string, def int) int {
	if s := os.Getenv(name); s != "" {
		if n, err := strconv.Atoi(s); err == nil {
			return n
		}
	}
	return def
}

// ---------------------------------------------------------------- Coq terms

func vC18Str(s string) string {
	plain := true
	for i := 0; i < len(s); i++ {
		c := s[i]
		if !((c >= 32 && c <= 126 && c != '"') || c == '\n') {
			plain = false
			break
		}
	}
	if plain {
		return `(S "` + s + `")`
	}
	if len(s) == 0 {
		return `(S "")`
	}
	parts := make([]string, len(s))
	for i := 0; i < len(s); i++ {
		parts[i] = strconv.Itoa(int(s[i]))
	}
	return "[" + strings.Join(parts, ";") + "]%N"
}

func vC18List(l []string) string {
	parts := make([]string, len(l))
	for i, s := range l {
		parts[i] = vC18Str(s)
	}
	return "[" + strings.Join(parts, "; ") + "]"
}

func vC18OptStr(present bool, s string) string {
	if !present {
		return "None"
	}
	return "(Some " + vC18Str(s) + ")"
}

type vC18Op struct {
	Kind string   `json:"kind"` // set remove setbatch removebatch
	Keys []string `json:"keys"`
}

func (o vC18Op) coq() string {
	switch o.Kind {
	case "set":
		return "OpSet " + vC18Str(o.Keys[0])
	case "remove":
		return "OpRemove " + vC18Str(o.Keys[0])
	case "setbatch":
		return "OpSetBatch " + vC18List(o.Keys)
	default:
		return "OpRemoveBatch " + vC18List(o.Keys)
	}
}

func (o vC18Op) apply(b *BlockList) int {
	switch o.Kind {
	case "set":
		if b.Set(o.Keys[0]) {
			return 1
		}
		return 0
	case "remove":
		if b.Remove(o.Keys[0]) {
			return 1
		}
		return 0
	case "setbatch":
		return b.SetBatch(o.Keys)
	default:
		return b.RemoveBatch(o.Keys)
	}
}

// ---------------------------------------------------------------- generators

// the pool covers the whole alphabet incl. the boundary letters a/z and their
// ASCII neighbours ('@' '[' before/after A-Z, '`' '{' around a-z), which case
// folding must leave alone
var vC18Labels = []string{"example", "notexample", "exampl", "examplee", "ex-ample", "com", "org", "net", "co", "uk",
	"a", "b", "www", "ads", "x1", "sub", "m", "com-x", "tracker", "cdn",
	"zone", "quiz", "az", "jazz", "z", "adzone", "a[b", "x`y", "q{r", `y\@z`, "fghijklmnopqrstuvwxyz",
	// labels with an escaped backslash: as the last byte (the dot after it is a separator), as the
	// first, and in front of an escaped dot (decoder's spelling of the labels  w\  \q  e\.f)
	`w\\`, `\\q`, `e\\\.f`}

func vC18Name(r *rand.Rand) string {
	n := 1 + r.Intn(4)
	if r.Intn(4) == 0 {
		n = 2
	}
	parts := make([]string, n)
	for i := range parts {
		parts[i] = vC18Labels[r.Intn(len(vC18Labels))]
	}
	if r.Intn(3) > 0 { // most names end in a TLD-like label
		parts[n-1] = []string{"com", "org", "net", "uk"}[r.Intn(4)]
	}
	return strings.Join(parts, ".") + "."
}

// case variants of a name: per-character coin flips, exactly one capital (any
// position, so also a lone 'A' or a lone 'Z'), only the boundary letters a/z
// capitalised, everything capitalised
func vC18MixCase(r *rand.Rand, s string) string {
	b := []byte(s)
	var letters []int
	for i := range b {
		if b[i] >= 'a' && b[i] <= 'z' {
			letters = append(letters, i)
		}
	}
	if len(letters) == 0 {
		return s
	}
	switch r.Intn(5) {
	case 0: // exactly one capital
		b[letters[r.Intn(len(letters))]] -= 32
	case 1: // only a / z
		hit := false
		for _, i := range letters {
			if b[i] == 'a' || b[i] == 'z' {
				if r.Intn(3) > 0 {
					b[i] -= 32
					hit = true
				}
			}
		}
		if !hit {
			b[letters[r.Intn(len(letters))]] -= 32
		}
	case 2: // all
		for _, i := range letters {
			b[i] -= 32
		}
	default:
		for _, i := range letters {
			if r.Intn(2) == 0 {
				b[i] -= 32
			}
		}
	}
	return string(b)
}

// a different name that a sloppy case fold would identify with s: one of the
// bytes next to the letter ranges moved by 32 ('@' <-> '`', '[' <-> '{')
func vC18NeighbourSwap(r *rand.Rand, s string) (string, bool) {
	b := []byte(s)
	var pos []int
	for i := range b {
		switch b[i] {
		case '@', '[', '`', '{':
			if i == 0 || b[i-1] != '\\' {
				pos = append(pos, i)
			}
		}
	}
	if len(pos) == 0 {
		return s, false
	}
	i := pos[r.Intn(len(pos))]
	if b[i] < 96 {
		b[i] += 32
	} else {
		b[i] -= 32
	}
	return string(b), true
}

// the way a user might spell a key: optional trailing dot, mixed case
func vC18Spell(r *rand.Rand, s string) string {
	if r.Intn(3) == 0 && len(s) > 1 {
		s = strings.TrimSuffix(s, ".")
	}
	if r.Intn(3) == 0 {
		s = vC18MixCase(r, s)
	}
	return s
}

func vC18Parent(s string) string {
	i := strings.IndexByte(s, '.')
	if i < 0 || i+1 >= len(s) {
		return "."
	}
	return s[i+1:]
}

// an entry: plain name mostly, wildcard often, the odd root / malformed one
func vC18Entry(r *rand.Rand, base []string) string {
	var n string
	if len(base) > 0 && r.Intn(3) == 0 {
		// related to an existing entry: child or parent (redundant entries)
		e := strings.TrimPrefix(base[r.Intn(len(base))], "*.")
		if r.Intn(2) == 0 {
			n = vC18Labels[r.Intn(len(vC18Labels))] + "." + strings.TrimPrefix(e, ".")
		} else {
			n = vC18Parent(e)
		}
		if strings.Contains(n, "..") || strings.HasPrefix(n, ".") && n != "." {
			n = vC18Name(r)
		}
	} else {
		n = vC18Name(r)
	}
	switch x := r.Intn(40); {
	case x < 10:
		return "*." + n
	case x == 10:
		return "."
	case x == 11:
		return "*."
	case x == 12:
		return ""
	case x == 13:
		return "a..b." + n
	case x == 14:
		return "*"
	case x == 15:
		return "*.*." + n
	}
	return n
}

// probe names derived from the entries: exact, below, above, beside
func vC18Probes(r *rand.Rand, entries []string, count int) []string {
	var out []string
	for len(out) < count {
		if len(entries) == 0 || r.Intn(6) == 0 {
			out = append(out, vC18Spell(r, vC18Name(r)))
			continue
		}
		e := entries[r.Intn(len(entries))]
		e = strings.TrimPrefix(e, "*.")
		if !strings.HasSuffix(e, ".") {
			e += "."
		}
		if e == "." && r.Intn(3) > 0 {
			e = vC18Name(r) // below a root entry: any name
		}
		under := func(l string) string { // l + "." + e, also when e is the root
			if e == "." {
				return l + "."
			}
			return l + "." + e
		}
		var q string
		switch r.Intn(18) {
		case 0:
			q = e
		case 1:
			q = under(vC18Labels[r.Intn(len(vC18Labels))])
		case 2:
			q = under("a.b.c.d")
		case 3:
			q = vC18Parent(e)
		case 4:
			q = "not" + e // label-boundary near miss
		case 5:
			if len(e) > 2 {
				q = e[1:] // first label loses its first byte
			} else {
				q = e
			}
		case 6:
			q = strings.TrimSuffix(e, ".") + "x." // last label grows
		case 7:
			q = vC18MixCase(r, e)
		case 8:
			q = strings.TrimSuffix(e, ".")
		case 9:
			q = under("*")
		case 10:
			q = "."
		case 11:
			q = vC18MixCase(r, under("www"))
		case 12:
			// sibling: replace first label
			q = "zz." + vC18Parent(e)
		case 13:
			if x, ok := vC18NeighbourSwap(r, e); ok {
				q = x
			} else {
				q = vC18MixCase(r, under("a.z"))
			}
		case 14, 15:
			q = vC18MixCase(r, e)
		case 16:
			q = vC18MixCase(r, under(vC18Labels[r.Intn(len(vC18Labels))]))
		default:
			q = vC18Parent(vC18Parent(e))
		}
		// probes are names a client can send: no empty label
		if q != "." && (q == "" || strings.Contains(q, "..") || strings.HasPrefix(q, ".")) {
			q = vC18Spell(r, vC18Name(r))
		}
		out = append(out, q)
	}
	return out
}

type vC18State struct {
	cfg       *config.Config
	b         *BlockList
	entries   []string // everything that was offered as an entry
	whitelist []string
}

var vC18DirSeq int

func vC18Dir(t *testing.T) string {
	vC18DirSeq++
	base := os.Getenv("VERIF_SCRATCH")
	if base == "" {
		base = t.TempDir()
	}
	d := filepath.Join(base, fmt.Sprintf("bl%06d", vC18DirSeq))
	if err := os.MkdirAll(d, 0o755); err != nil {
		t.Fatal(err)
	}
	return d
}

var vC18Null4 = []string{"0.0.0.0", "127.0.0.1", "10.9.8.7"}
var vC18Null6 = []string{"::0", "::1", "fd00::53"}

func vC18Cfg(r *rand.Rand, dir string) *config.Config {
	cfg := new(config.Config)
	cfg.Nullroute = vC18Null4[r.Intn(len(vC18Null4))]
	cfg.Nullroutev6 = vC18Null6[r.Intn(len(vC18Null6))]
	cfg.BlockListDir = dir
	return cfg
}

// vC18NewQuiet is New without the refreshRemote goroutine (which re-reads the
// directory one second later and would make histories with removals depend on
// the wall clock). loadInitial, the maps and everything the API touches are
// the production ones.
func vC18NewQuiet(cfg *config.Config) *BlockList {
	b := &BlockList{
		nullroute:  net.ParseIP(cfg.Nullroute),
		null6route: net.ParseIP(cfg.Nullroutev6),
		m:          make(map[string]bool),
		wild:       make(map[string]bool),
		w:          make(map[string]bool),
		cfg:        cfg,
	}
	b.loadInitial()
	return b
}

// build a list: whitelist + configured entries through New, more through the API
func vC18Build(t *testing.T, r *rand.Rand, api bool) *vC18State {
	st := &vC18State{}
	cfg := vC18Cfg(r, vC18Dir(t))
	ne := r.Intn(6)
	if r.Intn(12) == 0 {
		ne = 0
	}
	var entries []string
	for i := 0; i < ne; i++ {
		entries = append(entries, vC18Entry(r, entries))
	}
	// whitelist: related to the entries most of the time
	nw := 0
	if r.Intn(3) == 0 {
		nw = 1 + r.Intn(2)
	}
	for i := 0; i < nw; i++ {
		var wn string
		if len(entries) > 0 && r.Intn(5) > 0 {
			e := strings.TrimPrefix(entries[r.Intn(len(entries))], "*.")
			if e == "" {
				e = "."
			}
			switch r.Intn(5) {
			case 0:
				wn = e
			case 1:
				wn = vC18Parent(e)
			case 2:
				wn = vC18Labels[r.Intn(len(vC18Labels))] + "." + e
			case 3:
				wn = "a.b." + e
			default:
				wn = "not" + e
			}
		} else {
			wn = vC18Name(r)
		}
		if r.Intn(30) == 0 {
			wn = "."
		}
		st.whitelist = append(st.whitelist, vC18Spell(r, wn))
	}
	cfg.Whitelist = st.whitelist
	var viaAPI []string
	for _, e := range entries {
		if api && r.Intn(2) == 0 {
			viaAPI = append(viaAPI, vC18Spell(r, e))
		} else {
			cfg.Blocklist = append(cfg.Blocklist, vC18Spell(r, e))
		}
	}
	st.cfg = cfg
	st.b = New(cfg)
	if len(viaAPI) > 0 {
		if r.Intn(3) == 0 {
			for _, k := range viaAPI {
				st.b.Set(k)
			}
		} else {
			st.b.SetBatch(viaAPI)
		}
	}
	st.entries = entries
	return st
}

func vC18Dump(b *BlockList) (m, wild, w []string) {
	b.mu.RLock()
	defer b.mu.RUnlock()
	m, wild, w = []string{}, []string{}, []string{}
	for k := range b.m {
		m = append(m, k)
	}
	for k := range b.wild {
		wild = append(wild, k)
	}
	for k := range b.w {
		w = append(w, k)
	}
	sort.Strings(m)
	sort.Strings(wild)
	sort.Strings(w)
	return
}

// Go-side reference matcher on whole labels (names without escapes only)
func vC18Ref(m, wild, w []string, q string) (bool, bool) {
	if strings.Contains(q, `\`) {
		return false, false
	}
	for _, l := range [][]string{m, wild, w} {
		for _, k := range l {
			if strings.Contains(k, `\`) {
				return false, false
			}
		}
	}
	in := func(l []string, k string) bool {
		for _, x := range l {
			if x == k {
				return true
			}
		}
		return false
	}
	key := strings.ToLower(q)
	if !strings.HasSuffix(key, ".") {
		key += "."
	}
	var anc []string // key itself, then proper ancestors below the root
	anc = append(anc, key)
	if key != "." {
		labels := strings.Split(strings.TrimSuffix(key, "."), ".")
		for i := 1; i < len(labels); i++ {
			anc = append(anc, strings.Join(labels[i:], ".")+".")
		}
	}
	for _, a := range anc {
		if in(w, a) {
			return false, true
		}
	}
	if in(m, key) {
		return true, true
	}
	for _, a := range anc[1:] {
		if in(m, a) || in(wild, a) {
			return true, true
		}
	}
	return false, true
}

// ---------------------------------------------------------------- ServeDNS observation

type vC18Stub struct{ calls int }

func (s *vC18Stub) Name() string                                       { return "verifstub" }
func (s *vC18Stub) ServeDNS(ctx context.Context, ch *middleware.Chain) { s.calls++ }

type vC18Writer struct {
	*mock.Writer
	writes int
}

func (w *vC18Writer) WriteMsg(m *dns.Msg) error {
	w.writes++
	return w.Writer.WriteMsg(m)
}
func (w *vC18Writer) Write(b []byte) (int, error) {
	w.writes++
	return w.Writer.Write(b)
}

func vC18IPNum(ip net.IP, v4 bool) string {
	if ip == nil {
		return "0"
	}
	if v4 {
		ip = ip.To4()
		if ip == nil {
			return "0"
		}
		return new(big.Int).SetBytes(ip).String()
	}
	return new(big.Int).SetBytes(ip.To16()).String()
}

func vC18RRs(rrs []dns.RR) string {
	var parts []string
	for _, rr := range rrs {
		h := rr.Header()
		data := "0"
		switch x := rr.(type) {
		case *dns.A:
			data = vC18IPNum(x.A, true)
		case *dns.AAAA:
			data = vC18IPNum(x.AAAA, false)
		case *dns.SOA:
			data = strconv.Itoa(int(x.Minttl))
		}
		parts = append(parts, fmt.Sprintf("RR %d%%N %d%%N %s %s%%N", h.Rrtype, h.Ttl, vC18Str(h.Name), data))
	}
	return "[" + strings.Join(parts, "; ") + "]"
}

// serve one query through [blocklist, stub]; returns the Coq outcome term and a description
func vC18Serve(b *BlockList, qname string, qtype uint16, wireBorn bool) (string, map[string]any, string) {
	req := new(dns.Msg)
	req.SetQuestion(qname, qtype)
	buf, err := req.Pack()
	if err != nil {
		return "", nil, ""
	}
	dec := new(dns.Msg)
	if err := dec.Unpack(buf); err != nil {
		return "", nil, ""
	}
	seen := dec.Question[0].Name // what the server sees for this wire name
	stub := &vC18Stub{}
	ch := middleware.NewChain([]middleware.Handler{b, stub})
	w := &vC18Writer{Writer: mock.NewWriter("udp", "192.0.2.1:5353")}
	if wireBorn {
		r := new(middleware.Request)
		if !r.ParseWire(buf, time.Now(), nil) {
			return "", nil, ""
		}
		ch.ResetWire(w, r)
	} else {
		ch.Reset(w, dec)
	}
	ch.Next(context.Background())
	ch.Finish()
	desc := map[string]any{"qname": seen, "qtype": qtype, "wire_born": wireBorn, "next_calls": stub.calls, "writes": w.writes}
	var out string
	switch {
	case stub.calls == 1 && w.writes == 0:
		out = "ONext"
	case stub.calls == 0 && w.writes == 1 && w.Msg() != nil:
		m := w.Msg()
		desc["reply"] = m.String()
		if !m.Response || len(m.Extra) != 0 || len(m.Question) != 1 || m.Question[0].Name != seen || m.Id != req.Id {
			out = "OOther 9%N"
		} else {
			out = fmt.Sprintf("OReply %d%%N %v %v %s %s", m.Rcode, m.Authoritative, m.RecursionAvailable, vC18RRs(m.Answer), vC18RRs(m.Ns))
		}
	default:
		out = fmt.Sprintf("OOther %d%%N", stub.calls*10+w.writes)
	}
	return out, desc, seen
}

// ---------------------------------------------------------------- finding blocklist-entry-spelling
//
// The lists are keyed by presentation-form STRINGS. A name has more than one spelling:
// the wire decoder writes the bytes  . space ' @ ; ( ) " \  of a label with a backslash, a
// person writes "a@b.test" or "my printer.local". An entry (or an API probe) spelled the
// second way never meets the query name spelled the first way.

func vC18IsSpecial(c byte) bool {
	switch c {
	case ' ', '\'', '@', ';', '(', ')', '"':
		return true
	}
	return false
}

// an unescaped byte the wire decoder would have escaped
func vC18NonCanonical(s string) bool {
	for i := 0; i < len(s); i++ {
		if s[i] == '\\' {
			i++
			continue
		}
		if vC18IsSpecial(s[i]) || s[i] < '!' || s[i] > '~' {
			return true
		}
	}
	return false
}

// the labels a presentation-form string denotes, lower-cased (Spec.name_of), and for each
// whether it was spelled with an unescaped special byte
func vC18Decode(s string) (labels []string, hand []bool) {
	if s == "" || s == "." {
		return nil, nil
	}
	var cur []byte
	flag := false
	low := func(c byte) byte {
		if c >= 'A' && c <= 'Z' {
			return c + 32
		}
		return c
	}
	dig := func(c byte) bool { return c >= '0' && c <= '9' }
	for i := 0; i < len(s); i++ {
		switch {
		case s[i] == '\\' && i+3 < len(s) && dig(s[i+1]) && dig(s[i+2]) && dig(s[i+3]):
			cur = append(cur, low(byte((int(s[i+1]-'0')*100+int(s[i+2]-'0')*10+int(s[i+3]-'0'))%256)))
			i += 3
		case s[i] == '\\' && i+1 < len(s):
			cur = append(cur, low(s[i+1]))
			i++
		case s[i] == '\\':
		case s[i] == '.':
			labels, hand = append(labels, string(cur)), append(hand, flag)
			cur, flag = nil, false
		default:
			if vC18IsSpecial(s[i]) {
				flag = true
			}
			cur = append(cur, low(s[i]))
		}
	}
	if len(cur) > 0 {
		labels, hand = append(labels, string(cur)), append(hand, flag)
	}
	return labels, hand
}

// Two reference verdicts for one probe. byName: names are label lists, the spelling plays
// no role (the property). byString: what keying the lists by spelling gives — the lower-cased,
// fully qualified string and its suffixes after each label-separating dot, compared as strings
// (the finding's prediction).
func vC18RefByName(m, wild, w []string, q string) bool {
	ql, _ := vC18Decode(q)
	eq := func(e string, from int) bool { // entry e == the last len(ql)-from labels of q
		el, _ := vC18Decode(e)
		if len(el) != len(ql)-from {
			return false
		}
		for i := range el {
			if el[i] != ql[from+i] {
				return false
			}
		}
		return true
	}
	has := func(l []string, from int) bool {
		for _, e := range l {
			if eq(e, from) {
				return true
			}
		}
		return false
	}
	// the name itself and its proper ancestors below the root
	for from := 0; from == 0 || from < len(ql); from++ {
		if has(w, from) {
			return false
		}
	}
	if has(m, 0) {
		return true
	}
	for from := 1; from < len(ql); from++ {
		if has(m, from) {
			return true
		}
		for _, e := range wild {
			if e != "" && eq(e, from) {
				return true
			}
		}
	}
	return false
}

func vC18RefByString(m, wild, w []string, q string) bool {
	key := []byte(q)
	for i := range key {
		if key[i] >= 'A' && key[i] <= 'Z' {
			key[i] += 32
		}
	}
	bs := 0
	for i := len(key) - 2; i >= 0 && key[i] == '\\'; i-- {
		bs++
	}
	if len(key) == 0 || key[len(key)-1] != '.' || bs%2 == 1 {
		key = append(key, '.')
	}
	k := string(key)
	cands := []string{k}
	for i := 0; i < len(k); i++ {
		if k[i] == '\\' {
			i++
			continue
		}
		if k[i] == '.' && i+1 < len(k) {
			cands = append(cands, k[i+1:])
		}
	}
	in := func(l []string, x string) bool {
		for _, e := range l {
			if e == x {
				return true
			}
		}
		return false
	}
	for _, c := range cands {
		if in(w, c) {
			return false
		}
	}
	if in(m, k) {
		return true
	}
	for _, c := range cands[1:] {
		if in(m, c) || in(wild, c) {
			return true
		}
	}
	return false
}

// The tolerated class, by what is observed: on some probe the two references disagree (the
// verdict is a matter of spelling) and on EVERY probe of the case the list did what one of the
// two says — what the finding predicts, or the right thing. Anything else fails strictly.
func vC18SpellingClass(m, wild, w []string, probes []string, observed []bool) bool {
	differ := false
	for i, q := range probes {
		a, b := vC18RefByName(m, wild, w, q), vC18RefByString(m, wild, w, q)
		if a != b {
			differ = true
		}
		if observed[i] != a && observed[i] != b {
			return false
		}
	}
	return differ
}

const vC18SpellingKey = "blocklist-entry-spelling"

func vC18Strs(x any) []string {
	switch v := x.(type) {
	case []string:
		return v
	case []any:
		var out []string
		for _, e := range v {
			if s, ok := e.(string); ok {
				out = append(out, s)
			}
		}
		return out
	}
	return nil
}

// the fkey of an Exists / Serve / Reload case, from its description
func vC18SpellingFkey(coq string, desc any) string {
	d, ok := desc.(map[string]any)
	if !ok {
		return ""
	}
	var probes []string
	var observed []bool
	switch {
	case strings.HasPrefix(coq, "CaseServe "):
		q, ok := d["qname"].(string)
		next, ok1 := d["next_calls"].(int)
		writes, ok2 := d["writes"].(int)
		if !ok || !ok1 || !ok2 {
			return ""
		}
		switch {
		case next == 0 && writes == 1:
			probes, observed = append(probes, q), append(observed, true)
		case next == 1 && writes == 0:
			probes, observed = append(probes, q), append(observed, false)
		default:
			return ""
		}
	case strings.HasPrefix(coq, "CaseExists "):
		l, _ := d["exists"].([]any)
		if len(l) == 2 {
			if q, ok := l[0].(string); ok { // a single (name, verdict) pair
				if got, ok := l[1].(bool); ok {
					probes, observed = append(probes, q), append(observed, got)
					l = nil
				}
			}
		}
		for _, e := range l {
			v, ok := e.([]any)
			if !ok || len(v) != 2 {
				return ""
			}
			q, ok1 := v[0].(string)
			got, ok2 := v[1].(bool)
			if !ok1 || !ok2 {
				return ""
			}
			probes, observed = append(probes, q), append(observed, got)
		}
	case strings.HasPrefix(coq, "CaseHistory ") && d["ops"] != nil:
		// a key typed with a byte the wire decoder escapes, and the list now holds an entry under
		// another spelling than any that was typed (what the proposed repair does — the code as it
		// is keeps every key as typed, so on it this never applies): the model differs on the strings
		typed := map[string]bool{}
		hand := false
		note := func(k string) {
			ck := dns.CanonicalName(k)
			typed[ck] = true
			typed[strings.TrimPrefix(ck, "*.")] = true
			if vC18NonCanonical(k) {
				hand = true
			}
		}
		for _, k := range append(append(vC18Strs(d["m0"]), vC18Strs(d["wild0"])...), vC18Strs(d["whitelist"])...) {
			note(k)
		}
		ops, _ := d["ops"].([]any)
		for _, o := range ops {
			if v, ok := o.([]any); ok && len(v) == 3 {
				for _, k := range vC18Strs(v[1]) {
					note(k)
				}
			}
		}
		if hand {
			listed := append(vC18Strs(d["m1"]), vC18Strs(d["wild1"])...)
			if d["whitelist"] != nil {
				listed = append(listed, vC18Strs(d["w"])...)
			}
			// ... and every such entry is another spelling of a name that WAS typed: an entry that
			// denotes a name nobody typed (cut, mangled) is a different failure and stays strict
			sameName := func(e string) bool {
				le, _ := vC18Decode(e)
				for t := range typed {
					if lt, _ := vC18Decode(t); strings.Join(lt, "\x00") == strings.Join(le, "\x00") && len(lt) == len(le) {
						return true
					}
				}
				return false
			}
			respelled := false
			for _, e := range listed {
				if !typed[e] {
					if !sameName(e) {
						return ""
					}
					respelled = true
				}
			}
			if respelled {
				return vC18SpellingKey
			}
		}
		return ""
	case strings.HasPrefix(coq, "CaseReload "):
		// a configured whitelist entry spelled by hand, and the fresh list keys it by another
		// spelling than the one typed (what the proposed repair does): the model, which
		// describes the code as it is, then differs on the strings — the names are the spec's business
		hand := false
		for _, e := range vC18Strs(d["whitelist"]) {
			if vC18NonCanonical(e) {
				hand = true
			}
		}
		if rw, ok := d["reloaded_w"]; hand && ok {
			typed := map[string]bool{}
			for _, e := range vC18Strs(d["whitelist"]) {
				typed[dns.CanonicalName(e)] = true
			}
			for _, e := range vC18Strs(rw) {
				if !typed[e] {
					return vC18SpellingKey
				}
			}
		}
		return ""
	default:
		return ""
	}
	if len(probes) > 0 && vC18SpellingClass(vC18Strs(d["m"]), vC18Strs(d["wild"]), vC18Strs(d["w"]), probes, observed) {
		return vC18SpellingKey
	}
	return ""
}

// ---------------------------------------------------------------- output

type vC18Out struct {
	f *os.File
	n int
}

func (o *vC18Out) emit(k, coq string, desc any, nontrivial bool, goFail, fkey string) {
	rec := map[string]any{"k": k, "coq": coq, "desc": desc, "nontrivial": nontrivial}
	if fkey == "" {
		fkey = vC18SpellingFkey(coq, desc)
	}
	if goFail != "" {
		rec["go_fail"] = goFail
	}
	if fkey != "" {
		rec["fkey"] = fkey
	}
	b, _ := json.Marshal(rec)
	o.f.Write(append(b, '\n'))
	o.n++
}

func vC18ReadLocal(dir string) (bool, string) {
	data, err := os.ReadFile(filepath.Join(dir, "local"))
	if err != nil {
		return false, ""
	}
	return true, string(data)
}

// ---------------------------------------------------------------- case kinds

func vC18CaseExists(t *testing.T, r *rand.Rand, out *vC18Out) {
	st := vC18Build(t, r, r.Intn(3) == 0)
	m, wild, w := vC18Dump(st.b)
	probes := vC18Probes(r, append(append([]string{}, st.entries...), st.whitelist...), 5+r.Intn(5))
	var parts []string
	var obs []any
	goFail := ""
	blocked := 0
	for _, q := range probes {
		got := st.b.Exists(q)
		if got {
			blocked++
		}
		parts = append(parts, fmt.Sprintf("(%s, %v)", vC18Str(q), got))
		obs = append(obs, []any{q, got})
		if want, ok := vC18Ref(m, wild, w, q); ok && want != got {
			goFail = fmt.Sprintf("Exists(%q) = %v, whole-label reference matcher says %v", q, got, want)
		}
	}
	k := "exists"
	if len(w) > 0 {
		k = "exists-whitelist"
	}
	for _, e := range m {
		if e == "." {
			k = "exists-root-entry"
		}
	}
	for _, e := range wild {
		if e == "" {
			k = "exists-root-entry"
		}
	}
	out.emit(k, fmt.Sprintf("CaseExists %s %s %s [%s]", vC18List(m), vC18List(wild), vC18List(w), strings.Join(parts, "; ")),
		map[string]any{"m": m, "wild": wild, "w": w, "exists": obs}, blocked > 0 && blocked < len(probes), goFail, "")
}

// a fixed sweep, the same on every run: every letter of the alphabet, alone capitalised,
// at the first, a middle and the last label position, against plain, wildcard and
// whitelist entries; and the four bytes next to the letter ranges, which no folding may
// touch. One CaseExists per list, one CaseServe for the ends of the alphabet.
func vC18CaseAlphabet(t *testing.T, r *rand.Rand, out *vC18Out) {
	const alpha = "abcdefghijklmnopqrstuvwxyz"
	one := func(i int) string { return alpha[:i] + strings.ToUpper(alpha[i:i+1]) + alpha[i+1:] }
	type list struct {
		block, white []string
		probe        func(i int) []string
		extra        []string
	}
	lists := []list{
		// plain entry, the alphabet is the first label
		{[]string{alpha + ".mid.test."}, nil, func(i int) []string { return []string{one(i) + ".mid.test."} },
			[]string{"x" + alpha + ".mid.test.", strings.ToUpper(alpha) + ".MID.TEST.", alpha[1:] + ".mid.test."}},
		// wildcard entry, the alphabet is a middle label: children blocked, the apex not
		{[]string{"*." + alpha + ".test."}, nil, func(i int) []string {
			if i%3 == 0 {
				return []string{one(i) + ".test."}
			}
			return []string{"www." + one(i) + ".test."}
		}, []string{"www." + strings.ToUpper(alpha) + ".test", "www." + alpha + "x.test."}},
		// whitelist below a plain entry, the alphabet is the last label
		{[]string{"ads." + alpha + "."}, []string{"ok.ads." + alpha + "."}, func(i int) []string {
			if i%2 == 0 {
				return []string{"ok.ads." + one(i) + "."}
			}
			return []string{"x.ads." + one(i) + "."}
		}, []string{"deep.OK.ads." + strings.ToUpper(alpha) + ".", "nok.ads." + alpha + "."}},
		// the neighbours of the letter ranges are different names
		{[]string{"a[b.test.", "q{r.test.", "x`y.test.", "*.m`n.test."}, []string{"safe.a[b.test."},
			func(i int) []string { return nil },
			[]string{"a{b.test.", "A[B.test.", "q[r.test.", "Q{R.TEST.", "X`Y.test.", "w.m`n.test.", "w.M`N.test.", "m`n.test.",
				"safe.a{b.test.", "SAFE.A[B.test."}},
	}
	for _, l := range lists {
		cfg := vC18Cfg(r, vC18Dir(t))
		cfg.Blocklist, cfg.Whitelist = l.block, l.white
		b := New(cfg)
		m, wild, w := vC18Dump(b)
		var probes []string
		for i := range alpha {
			probes = append(probes, l.probe(i)...)
		}
		probes = append(probes, l.extra...)
		var parts []string
		var obs []any
		goFail := ""
		for _, q := range probes {
			got := b.Exists(q)
			parts = append(parts, fmt.Sprintf("(%s, %v)", vC18Str(q), got))
			obs = append(obs, []any{q, got})
			if want, ok := vC18Ref(m, wild, w, q); ok && want != got {
				goFail = fmt.Sprintf("Exists(%q) = %v, whole-label reference matcher says %v", q, got, want)
			}
		}
		out.emit("exists-alphabet", fmt.Sprintf("CaseExists %s %s %s [%s]", vC18List(m), vC18List(wild), vC18List(w), strings.Join(parts, "; ")),
			map[string]any{"m": m, "wild": wild, "w": w, "exists": obs}, true, goFail, "")
		// and through ServeDNS for the ends of the alphabet
		nr := vC18IPNum(net.ParseIP(cfg.Nullroute), true)
		nr6 := vC18IPNum(net.ParseIP(cfg.Nullroutev6), false)
		for _, i := range []int{0, 25} {
			for _, q := range l.probe(i) {
				o, desc, seen := vC18Serve(b, dns.Fqdn(q), dns.TypeA, i == 0)
				if o == "" {
					continue
				}
				desc["m"], desc["wild"], desc["w"] = m, wild, w
				gf := ""
				if want, ok := vC18Ref(m, wild, w, seen); ok && want != strings.HasPrefix(o, "OReply") {
					gf = fmt.Sprintf("query %q: reference matcher says blocked=%v, handler outcome %s", seen, want, o)
				}
				out.emit("serve-alphabet", fmt.Sprintf("CaseServe %s %s %s %s%%N %s%%N %s %d%%N (%s)", vC18List(m), vC18List(wild), vC18List(w), nr, nr6, vC18Str(seen), dns.TypeA, o),
					desc, true, gf, "")
			}
		}
	}
}

var vC18Qtypes = []uint16{dns.TypeA, dns.TypeA, dns.TypeA, dns.TypeAAAA, dns.TypeAAAA, dns.TypeNS, dns.TypeMX, dns.TypeTXT,
	dns.TypeSOA, dns.TypeANY, dns.TypeCNAME, dns.TypePTR, dns.TypeHTTPS, dns.TypeSRV, dns.TypeDS}

func vC18CaseServe(t *testing.T, r *rand.Rand, out *vC18Out) {
	st := vC18Build(t, r, r.Intn(4) == 0)
	vC18ServeProbes(r, out, st.b, st.cfg, append(append([]string{}, st.entries...), st.whitelist...), 2+r.Intn(2), "serve")
}

// ServeDNS (and the matcher behind it) on the list as it is NOW, whatever history
// produced it: probes derived from names, observed through a Chain, compared with the
// memory dump taken at the same moment
func vC18ServeProbes(r *rand.Rand, out *vC18Out, b *BlockList, cfg *config.Config, names []string, count int, kind string) {
	m, wild, w := vC18Dump(b)
	nr := vC18IPNum(net.ParseIP(cfg.Nullroute), true)
	nr6 := vC18IPNum(net.ParseIP(cfg.Nullroutev6), false)
	if len(m)+len(wild) > 0 && r.Intn(3) > 0 {
		// mostly around what is listed right now, so that blocked names are hit
		names = append(append([]string{}, m...), cfg.Whitelist...)
		for _, x := range wild {
			names = append(names, "*."+x)
		}
	}
	probes := vC18Probes(r, names, count)
	for _, q := range probes {
		if _, ok := dns.IsDomainName(q); !ok || strings.Contains(q, "..") || !vC18ASCII(q) {
			continue
		}
		qt := vC18Qtypes[r.Intn(len(vC18Qtypes))]
		wireBorn := r.Intn(2) == 0
		o, desc, seen := vC18Serve(b, dns.Fqdn(q), qt, wireBorn)
		if o == "" {
			continue
		}
		desc["m"], desc["wild"], desc["w"] = m, wild, w
		k := kind + "-next"
		if strings.HasPrefix(o, "OReply") {
			k = kind + "-blocked-other"
			if qt == dns.TypeA {
				k = kind + "-blocked-a"
			} else if qt == dns.TypeAAAA {
				k = kind + "-blocked-aaaa"
			}
		} else if o != "ONext" {
			k = kind + "-other"
		}
		if wireBorn {
			k += "-wire"
		}
		goFail := ""
		if want, ok := vC18Ref(m, wild, w, seen); ok && want != strings.HasPrefix(o, "OReply") {
			goFail = fmt.Sprintf("query %q: reference matcher says blocked=%v, handler outcome %s", seen, want, o)
		}
		out.emit(k, fmt.Sprintf("CaseServe %s %s %s %s%%N %s%%N %s %d%%N (%s)", vC18List(m), vC18List(wild), vC18List(w), nr, nr6, vC18Str(seen), qt, o),
			desc, true, goFail, "")
	}
}

// names whose labels contain a literal dot: on the wire one label, in presentation form "\."
func vC18CaseEscDot(t *testing.T, r *rand.Rand, out *vC18Out) {
	cfg := vC18Cfg(r, vC18Dir(t))
	base := vC18Name(r)
	inner := vC18Labels[r.Intn(len(vC18Labels))]
	entry := inner + "." + base // e.g. b.example.com.
	lbl := vC18Labels[r.Intn(len(vC18Labels))]
	// how the escaped label ends: "\." a dot INSIDE the label; "\\." the label ends in a backslash and
	// the dot is a separator (the query is a genuine child of entry); "\\\." backslash + dot inside;
	// "\\\\." two backslashes, then a separator; "\.\\." a dot and a backslash, then a separator
	sep := []string{`\.`, `\.`, `\\.`, `\\.`, `\\\.`, `\\\\.`, `\.\\.`}[r.Intn(7)]
	query := lbl + sep + entry // e.g. label "a.b" under example.com., or label "a\" under b.example.com.
	mode := r.Intn(4)
	switch mode {
	case 0:
		cfg.Blocklist = []string{entry}
	case 1:
		cfg.Blocklist = []string{"*." + entry}
		query = lbl + sep + "x." + entry // label "a.x" directly under entry: a genuine subdomain
	case 2:
		cfg.Blocklist = []string{query} // the escaped name itself is listed
	default:
		cfg.Blocklist = []string{"*." + base}
		cfg.Whitelist = []string{entry} // whitelisted b.example.com. must not exempt label "a.b" under example.com.
	}
	b := New(cfg)
	m, wild, w := vC18Dump(b)
	if r.Intn(2) == 0 {
		got := b.Exists(query)
		out.emit("exists-escdot", fmt.Sprintf("CaseExists %s %s %s [(%s, %v)]", vC18List(m), vC18List(wild), vC18List(w), vC18Str(query), got),
			map[string]any{"m": m, "wild": wild, "w": w, "exists": []any{query, got}}, true, "", "")
		return
	}
	qt := vC18Qtypes[r.Intn(len(vC18Qtypes))]
	o, desc, seen := vC18Serve(b, query, qt, r.Intn(2) == 0)
	if o == "" {
		return
	}
	desc["m"], desc["wild"], desc["w"] = m, wild, w
	nr := vC18IPNum(net.ParseIP(cfg.Nullroute), true)
	nr6 := vC18IPNum(net.ParseIP(cfg.Nullroutev6), false)
	out.emit("serve-escdot", fmt.Sprintf("CaseServe %s %s %s %s%%N %s%%N %s %d%%N (%s)", vC18List(m), vC18List(wild), vC18List(w), nr, nr6, vC18Str(seen), qt, o),
		desc, true, "", "")
}

// names whose labels hold a byte the wire decoder escapes (DNS-SD instance names are the
// everyday example: "my printer", "john's", "user@host"), spelled by hand in the lists or
// in the probe: finding blocklist-entry-spelling; the escaped spelling is the control
func vC18CaseSpelling(t *testing.T, r *rand.Rand, out *vC18Out) {
	cfg := vC18Cfg(r, vC18Dir(t))
	base := []string{"test.", "local.", "_ipp._tcp.local.", "sub.example.org."}[r.Intn(4)]
	raw := []string{"u@v", "p(q)", "it's", `say"hi`, "a;b", "my printer"}[r.Intn(6)]
	esc := ""
	for i := 0; i < len(raw); i++ {
		if vC18IsSpecial(raw[i]) {
			esc += `\`
		}
		esc += string(raw[i])
	}
	if r.Intn(2) == 0 {
		raw, esc = vC18MixCase(r, raw), vC18MixCase(r, esc)
	}
	query := esc + "." + base
	mode := r.Intn(5)
	viaExists := ""
	switch mode {
	case 0: // hand-spelled plain entry (white space is refused in block entries: the list stays empty)
		cfg.Blocklist = []string{raw + "." + base}
	case 1: // hand-spelled whitelist entry under a wildcard block
		cfg.Blocklist = []string{"*." + base}
		cfg.Whitelist = []string{raw + "." + base}
		if r.Intn(2) == 0 {
			query = "x." + query
		}
	case 2: // entry in the decoder's spelling, probe spelled by hand (the API's exists endpoint)
		if strings.Contains(raw, " ") {
			raw, esc = "u@v", `u\@v`
			query = esc + "." + base
		}
		cfg.Blocklist = []string{esc + "." + base}
		viaExists = raw + "." + base
	case 3: // control: everything in the decoder's spelling
		if strings.Contains(raw, " ") {
			cfg.Blocklist = []string{"*." + base}
			cfg.Whitelist = []string{esc + "." + base}
		} else {
			cfg.Blocklist = []string{esc + "." + base}
		}
	default: // control: hand-spelled entry elsewhere in the list, unrelated to the probe
		cfg.Blocklist = []string{raw + ".elsewhere.", "*." + base}
	}
	b := New(cfg)
	m, wild, w := vC18Dump(b)
	if viaExists != "" {
		got := b.Exists(viaExists)
		out.emit("exists-spelling", fmt.Sprintf("CaseExists %s %s %s [(%s, %v)]", vC18List(m), vC18List(wild), vC18List(w), vC18Str(viaExists), got),
			map[string]any{"m": m, "wild": wild, "w": w, "exists": []any{viaExists, got}}, true, "", "")
		return
	}
	qt := vC18Qtypes[r.Intn(len(vC18Qtypes))]
	o, desc, seen := vC18Serve(b, query, qt, true)
	if o == "" {
		return
	}
	desc["m"], desc["wild"], desc["w"] = m, wild, w
	nr := vC18IPNum(net.ParseIP(cfg.Nullroute), true)
	nr6 := vC18IPNum(net.ParseIP(cfg.Nullroutev6), false)
	k := "serve-spelling"
	if mode >= 3 {
		k = "serve-spelling-control"
	}
	out.emit(k, fmt.Sprintf("CaseServe %s %s %s %s%%N %s%%N %s %d%%N (%s)", vC18List(m), vC18List(wild), vC18List(w), nr, nr6, vC18Str(seen), qt, o),
		desc, true, "", "")
}

func vC18ASCII(s string) bool {
	for i := 0; i < len(s); i++ {
		if s[i] >= 0x80 {
			return false
		}
	}
	return true
}

// every rune unicode.IsSpace accepts (what strings.Fields / TrimSpace on the reload side split
// and trim at), and runes next to them that are no white space
var vC18Spaces = []string{"\t", "\n", "\v", "\f", "\r", " ", "\u0085", "\u00a0", "\u1680",
	"\u2000", "\u2001", "\u2002", "\u2003", "\u2004", "\u2005", "\u2006", "\u2007", "\u2008", "\u2009", "\u200a",
	"\u2028", "\u2029", "\u202f", "\u205f", "\u3000"}
var vC18NotSpaces = []string{"\u0084", "\u0086", "\u009f", "\u00a1", "\u167f", "\u1681", "\u1fff", "\u200b", "\u2027", "\u202a",
	"\u202e", "\u2030", "\u205e", "\u2060", "\u2fff", "\u3001", "\ufeff"}

// a key with the rune x at the front, inside or at the end of its first label (pos 0, 1, 2)
func vC18WithRune(x string, pos int, base string) string {
	switch pos {
	case 0:
		return x + "lead." + base
	case 1:
		return "mid" + x + "dle." + base
	}
	return "trail" + x + "." + base
}

// the other form of the same domain: plain <-> wildcard of one suffix ("" when there is none)
func vC18Twin(e string) string {
	switch {
	case e == "" || e == "." || e == "*." || e == "*" || strings.Contains(e, ".."):
		return ""
	case strings.HasPrefix(e, "*."):
		return e[2:]
	}
	return "*." + e
}

// a pool of keys small enough that removals hit and batches overlap
func vC18KeyPool(r *rand.Rand, prefix string, special bool) []string {
	n := 4 + r.Intn(5)
	var pool []string
	for i := 0; i < n; i++ {
		e := vC18Entry(r, pool)
		if e == "" || e == "*" || strings.Contains(e, "..") {
			e = vC18Name(r)
		}
		if prefix != "" {
			if strings.HasPrefix(e, "*.") {
				e = "*." + prefix + e[2:]
			} else {
				e = prefix + e
			}
		}
		pool = append(pool, e)
	}
	// both forms of one domain in the pool, as often as not: a batch may then list a name
	// together with its own wildcard, and calls may swap one form for the other
	if r.Intn(2) == 0 {
		if tw := vC18Twin(pool[r.Intn(len(pool))]); tw != "" {
			pool = append(pool, tw)
		}
	}
	if special {
		for i := 0; i < 1+r.Intn(2); i++ {
			base := vC18Name(r)
			switch r.Intn(8) {
			case 6: // white space / '#' as the very first byte, and as the last
				pool = append(pool, []string{" ", "\t", "\n", "#"}[r.Intn(4)]+"lead."+base)
			case 7:
				pool = append(pool, base+[]string{" ", "\r", "\v", "\f"}[r.Intn(4)])
			case 0:
				pool = append(pool, "a#b."+base)
			case 1:
				pool = append(pool, "a b."+base)
			case 2:
				pool = append(pool, "#"+base)
			case 3:
				pool = append(pool, "x\ty."+base)
			case 4:
				pool = append(pool, base+" extra.test")
			default:
				pool = append(pool, "one two three."+base)
			}
		}
		// one key with white space out of the whole class on every special pool, and as often
		// as not one with a rune next to the class (accepted, must come back unchanged)
		{
			k := vC18WithRune(vC18Spaces[r.Intn(len(vC18Spaces))], r.Intn(3), vC18Name(r))
			if r.Intn(4) == 0 {
				k = "*." + k
			}
			pool = append(pool, k)
			if r.Intn(2) == 0 {
				pool = append(pool, vC18WithRune(vC18NotSpaces[r.Intn(len(vC18NotSpaces))], r.Intn(3), vC18Name(r)))
			}
		}
	}
	return pool
}

func vC18RandOp(r *rand.Rand, pool []string) vC18Op {
	pick := func() string { return vC18Spell(r, pool[r.Intn(len(pool))]) }
	switch x := r.Intn(10); {
	case x < 4:
		return vC18Op{"set", []string{pick()}}
	case x < 6:
		return vC18Op{"remove", []string{pick()}}
	case x < 8:
		n := r.Intn(4)
		if r.Intn(8) > 0 && n == 0 {
			n = 1
		}
		ks := []string{}
		for i := 0; i < n; i++ {
			ks = append(ks, pick())
		}
		if n > 0 && r.Intn(4) == 0 { // a domain together with its own wildcard form
			if tw := vC18Twin(ks[r.Intn(len(ks))]); tw != "" {
				ks = append(ks, tw)
			}
		}
		return vC18Op{"setbatch", ks}
	default:
		n := r.Intn(4)
		ks := []string{}
		for i := 0; i < n; i++ {
			ks = append(ks, pick())
		}
		if n > 0 && r.Intn(4) == 0 {
			if tw := vC18Twin(ks[r.Intn(len(ks))]); tw != "" {
				ks = append(ks, tw)
			}
		}
		return vC18Op{"removebatch", ks}
	}
}

// "cover, then uncover": a broad entry (plain or wildcard), a narrower one at or below it (added
// while the broad one covers it — or before it), then the broad one removed. What the calls
// acknowledged and what is matched afterwards must still be the same list.
func vC18CoverPattern(r *rand.Rand, pool []string) (ops []vC18Op, around []string) {
	d := strings.TrimPrefix(pool[r.Intn(len(pool))], "*.")
	if d == "" || d == "." || d == "*" || strings.Contains(d, "..") || strings.HasPrefix(d, ".") || strings.ContainsAny(d, " \t\n\r\v\f#") {
		d = vC18Name(r)
	}
	if !strings.HasSuffix(d, ".") {
		d += "."
	}
	broad := d
	if r.Intn(2) == 0 {
		broad = "*." + d
	}
	l := vC18Labels[r.Intn(len(vC18Labels))]
	var narrow string
	switch r.Intn(6) {
	case 0, 1:
		narrow = l + "." + d
	case 2:
		narrow = "*." + l + "." + d
	case 3:
		narrow = "a." + l + "." + d
	case 4:
		narrow = "*." + d // the wildcard form of the same suffix
	default:
		narrow = d // the apex: a duplicate of a plain entry, not covered by the wildcard form
	}
	one := func(kind, k string) vC18Op {
		k = vC18Spell(r, k)
		if r.Intn(3) == 0 {
			ks := []string{k}
			if r.Intn(2) == 0 {
				ks = append(ks, vC18Spell(r, pool[r.Intn(len(pool))]))
			}
			return vC18Op{kind + "batch", ks}
		}
		return vC18Op{kind, []string{k}}
	}
	first, second := one("set", broad), one("set", narrow)
	if r.Intn(4) == 0 {
		first, second = second, first
	}
	ops = append(ops, first)
	if r.Intn(3) == 0 {
		ops = append(ops, vC18RandOp(r, pool))
	}
	ops = append(ops, second)
	if r.Intn(4) == 0 {
		ops = append(ops, vC18RandOp(r, pool))
	}
	ops = append(ops, one("remove", broad))
	return ops, []string{narrow, broad, "www." + strings.TrimPrefix(narrow, "*.")}
}

func vC18Whitelist(r *rand.Rand, pool []string) []string {
	var wl []string
	if r.Intn(3) == 0 {
		e := strings.TrimPrefix(pool[r.Intn(len(pool))], "*.")
		switch r.Intn(3) {
		case 0:
			wl = append(wl, e)
		case 1:
			wl = append(wl, vC18Parent(e))
		default:
			wl = append(wl, "www."+e)
		}
	}
	return wl
}

// reload the directory with the production constructor and emit the comparison
func vC18EmitReload(r *rand.Rand, out *vC18Out, k string, dir string, whitelist []string, memM, memWild []string, fkey string) {
	present, file := vC18ReadLocal(dir)
	if !present {
		return
	}
	cfg := vC18Cfg(r, dir)
	cfg.Whitelist = whitelist
	nb := New(cfg)
	rm, rwild, rw := vC18Dump(nb)
	out.emit(k, fmt.Sprintf("CaseReload %s [] [%s] %s %s %s %s %s", vC18List(whitelist), vC18Str(file), vC18List(memM), vC18List(memWild),
		vC18List(rm), vC18List(rwild), vC18List(rw)),
		map[string]any{"whitelist": whitelist, "file": file, "memory_m": memM, "memory_wild": memWild, "reloaded_m": rm, "reloaded_wild": rwild, "reloaded_w": rw},
		true, "", fkey)
}

func vC18CaseHistory(t *testing.T, r *rand.Rand, out *vC18Out, special bool) {
	dir := vC18Dir(t)
	cfg := vC18Cfg(r, dir)
	pool := vC18KeyPool(r, "", special)
	cfg.Whitelist = vC18Whitelist(r, pool)
	if !special && r.Intn(3) == 0 {
		cfg.Blocklist = []string{vC18Spell(r, pool[r.Intn(len(pool))])}
	}
	b := vC18NewQuiet(cfg)
	m0, wild0, w := vC18Dump(b)
	nops := 2 + r.Intn(7)
	var parts []string
	var descOps []any
	anyOK := false
	var planned []vC18Op
	var around []string
	for i := 0; i < nops || len(planned) > 0; i++ {
		var op vC18Op
		switch {
		case special && i == 0:
			op = vC18Op{"setbatch", pool[len(pool)-2:]}
		case len(planned) > 0:
			op, planned = planned[0], planned[1:]
		case !special && i < nops-1 && r.Intn(5) == 0:
			var a []string
			planned, a = vC18CoverPattern(r, pool)
			around = append(around, a...)
			op, planned = planned[0], planned[1:]
		default:
			op = vC18RandOp(r, pool)
		}
		ret := op.apply(b)
		if ret > 0 {
			anyOK = true
		}
		parts = append(parts, fmt.Sprintf("(%s, %d%%N)", op.coq(), ret))
		descOps = append(descOps, []any{op.Kind, op.Keys, ret})
		if ret > 0 && (op.Kind == "remove" || op.Kind == "removebatch") && r.Intn(2) == 0 {
			// right after a removal
			vC18ServeProbes(r, out, b, cfg, append(append(append([]string{}, pool...), cfg.Whitelist...), around...), 1+r.Intn(2), "serve-after-remove")
		}
	}
	m1, wild1, _ := vC18Dump(b)
	present, file := vC18ReadLocal(dir)
	// queries against the list this history left behind (removals included)
	vC18ServeProbes(r, out, b, cfg, append(append(append([]string{}, pool...), cfg.Whitelist...), around...), 1+r.Intn(3), "serve-after-history")
	hk := "history"
	if special {
		hk = "history-special"
	}
	{
		out.emit(hk, fmt.Sprintf("CaseHistory %s %s %s [%s] %s %s %s", vC18List(m0), vC18List(wild0), vC18List(w), strings.Join(parts, "; "),
			vC18List(m1), vC18List(wild1), vC18OptStr(present, file)),
			map[string]any{"m0": m0, "wild0": wild0, "w": w, "whitelist": cfg.Whitelist, "ops": descOps, "m1": m1, "wild1": wild1, "file_present": present, "file": file}, anyOK, "", "")
	}
	if len(cfg.Blocklist) == 0 && present {
		if special {
			vC18EmitReload(r, out, "reload-special", dir, cfg.Whitelist, m1, wild1, "")
		} else {
			vC18EmitReload(r, out, "reload", dir, cfg.Whitelist, m1, wild1, "")
		}
	}
}

type vC18Asked struct {
	q    string
	qt   uint16
	wire bool
}

// "blocked exactly when listed", end to end and without looking into the list: a history of
// real API calls (return values recorded), then queries through ServeDNS in a real Chain. The
// case carries the list as it was BEFORE the calls, the calls, and the replies — no memory
// dump afterwards: what is listed is what the calls acknowledged (Proofs_listed.listed_is_served;
// spec_case judges the replies by that list, check_case by the model's own run of the calls).
func vC18CaseListed(t *testing.T, r *rand.Rand, out *vC18Out) {
	dir := vC18Dir(t)
	cfg := vC18Cfg(r, dir)
	pool := vC18KeyPool(r, "", false)
	cfg.Whitelist = vC18Whitelist(r, pool)
	if r.Intn(4) == 0 {
		cfg.Blocklist = []string{vC18Spell(r, pool[r.Intn(len(pool))])}
	}
	b := vC18NewQuiet(cfg)
	m0, wild0, w := vC18Dump(b)
	nops := 2 + r.Intn(6)
	var parts []string
	var descOps []any
	var planned []vC18Op
	var around, acked []string
	anyOK := false
	for i := 0; i < nops || len(planned) > 0; i++ {
		var op vC18Op
		switch {
		case len(planned) > 0:
			op, planned = planned[0], planned[1:]
		case i < nops-1 && r.Intn(3) == 0:
			var a []string
			planned, a = vC18CoverPattern(r, pool)
			around = append(around, a...)
			op, planned = planned[0], planned[1:]
		default:
			op = vC18RandOp(r, pool)
		}
		ret := op.apply(b)
		if ret > 0 {
			anyOK = true
			acked = append(acked, op.Keys...)
		}
		parts = append(parts, fmt.Sprintf("(%s, %d%%N)", op.coq(), ret))
		descOps = append(descOps, []any{op.Kind, op.Keys, ret})
	}
	// probes: mostly around the keys some call acknowledged (set or removed), then the pool
	names := append(append(append([]string{}, acked...), acked...), around...)
	names = append(append(names, pool...), cfg.Whitelist...)
	names = append(names, m0...)
	nr := vC18IPNum(net.ParseIP(cfg.Nullroute), true)
	nr6 := vC18IPNum(net.ParseIP(cfg.Nullroutev6), false)
	var probes []string
	var descProbes []any
	var asked []vC18Asked
	blocked, passed := 0, 0
	for _, q := range vC18Probes(r, names, 4+r.Intn(4)) {
		if _, ok := dns.IsDomainName(q); !ok || strings.Contains(q, "..") || !vC18ASCII(q) {
			continue
		}
		qt := vC18Qtypes[r.Intn(len(vC18Qtypes))]
		wireBorn := r.Intn(2) == 0
		o, desc, seen := vC18Serve(b, dns.Fqdn(q), qt, wireBorn)
		if o == "" {
			continue
		}
		if strings.HasPrefix(o, "OReply") {
			blocked++
		} else {
			passed++
		}
		probes = append(probes, fmt.Sprintf("(%s, %d%%N, %s)", vC18Str(seen), qt, o))
		descProbes = append(descProbes, desc)
		asked = append(asked, vC18Asked{dns.Fqdn(q), qt, wireBorn})
	}
	if len(probes) == 0 {
		return
	}
	defer func() {
		// ... and the same queries put to a NEW process started on the directory the calls left
		// behind (Properties.listed_end_to_end): still judged by the acknowledged list alone
		if present, _ := vC18ReadLocal(dir); !present || len(cfg.Blocklist) > 0 {
			return
		}
		ncfg := *cfg
		nb := New(&ncfg)
		var rprobes []string
		var rdesc []any
		for _, a := range asked {
			o, desc, seen := vC18Serve(nb, a.q, a.qt, a.wire)
			if o == "" {
				continue
			}
			rprobes = append(rprobes, fmt.Sprintf("(%s, %d%%N, %s)", vC18Str(seen), a.qt, o))
			rdesc = append(rdesc, desc)
		}
		if len(rprobes) > 0 {
			out.emit("listed-restart", fmt.Sprintf("CaseListed %s %s %s [%s] %s%%N %s%%N [%s]", vC18List(m0), vC18List(wild0), vC18List(w), strings.Join(parts, "; "),
				nr, nr6, strings.Join(rprobes, "; ")),
				map[string]any{"m0": m0, "wild0": wild0, "w": w, "whitelist": cfg.Whitelist, "ops": descOps, "probes_after_restart": rdesc},
				anyOK && blocked > 0 && passed > 0, "", "")
		}
	}()
	out.emit("listed", fmt.Sprintf("CaseListed %s %s %s [%s] %s%%N %s%%N [%s]", vC18List(m0), vC18List(wild0), vC18List(w), strings.Join(parts, "; "),
		nr, nr6, strings.Join(probes, "; ")),
		map[string]any{"m0": m0, "wild0": wild0, "w": w, "whitelist": cfg.Whitelist, "ops": descOps, "probes": descProbes},
		anyOK && blocked > 0 && passed > 0, "", "")
}

// a sequential history around one batch that holds both forms of one domain
func vC18CaseTwinBatch(t *testing.T, r *rand.Rand, out *vC18Out, nops int) {
	dir := vC18Dir(t)
	cfg := vC18Cfg(r, dir)
	b := vC18NewQuiet(cfg)
	m0, wild0, w := vC18Dump(b)
	d := vC18Name(r)
	other := "keep-" + vC18Name(r)
	ops := []vC18Op{
		{"set", []string{other}},
		{"setbatch", []string{vC18Spell(r, d), "*." + d}},
		{"removebatch", []string{"*." + d, d}},
		{"setbatch", []string{"*." + d, d, "x." + d}},
		{"remove", []string{d}},
	}
	ops = ops[:nops]
	var parts []string
	var descOps []any
	for _, op := range ops {
		ret := op.apply(b)
		parts = append(parts, fmt.Sprintf("(%s, %d%%N)", op.coq(), ret))
		descOps = append(descOps, []any{op.Kind, op.Keys, ret})
	}
	m1, wild1, _ := vC18Dump(b)
	present, file := vC18ReadLocal(dir)
	out.emit("history-twin-batch", fmt.Sprintf("CaseHistory %s %s %s [%s] %s %s %s", vC18List(m0), vC18List(wild0), vC18List(w), strings.Join(parts, "; "),
		vC18List(m1), vC18List(wild1), vC18OptStr(present, file)),
		map[string]any{"m0": m0, "wild0": wild0, "w": w, "ops": descOps, "m1": m1, "wild1": wild1, "file_present": present, "file": file}, true, "", "")
	if present {
		vC18EmitReload(r, out, "reload-twin-batch", dir, cfg.Whitelist, m1, wild1, "")
	}
}

// the fixed white-space sweep: every rune of the class the reload side splits at, at the front,
// inside and at the end of a label, offered to Set one by one (and the runes next to the class,
// which are no white space and must come back from the file as they went in)
func vC18CaseWhitespace(t *testing.T, r *rand.Rand, out *vC18Out, pos int, spaces bool) {
	dir := vC18Dir(t)
	cfg := vC18Cfg(r, dir)
	b := vC18NewQuiet(cfg)
	m0, wild0, w := vC18Dump(b)
	ops := []vC18Op{{"set", []string{"keep.ws-sweep.test."}}}
	runes := vC18Spaces
	if !spaces {
		runes = vC18NotSpaces
	}
	for i, x := range runes {
		k := vC18WithRune(x, pos, "ws-sweep.test.")
		if i%5 == 4 {
			k = "*." + k
		}
		if i%7 == 6 {
			ops = append(ops, vC18Op{"setbatch", []string{k}})
		} else {
			ops = append(ops, vC18Op{"set", []string{k}})
		}
	}
	var parts []string
	var descOps []any
	for _, op := range ops {
		ret := op.apply(b)
		parts = append(parts, fmt.Sprintf("(%s, %d%%N)", op.coq(), ret))
		descOps = append(descOps, []any{op.Kind, op.Keys, ret})
	}
	m1, wild1, _ := vC18Dump(b)
	present, file := vC18ReadLocal(dir)
	out.emit("history-whitespace", fmt.Sprintf("CaseHistory %s %s %s [%s] %s %s %s", vC18List(m0), vC18List(wild0), vC18List(w), strings.Join(parts, "; "),
		vC18List(m1), vC18List(wild1), vC18OptStr(present, file)),
		map[string]any{"m0": m0, "wild0": wild0, "w": w, "ops": descOps, "m1": m1, "wild1": wild1, "file_present": present, "file": file}, true, "", "")
	if present {
		vC18EmitReload(r, out, "reload-whitespace", dir, cfg.Whitelist, m1, wild1, "")
	}
}

// A background refresh (what refreshRemote does once its timer and downloads are over:
// readLists(true)) landing INSIDE a save — between persist()'s CreateTemp and its Rename, when the
// temp file of the save in flight lies in the directory. No source hook: the list is made big
// enough for the save to take a while (one write per entry), the driver watches the directory for
// the temp file, walks at once, and then verifies through saveMu that the save was still in flight
// when the walk ended; an attempt whose overlap cannot be verified is repeated with another key
// (never after a verified one: a later save would repair the file), and nothing is emitted when
// none succeeds. Oracle: every call has returned — `local` is the memory (CaseConc).
func vC18CaseRefreshInflight(t *testing.T, out *vC18Out, n, attempts int, remove bool) {
	dir := vC18Dir(t)
	cfg := &config.Config{Nullroute: "0.0.0.0", Nullroutev6: "::0", BlockListDir: dir}
	b := vC18NewQuiet(cfg)
	bulk := make([]string, n)
	for i := range bulk {
		bulk[i] = fmt.Sprintf("k%04d.bulk.test.", i)
	}
	ops := []vC18Op{{"setbatch", bulk}}
	if b.SetBatch(bulk) != n {
		t.Fatalf("refresh-inflight: bulk SetBatch refused keys")
	}
	verified := false
	for a := 0; a < attempts && !verified; a++ {
		op := vC18Op{"set", []string{fmt.Sprintf("late%d.bulk.test.", a)}}
		if remove { // a removal whose save is walked over: the entry would come back at the next start
			op = vC18Op{"remove", []string{bulk[(a*7+3)%n]}}
		}
		ops = append(ops, op)
		done := make(chan int, 1)
		go func() { done <- op.apply(b) }()
		seen := false
	watch:
		for spins := 0; spins < 2000000; spins++ {
			select {
			case r := <-done:
				done <- r
				break watch
			default:
			}
			if ents, err := os.ReadDir(dir); err == nil {
				for _, e := range ents {
					if strings.HasPrefix(e.Name(), "local.tmp.") {
						seen = true
						break watch
					}
				}
			}
		}
		if seen {
			_ = b.readLists(true)
			if b.saveMu.TryLock() {
				b.saveMu.Unlock() // the save was over before the walk ended: no verified overlap
			} else {
				verified = true
			}
		}
		if <-done != 1 {
			t.Fatalf("refresh-inflight: late call refused")
		}
	}
	if !verified {
		return
	}
	m1, wild1, w := vC18Dump(b)
	present, file := vC18ReadLocal(dir)
	var cops []string
	for _, op := range ops {
		cops = append(cops, op.coq())
	}
	out.emit("refresh-inflight", fmt.Sprintf("CaseConc [] [] %s [[%s]] %s %s %s", vC18List(w), strings.Join(cops, "; "),
		vC18List(m1), vC18List(wild1), vC18OptStr(present, file)),
		map[string]any{"bulk_keys": n, "late_calls": len(ops) - 1, "late_call": ops[len(ops)-1], "what": "readLists(true) walked the directory while the last Set's persist() had its temp file there (verified: saveMu still held after the walk)",
			"entries_in_memory": len(m1), "file_present": present, "file_bytes": len(file)}, true, "", "")
}

func vC18CaseConc(t *testing.T, r *rand.Rand, out *vC18Out) {
	dir := vC18Dir(t)
	cfg := vC18Cfg(r, dir)
	nthreads := 3 + r.Intn(4)
	var pools [][]string
	var all []string
	for i := 0; i < nthreads; i++ {
		p := vC18KeyPool(r, fmt.Sprintf("t%d-", i), false)
		pools = append(pools, p)
		all = append(all, p...)
	}
	cfg.Whitelist = vC18Whitelist(r, all)
	b := vC18NewQuiet(cfg)
	m0, wild0, w := vC18Dump(b)
	threads := make([][]vC18Op, nthreads)
	for i := range threads {
		n := 2 + r.Intn(6)
		for j := 0; j < n; j++ {
			threads[i] = append(threads[i], vC18RandOp(r, pools[i]))
		}
	}
	var wg sync.WaitGroup
	start := make(chan struct{})
	for i := range threads {
		wg.Add(1)
		go func(ops []vC18Op) {
			defer wg.Done()
			<-start
			for _, op := range ops {
				op.apply(b)
			}
		}(threads[i])
	}
	close(start)
	wg.Wait()
	m1, wild1, _ := vC18Dump(b)
	present, file := vC18ReadLocal(dir)
	var tparts []string
	var descT []any
	for _, th := range threads {
		var ops []string
		var d []any
		for _, op := range th {
			ops = append(ops, op.coq())
			d = append(d, []any{op.Kind, op.Keys})
		}
		tparts = append(tparts, "["+strings.Join(ops, "; ")+"]")
		descT = append(descT, d)
	}
	out.emit("conc", fmt.Sprintf("CaseConc %s %s %s [%s] %s %s %s", vC18List(m0), vC18List(wild0), vC18List(w), strings.Join(tparts, "; "),
		vC18List(m1), vC18List(wild1), vC18OptStr(present, file)),
		map[string]any{"w": w, "threads": descT, "m1": m1, "wild1": wild1, "file_present": present, "file": file}, present, "", "")
	if present {
		vC18EmitReload(r, out, "reload-after-conc", dir, cfg.Whitelist, m1, wild1, "")
	}
}

// the body of one API call up to the point where mu is released: mutation and
// snapshotLocked under the lock, exactly as Set/Remove/SetBatch/RemoveBatch do it
func vC18MutateLocked(b *BlockList, op vC18Op) (bool, blockSnapshot) {
	b.mu.Lock()
	defer b.mu.Unlock()
	n := 0
	switch op.Kind {
	case "set":
		if b.setLocked(op.Keys[0]) {
			n++
		}
	case "remove":
		if b.removeLocked(op.Keys[0]) {
			n++
		}
	case "setbatch":
		for _, k := range op.Keys {
			if b.setLocked(k) {
				n++
			}
		}
	default:
		for _, k := range op.Keys {
			if b.removeLocked(k) {
				n++
			}
		}
	}
	if n == 0 {
		return false, blockSnapshot{}
	}
	return true, b.snapshotLocked()
}

// how many goroutines wait for the mutex (sync.Mutex keeps the count above the three flag
// bits of its state word); by reflection, so that a different layout only costs the ability
// to see it
func vC18MutexWaiters(m *sync.Mutex) (int, bool) {
	v := reflect.ValueOf(m).Elem()
	f := v.FieldByName("state")
	if !f.IsValid() {
		if mu := v.FieldByName("mu"); mu.IsValid() && mu.Kind() == reflect.Struct {
			f = mu.FieldByName("state")
		}
	}
	if !f.IsValid() || f.Kind() != reflect.Int32 {
		return 0, false
	}
	return int(f.Int() >> 3), true
}

// forced schedules: snapshots reach persist() in an arbitrary order, interleaved with later mutations
func vC18CaseSched(t *testing.T, r *rand.Rand, out *vC18Out) { vC18CaseSchedWith(t, r, out, false, false) }

// forced: a list on disk, a change and the call that takes it back, then every snapshot's persist() started behind the gate, newest first
// swap (with forced): the change is "one form of a domain removed", the second call sets the other form
func vC18CaseSchedWith(t *testing.T, r *rand.Rand, out *vC18Out, forced, swap bool) {
	dir := vC18Dir(t)
	cfg := vC18Cfg(r, dir)
	pool := vC18KeyPool(r, "", false)
	cfg.Whitelist = vC18Whitelist(r, pool)
	b := vC18NewQuiet(cfg)
	m0, wild0, w := vC18Dump(b)
	nmut := 2 + r.Intn(5)
	var pending []blockSnapshot
	var parts []string
	var desc []any
	done := 0
	// the call that takes back what the last effective call did (A-B-A: the list returns to
	// a content it had before — and that may be on disk — under a newer version)
	var undo []vC18Op
	entries := func() map[string]bool {
		m, wild, _ := vC18Dump(b)
		set := map[string]bool{}
		for _, e := range m {
			set[e] = true
		}
		for _, e := range wild {
			set["*."+e] = true
		}
		return set
	}
	mutate := func(op vC18Op, isUndo bool) bool {
		before := entries()
		ok, snap := vC18MutateLocked(b, op)
		if ok {
			pending = append(pending, snap)
			after := entries()
			var added, removed []string
			for e := range after {
				if !before[e] {
					added = append(added, e)
				}
			}
			for e := range before {
				if !after[e] {
					removed = append(removed, e)
				}
			}
			sort.Strings(added)
			sort.Strings(removed)
			switch {
			case isUndo:
			case len(added) > 0 && len(removed) == 0:
				undo = append(undo, vC18Op{"removebatch", added})
			case len(removed) > 0 && len(added) == 0:
				undo = append(undo, vC18Op{"setbatch", removed})
			}
		}
		parts = append(parts, fmt.Sprintf("SMut (%s) %s %s", op.coq(), vC18List(snap.exact), vC18List(snap.wild)))
		desc = append(desc, []any{"mutate", op.Kind, op.Keys, "snapshot", ok, snap.version, "takes back the previous change", isUndo})
		return ok
	}
	persistNow := func(i int) {
		snap := pending[i]
		pending = append(pending[:i:i], pending[i+1:]...)
		b.persist(snap)
		parts = append(parts, fmt.Sprintf("SPersist %d", i))
		desc = append(desc, []any{"persist", i, "version", snap.version})
	}
	if forced {
		// something on disk first; then a change and the call that takes it back — the newest
		// snapshot has the content of the file; then every persist() in flight, newest first
		for try := 0; try < 20 && len(pending) == 0; try++ {
			mutate(vC18RandOp(r, pool), false)
		}
		for len(pending) > 0 {
			persistNow(0)
		}
		undo = nil
		swapped := false
		if swap {
			// one form of a listed domain goes, the other form comes
			var listed []string
			for e := range entries() {
				if vC18Twin(e) != "" {
					listed = append(listed, e)
				}
			}
			sort.Strings(listed)
			if len(listed) > 0 {
				e := listed[r.Intn(len(listed))]
				if mutate(vC18Op{"remove", []string{e}}, false) {
					swapped = mutate(vC18Op{"set", []string{vC18Twin(e)}}, false)
				}
			}
			undo = nil
		}
		for try := 0; !swapped && try < 20 && len(undo) == 0; try++ {
			mutate(vC18RandOp(r, pool), false)
		}
		if len(undo) > 0 {
			mutate(undo[len(undo)-1], true)
			undo = undo[:len(undo)-1]
		}
		if r.Intn(2) == 0 {
			mutate(vC18RandOp(r, pool), false)
		}
		done = nmut
	}
	for done < nmut || len(pending) > 0 {
		if done < nmut && (len(pending) == 0 || r.Intn(2) == 0) {
			done++
			if len(undo) > 0 && r.Intn(3) == 0 {
				op := undo[len(undo)-1]
				undo = undo[:len(undo)-1]
				mutate(op, true)
				continue
			}
			mutate(vC18RandOp(r, pool), false)
			continue
		}
		if len(pending) >= 2 && (forced || r.Intn(2) == 0) {
			// several persist() calls in flight at once: the driver holds saveMu, starts them one
			// after the other in a chosen order (newest first as often as not) — each has passed
			// whatever persist() does before taking saveMu and waits at the lock — then lets go.
			// sync.Mutex hands over in arrival order, so that is the order they run in (and if it
			// is not, every order must give the same file).
			k := 2 + r.Intn(len(pending)-1)
			newestFirst := r.Intn(2) == 0
			if forced {
				k, newestFirst = len(pending), true
			}
			b.saveMu.Lock()
			w0, canSee := vC18MutexWaiters(&b.saveMu)
			var wg sync.WaitGroup
			for j := 0; j < k; j++ {
				i := r.Intn(len(pending))
				if newestFirst {
					i = len(pending) - 1
				}
				snap := pending[i]
				pending = append(pending[:i:i], pending[i+1:]...)
				wg.Add(1)
				go func() { defer wg.Done(); b.persist(snap) }()
				// until it is queued at the lock (or, with a persist() that does not get that far, a moment)
				for spins := 0; spins < 4000; spins++ {
					if n, ok := vC18MutexWaiters(&b.saveMu); canSee && ok && n >= w0+j+1 {
						break
					}
					time.Sleep(50 * time.Microsecond)
				}
				parts = append(parts, fmt.Sprintf("SPersist %d", i))
				desc = append(desc, []any{"persist queued behind the gate", i, "version", snap.version})
			}
			b.saveMu.Unlock()
			wg.Wait()
			desc = append(desc, "gate opened, queued persists ran")
			continue
		}
		i := r.Intn(len(pending))
		if r.Intn(3) == 0 {
			i = len(pending) - 1 // newest first: the older ones must then be dropped
		}
		persistNow(i)
	}
	m1, wild1, _ := vC18Dump(b)
	present, file := vC18ReadLocal(dir)
	kind := "sched"
	if forced {
		kind = "sched-fixed"
	}
	out.emit(kind, fmt.Sprintf("CaseSched %s %s %s [%s] %s %s %s", vC18List(m0), vC18List(wild0), vC18List(w), strings.Join(parts, "; "),
		vC18List(m1), vC18List(wild1), vC18OptStr(present, file)),
		map[string]any{"w": w, "steps": desc, "m1": m1, "wild1": wild1, "file_present": present, "file": file}, present, "", "")
}

// hosts-format and plain-domain list files as a downloaded list would look, next to `local`
func vC18CaseParse(t *testing.T, r *rand.Rand, out *vC18Out) {
	dir := vC18Dir(t)
	var whitelist []string
	if r.Intn(3) == 0 {
		whitelist = []string{vC18Spell(r, vC18Name(r))}
	}
	genFile := func() string {
		var sb strings.Builder
		n := 1 + r.Intn(7)
		for i := 0; i < n; i++ {
			nm := func() string {
				x := vC18Spell(r, vC18Name(r))
				if r.Intn(6) == 0 {
					x = "*." + x
				}
				return x
			}
			var line string
			switch r.Intn(14) {
			case 0:
				line = nm()
			case 1:
				line = "0.0.0.0 " + nm()
			case 2:
				line = "127.0.0.1\t" + nm() + " " + nm() + "  " + nm()
			case 3:
				line = nm() + " # comment " + nm()
			case 4:
				line = "0.0.0.0 " + nm() + " #" + nm()
			case 5:
				line = "# " + nm()
			case 6:
				line = ""
			case 7:
				line = "   \t "
			case 8:
				line = "\t" + nm() + "\t"
			case 9:
				line = "0.0.0.0 " + nm() + " #" + nm() + " " + nm()
			case 10:
				line = nm() + "#" + nm()
			case 11:
				line = "  :: " + nm() + " " + nm()
			case 12:
				line = nm() + " " + nm()
			default:
				line = "0.0.0.0 " + nm() + " " + nm()
			}
			if r.Intn(8) == 0 {
				line += "\r"
			}
			sb.WriteString(line)
			if i < n-1 || r.Intn(4) > 0 {
				sb.WriteString("\n")
			}
		}
		return sb.String()
	}
	names := []string{"ads.list", "zz-hosts.txt"}
	if r.Intn(2) == 0 {
		names = names[:1]
	}
	var files []string
	for _, nme := range names {
		c := genFile()
		if err := os.WriteFile(filepath.Join(dir, nme), []byte(c), 0o644); err != nil {
			t.Fatal(err)
		}
		files = append(files, c)
	}
	cfg := vC18Cfg(r, dir)
	cfg.Whitelist = whitelist
	var cfgBlock []string
	if r.Intn(3) == 0 {
		cfgBlock = []string{vC18Spell(r, vC18Name(r))}
		cfg.Blocklist = cfgBlock
	}
	b := New(cfg)
	m, wild, w := vC18Dump(b)
	out.emit("parse-hosts", fmt.Sprintf("CaseReload %s %s %s %s %s %s %s %s", vC18List(whitelist), vC18List(cfgBlock), vC18List(files),
		vC18List(m), vC18List(wild), vC18List(m), vC18List(wild), vC18List(w)),
		map[string]any{"whitelist": whitelist, "blocklist": cfgBlock, "files": files, "loaded_m": m, "loaded_wild": wild}, len(m)+len(wild) > 0, "", "")
}

// the snapshot counter (BlockList.version), read by reflection so that the driver still
// builds when the field changes its type (plain integer or sync/atomic value)
func vC18Version(b *BlockList) (uint64, bool) {
	b.mu.RLock()
	defer b.mu.RUnlock()
	f := reflect.ValueOf(b).Elem().FieldByName("version")
	if !f.IsValid() {
		return 0, false
	}
	switch f.Kind() {
	case reflect.Uint, reflect.Uint32, reflect.Uint64:
		return f.Uint(), true
	case reflect.Int, reflect.Int32, reflect.Int64:
		return uint64(f.Int()), true
	case reflect.Struct:
		if v := f.FieldByName("v"); v.IsValid() {
			switch v.Kind() {
			case reflect.Uint32, reflect.Uint64:
				return v.Uint(), true
			case reflect.Int32, reflect.Int64:
				return uint64(v.Int()), true
			}
		}
	}
	return 0, false
}

// gated schedules with the REAL API methods: the driver holds saveMu, so every
// call that has something to save stops at the door of persist() after its
// mutation; calls that change nothing (Remove of an absent name, Set / SetBatch of
// whitelisted names, RemoveBatch of absent names) run to completion in between.
// When the gate opens the queued persists run in whatever order the mutex grants.
// Mutations are serialized by the driver (a reference list applied in the same
// order tells when a call's mutation has landed), so the final memory is known;
// the file must be that memory.
func vC18CaseGated(t *testing.T, r *rand.Rand, out *vC18Out) {
	dir := vC18Dir(t)
	cfg := vC18Cfg(r, dir)
	pool := vC18KeyPool(r, "", false)
	cfg.Whitelist = vC18Whitelist(r, pool)
	if len(cfg.Whitelist) == 0 && r.Intn(2) == 0 {
		cfg.Whitelist = []string{strings.TrimPrefix(pool[r.Intn(len(pool))], "*.")}
	}
	b := vC18NewQuiet(cfg)
	ref := vC18NewQuiet(&config.Config{BlockListDir: vC18Dir(t), Whitelist: cfg.Whitelist})
	m0, wild0, w := vC18Dump(b)
	same := func(x *BlockList, y *BlockList) bool {
		xm, xw, _ := vC18Dump(x)
		ym, yw, _ := vC18Dump(y)
		return fmt.Sprintf("%q %q", xm, xw) == fmt.Sprintf("%q %q", ym, yw)
	}
	// a call that is certain to change nothing
	noop := func() vC18Op {
		absent := "absent-" + vC18Name(r)
		switch r.Intn(7) {
		case 4: // a key setLocked refuses (it could not survive the hosts-format file)
			return vC18Op{"set", []string{[]string{"a#b.", "a b.", "#", "x\ty."}[r.Intn(4)] + absent}}
		case 5:
			return vC18Op{"setbatch", []string{"one two." + absent, "*.c#d." + absent}}
		case 6: // empty batches
			if r.Intn(2) == 0 {
				return vC18Op{"setbatch", []string{}}
			}
			return vC18Op{"removebatch", []string{}}
		case 0:
			return vC18Op{"remove", []string{absent}}
		case 1:
			return vC18Op{"removebatch", []string{absent, "*." + absent}}
		case 2:
			if len(cfg.Whitelist) > 0 {
				return vC18Op{"set", []string{"x." + cfg.Whitelist[0]}}
			}
			return vC18Op{"remove", []string{"*." + absent}}
		default:
			if len(cfg.Whitelist) > 0 {
				return vC18Op{"setbatch", []string{cfg.Whitelist[0], "*.y." + cfg.Whitelist[0]}}
			}
			return vC18Op{"removebatch", []string{absent}}
		}
	}
	var parts []string
	var desc []any
	anyOK := false
	goFail := ""
	rounds := 2 + r.Intn(3)
	for round := 0; round < rounds; round++ {
		b.saveMu.Lock() // gate closed
		var waiting []chan int
		var rets []int
		ncalls := 2 + r.Intn(5)
		for i := 0; i < ncalls; i++ {
			var op vC18Op
			if r.Intn(5) < 2 {
				op = noop()
			} else {
				op = vC18RandOp(r, pool)
			}
			bm0, bw0, _ := vC18Dump(ref)
			ret := op.apply(ref) // the reference list tells what the call does
			bm1, bw1, _ := vC18Dump(ref)
			changed := fmt.Sprintf("%q %q", bm0, bw0) != fmt.Sprintf("%q %q", bm1, bw1)
			version := func() uint64 {
				v, _ := vC18Version(b)
				return v
			}
			if _, ok := vC18Version(b); ret > 0 && !changed && !ok {
				// no snapshot counter to watch: a duplicate's progress cannot be observed, take another call
				if i < 50 {
					ncalls++
				}
				continue
			}
			v0 := version()
			done := make(chan int, 1)
			go func(op vC18Op) { done <- op.apply(b) }(op)
			got := -1
			if ret > 0 && !changed {
				// a duplicate: succeeds without changing memory (Set of a present key, a batch of
				// present keys). The code takes a snapshot for it all the same; the version counter
				// tells when it has (the call is then queued at the gate) — unless the call simply
				// returns, which is as good.
				returned := false
				for spins := 0; version() == v0 && !returned; spins++ {
					select {
					case got = <-done:
						returned = true
					default:
						time.Sleep(50 * time.Microsecond)
					}
					if spins > 400000 {
						b.saveMu.Unlock()
						t.Fatalf("duplicate call %v neither returned nor took a snapshot", op)
					}
				}
				if returned {
					if got != ret {
						goFail = fmt.Sprintf("%v returned %d on the list under the gate, %d on the reference list", op, got, ret)
					}
				} else {
					waiting = append(waiting, done)
					rets = append(rets, ret)
				}
				anyOK = true
				parts = append(parts, fmt.Sprintf("(%s, %d%%N)", op.coq(), ret))
				desc = append(desc, []any{op.Kind, op.Keys, "returns", ret, "duplicate, queued_at_gate", !returned})
				continue
			}
			if ret == 0 {
				// nothing to save: must return although the gate is closed
				select {
				case got = <-done:
				case <-time.After(20 * time.Second):
					b.saveMu.Unlock()
					t.Fatalf("a call that changes nothing blocks on saveMu: %v", op)
				}
			} else {
				// wait until the mutation has landed (the call is now queued at the gate, or, if the
				// code under test decided not to save, finished)
				for spins := 0; !same(b, ref); spins++ {
					time.Sleep(50 * time.Microsecond)
					if spins > 400000 {
						b.saveMu.Unlock()
						xm, xw, _ := vC18Dump(b)
						ym, yw, _ := vC18Dump(ref)
						t.Fatalf("mutation of %v never became visible: list %v %v reference %v %v", op, xm, xw, ym, yw)
					}
				}
				waiting = append(waiting, done)
				rets = append(rets, ret)
				anyOK = true
			}
			if ret == 0 && got != 0 {
				goFail = fmt.Sprintf("%v returned %d on the list under the gate, %d on the reference list", op, got, ret)
			}
			parts = append(parts, fmt.Sprintf("(%s, %d%%N)", op.coq(), ret))
			desc = append(desc, []any{op.Kind, op.Keys, "returns", ret, "queued_at_gate", ret > 0})
		}
		b.saveMu.Unlock() // gate open: the queued persists run
		for i, d := range waiting {
			if got := <-d; got != rets[i] {
				goFail = fmt.Sprintf("queued call returned %d, reference %d", got, rets[i])
			}
		}
		desc = append(desc, "gate opened, all calls returned")
	}
	m1, wild1, _ := vC18Dump(b)
	present, file := vC18ReadLocal(dir)
	vC18ServeProbes(r, out, b, cfg, append(append([]string{}, pool...), cfg.Whitelist...), 1+r.Intn(2), "serve-after-history")
	out.emit("gated", fmt.Sprintf("CaseHistory %s %s %s [%s] %s %s %s", vC18List(m0), vC18List(wild0), vC18List(w), strings.Join(parts, "; "),
		vC18List(m1), vC18List(wild1), vC18OptStr(present, file)),
		map[string]any{"w": w, "calls": desc, "m1": m1, "wild1": wild1, "file_present": present, "file": file}, anyOK, goFail, "")
}

// the background refresh (refreshRemote: one second after New it parses the freshly
// downloaded lists into the live list) landing between an API call's mutation and its
// persist(). Forced, not raced: the driver holds saveMu, lets the real call mutate and
// queue at persist(), THEN starts the real refreshRemote and waits for it, then opens
// the gate. Scenarios run side by side because each contains the code's own 1 s timer.

type vC18RefreshScn struct {
	cfg      *config.Config
	refDir   string
	keys     []string
	op       vC18Op
	m0, w0   []string
	wl       []string
	file0    string
	present0 bool
	download string // content of a freshly "downloaded" list placed in the directory before the refresh, "" for none
	ret      int
	m1, w1   []string
	present1 bool
	file1    string
	err      string
}

func vC18CaseRefresh(t *testing.T, r *rand.Rand, out *vC18Out, count int) {
	scns := make([]*vC18RefreshScn, count)
	for i := range scns {
		sc := &vC18RefreshScn{}
		dir := vC18Dir(t)
		sc.refDir = vC18Dir(t)
		pool := vC18KeyPool(r, "", false)
		sc.cfg = vC18Cfg(r, dir)
		sc.cfg.Whitelist = vC18Whitelist(r, pool)
		for j := 0; j < 2+r.Intn(3); j++ {
			sc.keys = append(sc.keys, pool[r.Intn(len(pool))])
		}
		x := r.Intn(10)
		if i%2 == 0 {
			x = r.Intn(6) // every other scenario removes something that is in the file
		}
		switch {
		case x < 4:
			sc.op = vC18Op{"remove", []string{vC18Spell(r, sc.keys[r.Intn(len(sc.keys))])}}
		case x < 6:
			sc.op = vC18Op{"removebatch", []string{sc.keys[0], "absent-" + vC18Name(r)}}
		case x < 8:
			sc.op = vC18Op{"set", []string{"fresh-" + vC18Name(r)}}
		case x < 9:
			sc.op = vC18Op{"remove", []string{"absent-" + vC18Name(r)}}
		default:
			sc.op = vC18RandOp(r, pool)
		}
		if r.Intn(3) == 0 {
			// a remote list has just been fetched: hosts syntax, fresh names, now and then the
			// very name the call removes (it then comes back, from the remote list, by design)
			var sb strings.Builder
			for j := 0; j < 1+r.Intn(3); j++ {
				sb.WriteString("0.0.0.0 remote-" + vC18Name(r) + "\n")
			}
			if r.Intn(3) == 0 {
				sb.WriteString(sc.keys[0] + " # also listed remotely\n")
			}
			sc.download = sb.String()
		}
		scns[i] = sc
	}
	var wg sync.WaitGroup
	for _, sc := range scns {
		wg.Add(1)
		go func(sc *vC18RefreshScn) {
			defer wg.Done()
			b := vC18NewQuiet(sc.cfg)
			ref := vC18NewQuiet(&config.Config{BlockListDir: sc.refDir, Whitelist: sc.cfg.Whitelist})
			b.SetBatch(sc.keys)
			ref.SetBatch(sc.keys)
			sc.m0, sc.w0, sc.wl = vC18Dump(b)
			sc.present0, sc.file0 = vC18ReadLocal(sc.cfg.BlockListDir)
			sc.ret = sc.op.apply(ref)
			rm, rw, _ := vC18Dump(ref)
			want := fmt.Sprintf("%q %q", rm, rw)
			changed := want != fmt.Sprintf("%q %q", sc.m0, sc.w0)
			if sc.ret > 0 && !changed {
				sc.err = "skip" // success without a visible change: progress not observable
				return
			}
			b.saveMu.Lock()
			done := make(chan int, 1)
			go func() { done <- sc.op.apply(b) }()
			if sc.ret == 0 {
				select {
				case <-done:
				case <-time.After(30 * time.Second):
					sc.err = "a call that changes nothing blocks on saveMu"
					b.saveMu.Unlock()
					return
				}
			} else {
				for spins := 0; ; spins++ {
					xm, xw, _ := vC18Dump(b)
					if fmt.Sprintf("%q %q", xm, xw) == want {
						break
					}
					time.Sleep(100 * time.Microsecond)
					if spins > 300000 {
						sc.err = "mutation never became visible"
						b.saveMu.Unlock()
						return
					}
				}
			}
			if sc.download != "" {
				if err := os.WriteFile(filepath.Join(sc.cfg.BlockListDir, "remote.example-0a1b2c.1.tmp"), []byte(sc.download), 0o644); err != nil {
					sc.err = err.Error()
					b.saveMu.Unlock()
					return
				}
			}
			b.refreshRemote() // sleeps its second, then reads what was downloaded
			b.saveMu.Unlock()
			if sc.ret > 0 {
				<-done
			}
			sc.m1, sc.w1, _ = vC18Dump(b)
			sc.present1, sc.file1 = vC18ReadLocal(sc.cfg.BlockListDir)
		}(sc)
	}
	wg.Wait()
	for _, sc := range scns {
		if sc.err == "skip" {
			continue
		}
		if sc.err != "" {
			t.Fatalf("refresh scenario: %s (%v)", sc.err, sc.op)
		}
		k := "refresh-noop"
		if sc.ret > 0 {
			k = "refresh-after-" + sc.op.Kind
		}
		dl := []string{}
		if sc.download != "" {
			dl = []string{sc.download}
			k += "-with-download"
		}
		out.emit(k, fmt.Sprintf("CaseRefresh %s %s %s %s %s (%s) %d%%N %s %s %s", vC18List(sc.m0), vC18List(sc.w0), vC18List(sc.wl),
			vC18OptStr(sc.present0, sc.file0), vC18List(dl), sc.op.coq(), sc.ret, vC18List(sc.m1), vC18List(sc.w1), vC18OptStr(sc.present1, sc.file1)),
			map[string]any{"memory_before": sc.m0, "wild_before": sc.w0, "whitelist": sc.wl, "file_before": sc.file0, "downloaded_list": sc.download,
				"call": []any{sc.op.Kind, sc.op.Keys, "returns", sc.ret}, "schedule": "mutation; refreshRemote; persist",
				"memory_after": sc.m1, "wild_after": sc.w1, "file_after": sc.file1}, sc.ret > 0, "", "")
	}
}

// ---------------------------------------------------------------- scripted scenarios
//
// A script is a fixed scenario on one list: API calls, queries, the gate on saveMu,
// refreshes with or without a downloaded list, a reload. corpus/C18/*.json holds the
// minimal inputs of every finding and of every seeded change the check caught; they
// are replayed first on every run. The random "refresh histories" are scripts too.

type vC18Step struct {
	Do       string   `json:"do"` // set remove setbatch removebatch | exists serve | gate-close gate-open | refresh | reload
	Keys     []string `json:"keys,omitempty"`
	Q        string   `json:"q,omitempty"`
	Qtype    uint16   `json:"qtype,omitempty"`
	Wire     bool     `json:"wire,omitempty"`
	Download string   `json:"download,omitempty"`
	// how the list reaches the directory: "" = the file lies there already; "http" = the real
	// download (fetchBlocklist / downloadBlocklist) from a local server; "http-500" = the
	// server answers 500 with the list as body; "http-cut" = the server announces the full
	// length and hangs up in the middle of a line. A failed download must add nothing.
	Via string `json:"via,omitempty"`
}

type vC18CrashSpec struct {
	Old   []string `json:"old"`
	Op    vC18Op   `json:"op"`
	Limit int      `json:"limit"` // bytes; negative: that many bytes before the end of the new file
	Kill  bool     `json:"kill"`
	Fault string   `json:"fault,omitempty"` // create | sync | close | rename: that step of persist() returns an error (Limit, Kill unused)
}

type vC18Script struct {
	Name      string         `json:"name"`
	Why       string         `json:"why,omitempty"`
	Whitelist []string       `json:"whitelist,omitempty"`
	Blocklist []string       `json:"blocklist,omitempty"`
	Steps     []vC18Step     `json:"steps,omitempty"`
	Crash     *vC18CrashSpec `json:"crash,omitempty"`
}

type vC18Rec struct {
	k, coq     string
	desc       any
	nontrivial bool
	goFail     string
}

func (sc *vC18Script) slow() bool {
	for _, st := range sc.Steps {
		if st.Do == "refresh" {
			return true
		}
	}
	return false
}

// run one script; dirs are handed in because vC18Dir is not safe to call from several goroutines
func vC18RunScript(sc *vC18Script, dir, refDir string, kprefix string) (recs []vC18Rec, fatal string) {
	cfg := &config.Config{Nullroute: "0.0.0.0", Nullroutev6: "::0", BlockListDir: dir, Whitelist: sc.Whitelist, Blocklist: sc.Blocklist}
	b := vC18NewQuiet(cfg)
	ref := vC18NewQuiet(&config.Config{BlockListDir: refDir, Whitelist: sc.Whitelist, Blocklist: sc.Blocklist})
	m0, wild0, w := vC18Dump(b)
	nr := vC18IPNum(net.ParseIP(cfg.Nullroute), true)
	nr6 := vC18IPNum(net.ParseIP(cfg.Nullroutev6), false)
	var parts []string // rhstep terms
	var hparts []string
	var desc []any
	refreshed := false
	dirty := false // remote entries in memory that no saving call has written yet
	gated := false
	anyOK := false
	goFail := ""
	var waiting []chan int
	var rets []int
	sig := func(x *BlockList) string {
		xm, xw, _ := vC18Dump(x)
		return fmt.Sprintf("%q %q", xm, xw)
	}
	for _, st := range sc.Steps {
		switch st.Do {
		case "set", "remove", "setbatch", "removebatch":
			op := vC18Op{st.Do, st.Keys}
			before := sig(ref)
			ret := op.apply(ref)
			if !gated {
				if got := op.apply(b); got != ret {
					goFail = fmt.Sprintf("%v returned %d, reference list %d", op, got, ret)
				}
			} else {
				done := make(chan int, 1)
				go func() { done <- op.apply(b) }()
				switch {
				case ret == 0:
					select {
					case got := <-done:
						if got != 0 {
							goFail = fmt.Sprintf("%v returned %d under the gate, reference list 0", op, got)
						}
					case <-time.After(30 * time.Second):
						b.saveMu.Unlock()
						return nil, fmt.Sprintf("a call that changes nothing blocks on saveMu: %v", op)
					}
				case sig(ref) == before:
					b.saveMu.Unlock()
					return nil, fmt.Sprintf("script %s: %v succeeds without changing memory; not usable under the gate", sc.Name, op)
				default:
					for spins := 0; sig(b) != sig(ref); spins++ {
						time.Sleep(100 * time.Microsecond)
						if spins > 300000 {
							b.saveMu.Unlock()
							return nil, fmt.Sprintf("mutation of %v never became visible", op)
						}
					}
					waiting = append(waiting, done)
					rets = append(rets, ret)
				}
			}
			if ret > 0 {
				anyOK = true
				dirty = false // a saving call writes the whole memory, remote entries included
			}
			parts = append(parts, fmt.Sprintf("RHOp (%s) %d%%N", op.coq(), ret))
			hparts = append(hparts, fmt.Sprintf("(%s, %d%%N)", op.coq(), ret))
			desc = append(desc, []any{st.Do, st.Keys, "returns", ret})
		case "gate-close":
			b.saveMu.Lock()
			gated = true
			desc = append(desc, "saveMu held by the driver")
		case "gate-open":
			b.saveMu.Unlock()
			gated = false
			for i, d := range waiting {
				if got := <-d; got != rets[i] {
					goFail = fmt.Sprintf("queued call returned %d, reference %d", got, rets[i])
				}
			}
			waiting, rets = nil, nil
			desc = append(desc, "saveMu released, queued calls returned")
		case "refresh":
			dl := []string{}
			var srv *httptest.Server
			switch {
			case st.Via != "":
				body, via := st.Download, st.Via
				srv = httptest.NewServer(http.HandlerFunc(func(rw http.ResponseWriter, _ *http.Request) {
					switch via {
					case "http-500":
						rw.WriteHeader(http.StatusInternalServerError)
						_, _ = rw.Write([]byte(body))
					case "http-cut":
						rw.Header().Set("Content-Length", strconv.Itoa(len(body)))
						cut := len(body) - 3
						if cut < 0 {
							cut = 0
						}
						_, _ = rw.Write([]byte(body[:cut])) // returning short of Content-Length makes the server hang up
					default:
						_, _ = rw.Write([]byte(body))
					}
				}))
				b.cfg.BlockLists = []string{srv.URL + "/list.txt"}
				ref.cfg.BlockLists = []string{srv.URL + "/list.txt"}
				if via == "http" && st.Download != "" {
					dl = []string{st.Download}
				}
			case st.Download != "":
				if err := os.WriteFile(filepath.Join(dir, "remote.example-0a1b2c.1.tmp"), []byte(st.Download), 0o644); err != nil {
					return nil, err.Error()
				}
				_ = os.WriteFile(filepath.Join(refDir, "remote.example-0a1b2c.1.tmp"), []byte(st.Download), 0o644)
				dl = []string{st.Download}
			}
			beforeRefresh := sig(b)
			refDone := make(chan struct{})
			go func() { ref.refreshRemote(); close(refDone) }()
			b.refreshRemote()
			<-refDone
			if len(dl) == 0 && sig(b) != beforeRefresh {
				// nothing was downloaded completely: a 500 body or a list cut short (its last line
				// possibly a shorter, broader name) must not reach the list
				goFail = fmt.Sprintf("a refresh whose download failed (%q) changed the list: before %s, after %s", st.Via, beforeRefresh, sig(b))
			}
			if srv != nil {
				srv.Close()
				b.cfg.BlockLists, ref.cfg.BlockLists = nil, nil
			}
			refreshed = true
			if len(dl) > 0 {
				dirty = true
			}
			if left, _ := filepath.Glob(filepath.Join(dir, "*.tmp")); len(left) > 0 {
				goFail = fmt.Sprintf("download file(s) %q left in the directory after the refresh", left)
			}
			parts = append(parts, fmt.Sprintf("RHRefresh %s", vC18List(dl)))
			desc = append(desc, []any{"refreshRemote", "list", st.Download, "via", st.Via, "parsed", len(dl) > 0})
		case "exists":
			m, wild, _ := vC18Dump(b)
			got := b.Exists(st.Q)
			gf := ""
			if want, ok := vC18Ref(m, wild, w, st.Q); ok && want != got {
				gf = fmt.Sprintf("Exists(%q) = %v, whole-label reference matcher says %v", st.Q, got, want)
			}
			recs = append(recs, vC18Rec{kprefix + "exists", fmt.Sprintf("CaseExists %s %s %s [(%s, %v)]", vC18List(m), vC18List(wild), vC18List(w), vC18Str(st.Q), got),
				map[string]any{"script": sc.Name, "m": m, "wild": wild, "w": w, "exists": []any{st.Q, got}}, true, gf})
		case "serve":
			m, wild, _ := vC18Dump(b)
			o, d, seen := vC18Serve(b, dns.Fqdn(st.Q), st.Qtype, st.Wire)
			if o == "" {
				continue
			}
			d["m"], d["wild"], d["w"], d["script"] = m, wild, w, sc.Name
			gf := ""
			if want, ok := vC18Ref(m, wild, w, seen); ok && want != strings.HasPrefix(o, "OReply") {
				gf = fmt.Sprintf("query %q: reference matcher says blocked=%v, handler outcome %s", seen, want, o)
			}
			recs = append(recs, vC18Rec{kprefix + "serve", fmt.Sprintf("CaseServe %s %s %s %s%%N %s%%N %s %d%%N (%s)", vC18List(m), vC18List(wild), vC18List(w), nr, nr6, vC18Str(seen), st.Qtype, o), d, true, gf})
			if !gated && !refreshed && len(hparts) > 0 && vC18ASCII(seen) {
				// the same reply judged by the list the calls so far have acknowledged (no memory dump)
				recs = append(recs, vC18Rec{kprefix + "listed", fmt.Sprintf("CaseListed %s %s %s [%s] %s%%N %s%%N [(%s, %d%%N, %s)]", vC18List(m0), vC18List(wild0), vC18List(w),
					strings.Join(hparts, "; "), nr, nr6, vC18Str(seen), st.Qtype, o),
					map[string]any{"script": sc.Name, "m0": m0, "wild0": wild0, "w": w, "steps": append([]any{}, desc...), "probe": d}, true, ""})
			}
		case "reload":
			present, file := vC18ReadLocal(dir)
			if !present || len(sc.Blocklist) > 0 || dirty {
				continue
			}
			m, wild, _ := vC18Dump(b)
			nb := New(&config.Config{Nullroute: "0.0.0.0", Nullroutev6: "::0", BlockListDir: dir, Whitelist: sc.Whitelist})
			rm, rwild, rw := vC18Dump(nb)
			if left, _ := filepath.Glob(filepath.Join(dir, "local.tmp.*")); len(left) > 0 {
				goFail = "temp file of a persist survives the restart"
			}
			recs = append(recs, vC18Rec{kprefix + "reload", fmt.Sprintf("CaseReload %s [] [%s] %s %s %s %s %s", vC18List(sc.Whitelist), vC18Str(file), vC18List(m), vC18List(wild),
				vC18List(rm), vC18List(rwild), vC18List(rw)),
				map[string]any{"script": sc.Name, "whitelist": sc.Whitelist, "file": file, "memory_m": m, "memory_wild": wild, "reloaded_m": rm, "reloaded_wild": rwild, "reloaded_w": rw}, true, ""})
		default:
			return nil, "script " + sc.Name + ": unknown step " + st.Do
		}
	}
	if gated {
		b.saveMu.Unlock()
		for _, d := range waiting {
			<-d
		}
	}
	m1, wild1, _ := vC18Dump(b)
	present, file := vC18ReadLocal(dir)
	d := map[string]any{"script": sc.Name, "why": sc.Why, "whitelist": sc.Whitelist, "blocklist": sc.Blocklist, "steps": desc, "m1": m1, "wild1": wild1, "file_present": present, "file": file}
	if len(hparts) > 0 {
		if refreshed {
			recs = append(recs, vC18Rec{kprefix + "refresh-history", fmt.Sprintf("CaseRHistory %s %s %s [%s] %s %s %s", vC18List(m0), vC18List(wild0), vC18List(w), strings.Join(parts, "; "),
				vC18List(m1), vC18List(wild1), vC18OptStr(present, file)), d, anyOK, goFail})
		} else {
			recs = append(recs, vC18Rec{kprefix + "history", fmt.Sprintf("CaseHistory %s %s %s [%s] %s %s %s", vC18List(m0), vC18List(wild0), vC18List(w), strings.Join(hparts, "; "),
				vC18List(m1), vC18List(wild1), vC18OptStr(present, file)), d, anyOK, goFail})
		}
	}
	return recs, ""
}

// run scripts; the ones that contain a refresh (1 s timer each) side by side
func vC18RunScripts(t *testing.T, out *vC18Out, scripts []*vC18Script, kprefix string) {
	type res struct {
		recs  []vC18Rec
		fatal string
	}
	results := make([]res, len(scripts))
	dirs := make([][2]string, len(scripts))
	for i := range scripts {
		dirs[i] = [2]string{vC18Dir(t), vC18Dir(t)}
	}
	var wg sync.WaitGroup
	for i, sc := range scripts {
		if sc.Crash != nil {
			continue
		}
		if sc.slow() {
			wg.Add(1)
			go func(i int, sc *vC18Script) {
				defer wg.Done()
				r, f := vC18RunScript(sc, dirs[i][0], dirs[i][1], kprefix)
				results[i] = res{r, f}
			}(i, sc)
		} else {
			r, f := vC18RunScript(sc, dirs[i][0], dirs[i][1], kprefix)
			results[i] = res{r, f}
		}
	}
	wg.Wait()
	for i, sc := range scripts {
		if sc.Crash != nil && sc.Crash.Fault != "" {
			vC18RunFault(t, out, kprefix, sc.Whitelist, sc.Crash.Old, sc.Crash.Op, sc.Crash.Fault, sc.Name)
			continue
		}
		if sc.Crash != nil {
			vC18RunCrash(t, out, kprefix, sc.Whitelist, sc.Crash.Old, sc.Crash.Op, sc.Crash.Limit, sc.Crash.Kill, sc.Name)
			continue
		}
		if results[i].fatal != "" {
			t.Fatalf("script %s: %s", sc.Name, results[i].fatal)
		}
		for _, rec := range results[i].recs {
			out.emit(rec.k, rec.coq, rec.desc, rec.nontrivial, rec.goFail, "")
		}
	}
}

func vC18LoadCorpus(t *testing.T) []*vC18Script {
	dir := os.Getenv("VERIF_CORPUS")
	if dir == "" {
		return nil
	}
	names, _ := filepath.Glob(filepath.Join(dir, "*.json"))
	sort.Strings(names)
	var out []*vC18Script
	for _, n := range names {
		data, err := os.ReadFile(n)
		if err != nil {
			t.Fatal(err)
		}
		sc := new(vC18Script)
		if err := json.Unmarshal(data, sc); err != nil {
			t.Fatalf("corpus file %s: %v", n, err)
		}
		if sc.Name == "" {
			sc.Name = filepath.Base(n)
		}
		out = append(out, sc)
	}
	return out
}

// random histories of API calls and refreshes that bring remote lists, some of which
// list the very names the calls remove
func vC18RandRefreshScripts(r *rand.Rand, count int) []*vC18Script {
	var out []*vC18Script
	for i := 0; i < count; i++ {
		pool := vC18KeyPool(r, "", false)
		sc := &vC18Script{Name: fmt.Sprintf("random-refresh-history-%d", i), Whitelist: vC18Whitelist(r, pool)}
		nref := 0
		for j := 0; j < 3+r.Intn(5); j++ {
			if nref < 2 && j > 0 && r.Intn(3) == 0 {
				var sb strings.Builder
				for k := 0; k < r.Intn(3); k++ {
					sb.WriteString("0.0.0.0 remote-" + vC18Name(r) + "\n")
				}
				for k := 0; k < r.Intn(3); k++ { // names the API also handles
					sb.WriteString(vC18Spell(r, pool[r.Intn(len(pool))]) + "\n")
				}
				sc.Steps = append(sc.Steps, vC18Step{Do: "refresh", Download: sb.String(), Via: []string{"", "http", "http", "http-500", "http-cut"}[r.Intn(5)]})
				nref++
				continue
			}
			op := vC18RandOp(r, pool)
			if len(op.Keys) == 0 {
				continue
			}
			sc.Steps = append(sc.Steps, vC18Step{Do: op.Kind, Keys: op.Keys})
			if r.Intn(4) == 0 {
				sc.Steps = append(sc.Steps, vC18Step{Do: "serve", Q: strings.TrimPrefix(vC18Spell(r, pool[r.Intn(len(pool))]), "*."), Qtype: vC18Qtypes[r.Intn(len(vC18Qtypes))], Wire: r.Intn(2) == 0})
			}
		}
		if nref == 0 {
			sc.Steps = append(sc.Steps, vC18Step{Do: "refresh", Download: vC18Spell(r, pool[0]) + "\n"})
		}
		sc.Steps = append(sc.Steps, vC18Step{Do: "reload"})
		out = append(out, sc)
	}
	return out
}

// ---------------------------------------------------------------- interruption

type vC18ChildSpec struct {
	Dir       string   `json:"dir"`
	Whitelist []string `json:"whitelist"`
	Op        vC18Op   `json:"op"`
	Limit     uint64   `json:"limit"`
	Kill      bool     `json:"kill"` // restore SIGXFSZ's default action (process dies) or leave it ignored (write fails with EFBIG)
	Fault     string   `json:"fault"` // "" or create | sync | close | rename: a system call filter makes that step fail with EIO
}

// ---- fault injection without a source hook: a seccomp filter installed in the child
// process (all threads) makes the system call behind one step of persist() return EIO.
// create: openat with O_EXCL (os.CreateTemp); sync: fsync/fdatasync; close: close;
// rename: rename/renameat/renameat2. Everything else runs normally.

type vC18SockFilter struct {
	code uint16
	jt   uint8
	jf   uint8
	k    uint32
}

type vC18SockFprog struct {
	n      uint16
	_      [6]byte
	filter *vC18SockFilter
}

var vC18FaultSteps = []string{"create", "sync", "close", "rename"}

func vC18FaultIndex(fault string) int {
	for i, f := range vC18FaultSteps {
		if f == fault {
			return i
		}
	}
	return -1
}

func vC18InstallFault(fault string) error {
	if runtime.GOARCH != "amd64" || runtime.GOOS != "linux" {
		return fmt.Errorf("fault injection needs linux/amd64")
	}
	const (
		ldAbs = 0x20
		jeq   = 0x15
		jset  = 0x45
		ret   = 0x06
		allow = 0x7fff0000
		eio   = 0x00050000 | 5
		oExcl = 0x80
	)
	var nrs []uint32
	switch fault {
	case "sync":
		nrs = []uint32{74, 75}
	case "close":
		nrs = []uint32{3}
	case "rename":
		nrs = []uint32{82, 264, 316}
	case "create":
	default:
		return fmt.Errorf("unknown fault %q", fault)
	}
	var f []vC18SockFilter
	f = append(f, vC18SockFilter{ldAbs, 0, 0, 4}) // seccomp_data.arch
	f = append(f, vC18SockFilter{jeq, 1, 0, 0xc000003e})
	f = append(f, vC18SockFilter{ret, 0, 0, allow})
	f = append(f, vC18SockFilter{ldAbs, 0, 0, 0}) // seccomp_data.nr
	if fault == "create" {
		f = append(f,
			vC18SockFilter{jeq, 1, 0, 257}, // openat
			vC18SockFilter{ret, 0, 0, allow},
			vC18SockFilter{ldAbs, 0, 0, 32}, // args[2], low word: flags
			vC18SockFilter{jset, 1, 0, oExcl},
			vC18SockFilter{ret, 0, 0, allow},
			vC18SockFilter{ret, 0, 0, eio})
	} else {
		for i, nr := range nrs {
			f = append(f, vC18SockFilter{jeq, uint8(len(nrs) - i), 0, nr}) // -> the eio return
		}
		f = append(f, vC18SockFilter{ret, 0, 0, allow}, vC18SockFilter{ret, 0, 0, eio})
	}
	prog := vC18SockFprog{n: uint16(len(f)), filter: &f[0]}
	runtime.LockOSThread()
	defer runtime.UnlockOSThread()
	if _, _, e := syscall.RawSyscall6(syscall.SYS_PRCTL, 38 /* PR_SET_NO_NEW_PRIVS */, 1, 0, 0, 0, 0); e != 0 {
		return fmt.Errorf("prctl: %v", e)
	}
	if _, _, e := syscall.RawSyscall(317 /* seccomp */, 1 /* SET_MODE_FILTER */, 1 /* TSYNC */, uintptr(unsafe.Pointer(&prog))); e != 0 {
		return fmt.Errorf("seccomp: %v", e)
	}
	runtime.KeepAlive(f)
	return nil
}

// does the filter bite? (a kernel without seccomp would silently run the plain scenario)
func vC18FaultActive(fault string) bool {
	var err error
	switch fault {
	case "sync":
		err = syscall.Fsync(-1)
	case "close":
		err = syscall.Close(-1)
	case "rename":
		err = syscall.Rename("", "")
	case "create":
		_, err = syscall.Open("", syscall.O_RDWR|syscall.O_CREAT|syscall.O_EXCL, 0o600)
	}
	return err == syscall.EIO
}

// TestVerifC18Child runs in a child process: production New over the directory,
// then one API call with the file size limit set so that the kernel kills the
// process (SIGXFSZ, default action) when the temp file reaches Limit bytes.
func TestVerifC18Child(t *testing.T) {
	raw := os.Getenv("VERIF_C18_CHILD")
	if raw == "" {
		t.Skip("not a child")
	}
	var spec vC18ChildSpec
	if err := json.Unmarshal([]byte(raw), &spec); err != nil {
		os.Exit(3)
	}
	cfg := new(config.Config)
	cfg.Nullroute, cfg.Nullroutev6 = "0.0.0.0", "::0"
	cfg.BlockListDir = spec.Dir
	cfg.Whitelist = spec.Whitelist
	b := New(cfg)
	// the Go runtime catches SIGXFSZ and ignores it; restore the default action
	type sigact struct {
		handler  uintptr
		flags    uint64
		restorer uintptr
		mask     uint64
	}
	var sa sigact
	if spec.Kill {
		if _, _, e := syscall.RawSyscall6(syscall.SYS_RT_SIGACTION, uintptr(syscall.SIGXFSZ), uintptr(unsafe.Pointer(&sa)), 0, 8, 0, 0); e != 0 {
			os.Exit(3)
		}
	}
	_ = syscall.Setrlimit(syscall.RLIMIT_CORE, &syscall.Rlimit{})
	if spec.Fault != "" {
		if err := vC18InstallFault(spec.Fault); err != nil || !vC18FaultActive(spec.Fault) {
			os.Exit(3)
		}
		spec.Op.apply(b)
		os.Exit(0)
	}
	if err := syscall.Setrlimit(syscall.RLIMIT_FSIZE, &syscall.Rlimit{Cur: spec.Limit, Max: spec.Limit}); err != nil {
		os.Exit(3)
	}
	spec.Op.apply(b)
	os.Exit(0)
}

// one interruption scenario with everything given: the previous list (written by the
// real code from oldKeys), the interrupted call, the size limit. limit < 0: that many
// bytes before the end of the new file. Returns false when the call changes nothing.
func vC18RunCrash(t *testing.T, out *vC18Out, kprefix string, whitelist, oldKeys []string, op vC18Op, limit int, kill bool, name string) bool {
	return vC18RunCrashWith(t, out, kprefix, whitelist, oldKeys, op, func(total int) int {
		if limit < 0 {
			if total+limit < 0 {
				return 0
			}
			return total + limit
		}
		return limit
	}, kill, name)
}

func vC18RunCrashWith(t *testing.T, out *vC18Out, kprefix string, whitelist, oldKeys []string, op vC18Op, limitFn func(total int) int, kill bool, name string) bool {
	dir := vC18Dir(t)
	cfg := &config.Config{Nullroute: "0.0.0.0", Nullroutev6: "::0", BlockListDir: dir, Whitelist: whitelist}
	b := vC18NewQuiet(cfg)
	if b.SetBatch(oldKeys) == 0 {
		return false
	}
	_, old := vC18ReadLocal(dir)
	// reference run on a copy of the directory, to know that the call changes
	// something and how long the new file is
	refDir := vC18Dir(t)
	if err := os.WriteFile(filepath.Join(refDir, "local"), []byte(old), 0o644); err != nil {
		t.Fatal(err)
	}
	ref := vC18NewQuiet(&config.Config{BlockListDir: refDir, Whitelist: whitelist})
	oldM, oldWild, _ := vC18Dump(ref)
	if op.apply(ref) == 0 {
		return false
	}
	newM, newWild, _ := vC18Dump(ref)
	_, nf := vC18ReadLocal(ref.cfg.BlockListDir)
	total := len(nf)
	limit := limitFn(total)
	spec := vC18ChildSpec{Dir: dir, Whitelist: whitelist, Op: op, Limit: uint64(limit), Kill: kill}
	raw, _ := json.Marshal(spec)
	cmd := exec.Command(os.Args[0], "-test.run", "^TestVerifC18Child$", "-test.count=1")
	cmd.Env = append(os.Environ(), "VERIF_C18_CHILD="+string(raw))
	err := cmd.Run()
	killed := false
	if ee, ok := err.(*exec.ExitError); ok {
		if ws, ok := ee.Sys().(syscall.WaitStatus); ok && ws.Signaled() && ws.Signal() == syscall.SIGXFSZ {
			killed = true
		} else {
			// could not set up the limit (exit 3) or died otherwise: infrastructure
			b, _ := json.Marshal(map[string]any{"k": "crash-setup", "inconclusive": true, "desc": fmt.Sprint(err)})
			out.f.Write(append(b, '\n'))
			return true
		}
	}
	present, local := vC18ReadLocal(dir)
	names, _ := filepath.Glob(filepath.Join(dir, "local.tmp.*"))
	sort.Strings(names)
	var temps []string
	for _, n := range names {
		data, _ := os.ReadFile(n)
		temps = append(temps, string(data))
	}
	nb := New(&config.Config{Nullroute: "0.0.0.0", Nullroutev6: "::0", BlockListDir: dir, Whitelist: whitelist})
	rm, rwild, _ := vC18Dump(nb)
	hl := len("# The file generated by auto. DO NOT EDIT\n")
	k := "crash-midwrite"
	if !killed {
		k = "crash-none"
	} else if limit <= hl {
		k = "crash-in-header"
	} else if len(temps) == 1 && strings.HasSuffix(temps[0], "\n") {
		k = "crash-at-line-end"
	}
	goFail := ""
	if left, _ := filepath.Glob(filepath.Join(dir, "local.tmp.*")); len(left) > 0 {
		goFail = fmt.Sprintf("%d temp file(s) of an interrupted persist survive the restart", len(left))
	}
	ctor := "CaseCrash"
	if !kill {
		// the process survived: the write failed with EFBIG and persist() had to clean up
		ctor = "CaseIoErr"
		k = "ioerr-write-fails"
		if limit >= total {
			k = "ioerr-none"
		}
	}
	out.emit(kprefix+k, fmt.Sprintf(ctor+" %s %s (%s) %d %s %s %s %s %s %s %s %s", vC18List(whitelist), vC18Str(old), op.coq(), limit,
		vC18OptStr(present, local), vC18List(temps), vC18List(rm), vC18List(rwild),
		vC18List(oldM), vC18List(oldWild), vC18List(newM), vC18List(newWild)),
		map[string]any{"script": name, "whitelist": whitelist, "old_file": old, "op": []any{op.Kind, op.Keys}, "limit": limit, "killed_by_SIGXFSZ": killed,
			"local_after": local, "temp_files_after": temps, "reloaded_m": rm, "reloaded_wild": rwild,
			"previous_m": oldM, "previous_wild": oldWild, "new_m": newM, "new_wild": newWild}, true, goFail, "")
	return true
}

// one fault scenario: the previous list (written by the real code from oldKeys), then in
// a child process production New over the directory and ONE API call during which the
// named step of persist() returns an error; afterwards the directory and a reload of it.
// Returns false when the call changes nothing.
func vC18RunFault(t *testing.T, out *vC18Out, kprefix string, whitelist, oldKeys []string, op vC18Op, fault string, name string) bool {
	which := vC18FaultIndex(fault)
	if which < 0 {
		t.Fatalf("unknown fault %q", fault)
	}
	dir := vC18Dir(t)
	cfg := &config.Config{Nullroute: "0.0.0.0", Nullroutev6: "::0", BlockListDir: dir, Whitelist: whitelist}
	b := vC18NewQuiet(cfg)
	if b.SetBatch(oldKeys) == 0 {
		return false
	}
	_, old := vC18ReadLocal(dir)
	refDir := vC18Dir(t)
	if err := os.WriteFile(filepath.Join(refDir, "local"), []byte(old), 0o644); err != nil {
		t.Fatal(err)
	}
	ref := vC18NewQuiet(&config.Config{BlockListDir: refDir, Whitelist: whitelist})
	oldM, oldWild, _ := vC18Dump(ref)
	if op.apply(ref) == 0 {
		return false
	}
	newM, newWild, _ := vC18Dump(ref)
	spec := vC18ChildSpec{Dir: dir, Whitelist: whitelist, Op: op, Fault: fault}
	raw, _ := json.Marshal(spec)
	cmd := exec.Command(os.Args[0], "-test.run", "^TestVerifC18Child$", "-test.count=1")
	cmd.Env = append(os.Environ(), "VERIF_C18_CHILD="+string(raw))
	if err := cmd.Run(); err != nil {
		// the filter could not be installed (exit 3) or the child died otherwise: infrastructure
		b, _ := json.Marshal(map[string]any{"k": "fault-setup", "inconclusive": true, "desc": fmt.Sprint(err)})
		out.f.Write(append(b, '\n'))
		return true
	}
	present, local := vC18ReadLocal(dir)
	names, _ := filepath.Glob(filepath.Join(dir, "local.tmp.*"))
	sort.Strings(names)
	temps := []string{}
	for _, n := range names {
		data, _ := os.ReadFile(n)
		temps = append(temps, string(data))
	}
	all, _ := os.ReadDir(dir)
	goFail := ""
	if len(all) != 1+len(names) || !present {
		var ls []string
		for _, e := range all {
			ls = append(ls, e.Name())
		}
		goFail = fmt.Sprintf("directory after the failed save holds %q, expected `local` (and at most temp files)", ls)
	}
	nb := New(&config.Config{Nullroute: "0.0.0.0", Nullroutev6: "::0", BlockListDir: dir, Whitelist: whitelist})
	rm, rwild, _ := vC18Dump(nb)
	out.emit(kprefix+"fault-"+fault, fmt.Sprintf("CaseFault %s %s (%s) %d %s %s %s %s %s %s %s %s", vC18List(whitelist), vC18Str(old), op.coq(), which,
		vC18OptStr(present, local), vC18List(temps), vC18List(rm), vC18List(rwild),
		vC18List(oldM), vC18List(oldWild), vC18List(newM), vC18List(newWild)),
		map[string]any{"script": name, "whitelist": whitelist, "old_file": old, "op": []any{op.Kind, op.Keys}, "failing_step": fault,
			"local_after": local, "local_present": present, "temp_files_after": temps, "reloaded_m": rm, "reloaded_wild": rwild,
			"previous_m": oldM, "previous_wild": oldWild, "new_m": newM, "new_wild": newWild}, true, goFail, "")
	return true
}

func vC18CaseFault(t *testing.T, r *rand.Rand, out *vC18Out) {
	pool := vC18KeyPool(r, "", false)
	whitelist := vC18Whitelist(r, pool)
	nold := 1 + r.Intn(4)
	var oldKeys []string
	for i := 0; i < nold; i++ {
		oldKeys = append(oldKeys, pool[r.Intn(len(pool))])
	}
	fault := vC18FaultSteps[r.Intn(len(vC18FaultSteps))]
	for try := 0; try < 20; try++ {
		op := vC18RandOp(r, pool)
		if len(op.Keys) == 0 {
			continue
		}
		if vC18RunFault(t, out, "", whitelist, oldKeys, op, fault, "") {
			return
		}
	}
}

func vC18CaseCrash(t *testing.T, r *rand.Rand, out *vC18Out, kill bool) {
	pool := vC18KeyPool(r, "", false)
	whitelist := vC18Whitelist(r, pool)
	nold := 1 + r.Intn(4)
	var oldKeys []string
	for i := 0; i < nold; i++ {
		oldKeys = append(oldKeys, pool[r.Intn(len(pool))])
	}
	hl := len("# The file generated by auto. DO NOT EDIT\n")
	for try := 0; try < 20; try++ {
		op := vC18RandOp(r, pool)
		if len(op.Keys) == 0 {
			continue
		}
		if vC18RunCrashWith(t, out, "", whitelist, oldKeys, op, func(total int) int {
			switch x := r.Intn(10); {
			case x == 0:
				return 0
			case x == 1:
				return total + r.Intn(3) // no interruption
			case x == 2:
				return r.Intn(hl + 1)
			}
			if total > hl {
				return hl + r.Intn(total-hl)
			}
			return r.Intn(total)
		}, kill, "") {
			return
		}
	}
}

// thorough tier only: small scopes exhaustively. One fixed previous list; for each kind of
// API call the interruption at EVERY byte offset of the new file (killed, and write error),
// and every named step of persist() failing.
func vC18Exhaustive(t *testing.T, out *vC18Out) {
	old := []string{"one.test.", "*.wild.test.", "sub.one.test."}
	ops := []vC18Op{
		{"set", []string{"Two.test"}},
		{"remove", []string{"*.wild.test"}},
		{"setbatch", []string{"*.three.test.", "four.test", "one.test"}},
		{"removebatch", []string{"sub.one.test.", "absent.test.", "one.test"}},
	}
	for _, op := range ops {
		for _, f := range vC18FaultSteps {
			vC18RunFault(t, out, "exhaustive-", nil, old, op, f, "exhaustive")
		}
		for limit := 0; limit < 120; limit++ {
			past := false
			for _, kill := range []bool{true, false} {
				lim := limit
				vC18RunCrashWith(t, out, "exhaustive-", nil, old, op, func(total int) int {
					if lim > total {
						past = true
					}
					return lim
				}, kill, "exhaustive")
			}
			if past {
				break
			}
		}
	}
}

// ---------------------------------------------------------------- entry point

func TestVerifC18(t *testing.T) {
	p := os.Getenv("VERIF_OUT")
	if p == "" {
		t.Skip("VERIF_OUT not set")
	}
	f, err := os.Create(p)
	if err != nil {
		t.Fatal(err)
	}
	defer f.Close()
	out := &vC18Out{f: f}
	seed := int64(vC18EnvInt("VERIF_SEED", 1))
	n := vC18EnvInt("VERIF_N", 400)
	r := rand.New(rand.NewSource(seed*1000003 + 18))
	// the corpus first
	vC18RunScripts(t, out, vC18LoadCorpus(t), "corpus-")
	// the fixed alphabet sweep (its own generator: the random stream below does not depend on it)
	vC18CaseAlphabet(t, rand.New(rand.NewSource(18)), out)
	// and fixed schedules with every persist() in flight at once, newest first, the newest
	// snapshot as often as not equal in content to the file (A-B-A)
	for i, fr := 0, rand.New(rand.NewSource(1805)); i < 8; i++ {
		vC18CaseSchedWith(t, fr, out, true, i%2 == 1)
	}
	// and fixed sequential histories: something saved, then ONE batch that lists a domain
	// together with its own wildcard form (set, then removed again)
	for i, fr := 0, rand.New(rand.NewSource(1809)); i < 4; i++ {
		vC18CaseTwinBatch(t, fr, out, 2+i) // stops after the batch, after its removal, ...
	}
	// and the white-space sweep: the whole class at the three positions, and its neighbours once
	for i, fr := 0, rand.New(rand.NewSource(1812)); i < 4; i++ {
		vC18CaseWhitespace(t, fr, out, i%3, i < 3)
	}
	// a refresh walking the directory while a save is in flight (its temp file lies there)
	if n >= 100 {
		bulkN := vC18EnvInt("VERIF_C18_BULK", 400)
		vC18CaseRefreshInflight(t, out, bulkN, 12, false)
		vC18CaseRefreshInflight(t, out, bulkN*3/4, 12, true)
		vC18CaseRefreshInflight(t, out, bulkN/2, 12, false)
		if os.Getenv("VERIF_TIER") == "thorough" {
			vC18CaseRefreshInflight(t, out, 2*bulkN, 6, true)
			vC18CaseRefreshInflight(t, out, 2*bulkN, 6, false)
		}
	}
	// random histories with refreshes that bring remote lists (side by side, about two seconds)
	nrh := 8
	if os.Getenv("VERIF_TIER") == "thorough" {
		nrh = 40
	}
	if n < 100 {
		nrh = 2
	}
	vC18RunScripts(t, out, vC18RandRefreshScripts(r, nrh), "")
	// a handful of refresh scenarios (they run side by side, about one second in all)
	nref := 6
	if os.Getenv("VERIF_TIER") == "thorough" {
		nref = 24
	}
	if n < 100 {
		nref = 2
	}
	vC18CaseRefresh(t, r, out, nref)
	if os.Getenv("VERIF_TIER") == "thorough" && n >= 100 {
		vC18Exhaustive(t, out)
	}
	only := os.Getenv("VERIF_C18_ONLY") // debugging aid: run a single case kind
	for c := 0; out.n < n && c < 4*n; c++ {
		if only == "gated" {
			vC18CaseGated(t, r, out)
			continue
		}
		switch x := r.Intn(100); {
		case x == 35:
			vC18CaseSpelling(t, r, out)
		case x < 36:
			vC18CaseExists(t, r, out)
		case x < 54:
			vC18CaseServe(t, r, out)
		case x < 57:
			vC18CaseEscDot(t, r, out)
		case x < 67:
			vC18CaseHistory(t, r, out, false)
		case x < 73:
			vC18CaseListed(t, r, out)
		case x < 78:
			vC18CaseHistory(t, r, out, true)
		case x < 79:
			vC18CaseConc(t, r, out)
		case x < 81:
			vC18CaseSched(t, r, out)
		case x < 86:
			vC18CaseGated(t, r, out)
		case x < 90:
			vC18CaseParse(t, r, out)
		case x < 95:
			vC18CaseCrash(t, r, out, true)
		case x < 98:
			vC18CaseCrash(t, r, out, false)
		default:
			vC18CaseFault(t, r, out)
		}
	}
}
