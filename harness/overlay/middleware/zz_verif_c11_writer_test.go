//go:build verif

package middleware

// C11 driver (a): operation-sequence differential on the REAL base response
// writer. A Chain is reset onto a recording transport (the production path:
// Chain.Reset -> rebindWriter -> responseWriter.Reset) and then Write /
// WriteMsg / WriteWire / CommitWire / BeginWire / AllowDirectPack / Reset are
// applied in generated orders. Recorded per op: the returned error class,
// Written() afterwards, how many calls reached the transport so far; at the
// end: everything that reached the transport.

import (
	"encoding/json"
	"errors"
	"fmt"
	"math/rand"
	"net"
	"os"
	"strconv"
	"strings"
	"testing"

	"github.com/miekg/dns"
)

type vC11Transport struct {
	log      *[]string
	failNext bool
	remote   net.Addr
}

func (t *vC11Transport) LocalAddr() net.Addr  { return &net.UDPAddr{IP: net.IPv4(127, 0, 0, 1), Port: 53} }
func (t *vC11Transport) RemoteAddr() net.Addr { return t.remote }
func (t *vC11Transport) Close() error         { return nil }
func (t *vC11Transport) WriteMsg(m *dns.Msg) error {
	*t.log = append(*t.log, "TMsg")
	if t.failNext {
		t.failNext = false
		return errors.New("transport failure")
	}
	return nil
}
func (t *vC11Transport) Write(b []byte) (int, error) {
	*t.log = append(*t.log, fmt.Sprintf("TBytes %d", len(b)))
	if t.failNext {
		t.failNext = false
		return 0, errors.New("transport failure")
	}
	return len(b), nil
}

// a transport that declares Internal() itself (the supported channel)
type vC11InternalTransport struct{ vC11Transport }

func (t *vC11InternalTransport) Internal() bool { return true }

func vC11EnvInt(name string, def int) int {
	if s := os.Getenv(name); s != "" {
		if n, err := strconv.Atoi(s); err == nil {
			return n
		}
	}
	return def
}

func vC11Msg(r *rand.Rand, packable bool) *dns.Msg {
	m := new(dns.Msg)
	m.SetQuestion(fmt.Sprintf("w%d.c11.test.", r.Intn(1000)), dns.TypeA)
	m.Response = true
	if r.Intn(2) == 0 {
		m.Answer = []dns.RR{&dns.A{Hdr: dns.RR_Header{Name: m.Question[0].Name, Rrtype: dns.TypeA, Class: dns.ClassINET, Ttl: 60}, A: net.IPv4(192, 0, 2, byte(r.Intn(250)))}}
	}
	if r.Intn(3) == 0 {
		m.SetEdns0(1232, false)
	}
	if !packable {
		// an extended rcode with no OPT to carry it: wire.TryPack declines
		// (handled=false) and the library path is taken
		m.Extra = nil
		m.Rcode = 16 + r.Intn(3)
	}
	return m
}

func vC11ErrClass(err error) int {
	switch {
	case err == nil:
		return 0
	case errors.Is(err, errAlreadyWritten):
		return 1
	default:
		return 2
	}
}

func TestVerifC11Writer(t *testing.T) {
	out := os.Getenv("VERIF_OUT")
	if out == "" {
		t.Skip("VERIF_OUT not set")
	}
	f, err := os.Create(out)
	if err != nil {
		t.Fatal(err)
	}
	defer f.Close()
	seed := int64(vC11EnvInt("VERIF_SEED", 1))
	n := vC11EnvInt("VERIF_N", 500)
	r := rand.New(rand.NewSource(seed*7919 + 11))
	kinds := map[string]int{}
	for c := 0; c < n; c++ {
		var log []string
		ch := NewChain(nil)
		var w *responseWriter
		var tr *vC11Transport
		var ops, obs []string
		var desc []string
		nops := 3 + r.Intn(12)
		writesInEpoch, maxWrites := 0, 0
		for i := 0; i < nops; i++ {
			kind := r.Intn(20)
			if i == 0 {
				kind = 19
			}
			ret := 0
			switch {
			case kind < 5: // Write
				ok := r.Intn(5) != 0
				terr := r.Intn(6) == 0
				var b []byte
				if ok {
					b, _ = vC11Msg(r, true).Pack()
				} else {
					b = make([]byte, 1+r.Intn(8))
				}
				tr.failNext = terr
				_, e := w.Write(b)
				tr.failNext = false
				ret = vC11ErrClass(e)
				ops = append(ops, fmt.Sprintf("WWrite %v %v %d", ok, terr, len(b)))
				desc = append(desc, fmt.Sprintf("Write(%dB unpack_ok=%v terr=%v)=%d", len(b), ok, terr, ret))
				writesInEpoch++
			case kind < 11: // WriteMsg
				packable := r.Intn(4) != 0
				terr := r.Intn(6) == 0
				m := vC11Msg(r, packable)
				ln := 0
				if packable {
					b, _ := m.Pack()
					ln = len(b)
				}
				tr.failNext = terr
				e := ch.Writer.WriteMsg(m)
				tr.failNext = false
				ret = vC11ErrClass(e)
				ops = append(ops, fmt.Sprintf("WWriteMsg %v %v %d", packable, terr, ln))
				desc = append(desc, fmt.Sprintf("WriteMsg(packable=%v terr=%v len=%d)=%d", packable, terr, ln, ret))
				writesInEpoch++
			case kind < 14: // WriteWire / CommitWire
				terr := r.Intn(6) == 0
				body, _ := vC11Msg(r, true).Pack()
				tr.failNext = terr
				var e error
				if r.Intn(2) == 0 {
					e = w.WriteWire(body, WireInfo{Rcode: 0})
				} else {
					e = w.CommitWire(body, WireInfo{Rcode: 0})
				}
				tr.failNext = false
				ret = vC11ErrClass(e)
				ops = append(ops, fmt.Sprintf("WWriteWire %v %d", terr, len(body)))
				desc = append(desc, fmt.Sprintf("WriteWire(%dB terr=%v)=%d", len(body), terr, ret))
				writesInEpoch++
			case kind < 15: // BeginWire
				if w.BeginWire(64, 16) == nil {
					ret = 1
				}
				ops = append(ops, "WBeginWire")
				desc = append(desc, fmt.Sprintf("BeginWire=%d", ret))
			case kind < 17: // AllowDirectPack
				ch.AllowDirectPack()
				ops = append(ops, "WAllowDirect")
				desc = append(desc, "AllowDirectPack")
			default: // Reset onto a fresh transport
				internal := false
				var tp Transport
				switch r.Intn(6) {
				case 0: // the sentinel address
					tr = &vC11Transport{log: &log, remote: &net.UDPAddr{IP: net.IPv4(127, 0, 0, 255), Port: 0}}
					tp = tr
					internal = true
				case 1: // declared by the transport
					it := &vC11InternalTransport{vC11Transport{log: &log, remote: &net.TCPAddr{IP: net.IPv4(192, 0, 2, 9), Port: 5353}}}
					tr = &it.vC11Transport
					tp = it
					internal = true
				case 2:
					tr = &vC11Transport{log: &log, remote: &net.TCPAddr{IP: net.IPv4(192, 0, 2, 9), Port: 5353}}
					tp = tr
				default:
					tr = &vC11Transport{log: &log, remote: &net.UDPAddr{IP: net.IPv4(192, 0, 2, 7), Port: 4242}}
					tp = tr
				}
				q := new(dns.Msg)
				q.SetQuestion("q.c11.test.", dns.TypeA)
				ch.Reset(tp, q)
				w = ch.Writer.(*responseWriter)
				ops = append(ops, fmt.Sprintf("WReset %v", internal))
				desc = append(desc, fmt.Sprintf("Reset(internal=%v)", internal))
				if writesInEpoch > maxWrites {
					maxWrites = writesInEpoch
				}
				writesInEpoch = 0
			}
			obs = append(obs, fmt.Sprintf("mk_wobs %d %v %d", ret, w.Written(), len(log)))
		}
		if writesInEpoch > maxWrites {
			maxWrites = writesInEpoch
		}
		// Go-side oracle: walk the log per epoch
		k := "writer-1write"
		if maxWrites >= 2 {
			k = "writer-multi"
		}
		kinds[k]++
		b, _ := json.Marshal(map[string]any{
			"k":          k,
			"coq":        fmt.Sprintf("CaseWriter [%s] [%s] [%s]", strings.Join(ops, "; "), strings.Join(obs, "; "), strings.Join(log, "; ")),
			"nontrivial": maxWrites >= 2,
			"desc":       map[string]any{"ops": desc, "transport": log},
		})
		f.Write(append(b, '\n'))
	}
}
