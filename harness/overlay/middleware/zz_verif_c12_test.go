//go:build verif

package middleware

// C12 driver (package middleware): the real RecursionWorkLedger, ResolutionAttemptGuard and
// pipelineQueryer against the Coq model.
//
//   ledger   op sequences through the context API (DebitRecursionWork, CheckRecursionWorkLocalLimit,
//            RejectRecursionWork, RecursionWorkEnforcementError, Retain/finish/release) in
//            off / shadow / enforce / unknown modes, on live and control ledgers, with the counter
//            pushed to the uint32 boundary;
//   conc     goroutines debiting one ledger concurrently, tallies checked against the cap (Go-side
//            oracle) and against the sequential model;
//   guard    ResolutionAttemptGuard: raw hashes (slot/overflow boundary) and tuples through
//            BeginResolutionAttempt with spelling variants;
//   query    pipelineQueryer.Query through a real Chain whose only handler re-enters the queryer
//            as a script dictates.

import (
	"context"
	"encoding/json"
	"errors"
	"fmt"
	"math/rand"
	"os"
	"strconv"
	"strings"
	"sync"
	"sync/atomic"
	"testing"

	"github.com/miekg/dns"
	"github.com/semihalev/sdns/config"
	"github.com/semihalev/sdns/internal/mock"
)

type vC12Out struct {
	f *os.File
}

func (o *vC12Out) emit(m map[string]any) {
	b, _ := json.Marshal(m)
	o.f.Write(append(b, '\n'))
}

func vC12Bool(b bool) string {
	if b {
		return "true"
	}
	return "false"
}

func vC12Policy(p RecursionWorkPolicy) string {
	return fmt.Sprintf("(mk_T_RecursionWorkPolicy %d %d %d %d %d %d %d %d %d)", p.Mode, p.MaxOutboundQueries, p.MaxInternalQueries,
		p.MaxDNSKEYCandidates, p.MaxRRsetSignatureChecks, p.MaxSignatureChecks, p.MaxDSDigests, p.MaxNSEC3Hashes, p.MaxConcurrentCrypto)
}

// (code, kind, limit): 0 nil, 1 limit error, 2 context.Canceled, 3 panic
func vC12ObsErr(err error, panicked bool) string {
	if panicked {
		return "(3,0,0)"
	}
	if err == nil {
		return "(0,0,0)"
	}
	var le *RecursionWorkLimitError
	if errors.As(err, &le) {
		return fmt.Sprintf("(1,%d,%d)", le.Kind, le.Limit)
	}
	if errors.Is(err, context.Canceled) {
		return "(2,0,0)"
	}
	return "(9,0,0)"
}

func vC12Snapshot(l *RecursionWorkLedger) string { return vC12SnapshotMode(l, 0) }

// a tree that never materialised a ledger is reported like a fresh one of the given mode
func vC12SnapshotMode(l *RecursionWorkLedger, mode RecursionWorkMode) string {
	if l == nil {
		return fmt.Sprintf("[%d;0;0;0;0;0;0;0;1;0;0]%%Z", mode)
	}
	s := l.Snapshot()
	var exh uint32
	if s.OutboundExhausted {
		exh |= outboundExhausted
	}
	if s.InternalExhausted {
		exh |= internalExhausted
	}
	if s.DNSKEYCandidatesExhausted {
		exh |= dnskeyCandidateExhausted
	}
	if s.RRsetSignatureChecksExhausted {
		exh |= rrsetSignatureExhausted
	}
	if s.SignatureChecksExhausted {
		exh |= signatureExhausted
	}
	if s.DSDigestsExhausted {
		exh |= dsDigestExhausted
	}
	if s.NSEC3HashesExhausted {
		exh |= nsec3HashExhausted
	}
	if s.ConcurrentCryptoExhausted {
		exh |= concurrentCryptoExhausted
	}
	fin := 0
	if l.finished.Load() {
		fin = 1
	}
	return fmt.Sprintf("[%d;%d;%d;%d;%d;%d;%d;%d;%d;%d;%d]%%Z", s.Mode, s.OutboundQueries, s.InternalQueries, s.SignatureChecks,
		s.DSDigests, s.NSEC3Hashes, exh, l.first.Load(), l.refs.Load(), l.rootState.Load(), fin)
}

func vC12RandLimit(r *rand.Rand) uint32 {
	switch r.Intn(10) {
	case 0:
		return 0
	case 1:
		return 0xFFFFFFFF
	case 2:
		return uint32(10 + r.Intn(30))
	default:
		return uint32(1 + r.Intn(5))
	}
}

func vC12RandPolicy(r *rand.Rand) RecursionWorkPolicy {
	modes := []RecursionWorkMode{RecursionWorkOff, RecursionWorkShadow, RecursionWorkShadow, RecursionWorkEnforce, RecursionWorkEnforce, RecursionWorkEnforce, 3}
	return RecursionWorkPolicy{
		Mode:                    modes[r.Intn(len(modes))],
		MaxOutboundQueries:      vC12RandLimit(r),
		MaxInternalQueries:      vC12RandLimit(r),
		MaxDNSKEYCandidates:     vC12RandLimit(r),
		MaxRRsetSignatureChecks: vC12RandLimit(r),
		MaxSignatureChecks:      vC12RandLimit(r),
		MaxDSDigests:            vC12RandLimit(r),
		MaxNSEC3Hashes:          vC12RandLimit(r),
		MaxConcurrentCrypto:     vC12RandLimit(r),
	}
}

func vC12Counter(l *RecursionWorkLedger, i int) *atomic.Uint32 {
	switch i {
	case 0:
		return &l.outbound
	case 1:
		return &l.internal
	case 2:
		return &l.signatures
	case 3:
		return &l.dsDigests
	default:
		return &l.nsec3Hashes
	}
}

func vC12LedgerCase(r *rand.Rand, out *vC12Out) {
	pol := vC12RandPolicy(r)
	lk := 0
	var l *RecursionWorkLedger
	switch r.Intn(12) {
	case 0:
		lk, l = 1, recursionWorkPending
	case 1:
		lk, l = 2, recursionWorkClosed
	default:
		l = NewRecursionWorkLedger(pol)
	}
	base := WithRecursionWork(context.Background(), l)
	be := WithBestEffortRecursionWork(base)
	aggKinds := []RecursionWorkKind{RecursionWorkOutboundQuery, RecursionWorkInternalQuery, RecursionWorkSignature, RecursionWorkDSDigest, RecursionWorkNSEC3Hash}
	locKinds := []RecursionWorkKind{RecursionWorkDNSKEYCandidate, RecursionWorkRRsetSignature, RecursionWorkConcurrentCrypto}
	var releases []func()
	var ops, obs []string
	nops := 4 + r.Intn(36)
	// focus most debits on one or two kinds so the cap is actually reached
	focus := aggKinds[r.Intn(len(aggKinds))]
	usedSet := false
	for i := 0; i < nops; i++ {
		latch := r.Intn(4) != 0
		ctx := base
		if !latch {
			ctx = be
		}
		var err error
		panicked := false
		call := func(f func() error) {
			defer func() {
				if recover() != nil {
					panicked = true
				}
			}()
			err = f()
		}
		switch c := r.Intn(20); {
		case c < 9:
			k := focus
			if r.Intn(3) == 0 {
				k = aggKinds[r.Intn(len(aggKinds))]
			}
			if r.Intn(25) == 0 {
				k = RecursionWorkKind(r.Intn(10)) // may be a local or an unknown kind: panics
			}
			call(func() error { return DebitRecursionWork(ctx, k) })
			ops = append(ops, fmt.Sprintf("ODebit %d %s", k, vC12Bool(latch)))
			obs = append(obs, vC12ObsErr(err, panicked))
		case c < 12:
			k := locKinds[r.Intn(len(locKinds))]
			if r.Intn(25) == 0 {
				k = RecursionWorkKind(r.Intn(10))
			}
			lim, _ := l.limit(k)
			var used uint32
			switch r.Intn(4) {
			case 0:
				used = lim
			case 1:
				used = lim + 1
			case 2:
				used = lim - 1
			default:
				used = uint32(r.Intn(8))
			}
			call(func() error { return CheckRecursionWorkLocalLimit(ctx, k, used) })
			ops = append(ops, fmt.Sprintf("OCheckLocal %d %d %s", k, used, vC12Bool(latch)))
			obs = append(obs, vC12ObsErr(err, panicked))
		case c < 13:
			k := locKinds[r.Intn(len(locKinds))]
			if r.Intn(10) == 0 {
				k = RecursionWorkKind(r.Intn(10))
			}
			call(func() error { return RejectRecursionWork(ctx, k) })
			ops = append(ops, fmt.Sprintf("OReject %d %s", k, vC12Bool(latch)))
			obs = append(obs, vC12ObsErr(err, panicked))
		case c < 16:
			err = RecursionWorkEnforcementError(base)
			ops = append(ops, "OEnfErr")
			obs = append(obs, vC12ObsErr(err, false))
		case c < 17:
			rel, ok := l.Retain()
			if ok {
				releases = append(releases, rel)
			}
			ops = append(ops, "ORetain")
			if ok {
				obs = append(obs, "(5,0,0)")
			} else {
				obs = append(obs, "(4,0,0)")
			}
		case c < 18:
			i := r.Intn(len(releases) + 1)
			if i < len(releases) {
				releases[i]()
			}
			ops = append(ops, fmt.Sprintf("ORelease %d", i))
			obs = append(obs, "(0,0,0)")
		case c < 19:
			FinishRecursionWork(base)
			ops = append(ops, "OFinish")
			obs = append(obs, "(0,0,0)")
		default:
			if lk != 0 {
				continue
			}
			ci := r.Intn(5)
			var v uint32
			switch r.Intn(3) {
			case 0:
				v = 0xFFFFFFFF - uint32(r.Intn(3))
			case 1:
				lim, _ := l.limit(aggKinds[ci])
				v = lim - uint32(r.Intn(2))
			default:
				v = uint32(r.Intn(6))
			}
			vC12Counter(l, ci).Store(v)
			usedSet = true
			ops = append(ops, fmt.Sprintf("OSet %d %d", ci, v))
			obs = append(obs, "(0,0,0)")
		}
	}
	mode := "enforce"
	switch pol.Mode {
	case RecursionWorkOff:
		mode = "off"
	case RecursionWorkShadow:
		mode = "shadow"
	case 3:
		mode = "unknown"
	}
	if lk != 0 {
		mode = "control"
	}
	nLimit := 0
	for _, o := range obs {
		if strings.HasPrefix(o, "(1,") {
			nLimit++
		}
	}
	out.emit(map[string]any{
		"k":          "ledger-" + mode,
		"coq":        fmt.Sprintf("CaseLedger %d %s [%s] [%s] %s", lk, vC12Policy(pol), strings.Join(ops, "; "), strings.Join(obs, "; "), vC12Snapshot(l)),
		"nontrivial": nLimit > 0 || usedSet || mode == "shadow",
		"desc":       map[string]any{"ledger": lk, "policy": fmt.Sprintf("%+v", pol), "ops": ops, "observed": obs, "final": vC12Snapshot(l)},
	})
}

func vC12ConcCase(r *rand.Rand, out *vC12Out) {
	mode := RecursionWorkEnforce
	if r.Intn(3) == 0 {
		mode = RecursionWorkShadow
	}
	threads := 2 + r.Intn(15)
	per := 1 + r.Intn(60)
	total := uint32(threads * per)
	var lim uint32
	switch r.Intn(4) {
	case 0:
		lim = total + uint32(r.Intn(5))
	case 1:
		lim = uint32(1 + r.Intn(4))
	default:
		lim = uint32(1 + r.Intn(int(total)))
	}
	var start uint32
	if mode == RecursionWorkShadow {
		switch r.Intn(3) {
		case 0:
			start = 0xFFFFFFFF - uint32(r.Intn(int(total)+1))
			lim = 0xFFFFFFFF - uint32(r.Intn(3))
		case 1:
			start = uint32(r.Intn(5))
		}
	} else if r.Intn(4) == 0 {
		start = uint32(r.Intn(int(lim) + 2))
	}
	pol := RecursionWorkPolicy{Mode: mode, MaxOutboundQueries: lim, MaxInternalQueries: lim, MaxDNSKEYCandidates: lim, MaxRRsetSignatureChecks: lim,
		MaxSignatureChecks: lim, MaxDSDigests: lim, MaxNSEC3Hashes: lim, MaxConcurrentCrypto: lim}
	l := NewRecursionWorkLedger(pol)
	aggKinds := []RecursionWorkKind{RecursionWorkOutboundQuery, RecursionWorkInternalQuery, RecursionWorkSignature, RecursionWorkDSDigest, RecursionWorkNSEC3Hash}
	ki := r.Intn(len(aggKinds))
	kind := aggKinds[ki]
	ctr := vC12Counter(l, ki)
	ctr.Store(start)
	ctx := WithRecursionWork(context.Background(), l)
	var acc, rej atomic.Int64
	var overshoot atomic.Bool
	var wg sync.WaitGroup
	startCh := make(chan struct{})
	for g := 0; g < threads; g++ {
		wg.Add(1)
		go func() {
			defer wg.Done()
			<-startCh
			for i := 0; i < per; i++ {
				if err := DebitRecursionWork(ctx, kind); err == nil {
					acc.Add(1)
				} else {
					rej.Add(1)
				}
				if mode == RecursionWorkEnforce && start <= lim && ctr.Load() > lim {
					overshoot.Store(true)
				}
			}
		}()
	}
	close(startCh)
	wg.Wait()
	fin := ctr.Load()
	goFail := ""
	if overshoot.Load() {
		goFail = "counter observed above the cap during the run"
	}
	if mode == RecursionWorkEnforce && start <= lim && uint32(acc.Load()) > lim-start {
		goFail = fmt.Sprintf("accepted %d debits with only %d units left", acc.Load(), lim-start)
	}
	if mode == RecursionWorkShadow && rej.Load() != 0 {
		goFail = "shadow mode refused a debit"
	}
	ms := "enforce"
	if mode == RecursionWorkShadow {
		ms = "shadow"
	}
	out.emit(map[string]any{
		"k":          "conc-" + ms,
		"coq":        fmt.Sprintf("CaseConc %d %d %d %d %d %d %d %d", mode, lim, start, threads, per, acc.Load(), rej.Load(), fin),
		"nontrivial": rej.Load() > 0 || mode == RecursionWorkShadow,
		"go_fail":    goFail,
		"desc":       map[string]any{"mode": ms, "limit": lim, "start": start, "goroutines": threads, "debits_each": per, "kind": int(kind), "accepted": acc.Load(), "rejected": rej.Load(), "final_counter": fin},
	})
}

func vC12GuardCase(r *rand.Rand, out *vC12Out) {
	ctx, g := EnsureResolutionAttemptGuard(context.Background())
	var hs, obs []string
	n := 5 + r.Intn(60)
	goFail := ""
	if r.Intn(2) == 0 {
		// raw hashes, enough distinct ones to spill past the inline slots
		distinct := 1 + r.Intn(14)
		for i := 0; i < n; i++ {
			h := uint64(1 + r.Intn(distinct))
			if r.Intn(10) == 0 {
				h = 0 // the zero hash is an ordinary value
			}
			ok := g.begin(h)
			hs = append(hs, strconv.FormatUint(h, 10))
			obs = append(obs, vC12Bool(ok))
		}
	} else {
		names := [][]string{{"example.com.", "EXAMPLE.com.", "example.COM"}, {"a.example.", "A.Example."}, {"b.example.", "b.example"}}
		eps := [][]string{{"192.0.2.1:53", " 192.0.2.1:53 ", "192.0.2.1:053"}, {"[2001:db8::1]:53", "[2001:DB8::1]:53", "[2001:db8:0::1]:53"}, {"https://Dns.Example/dns-query", "https://dns.example:443/dns-query"}, {"ns.example.:53", "NS.example:53"}}
		trs := [][]string{{"udp", "UDP", "", " udp "}, {"tcp", "TCP"}}
		counts := map[string]int{}
		for i := 0; i < n; i++ {
			ni, ei, ti := r.Intn(len(names)), r.Intn(len(eps)), r.Intn(len(trs))
			qt := []uint16{dns.TypeA, dns.TypeAAAA}[r.Intn(2)]
			name := names[ni][r.Intn(len(names[ni]))]
			ep := eps[ei][r.Intn(len(eps[ei]))]
			tr := trs[ti][r.Intn(len(trs[ti]))]
			q := dns.Question{Name: name, Qtype: qt, Qclass: dns.ClassINET}
			err := BeginResolutionAttempt(ctx, q, ep, tr)
			h := resolutionAttemptHash(q, CanonicalResolutionEndpoint(ep), canonicalResolutionTransport(tr))
			hs = append(hs, strconv.FormatUint(h, 10))
			obs = append(obs, vC12Bool(err == nil))
			key := fmt.Sprintf("%d/%d/%d/%d", ni, ei, ti, qt)
			if err == nil {
				counts[key]++
				if counts[key] > maxResolutionAttempts {
					goFail = fmt.Sprintf("attempt %d admitted for tuple %s %s %s", counts[key], name, ep, tr)
				}
			} else if !errors.Is(err, ErrResolutionAttemptLimit) {
				goFail = "unexpected error " + err.Error()
			} else if counts[key] < maxResolutionAttempts {
				goFail = fmt.Sprintf("tuple %s %s %s refused after only %d attempts", name, ep, tr, counts[key])
			}
		}
	}
	nslots, nover := 0, 0
	if g.attempts != nil {
		nslots, nover = g.attempts.len, len(g.attempts.overflow)
	}
	refused := 0
	for _, o := range obs {
		if o == "false" {
			refused++
		}
	}
	out.emit(map[string]any{
		"k":          "guard",
		"coq":        fmt.Sprintf("CaseGuard [%s] [%s] %d %d", strings.Join(hs, ";"), strings.Join(obs, ";"), nslots, nover),
		"nontrivial": refused > 0,
		"go_fail":    goFail,
		"desc":       map[string]any{"hashes": hs, "admitted": obs, "slots": nslots, "overflow": nover},
	})
}

// vC12Scripted is the only handler of the pipeline under test. Each invocation takes the next
// script entry: how many nested queries to issue and whether to write a response.
type vC12Scripted struct {
	q      Queryer
	mode   RecursionWorkMode
	script [][2]int
	dflt   [2]int
	inv    int
	deep   int
	tally  [4]int
	final  string
}

func (h *vC12Scripted) Name() string         { return "vc12scripted" }
func (h *vC12Scripted) SetQueryer(q Queryer) { h.q = q }
func (h *vC12Scripted) ServeDNS(ctx context.Context, ch *Chain) {
	e := h.dflt
	if h.inv < len(h.script) {
		e = h.script[h.inv]
	}
	root := h.inv == 0
	h.inv++
	if d, _ := ctx.Value(queryerDepthKey).(int); d > h.deep {
		h.deep = d
	}
	for i := 0; i < e[0]; i++ {
		req := new(dns.Msg)
		req.SetQuestion(fmt.Sprintf("n%d.verif.test.", h.inv), dns.TypeA)
		_, err := h.q.Query(ctx, req)
		var le *RecursionWorkLimitError
		switch {
		case err == nil:
			h.tally[0]++
		case errors.Is(err, ErrMaxRecursion):
			h.tally[1]++
		case errors.As(err, &le):
			h.tally[2]++
		default:
			h.tally[3]++
		}
	}
	if root {
		h.final = vC12SnapshotMode(RecursionWorkFrom(ctx), h.mode)
	}
	if e[1] == 1 {
		m := new(dns.Msg)
		m.SetReply(ch.Request.Msg())
		_ = ch.Writer.WriteMsg(m)
	}
}

func vC12QueryCase(r *rand.Rand, out *vC12Out) {
	pol := vC12RandPolicy(r)
	if r.Intn(3) == 0 {
		pol.MaxInternalQueries = uint32(20 + r.Intn(40))
	}
	h := &vC12Scripted{mode: pol.Mode}
	// shapes: finite trees; endless self-recursion (default entry re-enters once)
	endless := r.Intn(3) == 0
	if endless {
		h.dflt = [2]int{1, 1}
		if r.Intn(8) == 0 {
			h.dflt[1] = 0
		}
	} else {
		h.dflt = [2]int{0, 1}
	}
	n := 1 + r.Intn(14)
	wide := 0
	for i := 0; i < n; i++ {
		w := r.Intn(3)
		if endless && w > 1 {
			if wide >= 2 {
				w = 1
			} else {
				wide++
			}
		}
		if i == 0 && w == 0 {
			w = 1
		}
		wr := 1
		if r.Intn(8) == 0 {
			wr = 0
		}
		h.script = append(h.script, [2]int{w, wr})
	}
	depth0 := 0
	switch r.Intn(4) {
	case 0:
		depth0 = 25 + r.Intn(9) // up to 33: already past the cap
	case 1:
		depth0 = r.Intn(5)
	}
	be := r.Intn(6) == 0
	p := newPipeline([]Handler{h}, map[string]Handler{h.Name(): h}, []string{h.Name()}, pol)
	p.autoWire()
	ctx := context.Background()
	if depth0 > 0 {
		ctx = context.WithValue(ctx, queryerDepthKey, depth0)
	}
	if be {
		ctx = WithBestEffortRecursionWork(ctx)
	}
	w := mock.NewWriter("udp", "192.0.2.99:5353")
	req := new(dns.Msg)
	req.SetQuestion("root.verif.test.", dns.TypeA)
	ch := p.NewChain()
	ch.Reset(w, req)
	ch.Next(ctx)
	p.PutChain(ch)
	var sc []string
	for _, e := range h.script {
		sc = append(sc, fmt.Sprintf("(%d,%s)", e[0], vC12Bool(e[1] == 1)))
	}
	mode := []string{"off", "shadow", "enforce", "unknown"}[pol.Mode]
	deep := h.deep
	if deep < depth0 {
		deep = depth0
	}
	out.emit(map[string]any{
		"k": "query-" + mode,
		"coq": fmt.Sprintf("CaseQuery %s %s %d [%s] (%d,%s) %d %d [%d;%d;%d;%d] %s", vC12Policy(pol), vC12Bool(be), depth0, strings.Join(sc, ";"),
			h.dflt[0], vC12Bool(h.dflt[1] == 1), h.inv, deep, h.tally[0], h.tally[1], h.tally[2], h.tally[3], h.final),
		"nontrivial": h.tally[1] > 0 || h.tally[2] > 0,
		"desc": map[string]any{"policy": fmt.Sprintf("%+v", pol), "best_effort": be, "depth0": depth0, "script": h.script, "default": h.dflt,
			"handler_invocations": h.inv, "deepest": deep, "ok/maxrec/limit/other": h.tally, "ledger": h.final},
	})
}

// the operator-facing configuration -> the policy every ledger is created from, and what a ledger
// created from it then admits: configured limits are the enforced ones, omitted ones get the defaults
func vC12PolicyCase(r *rand.Rand, out *vC12Out) {
	mi := r.Intn(5)
	if mi == 4 && r.Intn(3) != 0 {
		mi = 3
	}
	lim := func() uint32 {
		switch r.Intn(6) {
		case 0:
			return 0
		case 1:
			return uint32(1 + r.Intn(3))
		case 2:
			return uint32(30 + r.Intn(200))
		default:
			return uint32(1 + r.Intn(40))
		}
	}
	vC12PolicyRun(mi, [8]uint32{lim(), lim(), lim(), lim(), lim(), lim(), lim(), lim()}, out)
}

// fixed configurations from corpus/C12/policy.json (minimal inputs of seeded changes the check caught), replayed first
func vC12PolicyCorpus(out *vC12Out) {
	dir := os.Getenv("VERIF_CORPUS")
	if dir == "" {
		return
	}
	b, err := os.ReadFile(dir + "/policy.json")
	if err != nil {
		return
	}
	var entries []struct {
		Mode int      `json:"mode"`
		Lims []uint32 `json:"lims"`
	}
	if json.Unmarshal(b, &entries) != nil {
		return
	}
	for _, e := range entries {
		var l [8]uint32
		copy(l[:], e.Lims)
		if e.Mode >= 0 && e.Mode <= 4 {
			vC12PolicyRun(e.Mode, l, out)
		}
	}
}

func vC12PolicyRun(mi int, l [8]uint32, out *vC12Out) {
	modes := []config.RecursionFirewallMode{"", config.RecursionFirewallModeOff, config.RecursionFirewallModeShadow, config.RecursionFirewallModeEnforce, "Enforce"}
	raw := config.RecursionFirewallConfig{Mode: modes[mi], MaxOutboundQueries: l[0], MaxInternalQueries: l[1], MaxDNSKEYCandidates: l[2],
		MaxRRsetSignatureChecks: l[3], MaxSignatureChecks: l[4], MaxDSDigests: l[5], MaxNSEC3Hashes: l[6], MaxConcurrentCrypto: l[7]}
	var pol RecursionWorkPolicy
	panicked := false
	func() {
		defer func() {
			if recover() != nil {
				panicked = true
			}
		}()
		pol = MustRecursionWorkPolicyFromConfig(raw)
	}()
	// what a tree governed by this policy admits per aggregate kind (enforce only refuses)
	var acc [5]int
	if !panicked {
		l := NewRecursionWorkLedger(pol)
		kinds := []RecursionWorkKind{RecursionWorkOutboundQuery, RecursionWorkInternalQuery, RecursionWorkSignature, RecursionWorkDSDigest, RecursionWorkNSEC3Hash}
		for i, k := range kinds {
			for n := 0; n < 260; n++ {
				if l.Debit(k) == nil {
					acc[i]++
				}
			}
		}
	}
	out.emit(map[string]any{
		"k": "policy-" + []string{"omitted", "off", "shadow", "enforce", "invalid"}[mi],
		"coq": fmt.Sprintf("CasePolicy %d [%d;%d;%d;%d;%d;%d;%d;%d] %s %s [%d;%d;%d;%d;%d]", mi, raw.MaxOutboundQueries, raw.MaxInternalQueries, raw.MaxDNSKEYCandidates,
			raw.MaxRRsetSignatureChecks, raw.MaxSignatureChecks, raw.MaxDSDigests, raw.MaxNSEC3Hashes, raw.MaxConcurrentCrypto, vC12Bool(panicked), vC12Policy(pol),
			acc[0], acc[1], acc[2], acc[3], acc[4]),
		"nontrivial": mi == 3,
		"desc":       map[string]any{"config": fmt.Sprintf("%+v", raw), "panicked": panicked, "policy": fmt.Sprintf("%+v", pol), "accepted(out,int,sig,ds,nsec3) of 260": acc},
	})
}

func TestVerifC12Ledger(t *testing.T) {
	path := os.Getenv("VERIF_OUT")
	if path == "" {
		t.Skip("VERIF_OUT not set")
	}
	f, err := os.Create(path)
	if err != nil {
		t.Fatal(err)
	}
	defer f.Close()
	out := &vC12Out{f: f}
	seed, _ := strconv.Atoi(os.Getenv("VERIF_SEED"))
	n, _ := strconv.Atoi(os.Getenv("VERIF_N"))
	if n == 0 {
		n = 400
	}
	r := rand.New(rand.NewSource(int64(seed)*7919 + 12))
	vC12PolicyCorpus(out)
	for c := 0; c < n; c++ {
		vC12LedgerCase(r, out)
		if c%4 == 0 {
			vC12ConcCase(r, out)
		}
		if c%2 == 0 {
			vC12GuardCase(r, out)
		}
		vC12QueryCase(r, out)
		if c%2 == 1 {
			vC12PolicyCase(r, out)
		}
	}
}
