//go:build verif

package middleware

// C10 driver "writer": one pooled Chain reused across many requests on
// different transports — Pipeline.NewChain / Chain.Reset / Chain.ResetWire /
// AllowDirectPack / Writer.Write / Writer.WriteMsg / Pipeline.PutChain — with,
// now and then, a middleware's writer wrapper left in place (a middleware that
// panicked past its restore). Observed per operation: which transport received
// which bytes (or nothing).
//
// Second half of the cases ("chains"): SEVERAL requests in flight at once on the
// real Pipeline / Chain objects, the way concurrent serves overlap — wire-born
// ones on slab-owned chains (BindChain; ResetWire; ...; Finish), pooled ones
// (NewChain; Reset; ...; PutChain) — in a generated interleaving driven from
// one goroutine. Every request has its own transport. Observed: which chain
// object NewChain handed out (by identity) and which transport each Write reached.

import (
	"encoding/json"
	"fmt"
	"math/rand"
	"net"
	"os"
	"strconv"
	"strings"
	"testing"
	"unsafe"

	"github.com/miekg/dns"
	"github.com/semihalev/sdns/internal/wire"
)

type vC10Tr struct {
	id   int
	tcp  bool
	sink *[]vC10Emit
}
type vC10Emit struct {
	tr int
	b  []byte
}

func (t *vC10Tr) LocalAddr() net.Addr { return &net.UDPAddr{IP: net.IPv4(127, 0, 0, 1), Port: 53} }
func (t *vC10Tr) RemoteAddr() net.Addr {
	if t.tcp {
		return &net.TCPAddr{IP: net.IPv4(192, 0, 2, byte(t.id)), Port: 4000 + t.id}
	}
	return &net.UDPAddr{IP: net.IPv4(192, 0, 2, byte(t.id)), Port: 4000 + t.id}
}
func (t *vC10Tr) WriteMsg(m *dns.Msg) error {
	b, err := m.Pack()
	if err != nil {
		return err
	}
	*t.sink = append(*t.sink, vC10Emit{t.id, b})
	return nil
}
func (t *vC10Tr) Write(b []byte) (int, error) {
	*t.sink = append(*t.sink, vC10Emit{t.id, append([]byte(nil), b...)})
	return len(b), nil
}
func (t *vC10Tr) Close() error { return nil }

// a middleware's wrapper that was never taken off
type vC10Wrap struct{ ResponseWriter }

func vC10WBool(b bool) string {
	if b {
		return "true"
	}
	return "false"
}

func vC10WRLE(b []byte) string {
	var sb strings.Builder
	sb.WriteString("[")
	for i := 0; i < len(b); {
		j := i
		for j < len(b) && b[j] == b[i] {
			j++
		}
		if i > 0 {
			sb.WriteString(";")
		}
		fmt.Fprintf(&sb, "(%d,%d)", j-i, b[i])
		i = j
	}
	sb.WriteString("]")
	return sb.String()
}

// ---- "wpath": every way a reply can enter the base writer, and what reaches the transport
// (which Transport method, with what), on plain / internal transports, declared byte sinks or not.

type vC10PCall struct {
	tr    int
	addr  uintptr  // where the slice handed to Transport.Write lives (identifies the packer's buffer)
	bytes []byte   // Transport.Write
	msg   *dns.Msg // Transport.WriteMsg
}
type vC10PTr struct {
	id       int
	tcp      bool
	internal bool
	calls    *[]vC10PCall
	// during runs once inside the next Write, BEFORE the transport has taken the bytes: a transport
	// whose Write parks (tcpStream.stage flushes a full drain buffer to a slow client first and copies
	// the new payload afterwards; a datagram send sits in its syscall) while other requests are served
	during func()
}

func (t *vC10PTr) LocalAddr() net.Addr { return &net.UDPAddr{IP: net.IPv4(127, 0, 0, 1), Port: 53} }
func (t *vC10PTr) RemoteAddr() net.Addr {
	if t.tcp {
		return &net.TCPAddr{IP: net.IPv4(192, 0, 2, byte(t.id)), Port: 4000 + t.id}
	}
	return &net.UDPAddr{IP: net.IPv4(192, 0, 2, byte(t.id)), Port: 4000 + t.id}
}
func (t *vC10PTr) WriteMsg(m *dns.Msg) error {
	*t.calls = append(*t.calls, vC10PCall{tr: t.id, msg: m})
	return nil
}
func (t *vC10PTr) Write(b []byte) (int, error) {
	if f := t.during; f != nil {
		t.during = nil
		f() // b is not touched before this returns
	}
	var addr uintptr
	if len(b) > 0 {
		addr = uintptr(unsafe.Pointer(&b[0]))
	}
	// the address is taken on entry, the bytes when the (possibly parked) write gets to them
	*t.calls = append(*t.calls, vC10PCall{tr: t.id, addr: addr, bytes: append([]byte(nil), b...)})
	return len(b), nil
}
func (t *vC10PTr) Close() error   { return nil }
func (t *vC10PTr) Internal() bool { return t.internal }

// a record type the library does not own (TryPack declines it; the library packs it like an A)
type vC10ForeignA struct{ *dns.A }

// fixed histories replayed first (corpus/C10/wpath-regressions.json): reqs are "msg" / "msg-foreign" /
// "msg-extrcode" / "bytes" / "garbage" / "wire"
type vC10PathCorpus struct {
	Name     string   `json:"name"`
	Internal bool     `json:"internal"`
	Direct   bool     `json:"direct"`
	Parked   bool     `json:"parked"`
	Reqs     []string `json:"reqs"`
}

func vC10PathCases(f *os.File, r *rand.Rand, n int) {
	p := newPipeline(nil, map[string]Handler{}, nil, RecursionWorkPolicy{})
	var corpus []vC10PathCorpus
	if dir := os.Getenv("VERIF_CORPUS"); dir != "" {
		if b, err := os.ReadFile(dir + "/wpath-regressions.json"); err == nil {
			_ = json.Unmarshal(b, &corpus)
		}
	}
	for cn := -len(corpus); cn < n; cn++ {
		var fix *vC10PathCorpus
		if cn < 0 {
			fix = &corpus[cn+len(corpus)]
		}
		var calls []vC10PCall
		ch := p.NewChain()
		// some history on the chain first: another transport, a reply written
		if r.Intn(2) == 0 {
			old := &vC10PTr{id: 9, calls: &calls}
			q0 := new(dns.Msg)
			q0.SetQuestion("old.wpath.test.", dns.TypeA)
			ch.Reset(old, q0)
			if r.Intn(2) == 0 {
				ch.AllowDirectPack()
			}
			m0 := new(dns.Msg)
			m0.SetReply(q0)
			m0.Rcode = dns.RcodeServerFailure
			_ = ch.Writer.WriteMsg(m0)
			calls = nil
		}
		tr := &vC10PTr{id: 1 + r.Intn(4), tcp: r.Intn(2) == 0, internal: r.Intn(3) == 0, calls: &calls}
		direct := r.Intn(3) != 0
		// half of the cases: this request's transport write PARKS (see vC10PTr.during); those are mostly
		// on a declared byte sink, as the owned stream transports are
		parked := r.Intn(2) == 0
		if parked && r.Intn(4) != 0 {
			direct, tr.internal = true, false
		}
		if fix != nil {
			direct, tr.internal, parked = fix.Direct, fix.Internal, fix.Parked
		}
		req := new(dns.Msg)
		req.SetQuestion(fmt.Sprintf("q.c%d.wpath.test.", cn), dns.TypeA)
		req.Id = uint16(r.Intn(65536))
		if r.Intn(2) == 0 {
			ch.Reset(tr, req)
		} else {
			ch.ResetWire(tr, NewRequest(req))
		}
		if direct {
			ch.AllowDirectPack()
		}
		base := ch.Writer.(*responseWriter)
		var reqs, obs, desc, fails []string
		// half of the cases: while this request's transport write is parked, ANOTHER client's request is
		// served on another chain of the same pipeline and answered through WriteMsg on a byte sink
		var nested []vC10PCall // the transport call of the request served while this one's write was parked
		var nestedWant []byte
		if parked {
			cn2 := cn
			tr.during = func() {
				var calls2 []vC10PCall
				defer func() { nested = calls2 }()
				tr2 := &vC10PTr{id: 8, calls: &calls2}
				q2 := new(dns.Msg)
				q2.SetQuestion(fmt.Sprintf("other-client.c%d.wpath.test.", cn2), dns.TypeA)
				q2.Id = 0x7777
				ch2 := p.NewChain()
				ch2.Reset(tr2, q2)
				ch2.AllowDirectPack()
				m2 := new(dns.Msg)
				m2.SetReply(q2)
				for i := 0; i < 3; i++ {
					m2.Answer = append(m2.Answer, &dns.A{Hdr: dns.RR_Header{Name: q2.Question[0].Name, Rrtype: dns.TypeA, Class: dns.ClassINET, Ttl: 77}, A: net.IPv4(10, 7, 7, byte(i))})
				}
				want2, _ := m2.Pack()
				nestedWant = want2
				_ = ch2.Writer.WriteMsg(m2)
				if len(calls2) != 1 || calls2[0].msg != nil || string(calls2[0].bytes) != string(want2) {
					fails = append(fails, "the request served while this one's transport write was parked did not get its own reply")
				}
				p.PutChain(ch2)
			}
		}
		msgNo := map[*dns.Msg]int{}
		ownBytes := map[int][]byte{} // request index -> what the pooled packer yields for its message
		kinds := map[string]int{}
		if parked {
			kinds["transport-write-parks"]++
		}
		nreq := 1 + r.Intn(4)
		if fix != nil {
			nreq = len(fix.Reqs)
		}
		for i := 0; i < nreq; i++ {
			m := new(dns.Msg)
			m.SetReply(req)
			m.Answer = []dns.RR{&dns.A{Hdr: dns.RR_Header{Name: req.Question[0].Name, Rrtype: dns.TypeA, Class: dns.ClassINET, Ttl: uint32(r.Intn(600))}, A: net.IPv4(10, 2, byte(i), byte(r.Intn(256)))}}
			m.Rcode = []int{0, 0, 0, dns.RcodeNameError, dns.RcodeServerFailure, dns.RcodeRefused}[r.Intn(6)]
			before := len(calls)
			k := r.Intn(10)
			sub := r.Intn(5)
			if parked && i == 0 && r.Intn(2) == 0 {
				k, sub = 9, 4 // an ordinary WriteMsg first
			}
			if fix != nil {
				switch fix.Reqs[i] {
				case "bytes":
					k = 0
				case "garbage":
					k = 2
				case "wire":
					k = 3
				case "msg-foreign":
					k, sub = 9, 0
				case "msg-extrcode":
					k, sub = 9, 1
				default:
					k, sub = 9, 4
				}
			}
			switch {
			case k < 2: // Write of well-formed bytes
				b, _ := m.Pack()
				reqs = append(reqs, fmt.Sprintf("WB %s true %d", vC10WRLE(b), m.Rcode))
				_, _ = ch.Writer.Write(b)
				kinds["Write"]++
			case k < 3: // Write of bytes that do not decode
				b := []byte{byte(r.Intn(256)), byte(r.Intn(256)), 0x84, 0, 0, 9, 0, 0, 0, 0, 0, 0, 3}
				ok := new(dns.Msg).Unpack(b) == nil
				reqs = append(reqs, fmt.Sprintf("WB %s %s 0", vC10WRLE(b), vC10WBool(ok)))
				_, _ = ch.Writer.Write(b)
				kinds["Write-garbage"]++
			case k < 5: // WriteWire
				b, _ := m.Pack()
				reqs = append(reqs, fmt.Sprintf("WW %s %d", vC10WRLE(b), m.Rcode))
				_ = base.WriteWire(b, WireInfo{Rcode: m.Rcode})
				kinds["WriteWire"]++
			default: // WriteMsg: ordinary / a record TryPack declines / an extended rcode without OPT
				switch sub {
				case 0:
					m.Answer = append(m.Answer, vC10ForeignA{&dns.A{Hdr: dns.RR_Header{Name: req.Question[0].Name, Rrtype: dns.TypeA, Class: dns.ClassINET, Ttl: 5}, A: net.IPv4(10, 3, 3, 3)}})
					kinds["WriteMsg-foreign-rr"]++
				case 1:
					m.Rcode = 16 + r.Intn(8)
					kinds["WriteMsg-extended-rcode"]++
				default:
					kinds["WriteMsg"]++
				}
				// the environment: does the pooled packer take this message, and what does it yield
				packed := "None"
				var packedBytes []byte
				handled, _ := wire.TryPack(m, func(body []byte) error {
					packed = "(Some " + vC10WRLE(body) + ")"
					packedBytes = append([]byte(nil), body...)
					return nil
				})
				ownBytes[i] = packedBytes
				if !handled {
					packed = "None"
				}
				msgNo[m] = i + 1
				reqs = append(reqs, fmt.Sprintf("WM %d %d %s", i+1, m.Rcode, packed))
				_ = ch.Writer.WriteMsg(m)
			}
			switch len(calls) - before {
			case 0:
				obs = append(obs, "None")
				desc = append(desc, "-")
			case 1:
				c := calls[before]
				if c.msg != nil {
					no, known := msgNo[c.msg]
					if !known {
						no = 999
						fails = append(fails, fmt.Sprintf("request %d: the transport was handed a message object no handler of this request wrote", i+1))
					}
					obs = append(obs, fmt.Sprintf("Some (%d,None,%d)", c.tr, no))
					desc = append(desc, fmt.Sprintf("WriteMsg(msg %d)->tr %d", no, c.tr))
				} else {
					obs = append(obs, fmt.Sprintf("Some (%d,Some %s,0)", c.tr, vC10WRLE(c.bytes)))
					if own, isMsg := ownBytes[i]; isMsg && own != nil && string(own) != string(c.bytes) {
						fails = append(fails, fmt.Sprintf("request %d: WriteMsg handed the transport %d octets that are not the packed form of its message (%d octets)", i+1, len(c.bytes), len(own)))
					}
					desc = append(desc, fmt.Sprintf("Write(%d octets)->tr %d", len(c.bytes), c.tr))
				}
				if c.tr != tr.id {
					fails = append(fails, fmt.Sprintf("request %d: the reply went to transport %d, the chain is bound to %d", i+1, c.tr, tr.id))
				}
			default:
				obs = append(obs, "Some (999,None,999)") // more than one transport call: never equal to the model
				fails = append(fails, fmt.Sprintf("request %d: %d transport calls for one write", i+1, len(calls)-before))
				desc = append(desc, fmt.Sprintf("%d calls", len(calls)-before))
			}
		}
		if len(calls) > 1 {
			fails = append(fails, fmt.Sprintf("%d transport calls for one request", len(calls)))
		}
		fin := fmt.Sprintf("(%d,%s,%s,%s)", base.rcode, vC10WBool(base.Written()), vC10WBool(base.msg != nil), vC10WBool(base.wire != nil))
		line := map[string]any{
			"k": map[bool]string{true: "wpath", false: "corpus:wpath-" + func() string {
				if fix != nil {
					return fix.Name
				}
				return ""
			}()}[fix == nil],
			"coq": fmt.Sprintf("CaseWPath %d %s %s %s [%s] [%s] %s", tr.id, vC10WBool(tr.tcp), vC10WBool(tr.internal), vC10WBool(direct),
				strings.Join(reqs, ";"), strings.Join(obs, ";"), fin),
			"nontrivial": len(calls) == 1 && nreq > 1,
			"desc":       map[string]any{"transport": tr.id, "internal": tr.internal, "direct": direct, "transport_write_parks": parked, "calls": desc, "kinds": kinds, "final_rcode_written_msg_wire": fin},
		}
		if len(fails) > 0 {
			line["go_fail"] = strings.Join(fails, "; ")
		}
		b, _ := json.Marshal(line)
		f.Write(append(b, '\n'))
		// the pack-state view of the same history: this request's WriteMsg went out as bytes while its
		// transport write was parked and another request was packed and sent in between
		if len(calls) == 1 && calls[0].msg == nil && len(nested) == 1 && nested[0].msg == nil {
			first := -1
			for i := 0; i < nreq; i++ {
				if own, ok := ownBytes[i]; ok && own != nil {
					first = i
					break
				}
			}
			if first >= 0 && direct && !tr.internal && (first == 0 || strings.HasPrefix(reqs[0], "WB") && strings.Contains(reqs[0], "false")) && obs[first] != "None" {
				k2 := 1
				if nested[0].addr == calls[0].addr {
					k2 = 0 // the packer handed the second request the buffer the first one's transport still holds
				}
				pl := map[string]any{"k": strings.Replace(line["k"].(string), "wpath", "wpack", 1), "nontrivial": true,
					"coq": fmt.Sprintf("CasePack [PP 1 0 %s;PWB 1;PP 2 %d %s;PWB 2;PC 2;PR 2;PC 1;PR 1] [(2,%s);(1,%s)]",
						vC10WRLE(ownBytes[first]), k2, vC10WRLE(nestedWant), vC10WRLE(nested[0].bytes), vC10WRLE(calls[0].bytes)),
					"desc": map[string]any{"same_buffer": k2 == 0, "octets_1": len(calls[0].bytes), "octets_2": len(nested[0].bytes)}}
				if k2 == 0 {
					pl["go_fail"] = "the packer handed a second request the buffer whose bytes the first request's transport had not taken yet"
				}
				b, _ := json.Marshal(pl)
				f.Write(append(b, '\n'))
			}
		}
		p.PutChain(ch)
	}
}

func TestVerifC10Writer(t *testing.T) {
	out := os.Getenv("VERIF_OUT")
	if out == "" {
		t.Skip("VERIF_OUT not set")
	}
	f, err := os.Create(out)
	if err != nil {
		t.Fatal(err)
	}
	defer f.Close()
	seed, _ := strconv.Atoi(os.Getenv("VERIF_SEED"))
	n, _ := strconv.Atoi(os.Getenv("VERIF_N"))
	if n == 0 {
		n = 200
	}
	r := rand.New(rand.NewSource(int64(seed)*31337 + 10))
	p := newPipeline(nil, map[string]Handler{}, nil, RecursionWorkPolicy{})

	for cn := 0; cn < n; cn++ {
		var sink []vC10Emit
		var trs []*vC10Tr
		for i := 1; i <= 4; i++ {
			trs = append(trs, &vC10Tr{id: i, tcp: i%2 == 0, sink: &sink})
		}
		var ch *Chain
		var ops, obs []string
		var resets []map[string]any
		kinds := map[string]int{}
		nops := 4 + r.Intn(10)
		qn := 0
		var req *dns.Msg
		for op := 0; op < nops; op++ {
			k := r.Intn(10)
			if ch == nil {
				k = 0
			}
			switch {
			case k < 4: // a new request on some transport
				if ch != nil {
					if r.Intn(4) == 0 {
						ch.Writer = &vC10Wrap{ch.Writer} // never restored
						kinds["wrapper-left"]++
					}
					if r.Intn(3) != 0 {
						p.PutChain(ch)
						ch = p.NewChain()
						kinds["pool-cycle"]++
					}
				} else {
					ch = p.NewChain()
				}
				tr := trs[r.Intn(len(trs))]
				qn++
				req = new(dns.Msg)
				req.SetQuestion(fmt.Sprintf("q%d.c%d.writer.test.", qn, cn), dns.TypeA)
				req.Id = uint16(r.Intn(65536))
				if r.Intn(2) == 0 {
					ch.Reset(tr, req)
					kinds["Reset"]++
				} else {
					ch.ResetWire(tr, NewRequest(req))
					kinds["ResetWire"]++
				}
				// every field the base writer keeps, right after the rebinding: the new
				// transport's facts, nothing of the request served before
				if base, ok := ch.Writer.(*responseWriter); ok {
					ipb := 0
					if ip4 := base.remoteip.To4(); ip4 != nil {
						ipb = int(ip4[3])
					}
					view := fmt.Sprintf("(%d,%s,%d,%s,%s,%s,%s,%s)", base.rcode, vC10WBool(base.proto == "tcp"), ipb, vC10WBool(base.internal),
						vC10WBool(base.Written()), vC10WBool(base.directPack), vC10WBool(base.msg != nil), vC10WBool(base.wire != nil))
					resets = append(resets, map[string]any{"k": "writer-reset", "nontrivial": qn > 1,
						"coq":  fmt.Sprintf("CaseWReset %d %s %d %s", tr.id, vC10WBool(tr.tcp), tr.id, view),
						"desc": map[string]any{"transport": tr.id, "request_on_this_chain": qn, "view_rcode_tcp_ip_internal_written_direct_msg_wire": view}})
				}
				if r.Intn(2) == 0 {
					ch.AllowDirectPack()
				}
				ops = append(ops, fmt.Sprintf("(Some %d,[])", tr.id))
				obs = append(obs, "None")
			default: // a reply (or a second one)
				m := new(dns.Msg)
				m.SetReply(req)
				m.Answer = []dns.RR{&dns.A{Hdr: dns.RR_Header{Name: req.Question[0].Name, Rrtype: dns.TypeA, Class: dns.ClassINET, Ttl: uint32(r.Intn(600))}, A: net.IPv4(10, 0, byte(r.Intn(256)), byte(r.Intn(256)))}}
				if r.Intn(3) == 0 {
					m.Rcode = []int{dns.RcodeNameError, dns.RcodeServerFailure, dns.RcodeRefused}[r.Intn(3)]
					m.Answer = nil
				}
				want, _ := m.Pack()
				before := len(sink)
				if r.Intn(2) == 0 {
					_, _ = ch.Writer.Write(want)
					kinds["Write"]++
				} else {
					_ = ch.Writer.WriteMsg(m)
					kinds["WriteMsg"]++
				}
				ops = append(ops, fmt.Sprintf("(None,%s)", vC10WRLE(want)))
				switch len(sink) - before {
				case 0:
					obs = append(obs, "None")
				case 1:
					obs = append(obs, fmt.Sprintf("Some (%d,%s)", sink[before].tr, vC10WRLE(sink[before].b)))
				default:
					obs = append(obs, fmt.Sprintf("Some (%d,[])", 999)) // more than one emission: never equal to the model
				}
			}
		}
		if ch != nil {
			p.PutChain(ch)
		}
		line := map[string]any{
			"k":          "writer",
			"coq":        fmt.Sprintf("CaseWriter [%s] [%s]", strings.Join(ops, ";"), strings.Join(obs, ";")),
			"nontrivial": len(sink) > 1,
			"desc":       map[string]any{"ops": len(ops), "emissions": len(sink), "kinds": kinds},
		}
		b, _ := json.Marshal(line)
		f.Write(append(b, '\n'))
		// one line per case: the last rebinding (the longest history behind it)
		if len(resets) > 0 {
			b, _ := json.Marshal(resets[len(resets)-1])
			f.Write(append(b, '\n'))
		}
	}

	for cn := 0; cn < n/2; cn++ {
		pl := newPipeline(nil, map[string]Handler{}, nil, RecursionWorkPolicy{})
		var sink []vC10Emit
		nslabs := 1 + r.Intn(3)
		slabCh := make([]*Chain, nslabs)
		chainID := map[*Chain]int{}
		for j := range slabCh {
			slabCh[j] = new(Chain)
			chainID[slabCh[j]] = j
		}
		type inflight struct {
			r, slab int // slab -1: pooled
			ch      *Chain
			req     *dns.Msg
		}
		var live []*inflight
		slabBusy := make([]bool, nslabs)
		var ops, obs []string
		kinds := map[string]int{}
		next := 0
		emitNone := func(op string) {
			ops = append(ops, op)
			obs = append(obs, "None")
		}
		end := func(i int) {
			x := live[i]
			live = append(live[:i], live[i+1:]...)
			if x.slab >= 0 {
				x.ch.Finish()
				slabBusy[x.slab] = false
				emitNone(fmt.Sprintf("KEW %d", x.r))
				kinds["end-wire"]++
			} else {
				pl.PutChain(x.ch)
				emitNone(fmt.Sprintf("KEP %d", x.r))
				kinds["end-pooled"]++
			}
		}
		nops := 8 + r.Intn(16)
		for op := 0; op < nops; op++ {
			k := r.Intn(10)
			switch {
			case k < 4 || len(live) == 0: // a request begins
				next++
				req := new(dns.Msg)
				req.SetQuestion(fmt.Sprintf("q%d.c%d.chains.test.", next, cn), dns.TypeA)
				req.Id = uint16(r.Intn(65536))
				tr := &vC10Tr{id: next, tcp: next%2 == 0, sink: &sink}
				free := -1
				for j := range slabBusy {
					if !slabBusy[j] && r.Intn(2) == 0 {
						free = j
					}
				}
				if free >= 0 && r.Intn(3) != 0 {
					ch := slabCh[free]
					pl.BindChain(ch)
					ch.ResetWire(tr, NewRequest(req))
					ch.AllowDirectPack()
					slabBusy[free] = true
					live = append(live, &inflight{next, free, ch, req})
					emitNone(fmt.Sprintf("KBW %d %d", next, free))
					kinds["begin-wire"]++
				} else {
					ch := pl.NewChain()
					id, seen := chainID[ch]
					if !seen {
						id = len(chainID)
						chainID[ch] = id
					}
					ch.Reset(tr, req)
					live = append(live, &inflight{next, -1, ch, req})
					emitNone(fmt.Sprintf("KBP %d %d", next, id))
					kinds["begin-pooled"]++
					if seen {
						kinds["pooled-chain-reused"]++
					}
				}
			case k < 8: // a request in flight writes its reply (or tries a second time)
				x := live[r.Intn(len(live))]
				m := new(dns.Msg)
				m.SetReply(x.req)
				m.Answer = []dns.RR{&dns.A{Hdr: dns.RR_Header{Name: x.req.Question[0].Name, Rrtype: dns.TypeA, Class: dns.ClassINET, Ttl: uint32(r.Intn(600))}, A: net.IPv4(10, 1, byte(x.r), byte(r.Intn(256)))}}
				want, _ := m.Pack()
				before := len(sink)
				if r.Intn(2) == 0 {
					_, _ = x.ch.Writer.Write(want)
				} else {
					_ = x.ch.Writer.WriteMsg(m)
				}
				ops = append(ops, fmt.Sprintf("KW %d %s", x.r, vC10WRLE(want)))
				switch len(sink) - before {
				case 0:
					obs = append(obs, "None")
				case 1:
					obs = append(obs, fmt.Sprintf("Some (%d,%s)", sink[before].tr, vC10WRLE(sink[before].b)))
				default:
					obs = append(obs, "Some (999999,[])")
				}
				kinds["write"]++
			default:
				end(r.Intn(len(live)))
			}
		}
		for len(live) > 0 {
			end(0)
		}
		line := map[string]any{
			"k":          "chains",
			"coq":        fmt.Sprintf("CaseChains %d [%s] [%s]", nslabs, strings.Join(ops, ";"), strings.Join(obs, ";")),
			"nontrivial": len(sink) > 1 && kinds["pooled-chain-reused"] > 0,
			"desc":       map[string]any{"slabs": nslabs, "ops": len(ops), "emissions": len(sink), "kinds": kinds},
		}
		b, _ := json.Marshal(line)
		f.Write(append(b, '\n'))
	}

	vC10PathCases(f, r, n)
}
