//go:build verif

package middleware

// C05 driver (a): generated query packets through Request.ParseWire and through
// dns.Msg.Unpack + the accessors of a message-born Request.  Every packet becomes
// one Coq case (model of ParseWire, model of the library, facts_of) and is also
// judged on the Go side: accepted => the library accepts, decodes exactly one
// question and every fact agrees; refused => the Request is left zero.

import (
	"encoding/hex"
	"encoding/json"
	"fmt"
	"math/rand"
	"net/netip"
	"os"
	"reflect"
	"strconv"
	"strings"
	"testing"
	"time"

	"github.com/miekg/dns"
	"github.com/semihalev/sdns/internal/dnsutil"
)

func vC05Bytes(b []byte) string {
	if len(b) == 0 {
		return "[]"
	}
	var sb strings.Builder
	sb.WriteByte('[')
	for i, x := range b {
		if i > 0 {
			sb.WriteByte(';')
		}
		sb.WriteString(strconv.Itoa(int(x)))
	}
	sb.WriteString("]%N")
	return sb.String()
}

func vC05Bool(b bool) string {
	if b {
		return "true"
	}
	return "false"
}

type vC05Facts struct {
	id, flags, qtype, qclass uint16
	name                     []byte
	qend                     int
	hasOPT                   bool
	udpSize                  uint16
	do                       bool
	version                  uint8
	ecs, nsid, ka            bool
	cookieClient, cookieEcho []byte
}

func (f vC05Facts) coq() string {
	return fmt.Sprintf("(mk_facts %d %d %d %d %s %d %s %d %s %d %s %s %s %s %s)",
		f.id, f.flags, f.qtype, f.qclass, vC05Bytes(f.name), f.qend,
		vC05Bool(f.hasOPT), f.udpSize, vC05Bool(f.do), f.version,
		vC05Bool(f.ecs), vC05Bool(f.nsid), vC05Bool(f.ka), vC05Bytes(f.cookieClient), vC05Bytes(f.cookieEcho))
}

func (f vC05Facts) diff(g vC05Facts) string {
	var d []string
	add := func(ok bool, s string) {
		if !ok {
			d = append(d, s)
		}
	}
	add(f.id == g.id, "id")
	add(f.flags == g.flags, "flags")
	add(f.qtype == g.qtype, "qtype")
	add(f.qclass == g.qclass, "qclass")
	add(string(f.name) == string(g.name), "name")
	add(f.qend == g.qend, "qend")
	add(f.hasOPT == g.hasOPT, "hasopt")
	add(f.udpSize == g.udpSize, "udpsize")
	add(f.do == g.do, "do")
	add(f.version == g.version, "version")
	add(f.ecs == g.ecs, "ecs")
	add(f.nsid == g.nsid, "nsid")
	add(f.ka == g.ka, "keepalive")
	add(string(f.cookieClient) == string(g.cookieClient), "cookie-client")
	add(string(f.cookieEcho) == string(g.cookieEcho), "cookie-echo")
	return strings.Join(d, ",")
}

// facts of a wire-born request, read through the accessors handlers use
func vC05WireFacts(r *Request) vC05Facts {
	return vC05Facts{
		id: r.ID(), flags: r.flags, qtype: r.Qtype(), qclass: r.Qclass(),
		name: append([]byte{}, r.WireName()...), qend: r.WireQuestionEnd(),
		hasOPT: r.HasOPT(), udpSize: r.UDPSize(), do: r.DO(), version: r.EDNSVersion(),
		ecs: r.HasECS(), nsid: r.HasNSID(), ka: r.HasTCPKeepalive(),
		cookieClient: append([]byte{}, r.ClientCookie()...), cookieEcho: append([]byte{}, r.CookieEcho()...),
	}
}

func vC05MsgBits(m *dns.Msg) uint16 {
	var b uint16
	set := func(c bool, mask uint16) {
		if c {
			b |= mask
		}
	}
	set(m.Response, 1<<15)
	b |= uint16(m.Opcode&0xF) << 11
	set(m.Authoritative, 1<<10)
	set(m.Truncated, 1<<9)
	set(m.RecursionDesired, 1<<8)
	set(m.RecursionAvailable, 1<<7)
	set(m.Zero, 1<<6)
	set(m.AuthenticatedData, 1<<5)
	set(m.CheckingDisabled, 1<<4)
	b |= uint16(m.Rcode & 0xF)
	return b
}

// facts of the decoded message, read through a message-born Request and through the
// two cookie readers of the decoded path (dnsutil.SetEdns0, ratelimit's option loop)
func vC05MsgFacts(m *dns.Msg) vC05Facts {
	r := NewRequest(m)
	f := vC05Facts{
		id: r.ID(), flags: vC05MsgBits(m), qtype: r.Qtype(), qclass: r.Qclass(),
		hasOPT: r.HasOPT(), udpSize: r.UDPSize(), do: r.DO(), version: r.EDNSVersion(),
		ecs: r.HasECS(), nsid: r.HasNSID(), ka: r.HasTCPKeepalive(),
	}
	if len(m.Question) > 0 {
		buf := make([]byte, 300)
		n, err := dns.PackDomainName(m.Question[0].Name, buf, 0, nil, false)
		if err == nil {
			f.name = buf[:n]
		}
	}
	f.qend = 12 + len(f.name) + 4
	if opt := m.IsEdns0(); opt != nil {
		for _, o := range opt.Option {
			if o.Option() == dns.EDNS0COOKIE && len(o.String()) >= 16 {
				f.cookieEcho, _ = hex.DecodeString(o.String())
				break
			}
		}
	}
	cp := m.Copy()
	_, _, cookie, _, _ := dnsutil.SetEdns0(cp, nil, netip.Addr{})
	if cookie != "" {
		f.cookieClient, _ = hex.DecodeString(cookie)
	}
	return f
}

// ---------------------------------------------------------------- generator

type vC05Gen struct {
	r     *rand.Rand
	valid bool // mostly-valid packet: shapes the strict parser is meant to take
}

func (g *vC05Gen) pick(xs ...int) int { return xs[g.r.Intn(len(xs))] }

func (g *vC05Gen) label(n int) []byte {
	b := make([]byte, 0, n+1)
	b = append(b, byte(n))
	for i := 0; i < n; i++ {
		switch g.r.Intn(12) {
		case 0:
			b = append(b, byte(g.r.Intn(256)))
		case 1:
			b = append(b, byte("ABCXYZ.\\ "[g.r.Intn(9)]))
		default:
			b = append(b, byte('a'+g.r.Intn(26)))
		}
	}
	return b
}

// question name; kind tags what was generated
func (g *vC05Gen) name() ([]byte, string) {
	var b []byte
	x := g.r.Intn(100)
	if g.valid {
		// plain / root / 63-octet label / boundary (253..255) / many labels
		x = g.pick(0, 0, 0, 0, 0, 0, 56, 61, 95, 200, 200)
	}
	switch {
	case x == 200:
		total := g.pick(253, 254, 255)
		rem := total - 1
		for rem > 0 {
			n := 63
			if rem-1 < n {
				n = rem - 1
			}
			b = append(b, g.label(n)...)
			rem -= n + 1
		}
		return append(b, 0), "name-boundary-ok"
	case x < 55:
		for i, n := 0, 1+g.r.Intn(4); i < n; i++ {
			b = append(b, g.label(1+g.r.Intn(8))...)
		}
		return append(b, 0), "plain"
	case x < 60:
		return []byte{0}, "root"
	case x < 64:
		b = append(b, g.label(63)...)
		b = append(b, g.label(1+g.r.Intn(3))...)
		return append(b, 0), "label63"
	case x < 68:
		// reserved label type 0x40 / 0x80
		b = append(b, g.label(1+g.r.Intn(4))...)
		b = append(b, byte(g.pick(0x40, 0x41, 0x80, 0xBF, 0x7F)))
		b = append(b, byte(g.r.Intn(256)), 0)
		return b, "reserved-label"
	case x < 76:
		// compression pointer: self, forward, backward, into the header
		b = append(b, g.label(1+g.r.Intn(4))...)
		tgt := g.pick(12, 12+len(b), 0, 4, 13, 200, 12+len(b)+2, 12+len(b)+6)
		b = append(b, 0xC0|byte(tgt>>8), byte(tgt))
		return b, "pointer"
	case x < 80:
		// name without terminator (runs into type/class or off the end)
		b = append(b, g.label(2+g.r.Intn(6))...)
		return b, "unterminated"
	case x < 84:
		// label longer than what follows
		b = append(b, byte(20+g.r.Intn(40)), 'a', 'b')
		return b, "label-overrun"
	case x < 92:
		// name-length boundary: total wire length 253..257
		total := g.pick(253, 254, 255, 255, 256, 257)
		rem := total - 1
		for rem > 0 {
			n := 63
			if rem-1 < n {
				n = rem - 1
			}
			if n == 0 {
				// cannot fit a label in one byte; grow the previous one by folding
				b = append(b, 0)
				break
			}
			b = append(b, g.label(n)...)
			rem -= n + 1
		}
		return append(b, 0), "name-boundary"
	default:
		for i, n := 0, 5+g.r.Intn(8); i < n; i++ {
			b = append(b, g.label(1+g.r.Intn(3))...)
		}
		return append(b, 0), "many-labels"
	}
}

func vC05Put16(b []byte, v int) []byte { return append(b, byte(v>>8), byte(v)) }

func (g *vC05Gen) option() ([]byte, string) {
	opt := func(code int, data []byte) []byte {
		b := vC05Put16(nil, code)
		b = vC05Put16(b, len(data))
		return append(b, data...)
	}
	rb := func(n int) []byte {
		b := make([]byte, n)
		for i := range b {
			b[i] = byte(g.r.Intn(256))
		}
		return b
	}
	x := g.r.Intn(100)
	if g.valid {
		switch g.r.Intn(6) {
		case 0:
			return opt(10, rb(g.pick(8, 8, 16, 24, 40))), "cookie"
		case 1:
			return opt(3, nil), "nsid"
		case 2:
			fam := g.pick(1, 1, 2, 0)
			mask, scope, alen := g.pick(0, 8, 24, 32), g.pick(0, 0, 24, 32), g.pick(0, 3, 4)
			if fam == 2 {
				mask, scope, alen = g.pick(0, 48, 56, 128), g.pick(0, 0, 64, 128), g.pick(0, 7, 16)
			}
			if fam == 0 {
				mask, alen = 0, g.pick(0, 4)
			}
			d := vC05Put16(nil, fam)
			d = append(d, byte(mask), byte(scope))
			return opt(8, append(d, rb(alen)...)), "subnet"
		case 3:
			return opt(12, make([]byte, g.pick(0, 6, 31))), "padding"
		case 4:
			return opt(11, rb(g.pick(0, 2))), "keepalive"
		default:
			x = g.r.Intn(100) // anything
		}
	}
	switch {
	case x < 22:
		return opt(10, rb(g.pick(8, 8, 8, 16, 24, 32, 40, 40, 7, 41, 0, 1, 9, 39))), "cookie"
	case x < 32:
		return opt(3, rb(g.pick(0, 0, 0, 3))), "nsid"
	case x < 58:
		fam := g.pick(1, 1, 1, 2, 2, 0, 0, 3, 256, 65535)
		mask := g.pick(0, 0, 8, 24, 32, 33, 56, 64, 128, 129, 255)
		scope := g.pick(0, 0, 0, 24, 32, 33, 128, 129, 255)
		alen := g.pick(0, 1, 3, 4, 4, 7, 16, 17)
		d := vC05Put16(nil, fam)
		d = append(d, byte(mask), byte(scope))
		d = append(d, rb(alen)...)
		if g.r.Intn(10) == 0 {
			d = d[:g.r.Intn(4)]
		}
		return opt(8, d), "subnet"
	case x < 66:
		return opt(12, make([]byte, g.pick(0, 1, 6, 12))), "padding"
	case x < 76:
		return opt(11, rb(g.pick(0, 0, 2, 2, 1, 3, 4))), "keepalive"
	case x < 80:
		return opt(1, rb(g.pick(18, 18, 17, 0, 20))), "llq"
	case x < 83:
		return opt(2, rb(g.pick(4, 8, 5, 0))), "ul"
	case x < 86:
		return opt(9, rb(g.pick(0, 4, 2, 5))), "expire"
	case x < 89:
		return opt(15, rb(g.pick(2, 6, 1, 0))), "ede"
	case x < 91:
		return opt(19, rb(g.pick(2, 5, 1, 0))), "zoneversion"
	case x < 93:
		return opt(g.pick(5, 6, 7, 4), rb(g.pick(0, 2))), "dau-dhu-n3u-esu"
	case x < 95:
		return opt(18, append(g.label(3), 0)), "reporting"
	default:
		return opt(g.pick(65001, 65534, 13, 14, 16, 17, 20, 0, 255, 256), rb(g.pick(0, 1, 4))), "other-code"
	}
}

func (g *vC05Gen) optRR() ([]byte, []string) {
	var tags []string
	var rd []byte
	for i, n := 0, g.pick(0, 0, 1, 1, 1, 2, 2, 3, 4); i < n; i++ {
		o, t := g.option()
		rd = append(rd, o...)
		tags = append(tags, t)
	}
	var b []byte
	switch g.r.Intn(40) {
	case 0:
		b = append(b, 1, 'x', 0) // non-root owner
		tags = append(tags, "opt-owner")
	case 1:
		b = append(b, 0xC0, 12)
		tags = append(tags, "opt-owner-ptr")
	default:
		b = append(b, 0)
	}
	typ := 41
	if g.r.Intn(30) == 0 {
		typ = g.pick(1, 28, 250, 0, 42)
		tags = append(tags, "opt-type")
	}
	b = vC05Put16(b, typ)
	b = vC05Put16(b, g.pick(0, 512, 1232, 1232, 4096, 65535, 511, 1233, g.r.Intn(65536)))
	ext := 0
	if g.r.Intn(25) == 0 {
		ext = g.pick(1, 255, 16)
		tags = append(tags, "ext-rcode")
	}
	ver := 0
	if g.r.Intn(12) == 0 {
		ver = g.pick(1, 2, 255)
		tags = append(tags, "version")
	}
	fl := g.pick(0, 0, 0x8000, 0x8000, 0x4000, 0xFFFF, 0x7FFF, 1)
	b = append(b, byte(ext), byte(ver))
	b = vC05Put16(b, fl)
	rdlen := len(rd)
	switch g.r.Intn(30) {
	case 0:
		rdlen++
		tags = append(tags, "rdlen+1")
	case 1:
		if rdlen > 0 {
			rdlen--
			tags = append(tags, "rdlen-1")
		}
	case 2:
		if len(rd) >= 4 {
			// option length field overruns the record
			rd[len(rd)-len(rd)%4-1]++ // harmless perturbation of a byte
			tags = append(tags, "opt-perturbed")
		}
	}
	b = vC05Put16(b, rdlen)
	b = append(b, rd...)
	return b, tags
}

func (g *vC05Gen) packet() ([]byte, string) {
	var tags []string
	g.valid = g.r.Intn(100) < 55
	if g.valid {
		tags = append(tags, "mostly-valid")
	}
	id := g.r.Intn(65536)
	flags := g.pick(0x0100, 0x0100, 0x0100, 0x0000, 0x0110, 0x0120, 0x0130, 0x0010, 0x0020)
	if g.r.Intn(6) == 0 {
		// any single bit / opcode / rcode nibble
		switch g.r.Intn(4) {
		case 0:
			flags ^= 1 << uint(g.r.Intn(16))
		case 1:
			flags = (flags &^ 0x7800) | g.r.Intn(16)<<11
		case 2:
			flags |= g.r.Intn(16)
		default:
			flags = g.r.Intn(65536)
		}
		tags = append(tags, "flags")
	}
	qd, an, ns, ar := 1, 0, 0, 0
	withOPT := g.r.Intn(100) < 65
	if withOPT {
		ar = 1
	}
	nm, nk := g.name()
	tags = append(tags, "name:"+nk)
	b := vC05Put16(nil, id)
	b = vC05Put16(b, flags)
	body := append([]byte{}, nm...)
	body = vC05Put16(body, g.pick(1, 1, 28, 15, 16, 2, 5, 6, 12, 33, 43, 46, 48, 255, 252, 41, 0, 65535))
	body = vC05Put16(body, g.pick(1, 1, 1, 1, 3, 4, 255, 254, 0, 65535))
	if withOPT {
		o, ot := g.optRR()
		body = append(body, o...)
		tags = append(tags, "opt")
		for _, t := range ot {
			tags = append(tags, t)
		}
	}
	dmg := g.r.Intn(40)
	if g.valid && g.r.Intn(8) != 0 {
		dmg = 99
	}
	switch dmg {
	case 0:
		qd = g.pick(0, 2, 3, 65535)
		tags = append(tags, "qd")
	case 1:
		an = g.pick(1, 2)
		tags = append(tags, "an")
	case 2:
		ns = g.pick(1, 2)
		tags = append(tags, "ns")
	case 3:
		ar = g.pick(0, 1, 2, 3)
		tags = append(tags, "ar")
	case 4:
		// a second additional record: another OPT or an empty-rdata record
		ar = 2
		if g.r.Intn(2) == 0 {
			o, _ := g.optRR()
			body = append(body, o...)
			tags = append(tags, "two-opt")
		} else {
			body = append(body, 0)
			body = vC05Put16(body, g.pick(1, 41, 250))
			body = vC05Put16(body, 1)
			body = append(body, 0, 0, 0, 0, 0, 0)
			tags = append(tags, "extra-empty-rr")
		}
	case 5:
		// an answer record with empty rdata before the additional section is not
		// expressible by appending; put an empty-rdata record in place of the OPT
		an = 1
		tags = append(tags, "an-claims-opt")
	case 6:
		body = append(body, make([]byte, g.pick(1, 2, 11))...)
		tags = append(tags, "trailing")
	}
	b = vC05Put16(b, qd)
	b = vC05Put16(b, an)
	b = vC05Put16(b, ns)
	b = vC05Put16(b, ar)
	b = append(b, body...)
	fin := g.r.Intn(25)
	if g.valid && g.r.Intn(8) != 0 {
		fin = 99
	}
	switch fin {
	case 0:
		b = b[:g.r.Intn(len(b)+1)]
		tags = append(tags, "truncated")
	case 1:
		if len(b) > 12 {
			i := 12 + g.r.Intn(len(b)-12)
			b[i] ^= byte(1 << uint(g.r.Intn(8)))
			tags = append(tags, "bitflip")
		}
	case 2:
		if len(b) > 0 {
			b = b[:len(b)-1]
			tags = append(tags, "short-by-one")
		}
	}
	return b, strings.Join(tags, " ")
}

func vC05Kind(tags string, accepted bool, libErr bool) string {
	k := "refused"
	if accepted {
		k = "accepted"
	}
	if libErr {
		k += "+liberr"
	}
	switch {
	case strings.Contains(tags, "opt"):
		k += "/opt"
	default:
		k += "/noopt"
	}
	return k
}

func TestVerifC05ParseWire(t *testing.T) {
	path := os.Getenv("VERIF_OUT")
	if path == "" {
		t.Skip("VERIF_OUT not set")
	}
	f, err := os.Create(path)
	if err != nil {
		t.Fatal(err)
	}
	defer f.Close()
	seed, _ := strconv.Atoi(os.Getenv("VERIF_SEED"))
	n, _ := strconv.Atoi(os.Getenv("VERIF_N"))
	if n == 0 {
		n = 1500
	}
	g := &vC05Gen{r: rand.New(rand.NewSource(int64(seed)*7919 + 505))}

	emit := func(raw []byte, tags string) {
		var r Request
		// a dirty request: ParseWire must reset whatever the slot held before
		r.hasECS, r.cookieLen, r.cookieOff, r.hasNSID = true, 9, 3, true
		ok := r.ParseWire(raw, time.Time{}, nil)
		goFail := ""
		pw := "None"
		var wf vC05Facts
		if ok {
			wf = vC05WireFacts(&r)
			pw = "(Some " + wf.coq() + ")"
			// the accessor view of the flags word
			if r.RD() != (r.flags&0x0100 != 0) || r.CD() != (r.flags&0x0010 != 0) || r.AD() != (r.flags&0x0020 != 0) || r.Opcode() != int(r.flags>>11)&0xF {
				goFail = "flag accessors disagree with the flags word"
			}
			if r.Msg() == nil {
				goFail = "accepted packet does not materialize"
			}
		} else if !reflect.DeepEqual(r, Request{}) {
			goFail = "refused packet left state in the Request"
		}
		m := new(dns.Msg)
		uerr := m.Unpack(raw)
		lib := "LibErrObs"
		var mf vC05Facts
		if uerr == nil {
			mf = vC05MsgFacts(m)
			lib = fmt.Sprintf("(LibOkObs %d %s)", len(m.Question), mf.coq())
		}
		if ok && goFail == "" {
			switch {
			case uerr != nil:
				goFail = "accepted a packet the library rejects: " + uerr.Error()
			case len(m.Question) != 1:
				goFail = fmt.Sprintf("accepted a packet with %d decoded questions", len(m.Question))
			default:
				if d := wf.diff(mf); d != "" {
					goFail = "facts differ: " + d
				}
				if r.RD() != m.RecursionDesired || r.CD() != m.CheckingDisabled || r.AD() != m.AuthenticatedData || r.Opcode() != m.Opcode {
					goFail = "flag accessors differ from the decoded header"
				}
			}
		}
		desc := map[string]any{"raw": hex.EncodeToString(raw), "tags": tags, "accepted": ok, "lib_err": fmt.Sprint(uerr)}
		if ok {
			desc["wire_facts"] = fmt.Sprintf("%+v", wf)
		}
		if uerr == nil {
			desc["msg_facts"] = fmt.Sprintf("%+v", mf)
		}
		b, _ := json.Marshal(map[string]any{
			"k":          vC05Kind(tags, ok, uerr != nil),
			"coq":        fmt.Sprintf("CasePW %s %s %s", vC05Bytes(raw), pw, lib),
			"desc":       desc,
			"nontrivial": ok || len(raw) > 12,
			"go_fail":    goFail,
		})
		f.Write(append(b, '\n'))
	}

	// corpus first
	if dir := os.Getenv("VERIF_CORPUS"); dir != "" {
		if data, err := os.ReadFile(dir + "/packets.hex"); err == nil {
			for _, line := range strings.Split(string(data), "\n") {
				line = strings.TrimSpace(line)
				if line == "" || strings.HasPrefix(line, "#") {
					continue
				}
				fields := strings.Fields(line)
				raw, err := hex.DecodeString(fields[0])
				if err != nil {
					continue
				}
				emit(raw, "corpus "+strings.Join(fields[1:], " "))
			}
		}
	}
	if rp := os.Getenv("VERIF_REPLAY"); rp != "" {
		if data, err := os.ReadFile(rp); err == nil {
			var rep map[string]any
			if json.Unmarshal(data, &rep) == nil {
				for _, key := range []string{"case", "first_mismatching_case"} {
					c, _ := rep[key].(map[string]any)
					d, _ := c["desc"].(map[string]any)
					if s, _ := d["raw"].(string); s != "" {
						if raw, err := hex.DecodeString(s); err == nil {
							emit(raw, "replay")
						}
					}
				}
			}
		}
	}
	for c := 0; c < n; c++ {
		raw, tags := g.packet()
		emit(raw, tags)
	}
}
